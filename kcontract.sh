#!/bin/bash
# kcontract.sh — diagnostic, NOT a registered check.
# Probes of the kernel contract (DESIGN.md §3 KC1–KC8, Appendix B) with raw io_uring system calls:
# first on the real io_uring of this machine, then — the same probes, as far as they do not need the
# kernel to complete an operation on its own — on the simulated kernel of the harness.
# Exit 1 if a probe fails in either mode.
set -u
ROOT=$(cd "$(dirname "$0")" && pwd)
(cd "$ROOT/harness" && RUSTFLAGS="--cfg a10_verif" CARGO_NET_OFFLINE=true cargo build --offline --quiet) || exit 2
rc=0
"$ROOT/harness/target/debug/a10h" kc --tier real || rc=1
"$ROOT/harness/target/debug/a10h" kc --tier sim || rc=1
exit $rc
