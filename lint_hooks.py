#!/usr/bin/env python3
"""Hook coverage of the schedule-based correspondence checks (C03 C04 C05 C06 C08 C11).

The deterministic scheduler can only interleave threads at a10's `cfg(a10_verif)` scheduling points. Every
access to a word shared between threads or with the kernel (atomics, the mutex helpers) must therefore be
preceded by `verif::sched_point(..)`; an access without one is an interleaving point the correspondence
check cannot explore, so the reduced models (SqRing, Wake, Blocked, CqRing, Pool) are no longer tied to the
code there.  Prints one line per uncovered access: `<file>:<line> fn <name>: <code>`; exit 1 if any.

usage: lint_hooks.py [repo] [--files a.rs,b.rs]
"""
import os, re, sys
repo = sys.argv[1] if len(sys.argv) > 1 and not sys.argv[1].startswith("--") else "/repo"
FILES = ["src/lib.rs", "src/io_uring/mod.rs", "src/io_uring/sq.rs", "src/io_uring/cq.rs", "src/io_uring/io.rs",
         "src/io_uring/op.rs", "src/io_uring/fd.rs"]
ATOMIC = re.compile(r"\.(load|store|swap|fetch_[a-z_]+|compare_exchange[a-z_]*|compare_and_swap)\s*\(")
LOCK = re.compile(r"\.(lock|try_lock)\s*\(\s*\)")
FN = re.compile(r"^\s*(?:pub(?:\([^)]*\))?\s+)?(?:const\s+)?(?:unsafe\s+)?fn\s+([A-Za-z0-9_]+)")
# (file suffix, function) pairs whose accesses are not shared-state protocol steps
ALLOW = {
    ("src/lib.rs", "set_hook"), ("src/lib.rs", "sched_point"), ("src/lib.rs", "hook_installed"),
    ("src/lib.rs", "fmt"),                    # Debug output
    ("src/io_uring/io.rs", "new"),            # ReadBufPool::new: id counter; ring not yet registered
    ("src/io_uring/io.rs", "fmt"),
}
def strip(line):
    return line.split("//")[0]
bad = []
for f in FILES:
    p = os.path.join(repo, f)
    if not os.path.exists(p):
        continue
    lines = open(p).read().split("\n")
    in_verif_mod = False
    depth_at_mod = None
    depth = 0
    cur_fn = "?"
    for i, raw in enumerate(lines):
        line = strip(raw)
        if re.search(r"\bmod\s+verif\b", line) and "{" in line:
            in_verif_mod, depth_at_mod = True, depth
        m = FN.match(line)
        if m:
            cur_fn = m.group(1)
        opens, closes = line.count("{"), line.count("}")
        depth += opens - closes
        if in_verif_mod and depth <= depth_at_mod and closes:
            in_verif_mod = False
            continue
        if in_verif_mod:
            continue
        hit = None
        if ATOMIC.search(line) and ("Ordering::" in line or (i + 1 < len(lines) and "Ordering::" in lines[i + 1])):
            hit = "atomic"
        elif LOCK.search(line) and f == "src/lib.rs" and cur_fn in ("lock", "try_lock"):
            hit = "lock"
        elif LOCK.search(line) and "mutex" not in line and f != "src/lib.rs":
            # a direct std Mutex call that bypasses the hooked helpers `lock(&m)` / `try_lock(&m)`
            hit = "direct-lock"
        if not hit:
            continue
        if (f, cur_fn) in ALLOW:
            continue
        # look back (same function) for a scheduling point
        covered = False
        k, seen = i - 1, 0
        while k >= 0 and seen < 8:
            l = strip(lines[k])
            if FN.match(l):
                break
            if l.strip():
                seen += 1
                if "sched_point(" in l or "lock_hook(" in l:
                    covered = True
                    break
                if ATOMIC.search(l) and "Ordering::" in l:
                    break  # another access in between: each needs its own point
            k -= 1
        if not covered:
            bad.append(f"{f}:{i + 1} fn {cur_fn}: {raw.strip()}")
for b in bad:
    print(b)
sys.exit(1 if bad else 0)
