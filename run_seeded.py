#!/usr/bin/env python3
"""Apply each seeded change (seeded/<id>/patch.diff) to /repo, run the quick
check of the property it breaks, undo it. Prints which checks catch which changes.
Never leaves /repo modified."""
import json, os, subprocess, sys
ROOT = os.path.dirname(os.path.abspath(__file__))
REPO = os.environ.get("A10_REPO", "/repo")  # seedrun.sh points this at a private clone
only = sys.argv[1:]
rows = []
for d in sorted(os.listdir(os.path.join(ROOT, "seeded"))):
    p = os.path.join(ROOT, "seeded", d)
    if not os.path.isdir(p) or (only and d not in only):
        continue
    meta = json.load(open(os.path.join(p, "meta.json")))
    prop = meta["property"]
    patch = os.path.join(p, "patch.diff")
    st = subprocess.run(["git", "-C", REPO, "status", "--porcelain", "--untracked-files=no"], capture_output=True, text=True).stdout.strip()
    if st:
        print(f"refusing: {REPO} has local changes"); sys.exit(2)
    a = subprocess.run(["git", "-C", REPO, "apply", patch], capture_output=True, text=True)
    if a.returncode != 0:
        rows.append((d, prop, "PATCH-DOES-NOT-APPLY", a.stderr.strip()[:100]))
        print("row: " + " | ".join(rows[-1]), flush=True)
        continue
    try:
        props = [prop] + meta.get("also_check", [])
        res = []
        for pr in props:
            r = subprocess.run([os.path.join(ROOT, "check"), pr, "--tier", "quick"], capture_output=True, text=True, cwd=ROOT, timeout=3600)
            v = [l for l in r.stdout.splitlines() if l.startswith("VIOLATION")]
            # the oracle signatures named in the replay files (second line: "# signature: …")
            sigs = []
            for l in v:
                m = [t for t in l.split() if t.startswith("replay=")]
                if m and os.path.exists(m[0][7:]):
                    for rl in open(m[0][7:], errors="replace").read().splitlines()[:3]:
                        if rl.startswith("# signature:"):
                            sigs.append(rl[12:].strip())
            v = [x + (" [" + ", ".join(sorted(set(sigs))) + "]" if i == 0 and sigs else "") for i, x in enumerate(v[:2])]
            res.append((pr, r.returncode, v[:2]))
    finally:
        subprocess.run(["git", "-C", REPO, "checkout", "--", "."])
    caught = any(rc == 1 and v for _, rc, v in res)
    rows.append((d, prop, "CAUGHT" if caught else "MISSED", "; ".join(f"{pr}: rc={rc} {' | '.join(x[:260] for x in v)}" for pr, rc, v in res)))
    print("row: " + " | ".join(rows[-1]), flush=True)
    subprocess.run(["rm", "-rf", os.path.join(ROOT, "replays")])
for r in rows:
    print(" | ".join(r))
