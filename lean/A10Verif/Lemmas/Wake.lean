/-
Lemmas for the wake/poll handshake model (`Model/Wake.lean`): the moves of the
interleaving, the inductive invariant `Inv` and its preservation by every move.
-/
import A10Verif.Model.Wake

namespace A10.Wake

open A10

/-! ### Moves -/

/-- One move of the interleaving: a new `Ring::poll` call, a poller step, a new
`wake()` call by waker `j`, a step of waker `j`, the SQPOLL kernel thread, an
unrelated completion, another submission being queued. -/
inductive Mv where
  | poll (inf : Bool)
  | p
  | call (j : Nat)
  | w (j : Nat)
  | k
  | io
  /-- somebody starts an operation: its submission is queued (not submitted) -/
  | fill
  deriving Repr, DecidableEq

def stepMv (s : St) : Mv → St
  | .poll inf => startPoll s inf
  | .p => stepP s
  | .call j => startWake s j
  | .w j => stepW s j
  | .k => stepK s
  | .io => stepIo s
  | .fill => stepFill s

def runMv (s : St) : List Mv → St
  | [] => s
  | m :: ms => runMv (stepMv s m) ms

theorem runMv_append (s : St) (a b : List Mv) : runMv s (a ++ b) = runMv (runMv s a) b := by
  induction a generalizing s with
  | nil => rfl
  | cons m ms ih => exact ih (stepMv s m)

/-- The start state: nothing queued, nobody polling, no wakers yet. -/
def initC (mode : Mode) (sqLen cqLen : Nat) : St := { mode, sqLen, cqLen }

/-- The start state with the default completion queue (64 slots here; a10's default is twice the
submission queue). -/
def init (mode : Mode) (sqLen : Nat) : St := initC mode sqLen 64

/-! ### Classification of the program counters -/

/-- The POLLING bit is set: between the `swap(POLLING)` (c3) and the `swap(0)` (c4). -/
def PPc.polling : PPc → Bool
  | .e3 _ _ | .waiting | .c4 => true
  | _ => false

/-- The poller has not yet executed the `swap(POLLING)` of its current / next call. -/
def PPc.preSwap : PPc → Bool
  | .idle | .start _ | .c3 _ => true
  | _ => false

/-- The poller is past the swap and cannot block any more: zero timeout, or already leaving. -/
def PPc.noBlock : PPc → Bool
  | .e3 false _ | .c4 | .c5 => true
  | _ => false

/-- A waker between its `fetch_or` and its return that will certainly produce a
message or a completion whatever happened before: it still has to add its
message (`QueueFull` retry), or it is about to make the synchronous register call. -/
def WPc.robust : WPc → Bool
  | .enter false _ | .sync => true
  | _ => false

/-- The DESIGN's coarser class: between the `fetch_or` and `done` on the sending path. -/
def WPc.sending : WPc → Bool
  | .enter _ _ | .sync => true
  | _ => false

/-- Some waker satisfies `P`. -/
def Has (P : WPc → Prop) (l : List WPc) : Prop := ∃ (i : Nat) (pc : WPc), l[i]? = some pc ∧ P pc

theorem get_set {l : List WPc} {i : Nat} {t t' : WPc} (h : l[i]? = some t) (k : Nat) :
    (l.set i t')[k]? = if k = i then some t' else l[k]? := by
  rw [List.getElem?_set]
  have hi : i < l.length := by
    rcases Nat.lt_or_ge i l.length with h1 | h1
    · exact h1
    · rw [List.getElem?_eq_none h1] at h; cases h
  by_cases hk : k = i
  · subst hk; simp [hi]
  · have : ¬ i = k := fun e => hk e.symm
    simp [hk, this]

theorem Has.mono {P Q : WPc → Prop} {l : List WPc} (h : Has P l) (hpq : ∀ pc, P pc → Q pc) :
    Has Q l := by
  rcases h with ⟨i, pc, a, b⟩
  exact ⟨i, pc, a, hpq pc b⟩

theorem Has.set_other {P : WPc → Prop} {l : List WPc} {j : Nat} {q x : WPc}
    (h : Has P l) (hj : l[j]? = some q) (hq : ¬ P q) : Has P (l.set j x) := by
  rcases h with ⟨i, pc, a, b⟩
  refine ⟨i, pc, ?_, b⟩
  rw [get_set hj]
  have : i ≠ j := by
    intro e; subst e; rw [a] at hj; cases hj; exact hq b
  simp [this, a]

theorem Has.set_self {P : WPc → Prop} {l : List WPc} {j : Nat} {q x : WPc}
    (hj : l[j]? = some q) (hx : P x) : Has P (l.set j x) := by
  refine ⟨j, x, ?_, hx⟩
  rw [get_set hj]; simp

theorem Has.append {P : WPc → Prop} {l : List WPc} (h : Has P l) (l' : List WPc) :
    Has P (l ++ l') := by
  rcases h with ⟨i, pc, a, b⟩
  refine ⟨i, pc, ?_, b⟩
  have hi : i < l.length := by
    rcases Nat.lt_or_ge i l.length with h1 | h1
    · exact h1
    · rw [List.getElem?_eq_none h1] at a; cases a
  rw [List.getElem?_append_left hi]; exact a

theorem not_has_of_all {P : WPc → Prop} {l : List WPc} {q : WPc} (hall : ∀ pc ∈ l, pc = q)
    (hq : ¬ P q) : ¬ Has P l := by
  rintro ⟨i, pc, a, b⟩
  have := hall pc (List.mem_of_getElem? a)
  subst this; exact hq b

/-! ### The invariant -/

/-- What an unanswered wake call guarantees (the disjunction of DESIGN.md, with the
sharper class `robust` of wakers). -/
def Pending (s : St) : Prop :=
  0 < s.avail ∨ true ∈ s.sq ∨ Has (fun pc => pc.robust = true) s.w ∨
    (s.word / 2 % 2 = 1 ∧ s.p.preSwap = true) ∨ s.p.noBlock = true

structure Inv (s : St) : Prop where
  /-- the submission queue has at least one slot -/
  len : 1 ≤ s.sqLen
  /-- never more entries than slots -/
  sqle : s.sq.length ≤ s.sqLen
  /-- the POLLING bit follows the poller's pc; the word has no other bits than the two -/
  word : if s.p.polling = true then (s.word = 1 ∨ s.word = 3) else (s.word = 0 ∨ s.word = 2)
  /-- POLLING|AWOKEN: the waker that made the transition POLLING → POLLING|AWOKEN in this
  polling period is sending, or its message / completion is there (the completion
  queue is not emptied while POLLING is set) -/
  aw : s.p.polling = true → s.word = 3 →
    0 < s.avail ∨ true ∈ s.sq ∨ Has (fun pc => pc.robust = true) s.w
  /-- the obligation of a wake call that passed its `fetch_or` -/
  ob : s.oblig = true → Pending s
  /-- a `fetch_or` before the swap leaves AWOKEN set until the swap -/
  obw : s.oblig = true → s.p.preSwap = true → s.word = 2
  /-- without SQPOLL, the published wake messages are covered by the `enter` of a waker
  that has added its message: the one that appended the last wake message is going to
  submit everything up to and including it (all wake messages are among the first `n`
  entries; consumption is FIFO, so entries appended later do not matter) -/
  cover : s.mode ≠ .sqpoll → true ∈ s.sq →
    Has (fun pc => ∃ n, pc = .enter true n ∧ true ∉ s.sq.drop n) s.w
  /-- without SQPOLL, a waker that saw `QueueFull` submits a full queue -/
  full : s.mode ≠ .sqpoll → ∀ (j n : Nat), s.w[j]? = some (.enter false n) → s.sqLen ≤ n
  /-- the completion queue has at least one slot -/
  clen : 1 ≤ s.cqLen

theorem inv_initC (mode : Mode) (sqLen cqLen : Nat) (h : 1 ≤ sqLen) (hc : 1 ≤ cqLen) :
    Inv (initC mode sqLen cqLen) := by
  refine ⟨h, ?_, ?_, ?_, ?_, ?_, ?_, ?_, hc⟩ <;> simp [initC, PPc.polling]

theorem inv_init (mode : Mode) (sqLen : Nat) (h : 1 ≤ sqLen) : Inv (init mode sqLen) :=
  inv_initC mode sqLen 64 h (by decide)

/-! ### The simple moves -/

/-! #### `post` and `flush` only touch the two completion counters -/

@[simp] theorem St.avail_eq (s : St) : s.avail = s.cq + s.ovf := rfl

theorem post_eq (s : St) (k : Nat) : ∃ c o, post s k = { s with cq := c, ovf := o } ∧
    c + o = s.avail + k ∧ s.cq ≤ c := by
  refine ⟨_, _, rfl, ?_, ?_⟩
  · simp only [St.avail]; split <;> omega
  · split <;> omega

theorem flush_eq (s : St) : ∃ c o, flush s = { s with cq := c, ovf := o } ∧
    c + o = s.avail ∧ s.cq ≤ c ∧ (1 ≤ s.cqLen → c = 0 → o = 0) := by
  refine ⟨_, _, rfl, ?_, ?_, ?_⟩
  · simp only [St.avail]; omega
  · omega
  · omega

@[simp] theorem post_p (s : St) (k : Nat) : (post s k).p = s.p := rfl
@[simp] theorem post_w (s : St) (k : Nat) : (post s k).w = s.w := rfl
@[simp] theorem post_word (s : St) (k : Nat) : (post s k).word = s.word := rfl
@[simp] theorem post_mode (s : St) (k : Nat) : (post s k).mode = s.mode := rfl
@[simp] theorem post_sqLen (s : St) (k : Nat) : (post s k).sqLen = s.sqLen := rfl
@[simp] theorem post_cqLen (s : St) (k : Nat) : (post s k).cqLen = s.cqLen := rfl
@[simp] theorem post_oblig (s : St) (k : Nat) : (post s k).oblig = s.oblig := rfl
@[simp] theorem post_returns (s : St) (k : Nat) : (post s k).returns = s.returns := rfl
@[simp] theorem post_sq (s : St) (k : Nat) : (post s k).sq = s.sq := rfl
@[simp] theorem flush_p (s : St) : (flush s).p = s.p := rfl
@[simp] theorem flush_w (s : St) : (flush s).w = s.w := rfl
@[simp] theorem flush_word (s : St) : (flush s).word = s.word := rfl
@[simp] theorem flush_mode (s : St) : (flush s).mode = s.mode := rfl
@[simp] theorem flush_sqLen (s : St) : (flush s).sqLen = s.sqLen := rfl
@[simp] theorem flush_cqLen (s : St) : (flush s).cqLen = s.cqLen := rfl
@[simp] theorem flush_oblig (s : St) : (flush s).oblig = s.oblig := rfl
@[simp] theorem flush_returns (s : St) : (flush s).returns = s.returns := rfl
@[simp] theorem flush_sq (s : St) : (flush s).sq = s.sq := rfl

theorem post_avail (s : St) (k : Nat) : (post s k).avail = s.avail + k := by
  rcases post_eq s k with ⟨c, o, e, h, _⟩
  rw [e]; exact h

theorem post_cq_le (s : St) (k : Nat) : s.cq ≤ (post s k).cq := by
  rcases post_eq s k with ⟨c, o, e, _, h⟩
  rw [e]; exact h

theorem flush_avail (s : St) : (flush s).avail = s.avail := by
  rcases flush_eq s with ⟨c, o, e, h, _⟩
  rw [e]; exact h

theorem flush_cq_le (s : St) : s.cq ≤ (flush s).cq := by
  rcases flush_eq s with ⟨c, o, e, _, h, _⟩
  rw [e]; exact h

/-- After a flush an empty queue means that nothing is available at all. -/
theorem flush_cq_zero {s : St} (hc : 1 ≤ s.cqLen) (h : ¬ (flush s).cq > 0) : (flush s).avail = 0 := by
  rcases flush_eq s with ⟨c, o, e, _, _, hz⟩
  rw [e] at h ⊢
  have : c = 0 := by simpa using h
  have := hz hc this
  simp only [St.avail]; omega

theorem flush_cq_pos {s : St} (hc : 1 ≤ s.cqLen) (h : 0 < s.avail) : (flush s).cq > 0 := by
  by_cases hz : (flush s).cq > 0
  · exact hz
  · have := flush_cq_zero hc hz
    rw [flush_avail] at this
    omega

/-- The completion counters may change in any way that does not lose a completion. -/
theorem inv_counters {s : St} (h : Inv s) (c o : Nat) (hle : s.avail ≤ c + o) :
    Inv { s with cq := c, ovf := o } := by
  rcases h with ⟨h1, h2, h3, h4, h5, h6, h7, h8, h9⟩
  refine ⟨h1, h2, h3, ?_, ?_, h6, h7, h8, h9⟩
  · intro a b
    rcases h4 a b with d | d | d
    · left; simp only [St.avail] at *; omega
    · right; left; exact d
    · right; right; exact d
  · intro a
    rcases h5 a with d | d | d
    · left; simp only [St.avail] at *; omega
    · right; left; exact d
    · right; right; exact d

theorem inv_post {s : St} (h : Inv s) (k : Nat) : Inv (post s k) := by
  rcases post_eq s k with ⟨c, o, e, hk, _⟩
  rw [e]; exact inv_counters h c o (by omega)

theorem inv_flush {s : St} (h : Inv s) : Inv (flush s) := by
  rcases flush_eq s with ⟨c, o, e, hk, _⟩
  rw [e]; exact inv_counters h c o (by omega)

theorem consume_avail_le (s : St) (n : Nat) : s.avail ≤ (consume s n).avail := by
  unfold consume; rw [post_avail]; simp only [St.avail]; omega

theorem consume_cq_le (s : St) (n : Nat) : s.cq ≤ (consume s n).cq := by
  exact post_cq_le { s with sq := s.sq.drop n } _

theorem consume_sq (s : St) (n : Nat) : (consume s n).sq = s.sq.drop n := rfl

theorem consume_len (s : St) (n : Nat) : (consume s n).sq.length = s.sq.length - n := by
  simp [consume]

/-- A queued wake message is either still queued after a `consume`, or its completion
has been posted. -/
theorem consume_true {s : St} (n : Nat) (h : true ∈ s.sq) :
    0 < (consume s n).avail ∨ true ∈ (consume s n).sq := by
  have h' : true ∈ s.sq.take n ++ s.sq.drop n := by rw [List.take_append_drop]; exact h
  rcases List.mem_append.1 h' with a | a
  · left
    have : true ∈ (s.sq.take n).filter id := List.mem_filter.2 ⟨a, rfl⟩
    have := List.length_pos_of_mem this
    unfold consume; rw [post_avail]; omega
  · right; rw [consume_sq]; exact a

theorem not_mem_drop_drop {l : List Bool} {n : Nat} (h : true ∉ l.drop n) (m : Nat) :
    true ∉ (l.drop m).drop n := by
  intro hm
  rw [List.drop_drop] at hm
  apply h
  have e : l.drop (m + n) = (l.drop n).drop m := by rw [List.drop_drop, Nat.add_comm]
  rw [e] at hm
  exact List.mem_of_mem_drop hm

theorem not_mem_drop_append_false {l : List Bool} {n : Nat} (h : true ∉ l.drop n) :
    true ∉ (l ++ [false]).drop n := by
  intro hm
  rw [List.drop_append] at hm
  rcases List.mem_append.1 hm with a | a
  · exact h a
  · have := List.mem_of_mem_drop a
    simp at this

theorem inv_stepIo {s : St} (h : Inv s) : Inv (stepIo s) := inv_post h 1

theorem consume_p (s : St) (n : Nat) : (consume s n).p = s.p := rfl
theorem consume_w (s : St) (n : Nat) : (consume s n).w = s.w := rfl
theorem consume_word (s : St) (n : Nat) : (consume s n).word = s.word := rfl
theorem consume_mode (s : St) (n : Nat) : (consume s n).mode = s.mode := rfl
theorem consume_sqLen (s : St) (n : Nat) : (consume s n).sqLen = s.sqLen := rfl
theorem consume_cqLen (s : St) (n : Nat) : (consume s n).cqLen = s.cqLen := rfl
theorem consume_oblig (s : St) (n : Nat) : (consume s n).oblig = s.oblig := rfl
theorem consume_returns (s : St) (n : Nat) : (consume s n).returns = s.returns := rfl

/-- Consuming submissions (by anybody's `enter`, or the kernel thread) preserves the invariant. -/
theorem inv_consume {s : St} (h : Inv s) (n : Nat) : Inv (consume s n) := by
  rcases h with ⟨h1, h2, h3, h4, h5, h6, h7, h8, h9⟩
  have hav := consume_avail_le s n
  have hlen := consume_len s n
  refine ⟨?_, ?_, ?_, ?_, ?_, ?_, ?_, ?_, ?_⟩
  · rw [consume_sqLen]; exact h1
  · rw [consume_sqLen]; omega
  · rw [consume_p, consume_word]; exact h3
  · rw [consume_p, consume_word, consume_w]
    intro a b
    rcases h4 a b with c | c | c
    · left; omega
    · rcases consume_true n c with d | d
      · left; exact d
      · right; left; exact d
    · right; right; exact c
  · rw [consume_oblig]
    intro a
    unfold Pending at h5 ⊢
    rw [consume_p, consume_word, consume_w]
    rcases h5 a with c | c | c
    · left; omega
    · rcases consume_true n c with d | d
      · left; exact d
      · right; left; exact d
    · right; right; exact c
  · rw [consume_oblig, consume_p, consume_word]; exact h6
  · rw [consume_mode, consume_sq, consume_w]
    intro a b
    refine (h7 a (List.mem_of_mem_drop b)).mono ?_
    rintro pc ⟨m, e, f⟩
    exact ⟨m, e, not_mem_drop_drop f n⟩
  · rw [consume_mode, consume_w, consume_sqLen]; exact h8
  · rw [consume_cqLen]; exact h9

theorem inv_stepFill {s : St} (h : Inv s) : Inv (stepFill s) := by
  unfold stepFill
  split
  · rename_i hlt
    rcases h with ⟨h1, h2, h3, h4, h5, h6, h7, h8, h9⟩
    have hmem : ∀ {x : Bool}, x ∈ s.sq → x ∈ s.sq ++ [false] := fun hx =>
      List.mem_append.2 (Or.inl hx)
    refine ⟨h1, ?_, h3, ?_, ?_, h6, ?_, h8, h9⟩
    · show (s.sq ++ [false]).length ≤ s.sqLen
      simp; omega
    · intro a b
      rcases h4 a b with c | c | c
      · left; exact c
      · right; left; exact hmem c
      · right; right; exact c
    · intro a
      rcases h5 a with c | c | c | c
      · left; exact c
      · right; left; exact hmem c
      · right; right; left; exact c
      · right; right; right; exact c
    · intro a b
      have b' : true ∈ s.sq ++ [false] := b
      have : true ∈ s.sq := by
        rcases List.mem_append.1 b' with c | c
        · exact c
        · simp at c
      refine (h7 a this).mono ?_
      rintro pc ⟨m, e, f⟩
      exact ⟨m, e, not_mem_drop_append_false f⟩
  · exact h

theorem inv_stepK {s : St} (h : Inv s) : Inv (stepK s) := by
  unfold stepK
  split
  · exact inv_consume h _
  · exact h

theorem inv_startPoll {s : St} (h : Inv s) (inf : Bool) : Inv (startPoll s inf) := by
  unfold startPoll
  split
  · rename_i hp
    rcases h with ⟨h1, h2, h3, h4, h5, h6, h7, h8, h9⟩
    refine ⟨h1, h2, ?_, ?_, ?_, ?_, h7, h8, h9⟩
    · simpa [hp, PPc.polling] using h3
    · simp [PPc.polling]
    · intro a
      rcases h5 a with c | c | c | c | c
      · left; exact c
      · right; left; exact c
      · right; right; left; exact c
      · right; right; right; left; exact ⟨c.1, by simp [PPc.preSwap]⟩
      · simp [hp, PPc.noBlock] at c
    · intro a _
      exact h6 a (by simp [hp, PPc.preSwap])
  · exact h

theorem inv_startWake {s : St} (h : Inv s) (j : Nat) : Inv (startWake s j) := by
  unfold startWake
  rcases h with ⟨h1, h2, h3, h4, h5, h6, h7, h8, h9⟩
  split
  · refine ⟨h1, h2, h3, ?_, ?_, h6, ?_, ?_, h9⟩
    · intro a b
      rcases h4 a b with c | c | c
      · left; exact c
      · right; left; exact c
      · right; right; exact c.append _
    · intro a
      rcases h5 a with c | c | c | c
      · left; exact c
      · right; left; exact c
      · right; right; left; exact c.append _
      · right; right; right; exact c
    · intro a b
      exact (h7 a b).append _
    · intro a i n hi
      show s.sqLen ≤ n
      have hi' : (s.w ++ [WPc.k1])[i]? = some (.enter false n) := hi
      rcases Nat.lt_or_ge i s.w.length with lt | ge
      · rw [List.getElem?_append_left lt] at hi'
        exact h8 a i n hi'
      · rw [List.getElem?_append_right ge] at hi'
        rcases Nat.eq_zero_or_pos (i - s.w.length) with z | z
        · rw [z] at hi'; simp at hi'
        · rw [List.getElem?_eq_none (by simp; omega)] at hi'; cases hi'
  · split
    · rename_i hj
      have nr : ¬ (WPc.done.robust = true) := by simp [WPc.robust]
      refine ⟨h1, h2, h3, ?_, ?_, h6, ?_, ?_, h9⟩
      · intro a b
        rcases h4 a b with c | c | c
        · left; exact c
        · right; left; exact c
        · right; right; exact c.set_other hj nr
      · intro a
        rcases h5 a with c | c | c | c
        · left; exact c
        · right; left; exact c
        · right; right; left; exact c.set_other hj nr
        · right; right; right; exact c
      · intro a b
        exact (h7 a b).set_other hj (by simp)
      · intro a i n hi
        have hi' : (s.w.set j .k1)[i]? = some (.enter false n) := hi
        rw [get_set hj] at hi'
        split at hi'
        · cases hi'
        · exact h8 a i n hi'
    · exact ⟨h1, h2, h3, h4, h5, h6, h7, h8, h9⟩

/-! ### The poller -/

theorem inv_stepP {s : St} (h : Inv s) : Inv (stepP s) := by
  unfold stepP
  split
  · exact h
  · -- start
    rename_i inf hp
    rcases h with ⟨h1, h2, h3, h4, h5, h6, h7, h8, h9⟩
    split
    · refine ⟨h1, h2, ?_, ?_, ?_, ?_, h7, h8, h9⟩
      · simpa [hp, PPc.polling] using h3
      · simp [PPc.polling]
      · simp
      · simp
    · rename_i hcq
      refine ⟨h1, h2, ?_, ?_, ?_, ?_, h7, h8, h9⟩
      · simpa [hp, PPc.polling] using h3
      · simp [PPc.polling]
      · intro a
        rcases h5 a with c | c | c | c | c
        · left; exact c
        · right; left; exact c
        · right; right; left; exact c
        · right; right; right; left; exact ⟨c.1, by simp [PPc.preSwap]⟩
        · simp [hp, PPc.noBlock] at c
      · intro a _
        exact h6 a (by simp [hp, PPc.preSwap])
  · -- c3
    rename_i inf hp
    rcases h with ⟨h1, h2, h3, h4, h5, h6, h7, h8, h9⟩
    refine ⟨h1, h2, ?_, ?_, ?_, ?_, h7, h8, h9⟩
    · simp [PPc.polling, POLLING]
    · simp [POLLING]
    · intro a
      have hw : s.word = 2 := h6 a (by simp [hp, PPc.preSwap])
      right; right; right; right
      simp [hw, PPc.noBlock]
    · simp [PPc.preSwap]
  · -- e3
    rename_i block n hp
    have h' := inv_flush (inv_consume h n)
    have hp' : (flush (consume s n)).p = .e3 block n := by rw [flush_p, consume_p]; exact hp
    have hz : ¬ (flush (consume s n)).cq > 0 → (flush (consume s n)).avail = 0 :=
      flush_cq_zero (by rw [consume_cqLen]; exact h.clen)
    generalize flush (consume s n) = t at h' hp' hz
    rcases h' with ⟨h1, h2, h3, h4, h5, h6, h7, h8, h9⟩
    simp only [Pending, hp', PPc.polling, PPc.preSwap] at h3 h4 h5 h6
    have hc4 : Inv { t with p := .c4 } := by
      refine ⟨h1, h2, ?_, ?_, ?_, ?_, h7, h8, h9⟩
      · simpa [PPc.polling] using h3
      · simpa [PPc.polling] using h4
      · intro _; right; right; right; right; simp [PPc.noBlock]
      · simp [PPc.preSwap]
    show Inv (if t.cq > 0 then { t with p := .c4 } else if block = true then { t with p := .waiting }
      else { t with p := .c4 })
    by_cases hcq : t.cq > 0
    · rw [if_pos hcq]; exact hc4
    · rw [if_neg hcq]
      have hz' := hz hcq
      by_cases hb : block = true
      · rw [if_pos hb]
        subst hb
        refine ⟨h1, h2, ?_, ?_, ?_, ?_, h7, h8, h9⟩
        · simpa [PPc.polling] using h3
        · simpa [PPc.polling] using h4
        · intro a
          rcases h5 a with c | c | c | c | c
          · omega
          · right; left; exact c
          · right; right; left; exact c
          · simp at c
          · simp [PPc.noBlock] at c
        · simp [PPc.preSwap]
      · rw [if_neg hb]; exact hc4
  · -- waiting
    rename_i hp
    have h' := inv_flush h
    have hp' : (flush s).p = .waiting := hp
    generalize flush s = t at h' hp'
    show Inv (if t.cq > 0 then { t with p := .c4 } else t)
    split
    · rcases h' with ⟨h1, h2, h3, h4, h5, h6, h7, h8, h9⟩
      refine ⟨h1, h2, ?_, ?_, ?_, ?_, h7, h8, h9⟩
      · simpa [hp', PPc.polling] using h3
      · simpa [hp', PPc.polling] using h4
      · intro _; right; right; right; right; simp [PPc.noBlock]
      · simp [PPc.preSwap]
    · exact h'
  · -- c4
    rcases h with ⟨h1, h2, h3, h4, h5, h6, h7, h8, h9⟩
    refine ⟨h1, h2, ?_, ?_, ?_, ?_, h7, h8, h9⟩
    · simp [PPc.polling]
    · simp [PPc.polling]
    · intro _; right; right; right; right; simp [PPc.noBlock]
    · simp [PPc.preSwap]
  · -- c5
    rename_i hp
    rcases h with ⟨h1, h2, h3, h4, h5, h6, h7, h8, h9⟩
    refine ⟨h1, h2, ?_, ?_, ?_, ?_, h7, h8, h9⟩
    · simpa [hp, PPc.polling] using h3
    · simp [PPc.polling]
    · simp
    · simp

/-! ### The wakers: normal forms of `stepW` -/

theorem stepW_k1_other {s : St} {j : Nat} (hj : s.w[j]? = some .k1) (hw : s.word ≠ 1) :
    stepW s j = { s with word := if s.word / 2 % 2 = 1 then s.word else s.word + 2, oblig := true,
                         w := s.w.set j .done } := by
  simp [stepW, hj, POLLING, hw]

theorem stepW_k1_single {s : St} {j : Nat} (hj : s.w[j]? = some .k1) (hw : s.word = 1)
    (hm : s.mode = .single) :
    stepW s j = { s with word := 3, oblig := true, w := s.w.set j .sync } := by
  simp [stepW, hj, POLLING, hw, hm]

theorem stepW_k1_add {s : St} {j : Nat} (hj : s.w[j]? = some .k1) (hw : s.word = 1)
    (hm : s.mode ≠ .single) (hlt : s.sq.length < s.sqLen) :
    stepW s j = { s with word := 3, oblig := true, sq := s.sq ++ [true],
                         w := s.w.set j (.enter true (if s.mode = .sqpoll then 0 else s.sq.length + 1)) } := by
  simp [stepW, hj, POLLING, hw, hm, tryAdd, hlt, toSubmit]

theorem stepW_k1_full {s : St} {j : Nat} (hj : s.w[j]? = some .k1) (hw : s.word = 1)
    (hm : s.mode ≠ .single) (hlt : ¬ s.sq.length < s.sqLen) :
    stepW s j = { s with word := 3, oblig := true,
                         w := s.w.set j (.enter false (if s.mode = .sqpoll then 0 else s.sq.length)) } := by
  simp [stepW, hj, POLLING, hw, hm, tryAdd, hlt, toSubmit]

theorem stepW_enter_true {s : St} {j n : Nat} (hj : s.w[j]? = some (.enter true n)) :
    stepW s j = { (consume s n) with w := s.w.set j .done } := by
  simp [stepW, hj, consume_w]

theorem stepW_enter_false_add {s : St} {j n : Nat} (hj : s.w[j]? = some (.enter false n))
    (hlt : (consume s n).sq.length < s.sqLen) :
    stepW s j = { (consume s n) with sq := (consume s n).sq ++ [true], w := s.w.set j (.enter true (if s.mode = .sqpoll then 0 else (consume s n).sq.length + 1)) } := by
  simp only [consume_sq, List.length_drop] at hlt
  simp [stepW, hj, consume_sq, consume_w, consume_mode, consume_sqLen, tryAdd, hlt, toSubmit]

theorem stepW_enter_false_full {s : St} {j n : Nat} (hj : s.w[j]? = some (.enter false n))
    (hlt : ¬ (consume s n).sq.length < s.sqLen) :
    stepW s j = { (consume s n) with w := s.w.set j (.enter false (if s.mode = .sqpoll then 0 else (consume s n).sq.length)) } := by
  simp only [consume_sq, List.length_drop] at hlt
  simp [stepW, hj, consume_sq, consume_w, consume_mode, consume_sqLen, tryAdd, hlt, toSubmit]

theorem stepW_sync {s : St} {j : Nat} (hj : s.w[j]? = some .sync) :
    stepW s j = { post s 1 with w := s.w.set j .done } := by
  simp [stepW, hj]

theorem stepW_done {s : St} {j : Nat} (hj : s.w[j]? = some .done) : stepW s j = s := by
  simp [stepW, hj]

theorem stepW_none {s : St} {j : Nat} (hj : s.w[j]? = none) : stepW s j = s := by
  simp [stepW, hj]

/-! ### The wakers: preservation -/

theorem full_set {l : List WPc} {j L : Nat} {q x : WPc} (hj : l[j]? = some q)
    (h8 : ∀ (i n : Nat), l[i]? = some (.enter false n) → L ≤ n)
    (hx : ∀ n, x = .enter false n → L ≤ n) :
    ∀ (i n : Nat), (l.set j x)[i]? = some (.enter false n) → L ≤ n := by
  intro i n hi
  rw [get_set hj] at hi
  split at hi
  · cases hi; exact hx n rfl
  · exact h8 i n hi

theorem robust_set {l : List WPc} {j : Nat} {q x : WPc} (hj : l[j]? = some q)
    (hq : q.robust = false) (h : Has (fun pc => pc.robust = true) l) :
    Has (fun pc => pc.robust = true) (l.set j x) :=
  h.set_other hj (by simp [hq])

theorem inv_stepW_k1_other {s : St} {j : Nat} (h : Inv s) (hj : s.w[j]? = some .k1)
    (hw : s.word ≠ 1) : Inv (stepW s j) := by
  rw [stepW_k1_other hj hw]
  rcases h with ⟨h1, h2, h3, h4, h5, h6, h7, h8, h9⟩
  have hk : WPc.k1.robust = false := rfl
  refine ⟨h1, h2, ?_, ?_, ?_, ?_, ?_, ?_, h9⟩
  · show if s.p.polling = true then _ else _
    split <;> rename_i hp <;> simp only [hp, if_true] at h3
      <;> rcases h3 with e | e <;> simp_all
  · intro a b
    have a' : s.p.polling = true := a
    simp only [a', if_true] at h3
    have e : s.word = 3 := by omega
    rcases h4 a' e with c | c | c
    · left; exact c
    · right; left; exact c
    · right; right; exact robust_set hj hk c
  · intro _
    show Pending _
    unfold Pending
    cases hp : s.p <;> simp only [hp, PPc.polling, PPc.preSwap, PPc.noBlock] at h3 h4 ⊢
    case idle | start | c3 =>
      right; right; right; left
      simp only [Bool.false_eq_true, if_false] at h3
      rcases h3 with e | e <;> simp [e]
    case e3 | waiting =>
      simp only [if_true] at h3
      have e : s.word = 3 := by omega
      rcases h4 trivial e with c | c | c
      · left; exact c
      · right; left; exact c
      · right; right; left; exact robust_set hj hk c
    case c4 | c5 => simp
  · intro _ b
    have b' : s.p.preSwap = true := b
    have : s.p.polling = false := by cases hp : s.p <;> simp_all [PPc.preSwap, PPc.polling]
    simp only [this] at h3
    show (if s.word / 2 % 2 = 1 then s.word else s.word + 2) = 2
    rcases h3 with e | e <;> simp_all
  · intro a b
    exact (h7 a b).set_other hj (by simp)
  · intro a
    exact full_set hj (h8 a) (by simp)

theorem polling_of_word_one {s : St} (h : Inv s) (hw : s.word = 1) : s.p.polling = true := by
  have h3 := h.word
  split at h3
  · assumption
  · omega

theorem preSwap_of_polling {p : PPc} (h : p.polling = true) : p.preSwap = false := by
  cases p <;> simp_all [PPc.polling, PPc.preSwap]

theorem inv_stepW_k1_single {s : St} {j : Nat} (h : Inv s) (hj : s.w[j]? = some .k1)
    (hw : s.word = 1) (hm : s.mode = .single) : Inv (stepW s j) := by
  rw [stepW_k1_single hj hw hm]
  have hpol := polling_of_word_one h hw
  have hpre := preSwap_of_polling hpol
  rcases h with ⟨h1, h2, h3, h4, h5, h6, h7, h8, h9⟩
  have hr : Has (fun pc => pc.robust = true) (s.w.set j .sync) := Has.set_self hj rfl
  refine ⟨h1, h2, ?_, ?_, ?_, ?_, ?_, ?_, h9⟩
  · simp [hpol]
  · intro _ _; right; right; exact hr
  · intro _; right; right; left; exact hr
  · intro _ b
    have b' : s.p.preSwap = true := b
    rw [hpre] at b'; cases b'
  · intro a b
    exact (h7 a b).set_other hj (by simp)
  · intro a
    exact full_set hj (h8 a) (by simp)

theorem inv_stepW_k1_add {s : St} {j : Nat} (h : Inv s) (hj : s.w[j]? = some .k1)
    (hw : s.word = 1) (hm : s.mode ≠ .single) (hlt : s.sq.length < s.sqLen) : Inv (stepW s j) := by
  rw [stepW_k1_add hj hw hm hlt]
  have hpol := polling_of_word_one h hw
  have hpre := preSwap_of_polling hpol
  rcases h with ⟨h1, h2, h3, h4, h5, h6, h7, h8, h9⟩
  have hin : true ∈ s.sq ++ [true] := by simp
  refine ⟨h1, ?_, ?_, ?_, ?_, ?_, ?_, ?_, h9⟩
  · show (s.sq ++ [true]).length ≤ s.sqLen
    simp; omega
  · simp [hpol]
  · intro _ _; right; left; exact hin
  · intro _; right; left; exact hin
  · intro _ b
    have b' : s.p.preSwap = true := b
    rw [hpre] at b'; cases b'
  · intro a _
    have a' : s.mode ≠ .sqpoll := a
    refine Has.set_self hj ⟨_, rfl, ?_⟩
    show true ∉ (s.sq ++ [true]).drop _
    simp [a']
  · intro a
    exact full_set hj (h8 a) (by simp)

theorem inv_stepW_k1_full {s : St} {j : Nat} (h : Inv s) (hj : s.w[j]? = some .k1)
    (hw : s.word = 1) (hm : s.mode ≠ .single) (hlt : ¬ s.sq.length < s.sqLen) :
    Inv (stepW s j) := by
  rw [stepW_k1_full hj hw hm hlt]
  have hpol := polling_of_word_one h hw
  have hpre := preSwap_of_polling hpol
  rcases h with ⟨h1, h2, h3, h4, h5, h6, h7, h8, h9⟩
  have hr : Has (fun pc => pc.robust = true)
      (s.w.set j (.enter false (if s.mode = .sqpoll then 0 else s.sq.length))) :=
    Has.set_self hj rfl
  refine ⟨h1, h2, ?_, ?_, ?_, ?_, ?_, ?_, h9⟩
  · simp [hpol]
  · intro _ _; right; right; exact hr
  · intro _; right; right; left; exact hr
  · intro _ b
    have b' : s.p.preSwap = true := b
    rw [hpre] at b'; cases b'
  · intro a b
    exact (h7 a b).set_other hj (by simp)
  · intro a
    have a' : s.mode ≠ .sqpoll := a
    refine full_set hj (h8 a) ?_
    intro n e
    simp only [a', if_false, WPc.enter.injEq, true_and] at e
    show s.sqLen ≤ n
    omega

theorem inv_stepW_enter_true {s : St} {j n : Nat} (h : Inv s)
    (hj : s.w[j]? = some (.enter true n)) : Inv (stepW s j) := by
  rw [stepW_enter_true hj]
  have h7 := h.cover
  rcases inv_consume h n with ⟨t1, t2, t3, t4, t5, t6, _, t8, t9⟩
  have hr : (WPc.enter true n).robust = false := rfl
  refine ⟨t1, t2, t3, ?_, ?_, t6, ?_, ?_, t9⟩
  · intro a b
    rcases t4 a b with c | c | c
    · left; exact c
    · right; left; exact c
    · right; right; exact robust_set hj hr c
  · intro a
    rcases t5 a with c | c | c | c
    · left; exact c
    · right; left; exact c
    · right; right; left; exact robust_set hj hr c
    · right; right; right; exact c
  · intro a b
    have b' : true ∈ s.sq.drop n := b
    rcases h7 a (List.mem_of_mem_drop b') with ⟨i, pc, hi, m, e, f⟩
    subst e
    have hne : i ≠ j := by
      intro e; subst e; rw [hi] at hj; cases hj; exact f b'
    refine ⟨i, _, ?_, m, rfl, ?_⟩
    · show (s.w.set j .done)[i]? = _
      rw [get_set hj]; simp [hne, hi]
    · show true ∉ (s.sq.drop n).drop m
      exact not_mem_drop_drop f n
  · intro a
    exact full_set hj (t8 a) (by simp)

theorem inv_stepW_enter_false {s : St} {j n : Nat} (h : Inv s)
    (hj : s.w[j]? = some (.enter false n)) : Inv (stepW s j) := by
  have ht := inv_consume h n
  have hjt : (consume s n).w[j]? = some (.enter false n) := hj
  by_cases hlt : (consume s n).sq.length < s.sqLen
  · have e : stepW s j = { (consume s n) with sq := (consume s n).sq ++ [true], w := (consume s n).w.set j (.enter true (if (consume s n).mode = .sqpoll then 0 else (consume s n).sq.length + 1)) } :=
      stepW_enter_false_add hj hlt
    rw [e]
    have hlt' : (consume s n).sq.length < (consume s n).sqLen := hlt
    generalize consume s n = t at ht hjt hlt'
    rcases ht with ⟨t1, t2, t3, t4, t5, t6, t7, t8, t9⟩
    have hin : true ∈ t.sq ++ [true] := by simp
    refine ⟨t1, ?_, t3, ?_, ?_, t6, ?_, ?_, t9⟩
    · show (t.sq ++ [true]).length ≤ t.sqLen
      simp; omega
    · intro _ _; right; left; exact hin
    · intro _; right; left; exact hin
    · intro a _
      have a' : t.mode ≠ .sqpoll := a
      refine Has.set_self hjt ⟨_, rfl, ?_⟩
      show true ∉ (t.sq ++ [true]).drop _
      simp [a']
    · intro a
      exact full_set hjt (t8 a) (by simp)
  · have e : stepW s j = { (consume s n) with w := (consume s n).w.set j (.enter false (if (consume s n).mode = .sqpoll then 0 else (consume s n).sq.length)) } :=
      stepW_enter_false_full hj hlt
    rw [e]
    have hlt' : ¬ (consume s n).sq.length < (consume s n).sqLen := hlt
    generalize consume s n = t at ht hjt hlt'
    rcases ht with ⟨t1, t2, t3, t4, t5, t6, t7, t8, t9⟩
    have hr : Has (fun pc => pc.robust = true)
        (t.w.set j (.enter false (if t.mode = .sqpoll then 0 else t.sq.length))) :=
      Has.set_self hjt rfl
    refine ⟨t1, t2, t3, ?_, ?_, t6, ?_, ?_, t9⟩
    · intro _ _; right; right; exact hr
    · intro _; right; right; left; exact hr
    · intro a b
      exact (t7 a b).set_other hjt (by simp)
    · intro a
      have a' : t.mode ≠ .sqpoll := a
      refine full_set hjt (t8 a) ?_
      intro m e
      simp only [a', if_false, WPc.enter.injEq, true_and] at e
      show t.sqLen ≤ m
      omega

theorem inv_stepW_sync {s : St} {j : Nat} (h : Inv s) (hj : s.w[j]? = some .sync) :
    Inv (stepW s j) := by
  rw [stepW_sync hj]
  rcases h with ⟨h1, h2, h3, h4, h5, h6, h7, h8, h9⟩
  refine ⟨h1, h2, h3, ?_, ?_, h6, ?_, ?_, h9⟩
  · intro _ _; left; show 0 < (post s 1).avail; rw [post_avail]; omega
  · intro _; left; show 0 < (post s 1).avail; rw [post_avail]; omega
  · intro a b
    exact (h7 a b).set_other hj (by simp)
  · intro a
    exact full_set hj (h8 a) (by simp)

theorem inv_stepW {s : St} (h : Inv s) (j : Nat) : Inv (stepW s j) := by
  cases hj : s.w[j]? with
  | none => rw [stepW_none hj]; exact h
  | some pc =>
    cases pc with
    | k1 =>
      by_cases hw : s.word = 1
      · by_cases hm : s.mode = .single
        · exact inv_stepW_k1_single h hj hw hm
        · by_cases hlt : s.sq.length < s.sqLen
          · exact inv_stepW_k1_add h hj hw hm hlt
          · exact inv_stepW_k1_full h hj hw hm hlt
      · exact inv_stepW_k1_other h hj hw
    | enter added n =>
      cases added
      · exact inv_stepW_enter_false h hj
      · exact inv_stepW_enter_true h hj
    | sync => exact inv_stepW_sync h hj
    | done => rw [stepW_done hj]; exact h

/-! ### Frame of a waker step -/

/-- A waker step only changes the polling word (at `k1`, by `fetch_or(AWOKEN)`), the
two queues, the wakers' pcs and the ghost `oblig`. -/
theorem stepW_shape (s : St) (j : Nat) :
    ∃ (wd cq ov : Nat) (sq : List Bool) (w : List WPc) (ob : Bool),
      stepW s j = { s with word := wd, cq := cq, ovf := ov, sq := sq, w := w, oblig := ob } ∧
      (wd = s.word ∨ (s.w[j]? = some .k1 ∧
        wd = if s.word / 2 % 2 = 1 then s.word else s.word + 2)) := by
  cases hj : s.w[j]? with
  | none => rw [stepW_none hj]; exact ⟨_, _, _, _, _, _, rfl, Or.inl rfl⟩
  | some pc =>
    cases pc with
    | k1 =>
      by_cases hw : s.word = 1
      · have e : (if s.word / 2 % 2 = 1 then s.word else s.word + 2) = 3 := by simp [hw]
        by_cases hm : s.mode = .single
        · rw [stepW_k1_single hj hw hm]; exact ⟨_, _, _, _, _, _, rfl, Or.inr ⟨rfl, e.symm⟩⟩
        · by_cases hlt : s.sq.length < s.sqLen
          · rw [stepW_k1_add hj hw hm hlt]; exact ⟨_, _, _, _, _, _, rfl, Or.inr ⟨rfl, e.symm⟩⟩
          · rw [stepW_k1_full hj hw hm hlt]; exact ⟨_, _, _, _, _, _, rfl, Or.inr ⟨rfl, e.symm⟩⟩
      · rw [stepW_k1_other hj hw]; exact ⟨_, _, _, _, _, _, rfl, Or.inr ⟨rfl, rfl⟩⟩
    | enter added n =>
      cases added
      · by_cases hlt : (consume s n).sq.length < s.sqLen
        · rw [stepW_enter_false_add hj hlt]; exact ⟨_, _, _, _, _, _, rfl, Or.inl rfl⟩
        · rw [stepW_enter_false_full hj hlt]; exact ⟨_, _, _, _, _, _, rfl, Or.inl rfl⟩
      · rw [stepW_enter_true hj]; exact ⟨_, _, _, _, _, _, rfl, Or.inl rfl⟩
    | sync => rw [stepW_sync hj]; exact ⟨_, _, _, _, _, _, rfl, Or.inl rfl⟩
    | done => rw [stepW_done hj]; exact ⟨_, _, _, _, _, _, rfl, Or.inl rfl⟩

theorem stepW_frame (s : St) (j : Nat) :
    (stepW s j).p = s.p ∧ (stepW s j).returns = s.returns ∧ (stepW s j).mode = s.mode ∧
    (stepW s j).sqLen = s.sqLen ∧ (stepW s j).cqLen = s.cqLen ∧
    (s.word = 2 → (stepW s j).word = 2) := by
  rcases stepW_shape s j with ⟨wd, cq, ov, sq, w, ob, e, hw⟩
  rw [e]
  refine ⟨rfl, rfl, rfl, rfl, rfl, ?_⟩
  intro h2
  show wd = 2
  rcases hw with h | ⟨_, h⟩
  · omega
  · rw [h, h2]; rfl

/-! ### All moves -/

theorem inv_stepMv {s : St} (h : Inv s) (m : Mv) : Inv (stepMv s m) := by
  cases m with
  | poll inf => exact inv_startPoll h inf
  | p => exact inv_stepP h
  | call j => exact inv_startWake h j
  | w j => exact inv_stepW h j
  | k => exact inv_stepK h
  | io => exact inv_stepIo h
  | fill => exact inv_stepFill h

theorem inv_runMv {s : St} (h : Inv s) (ms : List Mv) : Inv (runMv s ms) := by
  induction ms generalizing s with
  | nil => exact h
  | cons m ms ih => exact ih (inv_stepMv h m)

end A10.Wake
