/-
Inductive invariants of the teardown model and their preservation by every
step of a script.
-/
import A10Verif.Lemmas.Teardown

set_option linter.unusedSimpArgs false

namespace A10.Teardown
open A10 A10.OpSys

/-! ### Invariant D: operations and their tokens -/

structure InvD (s : St) : Prop where
  ok : AllOk s.ops
  /-- while the Ring exists every active operation has exactly one token and
  nobody else has any -/
  tok : s.ringLive = true → ∀ i, tokQ s.toQueues i = want s.ops i
  /-- … and every completion with `F_MORE` still to be processed is followed by
  its operation's token -/
  suf : s.ringLive = true → SufS s
  /-- after the Ring is gone only operations submitted afterwards are active -/
  late : s.ringLive = false → ∀ (i : Nat) (t : TOp), s.ops[i]? = some t → activeB t.op = true → t.late = true
  cq1 : 1 ≤ s.cqLen

theorem sharedDrop_frameD (s : St) :
    s.sharedDrop.ops = s.ops ∧ s.sharedDrop.ringLive = s.ringLive ∧ s.sharedDrop.cqLen = s.cqLen ∧
    (∀ i, tokQ s.sharedDrop.toQueues i = tokQ s.toQueues i) ∧ (SufS s → SufS s.sharedDrop) := by
  unfold St.sharedDrop
  simp only []
  split
  · refine ⟨rfl, rfl, rfl, fun i => rfl, fun h => h⟩
  · refine ⟨by simp [St.useSq], by simp [St.useSq], by simp [St.useSq], fun i => ?_, fun h => ?_⟩
    · show tokQ (((s.useSq.consumeAll.emit _).wakeBlocked).toQueues) i = _
      rw [tokQ_wakeBlocked, emit_queues, tokQ_consumeAll]; rfl
    · have h1 : SufS s.useSq.consumeAll := sufS_consumeAll _ h
      exact sufS_congr _ _ rfl rfl (fun _ => Nat.le_refl _) h1

theorem settlePool_sufS (s : St) (h : SufS s) : SufS s.settlePool := by
  obtain ⟨a, b, c, d⟩ := queues_fields _ _ (settlePool_queues s)
  refine sufS_congr s _ a b (fun j => ?_) h
  show baseQ _ j ≤ s.settlePool.sq.count _ + s.settlePool.inflight.count _
  rw [c, d]; exact Nat.le_refl _

theorem settle_frameD (s : St) :
    s.settle.ops = s.ops ∧ s.settle.ringLive = s.ringLive ∧ s.settle.cqLen = s.cqLen ∧
    (∀ i, tokQ s.settle.toQueues i = tokQ s.toQueues i) ∧ (SufS s → SufS s.settle) := by
  unfold St.settle St.settleShared
  split
  · obtain ⟨h1, h2, h3, h4, h5⟩ := sharedDrop_frameD s.settlePool
    refine ⟨by rw [h1]; simp, by rw [h2]; simp, by rw [h3]; simp, fun i => by rw [h4]; simp,
      fun h => h5 (settlePool_sufS s h)⟩
  · exact ⟨by simp, by simp, by simp, fun i => by simp, settlePool_sufS s⟩

theorem invD_of_frame (s s' : St) (h : InvD s) (h1 : s'.ops = s.ops) (h2 : s'.ringLive = s.ringLive)
    (h3 : s'.cqLen = s.cqLen) (h4 : ∀ i, tokQ s'.toQueues i = tokQ s.toQueues i)
    (h5 : SufS s → SufS s') : InvD s' := by
  obtain ⟨ok, tok, suf, late, cq1⟩ := h
  exact ⟨by rw [h1]; exact ok, fun hr i => by rw [h4, h1]; exact tok (by rw [← h2]; exact hr) i,
    fun hr => h5 (suf (by rw [← h2]; exact hr)),
    fun hr => by rw [h1]; exact late (by rw [← h2]; exact hr), by rw [h3]; exact cq1⟩

theorem invD_settle (s : St) (h : InvD s) : InvD s.settle := by
  obtain ⟨h1, h2, h3, h4, h5⟩ := settle_frameD s
  exact invD_of_frame s _ h h1 h2 h3 h4 h5

theorem invD_emit (s : St) (l : String) (h : InvD s) : InvD (s.emit l) :=
  invD_of_frame s _ h rfl rfl rfl (fun _ => rfl) (fun h => h)

theorem invD_newOp (s : St) (i : Nat) (k : Kind) (fd : Nat) (h : InvD s) : InvD (s.newOp i k fd) := by
  unfold St.newOp
  split
  · obtain ⟨ok, tok, suf, late, cq1⟩ := h
    have hin : activeB ({ op := { multi := k.multi }, kind := k, fd := fd } : TOp).op = false := by
      simp [activeB, isRunning, isDropped]
    refine ⟨?_, ?_, fun hr => suf hr, ?_, cq1⟩
    · intro t ht
      simp only [emit_objs] at ht
      rcases List.mem_append.mp ht with h1 | h1
      · exact ok t h1
      · simp at h1; subst h1; exact opOk_init _
    · intro hr j
      show tokQ s.toQueues j = want (s.ops ++ [_]) j
      rw [want_append_inactive _ _ hin]; exact tok hr j
    · intro hr j t hj ha
      have hj' : (s.ops ++ [({ op := { multi := k.multi }, kind := k, fd := fd } : TOp)])[j]? = some t := hj
      by_cases hl : j < s.ops.length
      · rw [List.getElem?_append_left hl] at hj'; exact late hr j t hj' ha
      · rw [List.getElem?_append_right (Nat.le_of_not_lt hl)] at hj'
        cases hjj : j - s.ops.length with
        | zero => rw [hjj] at hj'; simp at hj'; subst hj'; simp [hin] at ha
        | succ n => rw [hjj] at hj'; simp at hj'
  · exact invD_emit s _ h

theorem count_append_ne (sq : List SqEntry) (e : SqEntry) (j : Nat) (h : e ≠ SqEntry.op j) :
    (sq ++ [e]).count (SqEntry.op j) = sq.count (SqEntry.op j) := by
  simp [List.count_cons, h]

theorem invD_pollCore (s : St) (i w : Nat) (t : TOp) (h : InvD s) (hget : s.ops[i]? = some t)
    (hf : t.op.futLive = true) : InvD (s.pollCore i w t) := by
  obtain ⟨ok, tok, suf, late, cq1⟩ := h
  have hokt : OpOk t.op := ok t (List.mem_of_getElem? hget)
  obtain ⟨pa1, pa2⟩ := poll_active t.op w s.sqRoom hokt hf
  refine ⟨?_, ?_, ?_, ?_, cq1⟩
  · exact allOk_set _ _ _ ok (opOk_poll _ _ _ hokt hf)
  rotate_left
  · intro hr
    have hr' : s.ringLive = true := hr
    refine sufS_congr s _ rfl rfl (fun j => ?_) (suf hr')
    simp only [St.pollCore, baseQ, St.useSq]
    split
    · simp [List.count_append]
    · exact Nat.le_refl _
  rotate_left
  · intro hr j
    have hr' : s.ringLive = true := hr
    have hj := tok hr' j
    show tokQ (s.pollCore i w t).toQueues j = want (s.ops.set i _) j
    by_cases hji : j = i
    · subst hji
      rw [want_set_self _ _ _ _ hget]
      rw [want_of_getElem? _ _ _ hget] at hj
      cases hsub : (t.op.poll w s.sqRoom).2.2.contains Eff.submit with
      | true =>
        obtain ⟨a1, a2⟩ := pa1 hsub
        simp only [St.pollCore, hsub, if_true, tokQ, St.useSq] at hj ⊢
        rw [a1] at hj; rw [a2]
        simp only [List.count_append, List.count_cons, List.count_nil, beq_self_eq_true, if_true, b2n_false, b2n_true] at hj ⊢
        omega
      | false =>
        have a := pa2 hsub
        simp only [St.pollCore, hsub, tokQ, St.useSq] at hj ⊢
        rw [a]; simpa using hj
    · rw [want_set_ne _ _ _ _ hji]
      rw [← hj]
      simp only [St.pollCore, tokQ, St.useSq]
      split
      · have : SqEntry.op i ≠ SqEntry.op j := by
          intro e; injection e with e; exact hji e.symm
        simp [List.count_cons, this]
      · rfl
  · intro hr j t' hj ha
    have hr' : s.ringLive = false := hr
    have hj' := hj
    simp only [St.pollCore] at hj'
    by_cases hji : j = i
    · subst hji
      have hl : j < s.ops.length := (List.getElem?_eq_some_iff.mp hget).1
      rw [List.getElem?_set_self hl] at hj'
      injection hj' with hj'; subst hj'
      cases hsub : (t.op.poll w s.sqRoom).2.2.contains Eff.submit with
      | true => simp [hr']
      | false =>
        have a := pa2 hsub
        simp only [] at ha
        rw [a] at ha
        simp [late hr' j t hget ha]
    · rw [List.getElem?_set_ne (Ne.symm hji)] at hj'
      exact late hr' j t' hj' ha

theorem invD_poll (s : St) (i w : Nat) (h : InvD s) : InvD (s.poll i w) := by
  unfold St.poll
  split
  · exact invD_emit s _ h
  · rename_i t hget
    split
    · rename_i hg
      simp only [Bool.and_eq_true] at hg
      exact invD_pollCore s i w t h hget hg.1
    · exact invD_emit s _ h

theorem invD_dropOpCore (s : St) (i : Nat) (t : TOp) (h : InvD s) (hget : s.ops[i]? = some t)
    (hf : t.op.futLive = true) : InvD (s.dropOpCore i t) := by
  obtain ⟨ok, tok, suf, late, cq1⟩ := h
  have hokt : OpOk t.op := ok t (List.mem_of_getElem? hget)
  obtain ⟨da, _, _⟩ := dropFut_active t.op s.sqRoom hokt hf
  refine ⟨?_, ?_, ?_, ?_, cq1⟩
  · exact allOk_set _ _ _ ok (opOk_dropFut _ _ hokt hf)
  rotate_left
  · intro hr
    have hr' : s.ringLive = true := hr
    refine sufS_congr s _ rfl rfl (fun j => ?_) (suf hr')
    simp only [St.dropOpCore, baseQ, St.useSq]
    split
    · simp [List.count_append]
    · exact Nat.le_refl _
  rotate_left
  · intro hr j
    have hr' : s.ringLive = true := hr
    have hj := tok hr' j
    show tokQ (s.dropOpCore i t).toQueues j = want (s.ops.set i _) j
    have hq : tokQ (s.dropOpCore i t).toQueues j = tokQ s.toQueues j := by
      simp only [St.dropOpCore, tokQ, St.useSq]
      split
      · simp [List.count_cons]
      · rfl
    rw [hq, hj]
    by_cases hji : j = i
    · subst hji
      rw [want_set_self _ _ _ _ hget, want_of_getElem? _ _ _ hget]
      simp only []; rw [da]
    · rw [want_set_ne _ _ _ _ hji]
  · intro hr j t' hj ha
    have hr' : s.ringLive = false := hr
    have hj' : (s.ops.set i { t with op := (t.op.dropFut s.sqRoom).1 })[j]? = some t' := hj
    by_cases hji : j = i
    · subst hji
      have hl : j < s.ops.length := (List.getElem?_eq_some_iff.mp hget).1
      rw [List.getElem?_set_self hl] at hj'
      injection hj' with hj'; subst hj'
      simp only [] at ha
      rw [da] at ha
      exact late hr' j t hget ha
    · rw [List.getElem?_set_ne (Ne.symm hji)] at hj'
      exact late hr' j t' hj' ha

theorem invD_dropOp (s : St) (i : Nat) (h : InvD s) : InvD (s.dropOp i) := by
  unfold St.dropOp
  split
  · exact invD_emit s _ h
  · rename_i t hget
    split
    · rename_i hg
      simp only [Bool.and_eq_true] at hg
      exact invD_dropOpCore s i t h hget hg.1
    · exact invD_emit s _ h

theorem invD_kpost (s : St) (i : Nat) (res : Int) (f : Nat) (h : InvD s) : InvD (s.kpost i res f) := by
  unfold St.kpost
  split
  · split
    · exact invD_of_frame s _ h (by simp) (by simp) (by simp)
        (fun j => by rw [emit_queues, tokQ_kpostQuiet])
        (fun hs => sufS_congr _ _ rfl rfl (fun _ => Nat.le_refl _) (sufS_kpostQuiet s i res f hs))
    · exact invD_emit s _ h
  · exact invD_emit s _ h

theorem drainCq_ringLive (s : St) : s.drainCq.ringLive = s.ringLive := by
  unfold St.drainCq
  exact processAll_ringLive _ _

theorem tokEq_of_eq (s s' : St) (h : TokEq s) (h1 : s'.ops = s.ops)
    (h2 : s'.toQueues = s.toQueues) : TokEq s' :=
  ⟨by rw [h1]; exact h.1, fun i => by rw [h2, h1]; exact h.2.1 i, by
    obtain ⟨a, b, _, _⟩ := queues_fields _ _ h2
    have := h.2.2
    unfold SufS at *
    rw [a, b, h2]; exact this⟩

theorem invD_rpoll (s : St) (posts : List Post) (h : InvD s) : InvD (s.rpoll posts) := by
  unfold St.rpoll
  split
  · rename_i hr
    obtain ⟨ok, tok, suf, late, cq1⟩ := h
    have t0 : TokEq s := ⟨ok, tok hr, suf hr⟩
    have t1 : TokEq s.useCq := tokEq_of_eq s _ t0 rfl rfl
    have t2 : TokEq (if s.useCq.cq.isEmpty then s.useCq.useSq.enter 1 true (posts.filter (postOk s))
        else s.useCq) := by
      split
      · exact tokEq_enter _ _ _ _ (tokEq_of_eq s.useCq _ t1 rfl rfl)
      · exact t1
    have t3 := tokEq_drainCq _ t2
    have hrl : (if s.useCq.cq.isEmpty then s.useCq.useSq.enter 1 true (posts.filter (postOk s))
        else s.useCq).drainCq.ringLive = true := by
      rw [drainCq_ringLive]
      split
      · simp [St.useSq, St.useCq, hr]
      · simp [St.useCq, hr]
    have hcl : (if s.useCq.cq.isEmpty then s.useCq.useSq.enter 1 true (posts.filter (postOk s))
        else s.useCq).drainCq.cqLen = s.cqLen := by
      rw [(drainCq_queues _).2.2.2.2.2]
      split <;> simp
    simp only []
    refine ⟨t3.1, fun _ => t3.2.1, fun _ => t3.2.2, fun hf => ?_, by rw [emit_cqLen, hcl]; exact cq1⟩
    have : (if s.useCq.cq.isEmpty then s.useCq.useSq.enter 1 true (posts.filter (postOk s))
        else s.useCq).drainCq.ringLive = false := hf
    rw [hrl] at this; exact absurd this (by simp)
  · exact invD_emit s _ h

/-- The state `Completions::drop` is in before its final loop: everything
submitted, everything in flight finalised with -ECANCELED. -/
theorem cqDrop_tokEq3 (s : St) (h : TokEq s) :
    TokEq (({ (s.enter 4294967295 false []).emit
      s!"register sync-cancel n={(s.enter 4294967295 false []).inflight.length}" with inflight := [] } : St).cancelAll
      ((s.enter 4294967295 false []).emit
        s!"register sync-cancel n={(s.enter 4294967295 false []).inflight.length}").inflight) := by
  have t1 := tokEq_enter s 4294967295 false [] h
  have t2 : TokEq ((s.enter 4294967295 false []).emit
      s!"register sync-cancel n={(s.enter 4294967295 false []).inflight.length}") :=
    tokEq_of_eq _ _ t1 rfl rfl
  refine ⟨by simpa using t2.1, fun i => ?_, ?_⟩
  · rw [tokQ_cancelAll]
    have := t2.2.1 i
    simp only [tokQ, cancelAll_objs] at this ⊢
    simp at this ⊢; omega
  · apply sufS_cancelAll
    refine suf_mono _ _ _ (fun j => ?_) t2.2.2
    simp [baseQ]

theorem cqDrop_spec (s : St) (h : TokEq s) (hcq : 1 ≤ s.cqLen) :
    TokEq s.cqDrop ∧ s.cqDrop.cq = [] ∧ s.cqDrop.overflow = [] ∧ s.cqDrop.sq = [] ∧
    s.cqDrop.inflight = [] := by
  unfold St.cqDrop
  simp only []
  have t1 := tokEq_enter s 4294967295 false [] h
  generalize hs1 : s.enter 4294967295 false [] = s1 at t1
  have hsq1 : s1.sq = [] := by rw [← hs1]; exact enter_sq _ _ _ _
  have hcl1 : s1.cqLen = s.cqLen := by rw [← hs1]; exact enter_cqLen _ _ _ _
  generalize hs2 : s1.emit s!"register sync-cancel n={s1.inflight.length}" = s2
  have t2 : TokEq s2 := by rw [← hs2]; exact tokEq_of_eq s1 _ t1 rfl rfl
  have hsq2 : s2.sq = [] := by rw [← hs2]; exact hsq1
  have hcl2 : s2.cqLen = s.cqLen := by rw [← hs2]; exact hcl1
  generalize hs3 : ({ s2 with inflight := [] } : St).cancelAll s2.inflight = s3
  have t3 : TokEq s3 := by
    rw [← hs3]
    refine ⟨by simpa using t2.1, fun i => ?_, ?_⟩
    · rw [tokQ_cancelAll]
      have := t2.2.1 i
      simp only [tokQ, cancelAll_objs] at this ⊢
      simp at this ⊢; omega
    · apply sufS_cancelAll
      refine suf_mono _ _ _ (fun j => ?_) t2.2.2
      simp [baseQ]
  have hsq3 : s3.sq = [] := by rw [← hs3, cancelAll_sq]; exact hsq2
  have hin3 : s3.inflight = [] := by rw [← hs3, cancelAll_inflight]
  have hcl3 : s3.cqLen = s.cqLen := by rw [← hs3, cancelAll_cqLen]; exact hcl2
  have hd := dropLoop_drains s3 (s3.overflow.length + s3.cq.length + 2) (by rw [hcl3]; exact hcq) hsq3 (by
    split
    · omega
    · omega)
  exact ⟨tokEq_dropLoop _ _ t3, hd.1, hd.2.1, hd.2.2.1, by rw [hd.2.2.2, hin3]⟩

theorem dropLoop_frame (s : St) (fuel : Nat) :
    (s.dropLoop fuel).cqLen = s.cqLen ∧ (s.dropLoop fuel).ringLive = s.ringLive := by
  induction fuel generalizing s with
  | zero => exact ⟨rfl, rfl⟩
  | succ n ih =>
    unfold St.dropLoop
    have hl : s.loopFetch.cqLen = s.cqLen ∧ s.loopFetch.ringLive = s.ringLive := by
      unfold St.loopFetch; split <;> simp
    have hd : s.loopFetch.drainCq.cqLen = s.cqLen ∧ s.loopFetch.drainCq.ringLive = s.ringLive :=
      ⟨by rw [(drainCq_queues _).2.2.2.2.2]; exact hl.1, by rw [drainCq_ringLive]; exact hl.2⟩
    split
    · exact hd
    · obtain ⟨a, b⟩ := ih s.loopFetch.drainCq
      exact ⟨by rw [a]; exact hd.1, by rw [b]; exact hd.2⟩

theorem cqDrop_cqLen (s : St) : s.cqDrop.cqLen = s.cqLen := by
  unfold St.cqDrop
  simp only []
  rw [(dropLoop_frame _ _).1]
  simp

theorem invD_dropRing (s : St) (h : InvD s) : InvD s.dropRing := by
  unfold St.dropRing
  split
  · rename_i hr
    obtain ⟨ok, tok, suf, late, cq1⟩ := h
    have t0 : TokEq s.useSq.useCq := tokEq_of_eq s _ ⟨ok, tok hr, suf hr⟩ rfl rfl
    obtain ⟨t1, e1, e2, e3, e4⟩ := cqDrop_spec s.useSq.useCq t0 cq1
    simp only []
    refine ⟨t1.1, fun hf => by simp at hf, fun hf => by simp at hf, fun _ j t hj ha => ?_, ?_⟩
    · -- all queues are empty: nobody is owed anything
      have hj' : s.useSq.useCq.cqDrop.ops[j]? = some t := hj
      have := t1.2.1 j
      rw [want_of_getElem? _ _ _ hj', ha] at this
      simp [tokQ, e1, e2, e3, e4] at this
    · show 1 ≤ s.useSq.useCq.cqDrop.cqLen
      rw [cqDrop_cqLen]; exact cq1
  · exact invD_emit s _ h

theorem invD_dropClone (s : St) (k : Nat) (h : InvD s) : InvD (s.dropClone k) := by
  unfold St.dropClone
  split
  · exact invD_of_frame s _ h rfl rfl rfl (fun _ => rfl) (fun h => h)
  · exact invD_emit s _ h

theorem invD_dropPool (s : St) (h : InvD s) : InvD s.dropPool := by
  unfold St.dropPool
  split
  · exact invD_of_frame s _ h rfl rfl rfl (fun _ => rfl) (fun h => h)
  · exact invD_emit s _ h

theorem invD_dropBuf (s : St) (j : Nat) (h : InvD s) : InvD (s.dropBuf j) := by
  unfold St.dropBuf
  split
  · exact invD_of_frame s _ h rfl rfl rfl (fun _ => rfl) (fun h => h)
  · exact invD_emit s _ h

theorem invD_dropFd (s : St) (k : Nat) (h : InvD s) : InvD (s.dropFd k) := by
  unfold St.dropFd
  split
  · simp only []
    split
    · exact invD_of_frame s _ h rfl rfl rfl (fun i => by
        simp [tokQ, St.emit, St.useSq, List.count_cons])
        (fun hs => sufS_congr s _ rfl rfl (fun j => by simp [baseQ, St.emit, St.useSq, List.count_cons]) hs)
    · exact invD_of_frame s _ h rfl rfl rfl (fun i => by
        simp [tokQ, St.emit, St.useSq, St.closeFd])
        (fun hs => sufS_congr s _ rfl rfl (fun j => by simp [baseQ, St.emit, St.useSq, St.closeFd]) hs)
  · exact invD_emit s _ h

theorem invD_dropDfd (s : St) (k : Nat) (h : InvD s) : InvD (s.dropDfd k) := by
  unfold St.dropDfd
  split
  · simp only []
    split
    · exact invD_of_frame s _ h rfl rfl rfl (fun i => by
        simp [tokQ, St.emit, St.useSq, List.count_cons])
        (fun hs => sufS_congr s _ rfl rfl (fun j => by simp [baseQ, St.emit, St.useSq, List.count_cons]) hs)
    · exact invD_of_frame s _ h rfl rfl rfl (fun i => by
        simp [tokQ, St.emit, St.useSq, St.releaseSlot])
        (fun hs => sufS_congr s _ rfl rfl (fun j => by simp [baseQ, St.emit, St.useSq, St.releaseSlot]) hs)
  · exact invD_emit s _ h

theorem invD_core (s : St) (e : Step) (h : InvD s) : InvD (core s e) := by
  cases e with
  | newOp i k fd => exact invD_newOp s i k fd h
  | poll i w => exact invD_poll s i w h
  | kpost i res f => exact invD_kpost s i res f h
  | rpoll posts => exact invD_rpoll s posts h
  | dropRing => exact invD_dropRing s h
  | dropClone k => exact invD_dropClone s k h
  | dropFd k => exact invD_dropFd s k h
  | dropDfd k => exact invD_dropDfd s k h
  | dropOp i => exact invD_dropOp s i h
  | dropPool => exact invD_dropPool s h
  | dropBuf j => exact invD_dropBuf s j h

theorem invD_step (s : St) (e : Step) (h : InvD s) : InvD (step s e) :=
  invD_settle _ (invD_core s e h)

/-! ### Invariant A: who keeps what alive -/

/-- The part that holds in the middle of a step too. -/
structure InvA' (o : Objs) : Prop where
  /-- `Shared` is gone only when nobody holds it -/
  a2 : o.sharedLive = false → handles o = 0
  /-- the pool is gone only when nobody references it -/
  a4 : o.poolLive = false → poolRefs o = 0
  m1 : o.sqMapped = o.sharedLive
  m2 : o.sqesMapped = o.sharedLive
  m3 : o.ringFdOpen = o.sharedLive
  m4 : o.cqMapped = o.ringLive
  bad : o.bad = 0

/-- Between steps, additionally: what nobody holds has been released. -/
structure InvA (o : Objs) : Prop extends InvA' o where
  a1 : handles o = 0 → o.sharedLive = false
  a3 : poolRefs o = 0 → o.poolLive = false

theorem shared_of_handles (o : Objs) (h : InvA' o) (hp : 0 < handles o) : o.sharedLive = true := by
  cases hs : o.sharedLive with
  | true => rfl
  | false => have := h.a2 hs; omega

theorem pool_of_refs (o : Objs) (h : InvA' o) (hp : 0 < poolRefs o) : o.poolLive = true := by
  cases hs : o.poolLive with
  | true => rfl
  | false => have := h.a4 hs; omega

theorem handles_pos_of_pool (o : Objs) (hp : o.poolLive = true) : 0 < handles o := by
  simp [handles, hp]; omega

theorem handles_pos_of_ring (o : Objs) (hp : o.ringLive = true) : 0 < handles o := by
  simp [handles, hp]; omega

theorem handles_pos_of_clone (o : Objs) (k : Nat) (hp : o.clones[k]? = some true) : 0 < handles o := by
  have := count_pos_of_getElem? _ _ hp
  simp [handles]; omega

theorem handles_pos_of_fd (o : Objs) (k : Nat) (hp : o.fdLive[k]? = some true) : 0 < handles o := by
  have := count_pos_of_getElem? _ _ hp
  simp [handles]; omega

theorem getElem?_of_getD_true (l : List Bool) (k : Nat) (h : l.getD k false = true) : l[k]? = some true := by
  rw [List.getD_eq_getElem?_getD] at h
  cases hk : l[k]? with
  | none => simp [hk] at h
  | some b => simp [hk] at h; rw [h]

/-- The mapped state is what `useSq` / `useCq` expect. -/
theorem useSq_ok (o : Objs) (h : InvA' o) (hs : o.sharedLive = true) :
    (if o.sqMapped && o.sqesMapped && o.ringFdOpen then 0 else 1) = 0 := by
  rw [h.m1, h.m2, h.m3, hs]; rfl

/-- A step by a holder: `Shared` is and stays alive; the pool's reference count
does not grow behind the pool's back. -/
theorem invA'_step (o o' : Objs) (h : InvA' o) (hs : o.sharedLive = true)
    (hs' : o'.sharedLive = o.sharedLive) (hp : o'.poolLive = o.poolLive)
    (hr : poolRefs o' ≤ poolRefs o ∨ o.poolLive = true)
    (hm1 : o'.sqMapped = o.sqMapped) (hm2 : o'.sqesMapped = o.sqesMapped)
    (hm3 : o'.ringFdOpen = o.ringFdOpen) (hm4 : o'.cqMapped = o'.ringLive) (hb : o'.bad = o.bad) :
    InvA' o' := by
  refine ⟨fun hf => ?_, fun hf => ?_, by rw [hm1, hs', h.m1], by rw [hm2, hs', h.m2],
    by rw [hm3, hs', h.m3], hm4, by rw [hb, h.bad]⟩
  · rw [hs', hs] at hf; exact absurd hf (by simp)
  · rw [hp] at hf
    rcases hr with hr | hr
    · have := h.a4 hf; omega
    · rw [hr] at hf; exact absurd hf (by simp)

theorem invA'_settlePool (s : St) (h : InvA' s.toObjs) :
    InvA' s.settlePool.toObjs ∧ (poolRefs s.settlePool.toObjs = 0 → s.settlePool.poolLive = false) ∧
    s.settlePool.sharedLive = s.sharedLive ∧ s.settlePool.ringLive = s.ringLive := by
  unfold St.settlePool
  split
  · rename_i hc
    simp only [Bool.and_eq_true, beq_iff_eq] at hc
    have hsl := shared_of_handles _ h (handles_pos_of_pool _ hc.1)
    have hu := useSq_ok _ h hsl
    refine ⟨⟨fun hf => ?_, fun _ => ?_, ?_, ?_, ?_, ?_, ?_⟩, fun _ => rfl, rfl, rfl⟩
    · have hf' : s.sharedLive = false := hf
      rw [hsl] at hf'; exact absurd hf' (by simp)
    · have := hc.2
      simpa [poolRefs, St.emit, St.useSq] using this
    · exact h.m1
    · exact h.m2
    · exact h.m3
    · exact h.m4
    · show s.bad + _ = 0
      rw [hu, h.bad]
  · rename_i hc
    refine ⟨h, fun hz => ?_, rfl, rfl⟩
    cases hpl : s.poolLive with
    | false => rfl
    | true => exact absurd (by simp [hpl, hz]) hc

theorem sharedDrop_objs (s : St) :
    s.sharedDrop.toObjs = { s.toObjs with
      sharedLive := false, sqesMapped := false, sqMapped := false, ringFdOpen := false,
      log := s.log ++ [LEv.munmap .sqes, LEv.munmap .sq, LEv.closeRing],
      bad := s.bad + (if s.sqMapped && s.sqesMapped && s.ringFdOpen then 0 else 1) } := by
  unfold St.sharedDrop
  simp only []
  split <;> simp [St.useSq, St.emit]

theorem handles_congr (o o' : Objs) (h1 : o'.ringLive = o.ringLive) (h2 : o'.clones = o.clones)
    (h3 : o'.fdLive = o.fdLive) (h4 : o'.poolLive = o.poolLive) (h5 : o'.ops = o.ops) :
    handles o' = handles o := by
  simp [handles, h1, h2, h3, h4, h5]

theorem poolRefs_congr (o o' : Objs) (h1 : o'.poolHandle = o.poolHandle) (h2 : o'.bufs = o.bufs)
    (h5 : o'.ops = o.ops) : poolRefs o' = poolRefs o := by
  simp [poolRefs, h1, h2, h5]

theorem invA_settle (s : St) (h : InvA' s.toObjs) : InvA s.settle.toObjs := by
  obtain ⟨hp, hp3, _, _⟩ := invA'_settlePool s h
  unfold St.settle St.settleShared
  generalize s.settlePool = s1 at hp hp3
  split
  · rename_i hc
    simp only [Bool.and_eq_true, beq_iff_eq] at hc
    rw [sharedDrop_objs]
    have hu := useSq_ok _ hp hc.1
    have hh : handles ({ s1.toObjs with
        sharedLive := false, sqesMapped := false, sqMapped := false, ringFdOpen := false,
        log := s1.log ++ [LEv.munmap .sqes, LEv.munmap .sq, LEv.closeRing],
        bad := s1.bad + (if s1.sqMapped && s1.sqesMapped && s1.ringFdOpen then 0 else 1) } : Objs)
        = handles s1.toObjs := handles_congr _ _ rfl rfl rfl rfl rfl
    have hr : poolRefs ({ s1.toObjs with
        sharedLive := false, sqesMapped := false, sqMapped := false, ringFdOpen := false,
        log := s1.log ++ [LEv.munmap .sqes, LEv.munmap .sq, LEv.closeRing],
        bad := s1.bad + (if s1.sqMapped && s1.sqesMapped && s1.ringFdOpen then 0 else 1) } : Objs)
        = poolRefs s1.toObjs := poolRefs_congr _ _ rfl rfl rfl
    refine ⟨⟨fun _ => by rw [hh]; exact hc.2, fun hf => by rw [hr]; exact hp.a4 hf, rfl, rfl, rfl,
      hp.m4, ?_⟩, fun _ => rfl, fun hz => hp3 (by rw [← hr]; exact hz)⟩
    show s1.bad + _ = 0
    rw [hu, hp.bad]
  · rename_i hc
    refine ⟨hp, fun hz => ?_, hp3⟩
    cases hsl : s1.sharedLive with
    | false => rfl
    | true => exact absurd (by simp [hsl, hz]) hc

theorem invA'_emit (s : St) (l : String) (h : InvA' s.toObjs) : InvA' (s.emit l).toObjs := h

theorem invA'_newOp (s : St) (i : Nat) (k : Kind) (fd : Nat) (h : InvA' s.toObjs) :
    InvA' (s.newOp i k fd).toObjs := by
  unfold St.newOp
  split
  · rename_i hg
    simp only [canNew, Bool.and_eq_true] at hg
    obtain ⟨⟨_, _⟩, hk⟩ := hg
    -- somebody alive is needed to create an operation
    have hpos : 0 < handles s.toObjs := by
      cases k with
      | unlink =>
        simp only [Bool.or_eq_true] at hk
        rcases hk with hk | hk
        · exact handles_pos_of_ring _ hk
        · have : 0 < s.clones.count true := List.count_pos_iff.mpr (by simpa using hk)
          simp [handles]; omega
      | pread =>
        simp only [Bool.and_eq_true] at hk
        exact handles_pos_of_fd _ fd (getElem?_of_getD_true _ _ hk.1)
      | mread =>
        simp only [Bool.and_eq_true] at hk
        exact handles_pos_of_fd _ fd (getElem?_of_getD_true _ _ hk.1)
      | read => exact handles_pos_of_fd _ fd (getElem?_of_getD_true _ _ hk)
      | write => exact handles_pos_of_fd _ fd (getElem?_of_getD_true _ _ hk)
      | sendzc => exact handles_pos_of_fd _ fd (getElem?_of_getD_true _ _ hk)
    have hsl := shared_of_handles _ h hpos
    refine invA'_step s.toObjs _ h hsl rfl rfl ?_ rfl rfl rfl h.m4 rfl
    cases k with
    | pread =>
      right
      simp only [Bool.and_eq_true] at hk
      exact pool_of_refs _ h (by simp [poolRefs, hk.2]; omega)
    | mread =>
      right
      simp only [Bool.and_eq_true] at hk
      exact pool_of_refs _ h (by simp [poolRefs, hk.2]; omega)
    | unlink => left; simp [poolRefs, St.emit, List.countP_append, Kind.pool]
    | read => left; simp [poolRefs, St.emit, List.countP_append, Kind.pool]
    | write => left; simp [poolRefs, St.emit, List.countP_append, Kind.pool]
    | sendzc => left; simp [poolRefs, St.emit, List.countP_append, Kind.pool]
  · exact h

theorem handles_pos_of_holder (s : St) (i : Nat) (t : TOp) (hget : s.ops[i]? = some t)
    (hf : t.op.futLive = true) (hh : holderLive s t = true) : 0 < handles s.toObjs := by
  cases hk : t.kind with
  | unlink =>
    have := countP_pos_of_getElem? (fun t => t.kind == .unlink && t.op.futLive) s.ops i t hget
      (by simp [hk, hf])
    simp [handles]; omega
  | pread =>
    simp only [holderLive, hk, fdLive] at hh
    exact handles_pos_of_fd _ _ (getElem?_of_getD_true _ _ hh)
  | read =>
    simp only [holderLive, hk, fdLive] at hh
    exact handles_pos_of_fd _ _ (getElem?_of_getD_true _ _ hh)
  | write =>
    simp only [holderLive, hk, fdLive] at hh
    exact handles_pos_of_fd _ _ (getElem?_of_getD_true _ _ hh)
  | mread =>
    simp only [holderLive, hk, fdLive] at hh
    exact handles_pos_of_fd _ _ (getElem?_of_getD_true _ _ hh)
  | sendzc =>
    simp only [holderLive, hk, fdLive] at hh
    exact handles_pos_of_fd _ _ (getElem?_of_getD_true _ _ hh)

/-- Number of pool references held by operation resources, around an update of one operation. -/
theorem preadCount_set (ops : List TOp) (i : Nat) (t t' : TOp) (hget : ops[i]? = some t)
    (hk : t'.kind = t.kind) :
    (ops.set i t').countP (fun t => t.kind.pool && t.op.resInit)
        + (if t.kind.pool = true then b2n t.op.resInit else 0)
      = ops.countP (fun t => t.kind.pool && t.op.resInit)
        + (if t.kind.pool = true then b2n t'.op.resInit else 0) := by
  have hc := countP_set_of_getElem? (fun t => t.kind.pool && t.op.resInit) ops i t t' hget
  by_cases hp : t.kind.pool = true
  · simp only [hk, hp, if_true, Bool.true_and] at hc ⊢; exact hc
  · have : t.kind.pool = false := by simpa using hp
    simp only [hk, this, Bool.false_and, b2n_false] at hc ⊢
    simpa using hc

theorem invA'_pollCore (s : St) (i w : Nat) (t : TOp) (h : InvA' s.toObjs) (hok : OpOk t.op)
    (hget : s.ops[i]? = some t) (hf : t.op.futLive = true) (hh : holderLive s t = true) :
    InvA' (s.pollCore i w t).toObjs := by
  have hsl := shared_of_handles _ h (handles_pos_of_holder s i t hget hf hh)
  have hu := useSq_ok _ h hsl
  obtain ⟨pr1, _, pr3, _⟩ := poll_res t.op w s.sqRoom hok hf
  have hbad : (s.pollCore i w t).bad = s.bad := by
    show s.bad + _ = s.bad
    rw [hu]; rfl
  by_cases hpl : s.poolLive = true
  · exact invA'_step s.toObjs _ h hsl rfl rfl (Or.inr hpl) rfl rfl rfl h.m4 hbad
  · -- no pool: nothing references it, in particular not this operation, which therefore
    -- cannot hand out a `ReadBuf`
    have hpl' : s.poolLive = false := by simpa using hpl
    have hz := h.a4 hpl'
    have hnp : (t.kind.pool && t.op.resInit) = false := by
      cases hx : (t.kind.pool && t.op.resInit) with
      | false => rfl
      | true =>
        have := countP_pos_of_getElem? (fun t => t.kind.pool && t.op.resInit) s.ops i t hget hx
        unfold poolRefs at hz; omega
    refine invA'_step s.toObjs _ h hsl rfl rfl (Or.inl ?_) rfl rfl rfl h.m4 hbad
    have hc : List.countP (fun t => t.kind.pool && t.op.resInit) (s.pollCore i w t).ops + _ = _ :=
      preadCount_set s.ops i t _ hget rfl
    have hb : (s.pollCore i w t).bufs =
        if t.kind.pool && isReadyOk (t.op.poll w s.sqRoom).2.1 then s.bufs ++ [true] else s.bufs := rfl
    have hph : (s.pollCore i w t).poolHandle = s.poolHandle := rfl
    show b2n (s.pollCore i w t).poolHandle + List.count true (s.pollCore i w t).bufs
        + List.countP _ (s.pollCore i w t).ops ≤ poolRefs s.toObjs
    rw [hb, hph]
    unfold poolRefs
    simp only [] at hc
    by_cases hp : t.kind.pool = true
    · have hri : t.op.resInit = false := by simpa [hp] using hnp
      have hno : isReadyOk (t.op.poll w s.sqRoom).2.1 = false := by
        cases hr : isReadyOk (t.op.poll w s.sqRoom).2.1 with
        | false => rfl
        | true => have := pr3 hr; rw [hri] at this; exact absurd this (by simp)
      rw [hri] at pr1
      simp only [hp, if_true, hri, b2n_false] at hc
      simp only [hp, hno, Bool.true_and]
      simp only [b2n_false, Nat.le_zero] at pr1
      rw [pr1] at hc
      simp at hc ⊢; omega
    · have hp' : t.kind.pool = false := by simpa using hp
      simp only [hp', Bool.false_and] at hc ⊢
      simp at hc ⊢; omega

theorem invA'_poll (s : St) (i w : Nat) (h : InvA' s.toObjs) (hok : AllOk s.ops) :
    InvA' (s.poll i w).toObjs := by
  unfold St.poll
  split
  · exact h
  · rename_i t hget
    split
    · rename_i hg
      simp only [Bool.and_eq_true] at hg
      exact invA'_pollCore s i w t h (hok t (List.mem_of_getElem? hget)) hget hg.1 hg.2
    · exact h

theorem invA'_dropOpCore (s : St) (i : Nat) (t : TOp) (h : InvA' s.toObjs) (hok : OpOk t.op)
    (hget : s.ops[i]? = some t) (hf : t.op.futLive = true) (hh : holderLive s t = true) :
    InvA' (s.dropOpCore i t).toObjs := by
  have hsl := shared_of_handles _ h (handles_pos_of_holder s i t hget hf hh)
  have hu := useSq_ok _ h hsl
  obtain ⟨_, dr, _⟩ := dropFut_active t.op s.sqRoom hok hf
  refine invA'_step s.toObjs _ h hsl rfl rfl (Or.inl ?_) rfl rfl rfl h.m4 ?_
  · have hc : List.countP (fun t => t.kind.pool && t.op.resInit) (s.dropOpCore i t).ops + _ = _ :=
      preadCount_set s.ops i t _ hget rfl
    show b2n s.poolHandle + List.count true s.bufs
        + List.countP _ (s.dropOpCore i t).ops ≤ poolRefs s.toObjs
    unfold poolRefs
    simp only [] at hc
    by_cases hp : t.kind.pool = true
    · rw [if_pos hp, if_pos hp] at hc; omega
    · rw [if_neg hp, if_neg hp] at hc; omega
  · show s.bad + _ = s.bad
    rw [hu]; rfl

theorem invA'_dropOp (s : St) (i : Nat) (h : InvA' s.toObjs) (hok : AllOk s.ops) :
    InvA' (s.dropOp i).toObjs := by
  unfold St.dropOp
  split
  · exact h
  · rename_i t hget
    split
    · rename_i hg
      simp only [Bool.and_eq_true] at hg
      exact invA'_dropOpCore s i t h (hok t (List.mem_of_getElem? hget)) hget hg.1 hg.2
    · exact h

theorem invA'_kpost (s : St) (i : Nat) (res : Int) (f : Nat) (h : InvA' s.toObjs) :
    InvA' (s.kpost i res f).toObjs := by
  unfold St.kpost
  split
  · split
    · simpa using h
    · exact h
  · exact h

theorem invA'_process (s : St) (c : Cqe) (h : InvA' s.toObjs) (hs : s.sharedLive = true) :
    InvA' (s.process c).toObjs ∧ (s.process c).sharedLive = true ∧
    (s.process c).ringLive = s.ringLive := by
  unfold St.process
  split
  · exact ⟨h, hs, rfl⟩
  · rename_i i hud
    split
    · exact ⟨h, hs, rfl⟩
    · rename_i t hget
      split
      · exact ⟨h, hs, rfl⟩
      · rename_i r hr
        obtain ⟨_, um⟩ := update_mono t.op r.1 ⟨c.res, c.flags⟩ r.2 (by simp [hr])
        have h1 : InvA' (applyEffs ({ s with ops := s.ops.set i { t with op := r.1 } } : St) i r.2).toObjs := by
          rw [applyEffs_objs]
          refine invA'_step s.toObjs _ h hs rfl rfl (Or.inl ?_) rfl rfl rfl h.m4 rfl
          have hc := preadCount_set s.ops i t { t with op := r.1 } hget rfl
          show b2n s.poolHandle + List.count true s.bufs + List.countP _ (s.ops.set i { t with op := r.1 })
            ≤ poolRefs s.toObjs
          unfold poolRefs
          by_cases hp : t.kind.pool = true
          · rw [if_pos hp, if_pos hp] at hc
            have e1 : b2n ({ t with op := r.1 } : TOp).op.resInit = b2n r.1.resInit := rfl
            omega
          · rw [if_neg hp, if_neg hp] at hc; omega
        obtain ⟨g1, _, g3, g4⟩ := invA'_settlePool _ h1
        refine ⟨g1, ?_, ?_⟩
        · rw [g3]; simp [hs]
        · rw [g4]; simp

theorem invA'_processAll (s : St) (cs : List Cqe) (h : InvA' s.toObjs) (hs : s.sharedLive = true) :
    InvA' (s.processAll cs).toObjs ∧ (s.processAll cs).sharedLive = true := by
  induction cs generalizing s with
  | nil => exact ⟨h, hs⟩
  | cons c cs ih =>
    obtain ⟨h1, h2, _⟩ := invA'_process s c h hs
    exact ih _ h1 h2

theorem invA'_drainCq (s : St) (h : InvA' s.toObjs) (hs : s.sharedLive = true) :
    InvA' s.drainCq.toObjs ∧ s.drainCq.sharedLive = true := by
  unfold St.drainCq
  exact invA'_processAll ({ s with cq := [] } : St) s.cq h hs

theorem invA'_loopFetch (s : St) (h : InvA' s.toObjs) (hs : s.sharedLive = true) :
    InvA' s.loopFetch.toObjs ∧ s.loopFetch.sharedLive = true := by
  unfold St.loopFetch
  split
  · simp only [enter_objs]; exact ⟨h, hs⟩
  · simp only [enter_objs]; exact ⟨h, hs⟩

theorem invA'_dropLoop (s : St) (fuel : Nat) (h : InvA' s.toObjs) (hs : s.sharedLive = true) :
    InvA' (s.dropLoop fuel).toObjs ∧ (s.dropLoop fuel).sharedLive = true := by
  induction fuel generalizing s with
  | zero => exact ⟨h, hs⟩
  | succ n ih =>
    unfold St.dropLoop
    obtain ⟨f1, f2⟩ := invA'_loopFetch s h hs
    obtain ⟨d1, d2⟩ := invA'_drainCq _ f1 f2
    split
    · exact ⟨d1, d2⟩
    · exact ih _ d1 d2

theorem invA'_cqDrop (s : St) (h : InvA' s.toObjs) (hs : s.sharedLive = true) :
    InvA' s.cqDrop.toObjs ∧ s.cqDrop.sharedLive = true := by
  unfold St.cqDrop
  simp only []
  apply invA'_dropLoop
  · simpa using h
  · simpa using hs

theorem invA'_rpoll (s : St) (posts : List Post) (h : InvA' s.toObjs) :
    InvA' (s.rpoll posts).toObjs := by
  unfold St.rpoll
  split
  · rename_i hr
    have hsl := shared_of_handles _ h (handles_pos_of_ring _ hr)
    have hu := useSq_ok _ h hsl
    have hc : (if s.cqMapped then 0 else 1) = 0 := by rw [h.m4, hr]; rfl
    have h1 : InvA' s.useCq.toObjs :=
      invA'_step s.toObjs _ h hsl rfl rfl (Or.inl (Nat.le_refl _)) rfl rfl rfl h.m4
        (by show s.bad + _ = s.bad; rw [hc]; rfl)
    have h2 : InvA' s.useCq.useSq.toObjs :=
      invA'_step s.useCq.toObjs _ h1 hsl rfl rfl (Or.inl (Nat.le_refl _)) rfl rfl rfl h1.m4
        (by show s.useCq.bad + _ = s.useCq.bad; rw [show s.useCq.sqMapped = s.sqMapped from rfl,
              show s.useCq.sqesMapped = s.sqesMapped from rfl,
              show s.useCq.ringFdOpen = s.ringFdOpen from rfl, hu]; rfl)
    simp only []
    have h3 : InvA' (if s.useCq.cq.isEmpty then s.useCq.useSq.enter 1 true (posts.filter (postOk s))
        else s.useCq).toObjs ∧ (if s.useCq.cq.isEmpty then s.useCq.useSq.enter 1 true (posts.filter (postOk s))
        else s.useCq).sharedLive = true := by
      split
      · simp only [enter_objs]; exact ⟨h2, hsl⟩
      · exact ⟨h1, hsl⟩
    exact (invA'_drainCq _ h3.1 h3.2).1
  · exact h

theorem invA'_dropRing (s : St) (h : InvA' s.toObjs) : InvA' s.dropRing.toObjs := by
  unfold St.dropRing
  split
  · rename_i hr
    have hsl := shared_of_handles _ h (handles_pos_of_ring _ hr)
    have hu := useSq_ok _ h hsl
    have hc : (if s.cqMapped then 0 else 1) = 0 := by rw [h.m4, hr]; rfl
    have h1 : InvA' s.useSq.toObjs :=
      invA'_step s.toObjs _ h hsl rfl rfl (Or.inl (Nat.le_refl _)) rfl rfl rfl h.m4
        (by show s.bad + _ = s.bad; rw [hu]; rfl)
    have h2 : InvA' s.useSq.useCq.toObjs :=
      invA'_step s.useSq.toObjs _ h1 hsl rfl rfl (Or.inl (Nat.le_refl _)) rfl rfl rfl h1.m4
        (by show s.useSq.bad + _ = s.useSq.bad; rw [show s.useSq.cqMapped = s.cqMapped from rfl, hc]; rfl)
    obtain ⟨h3, hs3⟩ := invA'_cqDrop s.useSq.useCq h2 hsl
    simp only []
    generalize s.useSq.useCq.cqDrop = s1 at h3 hs3
    refine ⟨fun hf => ?_, fun hf => ?_, h3.m1, h3.m2, h3.m3, rfl, h3.bad⟩
    · have : s1.sharedLive = false := hf
      rw [hs3] at this; exact absurd this (by simp)
    · exact h3.a4 hf
  · exact h

theorem invA'_dropClone (s : St) (k : Nat) (h : InvA' s.toObjs) : InvA' (s.dropClone k).toObjs := by
  unfold St.dropClone
  split
  · rename_i hg
    have hg' : s.clones[k]? = some true := by simpa using hg
    have hsl := shared_of_handles _ h (handles_pos_of_clone _ k hg')
    exact invA'_step s.toObjs _ h hsl rfl rfl (Or.inl (Nat.le_refl _)) rfl rfl rfl h.m4 rfl
  · exact h

theorem invA'_dropPool (s : St) (h : InvA' s.toObjs) : InvA' s.dropPool.toObjs := by
  unfold St.dropPool
  split
  · rename_i hg
    have hpl := pool_of_refs _ h (by simp [poolRefs, hg]; omega)
    have hsl := shared_of_handles _ h (handles_pos_of_pool _ hpl)
    exact invA'_step s.toObjs _ h hsl rfl rfl (Or.inr hpl) rfl rfl rfl h.m4 rfl
  · exact h

theorem invA'_dropBuf (s : St) (j : Nat) (h : InvA' s.toObjs) : InvA' (s.dropBuf j).toObjs := by
  unfold St.dropBuf
  split
  · rename_i hg
    have hg' : s.bufs[j]? = some true := by simpa using hg
    have := count_pos_of_getElem? _ _ hg'
    have hpl := pool_of_refs _ h (by simp [poolRefs]; omega)
    have hsl := shared_of_handles _ h (handles_pos_of_pool _ hpl)
    exact invA'_step s.toObjs _ h hsl rfl rfl (Or.inr hpl) rfl rfl rfl h.m4 rfl
  · exact h

theorem invA'_dropFd (s : St) (k : Nat) (h : InvA' s.toObjs) : InvA' (s.dropFd k).toObjs := by
  unfold St.dropFd
  split
  · rename_i hg
    simp only [Bool.and_eq_true] at hg
    have hg' : s.fdLive[k]? = some true := by simpa using hg.1.1
    have hsl := shared_of_handles _ h (handles_pos_of_fd _ k hg')
    have hu := useSq_ok _ h hsl
    simp only []
    split
    · exact invA'_step s.toObjs _ h hsl rfl rfl (Or.inl (Nat.le_refl _)) rfl rfl rfl h.m4
        (by show s.bad + _ = s.bad; rw [hu]; rfl)
    · exact invA'_step s.toObjs _ h hsl rfl rfl (Or.inl (Nat.le_refl _)) rfl rfl rfl h.m4
        (by show s.bad + _ = s.bad; rw [hu]; rfl)
  · exact h

theorem invA'_dropDfd (s : St) (k : Nat) (h : InvA' s.toObjs) : InvA' (s.dropDfd k).toObjs := by
  unfold St.dropDfd
  split
  · rename_i hg
    simp only [Bool.and_eq_true] at hg
    have hg' : s.fdLive[k]? = some true := by simpa using hg.1.1
    have hsl := shared_of_handles _ h (handles_pos_of_fd _ k hg')
    have hu := useSq_ok _ h hsl
    simp only []
    split
    · exact invA'_step s.toObjs _ h hsl rfl rfl (Or.inl (Nat.le_refl _)) rfl rfl rfl h.m4
        (by show s.bad + _ = s.bad; rw [hu]; rfl)
    · -- the synchronous release: a second system call on the ring descriptor
      exact invA'_step s.toObjs _ h hsl rfl rfl (Or.inl (Nat.le_refl _)) rfl rfl rfl h.m4
        (by show s.bad + _ + _ = s.bad
            rw [show ({ s.useSq with fdLive := s.fdLive.set k false } : St).sqMapped = s.sqMapped from rfl,
                show ({ s.useSq with fdLive := s.fdLive.set k false } : St).sqesMapped = s.sqesMapped from rfl,
                show ({ s.useSq with fdLive := s.fdLive.set k false } : St).ringFdOpen = s.ringFdOpen from rfl,
                hu]; rfl)
  · exact h

theorem invA'_core (s : St) (e : Step) (h : InvA' s.toObjs) (hok : AllOk s.ops) :
    InvA' (core s e).toObjs := by
  cases e with
  | newOp i k fd => exact invA'_newOp s i k fd h
  | poll i w => exact invA'_poll s i w h hok
  | kpost i res f => exact invA'_kpost s i res f h
  | rpoll posts => exact invA'_rpoll s posts h
  | dropRing => exact invA'_dropRing s h
  | dropClone k => exact invA'_dropClone s k h
  | dropFd k => exact invA'_dropFd s k h
  | dropDfd k => exact invA'_dropDfd s k h
  | dropOp i => exact invA'_dropOp s i h hok
  | dropPool => exact invA'_dropPool s h
  | dropBuf j => exact invA'_dropBuf s j h

theorem invA_step (s : St) (e : Step) (h : InvA s.toObjs) (hok : AllOk s.ops) :
    InvA (step s e).toObjs :=
  invA_settle _ (invA'_core s e h.toInvA' hok)

/-! ### Invariant C: every descriptor is closed exactly once -/

structure InvC (s : St) : Prop where
  len : s.fdCloses.length = s.fdLive.length
  /-- per regular descriptor: close requests executed + CLOSE entries queued +
  the live `AsyncFd` = 1; per direct descriptor: no `close(2)` / CLOSE of the
  regular kind is ever made with its number (left side 0 = right side 0) -/
  eq : ∀ k, k < s.fdLive.length →
    s.fdCloses.getD k 0 + s.sq.count (SqEntry.close k)
      + b2n (s.fdLive.getD k false && !s.fdDir.getD k false) = b2n (!s.fdDir.getD k false)

theorem invC_of_frame (s s' : St) (h : InvC s) (h1 : s'.sq = s.sq) (h2 : s'.fdCloses = s.fdCloses)
    (h3 : s'.fdLive = s.fdLive) (h4 : s'.fdDir = s.fdDir := by first | rfl | simp) : InvC s' :=
  ⟨by rw [h2, h3]; exact h.len, fun k hk => by rw [h1, h2, h3, h4]; exact h.eq k (by rw [← h3]; exact hk)⟩

theorem getD_set (l : List Nat) (k k' v : Nat) (hk : k < l.length) :
    (l.set k' v).getD k 0 = if k' = k then v else l.getD k 0 := by
  simp only [List.getD_eq_getElem?_getD, List.getElem?_set]
  by_cases h : k' = k
  · subst h; simp [hk]
  · simp [h]

theorem consumeOne_fd (s : St) (e : SqEntry) :
    (s.consumeOne e).fdCloses.length = s.fdCloses.length ∧
    ∀ k, k < s.fdCloses.length →
      (s.consumeOne e).fdCloses.getD k 0 = s.fdCloses.getD k 0 + b2n (e == SqEntry.close k) := by
  cases e with
  | op i => simp [St.consumeOne, b2n]
  | cancel i =>
    simp only [St.consumeOne]
    split <;> simp [b2n]
  | close k' =>
    simp only [St.consumeOne]
    split
    · refine ⟨by simp [St.emit, St.closeFd], fun k hk => ?_⟩
      simp only [St.emit, St.closeFd]
      rw [getD_set _ _ _ _ hk]
      by_cases h : k' = k <;> simp [h, b2n]
    · refine ⟨by simp [St.emit, St.closeFd], fun k hk => ?_⟩
      simp only [emit_queues, St.emit, postCqe_fdCloses, St.closeFd]
      rw [getD_set _ _ _ _ hk]
      by_cases h : k' = k <;> simp [h, b2n]
  | closeIdx fi => simp [St.consumeOne, b2n]

theorem consume_fd (s : St) (es : List SqEntry) :
    (s.consume es).fdCloses.length = s.fdCloses.length ∧
    ∀ k, k < s.fdCloses.length →
      (s.consume es).fdCloses.getD k 0 = s.fdCloses.getD k 0 + es.count (SqEntry.close k) := by
  induction es generalizing s with
  | nil => simp [St.consume]
  | cons e es ih =>
    obtain ⟨a1, a2⟩ := consumeOne_fd s e
    obtain ⟨b1, b2⟩ := ih (s.consumeOne e)
    refine ⟨by simp only [St.consume]; rw [b1, a1], fun k hk => ?_⟩
    simp only [St.consume]
    rw [b2 k (by rw [a1]; exact hk), a2 k hk, List.count_cons]
    cases h : (e == SqEntry.close k) <;> simp <;> omega

theorem invC_consumeAll (s : St) (h : InvC s) : InvC s.consumeAll := by
  obtain ⟨c1, c2⟩ := consume_fd ({ s with sq := [] } : St) s.sq
  refine ⟨?_, fun k hk => ?_⟩
  · show (St.consume _ _).fdCloses.length = _
    rw [c1]; simpa using h.len
  · have hk' : k < s.fdLive.length := by simpa using hk
    have := h.eq k hk'
    show (St.consume _ _).fdCloses.getD k 0 + s.consumeAll.sq.count _
      + b2n (s.consumeAll.fdLive.getD k false && !s.consumeAll.fdDir.getD k false)
      = b2n (!s.consumeAll.fdDir.getD k false)
    rw [c2 k (by show k < s.fdCloses.length; rw [h.len]; exact hk'), consumeAll_sq]
    have e3 : s.consumeAll.fdLive = s.fdLive := by simp
    have e4 : s.consumeAll.fdDir = s.fdDir := by simp
    rw [e3, e4]
    simp only [List.count_nil, Nat.add_zero] at this ⊢
    show s.fdCloses.getD k 0 + s.sq.count (SqEntry.close k) + _ = _
    exact this

theorem enter_fdCloses (s : St) (m : Nat) (ge : Bool) (posts : List Post) :
    (s.enter m ge posts).fdCloses = s.consumeAll.fdCloses := by
  unfold St.enter
  simp only [wakeBlocked_fdCloses]
  split <;> simp [St.emit, (foldl_kpost_frame posts _).2.2.2.2]

theorem invC_enter (s : St) (m : Nat) (ge : Bool) (posts : List Post) (h : InvC s) :
    InvC (s.enter m ge posts) :=
  invC_of_frame s.consumeAll _ (invC_consumeAll s h) (by simp) (enter_fdCloses _ _ _ _) (by simp)

theorem settlePool_fdLive (s : St) : s.settlePool.fdLive = s.fdLive := by
  unfold St.settlePool; split <;> rfl

@[simp] theorem settlePool_fdDir (s : St) : s.settlePool.fdDir = s.fdDir := by
  unfold St.settlePool; split <;> rfl

@[simp] theorem process_fdDir (s : St) (c : Cqe) : (s.process c).fdDir = s.fdDir := by
  unfold St.process
  split
  · rfl
  · split
    · rfl
    · split
      · rfl
      · rw [settlePool_fdDir]; simp

@[simp] theorem processAll_fdDir (s : St) (cs : List Cqe) : (s.processAll cs).fdDir = s.fdDir := by
  induction cs generalizing s with
  | nil => rfl
  | cons c cs ih => simp [St.processAll, ih]

@[simp] theorem drainCq_fdDir (s : St) : s.drainCq.fdDir = s.fdDir := by
  unfold St.drainCq
  exact processAll_fdDir _ _

theorem process_fdLive (s : St) (c : Cqe) : (s.process c).fdLive = s.fdLive := by
  unfold St.process
  split
  · rfl
  · split
    · rfl
    · split
      · rfl
      · rw [settlePool_fdLive]; simp

theorem processAll_fdLive (s : St) (cs : List Cqe) : (s.processAll cs).fdLive = s.fdLive := by
  induction cs generalizing s with
  | nil => rfl
  | cons c cs ih => simp [St.processAll, ih, process_fdLive]

theorem drainCq_fdLive (s : St) : s.drainCq.fdLive = s.fdLive := by
  unfold St.drainCq
  exact processAll_fdLive _ _

theorem invC_drainCq (s : St) (h : InvC s) : InvC s.drainCq :=
  invC_of_frame s _ h (drainCq_queues s).2.2.1 (drainCq_queues s).2.2.2.2.1 (drainCq_fdLive s)

theorem invC_loopFetch (s : St) (h : InvC s) : InvC s.loopFetch := by
  unfold St.loopFetch
  split
  · exact invC_enter _ _ _ _ (invC_enter _ _ _ _ h)
  · exact invC_enter _ _ _ _ h

theorem invC_dropLoop (s : St) (fuel : Nat) (h : InvC s) : InvC (s.dropLoop fuel) := by
  induction fuel generalizing s with
  | zero => exact h
  | succ n ih =>
    unfold St.dropLoop
    have := invC_drainCq _ (invC_loopFetch s h)
    split
    · exact this
    · exact ih _ this

theorem invC_cqDrop (s : St) (h : InvC s) : InvC s.cqDrop := by
  unfold St.cqDrop
  simp only []
  apply invC_dropLoop
  have h1 := invC_enter s 4294967295 false [] h
  exact invC_of_frame _ _ h1 (by simp [St.emit]) (by simp [St.emit]) (by simp)

theorem invC_sharedDrop (s : St) (h : InvC s) : InvC s.sharedDrop := by
  unfold St.sharedDrop
  simp only []
  split
  · exact invC_of_frame s _ h rfl rfl rfl
  · have h1 : InvC s.useSq := invC_of_frame s _ h rfl rfl rfl
    exact invC_of_frame _ _ (invC_consumeAll _ h1) rfl rfl rfl

theorem invC_settle (s : St) (h : InvC s) : InvC s.settle := by
  unfold St.settle St.settleShared
  have h1 : InvC s.settlePool :=
    invC_of_frame s _ h (by simp) (by simp) (settlePool_fdLive s)
  split
  · exact invC_sharedDrop _ h1
  · exact h1

theorem invC_core (s : St) (e : Step) (h : InvC s) : InvC (core s e) := by
  cases e with
  | newOp i k fd =>
    simp only [core, St.newOp]
    split <;> exact invC_of_frame s _ h rfl rfl rfl
  | poll i w =>
    simp only [core, St.poll]
    split
    · exact invC_of_frame s _ h rfl rfl rfl
    · split
      · refine ⟨h.len, fun k hk => ?_⟩
        have := h.eq k hk
        simp only [St.pollCore, St.useSq]
        split
        · simpa [List.count_cons] using this
        · exact this
      · exact invC_of_frame s _ h rfl rfl rfl
  | kpost i res =>
    simp only [core, St.kpost]
    split
    · split
      · exact invC_of_frame s _ h (by simp) (by simp) (by simp)
      · exact invC_of_frame s _ h rfl rfl rfl
    · exact invC_of_frame s _ h rfl rfl rfl
  | rpoll posts =>
    simp only [core, St.rpoll]
    split
    · have h2 : InvC (if s.useCq.cq.isEmpty then s.useCq.useSq.enter 1 true (posts.filter (postOk s))
          else s.useCq) := by
        split
        · exact invC_enter _ _ _ _ (invC_of_frame s _ h rfl rfl rfl)
        · exact invC_of_frame s _ h rfl rfl rfl
      exact invC_of_frame _ _ (invC_drainCq _ h2) rfl rfl rfl
    · exact invC_of_frame s _ h rfl rfl rfl
  | dropRing =>
    simp only [core, St.dropRing]
    split
    · exact invC_of_frame _ _ (invC_cqDrop _ (invC_of_frame s s.useSq.useCq h rfl rfl rfl)) rfl rfl rfl
    · exact invC_of_frame s _ h rfl rfl rfl
  | dropClone k =>
    simp only [core, St.dropClone]
    split <;> exact invC_of_frame s _ h rfl rfl rfl
  | dropFd k =>
    simp only [core, St.dropFd]
    split
    · rename_i hg
      simp only [Bool.and_eq_true] at hg
      have hg' : s.fdLive[k]? = some true := by simpa using hg.1.1
      have hkl : k < s.fdLive.length := (List.getElem?_eq_some_iff.mp hg').1
      have hkt : s.fdLive.getD k false = true := by
        rw [List.getD_eq_getElem?_getD, hg']; rfl
      have hkd : s.fdDir.getD k false = false := by simpa [fdDir] using hg.2
      split
      · refine ⟨by simpa [St.emit, St.useSq] using h.len, fun j hj => ?_⟩
        have hj' : j < s.fdLive.length := by simpa [St.emit, St.useSq] using hj
        have := h.eq j hj'
        simp only [St.emit, St.useSq]
        by_cases hjk : j = k
        · subst hjk
          rw [hkt, hkd] at this
          rw [hkd]
          simp [List.count_cons, List.getD_eq_getElem?_getD, List.getElem?_set, hj'] at this ⊢
          omega
        · have hne : SqEntry.close k ≠ SqEntry.close j := by
            intro e; injection e with e; exact hjk e.symm
          have hl : (s.fdLive.set k false).getD j false = s.fdLive.getD j false := by
            simp [List.getD_eq_getElem?_getD, List.getElem?_set, Ne.symm hjk]
          rw [hl]
          simpa [List.count_cons, hne] using this
      · refine ⟨by simpa [St.emit, St.useSq, St.closeFd] using h.len, fun j hj => ?_⟩
        have hj' : j < s.fdLive.length := by simpa [St.emit, St.useSq, St.closeFd] using hj
        have := h.eq j hj'
        simp only [St.emit, St.useSq, St.closeFd]
        rw [getD_set _ _ _ _ (by rw [h.len]; exact hj')]
        by_cases hjk : j = k
        · subst hjk
          rw [hkt, hkd] at this
          rw [hkd]
          simp [List.getD_eq_getElem?_getD, List.getElem?_set, hj'] at this ⊢
          omega
        · have hl : (s.fdLive.set k false).getD j false = s.fdLive.getD j false := by
            simp [List.getD_eq_getElem?_getD, List.getElem?_set, Ne.symm hjk]
          rw [hl, if_neg (Ne.symm hjk)]
          exact this
    · exact invC_of_frame s _ h rfl rfl rfl
  | dropDfd k =>
    simp only [core, St.dropDfd]
    split
    · rename_i hg
      simp only [Bool.and_eq_true] at hg
      have hkd : s.fdDir.getD k false = true := by simpa [fdDir] using hg.2
      -- a direct descriptor does not count in the regular ledger, alive or not
      have hl : ∀ j, ((s.fdLive.set k false).getD j false && !s.fdDir.getD j false)
          = (s.fdLive.getD j false && !s.fdDir.getD j false) := by
        intro j
        by_cases hjk : j = k
        · subst hjk; rw [hkd]; simp
        · simp [List.getD_eq_getElem?_getD, List.getElem?_set, Ne.symm hjk]
      split
      · refine ⟨by simpa [St.emit, St.useSq] using h.len, fun j hj => ?_⟩
        have hj' : j < s.fdLive.length := by simpa [St.emit, St.useSq] using hj
        have := h.eq j hj'
        simp only [St.emit, St.useSq]
        rw [hl j]
        simpa [List.count_cons] using this
      · refine ⟨by simpa [St.emit, St.useSq, St.releaseSlot] using h.len, fun j hj => ?_⟩
        have hj' : j < s.fdLive.length := by simpa [St.emit, St.useSq, St.releaseSlot] using hj
        have := h.eq j hj'
        simp only [St.emit, St.useSq, St.releaseSlot]
        rw [hl j]
        exact this
    · exact invC_of_frame s _ h rfl rfl rfl
  | dropOp i =>
    simp only [core, St.dropOp]
    split
    · exact invC_of_frame s _ h rfl rfl rfl
    · split
      · refine ⟨h.len, fun k hk => ?_⟩
        have := h.eq k hk
        simp only [St.dropOpCore, St.useSq]
        split
        · simpa [List.count_cons] using this
        · exact this
      · exact invC_of_frame s _ h rfl rfl rfl
  | dropPool =>
    simp only [core, St.dropPool]
    split <;> exact invC_of_frame s _ h rfl rfl rfl
  | dropBuf j =>
    simp only [core, St.dropBuf]
    split <;> exact invC_of_frame s _ h rfl rfl rfl

theorem invC_step (s : St) (e : Step) (h : InvC s) : InvC (step s e) :=
  invC_settle _ (invC_core s e h)

/-! ### Invariant B: the ledger of mappings, the ring descriptor and the pool -/

def isRingEv : LEv → Bool
  | .munmap _ => true
  | .closeRing => true
  | _ => false

def isPoolEv : LEv → Bool
  | .unregister => true
  | .poolFree => true
  | _ => false

def ringLog (l : List LEv) : List LEv := l.filter isRingEv
def poolLog (l : List LEv) : List LEv := l.filter isPoolEv

/-- The ledger as a function of what is alive. -/
structure LogB (o : Objs) : Prop where
  ring : ringLog o.log =
    if o.ringLive then []
    else if o.sharedLive then [LEv.munmap .cq]
    else [LEv.munmap .cq, LEv.munmap .sqes, LEv.munmap .sq, LEv.closeRing]
  pool : poolLog o.log =
    if o.poolLive || !o.hadPool then [] else [LEv.unregister, LEv.poolFree, LEv.poolFree]
  had : o.hadPool = false → o.poolLive = false

theorem settlePool_frameB (s : St) :
    s.settlePool.sharedLive = s.sharedLive ∧ s.settlePool.ringLive = s.ringLive ∧
    s.settlePool.hadPool = s.hadPool := by
  unfold St.settlePool; split <;> exact ⟨rfl, rfl, rfl⟩

theorem logB_settlePool (s : St) (h : LogB s.toObjs) : LogB s.settlePool.toObjs := by
  unfold St.settlePool
  split
  · rename_i hc
    simp only [Bool.and_eq_true, beq_iff_eq] at hc
    have hhad : s.hadPool = true := by
      cases hh : s.hadPool with
      | true => rfl
      | false => have := h.had hh; rw [hc.1] at this; exact absurd this (by simp)
    obtain ⟨hr, hp, _⟩ := h
    refine ⟨?_, ?_, fun _ => rfl⟩
    · show ringLog (s.log ++ _) = _
      simp only [ringLog, List.filter_append] at hr ⊢
      rw [hr]; simp [isRingEv, St.emit, St.useSq]
    · show poolLog (s.log ++ _) = _
      simp only [poolLog, List.filter_append] at hp ⊢
      rw [hp]; simp [isPoolEv, St.emit, St.useSq, hc.1, hhad]
  · exact h

theorem process_frameB (s : St) (c : Cqe) :
    (s.process c).sharedLive = s.sharedLive ∧ (s.process c).hadPool = s.hadPool := by
  unfold St.process
  split
  · exact ⟨rfl, rfl⟩
  · split
    · exact ⟨rfl, rfl⟩
    · split
      · exact ⟨rfl, rfl⟩
      · obtain ⟨a, _, c⟩ := settlePool_frameB
          (applyEffs ({ s with ops := s.ops.set _ _ } : St) _ _)
        exact ⟨by rw [a]; simp, by rw [c]; simp⟩

theorem logB_process (s : St) (c : Cqe) (h : LogB s.toObjs) : LogB (s.process c).toObjs := by
  unfold St.process
  split
  · exact h
  · split
    · exact h
    · split
      · exact h
      · apply logB_settlePool
        rw [applyEffs_objs]
        exact ⟨h.ring, h.pool, h.had⟩

theorem processAll_frameB (s : St) (cs : List Cqe) :
    (s.processAll cs).sharedLive = s.sharedLive ∧ (s.processAll cs).hadPool = s.hadPool := by
  induction cs generalizing s with
  | nil => exact ⟨rfl, rfl⟩
  | cons c cs ih =>
    obtain ⟨a, b⟩ := ih (s.process c)
    obtain ⟨a', b'⟩ := process_frameB s c
    exact ⟨by simp only [St.processAll]; rw [a, a'], by simp only [St.processAll]; rw [b, b']⟩

theorem logB_processAll (s : St) (cs : List Cqe) (h : LogB s.toObjs) : LogB (s.processAll cs).toObjs := by
  induction cs generalizing s with
  | nil => exact h
  | cons c cs ih => exact ih _ (logB_process s c h)

theorem drainCq_sharedLive (s : St) : s.drainCq.sharedLive = s.sharedLive := by
  unfold St.drainCq
  exact (processAll_frameB _ _).1

theorem logB_drainCq (s : St) (h : LogB s.toObjs) : LogB s.drainCq.toObjs := by
  unfold St.drainCq
  exact logB_processAll ({ s with cq := [] } : St) s.cq h

theorem logB_loopFetch (s : St) (h : LogB s.toObjs) :
    LogB s.loopFetch.toObjs ∧ s.loopFetch.sharedLive = s.sharedLive := by
  unfold St.loopFetch
  split <;> exact ⟨by simpa using h, by simp⟩

theorem logB_dropLoop (s : St) (fuel : Nat) (h : LogB s.toObjs) :
    LogB (s.dropLoop fuel).toObjs ∧ (s.dropLoop fuel).sharedLive = s.sharedLive := by
  induction fuel generalizing s with
  | zero => exact ⟨h, rfl⟩
  | succ n ih =>
    unfold St.dropLoop
    obtain ⟨f1, f2⟩ := logB_loopFetch s h
    have d1 := logB_drainCq _ f1
    have d2 : s.loopFetch.drainCq.sharedLive = s.sharedLive := by rw [drainCq_sharedLive, f2]
    split
    · exact ⟨d1, d2⟩
    · obtain ⟨r1, r2⟩ := ih _ d1
      exact ⟨r1, by rw [r2, d2]⟩

theorem logB_cqDrop (s : St) (h : LogB s.toObjs) :
    LogB s.cqDrop.toObjs ∧ s.cqDrop.sharedLive = s.sharedLive := by
  unfold St.cqDrop
  simp only []
  obtain ⟨r1, r2⟩ := logB_dropLoop
    (({ s.enter 4294967295 false [] |>.emit _ with inflight := [] } : St).cancelAll
      ((s.enter 4294967295 false []).emit _).inflight) _ (by simpa using h)
  exact ⟨r1, by rw [r2]; simp⟩

theorem loopFetch_sharedLive (s : St) : s.loopFetch.sharedLive = s.sharedLive := by
  unfold St.loopFetch
  split <;> simp

theorem dropLoop_sharedLive (s : St) (fuel : Nat) : (s.dropLoop fuel).sharedLive = s.sharedLive := by
  induction fuel generalizing s with
  | zero => rfl
  | succ n ih =>
    unfold St.dropLoop
    split
    · rw [drainCq_sharedLive, loopFetch_sharedLive]
    · rw [ih, drainCq_sharedLive, loopFetch_sharedLive]

theorem cqDrop_sharedLive (s : St) : s.cqDrop.sharedLive = s.sharedLive := by
  unfold St.cqDrop
  simp only []
  rw [dropLoop_sharedLive]
  simp

/-- Nothing a script can do changes `sharedLive` before the final `settle`. -/
theorem core_sharedLive (s : St) (e : Step) : (core s e).sharedLive = s.sharedLive := by
  cases e with
  | newOp i k fd => simp only [core, St.newOp]; split <;> rfl
  | poll i w =>
    simp only [core, St.poll]
    split
    · rfl
    · split <;> rfl
  | kpost i res =>
    simp only [core, St.kpost]
    split
    · split
      · show (s.kpostQuiet i res _).toObjs.sharedLive = _
        rw [kpostQuiet_objs]
      · rfl
    · rfl
  | rpoll posts =>
    simp only [core, St.rpoll]
    split
    · show (St.drainCq _).sharedLive = _
      rw [drainCq_sharedLive]
      split
      · show (St.enter _ _ _ _).toObjs.sharedLive = _
        rw [enter_objs]; rfl
      · rfl
    · rfl
  | dropRing =>
    simp only [core, St.dropRing]
    split
    · show s.useSq.useCq.cqDrop.sharedLive = _
      rw [cqDrop_sharedLive]; rfl
    · rfl
  | dropClone k => simp only [core, St.dropClone]; split <;> rfl
  | dropFd k =>
    simp only [core, St.dropFd]
    split
    · split <;> rfl
    · rfl
  | dropDfd k =>
    simp only [core, St.dropDfd]
    split
    · split <;> rfl
    · rfl
  | dropOp i =>
    simp only [core, St.dropOp]
    split
    · rfl
    · split <;> rfl
  | dropPool => simp only [core, St.dropPool]; split <;> rfl
  | dropBuf j => simp only [core, St.dropBuf]; split <;> rfl

/-- Once nobody holds `Shared`, no call of a script can be made any more. -/
theorem dead_guards (o : Objs) (hh : handles o = 0) (hr : poolRefs o = 0) :
    o.ringLive = false ∧ (∀ k : Nat, o.clones[k]? ≠ some true) ∧
    (∀ k : Nat, o.fdLive.getD k false = false) ∧
    o.poolHandle = false ∧ (∀ j : Nat, o.bufs[j]? ≠ some true) ∧ o.clones.contains true = false ∧
    (∀ (i : Nat) (t : TOp), o.ops[i]? = some t → t.kind = .unlink → t.op.futLive = false) := by
  refine ⟨?_, ?_, ?_, ?_, ?_, ?_, ?_⟩
  · cases h : o.ringLive with
    | false => rfl
    | true => have := handles_pos_of_ring o h; omega
  · intro k hk
    have := handles_pos_of_clone o k hk; omega
  · intro k
    cases h : o.fdLive.getD k false with
    | false => rfl
    | true => have := handles_pos_of_fd o k (getElem?_of_getD_true _ _ h); omega
  · cases h : o.poolHandle with
    | false => rfl
    | true => simp [poolRefs, h] at hr
  · intro j hj
    have := count_pos_of_getElem? _ _ hj
    unfold poolRefs at hr; omega
  · cases h : o.clones.contains true with
    | false => rfl
    | true =>
      have : 0 < o.clones.count true := List.count_pos_iff.mpr (by simpa using h)
      unfold handles at hh; omega
  · intro i t hget hk
    cases hf : t.op.futLive with
    | false => rfl
    | true =>
      have := countP_pos_of_getElem? (fun t => t.kind == .unlink && t.op.futLive) o.ops i t hget
        (by simp [hk, hf])
      unfold handles at hh; omega

theorem core_dead (s : St) (e : Step) (h : InvA s.toObjs) (hd : s.sharedLive = false) :
    (core s e).toObjs = s.toObjs ∧ (core s e).sq = s.sq := by
  have hh := h.a2 hd
  have hpl : s.poolLive = false := by
    cases hp : s.poolLive with
    | false => rfl
    | true => have := handles_pos_of_pool s.toObjs hp; omega
  have hr := h.a4 hpl
  obtain ⟨g1, g2, g3, g4, g5, g6, g7⟩ := dead_guards s.toObjs hh hr
  have hrf : s.ringFdOpen = false := by rw [h.m3]; exact hd
  have g3' : ∀ k : Nat, s.fdLive[k]?.getD false = false := fun k => by
    have := g3 k; rwa [List.getD_eq_getElem?_getD] at this
  have hold : ∀ (i : Nat) (t : TOp), s.ops[i]? = some t → (t.op.futLive && holderLive s t) = false := by
    intro i t hget
    cases hk : t.kind with
    | unlink => simp [g7 i t hget hk]
    | pread => simp [holderLive, hk, fdLive, g3']
    | read => simp [holderLive, hk, fdLive, g3']
    | write => simp [holderLive, hk, fdLive, g3']
    | mread => simp [holderLive, hk, fdLive, g3']
    | sendzc => simp [holderLive, hk, fdLive, g3']
  cases e with
  | newOp i k fd =>
    have g6' : true ∉ s.clones := by simpa using g6
    have : canNew s i k fd = false := by
      cases k <;> simp [canNew, g1, g6', fdLive, g3']
    simp [core, St.newOp, this]
  | poll i w =>
    simp only [core, St.poll]
    split
    · exact ⟨rfl, rfl⟩
    · rename_i t hget
      simp [hold i t hget]
  | kpost i res => simp [core, St.kpost, hrf]
  | rpoll posts => simp [core, St.rpoll, g1]
  | dropRing => simp [core, St.dropRing, g1]
  | dropClone k =>
    have : (s.clones[k]? == some true) = false := by
      cases hc : s.clones[k]? with
      | none => rfl
      | some b => cases b with
        | false => rfl
        | true => exact absurd hc (g2 k)
    simp [core, St.dropClone, this]
  | dropFd k =>
    have : (s.fdLive[k]? == some true) = false := by
      cases hc : s.fdLive[k]? with
      | none => rfl
      | some b => cases b with
        | false => rfl
        | true =>
          have := g3 k
          rw [List.getD_eq_getElem?_getD, hc] at this; simp at this
    simp [core, St.dropFd, this]
  | dropDfd k =>
    have : (s.fdLive[k]? == some true) = false := by
      cases hc : s.fdLive[k]? with
      | none => rfl
      | some b => cases b with
        | false => rfl
        | true =>
          have := g3 k
          rw [List.getD_eq_getElem?_getD, hc] at this; simp at this
    simp [core, St.dropDfd, this]
  | dropOp i =>
    simp only [core, St.dropOp]
    split
    · exact ⟨rfl, rfl⟩
    · rename_i t hget
      simp [hold i t hget]
  | dropPool => simp [core, St.dropPool, g4]
  | dropBuf j =>
    have : (s.bufs[j]? == some true) = false := by
      cases hc : s.bufs[j]? with
      | none => rfl
      | some b => cases b with
        | false => rfl
        | true => exact absurd hc (g5 j)
    simp [core, St.dropBuf, this]

structure InvB (s : St) : Prop where
  log : LogB s.toObjs
  /-- `Drop for Shared` submitted everything that was still queued -/
  sq : s.sharedLive = false → s.sq = []

theorem logB_congr (o o' : Objs) (h : LogB o) (h1 : o'.log = o.log) (h2 : o'.ringLive = o.ringLive)
    (h3 : o'.sharedLive = o.sharedLive) (h4 : o'.poolLive = o.poolLive) (h5 : o'.hadPool = o.hadPool) :
    LogB o' :=
  ⟨by rw [h1, h2, h3]; exact h.ring, by rw [h1, h4, h5]; exact h.pool, by rw [h4, h5]; exact h.had⟩

theorem logB_core (s : St) (e : Step) (h : LogB s.toObjs) (hs : s.sharedLive = true) :
    LogB (core s e).toObjs := by
  cases e with
  | newOp i k fd => simp only [core, St.newOp]; split <;> exact logB_congr _ _ h rfl rfl rfl rfl rfl
  | poll i w =>
    simp only [core, St.poll]
    split
    · exact h
    · split <;> exact logB_congr _ _ h rfl rfl rfl rfl rfl
  | kpost i res =>
    simp only [core, St.kpost]
    split
    · split
      · simpa using h
      · exact h
    · exact h
  | rpoll posts =>
    simp only [core, St.rpoll]
    split
    · apply logB_drainCq
      split
      · simp only [enter_objs]; exact logB_congr _ _ h rfl rfl rfl rfl rfl
      · exact logB_congr _ _ h rfl rfl rfl rfl rfl
    · exact h
  | dropRing =>
    simp only [core, St.dropRing]
    split
    · rename_i hr
      have h0 : LogB s.useSq.useCq.toObjs := logB_congr _ _ h rfl rfl rfl rfl rfl
      obtain ⟨h1, hs1⟩ := logB_cqDrop _ h0
      have hr1 : s.useSq.useCq.cqDrop.ringLive = true := by
        unfold St.cqDrop
        simp only []
        rw [(dropLoop_frame _ _).2]
        simpa [St.useSq, St.useCq] using hr
      generalize s.useSq.useCq.cqDrop = s1 at h1 hs1 hr1
      have hs1' : s1.sharedLive = true := by rw [hs1]; exact hs
      obtain ⟨a, b, c⟩ := h1
      rw [hr1] at a
      refine ⟨?_, ?_, c⟩
      · show ringLog (s1.log ++ [LEv.munmap .cq]) = _
        simp only [ringLog, List.filter_append] at a ⊢
        rw [a]; simp [isRingEv, hs1']
      · show poolLog (s1.log ++ [LEv.munmap .cq]) = _
        simp only [poolLog, List.filter_append] at b ⊢
        rw [b]; simp [isPoolEv]
    · exact h
  | dropClone k => simp only [core, St.dropClone]; split <;> exact logB_congr _ _ h rfl rfl rfl rfl rfl
  | dropFd k =>
    simp only [core, St.dropFd]
    split
    · split <;> exact logB_congr _ _ h rfl rfl rfl rfl rfl
    · exact h
  | dropDfd k =>
    simp only [core, St.dropDfd]
    split
    · split <;> exact logB_congr _ _ h rfl rfl rfl rfl rfl
    · exact h
  | dropOp i =>
    simp only [core, St.dropOp]
    split
    · exact h
    · split <;> exact logB_congr _ _ h rfl rfl rfl rfl rfl
  | dropPool => simp only [core, St.dropPool]; split <;> exact logB_congr _ _ h rfl rfl rfl rfl rfl
  | dropBuf j => simp only [core, St.dropBuf]; split <;> exact logB_congr _ _ h rfl rfl rfl rfl rfl

theorem invB_core (s : St) (e : Step) (h : InvB s) (ha : InvA s.toObjs) : InvB (core s e) := by
  cases hs : s.sharedLive with
  | false =>
    obtain ⟨c1, c2⟩ := core_dead s e ha hs
    exact ⟨by rw [c1]; exact h.log, fun _ => by rw [c2]; exact h.sq hs⟩
  | true =>
    refine ⟨logB_core s e h.log hs, fun hf => ?_⟩
    rw [core_sharedLive, hs] at hf; exact absurd hf (by simp)

theorem sharedDrop_sq (s : St) : s.sharedDrop.sq = [] := by
  unfold St.sharedDrop
  simp only []
  split
  · rename_i he
    show s.useSq.sq = []
    simpa using he
  · show (((s.useSq.consumeAll).emit _).wakeBlocked).sq = []
    simp [St.emit]

theorem invB_settle (s : St) (h : InvB s) : InvB s.settle := by
  unfold St.settle St.settleShared
  have hl := logB_settlePool s h.log
  obtain ⟨f1, f2, f3⟩ := settlePool_frameB s
  have hsq : s.settlePool.sq = s.sq := by
    have := settlePool_queues s
    show s.settlePool.toQueues.sq = s.toQueues.sq
    rw [this]
  generalize s.settlePool = s1 at hl f1 f2 f3 hsq
  split
  · rename_i hc
    simp only [Bool.and_eq_true, beq_iff_eq] at hc
    have hrl : s1.ringLive = false := by
      cases hr : s1.ringLive with
      | false => rfl
      | true => have := handles_pos_of_ring s1.toObjs hr; omega
    refine ⟨?_, fun _ => sharedDrop_sq s1⟩
    rw [sharedDrop_objs]
    obtain ⟨a, b, c⟩ := hl
    rw [hrl, hc.1] at a
    refine ⟨?_, ?_, c⟩
    · show ringLog (s1.log ++ _) = _
      simp only [ringLog, List.filter_append] at a ⊢
      rw [a]; simp [isRingEv, hrl]
    · show poolLog (s1.log ++ _) = _
      simp only [poolLog, List.filter_append] at b ⊢
      rw [b]; simp [isPoolEv]
  · exact ⟨hl, fun hf => by rw [hsq]; exact h.sq (by rw [← f1]; exact hf)⟩

theorem invB_step (s : St) (e : Step) (h : InvB s) (ha : InvA s.toObjs) : InvB (step s e) :=
  invB_settle _ (invB_core s e h ha)

/-! ### Invariant L: who is marked `late` -/

/-- While the Ring exists nobody is marked; afterwards every marked operation
is (and stays) owed a completion that nobody will ever process. -/
structure InvL (s : St) : Prop where
  none : s.ringLive = true → ∀ t ∈ s.ops, t.late = false
  act : s.ringLive = false → ∀ t ∈ s.ops, t.late = true → activeB t.op = true

theorem invL_of_ops (s s' : St) (h : InvL s) (h1 : s'.ops = s.ops) (h2 : s'.ringLive = s.ringLive) :
    InvL s' :=
  ⟨fun hr => by rw [h1]; exact h.none (by rw [← h2]; exact hr),
   fun hr => by rw [h1]; exact h.act (by rw [← h2]; exact hr)⟩

theorem process_late (s : St) (c : Cqe) (h : ∀ t ∈ s.ops, t.late = false) :
    ∀ t ∈ (s.process c).ops, t.late = false := by
  rcases process_shape s c with hs | ⟨i, t, o', effs, _, hget, _, hs⟩
  · rw [hs]; exact h
  · rw [hs]
    intro t' ht'
    rcases List.mem_or_eq_of_mem_set ht' with h1 | h1
    · exact h t' h1
    · subst h1; exact h t (List.mem_of_getElem? hget)

theorem processAll_late (s : St) (cs : List Cqe) (h : ∀ t ∈ s.ops, t.late = false) :
    ∀ t ∈ (s.processAll cs).ops, t.late = false := by
  induction cs generalizing s with
  | nil => exact h
  | cons c cs ih => exact ih _ (process_late s c h)

theorem drainCq_late (s : St) (h : ∀ t ∈ s.ops, t.late = false) :
    ∀ t ∈ s.drainCq.ops, t.late = false := by
  unfold St.drainCq
  exact processAll_late ({ s with cq := [] } : St) s.cq h

theorem loopFetch_ops (s : St) : s.loopFetch.ops = s.ops := by
  unfold St.loopFetch
  split <;> simp

theorem dropLoop_late (s : St) (fuel : Nat) (h : ∀ t ∈ s.ops, t.late = false) :
    ∀ t ∈ (s.dropLoop fuel).ops, t.late = false := by
  induction fuel generalizing s with
  | zero => exact h
  | succ n ih =>
    unfold St.dropLoop
    have hd := drainCq_late s.loopFetch (by rw [loopFetch_ops]; exact h)
    split
    · exact hd
    · exact ih _ hd

theorem cqDrop_late (s : St) (h : ∀ t ∈ s.ops, t.late = false) :
    ∀ t ∈ s.cqDrop.ops, t.late = false := by
  unfold St.cqDrop
  simp only []
  apply dropLoop_late
  simpa using h

theorem invL_core (s : St) (e : Step) (h : InvL s) (hd : InvD s) : InvL (core s e) := by
  cases e with
  | newOp i k fd =>
    simp only [core, St.newOp]
    split
    · refine ⟨fun hr t ht => ?_, fun hr t ht hl => ?_⟩
      · rcases List.mem_append.mp ht with h1 | h1
        · exact h.none hr t h1
        · simp at h1; subst h1; rfl
      · rcases List.mem_append.mp ht with h1 | h1
        · exact h.act hr t h1 hl
        · simp at h1; subst h1; simp at hl
    · exact invL_of_ops s _ h rfl rfl
  | poll i w =>
    simp only [core, St.poll]
    split
    · exact invL_of_ops s _ h rfl rfl
    · rename_i t hget
      split
      · rename_i hg
        simp only [Bool.and_eq_true] at hg
        have hokt := hd.ok t (List.mem_of_getElem? hget)
        obtain ⟨pa1, pa2⟩ := poll_active t.op w s.sqRoom hokt hg.1
        have hmem := List.mem_of_getElem? hget
        refine ⟨fun hr t' ht' => ?_, fun hr t' ht' hl => ?_⟩
        · have hr' : s.ringLive = true := hr
          rcases List.mem_or_eq_of_mem_set ht' with h1 | h1
          · exact h.none hr' t' h1
          · subst h1; simp [h.none hr' t hmem, hr']
        · have hr' : s.ringLive = false := hr
          rcases List.mem_or_eq_of_mem_set ht' with h1 | h1
          · exact h.act hr' t' h1 hl
          · subst h1
            cases hsub : (t.op.poll w s.sqRoom).2.2.contains Eff.submit with
            | true => exact (pa1 hsub).2
            | false =>
              simp only [hsub, Bool.false_and, Bool.or_false] at hl
              show activeB (t.op.poll w s.sqRoom).1 = true
              rw [pa2 hsub]; exact h.act hr' t hmem hl
      · exact invL_of_ops s _ h rfl rfl
  | kpost i res =>
    simp only [core, St.kpost]
    split
    · split
      · exact invL_of_ops s _ h (by simp) (by simp)
      · exact invL_of_ops s _ h rfl rfl
    · exact invL_of_ops s _ h rfl rfl
  | rpoll posts =>
    simp only [core, St.rpoll]
    split
    · rename_i hr
      have h0 : ∀ t ∈ (if s.useCq.cq.isEmpty then s.useCq.useSq.enter 1 true (posts.filter (postOk s))
          else s.useCq).ops, t.late = false := by
        split
        · have e : (s.useCq.useSq.enter 1 true (posts.filter (postOk s))).ops = s.ops := by
            show (St.enter _ _ _ _).toObjs.ops = _
            rw [enter_objs]; rfl
          rw [e]; exact h.none hr
        · exact h.none hr
      have h1 := drainCq_late _ h0
      refine ⟨fun _ => h1, fun hf => ?_⟩
      have : (St.drainCq _).ringLive = false := hf
      rw [drainCq_ringLive] at this
      split at this
      · simp [St.useSq, St.useCq, hr] at this
      · simp [St.useCq, hr] at this
    · exact invL_of_ops s _ h rfl rfl
  | dropRing =>
    simp only [core, St.dropRing]
    split
    · rename_i hr
      have h1 := cqDrop_late s.useSq.useCq (h.none hr)
      exact ⟨fun hf => by simp at hf, fun _ t ht hl => by rw [h1 t ht] at hl; simp at hl⟩
    · exact invL_of_ops s _ h rfl rfl
  | dropClone k =>
    simp only [core, St.dropClone]; split <;> exact invL_of_ops s _ h rfl rfl
  | dropFd k =>
    simp only [core, St.dropFd]
    split
    · split <;> exact invL_of_ops s _ h rfl rfl
    · exact invL_of_ops s _ h rfl rfl
  | dropDfd k =>
    simp only [core, St.dropDfd]
    split
    · split <;> exact invL_of_ops s _ h rfl rfl
    · exact invL_of_ops s _ h rfl rfl
  | dropOp i =>
    simp only [core, St.dropOp]
    split
    · exact invL_of_ops s _ h rfl rfl
    · rename_i t hget
      split
      · rename_i hg
        simp only [Bool.and_eq_true] at hg
        have hokt := hd.ok t (List.mem_of_getElem? hget)
        obtain ⟨da, _, _⟩ := dropFut_active t.op s.sqRoom hokt hg.1
        have hmem := List.mem_of_getElem? hget
        refine ⟨fun hr t' ht' => ?_, fun hr t' ht' hl => ?_⟩
        · have hr' : s.ringLive = true := hr
          rcases List.mem_or_eq_of_mem_set ht' with h1 | h1
          · exact h.none hr' t' h1
          · subst h1; exact h.none hr' t hmem
        · have hr' : s.ringLive = false := hr
          rcases List.mem_or_eq_of_mem_set ht' with h1 | h1
          · exact h.act hr' t' h1 hl
          · subst h1
            show activeB (t.op.dropFut s.sqRoom).1 = true
            rw [da]; exact h.act hr' t hmem hl
      · exact invL_of_ops s _ h rfl rfl
  | dropPool => simp only [core, St.dropPool]; split <;> exact invL_of_ops s _ h rfl rfl
  | dropBuf j => simp only [core, St.dropBuf]; split <;> exact invL_of_ops s _ h rfl rfl

theorem invL_step (s : St) (e : Step) (h : InvL s) (hd : InvD s) : InvL (step s e) := by
  obtain ⟨f1, f2, _, _⟩ := settle_frameD (core s e)
  exact invL_of_ops _ _ (invL_core s e h hd) f1 f2

/-! ### Invariant P: `Completion::process` never reaches `unreachable!()` -/

@[simp] theorem postCqe_panicked (s : St) (c : Cqe) : (s.postCqe c).panicked = s.panicked := by
  unfold St.postCqe; split <;> rfl

@[simp] theorem closeIdx_panicked (s : St) (fi : Nat) : (s.closeIdx fi).panicked = s.panicked := by
  cases fi <;> simp [St.closeIdx, St.emit] <;> split <;> (try split) <;> simp [St.releaseSlot]

@[simp] theorem consumeOne_panicked (s : St) (e : SqEntry) : (s.consumeOne e).panicked = s.panicked := by
  cases e with
  | closeIdx fi => simp [St.consumeOne]
  | _ => simp [St.consumeOne] <;> split <;> simp [St.emit, St.closeFd]

@[simp] theorem consume_panicked (s : St) (es : List SqEntry) : (s.consume es).panicked = s.panicked := by
  induction es generalizing s with
  | nil => rfl
  | cons e es ih => simp [St.consume, ih]

@[simp] theorem consumeAll_panicked (s : St) : s.consumeAll.panicked = s.panicked := by
  simp [St.consumeAll]

@[simp] theorem kpostQuiet_panicked (s : St) (i : Nat) (r : Int) (f : Nat) :
    (s.kpostQuiet i r f).panicked = s.panicked := by
  unfold St.kpostQuiet; split <;> simp

theorem foldl_kpost_panicked (posts : List Post) (s : St) :
    (posts.foldl (fun (s : St) p => s.kpostQuiet p.1 p.2.1 p.2.2) s).panicked = s.panicked := by
  induction posts generalizing s with
  | nil => rfl
  | cons p ps ih => simp [List.foldl, ih]

@[simp] theorem enter_panicked (s : St) (m : Nat) (ge : Bool) (posts : List Post) :
    (s.enter m ge posts).panicked = s.panicked := by
  unfold St.enter
  simp only [St.wakeBlocked, St.emit]
  split <;> simp [St.flushOverflow, foldl_kpost_panicked]

@[simp] theorem cancelAll_panicked (s : St) (l : List Nat) : (s.cancelAll l).panicked = s.panicked := by
  induction l generalizing s with
  | nil => rfl
  | cons i is ih => simp [St.cancelAll, ih]

@[simp] theorem settlePool_panicked (s : St) : s.settlePool.panicked = s.panicked := by
  unfold St.settlePool; split <;> rfl

theorem applyEffs_panicked (s : St) (i : Nat) (effs : List Eff) :
    (applyEffs s i effs).panicked = s.panicked := by
  induction effs generalizing s with
  | nil => rfl
  | cons e es ih => cases e <;> simp [applyEffs, ih]

theorem sharedDrop_panicked (s : St) : s.sharedDrop.panicked = s.panicked := by
  unfold St.sharedDrop
  simp only []
  split
  · rfl
  · show (St.wakeBlocked _).panicked = _
    simp [St.wakeBlocked, St.emit, St.useSq]

theorem settle_panicked (s : St) : s.settle.panicked = s.panicked := by
  unfold St.settle St.settleShared
  split
  · rw [sharedDrop_panicked, settlePool_panicked]
  · exact settlePool_panicked s

/-- With the token equation, every completion that is processed belongs to an
existing, active operation: neither `unreachable!()` arm is taken. -/
theorem drainCq_np (s : St) (h : TokEq s) : s.drainCq.panicked = s.panicked := (drainCq_spec s h).2

theorem loopFetch_panicked (s : St) : s.loopFetch.panicked = s.panicked := by
  unfold St.loopFetch; split <;> simp

theorem dropLoop_np (s : St) (fuel : Nat) (h : TokEq s) : (s.dropLoop fuel).panicked = s.panicked := by
  induction fuel generalizing s with
  | zero => rfl
  | succ n ih =>
    unfold St.dropLoop
    have hf := tokEq_loopFetch s h
    have hd := drainCq_np _ hf
    split
    · rw [hd, loopFetch_panicked]
    · rw [ih _ (tokEq_drainCq _ hf), hd, loopFetch_panicked]

theorem cqDrop_np (s : St) (h : TokEq s) : s.cqDrop.panicked = s.panicked := by
  unfold St.cqDrop
  simp only []
  rw [dropLoop_np _ _ (cqDrop_tokEq3 s h)]
  simp [St.emit]

theorem core_np (s : St) (e : Step) (hd : InvD s) (hp : s.panicked = false) :
    (core s e).panicked = false := by
  cases e with
  | newOp i k fd => simp only [core, St.newOp]; split <;> exact hp
  | poll i w =>
    simp only [core, St.poll]
    split
    · exact hp
    · split <;> exact hp
  | kpost i res f =>
    simp only [core, St.kpost]
    split
    · split
      · simpa [St.emit] using hp
      · exact hp
    · exact hp
  | rpoll posts =>
    simp only [core, St.rpoll]
    split
    · rename_i hr
      have t0 : TokEq s := ⟨hd.ok, hd.tok hr, hd.suf hr⟩
      have t2 : TokEq (if s.useCq.cq.isEmpty then s.useCq.useSq.enter 1 true (posts.filter (postOk s))
          else s.useCq) := by
        split
        · exact tokEq_enter _ _ _ _ (tokEq_of_eq s _ t0 rfl rfl)
        · exact tokEq_of_eq s _ t0 rfl rfl
      show (St.drainCq _).panicked = false
      rw [drainCq_np _ t2]
      split
      · simpa [St.useSq, St.useCq] using hp
      · exact hp
    · exact hp
  | dropRing =>
    simp only [core, St.dropRing]
    split
    · rename_i hr
      have t0 : TokEq s.useSq.useCq := tokEq_of_eq s _ ⟨hd.ok, hd.tok hr, hd.suf hr⟩ rfl rfl
      show s.useSq.useCq.cqDrop.panicked = false
      rw [cqDrop_np _ t0]; exact hp
    · exact hp
  | dropClone k => simp only [core, St.dropClone]; split <;> exact hp
  | dropFd k =>
    simp only [core, St.dropFd]
    split
    · split <;> exact hp
    · exact hp
  | dropDfd k =>
    simp only [core, St.dropDfd]
    split
    · split <;> exact hp
    · exact hp
  | dropOp i =>
    simp only [core, St.dropOp]
    split
    · exact hp
    · split <;> exact hp
  | dropPool => simp only [core, St.dropPool]; split <;> exact hp
  | dropBuf j => simp only [core, St.dropBuf]; split <;> exact hp

theorem step_np (s : St) (e : Step) (hd : InvD s) (hp : s.panicked = false) :
    (step s e).panicked = false := by
  show (core s e).settle.panicked = false
  rw [settle_panicked]; exact core_np s e hd hp

end A10.Teardown
