/-
Helper lemmas for C15 (`ReadBuf`): stores and overlapping copies on the pool
memory, seen from inside and from outside a slot.
-/
import A10Verif.Model.ReadBuf

namespace A10.ReadBuf

theorem writeAt_length (mem : List Byte) (a : Nat) (d : List Byte) (h : a + d.length ≤ mem.length) :
    (writeAt mem a d).length = mem.length := by
  simp [writeAt]; omega

theorem writeAt_getElem? (mem : List Byte) (a : Nat) (d : List Byte) (h : a + d.length ≤ mem.length)
    (i : Nat) :
    (writeAt mem a d)[i]? = if a ≤ i ∧ i < a + d.length then d[i - a]? else mem[i]? := by
  unfold writeAt
  grind (splits := 30)

/-- A store does not touch anything outside `[a, a + |d|)`. -/
theorem writeAt_outside (mem : List Byte) (a : Nat) (d : List Byte) (h : a + d.length ≤ mem.length)
    (i : Nat) (hi : i < a ∨ a + d.length ≤ i) : (writeAt mem a d)[i]? = mem[i]? := by
  rw [writeAt_getElem? mem a d h]
  split
  · omega
  · rfl

/-- The slot of a buffer after a store inside the slot = the same store in
slot coordinates. -/
theorem slot_writeAt (bs off k : Nat) (mem d : List Byte) (h1 : off + bs ≤ mem.length)
    (h2 : k + d.length ≤ bs) :
    ((writeAt mem (off + k) d).drop off).take bs
      = ((mem.drop off).take bs).take k ++ d ++ ((mem.drop off).take bs).drop (k + d.length) := by
  apply List.ext_getElem?
  intro i
  have hw := writeAt_getElem? mem (off + k) d (by omega)
  grind (splits := 40)

/-- The overlapping copy of `remove`, in slot coordinates: the head stays, the
tail moves down, everything from the new length on is left alone. -/
theorem slot_copyWithin (bs off s e len : Nat) (mem : List Byte) (h1 : off + bs ≤ mem.length)
    (hs : s ≤ e) (he : e ≤ len) (hl : len ≤ bs) :
    ((copyWithin mem (off + s) (off + e) (len - e)).drop off).take bs
      = ((mem.drop off).take bs).take s ++ (((mem.drop off).take bs).drop e).take (len - e)
        ++ ((mem.drop off).take bs).drop (len - (e - s)) := by
  unfold copyWithin
  have hlen : ((mem.drop (off + e)).take (len - e)).length = len - e := by
    simp; omega
  rw [slot_writeAt bs off s mem _ h1 (by omega)]
  rw [hlen]
  have : s + (len - e) = len - (e - s) := by omega
  rw [this]
  congr 2
  apply List.ext_getElem?
  intro i
  grind (splits := 40)

theorem copyWithin_length (mem : List Byte) (dst src n : Nat) (h : dst + n ≤ mem.length)
    (_h2 : src + n ≤ mem.length) : (copyWithin mem dst src n).length = mem.length := by
  unfold copyWithin
  apply writeAt_length
  simp; omega

theorem copyWithin_outside (mem : List Byte) (dst src n : Nat) (h : dst + n ≤ mem.length)
    (h2 : src + n ≤ mem.length) (i : Nat) (hi : i < dst ∨ dst + n ≤ i) :
    (copyWithin mem dst src n)[i]? = mem[i]? := by
  unfold copyWithin
  have hl : ((mem.drop src).take n).length = n := by simp; omega
  apply writeAt_outside
  · rw [hl]; exact h
  · rw [hl]; exact hi

end A10.ReadBuf
