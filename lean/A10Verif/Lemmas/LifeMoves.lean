/-
Refinement of `Model/Life.lean` onto `Lemmas/OpSys.lean`, part 2: every model
function of the multi-operation system preserves the well-formedness `WF`
(`GInv` of `Lemmas/LifeProj.lean` on the state's lists + `1 ≤ cqLen`).
-/
import A10Verif.Lemmas.LifeProj

namespace A10.Life
open A10 A10.OpSys

/-- Well-formed multi-operation state: every projection satisfies the
single-operation invariant; no index is referenced twice by `sq`/`inflight`. -/
structure WF (s : Sys) : Prop where
  ginv : GInv s.ops s.sq s.inflight (s.cq ++ s.overflow)
  cqLen : 1 ≤ s.cqLen

/-- `t` differs from `s` at most in `ops` (and fields the refinement ignores). -/
structure Frame (s t : Sys) : Prop where
  sq : t.sq = s.sq
  inflight : t.inflight = s.inflight
  cq : t.cq = s.cq
  overflow : t.overflow = s.overflow
  cqLen : t.cqLen = s.cqLen

theorem Frame.refl (s : Sys) : Frame s s := ⟨rfl, rfl, rfl, rfl, rfl⟩

theorem Frame.trans {s t u : Sys} (h1 : Frame s t) (h2 : Frame t u) : Frame s u :=
  ⟨h2.sq.trans h1.sq, h2.inflight.trans h1.inflight, h2.cq.trans h1.cq,
   h2.overflow.trans h1.overflow, h2.cqLen.trans h1.cqLen⟩

/-! ### `postCqe`, `flushOverflow`, `wakeBlocked` -/

theorem postCqe_fields (s : Sys) (c : Cqe) :
    (s.postCqe c).1.ops = s.ops ∧ (s.postCqe c).1.sq = s.sq ∧
    (s.postCqe c).1.inflight = s.inflight ∧ (s.postCqe c).1.cqLen = s.cqLen ∧
    (s.postCqe c).1.cq ++ (s.postCqe c).1.overflow = s.cq ++ s.overflow ++ [c] := by
  unfold Sys.postCqe
  split
  · rename_i h
    have : s.overflow = [] := by
      simp only [Bool.and_eq_true, List.isEmpty_iff] at h; exact h.1
    simp [this]
  · simp

theorem flush_fields (s : Sys) :
    s.flushOverflow.ops = s.ops ∧ s.flushOverflow.sq = s.sq ∧
    s.flushOverflow.inflight = s.inflight ∧ s.flushOverflow.cqLen = s.cqLen ∧
    s.flushOverflow.cq ++ s.flushOverflow.overflow = s.cq ++ s.overflow := by
  simp [Sys.flushOverflow]

theorem wake_fields (s : Sys) :
    s.wakeBlocked.1.ops = s.ops ∧ s.wakeBlocked.1.sq = s.sq ∧
    s.wakeBlocked.1.inflight = s.inflight ∧ s.wakeBlocked.1.cqLen = s.cqLen ∧
    s.wakeBlocked.1.cq = s.cq ∧ s.wakeBlocked.1.overflow = s.overflow := by
  simp [Sys.wakeBlocked]

theorem WF_flush {s : Sys} (h : WF s) : WF s.flushOverflow := by
  obtain ⟨h1, h2, h3, h4, h5⟩ := flush_fields s
  exact ⟨by rw [h1, h2, h3, h5]; exact h.ginv, by rw [h4]; exact h.cqLen⟩

theorem WF_wake {s : Sys} (h : WF s) : WF s.wakeBlocked.1 := by
  obtain ⟨h1, h2, h3, h4, h5, h6⟩ := wake_fields s
  exact ⟨by rw [h1, h2, h3, h5, h6]; exact h.ginv, by rw [h4]; exact h.cqLen⟩

/-! ### `new`, `poll`, `dropOp` -/

theorem WF_new {s : Sys} (h : WF s) (m : Bool) (x : String) :
    WF { s with ops := s.ops ++ [{ multi := m }], opc := s.opc ++ [x] } :=
  ⟨GInv_new h.ginv m, h.cqLen⟩

theorem WF_poll {s : Sys} (h : WF s) (i w : Nat) : WF (s.poll i w).1 := by
  unfold Sys.poll
  cases hgo : getOp s i with
  | none => exact h
  | some o =>
    simp only
    cases hfl : o.futLive with
    | false => exact h
    | true =>
      simp only [Bool.not_true, Bool.false_eq_true, if_false]
      have hG := GInv_poll h.ginv (by simpa [getOp] using hgo) hfl w s.sqRoom
      have heff := pollAux_effs o w s.sqRoom 2
      generalize hp : o.poll w s.sqRoom = p at hG
      have heff' : p.2.2 = [] ∨ p.2.2 = [.submit] ∨ p.2.2 = [.blocked w] := by
        rw [← hp]; exact heff
      obtain ⟨o', out, effs⟩ := p
      simp only at hG heff' ⊢
      rcases heff' with he | he | he <;> subst he
      · exact ⟨by simpa [setOp] using hG, h.cqLen⟩
      · exact ⟨by simpa [setOp] using hG, h.cqLen⟩
      · exact ⟨by simpa [setOp] using hG, h.cqLen⟩

theorem WF_dropOp {s : Sys} (h : WF s) (i : Nat) : WF (s.dropOp i).1 := by
  unfold Sys.dropOp
  cases hgo : getOp s i with
  | none => exact h
  | some o =>
    simp only
    cases hfl : o.futLive with
    | false => exact h
    | true =>
      simp only [Bool.not_true, Bool.false_eq_true, if_false]
      have hG := GInv_drop h.ginv (by simpa [getOp] using hgo) hfl s.sqRoom
      generalize hp : o.dropFut s.sqRoom = p at hG
      obtain ⟨o', effs⟩ := p
      simp only at hG ⊢
      cases hc : effs.contains Eff.cancel
      · rw [hc] at hG
        exact ⟨by simpa [setOp] using hG, h.cqLen⟩
      · rw [hc] at hG
        exact ⟨by simpa [setOp] using hG, h.cqLen⟩

/-! ### kernel moves -/

theorem WF_post_other {s : Sys} (h : WF s) (c : Cqe)
    (hc : (∃ n, c.ud = .reserved n) ∨ fSkip c.flags = true) : WF (s.postCqe c).1 := by
  obtain ⟨h1, h2, h3, h4, h5⟩ := postCqe_fields s c
  exact ⟨by rw [h1, h2, h3, h5]; exact GInv_post_other h.ginv c hc, by rw [h4]; exact h.cqLen⟩

theorem WF_kpost {s : Sys} (h : WF s) (i : Nat) (res : Int) (flags : Nat)
    (hs : fSkip flags = false) : WF (s.kpost i res flags).1 := by
  unfold Sys.kpost
  cases hin : s.inflight.contains i with
  | false => exact h
  | true =>
    simp only [Bool.not_true, Bool.false_eq_true, if_false]
    have hmem : i ∈ s.inflight := by simpa using hin
    have hG := GInv_kpost h.ginv hmem res flags hs
    cases hm : fMore flags
    · simp only [Bool.false_eq_true, if_false]
      obtain ⟨h1, h2, h3, h4, h5⟩ :=
        postCqe_fields { s with inflight := s.inflight.erase i } ⟨.op i, res, flags⟩
      simp only [hm, Bool.false_eq_true, if_false] at hG
      exact ⟨by rw [h1, h2, h3, h5]; exact hG, by rw [h4]; exact h.cqLen⟩
    · simp only [if_true]
      obtain ⟨h1, h2, h3, h4, h5⟩ := postCqe_fields s ⟨.op i, res, flags⟩
      simp only [hm, if_true] at hG
      exact ⟨by rw [h1, h2, h3, h5]; exact hG, by rw [h4]; exact h.cqLen⟩

theorem WF_kposts {s : Sys} (h : WF s) (posts : List (Nat × Int × Nat))
    (hp : posts.all (fun p => !fSkip p.2.2) = true) :
    WF (posts.foldl (fun (s : Sys) p => (s.kpost p.1 p.2.1 p.2.2).1) s) := by
  induction posts generalizing s with
  | nil => exact h
  | cons p ps ih =>
    simp only [List.all_cons, Bool.and_eq_true, Bool.not_eq_true'] at hp
    exact ih (WF_kpost h p.1 p.2.1 p.2.2 hp.1) hp.2

/-- Consuming the submission queue: `l` is the part still to be consumed. -/
theorem consume_fold (l : List SqEntry) (s : Sys)
    (h : GInv s.ops l s.inflight (s.cq ++ s.overflow)) :
    GInv (l.foldl Sys.consumeOne s).ops [] (l.foldl Sys.consumeOne s).inflight
      ((l.foldl Sys.consumeOne s).cq ++ (l.foldl Sys.consumeOne s).overflow) ∧
    (l.foldl Sys.consumeOne s).cqLen = s.cqLen := by
  induction l generalizing s with
  | nil => exact ⟨h, rfl⟩
  | cons e l ih =>
    simp only [List.foldl_cons]
    cases e with
    | op i =>
      have := ih (s.consumeOne (.op i)) (by simpa [Sys.consumeOne] using GInv_consume_op h)
      exact ⟨this.1, by simpa [Sys.consumeOne] using this.2⟩
    | cancel i =>
      have h' := GInv_consume_cancel h
      cases hc : s.inflight.contains i
      · obtain ⟨h1, h2, h3, h4, h5⟩ := postCqe_fields s ⟨.reserved 2, -ENOENT, 0⟩
        have hs : s.consumeOne (.cancel i) = (s.postCqe ⟨.reserved 2, -ENOENT, 0⟩).1 := by
          simp only [Sys.consumeOne, hc, Bool.false_eq_true, if_false]
        rw [hs]
        have := ih (s.postCqe ⟨.reserved 2, -ENOENT, 0⟩).1
          (by rw [h1, h3, h5]; exact GInv_post_other h' _ (Or.inl ⟨2, rfl⟩))
        exact ⟨this.1, by rw [this.2, h4]⟩
      · have hs : s.consumeOne (.cancel i) = s := by simp only [Sys.consumeOne, hc, if_true]
        rw [hs]
        exact ih s h'

theorem consumeAll_fields (s : Sys) :
    s.consumeAll.sq = [] ∧ s.consumeAll.ops = (s.sq.foldl Sys.consumeOne s).ops ∧
    s.consumeAll.inflight = (s.sq.foldl Sys.consumeOne s).inflight ∧
    s.consumeAll.cq = (s.sq.foldl Sys.consumeOne s).cq ∧
    s.consumeAll.overflow = (s.sq.foldl Sys.consumeOne s).overflow ∧
    s.consumeAll.cqLen = (s.sq.foldl Sys.consumeOne s).cqLen := by
  simp [Sys.consumeAll]

theorem WF_consumeAll {s : Sys} (h : WF s) : WF s.consumeAll ∧ s.consumeAll.sq = [] := by
  obtain ⟨h1, h2, h3, h4, h5, h6⟩ := consumeAll_fields s
  have := consume_fold s.sq s h.ginv
  exact ⟨⟨by rw [h1, h2, h3, h4, h5]; exact this.1, by rw [h6, this.2]; exact h.cqLen⟩, h1⟩

/-! ### `process`, `drainCq` -/

theorem effs_fold_panicked (i : Nat) (effs : List Eff) (a : Acc) :
    (effs.foldl (fun (a : Acc) e =>
          match e with
          | .wake w => { a with wakes := a.wakes ++ [w] }
          | .free => { a with frees := a.frees ++ [i] }
          | _ => a) a).panicked = a.panicked := by
  induction effs generalizing a with
  | nil => rfl
  | cons e es ih =>
    simp only [List.foldl_cons]
    rw [ih]
    cases e <;> rfl

theorem process_frame (s : Sys) (a : Acc) (c : Cqe) : Frame s (s.process a c).1 := by
  unfold Sys.process
  split
  · exact Frame.refl s
  · cases c.ud with
    | reserved n => exact Frame.refl s
    | op i =>
      simp only
      cases getOp s i with
      | none => exact Frame.refl s
      | some o =>
        simp only
        cases o.update ⟨c.res, c.flags⟩ with
        | none => exact Frame.refl s
        | some p => exact ⟨rfl, rfl, rfl, rfl, rfl⟩

/-- Processing the oldest pending completion: the addressed operation makes a
`process` event, nobody else sees anything, and `unreachable!()` is not hit. -/
theorem process_GInv (s : Sys) (a : Acc) (c : Cqe) (pend : List Cqe)
    (h : GInv s.ops s.sq s.inflight (c :: pend)) :
    GInv (s.process a c).1.ops s.sq s.inflight pend ∧ (s.process a c).2.panicked = a.panicked := by
  unfold Sys.process
  cases hsk : fSkip c.flags with
  | true =>
    simp only [if_true]
    exact ⟨GInv_congr h (fun _ => rfl) (fun _ => Iff.rfl)
      (fun i => (cqOf_cons_other i c pend (Or.inr hsk)).symm) (fun _ => rfl), by trivial⟩
  | false =>
    simp only [Bool.false_eq_true, if_false]
    cases hud : c.ud with
    | reserved n =>
      exact ⟨GInv_congr h (fun _ => rfl) (fun _ => Iff.rfl)
        (fun i => (cqOf_cons_other i c pend (Or.inl (by simp [hud]))).symm) (fun _ => rfl), by trivial⟩
    | op k =>
      simp only
      have hcq : cqOf k (c :: pend) = ⟨c.res, c.flags⟩ :: cqOf k pend := cqOf_cons_self k c pend hud hsk
      obtain ⟨o, ho, _, _, hact⟩ := h.active_of_pending k (by rw [hcq]; simp)
      have hlt : k < s.ops.length := (List.getElem?_eq_some_iff.mp ho).1
      have hgo : getOp s k = some o := ho
      have hget : s.ops[k] = o := (List.getElem?_eq_some_iff.mp ho).2
      have hupd : ∃ o' effs, o.update ⟨c.res, c.flags⟩ = some (o', effs) := by
        rcases hact with hr | ⟨hd, _⟩
        · obtain ⟨o', effs, hu, _⟩ := (update_spec o ⟨c.res, c.flags⟩).1 hr
          exact ⟨o', effs, hu⟩
        · obtain ⟨o', effs, hu, _⟩ := (update_spec o ⟨c.res, c.flags⟩).2 hd
          exact ⟨o', effs, hu⟩
      obtain ⟨o', effs, hu⟩ := hupd
      simp only [hgo, hu]
      refine ⟨?_, effs_fold_panicked k effs a⟩
      have hv : valid (projG s.ops s.sq s.inflight (c :: pend) k) .process = true := by
        simp [valid, projG, hcq]
      refine GInv_event h k .process hv ?_ ?_ ?_ ?_ h.uniq
      · simp [step, projG, hcq, hget, hu, setOp, hlt]
      · simp [step, projG, hcq, hget, hu, hlt]
      · simp [step, projG, hcq, hget, hu, hlt]
      · intro j hj
        refine ⟨by simp [setOp, List.getElem?_set_ne (Ne.symm hj)], Iff.rfl, ?_⟩
        exact (cqOf_cons_other j c pend (Or.inl (by simp [hud, Ne.symm hj]))).symm

theorem drain_fold (l : List Cqe) (s : Sys) (a : Acc) (pend : List Cqe)
    (h : GInv s.ops s.sq s.inflight (l ++ pend)) :
    GInv (l.foldl (fun (p : Sys × Acc) c => p.1.process p.2 c) (s, a)).1.ops s.sq s.inflight pend ∧
    Frame s (l.foldl (fun (p : Sys × Acc) c => p.1.process p.2 c) (s, a)).1 ∧
    (l.foldl (fun (p : Sys × Acc) c => p.1.process p.2 c) (s, a)).2.panicked = a.panicked := by
  induction l generalizing s a with
  | nil => exact ⟨h, Frame.refl s, rfl⟩
  | cons c l ih =>
    simp only [List.foldl_cons]
    have h1 := process_GInv s a c (l ++ pend) h
    have hf := process_frame s a c
    have := ih (s.process a c).1 (s.process a c).2 (by rw [hf.sq, hf.inflight]; exact h1.1)
    rw [hf.sq, hf.inflight] at this
    exact ⟨this.1, hf.trans this.2.1, this.2.2.trans h1.2⟩

theorem drainCq_spec {s : Sys} (h : WF s) (a : Acc) :
    WF (s.drainCq a).1 ∧ (s.drainCq a).1.sq = s.sq ∧ (s.drainCq a).1.inflight = s.inflight ∧
    (s.drainCq a).1.cq = [] ∧ (s.drainCq a).1.overflow = s.overflow ∧
    (s.drainCq a).2.panicked = a.panicked := by
  obtain ⟨hG, hF, hP⟩ := drain_fold s.cq s a s.overflow h.ginv
  unfold Sys.drainCq
  generalize (s.cq.foldl (fun (p : Sys × Acc) c => p.1.process p.2 c) (s, a)) = r at hG hF hP
  obtain ⟨s', a'⟩ := r
  simp only at hG hF hP ⊢
  refine ⟨⟨?_, ?_⟩, hF.sq, hF.inflight, by trivial, hF.overflow, hP⟩
  · simp only [List.nil_append]
    rw [hF.sq, hF.inflight, hF.overflow]; exact hG
  · simp only [hF.cqLen]; exact h.cqLen

/-! ### `rpoll` -/

theorem rpoll_fst (s : Sys) (posts : List (Nat × Int × Nat)) :
    (s.rpoll posts).1 =
      if s.cq.isEmpty then
        ((posts.foldl (fun (s : Sys) p => (s.kpost p.1 p.2.1 p.2.2).1)
            s.consumeAll).flushOverflow.wakeBlocked.1.drainCq
          { wakes := ((posts.foldl (fun (s : Sys) p => (s.kpost p.1 p.2.1 p.2.2).1)
            s.consumeAll).flushOverflow.wakeBlocked).2 }).1
      else (s.drainCq {}).1 := by
  unfold Sys.rpoll
  split <;> rfl

theorem WF_rpoll {s : Sys} (h : WF s) (posts : List (Nat × Int × Nat))
    (hp : posts.all (fun p => !fSkip p.2.2) = true) : WF (s.rpoll posts).1 := by
  rw [rpoll_fst]
  split
  · exact (drainCq_spec (WF_wake (WF_flush (WF_kposts (WF_consumeAll h).1 posts hp))) _).1
  · exact (drainCq_spec h _).1

/-! ### `dropLoop` -/

/-- One pass of the final loop of `Completions::drop` up to (excluding) the
processing of the completion queue. -/
def dropPre (s : Sys) (a : Acc) : Sys × Acc :=
  if s.flushOverflow.wakeBlocked.1.cq.isEmpty then
    (s.flushOverflow.wakeBlocked.1.flushOverflow.wakeBlocked.1,
     { wakes := (a.wakes ++ s.flushOverflow.wakeBlocked.2) ++
                  s.flushOverflow.wakeBlocked.1.flushOverflow.wakeBlocked.2,
       frees := a.frees, panicked := a.panicked })
  else (s.flushOverflow.wakeBlocked.1,
        { wakes := a.wakes ++ s.flushOverflow.wakeBlocked.2, frees := a.frees, panicked := a.panicked })

theorem dropLoop_succ (s : Sys) (a : Acc) (fuel : Nat) :
    s.dropLoop a (fuel + 1) =
      if ((dropPre s a).1.cq.length == 0) = true then (dropPre s a).1.drainCq (dropPre s a).2
      else ((dropPre s a).1.drainCq (dropPre s a).2).1.dropLoop
             ((dropPre s a).1.drainCq (dropPre s a).2).2 fuel := by
  simp only [Sys.dropLoop, dropPre]
  split <;> rfl

theorem flush_cq_nil (s : Sys) (h : 1 ≤ s.cqLen) (hc : s.flushOverflow.cq = []) :
    s.flushOverflow.overflow = [] := by
  simp only [Sys.flushOverflow, List.append_eq_nil_iff] at hc ⊢
  obtain ⟨h1, h2⟩ := hc
  rw [h1] at h2
  simp only [List.length_nil, Nat.sub_zero, List.take_eq_nil_iff] at h2
  rcases h2 with h2 | h2
  · omega
  · simp [h2]

theorem dropPre_spec {s : Sys} (h : WF s) (a : Acc) :
    WF (dropPre s a).1 ∧ (dropPre s a).1.sq = s.sq ∧ (dropPre s a).1.inflight = s.inflight ∧
    (dropPre s a).2.panicked = a.panicked ∧
    (dropPre s a).1.cq.length + (dropPre s a).1.overflow.length = s.cq.length + s.overflow.length ∧
    ((dropPre s a).1.cq = [] → (dropPre s a).1.overflow = []) := by
  have hw1 : WF s.flushOverflow.wakeBlocked.1 := WF_wake (WF_flush h)
  obtain ⟨f1, f2, f3, f4, f5⟩ := flush_fields s
  obtain ⟨w1, w2, w3, w4, w5, w6⟩ := wake_fields s.flushOverflow
  have hlen1 : s.flushOverflow.wakeBlocked.1.cq.length + s.flushOverflow.wakeBlocked.1.overflow.length
      = s.cq.length + s.overflow.length := by
    rw [w5, w6]
    have := congrArg List.length f5
    simpa [List.length_append] using this
  unfold dropPre
  split
  · rename_i hemp
    have hcq1 : s.flushOverflow.wakeBlocked.1.cq = [] := by simpa using hemp
    have hov1 : s.flushOverflow.wakeBlocked.1.overflow = [] := by
      rw [w6]; exact flush_cq_nil s h.cqLen (by rw [← w5]; exact hcq1)
    obtain ⟨g1, g2, g3, g4, g5⟩ := flush_fields s.flushOverflow.wakeBlocked.1
    obtain ⟨v1, v2, v3, v4, v5, v6⟩ := wake_fields s.flushOverflow.wakeBlocked.1.flushOverflow
    have hboth : s.flushOverflow.wakeBlocked.1.flushOverflow.cq = [] ∧
        s.flushOverflow.wakeBlocked.1.flushOverflow.overflow = [] := by
      rw [hcq1, hov1] at g5
      simpa using g5
    refine ⟨WF_wake (WF_flush hw1), ?_, ?_, rfl, ?_, ?_⟩
    · rw [v2, g2, w2, f2]
    · rw [v3, g3, w3, f3]
    · rw [v5, v6, hboth.1, hboth.2, ← hlen1, hcq1, hov1]
    · intro _; rw [v6]; exact hboth.2
  · rename_i hne
    refine ⟨hw1, by rw [w2, f2], by rw [w3, f3], rfl, hlen1, ?_⟩
    intro hc
    exact absurd hc (by simpa using hne)

theorem dropLoop_spec (fuel : Nat) (s : Sys) (a : Acc) (h : WF s) :
    WF (s.dropLoop a fuel).1 ∧ (s.dropLoop a fuel).1.sq = s.sq ∧
    (s.dropLoop a fuel).1.inflight = s.inflight ∧
    (s.dropLoop a fuel).2.panicked = a.panicked ∧
    (s.overflow.length + s.cq.length + 1 ≤ fuel →
      (s.dropLoop a fuel).1.cq = [] ∧ (s.dropLoop a fuel).1.overflow = []) := by
  induction fuel generalizing s a with
  | zero =>
    refine ⟨h, rfl, rfl, rfl, ?_⟩
    intro hf; omega
  | succ fuel ih =>
    rw [dropLoop_succ]
    obtain ⟨p1, p2, p3, p4, p5, p6⟩ := dropPre_spec h a
    obtain ⟨d1, d2, d3, d4, d5, d6⟩ := drainCq_spec p1 (dropPre s a).2
    split
    · rename_i hn
      have hcq : (dropPre s a).1.cq = [] := by
        have : (dropPre s a).1.cq.length = 0 := by simpa using hn
        exact List.length_eq_zero_iff.mp this
      refine ⟨d1, d2.trans p2, d3.trans p3, d6.trans p4, ?_⟩
      intro _
      exact ⟨d4, d5.trans (p6 hcq)⟩
    · rename_i hn
      have hpos : 1 ≤ (dropPre s a).1.cq.length := by
        have : (dropPre s a).1.cq.length ≠ 0 := by simpa using hn
        omega
      obtain ⟨e1, e2, e3, e4, e5⟩ :=
        ih ((dropPre s a).1.drainCq (dropPre s a).2).1 ((dropPre s a).1.drainCq (dropPre s a).2).2 d1
      refine ⟨e1, e2.trans (d2.trans p2), e3.trans (d3.trans p3), e4.trans (d6.trans p4), ?_⟩
      intro hf
      apply e5
      rw [d4, d5]
      simp only [List.length_nil]
      omega

/-! ### `rdrop` -/

/-- Synchronous cancel of everything in flight: `l` is the part of the
in-flight list not yet finalised. -/
theorem cancel_fold (l : List Nat) (s : Sys) (h : GInv s.ops [] l (s.cq ++ s.overflow)) :
    GInv (l.foldl (fun (s : Sys) i => (s.postCqe ⟨.op i, -ECANCELED, 0⟩).1) s).ops [] []
      ((l.foldl (fun (s : Sys) i => (s.postCqe ⟨.op i, -ECANCELED, 0⟩).1) s).cq ++
       (l.foldl (fun (s : Sys) i => (s.postCqe ⟨.op i, -ECANCELED, 0⟩).1) s).overflow) ∧
    (l.foldl (fun (s : Sys) i => (s.postCqe ⟨.op i, -ECANCELED, 0⟩).1) s).cqLen = s.cqLen := by
  induction l generalizing s with
  | nil => exact ⟨h, rfl⟩
  | cons k rest ih =>
    simp only [List.foldl_cons]
    have hk := GInv_kpost h (List.mem_cons_self) (-ECANCELED) 0 (by decide)
    have hm : fMore 0 = false := by decide
    simp only [hm, Bool.false_eq_true, if_false, List.erase_cons_head] at hk
    obtain ⟨h1, h2, h3, h4, h5⟩ := postCqe_fields s ⟨.op k, -ECANCELED, 0⟩
    have := ih (s.postCqe ⟨.op k, -ECANCELED, 0⟩).1 (by rw [h1, h5]; exact hk)
    exact ⟨this.1, this.2.trans h4⟩

/-- The state in which `rdrop` enters its final loop. -/
def rdropMid (s : Sys) : Sys :=
  { (s.consumeAll.wakeBlocked.1.inflight.foldl
      (fun (s : Sys) i => (s.postCqe ⟨.op i, -ECANCELED, 0⟩).1) s.consumeAll.wakeBlocked.1)
    with inflight := [] }

theorem rdrop_fst (s : Sys) :
    s.rdrop.1 = ((rdropMid s).dropLoop { wakes := s.consumeAll.wakeBlocked.2 }
      ((rdropMid s).overflow.length + (rdropMid s).cq.length + 2)).1 := rfl

theorem rdropMid_spec {s : Sys} (h : WF s) :
    WF (rdropMid s) ∧ (rdropMid s).sq = [] ∧ (rdropMid s).inflight = [] := by
  obtain ⟨hc, hsq⟩ := WF_consumeAll h
  have hw := WF_wake hc
  obtain ⟨w1, w2, w3, w4, w5, w6⟩ := wake_fields s.consumeAll
  have hsq' : s.consumeAll.wakeBlocked.1.sq = [] := by rw [w2, hsq]
  have hg := hw.ginv
  rw [hsq'] at hg
  have hf := cancel_fold _ _ hg
  -- the fold does not touch `sq`
  have hsqf : ∀ (l : List Nat) (t : Sys),
      (l.foldl (fun (s : Sys) i => (s.postCqe ⟨.op i, -ECANCELED, 0⟩).1) t).sq = t.sq := by
    intro l
    induction l with
    | nil => intro t; rfl
    | cons k rest ih =>
      intro t
      simp only [List.foldl_cons]
      rw [ih, (postCqe_fields t _).2.1]
  refine ⟨⟨?_, ?_⟩, ?_, rfl⟩
  · simp only [rdropMid, hsqf, hsq']
    exact hf.1
  · simp only [rdropMid]
    rw [hf.2]; exact hw.cqLen
  · simp only [rdropMid, hsqf, hsq']

theorem rdrop_spec {s : Sys} (h : WF s) :
    WF s.rdrop.1 ∧ s.rdrop.1.sq = [] ∧ s.rdrop.1.inflight = [] ∧
    s.rdrop.1.cq = [] ∧ s.rdrop.1.overflow = [] := by
  obtain ⟨m1, m2, m3⟩ := rdropMid_spec h
  obtain ⟨l1, l2, l3, _, l5⟩ := dropLoop_spec ((rdropMid s).overflow.length + (rdropMid s).cq.length + 2)
    (rdropMid s) { wakes := s.consumeAll.wakeBlocked.2 } m1
  rw [rdrop_fst]
  have := l5 (by omega)
  exact ⟨l1, l2.trans m2, l3.trans m3, this.1, this.2⟩

end A10.Life
