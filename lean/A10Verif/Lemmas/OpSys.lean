/-
One operation together with the kernel's view of its current submission and
the completions posted for it: the closed system over which the life-cycle
properties (C01, C02, C03, C06, C09) are proved by induction over arbitrary
event sequences that respect the kernel contract and the `Future` contract.

`Model/Life.lean` (the multi-operation system used by the correspondence
check) calls exactly the same `Op.poll` / `Op.update` / `Op.dropFut`; the
projection of a `Life` run on one operation is a run of this system (kernel
moves of other operations never touch this operation's state).
-/
import A10Verif.Model.Op

namespace A10.OpSys

open A10

structure OS where
  op : Op
  /-- the kernel holds a submission of this operation (published and its final
  completion not yet posted): it may read/write the operation's resources -/
  inflight : Bool := false
  /-- completions posted for this operation, not yet processed by `Ring::poll` -/
  cq : List Res := []
  -- ghost history of the current submission
  posted : List Res := []
  processed : List Res := []
  /-- result values handed to the caller from the current submission (errors as
  negative values) -/
  delivered : List Int := []
  -- ghost history of the whole life
  submits : Nat := 0
  cancels : Nat := 0
  woken : List Nat := []
  yielded : List PollOut := []
  panicked : Bool := false
  /-- C03: waker of the last poll that returned Pending (cleared by a Ready poll) -/
  lastPend : Option Nat := none
  /-- C03: a completion making the operation ready was processed since that poll -/
  readySince : Bool := false
  wokenSince : Bool := false
  deriving Repr

inductive Ev where
  | poll (w : Nat) (room : Bool)
  | dropFut (room : Bool)
  /-- the kernel posts a completion for the in-flight submission -/
  | kpost (c : Res)
  /-- `Ring::poll` processes the oldest pending completion -/
  | process
  deriving Repr, DecidableEq

def isRunning : Status → Bool
  | .running _ => true
  | _ => false

def isDone : Status → Bool
  | .done _ => true
  | _ => false

/-- Kernel contract (KC2) and `Future` contract as an executable guard. -/
def valid (s : OS) : Ev → Bool
  | .poll _ _ => s.op.futLive && s.op.status != .complete
  | .dropFut _ => s.op.futLive
  | .kpost _ => s.inflight
  | .process => !s.cq.isEmpty

def isRestart (c : Res) : Bool := c.res == -EINTR || c.res == -ECANCELED

def step (s : OS) : Ev → OS
  | .poll w room =>
    let (o', out, effs) := s.op.poll w room
    let sub := effs.contains .submit
    { s with
      op := o'
      inflight := s.inflight || sub
      posted := if sub then [] else s.posted
      processed := if sub then [] else s.processed
      delivered := if sub then [] else
        (match out with
         | .readyOk r => s.delivered ++ [r.res]
         | .readyErr e => s.delivered ++ [-e]
         | _ => s.delivered)
      submits := s.submits + (if sub then 1 else 0)
      yielded := s.yielded ++ [out]
      panicked := s.panicked || out == .panic
      lastPend := if out == .pending then some w else none
      readySince := false
      wokenSince := false }
  | .dropFut room =>
    let (o', effs) := s.op.dropFut room
    { s with op := o', cancels := s.cancels + (if effs.contains .cancel then 1 else 0) }
  | .kpost c =>
    { s with cq := s.cq ++ [c], posted := s.posted ++ [c],
             inflight := fMore c.flags }
  | .process =>
    match s.cq with
    | [] => s
    | c :: rest =>
      match s.op.update c with
      | none => { s with cq := rest, panicked := true }
      | some (o', effs) =>
        let ws := effs.filterMap (fun e => match e with | .wake w => some w | _ => none)
        { s with op := o', cq := rest, processed := s.processed ++ [c],
                 woken := s.woken ++ ws,
                 readySince := s.readySince || (!fMore c.flags || s.op.multi),
                 wokenSince := s.wokenSince ||
                   (match s.lastPend with | some w => ws.contains w | none => false) }

/-- Run a list of events, skipping none: callers quantify over valid runs. -/
def run (s : OS) : List Ev → OS
  | [] => s
  | e :: es => run (step s e) es

/-- Every event is allowed by the contracts in the state it is applied to. -/
def validRun (s : OS) : List Ev → Bool
  | [] => true
  | e :: es => valid s e && validRun (step s e) es

def init (multi : Bool) : OS := { op := { multi := multi } }

end A10.OpSys
