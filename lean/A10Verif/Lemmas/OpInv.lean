/-
Inductive invariant of the single-operation system (`Lemmas/OpSys.lean`) and
its preservation by every event allowed by the kernel contract and the
`Future` contract. All life-cycle property theorems are corollaries.
-/
import A10Verif.Lemmas.OpSys
namespace A10.OpSys
open A10

def allMore (l : List Res) : Prop := ∀ c ∈ l, fMore c.flags = true

def cqShape (s : OS) : Prop :=
  (s.inflight = true → allMore s.cq) ∧
  (s.inflight = false → s.cq = [] ∨ ∃ ini last, s.cq = ini ++ [last] ∧ allMore ini ∧ fMore last.flags = false)

def active (o : Op) : Prop := isRunning o.status = true ∨ (o.status = .dropped ∧ o.boxLive = true)

structure Inv (s : OS) : Prop where
  i1 : s.inflight = true → s.op.boxLive = true ∧ s.op.resInit = true ∧ active s.op
  i2 : s.cq ≠ [] → s.op.boxLive = true ∧ s.op.resInit = true ∧ active s.op
  i3 : active s.op → s.inflight = true ∨ s.cq ≠ []
  i4 : s.op.frees ≤ 1 ∧ (s.op.boxLive = true ↔ s.op.frees = 0)
  i5 : s.op.boxLive = true → (s.op.resInit = true ↔ s.op.status ≠ .complete)
  i6 : (s.op.futLive = true → s.op.boxLive = true ∧ s.op.status ≠ .dropped) ∧
       (s.op.futLive = false → s.op.status = .dropped ∨ s.op.boxLive = false)
  i7 : cqShape s
  i8 : s.op.resDrops ≤ 1 ∧ (s.op.resInit = true ↔ s.op.resDrops = 0)
  i9 : s.op.boxLive = false → s.op.resInit = false

theorem inv_init (m : Bool) : Inv (init m) := by
  constructor <;> simp [init, active, isRunning, cqShape, allMore]

end A10.OpSys

namespace A10.OpSys
open A10

/-- Abstract effect of `Op.pollAux` on the fields the invariant talks about. -/
theorem pollAux_spec (o : Op) (w : Nat) (room : Bool) (fuel : Nat)
    (hf : fuel ≥ 2 ∨ (fuel ≥ 1 ∧ o.status = .notStarted)) :
    (o.pollAux w room fuel).1.boxLive = o.boxLive ∧ (o.pollAux w room fuel).1.futLive = o.futLive ∧
    (o.pollAux w room fuel).1.frees = o.frees ∧ (o.pollAux w room fuel).1.multi = o.multi ∧
    ((o.pollAux w room fuel).2.2.contains .submit = true →
        (o.status = .notStarted ∨ isDone o.status = true) ∧
        isRunning (o.pollAux w room fuel).1.status = true ∧
        (o.pollAux w room fuel).1.resInit = o.resInit ∧
        (o.pollAux w room fuel).1.resDrops = o.resDrops ∧ (o.pollAux w room fuel).2.1 = .pending) ∧
    ((o.pollAux w room fuel).2.2.contains .submit = false →
        (isRunning o.status = true → isRunning (o.pollAux w room fuel).1.status = true ∧
            (o.pollAux w room fuel).1.resInit = o.resInit ∧ (o.pollAux w room fuel).1.resDrops = o.resDrops) ∧
        (o.status = .dropped → (o.pollAux w room fuel).1 = o) ∧
        (o.status = .complete → (o.pollAux w room fuel).1 = o) ∧
        (o.status = .notStarted → (o.pollAux w room fuel).1 = o) ∧
        (isDone o.status = true →
            (isDone (o.pollAux w room fuel).1.status = true ∧ (o.pollAux w room fuel).1.resInit = o.resInit ∧
               (o.pollAux w room fuel).1.resDrops = o.resDrops) ∨
            ((o.pollAux w room fuel).1.status = .notStarted ∧ (o.pollAux w room fuel).1.resInit = o.resInit ∧
               (o.pollAux w room fuel).1.resDrops = o.resDrops) ∨
            ((o.pollAux w room fuel).1.status = .complete ∧ (o.pollAux w room fuel).1.resInit = false ∧
               (o.pollAux w room fuel).1.resDrops = o.resDrops + 1))) := by
  fun_induction Op.pollAux o w room fuel <;> simp_all [isRunning, isDone]
end A10.OpSys

namespace A10.OpSys
open A10

theorem update_spec (o : Op) (c : Res) :
    (isRunning o.status = true →
      ∃ o' effs, o.update c = some (o', effs) ∧ o'.boxLive = o.boxLive ∧ o'.futLive = o.futLive ∧
        o'.frees = o.frees ∧ o'.resInit = o.resInit ∧ o'.resDrops = o.resDrops ∧ o'.multi = o.multi ∧
        (fMore c.flags = true → isRunning o'.status = true) ∧
        (fMore c.flags = false → isDone o'.status = true)) ∧
    (o.status = .dropped →
      ∃ o' effs, o.update c = some (o', effs) ∧ o'.futLive = o.futLive ∧ o'.status = .dropped ∧ o'.multi = o.multi ∧
        (fMore c.flags = true → o' = o) ∧
        (fMore c.flags = false → o'.boxLive = false ∧ o'.resInit = false ∧ o'.frees = o.frees + 1 ∧
            o'.resDrops = o.resDrops + 1)) := by
  cases o with
  | mk multi status waker boxLive resInit futLive frees resDrops =>
  cases status <;> simp [Op.update, isRunning, isDone]
  · cases hm : fMore c.flags <;> cases multi <;> cases waker <;> simp [isRunning, isDone]
  · cases hm : fMore c.flags <;> simp

theorem dropFut_spec (o : Op) (room : Bool) :
    (o.dropFut room).1.futLive = false ∧ (o.dropFut room).1.multi = o.multi ∧
    (isRunning o.status = true →
      (o.dropFut room).1.status = .dropped ∧ (o.dropFut room).1.boxLive = o.boxLive ∧
      (o.dropFut room).1.resInit = o.resInit ∧ (o.dropFut room).1.frees = o.frees ∧
      (o.dropFut room).1.resDrops = o.resDrops ∧
      ((o.dropFut room).2.contains .cancel = room)) ∧
    (isRunning o.status = false →
      (o.dropFut room).1.status = o.status ∧ (o.dropFut room).1.boxLive = false ∧
      (o.dropFut room).1.frees = o.frees + 1 ∧ (o.dropFut room).2.contains .cancel = false ∧
      (o.status = .complete → (o.dropFut room).1.resInit = o.resInit ∧ (o.dropFut room).1.resDrops = o.resDrops) ∧
      (o.status ≠ .complete → (o.dropFut room).1.resInit = false ∧ (o.dropFut room).1.resDrops = o.resDrops + 1)) := by
  cases o with
  | mk multi status waker boxLive resInit futLive frees resDrops =>
  cases status <;> cases room <;> simp [Op.dropFut, isRunning]
end A10.OpSys

namespace A10.OpSys
open A10

theorem active_iff (o : Op) : active o ↔ (isRunning o.status = true ∨ (o.status = .dropped ∧ o.boxLive = true)) := Iff.rfl

theorem inv_kpost (s : OS) (c : Res) (h : Inv s) (hv : valid s (.kpost c) = true) :
    Inv (step s (.kpost c)) := by
  have hin : s.inflight = true := by simpa [valid] using hv
  obtain ⟨i1, i2, i3, i4, i5, i6, i7, i8, i9⟩ := h
  have ⟨b1, b2, b3⟩ := i1 hin
  have hall := i7.1 hin
  constructor <;> simp only [step]
  · intro _; exact ⟨b1, b2, b3⟩
  · intro _; exact ⟨b1, b2, b3⟩
  · intro _; right; simp
  · exact i4
  · exact i5
  · exact i6
  · constructor
    · intro hm c' hc'
      rcases List.mem_append.mp hc' with h1 | h1
      · exact hall c' h1
      · simp at h1; subst h1; exact hm
    · intro hm; right; exact ⟨s.cq, c, rfl, hall, hm⟩
  · exact i8
  · exact i9

end A10.OpSys

namespace A10.OpSys
open A10

theorem notActive_of (o : Op) (h1 : isRunning o.status = false) (h2 : o.status ≠ .dropped ∨ o.boxLive = false) : ¬ active o := by
  intro h; rcases h with h | ⟨h, h'⟩
  · simp [h1] at h
  · rcases h2 with h2 | h2
    · exact h2 h
    · simp [h2] at h'

theorem inv_process (s : OS) (h : Inv s) (hv : valid s .process = true) :
    Inv (step s .process) := by
  obtain ⟨i1, i2, i3, i4, i5, i6, i7, i8, i9⟩ := h
  cases hcq : s.cq with
  | nil => simp [valid, hcq] at hv
  | cons c rest =>
    have hne : s.cq ≠ [] := by simp [hcq]
    obtain ⟨b1, b2, b3⟩ := i2 hne
    -- shape facts about the head and the rest
    have hshape : (fMore c.flags = false → rest = [] ∧ s.inflight = false) ∧
                  (fMore c.flags = true → s.inflight = true ∨ rest ≠ []) := by
      obtain ⟨s1, s2⟩ := i7
      constructor
      · intro hm
        cases hin : s.inflight with
        | true =>
          have := s1 hin c (by simp [hcq])
          simp [hm] at this
        | false =>
          rcases s2 hin with h0 | ⟨ini, last, he, ha, hl⟩
          · simp [hcq] at h0
          · cases ini with
            | nil => simp [hcq] at he; exact ⟨he.2, rfl⟩
            | cons x xs =>
              simp [hcq] at he
              have := ha x (by simp)
              rw [← he.1, hm] at this; simp at this
      · intro hm
        cases hin : s.inflight with
        | true => left; rfl
        | false =>
          right
          rcases s2 hin with h0 | ⟨ini, last, he, ha, hl⟩
          · simp [hcq] at h0
          · cases ini with
            | nil => simp [hcq] at he; rw [he.1, hl] at hm; simp at hm
            | cons x xs => simp [hcq] at he; rw [he.2]; simp
    have hrestShape : ∀ (infl : Bool), infl = s.inflight →
        ((infl = true → allMore rest) ∧
         (infl = false → rest = [] ∨ ∃ ini last, rest = ini ++ [last] ∧ allMore ini ∧ fMore last.flags = false)) := by
      intro infl hi; subst hi
      obtain ⟨s1, s2⟩ := i7
      constructor
      · intro hin c' hc'; exact s1 hin c' (by simp [hcq, hc'])
      · intro hin
        rcases s2 hin with h0 | ⟨ini, last, he, ha, hl⟩
        · simp [hcq] at h0
        · cases ini with
          | nil => simp [hcq] at he; left; exact he.2
          | cons x xs =>
            simp [hcq] at he; right
            exact ⟨xs, last, he.2, fun c' hc' => ha c' (by simp [hc']), hl⟩
    rcases b3 with hrun | ⟨hdr, hbl⟩
    · -- running
      obtain ⟨o', effs, hu, u1, u2, u3, u4, u5, u6, u7, u8⟩ := (update_spec s.op c).1 hrun
      simp only [step, hcq, hu]
      constructor
      · intro hin; refine ⟨by simp [u1, b1], by simp [u4, b2], ?_⟩
        cases hm : fMore c.flags with
        | true => left; exact u7 hm
        | false => simp [(hshape.1 hm).2] at hin
      · intro hr; refine ⟨by simp [u1, b1], by simp [u4, b2], ?_⟩
        cases hm : fMore c.flags with
        | true => left; exact u7 hm
        | false => exact absurd (hshape.1 hm).1 hr
      · intro ha
        cases hm : fMore c.flags with
        | true => simpa using hshape.2 hm
        | false =>
          have hd := u8 hm
          exfalso
          rcases ha with ha | ⟨ha, _⟩
          · cases hst : o'.status <;> simp_all [isRunning, isDone]
          · simp_all [isDone]
      · simpa [u1, u3] using i4
      · intro hb
        have := i5 (by simpa [u1] using hb)
        rw [u4]
        constructor
        · intro _ hc
          cases hm : fMore c.flags with
          | true => have := u7 hm; simp_all [isRunning]
          | false => have := u8 hm; simp_all [isDone]
        · intro _; exact b2
      · constructor
        · intro hf
          have := i6.1 (by simpa [u2] using hf)
          refine ⟨by simp [u1, this.1], ?_⟩
          intro hc
          cases hm : fMore c.flags with
          | true => have := u7 hm; simp_all [isRunning]
          | false => have := u8 hm; simp_all [isDone]
        · intro hf
          have := i6.2 (by simpa [u2] using hf)
          rcases this with h1 | h1
          · cases hst : s.op.status <;> simp_all [isRunning]
          · simp [b1] at h1
      · exact hrestShape s.inflight rfl
      · simpa [u4, u5] using i8
      · intro hb; simp [u1, b1] at hb
    · -- dropped
      obtain ⟨o', effs, hu, u2, ust, u6, u7, u8⟩ := (update_spec s.op c).2 hdr
      simp only [step, hcq, hu]
      cases hm : fMore c.flags with
      | true =>
        have ho : o' = s.op := u7 hm
        subst ho
        constructor
        · exact i1
        · intro _; exact ⟨b1, b2, Or.inr ⟨hdr, hbl⟩⟩
        · intro _; simpa using hshape.2 hm
        · exact i4
        · exact i5
        · exact i6
        · exact hrestShape s.inflight rfl
        · exact i8
        · exact i9
      | false =>
        obtain ⟨v1, v2, v3, v4⟩ := u8 hm
        obtain ⟨hr, hin⟩ := hshape.1 hm
        constructor
        · intro h; simp [hin] at h
        · intro h; exact absurd hr h
        · intro ha
          exfalso
          exact notActive_of o' (by simp [ust, isRunning]) (Or.inr v1) ha
        · have hf0 : s.op.frees = 0 := i4.2.1 b1
          constructor
          · show o'.frees ≤ 1; omega
          · simp [v1, v3]
        · intro hb; simp [v1] at hb
        · constructor
          · intro hf
            have := i6.1 (by simpa [u2] using hf)
            exact absurd hdr this.2
          · intro _; left; exact ust
        · subst hr; exact hrestShape s.inflight rfl
        · have hd0 : s.op.resDrops = 0 := i8.2.1 b2
          constructor
          · show o'.resDrops ≤ 1; omega
          · simp [v2, v4]
        · intro _; exact v2

end A10.OpSys

namespace A10.OpSys
open A10

theorem quiet_of_not_active (s : OS) (h : Inv s) (hna : ¬ active s.op) : s.inflight = false ∧ s.cq = [] := by
  constructor
  · cases hin : s.inflight with
    | false => rfl
    | true => exact absurd (h.i1 hin).2.2 hna
  · cases hcq : s.cq with
    | nil => rfl
    | cons c r => exact absurd (h.i2 (by simp [hcq])).2.2 hna

theorem inv_poll (s : OS) (w : Nat) (room : Bool) (h : Inv s) (hv : valid s (.poll w room) = true) :
    Inv (step s (.poll w room)) := by
  have hv' : s.op.futLive = true ∧ s.op.status ≠ .complete := by
    simpa [valid, bne_iff_ne] using hv
  obtain ⟨hfl, hnc⟩ := hv'
  have ⟨hbl, hnd⟩ := h.i6.1 hfl
  have hri : s.op.resInit = true := (h.i5 hbl).2 hnc
  have hrd0 : s.op.resDrops = 0 := h.i8.2.1 hri
  obtain ⟨p1, p2, p3, p4, psub, pnosub⟩ := pollAux_spec s.op w room 2 (Or.inl (Nat.le_refl 2))
  obtain ⟨i1, i2, i3, i4, i5, i6, i7, i8, i9⟩ := h
  cases hsub : (s.op.pollAux w room 2).2.2.contains Eff.submit with
  | true =>
    obtain ⟨q1, q2, q3, q4, q5⟩ := psub hsub
    have hna : ¬ active s.op := by
      rcases q1 with q1 | q1
      · exact notActive_of _ (by simp [q1, isRunning]) (Or.inl (by simp [q1]))
      · cases hst : s.op.status <;> simp_all [isDone, isRunning, active]
    have ⟨hq1, hq2⟩ := quiet_of_not_active s ⟨i1, i2, i3, i4, i5, i6, i7, i8, i9⟩ hna
    have hrun' : isRunning (s.op.pollAux w room 2).1.status = true := q2
    constructor <;> simp only [step, Op.poll, hsub]
    · intro _; exact ⟨by simp [p1, hbl], by simp [q3, hri], Or.inl hrun'⟩
    · intro hc; simp [hq2] at hc
    · intro _; left; simp
    · simpa [p1, p3] using i4
    · intro _; rw [q3]
      constructor
      · intro _ hc; rw [hc] at hrun'; simp [isRunning] at hrun'
      · intro _; exact hri
    · constructor
      · intro _; refine ⟨by simp [p1, hbl], ?_⟩
        intro hc; rw [hc] at hrun'; simp [isRunning] at hrun'
      · intro hf; simp [p2, hfl] at hf
    · constructor
      · intro _; simp [hq2, allMore]
      · intro hc; simp at hc
    · simpa [q3, q4] using i8
    · intro hb; simp [p1, hbl] at hb
  | false =>
    obtain ⟨r1, r2, r3, r4, r5⟩ := pnosub hsub
    cases hst : s.op.status with
    | notStarted =>
      have ho := r4 hst
      constructor <;> simp only [step, Op.poll, hsub, ho] <;> (try (simpa [cqShape] using i7)) <;> simp_all
    | complete => exact absurd hst hnc
    | dropped => exact absurd hst hnd
    | running r =>
      obtain ⟨t1, t2, t3⟩ := r1 (by simp [hst, isRunning])
      constructor <;> simp only [step, Op.poll, hsub]
      · intro hin; have := i1 (by simpa using hin); exact ⟨by simp [p1, hbl], by simp [t2, hri], Or.inl t1⟩
      · intro hc; exact ⟨by simp [p1, hbl], by simp [t2, hri], Or.inl t1⟩
      · intro _
        have := i3 (Or.inl (by simp [hst, isRunning]))
        simpa using this
      · simpa [p1, p3] using i4
      · intro _; rw [t2]
        constructor
        · intro _ hc; rw [hc] at t1; simp [isRunning] at t1
        · intro _; exact hri
      · constructor
        · intro _; refine ⟨by simp [p1, hbl], ?_⟩
          intro hc; rw [hc] at t1; simp [isRunning] at t1
        · intro hf; simp [p2, hfl] at hf
      · simpa [cqShape] using i7
      · simpa [t2, t3] using i8
      · intro hb; simp [p1, hbl] at hb
    | done r =>
      have hna : ¬ active s.op := notActive_of _ (by simp [hst, isRunning]) (Or.inl (by simp [hst]))
      have ⟨hq1, hq2⟩ := quiet_of_not_active s ⟨i1, i2, i3, i4, i5, i6, i7, i8, i9⟩ hna
      have hcases := r5 (by simp [hst, isDone])
      have hna' : ¬ active (s.op.pollAux w room 2).1 := by
        rcases hcases with ⟨c1, _, _⟩ | ⟨c1, _, _⟩ | ⟨c1, _, _⟩
        · apply notActive_of
          · cases hs' : (s.op.pollAux w room 2).1.status <;> simp_all [isDone, isRunning]
          · left; intro hc; rw [hc] at c1; simp [isDone] at c1
        · exact notActive_of _ (by simp [c1, isRunning]) (Or.inl (by simp [c1]))
        · exact notActive_of _ (by simp [c1, isRunning]) (Or.inl (by simp [c1]))
      constructor <;> simp only [step, Op.poll, hsub]
      · intro hin; simp [hq1] at hin
      · intro hc; simp [hq2] at hc
      · intro ha; exact absurd ha hna'
      · simpa [p1, p3] using i4
      · intro _
        rcases hcases with ⟨c1, c2, _⟩ | ⟨c1, c2, _⟩ | ⟨c1, c2, _⟩
        · rw [c2]; constructor
          · intro _ hc; rw [hc] at c1; simp [isDone] at c1
          · intro _; exact hri
        · rw [c2, c1]; simp [hri]
        · rw [c2, c1]; simp
      · constructor
        · intro _; refine ⟨by simp [p1, hbl], ?_⟩
          intro hc
          rcases hcases with ⟨c1, _, _⟩ | ⟨c1, _, _⟩ | ⟨c1, _, _⟩ <;> rw [hc] at c1 <;> simp [isDone] at c1
        · intro hf; simp [p2, hfl] at hf
      · simp [cqShape, hq1, hq2]
      · rcases hcases with ⟨_, c2, c3⟩ | ⟨_, c2, c3⟩ | ⟨_, c2, c3⟩
        · simpa [c2, c3] using i8
        · simpa [c2, c3] using i8
        · rw [c2, c3, hrd0]; simp
      · intro hb; simp [p1, hbl] at hb

end A10.OpSys

namespace A10.OpSys
open A10

theorem inv_drop (s : OS) (room : Bool) (h : Inv s) (hv : valid s (.dropFut room) = true) :
    Inv (step s (.dropFut room)) := by
  have hfl : s.op.futLive = true := by simpa [valid] using hv
  have ⟨hbl, hnd⟩ := h.i6.1 hfl
  obtain ⟨d1, d2, drun, dnot⟩ := dropFut_spec s.op room
  obtain ⟨i1, i2, i3, i4, i5, i6, i7, i8, i9⟩ := h
  cases hr : isRunning s.op.status with
  | true =>
    obtain ⟨e1, e2, e3, e4, e5, e6⟩ := drun hr
    have hri : s.op.resInit = true := by
      have := (i5 hbl).2 (by intro hc; rw [hc] at hr; simp [isRunning] at hr)
      exact this
    constructor <;> simp only [step]
    · intro _; exact ⟨by simp [e2, hbl], by simp [e3, hri], Or.inr ⟨e1, by simp [e2, hbl]⟩⟩
    · intro _; exact ⟨by simp [e2, hbl], by simp [e3, hri], Or.inr ⟨e1, by simp [e2, hbl]⟩⟩
    · intro _; simpa using i3 (Or.inl hr)
    · simpa [e2, e4] using i4
    · intro _; rw [e3, e1]; simp [hri]
    · constructor
      · intro hf; simp [d1] at hf
      · intro _; left; exact e1
    · simpa [cqShape] using i7
    · simpa [e3, e5] using i8
    · intro hb; simp [e2, hbl] at hb
  | false =>
    obtain ⟨e1, e2, e3, e4, e5, e6⟩ := dnot hr
    have hna : ¬ active s.op := notActive_of _ hr (Or.inl hnd)
    have ⟨hq1, hq2⟩ := quiet_of_not_active s ⟨i1, i2, i3, i4, i5, i6, i7, i8, i9⟩ hna
    have hf0 : s.op.frees = 0 := i4.2.1 hbl
    constructor <;> simp only [step]
    · intro hin; simp [hq1] at hin
    · intro hc; simp [hq2] at hc
    · intro ha
      exfalso
      exact notActive_of _ (by simp [e1, hr]) (Or.inr e2) ha
    · constructor
      · show (s.op.dropFut room).1.frees ≤ 1; omega
      · simp [e2, e3]
    · intro hb; simp [e2] at hb
    · constructor
      · intro hf; simp [d1] at hf
      · intro _; right; exact e2
    · simp [cqShape, hq1, hq2]
    · by_cases hc : s.op.status = .complete
      · obtain ⟨f1, f2⟩ := e5 hc
        simpa [f1, f2] using i8
      · obtain ⟨f1, f2⟩ := e6 hc
        have hri : s.op.resInit = true := (i5 hbl).2 hc
        have hd0 : s.op.resDrops = 0 := i8.2.1 hri
        constructor
        · show (s.op.dropFut room).1.resDrops ≤ 1; omega
        · simp [f1, f2]
    · intro _
      by_cases hc : s.op.status = .complete
      · rw [(e5 hc).1]
        cases hri : s.op.resInit with
        | false => rfl
        | true => exact absurd hc ((i5 hbl).1 hri)
      · exact (e6 hc).1

theorem inv_step (s : OS) (e : Ev) (h : Inv s) (hv : valid s e = true) : Inv (step s e) := by
  cases e with
  | poll w room => exact inv_poll s w room h hv
  | dropFut room => exact inv_drop s room h hv
  | kpost c => exact inv_kpost s c h hv
  | process => exact inv_process s h hv

theorem inv_run (s : OS) (es : List Ev) (h : Inv s) (hv : validRun s es = true) : Inv (run s es) := by
  induction es generalizing s with
  | nil => simpa [run] using h
  | cons e es ih =>
    simp [validRun] at hv
    exact ih (step s e) (inv_step s e h hv.1) hv.2

/-- States reachable from a fresh operation by events the kernel contract and
the `Future` contract allow. -/
def Reachable (s : OS) : Prop :=
  ∃ (multi : Bool) (es : List Ev), validRun (init multi) es = true ∧ s = run (init multi) es

theorem reachable_inv {s : OS} (h : Reachable s) : Inv s := by
  obtain ⟨m, es, hv, rfl⟩ := h
  exact inv_run (init m) es (inv_init m) hv

theorem reachable_of_run (multi : Bool) (es : List Ev) (hv : validRun (init multi) es = true) :
    Reachable (run (init multi) es) := ⟨multi, es, hv, rfl⟩

end A10.OpSys
