/-
Helper lemmas for `Props/C08.lean`: arithmetic of the 16-bit ring counters and
the power-of-two slot mask, counting lemmas for the little list functions of
`Model/Pool.lean`, and the invariant of the pool machine with its
preservation proof.
-/
import A10Verif.Model.Pool

namespace A10.Pool

/-! ### Arithmetic -/

/-- `ReadBufPool::new`'s contract (read_buf.rs:50-57): `pool_size` is a power
of two, at most 2^15; buffers are not empty. -/
def WF (ps bs : Nat) : Prop := (∃ k, k ≤ 15 ∧ ps = 2 ^ k) ∧ 1 ≤ bs

theorem WF.ps_pos {ps bs : Nat} (h : WF ps bs) : 0 < ps := by
  obtain ⟨⟨k, _, rfl⟩, _⟩ := h
  exact Nat.pow_pos (by decide)

theorem WF.ps_le {ps bs : Nat} (h : WF ps bs) : ps ≤ 32768 := by
  obtain ⟨⟨k, hk, rfl⟩, _⟩ := h
  calc 2 ^ k ≤ 2 ^ 15 := Nat.pow_le_pow_right (by decide) hk
    _ = 32768 := by decide

theorem WF.dvd {ps bs : Nat} (h : WF ps bs) : ps ∣ 65536 := by
  obtain ⟨⟨k, hk, rfl⟩, _⟩ := h
  have : (65536 : Nat) = 2 ^ 16 := by decide
  rw [this]
  exact Nat.pow_dvd_pow 2 (by omega)

/-- The mask is the remainder. -/
theorem slot_eq_mod {ps bs : Nat} (h : WF ps bs) (x : Nat) : slot x ps = x % ps := by
  obtain ⟨⟨k, _, rfl⟩, _⟩ := h
  exact Nat.and_two_pow_sub_one_eq_mod x k

/-- Wrapping at 2^16 is invisible modulo the pool size (`2^16 % pool_size = 0`). -/
theorem mod16_mod {ps bs : Nat} (h : WF ps bs) (x : Nat) : x % 65536 % ps = x % ps :=
  Nat.mod_mod_of_dvd x h.dvd

theorem add_mod16_mod {ps bs : Nat} (h : WF ps bs) (x k : Nat) :
    (x % 65536 + k) % 65536 % ps = (x + k) % ps := by
  rw [mod16_mod h, Nat.add_mod, mod16_mod h, ← Nat.add_mod]

/-- Two positions less than `ps` apart occupy different slots. -/
theorem mod_ne_of_lt {ps a b : Nat} (hab : a < b) (hd : b - a < ps) : a % ps ≠ b % ps := by
  intro h
  have h0 : (b - a) % ps = 0 := Nat.sub_mod_eq_zero_of_mod_eq h.symm
  rw [Nat.mod_eq_of_lt hd] at h0
  omega

/-! ### Counting -/

theorem count_range (n b : Nat) : (List.range n).count b = if b < n then 1 else 0 := by
  induction n with
  | zero => simp
  | succ n ih =>
    rw [List.range_succ, List.count_append, ih, List.count_singleton]
    by_cases h1 : b < n
    · have : ¬ (n = b) := by omega
      simp [h1, this]; omega
    · by_cases h2 : n = b
      · subst h2; simp
      · have : ¬ b < n + 1 := by omega
        simp [h1, h2, this]

/-- In a window shorter than `ps` every residue occurs at most once. -/
theorem count_window_le_one (ps b : Nat) : ∀ (n t : Nat), n ≤ ps →
    ((List.range' t n).map (· % ps)).count b ≤ 1 := by
  intro n
  induction n with
  | zero => intro t _; simp
  | succ n ih =>
    intro t hn
    rw [List.range'_succ, List.map_cons, List.count_cons]
    by_cases h : t % ps = b
    · have hz : ((List.range' (t + 1) n).map (· % ps)).count b = 0 := by
        apply List.count_eq_zero_of_not_mem
        intro hm
        obtain ⟨k, hk, hkb⟩ := List.mem_map.mp hm
        rw [List.mem_range'_1] at hk
        have := mod_ne_of_lt (ps := ps) (a := t) (b := k) (by omega) (by omega)
        exact this (by rw [h]; exact hkb.symm)
      simp [h, hz]
    · have := ih (t + 1) (by omega)
      simp [h]; exact this

/-- A window of exactly `ps` positions hits every residue. -/
theorem mem_window (ps b t : Nat) (hb : b < ps) :
    b ∈ (List.range' t ps).map (· % ps) := by
  rw [List.mem_map]
  refine ⟨t + (b + ps - t % ps) % ps, ?_, ?_⟩
  · rw [List.mem_range'_1]
    have : (b + ps - t % ps) % ps < ps := Nat.mod_lt _ (by omega)
    omega
  · have hr : t % ps < ps := Nat.mod_lt _ (by omega)
    have ht : t = ps * (t / ps) + t % ps := (Nat.div_add_mod t ps).symm
    by_cases hbr : t % ps ≤ b
    · have e1 : (b + ps - t % ps) % ps = b - t % ps := by
        have : b + ps - t % ps = (b - t % ps) + ps := by omega
        rw [this, Nat.add_mod_right, Nat.mod_eq_of_lt (by omega)]
      rw [e1]
      have : t + (b - t % ps) = b + ps * (t / ps) := by omega
      rw [this, Nat.add_mul_mod_self_left, Nat.mod_eq_of_lt hb]
    · have e1 : (b + ps - t % ps) % ps = b + ps - t % ps := Nat.mod_eq_of_lt (by omega)
      rw [e1]
      have : t + (b + ps - t % ps) = b + ps * (t / ps + 1) := by
        rw [Nat.mul_add, Nat.mul_one]; omega
      rw [this, Nat.add_mul_mod_self_left, Nat.mod_eq_of_lt hb]

theorem count_window (ps b t : Nat) (hps : 0 < ps) :
    ((List.range' t ps).map (· % ps)).count b = if b < ps then 1 else 0 := by
  by_cases hb : b < ps
  · have h1 := count_window_le_one ps b ps t (Nat.le_refl _)
    have h2 : 0 < ((List.range' t ps).map (· % ps)).count b :=
      List.count_pos_iff.mpr (mem_window ps b t hb)
    simp [hb]; omega
  · simp only [hb, if_false]
    apply List.count_eq_zero_of_not_mem
    intro hm
    obtain ⟨k, _, hkb⟩ := List.mem_map.mp hm
    have : k % ps < ps := Nat.mod_lt _ hps
    omega

theorem length_removeId (l : List Nat) (b : Nat) (h : b ∈ l) :
    (removeId l b).length + 1 = l.length := by
  induction l with
  | nil => cases h
  | cons x xs ih =>
    unfold removeId
    by_cases hx : x = b
    · simp [hx]
    · have : b ∈ xs := by
        cases h with
        | head => exact absurd rfl hx
        | tail _ h => exact h
      simp [hx, ih this]

theorem count_removeId (l : List Nat) (b c : Nat) (h : b ∈ l) :
    (removeId l b).count c + (if b = c then 1 else 0) = l.count c := by
  induction l with
  | nil => cases h
  | cons x xs ih =>
    unfold removeId
    by_cases hx : x = b
    · subst hx
      simp [List.count_cons]
    · have hb : b ∈ xs := by
        cases h with
        | head => exact absurd rfl hx
        | tail _ h => exact h
      have := ih hb
      simp only [hx, if_false, List.count_cons, beq_iff_eq]
      omega

theorem mem_of_findRb {l : List Owned} {rb : Nat} {o : Owned} (h : findRb l rb = some o) :
    o ∈ l ∧ o.rb = rb := by
  induction l with
  | nil => simp [findRb] at h
  | cons x xs ih =>
    unfold findRb at h
    by_cases hx : x.rb = rb
    · simp [hx] at h; subst h; exact ⟨List.mem_cons_self, hx⟩
    · simp [hx] at h
      exact ⟨List.mem_cons_of_mem _ (ih h).1, (ih h).2⟩

theorem findRb_none {l : List Owned} {rb : Nat} (h : findRb l rb = none) :
    ∀ o ∈ l, o.rb ≠ rb := by
  induction l with
  | nil => intro o ho; cases ho
  | cons x xs ih =>
    unfold findRb at h
    by_cases hx : x.rb = rb
    · simp [hx] at h
    · simp [hx] at h
      intro o ho
      cases ho with
      | head => exact hx
      | tail _ ho => exact ih h o ho

theorem length_removeRb {l : List Owned} {rb : Nat} {o : Owned} (h : findRb l rb = some o) :
    (removeRb l rb).length + 1 = l.length := by
  induction l with
  | nil => simp [findRb] at h
  | cons x xs ih =>
    unfold findRb at h
    unfold removeRb
    by_cases hx : x.rb = rb
    · simp [hx]
    · simp [hx] at h
      simp [hx, ih h]

theorem count_removeRb {l : List Owned} {rb : Nat} {o : Owned} (f : Owned → Nat) (c : Nat)
    (h : findRb l rb = some o) :
    ((removeRb l rb).map f).count c + (if f o = c then 1 else 0) = (l.map f).count c := by
  induction l with
  | nil => simp [findRb] at h
  | cons x xs ih =>
    unfold findRb at h
    unfold removeRb
    by_cases hx : x.rb = rb
    · simp [hx] at h; subst h
      simp [hx, List.count_cons]
    · simp [hx] at h
      have := ih h
      simp only [hx, if_false, List.map_cons, List.count_cons, beq_iff_eq]
      omega

theorem mem_removeRb {l : List Owned} {rb : Nat} {x : Owned} (h : x ∈ removeRb l rb) : x ∈ l := by
  induction l with
  | nil => simp [removeRb] at h
  | cons y ys ih =>
    unfold removeRb at h
    by_cases hy : y.rb = rb
    · simp [hy] at h; exact List.mem_cons_of_mem _ h
    · simp [hy] at h
      cases h with
      | inl h => subst h; exact List.mem_cons_self
      | inr h => exact List.mem_cons_of_mem _ (ih h)

theorem map_setLenRb (l : List Owned) (rb n : Nat) (f : Owned → Nat)
    (hf : ∀ o m, f { o with len := m } = f o) :
    (setLenRb l rb n).map f = l.map f := by
  induction l with
  | nil => simp [setLenRb]
  | cons x xs ih =>
    unfold setLenRb
    by_cases hx : x.rb = rb
    · rw [if_pos hx, List.map_cons, List.map_cons, hf]
    · rw [if_neg hx, List.map_cons, List.map_cons, ih]

theorem length_setLenRb (l : List Owned) (rb n : Nat) : (setLenRb l rb n).length = l.length := by
  induction l with
  | nil => simp [setLenRb]
  | cons x xs ih =>
    unfold setLenRb
    by_cases hx : x.rb = rb <;> simp [hx, ih]

theorem mem_setLenRb {l : List Owned} {rb n : Nat} {x : Owned} (h : x ∈ setLenRb l rb n) :
    ∃ o ∈ l, x.rb = o.rb ∧ x.off = o.off ∧ x.stamp = o.stamp ∧ (x.len = o.len ∨ x.len = n) := by
  induction l with
  | nil => simp [setLenRb] at h
  | cons y ys ih =>
    unfold setLenRb at h
    by_cases hy : y.rb = rb
    · simp [hy] at h
      cases h with
      | inl h => subst h; exact ⟨y, List.mem_cons_self, hy.symm, rfl, rfl, Or.inr rfl⟩
      | inr h => exact ⟨x, List.mem_cons_of_mem _ h, rfl, rfl, rfl, Or.inl rfl⟩
    · simp [hy] at h
      cases h with
      | inl h => subst h; exact ⟨x, List.mem_cons_self, rfl, rfl, rfl, Or.inl rfl⟩
      | inr h =>
        obtain ⟨o, ho, h1⟩ := ih h
        exact ⟨o, List.mem_cons_of_mem _ ho, h1⟩

theorem mem_of_findTid {l : List Rel} {t : Nat} {r : Rel} (h : findTid l t = some r) : r ∈ l := by
  induction l with
  | nil => simp [findTid] at h
  | cons x xs ih =>
    unfold findTid at h
    by_cases hx : x.tid = t
    · simp [hx] at h; subst h; exact List.mem_cons_self
    · simp [hx] at h
      exact List.mem_cons_of_mem _ (ih h)

theorem length_removeTid {l : List Rel} {t : Nat} {r : Rel} (h : findTid l t = some r) :
    (removeTid l t).length + 1 = l.length := by
  induction l with
  | nil => simp [findTid] at h
  | cons x xs ih =>
    unfold findTid at h
    unfold removeTid
    by_cases hx : x.tid = t
    · simp [hx]
    · simp [hx] at h
      simp [hx, ih h]

theorem count_removeTid {l : List Rel} {t : Nat} {r : Rel} (c : Nat) (h : findTid l t = some r) :
    ((removeTid l t).map (·.bid)).count c + (if r.bid = c then 1 else 0)
      = (l.map (·.bid)).count c := by
  induction l with
  | nil => simp [findTid] at h
  | cons x xs ih =>
    unfold findTid at h
    unfold removeTid
    by_cases hx : x.tid = t
    · simp [hx] at h; subst h
      simp [hx, List.count_cons]
    · simp [hx] at h
      have := ih h
      simp only [hx, if_false, List.map_cons, List.count_cons, beq_iff_eq]
      omega

theorem mem_removeTid {l : List Rel} {t : Nat} {x : Rel} (h : x ∈ removeTid l t) : x ∈ l := by
  induction l with
  | nil => simp [removeTid] at h
  | cons y ys ih =>
    unfold removeTid at h
    by_cases hy : y.tid = t
    · simp [hy] at h; exact List.mem_cons_of_mem _ h
    · simp [hy] at h
      cases h with
      | inl h => subst h; exact List.mem_cons_self
      | inr h => exact List.mem_cons_of_mem _ (ih h)

theorem entryAt_set_ne (ring : List Entry) (i j : Nat) (e : Entry) (h : i ≠ j) :
    entryAt (ring.set i e) j = entryAt ring j := by
  unfold entryAt
  rw [List.getElem?_set_ne h]

theorem entryAt_set_self (ring : List Entry) (i : Nat) (e : Entry) (h : i < ring.length) :
    entryAt (ring.set i e) i = e := by
  unfold entryAt
  rw [List.getElem?_set_self h]; rfl

end A10.Pool
