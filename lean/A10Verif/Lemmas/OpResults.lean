/-
Result, routing and wake-up invariants of the single-operation system
(`Lemmas/OpSys.lean`): what the caller is handed is exactly what the kernel
posted for the current submission (C02), restarts swallow only the
interruption (C09), and the waker of the last Pending poll is invoked by the
step that processes the first ready-making completion (C03).
-/
import A10Verif.Lemmas.OpInv
namespace A10.OpSys
open A10

/-- The result container matches the operation kind. -/
def kindOk (o : Op) : Prop :=
  match o.status with
  | .running (.single _) | .done (.single _) => o.multi = false
  | .running (.multi _) | .done (.multi _) => o.multi = true
  | _ => True

/-- Queued multishot result values. -/
def qv : Status → Option (List Int)
  | .running (.multi q) | .done (.multi q) => some (q.map (·.res))
  | _ => none

/-- The single-shot result slot. -/
def sv : Status → Option Res
  | .running (.single x) | .done (.single x) => some x
  | _ => none

/-- Value handed to the caller by a poll. -/
def ov : PollOut → List Int
  | .readyOk r => [r.res]
  | .readyErr e => [-e]
  | _ => []

theorem poll_results (o : Op) (w : Nat) (room : Bool) (hk : kindOk o) :
    kindOk (o.poll w room).1 ∧
    ((o.poll w room).2.2.contains .submit = true →
        (o.poll w room).1.status = .running (Results.empty o.multi)) ∧
    ((o.poll w room).2.2.contains .submit = false →
        (∀ l', qv (o.poll w room).1.status = some l' →
            qv o.status = some (ov (o.poll w room).2.1 ++ l')) ∧
        (∀ x, sv (o.poll w room).1.status = some x → sv o.status = some x ∧
            ov (o.poll w room).2.1 = [])) := by
  cases o with
  | mk multi status waker boxLive resInit futLive frees resDrops =>
  cases status with
  | notStarted => cases room <;> cases multi <;> simp [Op.poll, Op.pollAux, kindOk, qv, sv, ov, Results.empty]
  | dropped => simp [Op.poll, Op.pollAux, kindOk, qv, sv, ov]
  | complete => simp [Op.poll, Op.pollAux, kindOk, qv, sv, ov]
  | running r =>
    cases r with
    | single x =>
      have : multi = false := by simpa [kindOk] using hk
      subst this
      simp [Op.poll, Op.pollAux, kindOk, qv, sv, ov]
    | multi q =>
      have : multi = true := by simpa [kindOk] using hk
      subst this
      cases q with
      | nil => simp [Op.poll, Op.pollAux, kindOk, qv, sv, ov, Results.next]
      | cons x q' =>
        by_cases hx : 0 ≤ x.res <;> simp [Op.poll, Op.pollAux, kindOk, qv, sv, ov, Results.next, hx]
  | done r =>
    cases r with
    | single x =>
      have : multi = false := by simpa [kindOk] using hk
      subst this
      by_cases hx : 0 ≤ x.res
      · simp [Op.poll, Op.pollAux, kindOk, qv, sv, ov, Results.next, hx]
      · by_cases hr : -x.res = EINTR ∨ -x.res = ECANCELED
        · cases room <;> simp [Op.poll, Op.pollAux, kindOk, qv, sv, ov, Results.next, hx, hr, Results.empty, Results.hasNext]
        · simp [Op.poll, Op.pollAux, kindOk, qv, sv, ov, Results.next, hx, hr]
    | multi q =>
      have : multi = true := by simpa [kindOk] using hk
      subst this
      cases q with
      | nil => simp [Op.poll, Op.pollAux, kindOk, qv, sv, ov, Results.next]
      | cons x q' =>
        by_cases hx : 0 ≤ x.res
        · simp [Op.poll, Op.pollAux, kindOk, qv, sv, ov, Results.next, hx]
        · by_cases hr : -x.res = EINTR ∨ -x.res = ECANCELED
          · cases q' <;> cases room <;>
              simp [Op.poll, Op.pollAux, kindOk, qv, sv, ov, Results.next, hx, hr, Results.empty, Results.hasNext]
          · simp [Op.poll, Op.pollAux, kindOk, qv, sv, ov, Results.next, hx, hr]
end A10.OpSys

namespace A10.OpSys
open A10

/-- The single-shot slot after processing a list of completions: the last one
that is not a zero-copy notification (initially `(0, 0)`). -/
def slotStep (acc c : Res) : Res := if fNotif c.flags then acc else c
def slotOf (l : List Res) : Res := l.foldl slotStep ⟨0, 0⟩

theorem update_results (o o' : Op) (c : Res) (effs : List Eff) (hu : o.update c = some (o', effs))
    (hk : kindOk o) :
    kindOk o' ∧
    (∀ x', sv o'.status = some x' → ∃ x, sv o.status = some x ∧ x' = slotStep x c) ∧
    (∀ l', qv o'.status = some l' → ∃ l, qv o.status = some l ∧ l' = l ++ [c.res]) := by
  cases o with
  | mk multi status waker boxLive resInit futLive frees resDrops =>
  cases status with
  | notStarted => simp [Op.update] at hu
  | complete => simp [Op.update] at hu
  | dropped =>
    cases hm : fMore c.flags <;> simp [Op.update, hm] at hu <;> obtain ⟨rfl, _⟩ := hu <;>
      simp [kindOk, sv, qv]
  | running r =>
    cases r with
    | single x =>
      have : multi = false := by simpa [kindOk] using hk
      subst this
      cases hm : fMore c.flags <;> cases hn : fNotif c.flags <;> cases waker <;>
        simp [Op.update, hm, hn, Results.update] at hu <;> obtain ⟨rfl, _⟩ := hu <;>
        simp [kindOk, sv, qv, slotStep, hn]
    | multi q =>
      have : multi = true := by simpa [kindOk] using hk
      subst this
      cases hm : fMore c.flags <;> cases waker <;>
        simp [Op.update, hm, Results.update] at hu <;> obtain ⟨rfl, _⟩ := hu <;>
        simp [kindOk, sv, qv]
  | done r =>
    cases r with
    | single x =>
      have : multi = false := by simpa [kindOk] using hk
      subst this
      cases hm : fMore c.flags <;> cases hn : fNotif c.flags <;> cases waker <;>
        simp [Op.update, hm, hn, Results.update] at hu <;> obtain ⟨rfl, _⟩ := hu <;>
        simp [kindOk, sv, qv, slotStep, hn]
    | multi q =>
      have : multi = true := by simpa [kindOk] using hk
      subst this
      cases hm : fMore c.flags <;> cases waker <;>
        simp [Op.update, hm, Results.update] at hu <;> obtain ⟨rfl, _⟩ := hu <;>
        simp [kindOk, sv, qv]

structure Inv2 (s : OS) : Prop where
  r0 : kindOk s.op
  r1 : s.processed ++ s.cq = s.posted
  r2 : ∀ x, sv s.op.status = some x → x = slotOf s.processed
  r3 : ∀ l, qv s.op.status = some l → s.delivered ++ l = s.processed.map (·.res)

theorem inv2_init (m : Bool) : Inv2 (init m) := by
  constructor <;> simp [init, kindOk, sv, qv]

theorem delivered_poll (s : OS) (w : Nat) (room : Bool)
    (hs : (s.op.poll w room).2.2.contains .submit = false) :
    (step s (.poll w room)).delivered = s.delivered ++ ov (s.op.poll w room).2.1 := by
  simp only [step, hs]
  cases (s.op.poll w room).2.1 <;> simp [ov]

theorem inv2_step (s : OS) (e : Ev) (h : Inv s) (h2 : Inv2 s) (hv : valid s e = true) :
    Inv2 (step s e) := by
  obtain ⟨r0, r1, r2, r3⟩ := h2
  cases e with
  | kpost c =>
    constructor <;> simp only [step]
    · exact r0
    · rw [← List.append_assoc, r1]
    · exact r2
    · exact r3
  | dropFut room =>
    obtain ⟨d1, d2, drun, dnot⟩ := dropFut_spec s.op room
    cases hr : isRunning s.op.status with
    | true =>
      have hst := (drun hr).1
      constructor <;> simp only [step]
      · simp [kindOk, hst]
      · exact r1
      · intro x hx; simp [hst, sv] at hx
      · intro l hl; simp [hst, qv] at hl
    | false =>
      have hst := (dnot hr).1
      constructor <;> simp only [step]
      · simpa [kindOk, hst, d2] using r0
      · exact r1
      · intro x hx; rw [hst] at hx; exact r2 x hx
      · intro l hl; rw [hst] at hl; exact r3 l hl
  | process =>
    cases hcq : s.cq with
    | nil => simp [valid, hcq] at hv
    | cons c rest =>
      have hne : s.cq ≠ [] := by simp [hcq]
      obtain ⟨b1, b2, b3⟩ := h.i2 hne
      have hsome : ∃ o' effs, s.op.update c = some (o', effs) := by
        rcases b3 with hrun | ⟨hdr, _⟩
        · obtain ⟨o', effs, hu, _⟩ := (update_spec s.op c).1 hrun; exact ⟨o', effs, hu⟩
        · obtain ⟨o', effs, hu, _⟩ := (update_spec s.op c).2 hdr; exact ⟨o', effs, hu⟩
      obtain ⟨o', effs, hu⟩ := hsome
      obtain ⟨k1, k2, k3⟩ := update_results s.op o' c effs hu r0
      simp only [step, hcq, hu]
      constructor
      · exact k1
      · simp only; rw [List.append_assoc]; simpa [hcq] using r1
      · intro x' hx'
        obtain ⟨x, hx, rfl⟩ := k2 x' hx'
        have := r2 x hx
        simp [slotOf, List.foldl_append, this]
      · intro l' hl'
        obtain ⟨l, hl, rfl⟩ := k3 l' hl'
        have := r3 l hl
        simp [List.map_append, ← this, List.append_assoc]
  | poll w room =>
    obtain ⟨pk, psub, pno⟩ := poll_results s.op w room r0
    cases hs : (s.op.poll w room).2.2.contains Eff.submit with
    | true =>
      have hst := psub hs
      -- the operation was quiet before a fresh submission
      have hq : s.cq = [] := by
        obtain ⟨_, _, _, _, ps, _⟩ := pollAux_spec s.op w room 2 (Or.inl (Nat.le_refl 2))
        obtain ⟨q1, _⟩ := ps hs
        have hna : ¬ active s.op := by
          rcases q1 with q1 | q1
          · exact notActive_of _ (by simp [q1, isRunning]) (Or.inl (by simp [q1]))
          · cases hst' : s.op.status <;> simp_all [isDone, isRunning, active]
        exact (quiet_of_not_active s h hna).2
      constructor <;> simp only [step, hs]
      · exact pk
      · simp [hq]
      · intro x hx
        rw [hst] at hx
        cases hm : s.op.multi <;> simp [hm, Results.empty, sv] at hx
        subst hx; simp [slotOf]
      · intro l hl
        rw [hst] at hl
        cases hm : s.op.multi <;> simp [hm, Results.empty, qv] at hl
        subst hl; simp
    | false =>
      obtain ⟨n1, n2⟩ := pno hs
      have hd := delivered_poll s w room hs
      have hs' : ¬ Eff.submit ∈ (s.op.poll w room).2.2 := by simpa using hs
      constructor
      · simpa [step] using pk
      · simpa [step, hs'] using r1
      · intro x hx
        have hx' : sv (s.op.poll w room).1.status = some x := by simpa [step] using hx
        have := r2 x (n2 x hx').1
        simpa [step, hs'] using this
      · intro l hl
        have hl' : qv (s.op.poll w room).1.status = some l := by simpa [step] using hl
        have := r3 _ (n1 l hl')
        rw [hd]
        simpa [step, hs', List.append_assoc] using this

end A10.OpSys

namespace A10.OpSys
open A10

/-- Wake-up invariant (C03): the waker of the last Pending poll is either still
registered with a running operation for which nothing ready-making has been
processed, or it has been invoked since. -/
def WInv (s : OS) : Prop :=
  s.op.futLive = true → ∀ w, s.lastPend = some w →
    (s.op.status = .notStarted ∧ s.readySince = false) ∨
    (isRunning s.op.status = true ∧ s.op.waker = some w ∧ s.readySince = false) ∨
    s.wokenSince = true

theorem poll_pending_waker (o : Op) (w : Nat) (room : Bool) (hp : (o.poll w room).2.1 = .pending)
    (hnd : o.status ≠ .dropped) (hnc : o.status ≠ .complete) :
    (o.poll w room).1.status = .notStarted ∨
    (isRunning (o.poll w room).1.status = true ∧ (o.poll w room).1.waker = some w) := by
  cases o with
  | mk multi status waker boxLive resInit futLive frees resDrops =>
  cases status with
  | notStarted => cases room <;> simp [Op.poll, Op.pollAux, isRunning]
  | dropped => simp at hnd
  | complete => simp at hnc
  | running r =>
    cases multi
    · simp [Op.poll, Op.pollAux, isRunning]
    · cases r with
      | single x => simp [Op.poll, Op.pollAux, Results.next] at hp; split at hp <;> simp at hp
      | multi q =>
        cases q with
        | nil => simp [Op.poll, Op.pollAux, Results.next, isRunning]
        | cons x q' => simp [Op.poll, Op.pollAux, Results.next] at hp; split at hp <;> simp at hp
  | done r =>
    cases r with
    | single x =>
      by_cases hx : 0 ≤ x.res
      · cases multi <;> simp [Op.poll, Op.pollAux, Results.next, hx] at hp
      · by_cases hr : -x.res = EINTR ∨ -x.res = ECANCELED
        · cases room <;> cases multi <;>
            simp [Op.poll, Op.pollAux, Results.next, hx, hr, Results.hasNext, isRunning]
        · cases multi <;> simp [Op.poll, Op.pollAux, Results.next, hx, hr] at hp
    | multi q =>
      cases q with
      | nil => simp [Op.poll, Op.pollAux, Results.next] at hp
      | cons x q' =>
        by_cases hx : 0 ≤ x.res
        · cases multi <;> simp [Op.poll, Op.pollAux, Results.next, hx] at hp
        · by_cases hr : -x.res = EINTR ∨ -x.res = ECANCELED
          · cases q' <;> cases room <;> cases multi <;>
              simp [Op.poll, Op.pollAux, Results.next, hx, hr, Results.hasNext, isRunning] at hp ⊢
          · cases multi <;> simp [Op.poll, Op.pollAux, Results.next, hx, hr] at hp

theorem update_waker (o o' : Op) (c : Res) (effs : List Eff) (w : Nat)
    (hu : o.update c = some (o', effs)) (hr : isRunning o.status = true) (hw : o.waker = some w) :
    ((fMore c.flags = false ∨ o.multi = true) → effs = [.wake w]) ∧
    ((fMore c.flags = true ∧ o.multi = false) →
        isRunning o'.status = true ∧ o'.waker = some w ∧ effs = []) := by
  cases o with
  | mk multi status waker boxLive resInit futLive frees resDrops =>
  cases status <;> simp [isRunning] at hr
  simp at hw; subst hw
  cases hm : fMore c.flags <;> cases multi <;> simp [Op.update, hm] at hu <;>
    obtain ⟨rfl, rfl⟩ := hu <;> simp [isRunning]

theorem winv_init (m : Bool) : WInv (init m) := by
  intro _ w hw; simp [init] at hw

theorem winv_step (s : OS) (e : Ev) (h : Inv s) (hw : WInv s) (hv : valid s e = true) :
    WInv (step s e) := by
  cases e with
  | kpost c => intro hf w hl; exact hw hf w hl
  | dropFut room =>
    intro hf; have := (dropFut_spec s.op room).1; simp [step] at hf; rw [this] at hf; simp at hf
  | poll w0 room =>
    have hv' : s.op.futLive = true ∧ s.op.status ≠ .complete := by
      simpa [valid, bne_iff_ne] using hv
    have hnd := (h.i6.1 hv'.1).2
    intro hf w hl
    simp only [step] at hl ⊢
    by_cases hp : (s.op.poll w0 room).2.1 = .pending
    · simp [hp] at hl; subst hl
      rcases poll_pending_waker s.op w0 room hp hnd hv'.2 with h1 | ⟨h1, h2⟩
      · left; exact ⟨h1, trivial⟩
      · right; left; exact ⟨h1, h2, trivial⟩
    · simp [hp] at hl
  | process =>
    cases hcq : s.cq with
    | nil => simp [valid, hcq] at hv
    | cons c rest =>
      have hne : s.cq ≠ [] := by simp [hcq]
      obtain ⟨b1, b2, b3⟩ := h.i2 hne
      intro hf w hl
      rcases b3 with hrun | ⟨hdr, _⟩
      · obtain ⟨o', effs, hu, u1, u2, _⟩ := (update_spec s.op c).1 hrun
        simp only [step, hcq, hu] at hf hl ⊢
        have hf0 : s.op.futLive = true := by rw [← u2]; exact hf
        rcases hw hf0 w hl with ⟨c1, _⟩ | ⟨c1, c2, c3⟩ | c1
        · rw [c1] at hrun; simp [isRunning] at hrun
        · obtain ⟨k1, k2⟩ := update_waker s.op o' c effs w hu hrun c2
          by_cases hcase : fMore c.flags = false ∨ s.op.multi = true
          · right; right
            have := k1 hcase
            simp [this, hl]
          · have hc2 : fMore c.flags = true ∧ s.op.multi = false := by
              cases hm : fMore c.flags <;> cases hmu : s.op.multi <;> simp_all
            obtain ⟨t1, t2, t3⟩ := k2 hc2
            right; left
            refine ⟨t1, t2, ?_⟩
            simp [c3, hc2.1, hc2.2]
        · right; right; simp [c1]
      · obtain ⟨o', effs, hu, u2, _⟩ := (update_spec s.op c).2 hdr
        simp only [step, hcq, hu] at hf
        have hf0 : s.op.futLive = true := by rw [← u2]; exact hf
        exact absurd hdr (h.i6.1 hf0).2

end A10.OpSys

namespace A10.OpSys
open A10

theorem all_run (s : OS) (es : List Ev) (h : Inv s) (h2 : Inv2 s) (hw : WInv s)
    (hv : validRun s es = true) : Inv (run s es) ∧ Inv2 (run s es) ∧ WInv (run s es) := by
  induction es generalizing s with
  | nil => exact ⟨h, h2, hw⟩
  | cons e es ih =>
    simp [validRun] at hv
    exact ih (step s e) (inv_step s e h hv.1) (inv2_step s e h h2 hv.1) (winv_step s e h hw hv.1) hv.2

theorem reachable_all {s : OS} (h : Reachable s) : Inv s ∧ Inv2 s ∧ WInv s := by
  obtain ⟨m, es, hv, rfl⟩ := h
  exact all_run (init m) es (inv_init m) (inv2_init m) (winv_init m) hv

end A10.OpSys
