/-
Refinement / projection of the multi-operation system `Model/Life.lean` onto
the single-operation system `Lemmas/OpSys.lean`.

Part 1 (this file): moves of the multi-operation system, the projection on one
operation and the list-level invariant `GInv` with one preservation lemma per
primitive change of (`ops`, `sq`, `inflight`, `cq ++ overflow`).
-/
import A10Verif.Lemmas.OpInv
import A10Verif.Model.Life

namespace A10.Life
open A10 A10.OpSys

/-! ### Moves -/

/-- The moves of the multi-operation system (the `life …` lines of `stepLine`
without the printing-only `race` line). -/
inductive Mv where
  | new (multi : Bool)
  | poll (i w : Nat)
  | drop (i : Nat)
  | kpost (i : Nat) (res : Int) (flags : Nat)
  | rpoll (posts : List (Nat × Int × Nat))
  | rdrop
  deriving Repr, DecidableEq

/-- Kernel contract on the moves (KC2): a completion posted *for an operation*
never carries `IORING_CQE_F_SKIP` (such entries only fill gaps in the ring and
are dispatched to nobody). Everything else `stepLine` answers with `bad-op` is
already a no-op of the model functions and needs no guard. -/
def validMv (_s : Sys) : Mv → Bool
  | .kpost _ _ flags => !fSkip flags
  | .rpoll posts => posts.all (fun p => !fSkip p.2.2)
  | _ => true

/-- The raw effect of a move: exactly the model functions, as `stepLine` calls them. -/
def applyMv (s : Sys) : Mv → Sys
  | .new m => { s with ops := s.ops ++ [{ multi := m }],
                       opc := s.opc ++ [if m then "READ_MULTISHOT" else "READ"] }
  | .poll i w => (s.poll i w).1
  | .drop i => (s.dropOp i).1
  | .kpost i r f => (s.kpost i r f).1
  | .rpoll ps => if s.ringLive then (s.rpoll ps).1 else s
  | .rdrop => if s.ringLive then { (s.rdrop).1 with ringLive := false } else s

/-- A move that violates `validMv` is not taken. -/
def stepMv (s : Sys) (m : Mv) : Sys := if validMv s m then applyMv s m else s

def runMv (s : Sys) (ms : List Mv) : Sys := ms.foldl stepMv s

def Reachable (s : Sys) : Prop :=
  ∃ sqLen cqLen cqh ms, 1 ≤ sqLen ∧ 1 ≤ cqLen ∧
    s = runMv { sqLen := sqLen, cqLen := cqLen, cqHead := cqh } ms

/-! ### Projection -/

/-- The pending completions of operation `i` in a list of CQEs. -/
def cqOf (i : Nat) (l : List Cqe) : List Res :=
  (l.filter (fun c => c.ud = .op i ∧ ¬ fSkip c.flags)).map (fun c => ⟨c.res, c.flags⟩)

/-- Operation used for indices beyond `ops` (a fresh, never started one). -/
def dflt : Op := { multi := false }

def projG (ops : List Op) (sq : List SqEntry) (infl : List Nat) (pend : List Cqe) (i : Nat) : OS :=
  { op := (ops[i]?).getD dflt
    inflight := decide (SqEntry.op i ∈ sq ∨ i ∈ infl)
    cq := cqOf i pend }

/-- Projection of the multi-operation state on operation `i`. -/
def proj (s : Sys) (i : Nat) : OS := projG s.ops s.sq s.inflight (s.cq ++ s.overflow) i

@[simp] theorem cqOf_nil (i : Nat) : cqOf i [] = [] := rfl

theorem cqOf_append (i : Nat) (l m : List Cqe) : cqOf i (l ++ m) = cqOf i l ++ cqOf i m := by
  simp [cqOf]

theorem cqOf_cons_self (i : Nat) (c : Cqe) (l : List Cqe) (hu : c.ud = .op i) (hs : fSkip c.flags = false) :
    cqOf i (c :: l) = ⟨c.res, c.flags⟩ :: cqOf i l := by
  simp [cqOf, hu, hs]

theorem cqOf_cons_other (i : Nat) (c : Cqe) (l : List Cqe) (h : c.ud ≠ .op i ∨ fSkip c.flags = true) :
    cqOf i (c :: l) = cqOf i l := by
  rcases h with h | h <;> simp [cqOf, h]

theorem cqOf_snoc_self (i : Nat) (c : Cqe) (l : List Cqe) (hu : c.ud = .op i) (hs : fSkip c.flags = false) :
    cqOf i (l ++ [c]) = cqOf i l ++ [⟨c.res, c.flags⟩] := by
  rw [cqOf_append, cqOf_cons_self i c [] hu hs]; rfl

theorem cqOf_snoc_other (i : Nat) (c : Cqe) (l : List Cqe) (h : c.ud ≠ .op i ∨ fSkip c.flags = true) :
    cqOf i (l ++ [c]) = cqOf i l := by
  rw [cqOf_append, cqOf_cons_other i c [] h]; simp

theorem cqOf_ne_nil_of_mem (i : Nat) (l : List Cqe) (c : Cqe) (hc : c ∈ l) (hu : c.ud = .op i)
    (hs : fSkip c.flags = false) : cqOf i l ≠ [] := by
  intro h
  simp [cqOf] at h
  have := h c hc hu
  simp [hs] at this

/-! ### The invariant only looks at `op`, `inflight`, `cq` -/

theorem Inv_congr {s t : OS} (h : Inv s) (ho : t.op = s.op) (hi : t.inflight = s.inflight)
    (hc : t.cq = s.cq) : Inv t := by
  cases s; cases t
  simp only at ho hi hc
  subst ho hi hc
  exact ⟨h.i1, h.i2, h.i3, h.i4, h.i5, h.i6, h.i7, h.i8, h.i9⟩

theorem dflt_not_active : ¬ active dflt :=
  notActive_of _ rfl (Or.inl (by simp [dflt]))

theorem fresh_not_active (m : Bool) : ¬ active { multi := m } :=
  notActive_of _ rfl (Or.inl (by simp))

/-- A quiet fresh operation satisfies the invariant. -/
theorem Inv_fresh (t : OS) (m : Bool) (ho : t.op = { multi := m }) (hi : t.inflight = false)
    (hc : t.cq = []) : Inv t :=
  Inv_congr (inv_init m) (by simp [init, ho]) (by simp [init, hi]) (by simp [init, hc])

/-- The state of a dropped future that is neither referenced by the kernel nor
by a pending completion has been reclaimed exactly once (`C06_free_eventually`
stated over the invariant). -/
theorem Inv_reclaimed {s : OS} (h : Inv s) (hf : s.op.futLive = false)
    (hq : s.inflight = false) (hc : s.cq = []) :
    s.op.boxLive = false ∧ s.op.frees = 1 ∧ s.op.resInit = false ∧ s.op.resDrops = 1 := by
  have hb : s.op.boxLive = false := by
    rcases h.i6.2 hf with hd | hb
    · cases hbl : s.op.boxLive with
      | false => rfl
      | true =>
        rcases h.i3 (Or.inr ⟨hd, hbl⟩) with h3 | h3
        · rw [hq] at h3; exact Bool.noConfusion h3
        · exact absurd hc h3
    · exact hb
  have hri := h.i9 hb
  have h4 := h.i4
  have h8 := h.i8
  have hne : s.op.frees ≠ 0 := fun h0 => by
    have := h4.2.2 h0; rw [hb] at this; exact Bool.noConfusion this
  have hne2 : s.op.resDrops ≠ 0 := fun h0 => by
    have := h8.2.2 h0; rw [hri] at this; exact Bool.noConfusion this
  exact ⟨hb, by omega, hri, by omega⟩

/-! ### List-level invariant -/

/-- Every projection satisfies the single-operation invariant, and an
operation index occurs at most once in `sq` (as `.op i`) and `inflight`
together. -/
structure GInv (ops : List Op) (sq : List SqEntry) (infl : List Nat) (pend : List Cqe) : Prop where
  inv : ∀ i, Inv (projG ops sq infl pend i)
  uniq : ∀ i, sq.count (.op i) + infl.count i ≤ 1

theorem GInv_init (pend : List Cqe) (hp : ∀ i, cqOf i pend = []) : GInv [] [] [] pend := by
  constructor
  · intro i
    exact Inv_fresh _ false (by simp [projG, dflt]) (by simp [projG]) (by simp [projG, hp])
  · intro i; simp

/-- Facts a projection's invariant gives about the lists. -/
theorem GInv.quiet {ops sq infl pend} (h : GInv ops sq infl pend) (i : Nat)
    (hna : ¬ active ((ops[i]?).getD dflt)) :
    SqEntry.op i ∉ sq ∧ i ∉ infl ∧ cqOf i pend = [] := by
  have := quiet_of_not_active _ (h.inv i) hna
  simp only [projG, decide_eq_false_iff_not, not_or] at this
  exact ⟨this.1.1, this.1.2, this.2⟩

theorem GInv.lt_of_active {ops sq infl pend} (_h : GInv ops sq infl pend) (i : Nat)
    (ha : active ((ops[i]?).getD dflt)) : i < ops.length := by
  apply Classical.byContradiction
  intro hn
  have : ops[i]? = none := by simp at hn ⊢; exact hn
  rw [this] at ha
  exact dflt_not_active ha

theorem GInv.active_of_ref {ops sq infl pend} (h : GInv ops sq infl pend) (i : Nat)
    (hr : SqEntry.op i ∈ sq ∨ i ∈ infl) :
    ∃ o, ops[i]? = some o ∧ o.boxLive = true ∧ o.resInit = true ∧ active o := by
  have h1 := (h.inv i).i1 (by simp [projG, hr])
  have hlt := h.lt_of_active i h1.2.2
  refine ⟨ops[i], by simp, ?_⟩
  simpa [projG, hlt] using h1

theorem GInv.active_of_pending {ops sq infl pend} (h : GInv ops sq infl pend) (i : Nat)
    (hr : cqOf i pend ≠ []) :
    ∃ o, ops[i]? = some o ∧ o.boxLive = true ∧ o.resInit = true ∧ active o := by
  have h1 := (h.inv i).i2 (by simpa [projG] using hr)
  have hlt := h.lt_of_active i h1.2.2
  refine ⟨ops[i], by simp, ?_⟩
  simpa [projG, hlt] using h1

/-- Same components up to what the projection sees. -/
theorem GInv_congr {ops sq infl pend} {ops' : List Op} {sq' : List SqEntry} {infl' : List Nat}
    {pend' : List Cqe} (h : GInv ops sq infl pend)
    (ho : ∀ i : Nat, (ops'[i]?).getD dflt = (ops[i]?).getD dflt)
    (hm : ∀ i, (SqEntry.op i ∈ sq' ∨ i ∈ infl') ↔ (SqEntry.op i ∈ sq ∨ i ∈ infl))
    (hp : ∀ i, cqOf i pend' = cqOf i pend)
    (hu : ∀ i, sq'.count (.op i) + infl'.count i = sq.count (.op i) + infl.count i) :
    GInv ops' sq' infl' pend' := by
  constructor
  · intro i
    exact Inv_congr (h.inv i) (ho i) (by simp only [projG]; rw [decide_eq_decide]; exact hm i)
      (by simp [projG, hp])
  · intro i; rw [hu]; exact h.uniq i

/-- One operation makes a valid event of the single-operation system, the
others see nothing. -/
theorem GInv_event {ops sq infl pend} (h : GInv ops sq infl pend) (i : Nat) (e : Ev)
    (hv : valid (projG ops sq infl pend i) e = true)
    {ops' : List Op} {sq' : List SqEntry} {infl' : List Nat} {pend' : List Cqe}
    (hop : (ops'[i]?).getD dflt = (step (projG ops sq infl pend i) e).op)
    (hin : decide (SqEntry.op i ∈ sq' ∨ i ∈ infl') = (step (projG ops sq infl pend i) e).inflight)
    (hcq : cqOf i pend' = (step (projG ops sq infl pend i) e).cq)
    (hoth : ∀ j, j ≠ i → (ops'[j]?).getD dflt = (ops[j]?).getD dflt ∧
        ((SqEntry.op j ∈ sq' ∨ j ∈ infl') ↔ (SqEntry.op j ∈ sq ∨ j ∈ infl)) ∧
        cqOf j pend' = cqOf j pend)
    (hu : ∀ j, sq'.count (.op j) + infl'.count j ≤ 1) :
    GInv ops' sq' infl' pend' := by
  constructor
  · intro j
    by_cases hj : j = i
    · subst hj
      exact Inv_congr (inv_step _ e (h.inv j) hv) hop hin hcq
    · obtain ⟨h1, h2, h3⟩ := hoth j hj
      exact Inv_congr (h.inv j) h1 (by simp only [projG]; rw [decide_eq_decide]; exact h2)
        (by simp [projG, h3])
  · exact hu

/-! ### `new` -/

theorem GInv_new {ops sq infl pend} (h : GInv ops sq infl pend) (m : Bool) :
    GInv (ops ++ [{ multi := m }]) sq infl pend := by
  constructor
  · intro i
    rcases Nat.lt_trichotomy i ops.length with hlt | heq | hgt
    · exact Inv_congr (h.inv i) (by simp [projG, List.getElem?_append_left hlt]) rfl rfl
    · subst heq
      have hq := h.quiet ops.length (by simpa using dflt_not_active)
      exact Inv_fresh _ m (by simp [projG]) (by simp [projG, hq.1, hq.2.1]) (by simp [projG, hq.2.2])
    · have h1 : (ops ++ [({ multi := m } : Op)])[i]? = none := by
        simp; omega
      have h2 : ops[i]? = none := by simp; omega
      exact Inv_congr (h.inv i) (by simp [projG, h1, h2]) rfl rfl
  · exact h.uniq

/-! ### `poll` -/

theorem pollAux_effs (o : Op) (w : Nat) (room : Bool) (fuel : Nat) :
    (o.pollAux w room fuel).2.2 = [] ∨ (o.pollAux w room fuel).2.2 = [.submit] ∨
    (o.pollAux w room fuel).2.2 = [.blocked w] := by
  fun_induction Op.pollAux o w room fuel <;> simp_all

theorem poll_complete (o : Op) (w : Nat) (room : Bool) (hc : o.status = .complete) :
    o.poll w room = (o, .panic, []) := by
  simp [Op.poll, Op.pollAux, hc]

theorem count_op_snoc_cancel (sq : List SqEntry) (i j : Nat) :
    (sq ++ [SqEntry.cancel i]).count (.op j) = sq.count (.op j) := by
  simp [List.count_append]

theorem count_op_snoc_op (sq : List SqEntry) (i j : Nat) :
    (sq ++ [SqEntry.op i]).count (.op j) = sq.count (.op j) + (if i = j then 1 else 0) := by
  simp [List.count_append, List.count_singleton]

theorem GInv_poll {ops sq infl pend} (h : GInv ops sq infl pend) {i : Nat} {o : Op}
    (hi : ops[i]? = some o) (hf : o.futLive = true) (w : Nat) (room : Bool) :
    GInv (ops.set i (o.poll w room).1)
      (if (o.poll w room).2.2.contains .submit then sq ++ [.op i] else sq) infl pend := by
  have hlt : i < ops.length := (List.getElem?_eq_some_iff.mp hi).1
  by_cases hc : o.status = .complete
  · rw [poll_complete o w room hc]
    refine GInv_congr h ?_ (by simp) (by simp) (by simp)
    intro j
    by_cases hj : i = j
    · subst hj
      have := (List.getElem?_eq_some_iff.mp hi).2
      simp [hlt, this]
    · simp [List.getElem?_set_ne hj]
  · have hopi : (projG ops sq infl pend i).op = o := by simp [projG, hi]
    have hv : valid (projG ops sq infl pend i) (.poll w room) = true := by
      simp [valid, hopi, hf, hc]
    refine GInv_event h i (.poll w room) hv ?_ ?_ ?_ ?_ ?_
    · simp [step, hopi, hlt]
    · simp only [step, hopi]
      cases (o.poll w room).2.2.contains Eff.submit <;> simp [projG, or_comm]
    · simp [step, projG]
    · intro j hj
      refine ⟨by simp [List.getElem?_set_ne (Ne.symm hj)], ?_, rfl⟩
      cases (o.poll w room).2.2.contains Eff.submit <;> simp [hj]
    · intro j
      cases hsub : (o.poll w room).2.2.contains Eff.submit
      · simpa using h.uniq j
      · simp only [if_true, count_op_snoc_op]
        by_cases hj : i = j
        · subst hj
          obtain ⟨_, _, _, _, psub, _⟩ := pollAux_spec o w room 2 (Or.inl (Nat.le_refl 2))
          have q1 := (psub hsub).1
          have hna : ¬ active o := by
            rcases q1 with q1 | q1
            · exact notActive_of _ (by simp [q1, isRunning]) (Or.inl (by simp [q1]))
            · cases hst : o.status <;> simp_all [isDone, isRunning, active]
          have hq := h.quiet i (by simpa [hi] using hna)
          simp [List.count_eq_zero_of_not_mem hq.1, List.count_eq_zero_of_not_mem hq.2.1]
        · simpa [hj] using h.uniq j

/-! ### `drop` -/

theorem GInv_drop {ops sq infl pend} (h : GInv ops sq infl pend) {i : Nat} {o : Op}
    (hi : ops[i]? = some o) (hf : o.futLive = true) (room : Bool) :
    GInv (ops.set i (o.dropFut room).1)
      (if (o.dropFut room).2.contains .cancel then sq ++ [.cancel i] else sq) infl pend := by
  have hlt : i < ops.length := (List.getElem?_eq_some_iff.mp hi).1
  have hopi : (projG ops sq infl pend i).op = o := by simp [projG, hi]
  have hv : valid (projG ops sq infl pend i) (.dropFut room) = true := by
    simp [valid, hopi, hf]
  refine GInv_event h i (.dropFut room) hv ?_ ?_ ?_ ?_ ?_
  · simp [step, hopi, hlt]
  · simp only [step]
    cases (o.dropFut room).2.contains Eff.cancel <;> simp [projG]
  · simp [step, projG]
  · intro j hj
    refine ⟨by simp [List.getElem?_set_ne (Ne.symm hj)], ?_, rfl⟩
    cases (o.dropFut room).2.contains Eff.cancel <;> simp
  · intro j
    cases (o.dropFut room).2.contains Eff.cancel
    · simpa using h.uniq j
    · simpa [count_op_snoc_cancel] using h.uniq j

/-! ### kernel posts -/

theorem GInv_kpost {ops sq infl pend} (h : GInv ops sq infl pend) {i : Nat} (hi : i ∈ infl)
    (res : Int) (flags : Nat) (hs : fSkip flags = false) :
    GInv ops sq (if fMore flags then infl else infl.erase i) (pend ++ [⟨.op i, res, flags⟩]) := by
  have hv : valid (projG ops sq infl pend i) (.kpost ⟨res, flags⟩) = true := by
    simp [valid, projG, hi]
  have hu := h.uniq i
  have hc1 : 0 < infl.count i := List.count_pos_iff.mpr hi
  have hsq : SqEntry.op i ∉ sq := by
    intro hm
    have : 0 < sq.count (.op i) := List.count_pos_iff.mpr hm
    omega
  refine GInv_event h i (.kpost ⟨res, flags⟩) hv rfl ?_ ?_ ?_ ?_
  · simp only [step]
    cases hm : fMore flags
    · have : i ∉ infl.erase i := by
        intro hmem
        have h1 : 0 < (infl.erase i).count i := List.count_pos_iff.mpr hmem
        rw [List.count_erase_self] at h1
        omega
      simp [hsq, this]
    · simp [hi]
  · simp only [step, projG]
    exact cqOf_snoc_self i _ pend rfl hs
  · intro j hj
    refine ⟨rfl, ?_, cqOf_snoc_other j _ pend (Or.inl (by simp [Ne.symm hj]))⟩
    cases fMore flags
    · simp [List.mem_erase_of_ne hj]
    · simp
  · intro j
    cases fMore flags
    · by_cases hj : j = i
      · subst hj
        simp only [Bool.false_eq_true, if_false, List.count_erase_self]
        omega
      · simpa [List.count_erase_of_ne hj] using h.uniq j
    · simpa using h.uniq j

/-- Bookkeeping completions and `F_SKIP` entries are seen by no projection. -/
theorem GInv_post_other {ops sq infl pend} (h : GInv ops sq infl pend) (c : Cqe)
    (hc : (∃ n, c.ud = .reserved n) ∨ fSkip c.flags = true) :
    GInv ops sq infl (pend ++ [c]) := by
  refine GInv_congr h (fun _ => rfl) (fun _ => Iff.rfl) ?_ (fun _ => rfl)
  intro i
  apply cqOf_snoc_other
  rcases hc with ⟨n, hn⟩ | hc
  · left; simp [hn]
  · right; exact hc

/-! ### the kernel consumes a submission -/

theorem GInv_consume_op {ops sq infl pend} {i : Nat} (h : GInv ops (.op i :: sq) infl pend) :
    GInv ops sq (infl ++ [i]) pend := by
  refine GInv_congr h (fun _ => rfl) ?_ (fun _ => rfl) ?_
  · intro j
    by_cases hj : j = i
    · subst hj; simp
    · simp [hj]
  · intro j
    by_cases hj : i = j
    · subst hj; simp [List.count_append]; omega
    · simp [List.count_append, hj]

theorem GInv_consume_cancel {ops sq infl pend} {i : Nat} (h : GInv ops (.cancel i :: sq) infl pend) :
    GInv ops sq infl pend := by
  refine GInv_congr h (fun _ => rfl) ?_ (fun _ => rfl) ?_
  · intro j; simp
  · intro j; simp

end A10.Life

