/-
Refinement of the multi-operation system `Model/Life.lean` onto the
single-operation system `Lemmas/OpSys.lean`: in EVERY reachable state of the
multi-operation system, the projection on ANY operation satisfies the
single-operation invariant `OpSys.Inv`; the system-level forms of C01 / C02 /
C06 are corollaries.

Layout
* `Lemmas/LifeProj.lean`  — moves `Mv`, `validMv`, `stepMv`, `Reachable`, the
  projection `proj`, the list-level invariant `GInv` and one lemma per
  primitive change.
* `Lemmas/LifeMoves.lean` — `WF` and its preservation by every model function
  (`poll`, `dropOp`, `kpost`, `consumeAll`, `flushOverflow`, `wakeBlocked`,
  `process`, `drainCq`, `rpoll`, `dropLoop`, `rdrop`).
* this file — induction over the moves and the `life_…` theorems.

Moves that `stepLine` answers with `bad-op` (unknown index, dropped future,
`kpost` for an operation that is not in flight, `rpoll`/`rdrop` after the ring
was dropped) change nothing in the model functions themselves; polling a
`Complete` operation (forbidden by the `Future` contract) makes `Op.poll`
return `(o, panic, [])`, i.e. also changes nothing. The only explicit guard is
`validMv`: the kernel never posts an operation's completion with `F_SKIP`
(KC2) — without it the statement is false, see `life_inv_unguarded_fails`.
-/
import A10Verif.Lemmas.LifeMoves

namespace A10.Life
open A10 A10.OpSys

/-! ### `applyMv` is what `stepLine` does -/

theorem stepLine_new (s : Sys) (a kind opc : String) (m : Bool)
    (ha : parseNat a = some s.ops.length) (hk : kindInfo kind = some (m, opc)) :
    (stepLine s ["life", "new", a, kind]).1 =
      { s with ops := s.ops ++ [{ multi := m }], opc := s.opc ++ [opc] } := by
  simp [stepLine, ha, hk]

theorem stepLine_poll (s : Sys) (a b : String) (i w : Nat)
    (ha : parseNat a = some i) (hb : parseNat b = some w) :
    (stepLine s ["life", "poll", a, b]).1 = applyMv s (.poll i w) := by
  simp [stepLine, applyMv, ha, hb]

theorem stepLine_drop (s : Sys) (a : String) (i : Nat) (ha : parseNat a = some i) :
    (stepLine s ["life", "drop", a]).1 = applyMv s (.drop i) := by
  simp [stepLine, applyMv, ha]

theorem stepLine_kpost (s : Sys) (a b c : String) (i : Nat) (r : Int) (f : Nat)
    (ha : parseNat a = some i) (hb : parseInt b = some r) (hc : parseNat c = some f) :
    (stepLine s ["life", "kpost", a, b, c]).1 = applyMv s (.kpost i r f) := by
  simp [stepLine, applyMv, ha, hb, hc]

theorem stepLine_rpoll (s : Sys) (a : String) (ps : List (Nat × Int × Nat))
    (ha : parsePosts a = some ps) :
    (stepLine s ["life", "rpoll", a]).1 = applyMv s (.rpoll ps) := by
  simp only [stepLine, applyMv, ha]
  split <;> rfl

theorem stepLine_rdrop (s : Sys) : (stepLine s ["life", "rdrop"]).1 = applyMv s .rdrop := by
  simp only [stepLine, applyMv]
  split <;> rfl
theorem stepLine_race (s : Sys) (k a b c : String) :
    (stepLine s ["life", "race", k, a, b, c]).1 = s := by
  simp only [stepLine]
  split
  · split <;> rfl
  · rfl

/-! ### Induction over the moves -/

theorem WF_init (sqLen cqLen cqh : Nat) (h : 1 ≤ cqLen) :
    WF { sqLen := sqLen, cqLen := cqLen, cqHead := cqh } :=
  ⟨GInv_init _ (fun _ => rfl), h⟩

theorem WF_applyMv {s : Sys} (h : WF s) (m : Mv) (hv : validMv s m = true) : WF (applyMv s m) := by
  cases m with
  | new multi => exact WF_new h multi _
  | poll i w => exact WF_poll h i w
  | drop i => exact WF_dropOp h i
  | kpost i res flags =>
    exact WF_kpost h i res flags (by simpa [validMv] using hv)
  | rpoll posts =>
    simp only [applyMv]
    split
    · exact WF_rpoll h posts (by simpa [validMv] using hv)
    · exact h
  | rdrop =>
    simp only [applyMv]
    split
    · obtain ⟨⟨g, c⟩, _⟩ := rdrop_spec h
      exact ⟨g, c⟩
    · exact h

theorem WF_stepMv {s : Sys} (h : WF s) (m : Mv) : WF (stepMv s m) := by
  unfold stepMv
  split
  · exact WF_applyMv h m (by assumption)
  · exact h

theorem WF_runMv {s : Sys} (h : WF s) (ms : List Mv) : WF (runMv s ms) := by
  induction ms generalizing s with
  | nil => exact h
  | cons m ms ih => exact ih (WF_stepMv h m)

theorem reachable_WF {s : Sys} (hr : Reachable s) : WF s := by
  obtain ⟨sqLen, cqLen, cqh, ms, _, h2, rfl⟩ := hr
  exact WF_runMv (WF_init sqLen cqLen cqh h2) ms

theorem reachable_step {s : Sys} (hr : Reachable s) (m : Mv) : Reachable (stepMv s m) := by
  obtain ⟨sqLen, cqLen, cqh, ms, h1, h2, rfl⟩ := hr
  exact ⟨sqLen, cqLen, cqh, ms ++ [m], h1, h2, by simp [runMv, List.foldl_append]⟩

theorem proj_op {s : Sys} {i : Nat} {o : Op} (ho : s.ops[i]? = some o) : (proj s i).op = o := by
  simp [proj, projG, ho]

theorem proj_inflight (s : Sys) (i : Nat) :
    (proj s i).inflight = decide (SqEntry.op i ∈ s.sq ∨ i ∈ s.inflight) := rfl

theorem proj_cq (s : Sys) (i : Nat) :
    (proj s i).cq = ((s.cq ++ s.overflow).filter (fun c => c.ud = .op i ∧ ¬ fSkip c.flags)).map
      (fun c => ⟨c.res, c.flags⟩) := rfl

/-! ### 1. The lifted invariant -/

/-- In every reachable state of the multi-operation system the projection on
any index satisfies the single-operation invariant (indices beyond `ops`
project to a fresh, quiet operation). -/
theorem life_inv_all {s : Sys} (hr : Reachable s) (i : Nat) : Inv (proj s i) :=
  (reachable_WF hr).ginv.inv i

/-- **The single-operation invariant holds for every operation of every
reachable state of the multi-operation system.** -/
theorem life_inv {s : Sys} (hr : Reachable s) (i : Nat) (o : Op) (_ho : s.ops[i]? = some o) :
    Inv (proj s i) :=
  life_inv_all hr i

/-- Side invariants of the multi-operation system used by the induction (all
are consequences of `WF`): an index is referenced at most once by `sq` (as
`.op i`) and `inflight` together; every referenced index — by a published or
consumed submission or by a pending completion — names an existing operation. -/
theorem life_side_invariants {s : Sys} (hr : Reachable s) :
    (∀ i, s.sq.count (.op i) + s.inflight.count i ≤ 1) ∧
    (∀ i, SqEntry.op i ∈ s.sq ∨ i ∈ s.inflight → i < s.ops.length) ∧
    (∀ c ∈ s.cq ++ s.overflow, ∀ i, c.ud = .op i → fSkip c.flags = false → i < s.ops.length) ∧
    1 ≤ s.cqLen := by
  have hw := reachable_WF hr
  refine ⟨hw.ginv.uniq, ?_, ?_, hw.cqLen⟩
  · intro i hi
    obtain ⟨o, ho, _⟩ := hw.ginv.active_of_ref i hi
    exact (List.getElem?_eq_some_iff.mp ho).1
  · intro c hc i hu hs
    obtain ⟨o, ho, _⟩ := hw.ginv.active_of_pending i (cqOf_ne_nil_of_mem i _ c hc hu hs)
    exact (List.getElem?_eq_some_iff.mp ho).1

/-! ### 2. Corollaries: system-level C01 / C02 / C06 -/

/-- **C01 at system level.** While a submission of operation `i` is published
or consumed and its final completion has not been posted, the operation's box
is allocated, its resources are initialised and have never been released or
handed out, the operation is `Running` or `Dropped`, and the builder setters
cannot reach the state. -/
theorem life_kernel_memory {s : Sys} (hr : Reachable s) (i : Nat) (o : Op)
    (ho : s.ops[i]? = some o) (href : SqEntry.op i ∈ s.sq ∨ i ∈ s.inflight) :
    o.boxLive = true ∧ o.resInit = true ∧ o.resDrops = 0 ∧
    (isRunning o.status = true ∨ o.status = .dropped) ∧ o.builderAccess = false := by
  have hw := reachable_WF hr
  obtain ⟨o', ho', h1, h2, h3⟩ := hw.ginv.active_of_ref i href
  have : o' = o := by rw [ho] at ho'; exact (Option.some.inj ho').symm
  subst this
  have hinv := life_inv hr i o' ho
  have h8 := hinv.i8.2.1 (by rw [proj_op ho]; exact h2)
  rw [proj_op ho] at h8
  refine ⟨h1, h2, h8, ?_, ?_⟩
  · rcases h3 with h3 | ⟨h3, _⟩
    · exact Or.inl h3
    · exact Or.inr h3
  · rcases h3 with h3 | ⟨h3, _⟩
    · cases hst : o'.status <;> simp_all [isRunning, Op.builderAccess]
    · simp [Op.builderAccess, h3]

/-- **No dereference of a freed box.** Every completion of the completion queue
or the overflow list that will be dispatched to an operation names an existing
operation whose box is still allocated. -/
theorem life_no_deref_after_free {s : Sys} (hr : Reachable s) (c : Cqe)
    (hc : c ∈ s.cq ++ s.overflow) (i : Nat) (hu : c.ud = .op i) (hs : fSkip c.flags = false) :
    i < s.ops.length ∧ ∃ o, s.ops[i]? = some o ∧ o.boxLive = true ∧
      (isRunning o.status = true ∨ o.status = .dropped) := by
  have hw := reachable_WF hr
  obtain ⟨o, ho, h1, _, h3⟩ := hw.ginv.active_of_pending i (cqOf_ne_nil_of_mem i _ c hc hu hs)
  refine ⟨(List.getElem?_eq_some_iff.mp ho).1, o, ho, h1, ?_⟩
  rcases h3 with h3 | ⟨h3, _⟩
  · exact Or.inl h3
  · exact Or.inr h3

/-- **`Completion::process` never reaches `unreachable!()`**: processing the
whole completion queue of a reachable state never sets the `panicked` flag. -/
theorem life_no_panic {s : Sys} (hr : Reachable s) (a : Acc) :
    (s.drainCq a).2.panicked = a.panicked :=
  (drainCq_spec (reachable_WF hr) a).2.2.2.2.2

/-- The state `Ring::poll` processes completions in when it enters the kernel. -/
def rpollMid (s : Sys) (posts : List (Nat × Int × Nat)) : Sys :=
  (posts.foldl (fun (s : Sys) p => (s.kpost p.1 p.2.1 p.2.2).1) s.consumeAll).flushOverflow.wakeBlocked.1

/-- … also for the completions posted during the `io_uring_enter` call of `Ring::poll` … -/
theorem life_no_panic_rpoll {s : Sys} (hr : Reachable s) (posts : List (Nat × Int × Nat))
    (hp : validMv s (.rpoll posts) = true) (a : Acc) :
    ((rpollMid s posts).drainCq a).2.panicked = a.panicked :=
  (drainCq_spec (WF_wake (WF_flush (WF_kposts (WF_consumeAll (reachable_WF hr)).1 posts
    (by simpa [validMv] using hp)))) a).2.2.2.2.2

/-- … and for the final loop of the `Ring` drop, with any number of passes. -/
theorem life_no_panic_rdrop {s : Sys} (hr : Reachable s) (a : Acc) (fuel : Nat) :
    ((rdropMid s).dropLoop a fuel).2.panicked = a.panicked :=
  (dropLoop_spec fuel (rdropMid s) a (rdropMid_spec (reachable_WF hr)).1).2.2.2.1

/-- **C06: never freed twice, resources never released twice.** -/
theorem life_free_le_one {s : Sys} (hr : Reachable s) (i : Nat) (o : Op) (ho : s.ops[i]? = some o) :
    o.frees ≤ 1 ∧ o.resDrops ≤ 1 := by
  have h := life_inv hr i o ho
  have h4 := h.i4.1
  have h8 := h.i8.1
  rw [proj_op ho] at h4 h8
  exact ⟨h4, h8⟩

/-- **C06: continued polling reclaims.** A dropped future whose submission is
neither published nor in flight and which has no completion pending has had
its state freed exactly once and its resources released exactly once. -/
theorem life_poll_reclaims {s : Sys} (hr : Reachable s) (i : Nat) (o : Op) (ho : s.ops[i]? = some o)
    (hf : o.futLive = false) (hsq : SqEntry.op i ∉ s.sq) (hin : i ∉ s.inflight)
    (hcq : ∀ c ∈ s.cq ++ s.overflow, c.ud = .op i → fSkip c.flags = true) :
    o.boxLive = false ∧ o.frees = 1 ∧ o.resInit = false ∧ o.resDrops = 1 := by
  have h := life_inv hr i o ho
  have := Inv_reclaimed h (by rw [proj_op ho]; exact hf) (by simp [proj_inflight, hsq, hin])
    (by
      rw [proj_cq]
      simp only [List.map_eq_nil_iff, List.filter_eq_nil_iff]
      intro c hc
      simp only [decide_eq_true_eq, not_and, Bool.not_eq_true]
      intro hu
      simpa using hcq c hc hu)
  rw [proj_op ho] at this
  exact this

/-- **C06: dropping the Ring reclaims.** After `rdrop` nothing is queued, in
flight or pending, and every operation whose future has been dropped has had
its state freed exactly once and its resources released exactly once —
whatever was queued, in flight, abandoned or finished before, and however many
completions exceed the completion-queue size (the loop's fuel
`overflow.length + cq.length + 2` always suffices, `dropLoop_spec`). -/
theorem life_ring_drop_reclaims {s : Sys} (hr : Reachable s) (hl : s.ringLive = true) :
    (stepMv s .rdrop).cq = [] ∧ (stepMv s .rdrop).overflow = [] ∧
    (stepMv s .rdrop).inflight = [] ∧ (stepMv s .rdrop).sq = [] ∧
    (stepMv s .rdrop).ringLive = false ∧
    ∀ (i : Nat) (o : Op), (stepMv s .rdrop).ops[i]? = some o → o.futLive = false →
      o.boxLive = false ∧ o.frees = 1 ∧ o.resInit = false ∧ o.resDrops = 1 := by
  have hr' := reachable_step hr .rdrop
  have hst : stepMv s .rdrop = { (s.rdrop).1 with ringLive := false } := by
    simp [stepMv, validMv, applyMv, hl]
  obtain ⟨_, r2, r3, r4, r5⟩ := rdrop_spec (reachable_WF hr)
  have e1 : (stepMv s .rdrop).cq = [] := by rw [hst]; exact r4
  have e2 : (stepMv s .rdrop).overflow = [] := by rw [hst]; exact r5
  have e3 : (stepMv s .rdrop).inflight = [] := by rw [hst]; exact r3
  have e4 : (stepMv s .rdrop).sq = [] := by rw [hst]; exact r2
  refine ⟨e1, e2, e3, e4, by rw [hst], ?_⟩
  intro i o ho hf
  exact life_poll_reclaims hr' i o ho hf (by simp [e4]) (by simp [e3]) (by simp [e1, e2])

/-! ### The guard is necessary -/

/-- The statement without the kernel-contract guard `validMv`. -/
def life_inv_unguarded : Prop :=
  ∀ (ms : List Mv) (i : Nat), Inv (proj (ms.foldl applyMv { sqLen := 1, cqLen := 2 }) i)

/-- A final completion carrying `F_SKIP` (flags = 32) for a running operation:
the kernel forgets the submission, `Completion::process` ignores the entry,
the operation stays `Running` forever with nothing in flight and nothing
pending — outside the invariant (and a leak if the future is dropped). This
is a violation of KC2 by the environment, not a behaviour of the code. -/
theorem life_inv_unguarded_fails : ¬ life_inv_unguarded := by
  intro h
  have h3 := (h [.new false, .poll 0 1, .rpoll [], .kpost 0 0 32] 0).i3 (Or.inl (by decide))
  revert h3
  decide

/-! ### 3. Non-vacuity -/

/-- Two operations: a zero-copy send (op 0) abandoned after its first
completion, notification still outstanding; a multishot read (op 1) with two
queued results. -/
def exMoves : List Mv :=
  [.new false, .new true, .poll 0 1, .poll 1 2, .rpoll [],
   .kpost 0 5 2, .kpost 1 7 2, .kpost 1 8 2, .drop 0, .rpoll []]

def exState : Sys := runMv { sqLen := 4, cqLen := 4, cqHead := 0 } exMoves

theorem exState_reachable : Reachable exState :=
  ⟨4, 4, 0, exMoves, by decide, by decide, rfl⟩

/-- The hypotheses of `life_kernel_memory` hold for the abandoned send: it is
still in flight (the kernel will post the notification), its future is gone,
its box is not. The multishot operation holds its two results. -/
example :
    exState.ops.length = 2 ∧ 0 ∈ exState.inflight ∧ 1 ∈ exState.inflight ∧
    (exState.ops[0]?).map (fun o => (o.status, o.futLive, o.boxLive, o.frees)) =
      some (.dropped, false, true, 0) ∧
    (exState.ops[1]?).map (fun o => o.status) = some (.running (.multi [⟨7, 2⟩, ⟨8, 2⟩])) ∧
    exState.sq = [.cancel 0] ∧ exState.cq = [] := by decide

/-- The notification (`F_NOTIF`, no `F_MORE`) arrives and is processed: the
abandoned send is reclaimed exactly once, as `life_poll_reclaims` says. -/
example :
    let s := runMv exState [.kpost 0 0 8, .rpoll []]
    (s.ops[0]?).map (fun o => (o.futLive, o.boxLive, o.frees, o.resInit, o.resDrops)) =
      some (false, false, 1, false, 1) ∧
    SqEntry.op 0 ∉ s.sq ∧ 0 ∉ s.inflight ∧ s.cq ++ s.overflow = [] := by decide

/-- A pending completion of the abandoned operation (hypotheses of
`life_no_deref_after_free`). -/
example :
    let s := runMv exState [.kpost 0 0 8]
    (⟨.op 0, 0, 8⟩ : Cqe) ∈ s.cq ++ s.overflow ∧ (s.ops[0]?).map (fun o => o.boxLive) = some true := by
  decide

/-- `rdrop` with more in-flight operations than completion-queue entries:
`cqLen = 2`, three abandoned reads. All three are freed exactly once; one
`-ECANCELED` completion went through the overflow list. -/
def exDropMoves : List Mv :=
  [.new false, .new false, .new false, .poll 0 1, .poll 1 2, .poll 2 3, .rpoll [],
   .drop 0, .drop 1, .drop 2]

example :
    let s := runMv { sqLen := 4, cqLen := 2, cqHead := 0 } exDropMoves
    s.ringLive = true ∧ s.inflight = [0, 1, 2] ∧ s.sq = [.cancel 0, .cancel 1, .cancel 2] ∧
    s.ops.map (fun o => (o.status, o.boxLive, o.frees)) =
      [(.dropped, true, 0), (.dropped, true, 0), (.dropped, true, 0)] ∧
    (rdropMid s).cq.length = 2 ∧ (rdropMid s).overflow.length = 1 ∧
    (stepMv s .rdrop).ops.map (fun o => (o.futLive, o.boxLive, o.frees, o.resInit, o.resDrops)) =
      [(false, false, 1, false, 1), (false, false, 1, false, 1), (false, false, 1, false, 1)] ∧
    (stepMv s .rdrop).cq = [] ∧ (stepMv s .rdrop).overflow = [] ∧
    (stepMv s .rdrop).inflight = [] ∧ (stepMv s .rdrop).sq = [] := by decide

end A10.Life
