/-
Helper lemmas for C10 (`Props/C10.lean`): byte positions named by iovecs, the
skip / limit / set_init arithmetic of `Model/Composite.lean`.
-/
import A10Verif.Model.Composite

namespace A10.Composite

/-- A byte position: (buffer index, offset inside the buffer). -/
abbrev Pos := Nat × Nat

/-- Positions `s, s+1, …, s+l-1` of buffer `i`. -/
def rangePos (i s l : Nat) : List Pos := (List.range' s l).map (fun p => (i, p))

/-- The byte positions named by a list of iovecs, in the order the kernel
transfers them; iovec `j` refers to buffer `i + j`. -/
def iovPos : Nat → List Iov → List Pos
  | _, [] => []
  | i, (s, l) :: rest => rangePos i s l ++ iovPos (i + 1) rest

@[simp] theorem rangePos_length (i s l : Nat) : (rangePos i s l).length = l := by
  simp [rangePos]

@[simp] theorem rangePos_zero (i s : Nat) : rangePos i s 0 = [] := by
  simp [rangePos]

theorem rangePos_drop (i s l k : Nat) : (rangePos i s l).drop k = rangePos i (s + k) (l - k) := by
  simp [rangePos, ← List.map_drop, List.drop_range']

theorem rangePos_append (i s m n : Nat) :
    rangePos i s m ++ rangePos i (s + m) n = rangePos i s (m + n) := by
  simp only [rangePos, ← List.map_append]
  congr 1
  have := @List.range'_append s m n 1
  rw [Nat.one_mul] at this
  exact this

theorem rangePos_take (i s l k : Nat) (h : k ≤ l) : (rangePos i s l).take k = rangePos i s k := by
  have hl : l = k + (l - k) := by omega
  rw [hl, ← rangePos_append, List.take_append_of_le_length (by simp)]
  exact List.take_of_length_le (by simp)

@[simp] theorem iovPos_length (i : Nat) (iov : List Iov) : (iovPos i iov).length = iovTotal iov := by
  induction iov generalizing i with
  | nil => simp [iovPos, iovTotal]
  | cons x xs ih =>
    obtain ⟨s, l⟩ := x
    simp [iovPos, iovTotal, ih]


/-! ### The skip loop of the vectored writers -/

theorem skipIov_zero (base : List Iov) : skipIov base 0 = base := by
  induction base with
  | nil => rfl
  | cons x xs ih =>
    obtain ⟨s, l⟩ := x
    by_cases h : l ≤ 0
    · have : l = 0 := by omega
      subst this
      simp [skipIov, ih]
    · simp [skipIov, h]

theorem iovPos_skipIov (i : Nat) (base : List Iov) (skip : Nat) :
    iovPos i (skipIov base skip) = (iovPos i base).drop skip := by
  induction base generalizing i skip with
  | nil => simp [skipIov, iovPos]
  | cons x xs ih =>
    obtain ⟨s, l⟩ := x
    by_cases h : l ≤ skip
    · simp only [skipIov, h, ↓reduceIte, iovPos, rangePos_zero, List.nil_append, ih]
      have e : (rangePos i s l).drop skip = [] := List.drop_of_length_le (by simpa using h)
      rw [List.drop_append, e]
      simp
    · have h' : skip ≤ l := by omega
      simp only [skipIov, h, ↓reduceIte, iovPos]
      rw [List.drop_append_of_le_length (by simpa using h'), rangePos_drop]

theorem iovTotal_skipIov (base : List Iov) (skip : Nat) :
    iovTotal (skipIov base skip) = iovTotal base - skip := by
  have := congrArg List.length (iovPos_skipIov 0 base skip)
  simpa using this

theorem allEmpty_iff (iov : List Iov) : allEmpty iov = true ↔ iovTotal iov = 0 := by
  induction iov with
  | nil => simp [allEmpty, iovTotal]
  | cons x xs ih =>
    obtain ⟨s, l⟩ := x
    simp [allEmpty, iovTotal, ih]

/-! ### `LimitedBuf` around a slice of buffers -/

theorem iovPos_limitIov (i : Nat) (iov : List Iov) (limit : Nat) :
    iovPos i (limitIov iov limit) = (iovPos i iov).take limit := by
  induction iov generalizing i limit with
  | nil => simp [limitIov, iovPos]
  | cons x xs ih =>
    obtain ⟨s, l⟩ := x
    by_cases h : l ≤ limit
    · simp only [limitIov, h, ↓reduceIte, iovPos, ih]
      have e : (rangePos i s l).take limit = rangePos i s l :=
        List.take_of_length_le (by simpa using h)
      rw [List.take_append, e]
      simp
    · have h' : limit ≤ l := by omega
      simp only [limitIov, h, ↓reduceIte, iovPos, ih]
      rw [List.take_append_of_le_length (by simpa using h'), rangePos_take _ _ _ _ h']
      simp

theorem iovTotal_limitIov (iov : List Iov) (limit : Nat) :
    iovTotal (limitIov iov limit) = min (iovTotal iov) limit := by
  have := congrArg List.length (iovPos_limitIov 0 iov limit)
  simp at this
  omega


/-! ### Single reading buffers -/

theorem RBuf.partsMut_fst (b : RBuf) : (b.partsMut).1 = b.initLen := by
  induction b with
  | vec len cap => rfl
  | pool owned size => cases owned <;> rfl
  | lim b limit ih => simpa [RBuf.partsMut, RBuf.initLen] using ih

theorem RBuf.spare_eq (b : RBuf) : b.spare = (b.partsMut).2 := by
  induction b with
  | vec len cap => rfl
  | pool owned size => cases owned <;> rfl
  | lim b limit ih => simp [RBuf.partsMut, RBuf.spare, ih]

theorem RBuf.partsMut_setInit (b : RBuf) (n : Nat) (h : n ≤ (b.partsMut).2) :
    (b.setInit n).partsMut = ((b.partsMut).1 + n, (b.partsMut).2 - n) := by
  induction b generalizing n with
  | vec len cap => simp [RBuf.partsMut, RBuf.setInit]; omega
  | pool owned size =>
    cases owned with
    | none =>
      simp [RBuf.partsMut] at h
      simp [RBuf.partsMut, RBuf.setInit, h]
    | some l => simp [RBuf.partsMut, RBuf.setInit]; omega
  | lim b limit ih =>
    simp only [RBuf.partsMut] at h
    have hb : n ≤ (b.partsMut).2 := by omega
    simp only [RBuf.partsMut, RBuf.setInit, ih n hb]
    congr 1
    omega

theorem RBuf.initLen_setInit (b : RBuf) (n : Nat) (h : n ≤ (b.partsMut).2) :
    (b.setInit n).initLen = b.initLen + n := by
  rw [← RBuf.partsMut_fst, RBuf.partsMut_setInit b n h, RBuf.partsMut_fst]

theorem RBuf.setInit_zero (b : RBuf) : b.setInit 0 = b := by
  induction b with
  | vec len cap => rfl
  | pool owned size => cases owned <;> rfl
  | lim b limit ih => simp [RBuf.setInit, ih]

theorem RBuf.setInit_setInit (b : RBuf) (n m : Nat) : (b.setInit n).setInit m = b.setInit (n + m) := by
  induction b generalizing n m with
  | vec len cap => simp [RBuf.setInit, Nat.add_assoc]
  | pool owned size => cases owned <;> simp [RBuf.setInit, Nat.add_assoc]
  | lim b limit ih => simp [RBuf.setInit, ih, Nat.sub_sub]

/-- The iovecs of the request a single-buffer read submits for `b`
(`rReq`): the selected pool buffer, or the spare capacity. -/
def RBuf.reqIov (b : RBuf) : List Iov :=
  match b.selSize with
  | some size => [(0, size)]
  | none => [b.partsMut]

theorem rReq_iov (c : RCfg) (b : RBuf) (off : Nat) : (rReq c b off).iov = b.reqIov := by
  unfold rReq RBuf.reqIov
  cases b.selSize <;> rfl

theorem rReq_cfg (c : RCfg) (b : RBuf) (off : Nat) :
    (rReq c b off).op = c.op ∧ (rReq c b off).flags = c.flags ∧ (rReq c b off).off = off := by
  unfold rReq
  cases b.selSize <;> simp

/-- Bytes the kernel can still deliver into `b`. -/
def RBuf.avail (b : RBuf) : Nat := iovTotal b.reqIov

theorem RBuf.selSize_eq_some {b : RBuf} {size : Nat} (h : b.selSize = some size) :
    b = .pool none size := by
  cases b with
  | vec len cap => simp [RBuf.selSize] at h
  | pool owned sz =>
    cases owned with
    | none => simp [RBuf.selSize] at h; simp [h]
    | some l => simp [RBuf.selSize] at h
  | lim b limit => simp [RBuf.selSize] at h

theorem RBuf.selSize_setInit_of_none {b : RBuf} (h : b.selSize = none) (n : Nat) :
    (b.setInit n).selSize = none := by
  cases b with
  | vec len cap => rfl
  | pool owned sz =>
    cases owned with
    | none => simp [RBuf.selSize] at h
    | some l => rfl
  | lim b limit => rfl

theorem RBuf.iovPos_reqIov (b : RBuf) : iovPos 0 b.reqIov = rangePos 0 b.initLen b.avail := by
  unfold RBuf.avail RBuf.reqIov
  cases h : b.selSize with
  | some size =>
    have := RBuf.selSize_eq_some h
    subst this
    simp [iovPos, iovTotal, RBuf.initLen]
  | none =>
    simp only [iovPos, iovTotal, List.append_nil, Nat.add_zero]
    rw [← RBuf.partsMut_fst]

theorem RBuf.reqIov_afterRead (b : RBuf) (n : Nat) (h : n ≤ b.avail) :
    (b.afterRead n).initLen = b.initLen + n ∧ (b.afterRead n).avail = b.avail - n := by
  unfold RBuf.avail RBuf.reqIov RBuf.afterRead at *
  cases hs : b.selSize with
  | some size =>
    have := RBuf.selSize_eq_some hs
    subst this
    simp [RBuf.bufferInit, RBuf.selSize, RBuf.initLen, iovTotal, RBuf.partsMut]
  | none =>
    simp only [hs, iovTotal, Nat.add_zero] at h
    simp only [RBuf.selSize_setInit_of_none hs, iovTotal, Nat.add_zero]
    rw [RBuf.initLen_setInit b n h, RBuf.partsMut_setInit b n h]
    simp


/-! ### Slices of reading buffers -/

/-- The positions by which the buffers `bs'` are longer than `bs`, buffer by
buffer (buffer `j` has index `i + j`). -/
def grown : Nat → List RBuf → List RBuf → List Pos
  | i, b :: bs, b' :: bs' => rangePos i b.initLen (b'.initLen - b.initLen) ++ grown (i + 1) bs bs'
  | _, _, _ => []

theorem grown_self (i : Nat) (bs : List RBuf) : grown i bs bs = [] := by
  induction bs generalizing i with
  | nil => rfl
  | cons b bs ih => simp [grown, ih]

theorem setInitArr_some (es : List RBuf) (n : Nat) (hne : es ≠ [])
    (h : n ≤ iovTotal (es.map RBuf.partsMut)) : ∃ es', setInitArr es n = some es' := by
  induction es generalizing n with
  | nil => exact absurd rfl hne
  | cons b bs ih =>
    simp only [List.map_cons, iovTotal] at h
    by_cases hlt : (b.partsMut).2 < n
    · by_cases hb : bs = []
      · subst hb
        simp [iovTotal] at h
        omega
      · obtain ⟨r, hr⟩ := ih (n - (b.partsMut).2) hb (by omega)
        refine ⟨b.setInit (b.partsMut).2 :: r, ?_⟩
        simp only [setInitArr, hlt, ↓reduceIte, hr, Option.map_some]
    · refine ⟨b.setInit n :: bs, ?_⟩
      simp only [setInitArr, hlt, ↓reduceIte]

theorem iovPos_setInitArr (i : Nat) (es es' : List RBuf) (n : Nat)
    (h : setInitArr es n = some es') :
    iovPos i (es'.map RBuf.partsMut) = (iovPos i (es.map RBuf.partsMut)).drop n ∧
    grown i es es' = (iovPos i (es.map RBuf.partsMut)).take n := by
  induction es generalizing i n es' with
  | nil => simp [setInitArr] at h
  | cons b bs ih =>
    by_cases hlt : (b.partsMut).2 < n
    · simp only [setInitArr, hlt, ↓reduceIte, Option.map_eq_some_iff] at h
      obtain ⟨r, hr, rfl⟩ := h
      obtain ⟨ih1, ih2⟩ := ih (i + 1) r (n - (b.partsMut).2) hr
      have hp := RBuf.partsMut_setInit b (b.partsMut).2 (Nat.le_refl _)
      have hi := RBuf.initLen_setInit b (b.partsMut).2 (Nat.le_refl _)
      have hd : (rangePos i (b.partsMut).1 (b.partsMut).2).drop n = [] :=
        List.drop_of_length_le (by simp; omega)
      have ht : (rangePos i (b.partsMut).1 (b.partsMut).2).take n
          = rangePos i (b.partsMut).1 (b.partsMut).2 :=
        List.take_of_length_le (by simp; omega)
      constructor
      · simp only [List.map_cons, iovPos, hp, Nat.sub_self, rangePos_zero, List.nil_append, ih1]
        rw [List.drop_append, hd]
        simp
      · simp only [grown, List.map_cons, iovPos, hi, ih2]
        rw [List.take_append, ht, RBuf.partsMut_fst]
        simp
    · simp only [setInitArr, hlt, ↓reduceIte, Option.some.injEq] at h
      subst h
      have hle : n ≤ (b.partsMut).2 := by omega
      have hp := RBuf.partsMut_setInit b n hle
      have hi := RBuf.initLen_setInit b n hle
      constructor
      · simp only [List.map_cons, iovPos, hp]
        rw [List.drop_append_of_le_length (by simpa using hle), rangePos_drop]
      · simp only [grown, List.map_cons, iovPos, hi, grown_self, List.append_nil]
        rw [List.take_append_of_le_length (by simpa using hle), rangePos_take _ _ _ _ hle,
          RBuf.partsMut_fst]
        simp

theorem setInitArr_comp (es es1 es2 : List RBuf) (n m : Nat)
    (h1 : setInitArr es n = some es1) (h2 : setInitArr es1 m = some es2) :
    setInitArr es (n + m) = some es2 := by
  induction es generalizing n m es1 es2 with
  | nil => simp [setInitArr] at h1
  | cons b bs ih =>
    by_cases hlt : (b.partsMut).2 < n
    · simp only [setInitArr, hlt, ↓reduceIte, Option.map_eq_some_iff] at h1
      obtain ⟨r1, hr1, rfl⟩ := h1
      have hp := RBuf.partsMut_setInit b (b.partsMut).2 (Nat.le_refl _)
      have hlt' : (b.partsMut).2 < n + m := by omega
      by_cases hm : 0 < m
      · simp only [setInitArr, hp, Nat.sub_self, hm, ↓reduceIte, Nat.sub_zero,
          Option.map_eq_some_iff] at h2
        obtain ⟨r2, hr2, rfl⟩ := h2
        have := ih r1 r2 (n - (b.partsMut).2) m hr1 hr2
        have e : n + m - (b.partsMut).2 = n - (b.partsMut).2 + m := by omega
        simp [setInitArr, hlt', e, this, RBuf.setInit_zero]
      · have hm0 : m = 0 := by omega
        subst hm0
        simp only [setInitArr, hp, Nat.sub_self, Nat.lt_irrefl, ↓reduceIte, Option.some.injEq] at h2
        subst h2
        simp [setInitArr, hlt, hr1, RBuf.setInit_zero]
    · simp only [setInitArr, hlt, ↓reduceIte, Option.some.injEq] at h1
      subst h1
      have hle : n ≤ (b.partsMut).2 := by omega
      have hp := RBuf.partsMut_setInit b n hle
      by_cases hlt2 : (b.partsMut).2 - n < m
      · simp only [setInitArr, hp, hlt2, ↓reduceIte, Option.map_eq_some_iff] at h2
        obtain ⟨r2, hr2, rfl⟩ := h2
        have hlt' : (b.partsMut).2 < n + m := by omega
        have e : n + m - (b.partsMut).2 = m - ((b.partsMut).2 - n) := by omega
        have e2 : n + ((b.partsMut).2 - n) = (b.partsMut).2 := by omega
        simp [setInitArr, hlt', e, hr2, RBuf.setInit_setInit, e2]
      · simp only [setInitArr, hp, hlt2, ↓reduceIte, Option.some.injEq] at h2
        subst h2
        have hlt' : ¬ (b.partsMut).2 < n + m := by omega
        simp [setInitArr, hlt', RBuf.setInit_setInit]


theorem setInitArr_length (es es' : List RBuf) (n : Nat) (h : setInitArr es n = some es') :
    es'.length = es.length := by
  induction es generalizing n es' with
  | nil => simp [setInitArr] at h
  | cons b bs ih =>
    by_cases hlt : (b.partsMut).2 < n
    · simp only [setInitArr, hlt, ↓reduceIte, Option.map_eq_some_iff] at h
      obtain ⟨r, hr, rfl⟩ := h
      simp [ih r _ hr]
    · simp only [setInitArr, hlt, ↓reduceIte, Option.some.injEq] at h
      subst h
      simp

theorem RBufs.setInit_some (b : RBufs) (n : Nat) (hne : b.elems ≠ [])
    (h : n ≤ iovTotal b.iovecs) : ∃ b', b.setInit n = some b' := by
  induction b generalizing n with
  | arr es =>
    obtain ⟨es', h'⟩ := setInitArr_some es n hne h
    exact ⟨.arr es', by simp [RBufs.setInit, h']⟩
  | lim inner l ih =>
    simp only [RBufs.iovecs, iovTotal_limitIov] at h
    obtain ⟨i', h'⟩ := ih n hne (by omega)
    exact ⟨.lim i' (l - n), by simp [RBufs.setInit, h']⟩

theorem RBufs.elems_length_setInit (b b' : RBufs) (n : Nat) (h : b.setInit n = some b') :
    b'.elems.length = b.elems.length := by
  induction b generalizing n b' with
  | arr es =>
    simp only [RBufs.setInit, Option.map_eq_some_iff] at h
    obtain ⟨es', h', rfl⟩ := h
    exact setInitArr_length es es' n h'
  | lim inner l ih =>
    simp only [RBufs.setInit, Option.map_eq_some_iff] at h
    obtain ⟨i', h', rfl⟩ := h
    exact ih i' n h'

theorem RBufs.setInit_spec (b b' : RBufs) (n : Nat) (h : b.setInit n = some b')
    (hn : n ≤ iovTotal b.iovecs) :
    iovPos 0 b'.iovecs = (iovPos 0 b.iovecs).drop n ∧
    grown 0 b.elems b'.elems = (iovPos 0 b.iovecs).take n := by
  induction b generalizing n b' with
  | arr es =>
    simp only [RBufs.setInit, Option.map_eq_some_iff] at h
    obtain ⟨es', h', rfl⟩ := h
    exact iovPos_setInitArr 0 es es' n h'
  | lim inner l ih =>
    simp only [RBufs.setInit, Option.map_eq_some_iff] at h
    obtain ⟨i', h', rfl⟩ := h
    simp only [RBufs.iovecs, iovTotal_limitIov] at hn
    obtain ⟨ih1, ih2⟩ := ih i' n h' (by omega)
    constructor
    · simp only [RBufs.iovecs, iovPos_limitIov, ih1, List.drop_take]
    · simp only [RBufs.elems, RBufs.iovecs, iovPos_limitIov, ih2, List.take_take]
      congr 1
      omega

theorem RBufs.setInit_comp (b b1 b2 : RBufs) (n m : Nat)
    (h1 : b.setInit n = some b1) (h2 : b1.setInit m = some b2) :
    b.setInit (n + m) = some b2 := by
  induction b generalizing n m b1 b2 with
  | arr es =>
    simp only [RBufs.setInit, Option.map_eq_some_iff] at h1
    obtain ⟨es1, h1', rfl⟩ := h1
    simp only [RBufs.setInit, Option.map_eq_some_iff] at h2
    obtain ⟨es2, h2', rfl⟩ := h2
    simp [RBufs.setInit, setInitArr_comp es es1 es2 n m h1' h2']
  | lim inner l ih =>
    simp only [RBufs.setInit, Option.map_eq_some_iff] at h1
    obtain ⟨i1, h1', rfl⟩ := h1
    simp only [RBufs.setInit, Option.map_eq_some_iff] at h2
    obtain ⟨i2, h2', rfl⟩ := h2
    simp [RBufs.setInit, ih i1 i2 n m h1' h2', Nat.sub_sub]

theorem RBufs.setInit_zero_total (b b' : RBufs) (h : b.setInit 0 = some b') :
    iovTotal b'.iovecs = iovTotal b.iovecs := by
  have := (RBufs.setInit_spec b b' 0 h (Nat.zero_le _)).1
  have := congrArg List.length this
  simpa using this


theorem setInitArr_zero (es : List RBuf) (hne : es ≠ []) : setInitArr es 0 = some es := by
  cases es with
  | nil => exact absurd rfl hne
  | cons b bs => simp [setInitArr, RBuf.setInit_zero]

theorem RBufs.setInit_zero (b : RBufs) (hne : b.elems ≠ []) : b.setInit 0 = some b := by
  induction b with
  | arr es => simp [RBufs.setInit, setInitArr_zero es hne]
  | lim inner l ih => simp [RBufs.setInit, ih hne]

theorem RBufs.total_setInit (b b' : RBufs) (n : Nat) (h : b.setInit n = some b')
    (hn : n ≤ iovTotal b.iovecs) : iovTotal b'.iovecs = iovTotal b.iovecs - n := by
  have := congrArg List.length (RBufs.setInit_spec b b' n h hn).1
  simpa using this

end A10.Composite
