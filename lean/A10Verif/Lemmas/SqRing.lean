/-
Lemmas for the submission-queue model (`Model/SqRing.lean`): 32-bit wrap
arithmetic, residues of a window of consecutive indices, and the inductive
invariant `Inv` with its preservation by every kind of step.
-/
import A10Verif.Model.SqRing

namespace A10.SqRing

open A10

/-! ### Arithmetic -/

/-- Well-formed ring size: a power of two `2^k`, `k ≤ 31` (a divisor of `2^32`
other than `2^32` itself). Decidable. -/
def WfLen (len : Nat) : Prop := len ∣ 4294967296 ∧ len < 4294967296

instance (len : Nat) : Decidable (WfLen len) := by unfold WfLen; exact inferInstance

theorem WfLen.pos {len : Nat} (h : WfLen len) : 0 < len := by
  rcases h with ⟨⟨c, hc⟩, _⟩
  rcases Nat.eq_zero_or_pos len with h0 | h0
  · subst h0; omega
  · exact h0

theorem wfLen_two_pow (k : Nat) (hk : k ≤ 31) : WfLen (2 ^ k) := by
  refine ⟨?_, ?_⟩
  · exact (Nat.pow_dvd_pow_iff_le_right (by omega : 1 < 2)).2 (by omega : k ≤ 32)
  · exact Nat.pow_lt_pow_right (by omega : 1 < 2) (by omega : k < 32)

/-- The slot index computed from the 32-bit word equals the one of the absolute counter. -/
theorem mod32_mod_len {len : Nat} (h : WfLen len) (x : Nat) :
    x % 4294967296 % len = x % len :=
  Nat.mod_mod_of_dvd x h.1

/-- Wrapping subtraction of the 32-bit words is the true distance when that is `< 2^32`. -/
theorem wsub_exact (T H' : Nat) (h1 : H' ≤ T) (h2 : T - H' < 4294967296) :
    wsub (T % 4294967296) (H' % 4294967296) = T - H' := by
  unfold wsub; omega

/-- In general the wrapping difference is the true distance modulo `2^32`. -/
theorem wsub_mod (T H' : Nat) (h1 : H' ≤ T) :
    wsub (T % 4294967296) (H' % 4294967296) = (T - H') % 4294967296 := by
  unfold wsub; omega

/-- Residues of fewer than `len` consecutive naturals are distinct. -/
theorem window_inj {a b len : Nat} (h1 : a ≤ b) (h2 : b - a < len)
    (h3 : a % len = b % len) : a = b := by
  have h4 : (b - a) % len = 0 := Nat.sub_mod_eq_zero_of_mod_eq h3.symm
  rw [Nat.mod_eq_of_lt h2] at h4
  omega

/-! ### The invariant -/

/-- The pcs at which the submission lock is held. -/
def Holds : Pc → Prop
  | .a4 | .a5 _ | .w1 _ | .w2 _ | .a6 _ => True
  | _ => False

instance (p : Pc) : Decidable (Holds p) := by cases p <;> unfold Holds <;> exact inferInstance

/-- What a thread's loaded values mean (part (4) of the invariant). -/
def PcOk (h0 len H T : Nat) (slots : List (Option Nat)) (t : Thr) : Prop :=
  match t.pc with
  | .a2 h => ∃ H', h0 ≤ H' ∧ H' ≤ H ∧ h = H' % 4294967296
  | .a5 h => ∃ H', h0 ≤ H' ∧ H' ≤ H ∧ h = H' % 4294967296 ∧ T - H' ≤ len
  | .w1 tl => tl = T % 4294967296 ∧ T - H < len
  | .w2 tl => tl = T % 4294967296 ∧ T - H < len
  | .a6 tl => tl = T % 4294967296 ∧ T - H < len ∧ slots.getD (T % len) none = some t.entry
  | _ => True

structure Inv (h0 : Nat) (s : St) : Prop where
  wf : WfLen s.len
  slen : s.slots.length = s.len
  h0H : h0 ≤ s.H
  HT : s.H ≤ s.T
  TH : s.T - s.H ≤ s.len
  acc : s.accepted.length = s.T - h0
  win : ∀ j, s.H ≤ j → j < s.T → s.slots.getD (j % s.len) none = s.accepted[j - h0]?
  cons : s.consumed = (s.accepted.take (s.H - h0)).map some
  lock : ∀ i : Nat, s.lock = some i ↔ ∃ t : Thr, s.thr[i]? = some t ∧ Holds t.pc
  thr : ∀ (i : Nat) (t : Thr), s.thr[i]? = some t → PcOk h0 s.len s.H s.T s.slots t

theorem get_set_thr {l : List Thr} {i : Nat} {t t' : Thr} (h : l[i]? = some t) (k : Nat) :
    (l.set i t')[k]? = if k = i then some t' else l[k]? := by
  rw [List.getElem?_set]
  have hi : i < l.length := by
    rcases Nat.lt_or_ge i l.length with h1 | h1
    · exact h1
    · rw [List.getElem?_eq_none h1] at h; cases h
  by_cases hk : k = i
  · subst hk; simp [hi]
  · have : ¬ i = k := fun e => hk e.symm
    simp [hk, this]

/-- Two lock holders are the same thread. -/
theorem Inv.holder_unique {h0 : Nat} {s : St} (h : Inv h0 s) {i j : Nat} {ti tj : Thr}
    (hi : s.thr[i]? = some ti) (hj : s.thr[j]? = some tj)
    (hhi : Holds ti.pc) (hhj : Holds tj.pc) : i = j := by
  have h1 := (h.lock i).2 ⟨ti, hi, hhi⟩
  have h2 := (h.lock j).2 ⟨tj, hj, hhj⟩
  rw [h1] at h2; cases h2; rfl

theorem Inv.holder_lock {h0 : Nat} {s : St} (h : Inv h0 s) {i : Nat} {ti : Thr}
    (hi : s.thr[i]? = some ti) (hhi : Holds ti.pc) : s.lock = some i :=
  (h.lock i).2 ⟨ti, hi, hhi⟩

/-- `PcOk` of a thread that does not hold the lock only depends on `H` growing. -/
theorem PcOk.mono_nonholder {h0 len H T H2 T2 : Nat} {slots slots2 : List (Option Nat)} {t : Thr}
    (h : PcOk h0 len H T slots t) (hn : ¬ Holds t.pc) (hH : H ≤ H2) :
    PcOk h0 len H2 T2 slots2 t := by
  unfold PcOk at *
  cases hpc : t.pc <;> rw [hpc] at h hn <;> simp [Holds] at hn ⊢
  case a2 hd =>
    rcases h with ⟨H', a, b, c⟩
    exact ⟨H', a, by omega, c⟩

/-- The kernel step (`H + 1` with `H < T`) preserves every thread's `PcOk`. -/
theorem PcOk.kernel {h0 len H T : Nat} {slots : List (Option Nat)} {t : Thr}
    (h : PcOk h0 len H T slots t) (hlt : H < T) : PcOk h0 len (H + 1) T slots t := by
  unfold PcOk at *
  cases hpc : t.pc <;> rw [hpc] at h <;> simp only at h ⊢
  case a2 hd => rcases h with ⟨H', a, b, c⟩; exact ⟨H', a, by omega, c⟩
  case a5 hd => rcases h with ⟨H', a, b, c, d⟩; exact ⟨H', a, by omega, c, d⟩
  case w1 tl => exact ⟨h.1, by omega⟩
  case w2 tl => exact ⟨h.1, by omega⟩
  case a6 tl => exact ⟨h.1, by omega, h.2.2⟩


/-! ### Preservation: the lock clause -/

theorem lock_keep {s : St} {i : Nat} {t t' : Thr}
    (hl : ∀ k : Nat, s.lock = some k ↔ ∃ tk : Thr, s.thr[k]? = some tk ∧ Holds tk.pc)
    (hti : s.thr[i]? = some t) (hh : Holds t'.pc ↔ Holds t.pc) :
    ∀ k : Nat, s.lock = some k ↔ ∃ tk : Thr, (s.thr.set i t')[k]? = some tk ∧ Holds tk.pc := by
  intro k
  rw [hl k]
  by_cases hk : k = i
  · subst hk
    simp only [get_set_thr hti, if_true]
    constructor
    · rintro ⟨tk, h1, h2⟩
      rw [hti] at h1; cases h1
      exact ⟨t', rfl, hh.2 h2⟩
    · rintro ⟨tk, h1, h2⟩
      cases h1
      exact ⟨t, hti, hh.1 h2⟩
  · simp only [get_set_thr hti, if_neg hk]

theorem lock_acquire {s : St} {i : Nat} {t t' : Thr}
    (hl : ∀ k : Nat, s.lock = some k ↔ ∃ tk : Thr, s.thr[k]? = some tk ∧ Holds tk.pc)
    (hti : s.thr[i]? = some t) (hnone : s.lock = none) (hh : Holds t'.pc) :
    ∀ k : Nat, some i = some k ↔ ∃ tk : Thr, (s.thr.set i t')[k]? = some tk ∧ Holds tk.pc := by
  intro k
  by_cases hk : k = i
  · subst hk
    simp only [get_set_thr hti, if_true, true_iff]
    exact ⟨t', rfl, hh⟩
  · simp only [get_set_thr hti, if_neg hk]
    rw [← hl k, hnone]
    constructor
    · intro e; cases e; exact absurd rfl hk
    · intro e; cases e

theorem lock_release {s : St} {i : Nat} {t t' : Thr}
    (hl : ∀ k : Nat, s.lock = some k ↔ ∃ tk : Thr, s.thr[k]? = some tk ∧ Holds tk.pc)
    (hti : s.thr[i]? = some t) (hh : Holds t.pc) (hh' : ¬ Holds t'.pc) :
    ∀ k : Nat, (none : Option Nat) = some k ↔
      ∃ tk : Thr, (s.thr.set i t')[k]? = some tk ∧ Holds tk.pc := by
  intro k
  have hli : s.lock = some i := (hl i).2 ⟨t, hti, hh⟩
  by_cases hk : k = i
  · subst hk
    simp only [get_set_thr hti, if_true]
    constructor
    · intro e; cases e
    · rintro ⟨tk, h1, h2⟩; cases h1; exact absurd h2 hh'
  · simp only [get_set_thr hti, if_neg hk]
    rw [← hl k, hli]
    constructor
    · intro e; cases e
    · intro e; cases e; exact absurd rfl hk

/-! ### Preservation: thread steps -/

/-- Another thread than the lock holder keeps its `PcOk` whatever the holder does
to `T` and the slots. -/
theorem Inv.others_ok {h0 : Nat} {s : St} (h : Inv h0 s) {i k : Nat} {t tk : Thr}
    (hti : s.thr[i]? = some t) (hh : Holds t.pc) (hne : k ≠ i) (hk : s.thr[k]? = some tk)
    (T2 : Nat) (slots2 : List (Option Nat)) : PcOk h0 s.len s.H T2 slots2 tk :=
  (h.thr k tk hk).mono_nonholder (fun hk' => hne (h.holder_unique hk hti hk' hh)) (Nat.le_refl _)

/-- A step that only changes thread `i`'s pc, keeping whether it holds the lock. -/
theorem inv_setThr {h0 : Nat} {s : St} (h : Inv h0 s) {i : Nat} {t : Thr}
    (hti : s.thr[i]? = some t) (t' : Thr) (hh : Holds t'.pc ↔ Holds t.pc)
    (hok : PcOk h0 s.len s.H s.T s.slots t') : Inv h0 (setThr s i t') where
  wf := h.wf
  slen := h.slen
  h0H := h.h0H
  HT := h.HT
  TH := h.TH
  acc := h.acc
  win := h.win
  cons := h.cons
  lock := lock_keep h.lock hti hh
  thr := by
    intro k tk hk
    simp only [setThr, get_set_thr hti] at hk
    by_cases hki : k = i
    · rw [if_pos hki] at hk; cases hk; exact hok
    · rw [if_neg hki] at hk; exact h.thr k tk hk

theorem getD_set_ne {l : List (Option Nat)} {a b : Nat} (v : Option Nat) (h : a ≠ b) :
    (l.set a v).getD b none = l.getD b none := by
  simp [List.getD_eq_getElem?_getD, List.getElem?_set_ne h]

theorem getD_set_eq {l : List (Option Nat)} {a : Nat} (v : Option Nat) (h : a < l.length) :
    (l.set a v).getD a none = v := by
  simp [List.getD_eq_getElem?_getD, h]

/-- Writing the slot `T % len` while there is room does not touch the window `[H, T)`. -/
theorem win_write {h0 : Nat} {s : St} (h : Inv h0 s) (hroom : s.T - s.H < s.len)
    (tl : Nat) (htl : tl = s.T % 4294967296) (v : Option Nat) :
    ∀ j, s.H ≤ j → j < s.T →
      (s.slots.set (tl % s.len) v).getD (j % s.len) none = s.accepted[j - h0]? := by
  intro j h1 h2
  rw [htl, mod32_mod_len h.wf]
  rw [getD_set_ne]
  · exact h.win j h1 h2
  · intro e
    have := window_inj (Nat.le_of_lt h2) (by omega) e.symm
    omega

theorem inv_stepThr {h0 : Nat} {s : St} (h : Inv h0 s) (i : Nat) : Inv h0 (stepThr s i).1 := by
  unfold stepThr
  cases hti : s.thr[i]? with
  | none => exact h
  | some t =>
    have hpk := h.thr i t hti
    simp only
    cases hpc : t.pc with
    | a1 =>
      refine inv_setThr h hti _ (by simp [Holds, hpc]) ?_
      exact ⟨s.H, h.h0H, Nat.le_refl _, rfl⟩
    | a2 hd =>
      simp only
      split
      · exact inv_setThr h hti _ (by simp [Holds, hpc]) (by simp [PcOk])
      · exact inv_setThr h hti _ (by simp [Holds, hpc]) (by simp [PcOk])
    | a3 =>
      simp only
      cases hl : s.lock with
      | some j => exact h
      | none =>
        simp only
        exact {
          wf := h.wf, slen := h.slen, h0H := h.h0H, HT := h.HT, TH := h.TH, acc := h.acc,
          win := h.win, cons := h.cons,
          lock := lock_acquire h.lock hti hl (by simp [Holds]),
          thr := by
            intro k tk hk
            simp only [setThr, get_set_thr hti] at hk
            by_cases hki : k = i
            · rw [if_pos hki] at hk; cases hk; simp [PcOk]
            · rw [if_neg hki] at hk; exact h.thr k tk hk }
    | a4 =>
      refine inv_setThr h hti _ (by simp [Holds, hpc]) ?_
      exact ⟨s.H, h.h0H, Nat.le_refl _, rfl, h.TH⟩
    | a5 hd =>
      simp only
      have hholds : Holds t.pc := by simp [Holds, hpc]
      unfold PcOk at hpk
      rw [hpc] at hpk
      rcases hpk with ⟨H', hh0, hH', hhd, hT'⟩
      split
      · exact {
          wf := h.wf, slen := h.slen, h0H := h.h0H, HT := h.HT, TH := h.TH, acc := h.acc,
          win := h.win, cons := h.cons,
          lock := lock_release h.lock hti hholds (by simp [Holds]),
          thr := by
            intro k tk hk
            simp only [setThr, get_set_thr hti] at hk
            by_cases hki : k = i
            · rw [if_pos hki] at hk; cases hk; simp [PcOk]
            · rw [if_neg hki] at hk; exact h.thr k tk hk }
      · rename_i hnf
        refine inv_setThr h hti _ (by simp [Holds, hpc]) ?_
        have hw := h.wf.2
        have hHT := h.HT
        have : wsub (tail32 s) hd = s.T - H' := by
          rw [hhd]; exact wsub_exact s.T H' (by omega) (by omega)
        rw [this] at hnf
        exact ⟨rfl, by omega⟩
    | w1 tl =>
      simp only
      have hholds : Holds t.pc := by simp [Holds, hpc]
      unfold PcOk at hpk
      rw [hpc] at hpk
      exact {
        wf := h.wf, slen := by simpa [setThr] using h.slen,
        h0H := h.h0H, HT := h.HT, TH := h.TH, acc := h.acc,
        win := win_write h hpk.2 tl hpk.1 none, cons := h.cons,
        lock := lock_keep h.lock hti (by simp [Holds, hpc]),
        thr := by
          intro k tk hk
          simp only [setThr, get_set_thr hti] at hk
          by_cases hki : k = i
          · rw [if_pos hki] at hk; cases hk; exact hpk
          · rw [if_neg hki] at hk; exact h.others_ok hti hholds hki hk _ _ }
    | w2 tl =>
      simp only
      have hholds : Holds t.pc := by simp [Holds, hpc]
      unfold PcOk at hpk
      rw [hpc] at hpk
      exact {
        wf := h.wf, slen := by simpa [setThr] using h.slen,
        h0H := h.h0H, HT := h.HT, TH := h.TH, acc := h.acc,
        win := win_write h hpk.2 tl hpk.1 _, cons := h.cons,
        lock := lock_keep h.lock hti (by simp [Holds, hpc]),
        thr := by
          intro k tk hk
          simp only [setThr, get_set_thr hti] at hk
          by_cases hki : k = i
          · rw [if_pos hki] at hk; cases hk
            refine ⟨hpk.1, hpk.2, ?_⟩
            show (s.slots.set (tl % s.len) (some t.entry)).getD (s.T % s.len) none = some t.entry
            rw [hpk.1, mod32_mod_len h.wf]
            exact getD_set_eq _ (by rw [h.slen]; exact Nat.mod_lt _ h.wf.pos)
          · rw [if_neg hki] at hk; exact h.others_ok hti hholds hki hk _ _ }
    | a6 tl =>
      simp only
      have hholds : Holds t.pc := by simp [Holds, hpc]
      unfold PcOk at hpk
      rw [hpc] at hpk
      rcases hpk with ⟨htl, hroom, hslot⟩
      have hacc := h.acc
      have hh0 := h.h0H
      have hHT := h.HT
      exact {
        wf := h.wf, slen := h.slen, h0H := h.h0H,
        HT := by show s.H ≤ s.T + 1; omega,
        TH := by show s.T + 1 - s.H ≤ s.len; omega,
        acc := by show (s.accepted ++ [t.entry]).length = s.T + 1 - h0; simp; omega,
        win := by
          intro j h1 h2
          show s.slots.getD (j % s.len) none = (s.accepted ++ [t.entry])[j - h0]?
          have h2' : j < s.T + 1 := h2
          have h1' : s.H ≤ j := h1
          by_cases hj : j < s.T
          · rw [List.getElem?_append_left (by omega)]
            exact h.win j h1 hj
          · have : j = s.T := by omega
            subst this
            rw [hslot, List.getElem?_append_right (by omega)]
            simp [hacc]
        cons := by
          show s.consumed = ((s.accepted ++ [t.entry]).take (s.H - h0)).map some
          rw [List.take_append_of_le_length (by omega)]
          exact h.cons
        lock := lock_release h.lock hti hholds (by simp [Holds]),
        thr := by
          intro k tk hk
          simp only [setThr, get_set_thr hti] at hk
          by_cases hki : k = i
          · rw [if_pos hki] at hk; cases hk; simp [PcOk]
          · rw [if_neg hki] at hk; exact h.others_ok hti hholds hki hk _ _ }
    | ok => exact h
    | full => exact h

/-! ### Preservation: kernel, restart, init -/

theorem inv_abortThr {h0 : Nat} {s : St} (h : Inv h0 s) (i : Nat) : Inv h0 (abortThr s i) := by
  unfold abortThr
  cases hti : s.thr[i]? with
  | none => exact h
  | some t =>
    simp only
    cases hpc : t.pc with
    | w2 tl =>
      simp only
      have hholds : Holds t.pc := by simp [Holds, hpc]
      exact {
        wf := h.wf, slen := h.slen, h0H := h.h0H, HT := h.HT, TH := h.TH, acc := h.acc,
        win := h.win, cons := h.cons,
        lock := lock_release h.lock hti hholds (by simp [Holds]),
        thr := by
          intro k tk hk
          simp only [setThr, get_set_thr hti] at hk
          by_cases hki : k = i
          · rw [if_pos hki] at hk; cases hk; simp [PcOk]
          · rw [if_neg hki] at hk; exact h.thr k tk hk }
    | _ => exact h

theorem inv_stepKernel {h0 : Nat} {s : St} (h : Inv h0 s) : Inv h0 (stepKernel s).1 := by
  unfold stepKernel
  split
  · rename_i hlt
    have hacc := h.acc
    have hh0 := h.h0H
    exact {
      wf := h.wf, slen := h.slen,
      h0H := by show h0 ≤ s.H + 1; omega,
      HT := by show s.H + 1 ≤ s.T; omega,
      TH := by show s.T - (s.H + 1) ≤ s.len; have := h.TH; omega,
      acc := h.acc,
      win := by
        intro j h1 h2
        exact h.win j (by have : s.H + 1 ≤ j := h1; omega) h2
      cons := by
        show s.consumed ++ [s.slots.getD (s.H % s.len) none]
          = (s.accepted.take (s.H + 1 - h0)).map some
        rw [h.win s.H (Nat.le_refl _) hlt, h.cons]
        have e : s.H + 1 - h0 = (s.H - h0) + 1 := by omega
        have hl : s.H - h0 < s.accepted.length := by omega
        rw [e, List.take_add_one, List.getElem?_eq_getElem hl, Option.toList_some,
          List.map_append]
        rfl
      lock := h.lock,
      thr := fun k tk hk => (h.thr k tk hk).kernel hlt }
  · exact h

/-- The count of `cancel` calls is a ghost for the invariant. -/
theorem inv_nc {h0 : Nat} {s : St} (h : Inv h0 s) (k : Nat) : Inv h0 { s with nc := k } :=
  ⟨h.wf, h.slen, h.h0H, h.HT, h.TH, h.acc, h.win, h.cons, h.lock, h.thr⟩

theorem startPc_not_holds (c : Bool) : ¬ Holds (startPc c) := by
  cases c <;> simp [startPc, Holds]

theorem startPc_ne_ok (c : Bool) : startPc c ≠ .ok := by cases c <;> simp [startPc]
theorem startPc_ne_full (c : Bool) : startPc c ≠ .full := by cases c <;> simp [startPc]

theorem pcOk_startPc (h0 len H T : Nat) (slots : List (Option Nat)) (c : Bool) (e : Nat) :
    PcOk h0 len H T slots { pc := startPc c, entry := e } := by
  cases c <;> simp [PcOk, startPc]

theorem inv_restart {h0 : Nat} {s : St} (h : Inv h0 s) (i e : Nat) :
    Inv h0 (restart s i e).1 := by
  unfold restart
  cases hti : s.thr[i]? with
  | none => exact h
  | some t =>
    simp only
    split
    · rename_i hpc
      refine inv_setThr (inv_nc h (if isCancel s.nc e = true then s.nc + 1 else s.nc)) hti _ ?_
        (pcOk_startPc _ _ _ _ _ _ _)
      have hn := startPc_not_holds (isCancel s.nc e)
      have ht : ¬ Holds t.pc := by rcases hpc with hpc | hpc <;> simp [Holds, hpc]
      exact ⟨fun a => absurd a hn, fun a => absurd a ht⟩
    · exact h

theorem inv_init (len h0 n : Nat) (hw : WfLen len) : Inv h0 (init len h0 n) where
  wf := hw
  slen := by simp [init]
  h0H := Nat.le_refl _
  HT := Nat.le_refl _
  TH := by simp [init]
  acc := by simp [init]
  win := by intro j h1 h2; simp only [init] at h1 h2; omega
  cons := by simp [init]
  lock := by
    intro i
    simp only [init]
    constructor
    · intro e; cases e
    · rintro ⟨t, h1, h2⟩
      simp only [List.getElem?_map] at h1
      cases hr : (List.range n)[i]? with
      | none => rw [hr] at h1; cases h1
      | some v =>
        rw [hr] at h1; cases h1
        exact absurd h2 (startPc_not_holds _)
  thr := by
    intro i t h1
    simp only [init, List.getElem?_map] at h1
    cases hr : (List.range n)[i]? with
    | none => rw [hr] at h1; cases h1
    | some v =>
      rw [hr] at h1; cases h1
      exact pcOk_startPc _ _ _ _ _ _ _

end A10.SqRing
