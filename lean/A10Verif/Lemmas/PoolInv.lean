/-
The invariant of the pool machine (`Model/Pool.lean`, layer A) and its
preservation by every action.
-/
import A10Verif.Lemmas.Pool

namespace A10.Pool

/-- How often buffer `b` occurs among: published entries the kernel has not
consumed, completions, `ReadBuf`s, release calls before their tail store, lost. -/
def cnt5 (s : St) (b : Nat) : Nat :=
  (gAvail s).count b + s.inCqe.count b + (ownedIds s).count b + (relIds s).count b
    + s.lost.count b

structure Inv (s : St) : Prop where
  wf : WF s.ps s.bs
  ringLen : s.ring.length = s.ps
  tailEq : s.tail = (s.gH + s.gN) % 65536
  kheadEq : s.khead = s.gH % 65536
  /-- every buffer is somewhere: the five collections have `ps` members … -/
  total : s.gN + s.inCqe.length + s.owned.length + (relIds s).length + s.lost.length = s.ps
  /-- … and each id below `ps` occurs exactly once, nothing else occurs -/
  cnt : ∀ b, cnt5 s b = if b < s.ps then 1 else 0
  /-- published entries carry the address and length of their id -/
  ent : ∀ k, s.gH ≤ k → k < s.gH + s.gN →
    (entryAt s.ring (k % s.ps)).off = (entryAt s.ring (k % s.ps)).bid * s.bs ∧
    (entryAt s.ring (k % s.ps)).len = s.bs
  /-- a `ReadBuf` points at the start of a buffer, is no longer than it, and the
  kernel has not written into it since it was delivered -/
  own : ∀ o ∈ s.owned, o.off = o.off / s.bs * s.bs ∧ o.len ≤ s.bs ∧
    (s.gen[o.off / s.bs]?).getD 0 = o.stamp
  /-- a `ReadBuf` object owns at most one buffer -/
  rbU : ∀ rb, (s.owned.map (·.rb)).count rb ≤ 1
  wait : ∀ r ∈ s.waiting, r.off = r.bid * s.bs
  hold : ∀ h, s.holder = some h → h.rel.off = h.rel.bid * s.bs ∧
    ((h.pc = .loaded ∨ h.pc = .written) → h.ltail = s.tail) ∧
    (h.pc = .written → entryAt s.ring ((s.gH + s.gN) % s.ps) = ⟨h.rel.off, s.bs, h.rel.bid⟩)

theorem Inv.gN_le {s : St} (h : Inv s) : s.gN ≤ s.ps := by
  have := h.total; omega

theorem Inv.lt_of_count {s : St} (h : Inv s) (b : Nat) (hb : 0 < cnt5 s b) : b < s.ps := by
  have := h.cnt b
  by_cases hlt : b < s.ps
  · exact hlt
  · simp [hlt] at this; omega

theorem Inv.mul_div (s : St) (h : Inv s) (b : Nat) : b * s.bs / s.bs = b :=
  Nat.mul_div_cancel b (by have := h.wf.2; omega)

/-! ### Initial state -/

theorem entryAt_init (ps bs i : Nat) (h : i < ps) :
    entryAt ((List.range ps).map (fun i => (⟨i * bs, bs, i⟩ : Entry))) i = ⟨i * bs, bs, i⟩ := by
  unfold entryAt
  rw [List.getElem?_map, List.getElem?_range h]
  rfl

theorem inv_init (ps bs t0 : Nat) (h : WF ps bs) : Inv (init ps bs t0) := by
  have hps := h.ps_pos
  have hav : gAvail (init ps bs t0) = (List.range' t0 ps).map (· % ps) := by
    unfold gAvail init
    apply List.map_congr_left
    intro k _
    simp only
    rw [entryAt_init ps bs (k % ps) (Nat.mod_lt _ hps)]
  constructor
  · exact h
  · simp [init]
  · simp [init]
  · simp [init]
  · simp [init, relIds, holderIds]
  · intro b
    unfold cnt5
    rw [hav, count_window ps b t0 hps]
    have e : (init ps bs t0).ps = ps := rfl
    rw [e]
    simp [init, ownedIds, relIds, holderIds]
  · intro k _ _
    simp only [init]
    rw [entryAt_init ps bs (k % ps) (Nat.mod_lt _ hps)]
    exact ⟨rfl, rfl⟩
  · intro o ho; simp [init] at ho
  · intro rb; simp [init]
  · intro r hr; simp [init] at hr
  · intro hh hhe; simp [init] at hhe

/-! ### The kernel -/

theorem gAvail_pos {s : St} (hn : 0 < s.gN) :
    gAvail s = (entryAt s.ring (s.gH % s.ps)).bid ::
      (List.range' (s.gH + 1) (s.gN - 1)).map (fun k => (entryAt s.ring (k % s.ps)).bid) := by
  unfold gAvail
  have : s.gN = (s.gN - 1) + 1 := by omega
  rw [this, List.range'_succ, List.map_cons]
  simp

theorem Inv.khead_slot {s : St} (h : Inv s) : slot s.khead s.ps = s.gH % s.ps := by
  rw [slot_eq_mod h.wf, h.kheadEq, mod16_mod h.wf]

theorem Inv.tail_slot {s : St} (h : Inv s) : slot s.tail s.ps = (s.gH + s.gN) % s.ps := by
  rw [slot_eq_mod h.wf, h.tailEq, mod16_mod h.wf]

theorem Inv.nonempty_of_ne {s : St} (h : Inv s) (hne : s.tail ≠ s.khead) : 0 < s.gN := by
  have h1 := h.tailEq
  have h2 := h.kheadEq
  by_cases h0 : s.gN = 0
  · rw [h0] at h1; simp at h1; omega
  · omega

theorem Inv.ne_of_nonempty {s : St} (h : Inv s) (hn : 0 < s.gN) : s.tail ≠ s.khead := by
  have h1 := h.tailEq
  have h2 := h.kheadEq
  have h3 := h.gN_le
  have h4 := h.wf.ps_le
  omega

theorem inv_kselect {s s' : St} (h : Inv s) (hs : step s .kselect = some s') : Inv s' := by
  unfold step at hs
  by_cases hte : s.tail = s.khead
  · simp [hte] at hs
  · simp only [hte, if_false, Option.some.injEq] at hs
    have hn : 0 < s.gN := h.nonempty_of_ne hte
    have hslot := h.khead_slot
    have hbs : 0 < s.bs := by have := h.wf.2; omega
    have hent := h.ent s.gH (Nat.le_refl _) (by omega)
    have hav := gAvail_pos hn
    -- the selected id is in no other collection
    have hc := h.cnt (entryAt s.ring (s.gH % s.ps)).bid
    have hsel : 0 < (gAvail s).count (entryAt s.ring (s.gH % s.ps)).bid := by
      rw [hav]; simp
    have hlt : (entryAt s.ring (s.gH % s.ps)).bid < s.ps :=
      h.lt_of_count _ (by unfold cnt5; omega)
    have hown0 : (ownedIds s).count (entryAt s.ring (s.gH % s.ps)).bid = 0 := by
      unfold cnt5 at hc; simp [hlt] at hc; omega
    subst hs
    constructor
    · exact h.wf
    · exact h.ringLen
    · show s.tail = (s.gH + 1 + (s.gN - 1)) % 65536
      rw [h.tailEq]; congr 1; omega
    · show (s.khead + 1) % 65536 = (s.gH + 1) % 65536
      rw [h.kheadEq]; omega
    · have := h.total
      show s.gN - 1 + (s.inCqe ++ [_]).length + s.owned.length + _ + s.lost.length = s.ps
      simp only [List.length_append, List.length_singleton, relIds, holderIds] at this ⊢
      omega
    · intro b
      have := h.cnt b
      unfold cnt5 at this ⊢
      rw [hav] at this
      rw [hslot]
      simp only [gAvail, ownedIds, relIds, holderIds, List.count_cons, List.count_append,
        List.count_nil, beq_iff_eq] at this ⊢
      omega
    · intro k hk1 hk2
      exact h.ent k (by simp only at hk1; omega) (by simp only at hk1 hk2; omega)
    · intro o ho
      obtain ⟨h1, h2, h3⟩ := h.own o ho
      refine ⟨h1, h2, ?_⟩
      show ((bump s.gen ((entryAt s.ring (slot s.khead s.ps)).off / s.bs))[o.off / s.bs]?).getD 0
        = o.stamp
      rw [hslot, hent.1, Nat.mul_div_cancel _ hbs]
      have hne : (entryAt s.ring (s.gH % s.ps)).bid ≠ o.off / s.bs := by
        intro he
        have : 0 < (ownedIds s).count (entryAt s.ring (s.gH % s.ps)).bid := by
          apply List.count_pos_iff.mpr
          unfold ownedIds
          rw [he]
          exact List.mem_map.mpr ⟨o, ho, rfl⟩
        omega
      unfold bump
      rw [List.getElem?_set_ne hne]
      exact h3
    · exact h.rbU
    · exact h.wait
    · intro hh hhe
      obtain ⟨h1, h2, h3⟩ := h.hold hh hhe
      refine ⟨h1, h2, ?_⟩
      intro hp
      have := h3 hp
      show entryAt s.ring ((s.gH + 1 + (s.gN - 1)) % s.ps) = _
      have e : s.gH + 1 + (s.gN - 1) = s.gH + s.gN := by omega
      rw [e]; exact this

/-! ### Completions -/

theorem inv_deliver {s s' : St} {bid rb n : Nat} (h : Inv s)
    (hs : step s (.deliver bid rb n) = some s') : Inv s' := by
  simp only [step] at hs
  split at hs
  · rename_i hg
    simp only [Option.some.injEq] at hs
    obtain ⟨hmem, hnone, hn⟩ := hg
    have hbs : 0 < s.bs := by have := h.wf.2; omega
    have hfn : findRb s.owned rb = none := by
      cases hf : findRb s.owned rb with
      | none => rfl
      | some o => simp [hf] at hnone
    subst hs
    constructor
    · exact h.wf
    · exact h.ringLen
    · exact h.tailEq
    · exact h.kheadEq
    · have := h.total
      have hl := length_removeId s.inCqe bid hmem
      show s.gN + (removeId s.inCqe bid).length + (_ :: s.owned).length + (relIds s).length
        + s.lost.length = s.ps
      simp only [List.length_cons]; omega
    · intro b
      have := h.cnt b
      have hc := count_removeId s.inCqe bid b hmem
      unfold cnt5 at this ⊢
      show (gAvail s).count b + (removeId s.inCqe bid).count b
        + (List.map (fun o => o.off / s.bs) (_ :: s.owned)).count b + (relIds s).count b
        + s.lost.count b = _
      simp only [List.map_cons, List.count_cons, Nat.mul_div_cancel _ hbs, beq_iff_eq]
      unfold ownedIds at this
      omega
    · exact h.ent
    · intro o ho
      cases ho with
      | head =>
        refine ⟨?_, hn, ?_⟩
        · show bid * s.bs = bid * s.bs / s.bs * s.bs
          rw [Nat.mul_div_cancel _ hbs]
        · show (s.gen[bid * s.bs / s.bs]?).getD 0 = (s.gen[bid]?).getD 0
          rw [Nat.mul_div_cancel _ hbs]
      | tail _ ho => exact h.own o ho
    · intro r
      show (List.map (·.rb) (_ :: s.owned)).count r ≤ 1
      simp only [List.map_cons, List.count_cons, beq_iff_eq]
      by_cases hr : rb = r
      · subst hr
        have : (s.owned.map (·.rb)).count rb = 0 := by
          apply List.count_eq_zero_of_not_mem
          intro hm
          obtain ⟨o, ho, hor⟩ := List.mem_map.mp hm
          exact findRb_none hfn o ho hor
        simp [this]
      · have := h.rbU r
        simp [hr]; exact this
    · exact h.wait
    · exact h.hold
  · cases hs

theorem inv_lose {s s' : St} {bid : Nat} (h : Inv s)
    (hs : step s (.lose bid) = some s') : Inv s' := by
  unfold step at hs
  by_cases hmem : bid ∈ s.inCqe
  · simp only [hmem, if_true, Option.some.injEq] at hs
    subst hs
    constructor
    · exact h.wf
    · exact h.ringLen
    · exact h.tailEq
    · exact h.kheadEq
    · have := h.total
      have hl := length_removeId s.inCqe bid hmem
      show s.gN + (removeId s.inCqe bid).length + s.owned.length + (relIds s).length
        + (s.lost ++ [bid]).length = s.ps
      simp only [List.length_append, List.length_singleton]; omega
    · intro b
      have := h.cnt b
      have hc := count_removeId s.inCqe bid b hmem
      unfold cnt5 at this ⊢
      show (gAvail s).count b + (removeId s.inCqe bid).count b + (ownedIds s).count b
        + (relIds s).count b + (s.lost ++ [bid]).count b = _
      simp only [List.count_append, List.count_singleton, beq_iff_eq]
      omega
    · exact h.ent
    · exact h.own
    · exact h.rbU
    · exact h.wait
    · exact h.hold
  · simp [hmem] at hs

theorem inv_edit {s s' : St} {rb n : Nat} (h : Inv s)
    (hs : step s (.edit rb n) = some s') : Inv s' := by
  unfold step at hs
  cases hf : findRb s.owned rb with
  | none => simp [hf] at hs
  | some o =>
    simp only [hf] at hs
    by_cases hn : n ≤ s.bs
    · simp only [hn, if_true, Option.some.injEq] at hs
      subst hs
      have hids : ownedIds { s with owned := setLenRb s.owned rb n } = ownedIds s := by
        unfold ownedIds
        exact map_setLenRb s.owned rb n _ (fun _ _ => rfl)
      constructor
      · exact h.wf
      · exact h.ringLen
      · exact h.tailEq
      · exact h.kheadEq
      · have := h.total
        show s.gN + s.inCqe.length + (setLenRb s.owned rb n).length + (relIds s).length
          + s.lost.length = s.ps
        rw [length_setLenRb]; exact this
      · intro b
        have := h.cnt b
        unfold cnt5 at this ⊢
        rw [hids]
        exact this
      · exact h.ent
      · intro x hx
        obtain ⟨o', ho', _, e2, e3, e4⟩ := mem_setLenRb hx
        obtain ⟨h1, h2, h3⟩ := h.own o' ho'
        rw [e2, e3]
        refine ⟨h1, ?_, h3⟩
        cases e4 with
        | inl e => rw [e]; exact h2
        | inr e => rw [e]; exact hn
      · intro r
        show ((setLenRb s.owned rb n).map (·.rb)).count r ≤ 1
        rw [map_setLenRb s.owned rb n _ (fun _ _ => rfl)]
        exact h.rbU r
      · exact h.wait
      · exact h.hold
    · simp [hn] at hs

/-! ### `release` -/

theorem inv_relStart {s s' : St} {rb tid : Nat} (h : Inv s)
    (hs : step s (.relStart rb tid) = some s') : Inv s' := by
  unfold step at hs
  cases hf : findRb s.owned rb with
  | none => simp [hf] at hs
  | some o =>
    simp only [hf, Option.some.injEq] at hs
    obtain ⟨hom, _⟩ := mem_of_findRb hf
    obtain ⟨ho1, _, _⟩ := h.own o hom
    -- the id fits in 16 bits: `as u16` changes nothing
    have hpos : 0 < (ownedIds s).count (o.off / s.bs) := by
      apply List.count_pos_iff.mpr
      exact List.mem_map.mpr ⟨o, hom, rfl⟩
    have hlt : o.off / s.bs < s.ps := h.lt_of_count _ (by unfold cnt5; omega)
    have h16 : o.off / s.bs % 65536 = o.off / s.bs := by
      have := h.wf.ps_le
      exact Nat.mod_eq_of_lt (by omega)
    subst hs
    constructor
    · exact h.wf
    · exact h.ringLen
    · exact h.tailEq
    · exact h.kheadEq
    · have := h.total
      have hl := length_removeRb hf
      show s.gN + s.inCqe.length + (removeRb s.owned rb).length
        + (List.map (fun x : Rel => x.bid) (s.waiting ++ [_]) ++ holderIds s).length + s.lost.length = s.ps
      unfold relIds at this
      simp only [List.length_append, List.length_map, List.length_singleton] at this ⊢
      simp only [holderIds] at this ⊢
      omega
    · intro b
      have := h.cnt b
      have hc := count_removeRb (fun o => o.off / s.bs) b hf
      unfold cnt5 at this ⊢
      show (gAvail s).count b + s.inCqe.count b
        + (List.map (fun o => o.off / s.bs) (removeRb s.owned rb)).count b
        + (List.map (fun x : Rel => x.bid) (s.waiting ++ [_]) ++ holderIds s).count b + s.lost.count b = _
      unfold ownedIds relIds at this
      simp only [List.map_append, List.map_cons, List.map_nil, List.count_append,
        List.count_singleton, beq_iff_eq, h16] at this ⊢
      omega
    · exact h.ent
    · intro x hx
      exact h.own x (mem_removeRb hx)
    · intro r
      have := h.rbU r
      have hc := count_removeRb (·.rb) r hf
      show ((removeRb s.owned rb).map (·.rb)).count r ≤ 1
      omega
    · intro r hr
      show r.off = r.bid * s.bs
      have hr' : r ∈ s.waiting ++ [⟨tid, o.off, o.off / s.bs % 65536⟩] := hr
      rw [List.mem_append] at hr'
      cases hr' with
      | inl hr' => exact h.wait r hr'
      | inr hr' =>
        simp at hr'
        subst hr'
        show o.off = o.off / s.bs % 65536 * s.bs
        rw [h16]; exact ho1
    · exact h.hold

theorem inv_relLock {s s' : St} {tid : Nat} (h : Inv s)
    (hs : step s (.relLock tid) = some s') : Inv s' := by
  unfold step at hs
  cases hh : s.holder with
  | some x => simp [hh] at hs
  | none =>
    cases hf : findTid s.waiting tid with
    | none => simp [hh, hf] at hs
    | some r =>
      simp only [hh, hf, Option.some.injEq] at hs
      have hrm := mem_of_findTid hf
      have hhid : holderIds s = [] := by unfold holderIds; rw [hh]
      subst hs
      constructor
      · exact h.wf
      · exact h.ringLen
      · exact h.tailEq
      · exact h.kheadEq
      · have := h.total
        have hl := length_removeTid hf
        show s.gN + s.inCqe.length + s.owned.length
          + (List.map (fun x : Rel => x.bid) (removeTid s.waiting tid) ++ [r.bid]).length + s.lost.length = s.ps
        unfold relIds at this
        rw [hhid] at this
        simp only [List.length_append, List.length_map, List.length_singleton,
          List.length_nil] at this ⊢
        omega
      · intro b
        have := h.cnt b
        have hc := count_removeTid b hf
        unfold cnt5 at this ⊢
        show (gAvail s).count b + s.inCqe.count b + (ownedIds s).count b
          + (List.map (fun x : Rel => x.bid) (removeTid s.waiting tid) ++ [r.bid]).count b + s.lost.count b = _
        unfold relIds at this
        rw [hhid] at this
        simp only [List.count_append, List.count_singleton, List.count_nil, beq_iff_eq] at this ⊢
        omega
      · exact h.ent
      · exact h.own
      · exact h.rbU
      · intro x hx
        exact h.wait x (mem_removeTid hx)
      · intro x hx
        have hx' : some (⟨r, .locked, 0⟩ : Holder) = some x := hx
        simp at hx'
        subst hx'
        refine ⟨h.wait r hrm, ?_, ?_⟩
        · intro hp; cases hp with
          | inl hp => cases hp
          | inr hp => cases hp
        · intro hp; cases hp

theorem holderIds_of (s : St) (x : Holder) (hx : s.holder = some x) (hp : x.pc ≠ .stored) :
    holderIds s = [x.rel.bid] := by
  unfold holderIds; rw [hx]; simp [hp]

theorem inv_relLoad {s s' : St} (h : Inv s) (hs : step s .relLoad = some s') : Inv s' := by
  unfold step at hs
  cases hh : s.holder with
  | none => simp [hh] at hs
  | some x =>
    obtain ⟨r, pc, t⟩ := x
    cases pc <;> simp only [hh, reduceCtorEq, Option.some.injEq] at hs
    obtain ⟨h1, _, _⟩ := h.hold _ hh
    have hid : holderIds s = [r.bid] := holderIds_of s _ hh (by simp)
    have hrel : relIds s' = relIds s := by
      subst hs
      unfold relIds
      rw [hid]
      rfl
    subst hs
    constructor
    · exact h.wf
    · exact h.ringLen
    · exact h.tailEq
    · exact h.kheadEq
    · have := h.total
      rw [← hrel] at this
      exact this
    · intro b
      have := h.cnt b
      unfold cnt5 at this ⊢
      rw [← hrel] at this
      exact this
    · exact h.ent
    · exact h.own
    · exact h.rbU
    · exact h.wait
    · intro x hx
      have hx' : some (⟨r, .loaded, s.tail⟩ : Holder) = some x := hx
      simp at hx'
      subst hx'
      refine ⟨h1, fun _ => rfl, ?_⟩
      intro hp; cases hp

theorem inv_relWrite {s s' : St} (h : Inv s) (hs : step s .relWrite = some s') : Inv s' := by
  unfold step at hs
  cases hh : s.holder with
  | none => simp [hh] at hs
  | some x =>
    obtain ⟨r, pc, t⟩ := x
    cases pc <;> simp only [hh, reduceCtorEq, Option.some.injEq] at hs
    obtain ⟨h1, h2, _⟩ := h.hold _ hh
    have ht : t = s.tail := h2 (Or.inl rfl)
    have hid : holderIds s = [r.bid] := holderIds_of s _ hh (by simp)
    have hps := h.wf.ps_pos
    -- the ring is not full: this thread still holds a buffer
    have hroom : s.gN < s.ps := by
      have := h.total
      unfold relIds at this
      rw [hid] at this
      simp only [List.length_append, List.length_singleton] at this
      omega
    have hslot : slot t s.ps = (s.gH + s.gN) % s.ps := by rw [ht]; exact h.tail_slot
    have hwin : ∀ k, s.gH ≤ k → k < s.gH + s.gN →
        entryAt (s.ring.set (slot t s.ps) ⟨r.off, s.bs, r.bid⟩) (k % s.ps)
          = entryAt s.ring (k % s.ps) := by
      intro k hk1 hk2
      apply entryAt_set_ne
      rw [hslot]
      exact (mod_ne_of_lt (by omega) (by omega)).symm
    have hrel : relIds s' = relIds s := by
      subst hs
      unfold relIds
      rw [hid]
      rfl
    have hav : gAvail s' = gAvail s := by
      subst hs
      unfold gAvail
      apply List.map_congr_left
      intro k hk
      rw [List.mem_range'_1] at hk
      show (entryAt (s.ring.set (slot t s.ps) ⟨r.off, s.bs, r.bid⟩) (k % s.ps)).bid = _
      rw [hwin k hk.1 hk.2]
    have hown : ownedIds s' = ownedIds s := by subst hs; rfl
    subst hs
    constructor
    · exact h.wf
    · show (s.ring.set _ _).length = s.ps
      rw [List.length_set]; exact h.ringLen
    · exact h.tailEq
    · exact h.kheadEq
    · have := h.total
      rw [← hrel] at this
      exact this
    · intro b
      have := h.cnt b
      unfold cnt5 at this ⊢
      rw [hav, hrel, hown]
      exact this
    · intro k hk1 hk2
      show (entryAt (s.ring.set (slot t s.ps) ⟨r.off, s.bs, r.bid⟩) (k % s.ps)).off = _ ∧ _
      rw [hwin k hk1 hk2]
      exact h.ent k hk1 hk2
    · exact h.own
    · exact h.rbU
    · exact h.wait
    · intro x hx
      have hx' : some (⟨r, .written, t⟩ : Holder) = some x := hx
      simp at hx'
      subst hx'
      refine ⟨h1, fun _ => ht, ?_⟩
      intro _
      show entryAt (s.ring.set (slot t s.ps) ⟨r.off, s.bs, r.bid⟩) ((s.gH + s.gN) % s.ps) = _
      rw [← hslot]
      apply entryAt_set_self
      rw [hslot, h.ringLen]
      exact Nat.mod_lt _ hps

theorem inv_relStore {s s' : St} (h : Inv s) (hs : step s .relStore = some s') : Inv s' := by
  unfold step at hs
  cases hh : s.holder with
  | none => simp [hh] at hs
  | some x =>
    obtain ⟨r, pc, t⟩ := x
    cases pc <;> simp only [hh, reduceCtorEq, Option.some.injEq] at hs
    obtain ⟨h1, h2, h3⟩ := h.hold _ hh
    have ht : t = s.tail := h2 (Or.inr rfl)
    have hen := h3 rfl
    have hid : holderIds s = [r.bid] := holderIds_of s _ hh (by simp)
    have hav : gAvail s' = gAvail s ++ [r.bid] := by
      subst hs
      unfold gAvail
      show List.map _ (List.range' s.gH (s.gN + 1)) = _
      rw [List.range'_concat, List.map_append]
      simp only [List.map_cons, List.map_nil, Nat.one_mul]
      rw [hen]
    have hrel : relIds s' = s.waiting.map (·.bid) := by
      subst hs
      unfold relIds holderIds
      simp
    have hown : ownedIds s' = ownedIds s := by subst hs; rfl
    have hrel0 : relIds s = s.waiting.map (·.bid) ++ [r.bid] := by
      unfold relIds; rw [hid]
    subst hs
    constructor
    · exact h.wf
    · exact h.ringLen
    · show (t + 1) % 65536 = (s.gH + (s.gN + 1)) % 65536
      rw [ht, h.tailEq]; omega
    · exact h.kheadEq
    · have := h.total
      rw [hrel0] at this
      rw [hrel]
      simp only [List.length_append, List.length_singleton] at this
      show s.gN + 1 + s.inCqe.length + s.owned.length + _ + s.lost.length = s.ps
      omega
    · intro b
      have := h.cnt b
      unfold cnt5 at this ⊢
      rw [hav, hrel, hown]
      rw [hrel0] at this
      simp only [List.count_append, List.count_singleton, beq_iff_eq] at this ⊢
      show _ + s.inCqe.count b + _ + _ + s.lost.count b = _
      omega
    · intro k hk1 hk2
      by_cases hk : k < s.gH + s.gN
      · exact h.ent k hk1 hk
      · have hke : k = s.gH + s.gN := by
          have : k < s.gH + (s.gN + 1) := hk2
          have : s.gH ≤ k := hk1
          omega
        show (entryAt s.ring (k % s.ps)).off = (entryAt s.ring (k % s.ps)).bid * s.bs ∧ _
        rw [hke, hen]
        exact ⟨h1, rfl⟩
    · exact h.own
    · exact h.rbU
    · exact h.wait
    · intro x hx
      have hx' : some (⟨r, .stored, t⟩ : Holder) = some x := hx
      simp at hx'
      subst hx'
      refine ⟨h1, ?_, ?_⟩
      · intro hp; cases hp with
        | inl hp => cases hp
        | inr hp => cases hp
      · intro hp; cases hp

theorem inv_relUnlock {s s' : St} (h : Inv s) (hs : step s .relUnlock = some s') : Inv s' := by
  unfold step at hs
  cases hh : s.holder with
  | none => simp [hh] at hs
  | some x =>
    obtain ⟨r, pc, t⟩ := x
    cases pc <;> simp only [hh, reduceCtorEq, Option.some.injEq] at hs
    have hid : holderIds s = [] := by unfold holderIds; rw [hh]; simp
    have hrel : relIds s' = relIds s := by
      subst hs
      unfold relIds
      rw [hid]
      rfl
    subst hs
    constructor
    · exact h.wf
    · exact h.ringLen
    · exact h.tailEq
    · exact h.kheadEq
    · have := h.total
      rw [← hrel] at this
      exact this
    · intro b
      have := h.cnt b
      unfold cnt5 at this ⊢
      rw [← hrel] at this
      exact this
    · exact h.ent
    · exact h.own
    · exact h.rbU
    · exact h.wait
    · intro x hx
      have hx' : (none : Option Holder) = some x := hx
      cases hx'

theorem inv_step {s s' : St} (a : Act) (h : Inv s) (hs : step s a = some s') : Inv s' := by
  cases a with
  | kselect => exact inv_kselect h hs
  | deliver b rb n => exact inv_deliver h hs
  | lose b => exact inv_lose h hs
  | edit rb n => exact inv_edit h hs
  | relStart rb t => exact inv_relStart h hs
  | relLock t => exact inv_relLock h hs
  | relLoad => exact inv_relLoad h hs
  | relWrite => exact inv_relWrite h hs
  | relStore => exact inv_relStore h hs
  | relUnlock => exact inv_relUnlock h hs

theorem inv_run {s s' : St} (as : List Act) (h : Inv s) (hs : run s as = some s') : Inv s' := by
  induction as generalizing s with
  | nil => simp [run] at hs; subst hs; exact h
  | cons a as ih =>
    unfold run at hs
    cases hst : step s a with
    | none => simp [hst] at hs
    | some s1 =>
      simp only [hst] at hs
      exact ih (inv_step a h hst) hs

theorem inv_act {s : St} (a : Act) (h : Inv s) : Inv (s.act a) := by
  unfold St.act
  cases hst : step s a with
  | none => exact h
  | some s1 => exact inv_step a h hst

theorem inv_acts {s : St} (as : List Act) (h : Inv s) : Inv (s.acts as) := by
  unfold St.acts
  induction as generalizing s with
  | nil => exact h
  | cons a as ih => exact ih (inv_act a h)

end A10.Pool
