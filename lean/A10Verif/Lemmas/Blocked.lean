/-
Futures blocked on a full submission queue (`Model/Blocked.lean`; C03, second
sentence): the moves of the interleaving, the inductive invariant `Inv`, its
preservation by every move, and the property theorems `blocked_…`.
-/
import A10Verif.Model.Blocked

namespace A10.Blocked

open A10

deriving instance DecidableEq for St

/-! ### Moves -/

/-- One move of the interleaving: a step of future `i`, a step of the ring
thread, a new `Ring::poll` call, a (woken or spurious) re-poll of future `i`. -/
inductive Mv where
  | f (i : Nat)
  | r
  | poll
  | repoll (i : Nat)
  /-- a new `Ring::poll(None)` call -/
  | pollInf
  /-- some completion arrives -/
  | io
  deriving Repr, DecidableEq

def stepMv (s : St) : Mv → St
  | .f i => stepF s i
  | .r => stepR s
  | .poll => startPoll s
  | .repoll i => repoll s i
  | .pollInf => startPollT s true
  | .io => stepIo s

def runMv (s : St) : List Mv → St
  | [] => s
  | m :: ms => runMv (stepMv s m) ms

theorem runMv_append (s : St) (a b : List Mv) : runMv s (a ++ b) = runMv (runMv s a) b := by
  induction a generalizing s with
  | nil => rfl
  | cons m ms ih => exact ih (stepMv s m)

/-- Every state of every interleaving, for every queue size `len ≥ 1`, every
number `n` of futures and every start value `c` of the queue counters. -/
def Reachable (s : St) : Prop := ∃ len n c ms, 1 ≤ len ∧ s = runMv (init len n c) ms

theorem Reachable.step {s : St} (h : Reachable s) (m : Mv) : Reachable (stepMv s m) := by
  obtain ⟨len, n, c, ms, hl, e⟩ := h
  refine ⟨len, n, c, ms ++ [m], hl, ?_⟩
  rw [runMv_append, ← e]; rfl

theorem Reachable.run {s : St} (h : Reachable s) (ms : List Mv) : Reachable (runMv s ms) := by
  induction ms generalizing s with
  | nil => exact h
  | cons m ms ih => exact ih (h.step m)

/-! ### Classification of the program counters -/

/-- The future holds the submission lock. -/
def FPc.locked : FPc → Bool
  | .ldHead2 | .ldTail2 _ | .stTail => true
  | _ => false

/-- The wakers held in the ring thread's local vector (`wakers` after the
`take` and the first wake loop, before the `swap`). -/
def RPc.rest : RPc → List Nat
  | .lock2 rest _ => rest
  | _ => []

theorem get_set {α : Type} {l : List α} {i : Nat} {t t' : α} (h : l[i]? = some t) (k : Nat) :
    (l.set i t')[k]? = if k = i then some t' else l[k]? := by
  rw [List.getElem?_set]
  have hi : i < l.length := by
    rcases Nat.lt_or_ge i l.length with h1 | h1
    · exact h1
    · rw [List.getElem?_eq_none h1] at h; cases h
  by_cases hk : k = i
  · subst hk; simp [hi]
  · have : ¬ i = k := fun e => hk e.symm
    simp [hk, this]

/-! ### The invariant -/

structure Inv (s : St) : Prop where
  /-- the queue has at least one slot -/
  len : 1 ≤ s.len
  ht : s.H ≤ s.T
  /-- never more unsubmitted entries than slots -/
  win : s.T - s.H ≤ s.len
  /-- the submission lock is held only by a future between `lock` and `unlock` … -/
  lockOnly : ∀ (i : Nat), s.subLock = some i → ∃ pc, s.f[i]? = some pc ∧ pc.locked = true
  /-- … and by every such future (hence at most one) -/
  lockHeld : ∀ (i : Nat) (pc : FPc), s.f[i]? = some pc → pc.locked = true → s.subLock = some i
  /-- a loaded head is never ahead of the real one -/
  head1 : ∀ (i h : Nat), s.f[i]? = some (FPc.ldTail h) → h ≤ s.H
  head2 : ∀ (i h : Nat), s.f[i]? = some (FPc.ldTail2 h) → h ≤ s.H
  /-- the holder that passed the locked check has a free slot -/
  room : ∀ (i : Nat), s.f[i]? = some FPc.stTail → s.T - s.H < s.len
  /-- the ring thread never asks the kernel for more than is queued -/
  ent : ∀ n, s.r = .enter n → n ≤ s.T - s.H
  wh : ∀ h, s.r = .w2 h → h ≤ s.H
  /-- conservation of wakers: registered = still listed + held locally by the ring thread + woken -/
  cons : ∀ i, s.pushed.count i = s.blocked.count i + s.r.rest.count i + s.woken.count i
  /-- wakers are held back only when all free slots were given away -/
  tidy : ∀ rest left, s.r = .lock2 rest left → left = 0 ∨ rest = []

theorem replicate_get {α : Type} {n i : Nat} {a b : α} (h : (List.replicate n a)[i]? = some b) :
    b = a := by
  have := List.mem_of_getElem? h
  simp at this
  exact this.2

theorem inv_init (len n c : Nat) (h : 1 ≤ len) : Inv (init len n c) := by
  refine ⟨h, ?_, ?_, ?_, ?_, ?_, ?_, ?_, ?_, ?_, ?_, ?_⟩ <;> simp only [init, RPc.rest] <;>
    first
    | omega
    | (intro i pc hi; have := replicate_get hi; subst this; simp [FPc.locked])
    | (intro i pc hi; have := replicate_get hi; cases this)
    | (intro i hi; have := replicate_get hi; cases this)
    | simp

theorem inv_stepF {s : St} (h : Inv s) (i : Nat) : Inv (stepF s i) := by
  unfold stepF
  cases hi : s.f[i]? with
  | none => exact h
  | some pc =>
    obtain ⟨h1, h2, h3, h4, h5, h6, h7, h8, h9, h10, h11, h12⟩ := h
    cases pc <;> simp only <;> (try split) <;>
      refine ⟨?_, ?_, ?_, ?_, ?_, ?_, ?_, ?_, ?_, ?_, ?_, ?_⟩ <;>
      (try simp only [setF, get_set hi, List.count_append, List.count_singleton]) <;>
      (first | assumption | grind [FPc.locked])

theorem count_take_drop (l : List Nat) (k i : Nat) :
    (l.take k).count i + (l.drop k).count i = l.count i := by
  rw [← List.count_append, List.take_append_drop]

theorem inv_stepR {s : St} (h : Inv s) : Inv (stepR s) := by
  unfold stepR
  obtain ⟨h1, h2, h3, h4, h5, h6, h7, h8, h9, h10, h11, h12⟩ := h
  cases hr : s.r with
  | idle => exact ⟨h1, h2, h3, h4, h5, h6, h7, h8, h9, h10, h11, h12⟩
  | start =>
    simp only
    split
    · exact ⟨h1, h2, h3, h4, h5, h6, h7, h8, h9, h10, h11, h12⟩
    · refine ⟨h1, h2, h3, h4, h5, h6, h7, h8, ?_, ?_, ?_, ?_⟩ <;> simp [RPc.rest]
      simpa [hr, RPc.rest] using h11
  | enter n =>
    have hn := h9 n hr
    have hrest : (if s.block = true then RPc.waiting else RPc.w1).rest = [] := by
      split <;> rfl
    -- the new head: between the old one and the tail
    have hH : s.H ≤ (if s.kt = true then s.T else s.H + min n (s.T - s.H)) ∧
        (if s.kt = true then s.T else s.H + min n (s.T - s.H)) ≤ s.T := by
      split <;> omega
    dsimp only
    generalize (if s.kt = true then s.T else s.H + min n (s.T - s.H)) = H' at hH ⊢
    refine ⟨h1, ?_, ?_, h4, h5, ?_, ?_, ?_, ?_, ?_, ?_, ?_⟩ <;> simp only [hrest]
    · omega
    · omega
    · intro i h hi; have := h6 i h hi; omega
    · intro i h hi; have := h7 i h hi; omega
    · intro i hi; have := h8 i hi; omega
    · intro n e; split at e <;> cases e
    · intro h e; split at e <;> cases e
    · simpa [hr, RPc.rest] using h11
    · intro rest left e; split at e <;> cases e
  | waiting => exact ⟨h1, h2, h3, h4, h5, h6, h7, h8, h9, h10, h11, h12⟩
  | w1 =>
    refine ⟨h1, h2, h3, h4, h5, h6, h7, h8, ?_, ?_, ?_, ?_⟩ <;> simp [RPc.rest]
    simpa [hr, RPc.rest] using h11
  | w2 h =>
    simp only
    split <;> refine ⟨h1, h2, h3, h4, h5, h6, h7, h8, ?_, ?_, ?_, ?_⟩ <;> simp [RPc.rest] <;>
      simpa [hr, RPc.rest] using h11
  | tryLock avail =>
    simp only
    split
    · refine ⟨h1, h2, h3, h4, h5, h6, h7, h8, ?_, ?_, ?_, ?_⟩ <;> simp [RPc.rest]
      simpa [hr, RPc.rest] using h11
    split
    · refine ⟨h1, h2, h3, h4, h5, h6, h7, h8, ?_, ?_, ?_, ?_⟩ <;> simp [RPc.rest]
      simpa [hr, RPc.rest] using h11
    · refine ⟨h1, h2, h3, h4, h5, h6, h7, h8, ?_, ?_, ?_, ?_⟩ <;> simp only [RPc.rest]
      · simp
      · simp
      · intro i
        have := h11 i
        have e := count_take_drop s.blocked (min avail s.blocked.length) i
        simp only [hr, RPc.rest, List.count_nil, List.count_append] at this ⊢
        omega
      · intro rest left e
        cases e
        by_cases hc : avail ≤ s.blocked.length
        · left; omega
        · right; apply List.drop_eq_nil_of_le; omega
  | lock2 rest left =>
    simp only
    split
    · exact ⟨h1, h2, h3, h4, h5, h6, h7, h8, h9, h10, h11, h12⟩
    refine ⟨h1, h2, h3, h4, h5, h6, h7, h8, ?_, ?_, ?_, ?_⟩ <;> simp only [RPc.rest]
    · simp
    · simp
    · intro i
      have := h11 i
      have e := count_take_drop s.blocked (s.blocked.length - min left s.blocked.length) i
      simp only [hr, RPc.rest, List.count_nil, List.count_append] at this ⊢
      omega
    · simp

theorem inv_startPollT {s : St} (h : Inv s) (inf : Bool) : Inv (startPollT s inf) := by
  unfold startPollT
  split
  · rename_i hr
    obtain ⟨h1, h2, h3, h4, h5, h6, h7, h8, h9, h10, h11, h12⟩ := h
    refine ⟨h1, h2, h3, h4, h5, h6, h7, h8, ?_, ?_, ?_, ?_⟩ <;> simp [RPc.rest]
    simpa [hr, RPc.rest] using h11
  · exact h

theorem inv_startPoll {s : St} (h : Inv s) : Inv (startPoll s) := inv_startPollT h false

theorem inv_stepIo {s : St} (h : Inv s) : Inv (stepIo s) := by
  unfold stepIo
  split
  · rename_i hr
    obtain ⟨h1, h2, h3, h4, h5, h6, h7, h8, h9, h10, h11, h12⟩ := h
    refine ⟨h1, h2, h3, h4, h5, h6, h7, h8, ?_, ?_, ?_, ?_⟩ <;> simp [RPc.rest]
    simpa [hr, RPc.rest] using h11
  · exact h

theorem inv_repoll {s : St} (h : Inv s) (i : Nat) : Inv (repoll s i) := by
  unfold repoll
  split
  · rename_i hi
    obtain ⟨h1, h2, h3, h4, h5, h6, h7, h8, h9, h10, h11, h12⟩ := h
    refine ⟨?_, ?_, ?_, ?_, ?_, ?_, ?_, ?_, ?_, ?_, ?_, ?_⟩ <;>
      (try simp only [setF, get_set hi]) <;>
      (first | assumption | grind [FPc.locked])
  · exact h

theorem inv_stepMv {s : St} (h : Inv s) (m : Mv) : Inv (stepMv s m) := by
  cases m with
  | f i => exact inv_stepF h i
  | r => exact inv_stepR h
  | poll => exact inv_startPoll h
  | repoll i => exact inv_repoll h i
  | pollInf => exact inv_startPollT h true
  | io => exact inv_stepIo h

theorem inv_runMv {s : St} (h : Inv s) (ms : List Mv) : Inv (runMv s ms) := by
  induction ms generalizing s with
  | nil => exact h
  | cons m ms ih => exact ih (inv_stepMv h m)

/-- The invariant holds in every reachable state. -/
theorem reachable_inv {s : St} (h : Reachable s) : Inv s := by
  obtain ⟨len, n, c, ms, hl, e⟩ := h
  rw [e]; exact inv_runMv (inv_init len n c hl) ms

/-! ### Conservation of wakers -/

/-- **No waker is ever lost** by the take / wake / swap / extend dance of
`wake_blocked_futures`, in any interleaving with registering futures: every
registration (`pushed`, ghost) is — as a multiset — still in the blocked list,
or in the ring thread's local vector between its two critical sections, or has
been woken. -/
theorem blocked_conservation (s : St) (h : Reachable s) (i : Nat) :
    s.pushed.count i = s.blocked.count i + s.r.rest.count i + s.woken.count i :=
  (reachable_inv h).cons i

/-- The same as a permutation. -/
theorem blocked_conservation_perm (s : St) (h : Reachable s) :
    s.pushed.Perm (s.blocked ++ s.r.rest ++ s.woken) := by
  rw [List.perm_iff_count]
  intro i
  simp only [List.count_append]
  exact blocked_conservation s h i

/-- A registration that has not been answered by a wake is still held by the
runtime: in the blocked list, or in the local vector that the ring thread is
about to merge back. -/
theorem blocked_registered_or_woken (s : St) (h : Reachable s) (i : Nat)
    (hc : s.pushed.count i > s.woken.count i) :
    i ∈ s.blocked ∨ ∃ rest left, s.r = .lock2 rest left ∧ i ∈ rest := by
  have e := blocked_conservation s h i
  by_cases hb : 0 < s.blocked.count i
  · left; exact List.count_pos_iff.mp hb
  · right
    have hr : 0 < s.r.rest.count i := by omega
    have hm := List.count_pos_iff.mp hr
    cases hrr : s.r with
    | lock2 rest left => exact ⟨rest, left, rfl, by simpa [hrr, RPc.rest] using hm⟩
    | _ => simp [hrr, RPc.rest] at hm

/-- Wakes answer registrations: never more wakes of `i` than registrations of `i`. -/
theorem blocked_woken_le_pushed (s : St) (h : Reachable s) (i : Nat) :
    s.woken.count i ≤ s.pushed.count i := by
  have := blocked_conservation s h i; omega

/-- Wakers held back in the local vector mean that every free slot seen by the
pass was given away (the `swap`/`extend` never reorders old behind new wakers
while slots are left). -/
theorem blocked_rest_only_when_full (s : St) (h : Reachable s) (rest : List Nat) (left : Nat)
    (hr : s.r = .lock2 rest left) : left = 0 ∨ rest = [] :=
  (reachable_inv h).tidy rest left hr

/-! ### Basic facts -/

theorem FPc.locked_iff (pc : FPc) :
    pc.locked = true ↔ pc = .ldHead2 ∨ (∃ h, pc = .ldTail2 h) ∨ pc = .stTail := by
  cases pc <;> simp [FPc.locked]

/-- Queue counters, the submission lock and the loaded heads. -/
theorem blocked_basic (s : St) (h : Reachable s) :
    s.H ≤ s.T ∧ s.T - s.H ≤ s.len ∧
    (∀ i : Nat, s.subLock = some i ↔
      ∃ pc, s.f[i]? = some pc ∧ (pc = .ldHead2 ∨ (∃ h, pc = .ldTail2 h) ∨ pc = .stTail)) ∧
    (∀ (i j : Nat) (pi pj : FPc), s.f[i]? = some pi → s.f[j]? = some pj →
      pi.locked = true → pj.locked = true → i = j) ∧
    (∀ (i h : Nat), s.f[i]? = some (FPc.ldTail h) ∨ s.f[i]? = some (FPc.ldTail2 h) → h ≤ s.H) ∧
    (∀ i : Nat, s.f[i]? = some FPc.stTail → s.T - s.H < s.len) := by
  have I := reachable_inv h
  refine ⟨I.ht, I.win, ?_, ?_, ?_, I.room⟩
  · intro i
    constructor
    · intro e
      obtain ⟨pc, a, b⟩ := I.lockOnly i e
      exact ⟨pc, a, (FPc.locked_iff pc).mp b⟩
    · rintro ⟨pc, a, b⟩
      exact I.lockHeld i pc a ((FPc.locked_iff pc).mpr b)
  · intro i j pi pj a b c d
    have e1 := I.lockHeld i pi a c
    have e2 := I.lockHeld j pj b d
    rw [e1] at e2; cases e2; rfl
  · intro i h' e
    rcases e with e | e
    · exact I.head1 i h' e
    · exact I.head2 i h' e

/-! ### The wake pass -/

/-- **A wake pass is effective**: with `avail ≥ 1` free slots and a non-empty
blocked list, the `try_lock` step wakes the `min avail #blocked ≥ 1` OLDEST
wakers and keeps the others in its local vector. -/
theorem blocked_wake_pass (s : St) (avail : Nat) (hr : s.r = .tryLock avail) (ha : 1 ≤ avail)
    (hb : s.blocked ≠ []) (hl0 : s.blockedLock = none) :
    (stepR s).woken = s.woken ++ s.blocked.take (min avail s.blocked.length) ∧
    s.blocked.take (min avail s.blocked.length) ≠ [] ∧
    (stepR s).blocked = [] ∧
    (stepR s).r = .lock2 (s.blocked.drop (min avail s.blocked.length))
      (avail - min avail s.blocked.length) := by
  have hl : 0 < s.blocked.length := List.length_pos_iff.mpr hb
  have he : s.blocked.isEmpty = false := by
    cases hbb : s.blocked with
    | nil => exact absurd hbb hb
    | cons a l => rfl
  refine ⟨?_, ?_, ?_, ?_⟩
  · simp [stepR, hr, he, hl0]
  · intro e
    have := congrArg List.length e
    rw [List.length_take, List.length_nil] at this
    omega
  · simp [stepR, hr, he, hl0]
  · simp [stepR, hr, he, hl0]

/-- `try_lock` fails while a future is inside its push: the pass gives up without waking anybody
and without touching the list — the futures stay registered for the next pass. -/
theorem blocked_try_lock_fails (s : St) (avail : Nat) (hr : s.r = .tryLock avail) (j : Nat)
    (hl : s.blockedLock = some j) :
    (stepR s).r = .idle ∧ (stepR s).blocked = s.blocked ∧ (stepR s).woken = s.woken := by
  simp [stepR, hr, hl]

/-- The second critical section: the new registrations `N` found in the list
are merged behind the held-back wakers; `min left #N` of them stay listed, the
others are woken; nothing is dropped. -/
theorem blocked_merge_pass (s : St) (rest : List Nat) (left : Nat) (hr : s.r = .lock2 rest left)
    (hl0 : s.blockedLock = none) :
    (stepR s).blocked = rest ++ s.blocked.drop (s.blocked.length - min left s.blocked.length) ∧
    (stepR s).woken = s.woken ++ s.blocked.take (s.blocked.length - min left s.blocked.length) ∧
    (stepR s).r = .idle := by
  simp [stepR, hr, hl0]

/-- **Every return from the kernel is followed by a wake pass** (the `fix:`
commit): from `.enter n` the ring thread goes to `.w1` and `.w2 _` — the first
two steps of `wake_blocked_futures` — whatever `n` is and whatever the kernel
consumed (also nothing: ETIME / EINTR), and from there gives up only if it sees
no free slot. -/
theorem blocked_enter_always_wakes (s : St) (n : Nat) (hr : s.r = .enter n)
    (hb : s.block = false) (hk : s.kt = false) :
    (stepR s).r = .w1 ∧
    (stepR s).H = s.H + min n (s.T - s.H) ∧
    (stepR (stepR s)).r = .w2 (s.H + min n (s.T - s.H)) ∧
    (stepR (stepR (stepR s))).r =
      (if s.len - (s.T - (s.H + min n (s.T - s.H))) = 0 then RPc.idle
       else .tryLock (s.len - (s.T - (s.H + min n (s.T - s.H))))) := by
  have e1 : stepR s = { s with H := s.H + min n (s.T - s.H), r := .w1 } := by
    simp [stepR, hr, hb, hk]
  refine ⟨?_, ?_, ?_, ?_⟩
  · rw [e1]
  · rw [e1]
  · rw [e1]; simp [stepR]
  · rw [e1]; simp only [stepR]; split <;> simp_all

/-- … with or without a kernel thread. -/
theorem blocked_enter_r (s : St) (n : Nat) (hr : s.r = .enter n) (hb : s.block = false) :
    (stepR s).r = .w1 := by
  simp [stepR, hr, hb]

/-- Moves of the other threads do not move the ring thread. -/
theorem stepF_r (s : St) (i : Nat) : (stepF s i).r = s.r := by
  unfold stepF
  cases s.f[i]? with
  | none => rfl
  | some pc =>
    cases pc <;> simp only [setF] <;> (try split) <;> rfl

theorem repoll_r (s : St) (i : Nat) : (repoll s i).r = s.r := by
  unfold repoll; split <;> rfl

theorem startPollT_r (s : St) (inf : Bool) (h : s.r ≠ .idle) : (startPollT s inf).r = s.r := by
  unfold startPollT; split
  · rename_i e; exact absurd e h
  · rfl

theorem startPoll_r (s : St) (h : s.r ≠ .idle) : (startPoll s).r = s.r := startPollT_r s false h

theorem stepIo_r (s : St) (h : s.r ≠ .waiting) : (stepIo s).r = s.r := by
  unfold stepIo; split
  · rename_i e; exact absurd e h
  · rfl

/-- Only the ring thread's own steps (and, while it waits in the kernel, a completion) move
the ring thread. -/
theorem runMv_others_r (s : St) (ms : List Mv) (hm : ∀ m ∈ ms, m ≠ Mv.r) (h : s.r ≠ .idle)
    (hw : s.r ≠ .waiting) : (runMv s ms).r = s.r := by
  induction ms generalizing s with
  | nil => rfl
  | cons m ms ih =>
    have hm' : ∀ m ∈ ms, m ≠ Mv.r := fun x hx => hm x (List.mem_cons_of_mem _ hx)
    have e : (stepMv s m).r = s.r := by
      cases m with
      | f i => exact stepF_r s i
      | r => exact absurd rfl (hm .r (List.mem_cons_self))
      | poll => exact startPoll_r s h
      | repoll i => exact repoll_r s i
      | pollInf => exact startPollT_r s true h
      | io => exact stepIo_r s hw
    show (runMv (stepMv s m) ms).r = s.r
    rw [ih (stepMv s m) hm' (by rw [e]; exact h) (by rw [e]; exact hw), e]

theorem stepF_block (s : St) (i : Nat) : (stepF s i).block = s.block := by
  unfold stepF
  cases s.f[i]? with
  | none => rfl
  | some pc =>
    cases pc <;> simp only [setF] <;> (try split) <;> rfl

/-- The wait decision of the call in progress is only taken by the ring thread. -/
theorem runMv_others_block (s : St) (ms : List Mv) (hm : ∀ m ∈ ms, m ≠ Mv.r) :
    (runMv s ms).block = s.block := by
  induction ms generalizing s with
  | nil => rfl
  | cons m ms ih =>
    have hm' : ∀ m ∈ ms, m ≠ Mv.r := fun x hx => hm x (List.mem_cons_of_mem _ hx)
    have e : (stepMv s m).block = s.block := by
      cases m with
      | f i => exact stepF_block s i
      | r => exact absurd rfl (hm .r (List.mem_cons_self))
      | poll => simp only [stepMv, startPoll, startPollT]; split <;> rfl
      | repoll i => simp only [stepMv, repoll]; split <;> rfl
      | pollInf => simp only [stepMv, startPollT]; split <;> rfl
      | io => simp only [stepMv, stepIo]; split <;> rfl
    show (runMv (stepMv s m) ms).block = s.block
    rw [ih (stepMv s m) hm', e]

theorem stepR_w1 (s : St) (h : s.r = .w1) : (stepR s).r = .w2 s.H := by
  simp [stepR, h]

/-- The same in every interleaving: whatever the futures do in between, the two
ring-thread steps after `.enter n` are `.w1` and `.w2 _`. -/
theorem blocked_enter_always_wakes_interleaved (s : St) (n : Nat) (hr : s.r = .enter n)
    (hblk : s.block = false) (a b c : List Mv) (ha : ∀ m ∈ a, m ≠ Mv.r) (hb : ∀ m ∈ b, m ≠ Mv.r) (hc : ∀ m ∈ c, m ≠ Mv.r) :
    (runMv s (a ++ [.r] ++ b)).r = .w1 ∧ ∃ h, (runMv s (a ++ [.r] ++ b ++ [.r] ++ c)).r = .w2 h := by
  have e0 : (runMv s a).r = .enter n := by
    rw [runMv_others_r s a ha (by simp [hr]) (by simp [hr]), hr]
  have e0b : (runMv s a).block = false := by rw [runMv_others_block s a ha, hblk]
  have e1 : (runMv s (a ++ [.r])).r = .w1 := by
    rw [runMv_append]
    exact blocked_enter_r _ n e0 e0b
  have e2 : (runMv s (a ++ [.r] ++ b)).r = .w1 := by
    rw [runMv_append, runMv_others_r _ b hb (by simp [e1]) (by simp [e1]), e1]
  refine ⟨e2, (runMv s (a ++ [.r] ++ b)).H, ?_⟩
  rw [runMv_append, runMv_others_r _ c hc]
  · rw [runMv_append]
    exact stepR_w1 _ e2
  · rw [runMv_append]
    show (stepR _).r ≠ _
    rw [stepR_w1 _ e2]; simp
  · rw [runMv_append]
    show (stepR _).r ≠ _
    rw [stepR_w1 _ e2]; simp

/-! ### Bounded response: quiet polls -/

/-- No future is in the middle of a poll, the ring thread is between two
`Ring::poll` calls, and the counters are sane (`blocked_basic`). Decidable. -/
def Quiet (s : St) : Prop :=
  (∀ pc ∈ s.f, pc = FPc.pending ∨ pc = FPc.submitted) ∧ s.r = .idle ∧ s.subLock = none ∧
    1 ≤ s.len ∧ s.H ≤ s.T ∧ s.T - s.H ≤ s.len ∧ s.blockedLock = none

instance (s : St) : Decidable (Quiet s) := by unfold Quiet; infer_instance

/-- One complete `Ring::poll` by the ring thread alone: the call, then
`start`, `enter`, `w1`, `w2`, `tryLock`, `lock2` (steps at `.idle` are no-ops). -/
def quietPoll (s : St) : St := runMv s [.poll, .r, .r, .r, .r, .r, .r]

def quietPolls : Nat → St → St
  | 0, s => s
  | k + 1, s => quietPolls k (quietPoll s)

theorem take_min_length {α : Type} (n : Nat) (l : List α) : l.take (min n l.length) = l.take n := by
  rcases Nat.le_total n l.length with h | h
  · rw [Nat.min_eq_left h]
  · rw [Nat.min_eq_right h, List.take_of_length_le h, List.take_of_length_le (Nat.le_refl _)]

theorem drop_min_length {α : Type} (n : Nat) (l : List α) : l.drop (min n l.length) = l.drop n := by
  rcases Nat.le_total n l.length with h | h
  · rw [Nat.min_eq_left h]
  · rw [Nat.min_eq_right h, List.drop_of_length_le h, List.drop_of_length_le (Nat.le_refl _)]

/-- The state after a quiet poll, explicitly. -/
theorem quietPoll_eq (s : St) (hr : s.r = .idle) (hl : 1 ≤ s.len) (ht : s.H ≤ s.T)
    (hbl : s.blockedLock = none) :
    quietPoll s = { s with H := s.T, woken := s.woken ++ s.blocked.take s.len,
                           blocked := s.blocked.drop s.len, inf := false, block := false } := by
  obtain ⟨len, H, T, subLock, blocked, f, r, woken, pushed, inf, block, blockedLock, kt⟩ := s
  simp only at hr hl ht hbl
  subst hr hbl
  have e2 : H + (T - H) = T := by omega
  have e4 : ¬ len = 0 := by omega
  cases blocked with
  | nil => cases kt <;> simp [quietPoll, runMv, stepMv, startPoll, startPollT, stepR, e2, e4]
  | cons b bs =>
    cases kt <;> simp [quietPoll, runMv, stepMv, startPoll, startPollT, stepR, e2, e4]

/-- **Bounded response**: when no future is in the middle of a poll, ONE
`Ring::poll` of the ring thread — in which nothing completes: the kernel only
consumes the queue — wakes the `min len #blocked` OLDEST blocked futures and
leaves the others listed in order; the queue is empty afterwards and the state
is quiet again. -/
theorem blocked_quiet_poll (s : St) (hq : Quiet s) :
    (quietPoll s).woken = s.woken ++ s.blocked.take (min s.len s.blocked.length) ∧
    (quietPoll s).blocked = s.blocked.drop (min s.len s.blocked.length) ∧
    (quietPoll s).H = s.T ∧ (quietPoll s).T = s.T ∧ (quietPoll s).r = .idle ∧
    (quietPoll s).f = s.f ∧ (quietPoll s).len = s.len ∧ (quietPoll s).pushed = s.pushed ∧
    Quiet (quietPoll s) := by
  obtain ⟨h1, h2, h3, h4, h5, h6, h7⟩ := hq
  rw [quietPoll_eq s h2 h4 h5 h7, take_min_length, drop_min_length]
  refine ⟨rfl, rfl, rfl, rfl, h2, rfl, rfl, rfl, h1, h2, h3, h4, ?_, ?_, h7⟩
  · exact Nat.le_refl _
  · show s.T - s.T ≤ s.len
    omega

/-- `k` quiet polls wake the `min (k * len) #blocked` oldest blocked futures,
in order, and leave the others listed in order. -/
theorem blocked_quiet_polls (k : Nat) (s : St) (hq : Quiet s) :
    (quietPolls k s).woken = s.woken ++ s.blocked.take (min (k * s.len) s.blocked.length) ∧
    (quietPolls k s).blocked = s.blocked.drop (min (k * s.len) s.blocked.length) ∧
    (quietPolls k s).len = s.len ∧ (quietPolls k s).pushed = s.pushed ∧
    (quietPolls k s).f = s.f ∧ Quiet (quietPolls k s) := by
  induction k generalizing s with
  | zero => simp [quietPolls, hq]
  | succ k ih =>
    obtain ⟨a1, a2, _, _, _, a6, a7, a8, a9⟩ := blocked_quiet_poll s hq
    obtain ⟨b1, b2, b3, b4, b5, b6⟩ := ih (quietPoll s) a9
    rw [take_min_length] at a1 b1
    rw [drop_min_length] at a2 b2
    have e : (k + 1) * s.len = s.len + k * s.len := by rw [Nat.succ_mul, Nat.add_comm]
    refine ⟨?_, ?_, ?_, ?_, ?_, b6⟩
    · show (quietPolls k (quietPoll s)).woken = _
      rw [b1, a1, a2, a7, take_min_length, e, List.take_add, List.append_assoc]
    · show (quietPolls k (quietPoll s)).blocked = _
      rw [b2, a2, a7, drop_min_length, e, List.drop_drop]
    · show (quietPolls k (quietPoll s)).len = _
      rw [b3, a7]
    · show (quietPolls k (quietPoll s)).pushed = _
      rw [b4, a8]
    · show (quietPolls k (quietPoll s)).f = _
      rw [b5, a6]

/-- Enough quiet polls empty the blocked list: every blocked future has been
woken, oldest first — although no operation ever completed. -/
theorem blocked_quiet_polls_all (k : Nat) (s : St) (hq : Quiet s)
    (hk : s.blocked.length ≤ k * s.len) :
    (quietPolls k s).blocked = [] ∧ (quietPolls k s).woken = s.woken ++ s.blocked := by
  obtain ⟨a1, a2, _⟩ := blocked_quiet_polls k s hq
  rw [Nat.min_eq_right hk] at a1 a2
  rw [a1, a2, List.take_of_length_le (Nat.le_refl _), List.drop_of_length_le (Nat.le_refl _)]
  exact ⟨rfl, rfl⟩

theorem ceil_mul_ge (b len : Nat) (hl : 1 ≤ len) : b ≤ (b + len - 1) / len * len := by
  have h1 := Nat.div_add_mod (b + len - 1) len
  have h2 := Nat.mod_lt (b + len - 1) (show len > 0 from hl)
  rw [Nat.mul_comm]
  omega

/-- `⌈#blocked / len⌉` quiet polls are enough. -/
theorem blocked_quiet_polls_ceil (s : St) (hq : Quiet s) :
    (quietPolls ((s.blocked.length + s.len - 1) / s.len) s).blocked = [] ∧
    (quietPolls ((s.blocked.length + s.len - 1) / s.len) s).woken = s.woken ++ s.blocked :=
  blocked_quiet_polls_all _ s hq (ceil_mul_ge _ _ hq.2.2.2.1)

theorem reachable_quietPolls {s : St} (h : Reachable s) (k : Nat) : Reachable (quietPolls k s) := by
  induction k generalizing s with
  | zero => exact h
  | succ k ih => exact ih (h.run _)

/-- From a reachable quiet state, after `⌈#blocked / len⌉` polls every
registration ever made has been answered by a wake: `woken` is a permutation
of `pushed`. -/
theorem blocked_quiet_all_woken (s : St) (h : Reachable s) (hq : Quiet s) :
    (quietPolls ((s.blocked.length + s.len - 1) / s.len) s).woken.Perm s.pushed := by
  have hr := reachable_quietPolls h ((s.blocked.length + s.len - 1) / s.len)
  have hp := blocked_conservation_perm _ hr
  obtain ⟨_, _, _, a4, _, a6⟩ := blocked_quiet_polls ((s.blocked.length + s.len - 1) / s.len) s hq
  rw [(blocked_quiet_polls_ceil s hq).1, a6.2.1, a4] at hp
  simpa [RPc.rest] using hp.symm

/-! ### The repaired defect: the old `enter` skipped the wake pass on ETIME -/

/-- The ring thread BEFORE the `fix:` commit: when the kernel consumed nothing
(`io_uring_enter` had nothing to submit and, as nothing completes, timed out:
`ETIME`), `Shared::enter` returned without calling `wake_blocked_futures`. -/
def stepROld (s : St) : St :=
  match s.r with
  | .enter n => if min n (s.T - s.H) = 0 then { s with r := .idle } else stepR s
  | _ => stepR s

def stepMvOld (s : St) : Mv → St
  | .f i => stepF s i
  | .r => stepROld s
  | .poll => startPoll s
  | .repoll i => repoll s i
  | .pollInf => startPollT s true
  | .io => stepIo s

def runMvOld (s : St) : List Mv → St
  | [] => s
  | m :: ms => runMvOld (stepMvOld s m) ms

def quietPollOld (s : St) : St := runMvOld s [.poll, .r, .r, .r, .r, .r, .r]

def quietPollsOld : Nat → St → St
  | 0, s => s
  | k + 1, s => quietPollsOld k (quietPollOld s)

/-- The losing interleaving (`len = 1`, two futures): future 0 submits and
fills the queue; future 1 loads head and tail and finds the queue full; the
ring thread polls: enters, the kernel consumes the entry, the wake pass finds
a free slot but an EMPTY blocked list; only THEN future 1 registers its waker. -/
def lostTrace : List Mv :=
  [.f 0, .f 0, .f 0, .f 0, .f 0, .f 0, .f 1, .f 1, .poll, .r, .r, .r, .r, .r, .f 1, .f 1]

/-- The state it leads to: queue empty (`H = T = 1`, one free slot), future 1
`Pending` with its waker in the list, nobody woken, ring thread idle. -/
def lostState : St :=
  { len := 1, H := 1, T := 1, blocked := [1], f := [.submitted, .pending], pushed := [1] }

/-- … in the old protocol and in the repaired one alike (the `enter` of that
run consumed an entry, so both protocols ran the wake pass there). -/
theorem lostState_old : runMvOld (init 1 2 0) lostTrace = lostState := by decide

theorem lostState_new : runMv (init 1 2 0) lostTrace = lostState := by decide

theorem lostState_reachable : Reachable lostState :=
  ⟨1, 2, 0, lostTrace, Nat.le_refl 1, lostState_new.symm⟩

/-- In the old protocol a poll that finds the queue empty does nothing at all:
`to_submit = 0`, the kernel consumes nothing, ETIME, no wake pass. -/
theorem quietPollOld_empty (s : St) (hr : s.r = .idle) (he : s.T - s.H = 0)
    (hbl : s.blockedLock = none) :
    (quietPollOld s).blocked = s.blocked ∧ (quietPollOld s).woken = s.woken ∧
    (quietPollOld s).r = .idle ∧ (quietPollOld s).T = s.T ∧ (quietPollOld s).H = s.H ∧
    (quietPollOld s).blockedLock = none := by
  obtain ⟨len, H, T, subLock, blocked, f, r, woken, pushed, inf, block, blockedLock, kt⟩ := s
  simp only at hr he hbl
  subst hr hbl
  simp [quietPollOld, runMvOld, stepMvOld, startPoll, startPollT, stepROld, stepR, he]

theorem quietPollsOld_empty (k : Nat) (s : St) (hr : s.r = .idle) (he : s.T - s.H = 0)
    (hbl : s.blockedLock = none) :
    (quietPollsOld k s).blocked = s.blocked ∧ (quietPollsOld k s).woken = s.woken := by
  induction k generalizing s with
  | zero => exact ⟨rfl, rfl⟩
  | succ k ih =>
    have q := quietPollOld_empty s hr he hbl
    have := ih (quietPollOld s) q.2.2.1 (by rw [q.2.2.2.1, q.2.2.2.2.1]; exact he) q.2.2.2.2.2
    rw [q.1, q.2.1] at this
    exact this

/-- **The repaired defect.** `lostState` is reached by the old protocol; it is
quiet, future 1 is `Pending` with its waker registered and the queue has room
(`T - H = 0 < len`), yet ANY number of further `Ring::poll` calls of the old
protocol wake nobody: the waker stays in the list for ever (nothing else
completes, nobody else submits). With the repaired `enter` the very next poll
wakes it. -/
theorem blocked_old_enter_loses_wake :
    runMvOld (init 1 2 0) lostTrace = lostState ∧ Quiet lostState ∧
    lostState.f[1]? = some FPc.pending ∧ lostState.T - lostState.H < lostState.len ∧
    (∀ k, (quietPollsOld k lostState).blocked = [1] ∧ (quietPollsOld k lostState).woken = []) ∧
    (quietPoll lostState).woken = [1] ∧ (quietPoll lostState).blocked = [] := by
  refine ⟨lostState_old, by decide, by decide, by decide, ?_, by decide, by decide⟩
  intro k
  exact quietPollsOld_empty k lostState rfl rfl rfl

/-- The old protocol loses the wake in EVERY quiet state with an empty queue,
whatever is in the blocked list. -/
theorem blocked_old_enter_loses_wake_general (k : Nat) (s : St) (hr : s.r = .idle)
    (he : s.T - s.H = 0) (hbl : s.blockedLock = none) :
    (quietPollsOld k s).blocked = s.blocked ∧ (quietPollsOld k s).woken = s.woken := by
  exact quietPollsOld_empty k s hr he hbl

/-! ### Non-vacuity: concrete reachable states satisfying the hypotheses -/

/-- `len = 1`, three futures: 0 submitted, 1 registered, 2 saw the queue full
and is about to register; the ring thread consumed the entry and is at its
`try_lock` with one free slot. -/
def passTrace : List Mv :=
  [.f 0, .f 0, .f 0, .f 0, .f 0, .f 0, .f 1, .f 1, .f 1, .f 1, .f 2, .f 2, .poll, .r, .r, .r, .r]

def passState : St :=
  { len := 1, H := 1, T := 1, blocked := [1], f := [.submitted, .pending, .lockBlocked],
    r := .tryLock 1, pushed := [1] }

theorem passState_eq : runMv (init 1 3 0) passTrace = passState := by decide

theorem passState_reachable : Reachable passState :=
  ⟨1, 3, 0, passTrace, Nat.le_refl 1, passState_eq.symm⟩

/-- hypotheses of `blocked_wake_pass` -/
example : passState.r = .tryLock 1 ∧ 1 ≤ 1 ∧ passState.blocked ≠ [] := by decide

/-- Future 2 registers BETWEEN the two critical sections: the swap/extend
branch runs with `N = [2]` (here `left = 0`: the late waker is woken at once). -/
example : runMv passState [.r, .f 2, .f 2] =
    { passState with blocked := [2], woken := [1], r := .lock2 [] 0, pushed := [1, 2],
                     f := [.submitted, .pending, .pending] } := by decide

example : (runMv passState [.r, .f 2, .f 2, .r]).woken = [1, 2] ∧
    (runMv passState [.r, .f 2, .f 2, .r]).blocked = [] ∧
    (runMv passState [.r, .f 2, .f 2, .r]).pushed = [1, 2] := by decide

/-- `len = 2`, four futures: 0 and 1 submitted, 2 registered, 3 about to
register; the pass wakes 2 with one slot to spare (`left = 1`); 3 registers
between the critical sections and the `extend` puts it back in the list:
hypotheses of `blocked_merge_pass` with a non-empty `N` and `left ≥ 1`. -/
def mergeTrace : List Mv :=
  [.f 0, .f 0, .f 0, .f 0, .f 0, .f 0, .f 1, .f 1, .f 1, .f 1, .f 1, .f 1,
   .f 2, .f 2, .f 2, .f 2, .f 3, .f 3, .poll, .r, .r, .r, .r, .r, .f 3, .f 3]

def mergeState : St :=
  { len := 2, H := 2, T := 2, blocked := [3], f := [.submitted, .submitted, .pending, .pending],
    r := .lock2 [] 1, woken := [2], pushed := [2, 3] }

theorem mergeState_eq : runMv (init 2 4 0) mergeTrace = mergeState := by decide

theorem mergeState_reachable : Reachable mergeState :=
  ⟨2, 4, 0, mergeTrace, by decide, mergeState_eq.symm⟩

/-- the late waker stays listed (although both slots are free) … -/
example : (stepR mergeState).blocked = [3] ∧ (stepR mergeState).woken = [2] ∧
    Quiet (stepR mergeState) := by decide

/-- … and the next poll wakes it (`blocked_quiet_poll`); the old protocol never did. -/
example : (quietPoll (stepR mergeState)).woken = [2, 3] ∧
    (quietPoll (stepR mergeState)).blocked = [] ∧
    (quietPollOld (stepR mergeState)).woken = [2] ∧
    (quietPollOld (stepR mergeState)).blocked = [3] := by decide

/-- A waker held in the ring thread's local vector (`rest ≠ []`, second
disjunct of `blocked_registered_or_woken`): `len = 1`, futures 1 and 2 blocked,
one slot: 1 is woken, 2 is held back. -/
def restTrace : List Mv :=
  [.f 0, .f 0, .f 0, .f 0, .f 0, .f 0, .f 1, .f 1, .f 1, .f 1, .f 2, .f 2, .f 2, .f 2,
   .poll, .r, .r, .r, .r, .r]

def restState : St :=
  { len := 1, H := 1, T := 1, blocked := [], f := [.submitted, .pending, .pending],
    r := .lock2 [2] 0, woken := [1], pushed := [1, 2] }

theorem restState_eq : runMv (init 1 3 0) restTrace = restState := by decide

theorem restState_reachable : Reachable restState :=
  ⟨1, 3, 0, restTrace, Nat.le_refl 1, restState_eq.symm⟩

/-- hypotheses of `blocked_registered_or_woken` (first disjunct: `lostState`, future 1;
second disjunct: `restState`, future 2) -/
example : lostState.pushed.count 1 > lostState.woken.count 1 ∧ 1 ∈ lostState.blocked := by decide

example : restState.pushed.count 2 > restState.woken.count 2 ∧ 2 ∉ restState.blocked ∧
    restState.r = .lock2 [2] 0 := by decide

/-- A woken future polls again, finds the queue full again (future 3 took the
slot) and registers a second time: `pushed` counts it twice. -/
example : (runMv (init 1 4 0) (restTrace ++
      [.r, .f 3, .f 3, .f 3, .f 3, .f 3, .f 3, .repoll 1, .f 1, .f 1, .f 1, .f 1])).pushed = [1, 2, 1] ∧
    (runMv (init 1 4 0) (restTrace ++
      [.r, .f 3, .f 3, .f 3, .f 3, .f 3, .f 3, .repoll 1, .f 1, .f 1, .f 1, .f 1])).blocked = [2, 1] ∧
    (runMv (init 1 4 0) (restTrace ++
      [.r, .f 3, .f 3, .f 3, .f 3, .f 3, .f 3, .repoll 1, .f 1, .f 1, .f 1, .f 1])).woken = [1] := by
  decide

/-- `blocked_basic` on a state where a future holds the submission lock with a
loaded head while another one waits for the lock. -/
def lockTrace : List Mv := [.f 0, .f 0, .f 0, .f 0, .f 1, .f 1, .f 1]

example : (runMv (init 2 2 5) lockTrace).subLock = some 0 ∧
    (runMv (init 2 2 5) lockTrace).f = [.ldTail2 5, .lockSub] := by decide

/-- hypotheses of `blocked_enter_always_wakes`: an `enter` with nothing to
submit (`n = 0`: the ETIME case) and one with an entry. -/
example : (runMv lostState [.poll, .r]).r = .enter 0 := by decide
example : (runMv passState [.r, .r, .f 2, .f 2, .repoll 1, .f 1, .f 1, .f 1, .f 1, .f 1, .f 1, .poll, .r]).r
    = .enter 1 := by decide

/-- hypotheses of `blocked_quiet_poll(s)` -/
example : Quiet lostState := by decide
example : Quiet (init 4 0 7) := by decide

/-- three blocked futures, one slot: three quiet polls, one wake each, oldest first -/
def queueTrace : List Mv :=
  [.f 0, .f 0, .f 0, .f 0, .f 0, .f 0, .f 1, .f 1, .f 1, .f 1, .f 2, .f 2, .f 2, .f 2, .f 3, .f 3, .f 3, .f 3]

example : Quiet (runMv (init 1 4 0) queueTrace) ∧
    (runMv (init 1 4 0) queueTrace).blocked = [1, 2, 3] ∧
    (quietPolls 1 (runMv (init 1 4 0) queueTrace)).woken = [1] ∧
    (quietPolls 2 (runMv (init 1 4 0) queueTrace)).woken = [1, 2] ∧
    (quietPolls 3 (runMv (init 1 4 0) queueTrace)).woken = [1, 2, 3] ∧
    (quietPolls 3 (runMv (init 1 4 0) queueTrace)).blocked = [] := by decide

end A10.Blocked
