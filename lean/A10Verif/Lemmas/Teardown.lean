/-
Lemmas about the teardown model (`Model/Teardown.lean`): the per-operation
invariant, frame properties of the building blocks, token counting.
-/
import A10Verif.Model.Teardown
import A10Verif.Lemmas.OpInv

set_option linter.unusedSimpArgs false

namespace A10.Teardown
open A10 A10.OpSys

/-! ### Per-operation invariant -/

/-- The part of `OpSys.Inv` that only talks about the operation itself. -/
structure OpOk (o : Op) : Prop where
  f1 : o.frees ≤ 1
  f2 : o.boxLive = true ↔ o.frees = 0
  r1 : o.boxLive = true → (o.resInit = true ↔ o.status ≠ .complete)
  l1 : o.futLive = true → o.boxLive = true ∧ o.status ≠ .dropped
  l2 : o.futLive = false → o.status = .dropped ∨ o.boxLive = false
  r2 : o.boxLive = false → o.resInit = false
  /-- only a live future is `Running` (its drop turns it into `Dropped`) -/
  rn : isRunning o.status = true → o.futLive = true

/-- The kernel owes the operation a final completion: it is running, or it
was dropped while running and its state has not been reclaimed yet. -/
def isDropped : Status → Bool
  | .dropped => true
  | _ => false

def activeB (o : Op) : Bool := isRunning o.status || (isDropped o.status && o.boxLive)

theorem opOk_init (m : Bool) : OpOk { multi := m } := by
  constructor <;> simp

theorem opOk_pollAux (o : Op) (w : Nat) (room : Bool) (fuel : Nat) :
    OpOk o → o.futLive = true → OpOk (o.pollAux w room fuel).1 := by
  fun_induction Op.pollAux o w room fuel
  case case12 o fuel r hs x r' hn hneg hre hm ih =>
    intro h hf
    apply ih
    · obtain ⟨f1, f2, r1, l1, l2, r2, rn⟩ := h
      constructor <;> simp_all
    · exact hf
  all_goals
    intro h hf
    obtain ⟨f1, f2, r1, l1, l2, r2, rn⟩ := h
    constructor <;> simp_all

theorem opOk_poll (o : Op) (w : Nat) (room : Bool) (h : OpOk o) (hf : o.futLive = true) :
    OpOk (o.poll w room).1 := opOk_pollAux o w room 2 h hf

theorem opOk_update (o o' : Op) (c : Res) (effs : List Eff) (h : OpOk o)
    (ha : o.status = .dropped → o.boxLive = true) (hu : o.update c = some (o', effs)) :
    OpOk o' := by
  obtain ⟨f1, f2, r1, l1, l2, r2, rn⟩ := h
  cases o with
  | mk multi status waker boxLive resInit futLive frees resDrops =>
  cases status <;> simp [Op.update] at hu
  · cases hm : fMore c.flags <;> cases multi <;> cases waker <;> simp_all <;>
      (obtain ⟨rfl, _⟩ := hu; constructor <;> simp_all [isRunning])
  · cases hm : fMore c.flags <;> cases multi <;> cases waker <;> simp_all <;>
      (obtain ⟨rfl, _⟩ := hu; constructor <;> simp_all [isRunning])
  · cases hm : fMore c.flags <;> simp_all <;> (obtain ⟨rfl, _⟩ := hu; constructor <;> simp_all [isRunning])

theorem opOk_dropFut (o : Op) (room : Bool) (h : OpOk o) (hf : o.futLive = true) :
    OpOk (o.dropFut room).1 := by
  obtain ⟨f1, f2, r1, l1, l2, r2, rn⟩ := h
  cases o with
  | mk multi status waker boxLive resInit futLive frees resDrops =>
  cases status <;> (constructor <;> simp_all [Op.dropFut, isRunning])

/-- What `poll` does to the token an operation is owed: a submission is made
exactly when an inactive operation becomes active; nothing else changes it. -/
theorem pollAux_active (o : Op) (w : Nat) (room : Bool) (fuel : Nat) :
    OpOk o → o.futLive = true →
    (((o.pollAux w room fuel).2.2.contains .submit = true →
        activeB o = false ∧ activeB (o.pollAux w room fuel).1 = true) ∧
     ((o.pollAux w room fuel).2.2.contains .submit = false →
        activeB (o.pollAux w room fuel).1 = activeB o)) := by
  fun_induction Op.pollAux o w room fuel
  case case12 o fuel r hs x r' hn hneg hre hm ih =>
    intro h hf
    have h' : OpOk { o with status := .notStarted } := by
      obtain ⟨f1, f2, r1, l1, l2, r2, rn⟩ := h
      constructor <;> simp_all
    have := ih h' hf
    simp_all [activeB, isRunning, isDropped]
  all_goals
    intro h hf
    have := h.l1 hf
    simp_all [activeB, isRunning, isDropped]

theorem poll_active (o : Op) (w : Nat) (room : Bool) (h : OpOk o) (hf : o.futLive = true) :
    ((o.poll w room).2.2.contains .submit = true →
        activeB o = false ∧ activeB (o.poll w room).1 = true) ∧
    ((o.poll w room).2.2.contains .submit = false →
        activeB (o.poll w room).1 = activeB o) := pollAux_active o w room 2 h hf

/-- The resources either stay with the state or are handed to the caller
(`Ok` of a single-shot operation) or dropped (`Err`, end of a stream); `poll`
never conjures them up. An `Ok` is only ever returned by a state that still
holds its resources (a multishot stream keeps them while handing out items). -/
theorem pollAux_res (o : Op) (w : Nat) (room : Bool) (fuel : Nat) :
    OpOk o → o.futLive = true →
    (b2n (o.pollAux w room fuel).1.resInit ≤ b2n o.resInit ∧
     (o.multi = false →
       b2n (o.pollAux w room fuel).1.resInit + b2n (isReadyOk (o.pollAux w room fuel).2.1) ≤ b2n o.resInit) ∧
     (isReadyOk (o.pollAux w room fuel).2.1 = true → o.resInit = true) ∧
     (o.pollAux w room fuel).1.futLive = true) := by
  fun_induction Op.pollAux o w room fuel
  case case12 o fuel r hs x r' hn hneg hre hm ih =>
    intro h hf
    have h' : OpOk { o with status := .notStarted } := by
      obtain ⟨f1, f2, r1, l1, l2, r2, rn⟩ := h
      constructor <;> simp_all
    exact ih h' hf
  all_goals
    intro h hf
    have := h.l1 hf
    have := h.r1 this.1
    simp_all [b2n, isReadyOk]

theorem poll_res (o : Op) (w : Nat) (room : Bool) (h : OpOk o) (hf : o.futLive = true) :
    b2n (o.poll w room).1.resInit ≤ b2n o.resInit ∧
    (o.multi = false →
      b2n (o.poll w room).1.resInit + b2n (isReadyOk (o.poll w room).2.1) ≤ b2n o.resInit) ∧
    (isReadyOk (o.poll w room).2.1 = true → o.resInit = true) ∧
    (o.poll w room).1.futLive = true := pollAux_res o w room 2 h hf

/-- Processing the FINAL completion (no `F_MORE`) of an active operation: it is
no longer active afterwards, its resources are not re-created, the future is
untouched. -/
theorem update_final (o : Op) (c : Res) (h : OpOk o) (ha : activeB o = true)
    (hf : fMore c.flags = false) :
    ∃ o' effs, o.update c = some (o', effs) ∧ activeB o' = false ∧ OpOk o' ∧
      b2n o'.resInit ≤ b2n o.resInit ∧ o'.futLive = o.futLive := by
  obtain ⟨f1, f2, r1, l1, l2, r2, rn⟩ := h
  cases o with
  | mk multi status waker boxLive resInit futLive frees resDrops =>
  cases status <;> simp_all [activeB, isRunning, isDropped, Op.update]
  · cases multi <;> cases waker <;> simp <;> constructor <;> (try simp_all [isRunning])
  · simp [b2n]
    constructor <;> (try simp_all [isRunning])

/-- Processing a completion with `F_MORE` of an active operation (a multishot
item, the result of a zero-copy send): it stays active, nothing is freed. -/
theorem update_more (o : Op) (c : Res) (h : OpOk o) (ha : activeB o = true)
    (hf : fMore c.flags = true) :
    ∃ o' effs, o.update c = some (o', effs) ∧ activeB o' = true ∧ OpOk o' ∧
      o'.resInit = o.resInit ∧ o'.futLive = o.futLive ∧ Eff.free ∉ effs := by
  obtain ⟨f1, f2, r1, l1, l2, r2, rn⟩ := h
  cases o with
  | mk multi status waker boxLive resInit futLive frees resDrops =>
  cases status <;> simp_all [activeB, isRunning, isDropped, Op.update]
  · cases multi <;> cases waker <;> simp <;>
      (refine ⟨_, _, ⟨rfl, rfl⟩, by simp, ?_, by simp, by simp, by simp⟩) <;>
      (constructor <;> simp_all [isRunning])
  · refine ⟨_, _, ⟨rfl, rfl⟩, by simp, ?_, by simp, by simp, by simp⟩
    constructor <;> simp_all [isRunning]

theorem dropFut_active (o : Op) (room : Bool) (h : OpOk o) (hf : o.futLive = true) :
    activeB (o.dropFut room).1 = activeB o ∧ b2n (o.dropFut room).1.resInit ≤ b2n o.resInit ∧
    (o.dropFut room).1.futLive = false := by
  obtain ⟨f1, f2, r1, l1, l2, r2, rn⟩ := h
  cases o with
  | mk multi status waker boxLive resInit futLive frees resDrops =>
  cases status <;> simp_all [Op.dropFut, activeB, isRunning, isDropped, b2n] <;> split <;> simp

/-- `update` never touches the future and never re-creates the resources. -/
theorem update_mono (o o' : Op) (c : Res) (effs : List Eff) (hu : o.update c = some (o', effs)) :
    o'.futLive = o.futLive ∧ b2n o'.resInit ≤ b2n o.resInit := by
  cases o with
  | mk multi status waker boxLive resInit futLive frees resDrops =>
  cases status <;> simp [Op.update] at hu
  · cases hm : fMore c.flags <;> cases multi <;> cases waker <;> simp_all <;>
      (obtain ⟨rfl, _⟩ := hu; simp)
  · cases hm : fMore c.flags <;> cases multi <;> cases waker <;> simp_all <;>
      (obtain ⟨rfl, _⟩ := hu; simp)
  · cases hm : fMore c.flags <;> simp_all <;> (obtain ⟨rfl, _⟩ := hu; simp [b2n]) <;> split <;> simp

/-! ### Frames: the kernel's moves leave the objects alone -/

@[simp] theorem emit_objs (s : St) (l : String) : (s.emit l).toObjs = s.toObjs := rfl
@[simp] theorem emit_queues (s : St) (l : String) : (s.emit l).toQueues = s.toQueues := rfl
@[simp] theorem emit_cqLen (s : St) (l : String) : (s.emit l).cqLen = s.cqLen := rfl
@[simp] theorem emit_sqLen (s : St) (l : String) : (s.emit l).sqLen = s.sqLen := rfl

@[simp] theorem postCqe_objs (s : St) (c : Cqe) : (s.postCqe c).toObjs = s.toObjs := by
  unfold St.postCqe; split <;> rfl
@[simp] theorem postCqe_cqLen (s : St) (c : Cqe) : (s.postCqe c).cqLen = s.cqLen := by
  unfold St.postCqe; split <;> rfl
@[simp] theorem postCqe_sqLen (s : St) (c : Cqe) : (s.postCqe c).sqLen = s.sqLen := by
  unfold St.postCqe; split <;> rfl
@[simp] theorem postCqe_sq (s : St) (c : Cqe) : (s.postCqe c).sq = s.sq := by
  unfold St.postCqe; split <;> rfl
@[simp] theorem postCqe_inflight (s : St) (c : Cqe) : (s.postCqe c).inflight = s.inflight := by
  unfold St.postCqe; split <;> rfl
@[simp] theorem postCqe_fdCloses (s : St) (c : Cqe) : (s.postCqe c).fdCloses = s.fdCloses := by
  unfold St.postCqe; split <;> rfl

@[simp] theorem flushOverflow_objs (s : St) : s.flushOverflow.toObjs = s.toObjs := rfl
@[simp] theorem flushOverflow_cqLen (s : St) : s.flushOverflow.cqLen = s.cqLen := rfl
@[simp] theorem flushOverflow_sqLen (s : St) : s.flushOverflow.sqLen = s.sqLen := rfl
@[simp] theorem flushOverflow_sq (s : St) : s.flushOverflow.sq = s.sq := rfl
@[simp] theorem flushOverflow_inflight (s : St) : s.flushOverflow.inflight = s.inflight := rfl
@[simp] theorem flushOverflow_fdCloses (s : St) : s.flushOverflow.fdCloses = s.fdCloses := rfl

@[simp] theorem closeFd_objs (s : St) (k : Nat) : (s.closeFd k).toObjs = s.toObjs := rfl
@[simp] theorem closeFd_cqLen (s : St) (k : Nat) : (s.closeFd k).cqLen = s.cqLen := rfl
@[simp] theorem closeFd_sqLen (s : St) (k : Nat) : (s.closeFd k).sqLen = s.sqLen := rfl

@[simp] theorem releaseSlot_objs (s : St) (j : Nat) : (s.releaseSlot j).toObjs = s.toObjs := rfl
@[simp] theorem releaseSlot_cqLen (s : St) (j : Nat) : (s.releaseSlot j).cqLen = s.cqLen := rfl
@[simp] theorem releaseSlot_sqLen (s : St) (j : Nat) : (s.releaseSlot j).sqLen = s.sqLen := rfl
@[simp] theorem releaseSlot_sq (s : St) (j : Nat) : (s.releaseSlot j).sq = s.sq := rfl
@[simp] theorem releaseSlot_fdCloses (s : St) (j : Nat) : (s.releaseSlot j).fdCloses = s.fdCloses := rfl

@[simp] theorem closeIdx_objs (s : St) (fi : Nat) : (s.closeIdx fi).toObjs = s.toObjs := by
  cases fi <;> simp [St.closeIdx] <;> split <;> (try split) <;> simp
@[simp] theorem closeIdx_cqLen (s : St) (fi : Nat) : (s.closeIdx fi).cqLen = s.cqLen := by
  cases fi <;> simp [St.closeIdx] <;> split <;> (try split) <;> simp
@[simp] theorem closeIdx_sqLen (s : St) (fi : Nat) : (s.closeIdx fi).sqLen = s.sqLen := by
  cases fi <;> simp [St.closeIdx] <;> split <;> (try split) <;> simp
@[simp] theorem closeIdx_sq (s : St) (fi : Nat) : (s.closeIdx fi).sq = s.sq := by
  cases fi <;> simp [St.closeIdx, St.emit] <;> split <;> (try split) <;> simp
@[simp] theorem closeIdx_fdCloses (s : St) (fi : Nat) : (s.closeIdx fi).fdCloses = s.fdCloses := by
  cases fi <;> simp [St.closeIdx, St.emit] <;> split <;> (try split) <;> simp

@[simp] theorem consumeOne_objs (s : St) (e : SqEntry) : (s.consumeOne e).toObjs = s.toObjs := by
  cases e <;> simp [St.consumeOne] <;> split <;> simp
@[simp] theorem consumeOne_cqLen (s : St) (e : SqEntry) : (s.consumeOne e).cqLen = s.cqLen := by
  cases e <;> simp [St.consumeOne] <;> split <;> simp
@[simp] theorem consumeOne_sqLen (s : St) (e : SqEntry) : (s.consumeOne e).sqLen = s.sqLen := by
  cases e <;> simp [St.consumeOne] <;> split <;> simp
@[simp] theorem consumeOne_sq (s : St) (e : SqEntry) : (s.consumeOne e).sq = s.sq := by
  cases e <;> simp [St.consumeOne] <;> split <;> simp [St.closeFd]

@[simp] theorem consume_objs (s : St) (es : List SqEntry) : (s.consume es).toObjs = s.toObjs := by
  induction es generalizing s with
  | nil => rfl
  | cons e es ih => simp [St.consume, ih]
@[simp] theorem consume_cqLen (s : St) (es : List SqEntry) : (s.consume es).cqLen = s.cqLen := by
  induction es generalizing s with
  | nil => rfl
  | cons e es ih => simp [St.consume, ih]
@[simp] theorem consume_sqLen (s : St) (es : List SqEntry) : (s.consume es).sqLen = s.sqLen := by
  induction es generalizing s with
  | nil => rfl
  | cons e es ih => simp [St.consume, ih]
@[simp] theorem consume_sq (s : St) (es : List SqEntry) : (s.consume es).sq = s.sq := by
  induction es generalizing s with
  | nil => rfl
  | cons e es ih => simp [St.consume, ih]

@[simp] theorem consumeAll_objs (s : St) : s.consumeAll.toObjs = s.toObjs := by simp [St.consumeAll]
@[simp] theorem consumeAll_cqLen (s : St) : s.consumeAll.cqLen = s.cqLen := by simp [St.consumeAll]
@[simp] theorem consumeAll_sqLen (s : St) : s.consumeAll.sqLen = s.sqLen := by simp [St.consumeAll]
@[simp] theorem consumeAll_sq (s : St) : s.consumeAll.sq = [] := by simp [St.consumeAll]

@[simp] theorem wakeBlocked_objs (s : St) : s.wakeBlocked.toObjs = s.toObjs := rfl
@[simp] theorem wakeBlocked_cqLen (s : St) : s.wakeBlocked.cqLen = s.cqLen := rfl
@[simp] theorem wakeBlocked_sqLen (s : St) : s.wakeBlocked.sqLen = s.sqLen := rfl
@[simp] theorem wakeBlocked_sq (s : St) : s.wakeBlocked.sq = s.sq := rfl
@[simp] theorem wakeBlocked_inflight (s : St) : s.wakeBlocked.inflight = s.inflight := rfl
@[simp] theorem wakeBlocked_cq (s : St) : s.wakeBlocked.cq = s.cq := rfl
@[simp] theorem wakeBlocked_overflow (s : St) : s.wakeBlocked.overflow = s.overflow := rfl
@[simp] theorem wakeBlocked_fdCloses (s : St) : s.wakeBlocked.fdCloses = s.fdCloses := rfl

@[simp] theorem kpostQuiet_objs (s : St) (i : Nat) (r : Int) (f : Nat) : (s.kpostQuiet i r f).toObjs = s.toObjs := by
  unfold St.kpostQuiet; split <;> simp
@[simp] theorem kpostQuiet_cqLen (s : St) (i : Nat) (r : Int) (f : Nat) : (s.kpostQuiet i r f).cqLen = s.cqLen := by
  unfold St.kpostQuiet; split <;> simp
@[simp] theorem kpostQuiet_sqLen (s : St) (i : Nat) (r : Int) (f : Nat) : (s.kpostQuiet i r f).sqLen = s.sqLen := by
  unfold St.kpostQuiet; split <;> simp
@[simp] theorem kpostQuiet_sq (s : St) (i : Nat) (r : Int) (f : Nat) : (s.kpostQuiet i r f).sq = s.sq := by
  unfold St.kpostQuiet; split <;> simp
@[simp] theorem kpostQuiet_fdCloses (s : St) (i : Nat) (r : Int) (f : Nat) :
    (s.kpostQuiet i r f).fdCloses = s.fdCloses := by
  unfold St.kpostQuiet; split <;> simp

theorem foldl_kpost_frame (posts : List Post) (s : St) :
    (posts.foldl (fun (s : St) p => s.kpostQuiet p.1 p.2.1 p.2.2) s).toObjs = s.toObjs ∧
    (posts.foldl (fun (s : St) p => s.kpostQuiet p.1 p.2.1 p.2.2) s).cqLen = s.cqLen ∧
    (posts.foldl (fun (s : St) p => s.kpostQuiet p.1 p.2.1 p.2.2) s).sqLen = s.sqLen ∧
    (posts.foldl (fun (s : St) p => s.kpostQuiet p.1 p.2.1 p.2.2) s).sq = s.sq ∧
    (posts.foldl (fun (s : St) p => s.kpostQuiet p.1 p.2.1 p.2.2) s).fdCloses = s.fdCloses := by
  induction posts generalizing s with
  | nil => simp
  | cons p ps ih => simp [List.foldl, ih]

@[simp] theorem enter_objs (s : St) (m : Nat) (ge : Bool) (posts : List Post) :
    (s.enter m ge posts).toObjs = s.toObjs := by
  unfold St.enter
  simp only [wakeBlocked_objs, emit_objs]
  split <;> simp [(foldl_kpost_frame posts _).1]
@[simp] theorem enter_cqLen (s : St) (m : Nat) (ge : Bool) (posts : List Post) :
    (s.enter m ge posts).cqLen = s.cqLen := by
  unfold St.enter
  simp only [wakeBlocked_cqLen, emit_cqLen]
  split <;> simp [(foldl_kpost_frame posts _).2.1]
@[simp] theorem enter_sqLen (s : St) (m : Nat) (ge : Bool) (posts : List Post) :
    (s.enter m ge posts).sqLen = s.sqLen := by
  unfold St.enter
  simp only [wakeBlocked_sqLen, emit_sqLen]
  split <;> simp [(foldl_kpost_frame posts _).2.2.1]
@[simp] theorem enter_sq (s : St) (m : Nat) (ge : Bool) (posts : List Post) :
    (s.enter m ge posts).sq = [] := by
  unfold St.enter
  simp only [wakeBlocked_sq]
  split <;> simp [St.emit, (foldl_kpost_frame posts _).2.2.2.1]

@[simp] theorem cancelAll_objs (s : St) (l : List Nat) : (s.cancelAll l).toObjs = s.toObjs := by
  induction l generalizing s with
  | nil => rfl
  | cons i is ih => simp [St.cancelAll, ih]
@[simp] theorem cancelAll_cqLen (s : St) (l : List Nat) : (s.cancelAll l).cqLen = s.cqLen := by
  induction l generalizing s with
  | nil => rfl
  | cons i is ih => simp [St.cancelAll, ih]
@[simp] theorem cancelAll_sq (s : St) (l : List Nat) : (s.cancelAll l).sq = s.sq := by
  induction l generalizing s with
  | nil => rfl
  | cons i is ih => simp [St.cancelAll, ih]
@[simp] theorem cancelAll_inflight (s : St) (l : List Nat) : (s.cancelAll l).inflight = s.inflight := by
  induction l generalizing s with
  | nil => rfl
  | cons i is ih => simp [St.cancelAll, ih]
@[simp] theorem cancelAll_fdCloses (s : St) (l : List Nat) : (s.cancelAll l).fdCloses = s.fdCloses := by
  induction l generalizing s with
  | nil => rfl
  | cons i is ih => simp [St.cancelAll, ih]

/-! ### Frames: processing completions leaves the queues alone -/

@[simp] theorem useSq_queues (s : St) : s.useSq.toQueues = s.toQueues := rfl
@[simp] theorem useCq_queues (s : St) : s.useCq.toQueues = s.toQueues := rfl
@[simp] theorem useSq_cqLen (s : St) : s.useSq.cqLen = s.cqLen := rfl
@[simp] theorem useCq_cqLen (s : St) : s.useCq.cqLen = s.cqLen := rfl
@[simp] theorem useSq_sqLen (s : St) : s.useSq.sqLen = s.sqLen := rfl
@[simp] theorem useCq_sqLen (s : St) : s.useCq.sqLen = s.sqLen := rfl

@[simp] theorem settlePool_queues (s : St) : s.settlePool.toQueues = s.toQueues := by
  unfold St.settlePool; split <;> rfl
@[simp] theorem settlePool_cqLen (s : St) : s.settlePool.cqLen = s.cqLen := by
  unfold St.settlePool; split <;> rfl
@[simp] theorem settlePool_sqLen (s : St) : s.settlePool.sqLen = s.sqLen := by
  unfold St.settlePool; split <;> rfl
@[simp] theorem settlePool_ops (s : St) : s.settlePool.ops = s.ops := by
  unfold St.settlePool; split <;> rfl
@[simp] theorem settlePool_ringLive (s : St) : s.settlePool.ringLive = s.ringLive := by
  unfold St.settlePool; split <;> rfl

theorem applyEffs_frame (s : St) (i : Nat) (effs : List Eff) :
    (applyEffs s i effs).toObjs = s.toObjs ∧ (applyEffs s i effs).toQueues = s.toQueues ∧
    (applyEffs s i effs).cqLen = s.cqLen ∧ (applyEffs s i effs).sqLen = s.sqLen := by
  induction effs generalizing s with
  | nil => simp [applyEffs]
  | cons e es ih => cases e <;> simp [applyEffs, ih]

@[simp] theorem applyEffs_objs (s : St) (i : Nat) (effs : List Eff) :
    (applyEffs s i effs).toObjs = s.toObjs := (applyEffs_frame s i effs).1
@[simp] theorem applyEffs_queues (s : St) (i : Nat) (effs : List Eff) :
    (applyEffs s i effs).toQueues = s.toQueues := (applyEffs_frame s i effs).2.1
@[simp] theorem applyEffs_cqLen (s : St) (i : Nat) (effs : List Eff) :
    (applyEffs s i effs).cqLen = s.cqLen := (applyEffs_frame s i effs).2.2.1
@[simp] theorem applyEffs_sqLen (s : St) (i : Nat) (effs : List Eff) :
    (applyEffs s i effs).sqLen = s.sqLen := (applyEffs_frame s i effs).2.2.2

@[simp] theorem process_queues (s : St) (c : Cqe) : (s.process c).toQueues = s.toQueues := by
  unfold St.process
  split
  · rfl
  · split
    · rfl
    · split <;> simp
@[simp] theorem process_cqLen (s : St) (c : Cqe) : (s.process c).cqLen = s.cqLen := by
  unfold St.process
  split
  · rfl
  · split
    · rfl
    · split <;> simp
@[simp] theorem process_ringLive (s : St) (c : Cqe) : (s.process c).ringLive = s.ringLive := by
  unfold St.process
  split
  · rfl
  · split
    · rfl
    · split <;> simp [(applyEffs_frame _ _ _).1]

@[simp] theorem processAll_queues (s : St) (cs : List Cqe) : (s.processAll cs).toQueues = s.toQueues := by
  induction cs generalizing s with
  | nil => rfl
  | cons c cs ih => simp [St.processAll, ih]
@[simp] theorem processAll_cqLen (s : St) (cs : List Cqe) : (s.processAll cs).cqLen = s.cqLen := by
  induction cs generalizing s with
  | nil => rfl
  | cons c cs ih => simp [St.processAll, ih]
@[simp] theorem processAll_ringLive (s : St) (cs : List Cqe) : (s.processAll cs).ringLive = s.ringLive := by
  induction cs generalizing s with
  | nil => rfl
  | cons c cs ih => simp [St.processAll, ih]

/-! ### Token counting

Every submission of an operation is, at any time, in exactly one place: the
submission queue (published), the kernel (in flight), the completion queue or
the overflow list (its FINAL completion — the one without `F_MORE` — waits to
be processed). Completions with `F_MORE` (items of a multishot operation, the
result of a zero-copy send) carry no token: the submission stays in flight. -/

/-- `c` is the final completion of operation `i`. -/
def isOpCqe (i : Nat) (c : Cqe) : Bool :=
  match c.ud with
  | .op j => j == i && !fMore c.flags
  | .reserved _ => false

/-- `c` is a completion (final or not) of operation `i`. -/
def cqeOf (i : Nat) (c : Cqe) : Bool :=
  match c.ud with
  | .op j => j == i
  | .reserved _ => false

@[simp] theorem fMore_zero : fMore 0 = false := rfl

theorem cqeOf_of_isOpCqe (i : Nat) (c : Cqe) (h : isOpCqe i c = true) : cqeOf i c = true := by
  unfold isOpCqe at h; unfold cqeOf
  split <;> simp_all

def tokQ (q : Queues) (i : Nat) : Nat :=
  q.sq.count (.op i) + q.inflight.count i + q.cq.countP (isOpCqe i) + q.overflow.countP (isOpCqe i)

/-- The number of tokens operation `i` is owed. -/
def want (ops : List TOp) (i : Nat) : Nat :=
  match ops[i]? with
  | some t => b2n (activeB t.op)
  | none => 0

@[simp] theorem b2n_true : b2n true = 1 := rfl
@[simp] theorem b2n_false : b2n false = 0 := rfl
theorem b2n_le_one (b : Bool) : b2n b ≤ 1 := by cases b <;> simp

theorem tokQ_postCqe (s : St) (c : Cqe) (i : Nat) :
    tokQ (s.postCqe c).toQueues i = tokQ s.toQueues i + b2n (isOpCqe i c) := by
  unfold St.postCqe tokQ
  split <;> simp [List.countP_append, List.countP_cons] <;> cases isOpCqe i c <;> simp <;> omega

theorem tokQ_flush (s : St) (i : Nat) : tokQ s.flushOverflow.toQueues i = tokQ s.toQueues i := by
  unfold St.flushOverflow tokQ
  simp only [List.countP_append]
  have := List.take_append_drop (s.cqLen - s.cq.length) s.overflow
  have h2 : List.countP (isOpCqe i) s.overflow =
      List.countP (isOpCqe i) (s.overflow.take (s.cqLen - s.cq.length)) +
      List.countP (isOpCqe i) (s.overflow.drop (s.cqLen - s.cq.length)) := by
    rw [← List.countP_append, this]
  omega

theorem tokQ_consumeOne (s : St) (e : SqEntry) (i : Nat) :
    tokQ (s.consumeOne e).toQueues i = tokQ s.toQueues i + b2n (e == SqEntry.op i) := by
  cases e with
  | op j =>
    simp only [St.consumeOne, tokQ, List.count_append]
    by_cases h : j = i <;> simp [h, b2n] <;> omega
  | cancel j =>
    simp only [St.consumeOne]
    split
    · simp [b2n]
    · rw [tokQ_postCqe]; simp [isOpCqe, b2n]
  | close k =>
    simp only [St.consumeOne]
    split
    · simp [St.closeFd, tokQ, b2n]
    · simp only [emit_queues]; rw [tokQ_postCqe]; simp [isOpCqe, St.closeFd, tokQ, b2n]
  | closeIdx fi =>
    simp only [St.consumeOne]
    cases fi with
    | zero => simp [St.closeIdx, b2n]
    | succ j =>
      simp only [St.closeIdx]
      split
      · simp [St.releaseSlot, tokQ, b2n]
      · split <;>
          (simp only [emit_queues]; rw [tokQ_postCqe]; simp [isOpCqe, St.releaseSlot, tokQ, b2n])

theorem tokQ_consume (s : St) (es : List SqEntry) (i : Nat) :
    tokQ (s.consume es).toQueues i = tokQ s.toQueues i + es.count (SqEntry.op i) := by
  induction es generalizing s with
  | nil => simp [St.consume]
  | cons e es ih =>
    simp only [St.consume, ih, tokQ_consumeOne, List.count_cons]
    cases h : (e == SqEntry.op i) <;> simp <;> omega

theorem tokQ_consumeAll (s : St) (i : Nat) : tokQ s.consumeAll.toQueues i = tokQ s.toQueues i := by
  unfold St.consumeAll
  rw [tokQ_consume]
  simp [tokQ]; omega

theorem tokQ_wakeBlocked (s : St) (i : Nat) : tokQ s.wakeBlocked.toQueues i = tokQ s.toQueues i := rfl

theorem canPost_mem (s : St) (j : Nat) (r : Int) (h : s.canPost j r = true) : j ∈ s.inflight := by
  unfold St.canPost at h
  simp only [Bool.and_eq_true] at h
  simpa using h.1

theorem tokQ_kpostQuiet (s : St) (j : Nat) (r : Int) (f : Nat) (i : Nat) :
    tokQ (s.kpostQuiet j r f).toQueues i = tokQ s.toQueues i := by
  unfold St.kpostQuiet
  split
  · rename_i hc
    have hmem := canPost_mem s j r hc
    rw [tokQ_postCqe]
    simp only [tokQ, isOpCqe]
    cases hm : fMore f with
    | true => simp [b2n]
    | false =>
      by_cases h : j = i
      · subst h
        have : 0 < s.inflight.count j := List.count_pos_iff.mpr hmem
        simp [List.count_erase_self]; omega
      · have h' : i ≠ j := fun e => h e.symm
        simp [h, b2n, List.count_erase_of_ne h']
  · rfl

theorem tokQ_foldl_kpost (posts : List Post) (s : St) (i : Nat) :
    tokQ (posts.foldl (fun (s : St) p => s.kpostQuiet p.1 p.2.1 p.2.2) s).toQueues i = tokQ s.toQueues i := by
  induction posts generalizing s with
  | nil => rfl
  | cons p ps ih => simp [List.foldl, ih, tokQ_kpostQuiet]

theorem tokQ_enter (s : St) (m : Nat) (ge : Bool) (posts : List Post) (i : Nat) :
    tokQ (s.enter m ge posts).toQueues i = tokQ s.toQueues i := by
  unfold St.enter
  simp only [tokQ_wakeBlocked, emit_queues]
  split <;> simp [tokQ_flush, tokQ_foldl_kpost, tokQ_consumeAll]

theorem tokQ_cancelAll (s : St) (l : List Nat) (i : Nat) :
    tokQ (s.cancelAll l).toQueues i = tokQ s.toQueues i + l.count i := by
  induction l generalizing s with
  | nil => simp [St.cancelAll]
  | cons j js ih =>
    simp only [St.cancelAll, ih, tokQ_postCqe, isOpCqe, List.count_cons]
    by_cases h : j = i <;> simp [h, b2n] <;> omega

/-! ### List helpers -/

theorem countP_set_of_getElem? {α : Type} (p : α → Bool) (l : List α) (i : Nat) (a b : α)
    (h : l[i]? = some a) : (l.set i b).countP p + b2n (p a) = l.countP p + b2n (p b) := by
  induction l generalizing i with
  | nil => simp at h
  | cons x xs ih =>
    cases i with
    | zero =>
      simp at h; subst h
      simp [List.countP_cons, b2n]; omega
    | succ i =>
      simp at h
      have := ih i h
      simp [List.countP_cons]; omega

theorem count_set_of_getElem? (l : List Bool) (k : Nat) (h : l[k]? = some true) :
    (l.set k false).count true + 1 = l.count true := by
  have := countP_set_of_getElem? (fun b => b == true) l k true false h
  simpa [List.count_eq_countP] using this

theorem count_pos_of_getElem? (l : List Bool) (k : Nat) (h : l[k]? = some true) :
    0 < l.count true :=
  List.count_pos_iff.mpr (List.mem_of_getElem? h)

theorem countP_pos_of_getElem? {α : Type} (p : α → Bool) (l : List α) (i : Nat) (a : α)
    (h : l[i]? = some a) (hp : p a = true) : 0 < l.countP p :=
  List.countP_pos_iff.mpr ⟨a, List.mem_of_getElem? h, hp⟩

/-! ### What the operations are owed -/

theorem want_set_self (ops : List TOp) (i : Nat) (t t' : TOp) (h : ops[i]? = some t) :
    want (ops.set i t') i = b2n (activeB t'.op) := by
  have hl : i < ops.length := by
    rcases List.getElem?_eq_some_iff.mp h with ⟨hl, _⟩; exact hl
  simp [want, List.getElem?_set, hl]

theorem want_set_ne (ops : List TOp) (i j : Nat) (t' : TOp) (h : j ≠ i) :
    want (ops.set i t') j = want ops j := by
  simp [want, List.getElem?_set, Ne.symm h]

theorem want_of_getElem? (ops : List TOp) (i : Nat) (t : TOp) (h : ops[i]? = some t) :
    want ops i = b2n (activeB t.op) := by
  simp [want, h]

theorem want_append_inactive (ops : List TOp) (t : TOp) (h : activeB t.op = false) (i : Nat) :
    want (ops ++ [t]) i = want ops i := by
  unfold want
  by_cases hl : i < ops.length
  · simp [List.getElem?_append_left hl]
  · have hge : ops.length ≤ i := Nat.le_of_not_lt hl
    rw [List.getElem?_append_right hge]
    have : ops[i]? = none := List.getElem?_eq_none hge
    rw [this]
    cases hi : i - ops.length with
    | zero => simp [h]
    | succ n => simp

def AllOk (ops : List TOp) : Prop := ∀ t ∈ ops, OpOk t.op

theorem allOk_set (ops : List TOp) (i : Nat) (t' : TOp) (h : AllOk ops) (h' : OpOk t'.op) :
    AllOk (ops.set i t') := by
  intro t ht
  rcases List.mem_or_eq_of_mem_set ht with h1 | h1
  · exact h t h1
  · subst h1; exact h'

/-- Shape of one processing step: nothing happens to the operations, or the
addressed operation is updated. -/
theorem process_shape (s : St) (c : Cqe) :
    (s.process c).ops = s.ops ∨
    ∃ i t o' effs, c.ud = .op i ∧ s.ops[i]? = some t ∧ t.op.update ⟨c.res, c.flags⟩ = some (o', effs) ∧
      (s.process c).ops = s.ops.set i { t with op := o' } := by
  unfold St.process
  split
  · left; rfl
  · rename_i i hud
    split
    · left; rfl
    · rename_i t ht
      split
      · left; rfl
      · rename_i r hr
        right
        exact ⟨i, t, r.1, r.2, hud, ht, by simp [hr], by simp [(applyEffs_frame _ _ _).1]⟩

/-! ### Completions that carry no token

A completion with `F_MORE` is processed while its operation is still active:
the operation's token is in the submission queue / in flight (`base`), or its
final completion comes LATER in the queue. `Suf base L`: for every completion in
`L`, `base` plus the final completions from that one on is at least 1. Dropping
a prefix of `L` (processing it) keeps the rest true by construction. -/

def Suf (base : Nat → Nat) : List Cqe → Prop
  | [] => True
  | c :: L => (∀ j, cqeOf j c = true → 1 ≤ base j + (c :: L).countP (isOpCqe j)) ∧ Suf base L

theorem suf_mono (b b' : Nat → Nat) (L : List Cqe) (h : ∀ j, b j ≤ b' j) (hs : Suf b L) : Suf b' L := by
  induction L with
  | nil => trivial
  | cons c L ih =>
    obtain ⟨h1, h2⟩ := hs
    exact ⟨fun j hj => by have := h1 j hj; have := h j; omega, ih h2⟩

theorem suf_append_right (b : Nat → Nat) (A B : List Cqe) (hs : Suf b (A ++ B)) : Suf b B := by
  induction A with
  | nil => exact hs
  | cons c A ih => exact ih hs.2

theorem suf_left (b : Nat → Nat) (A B : List Cqe) (hs : Suf b (A ++ B)) :
    Suf (fun j => b j + B.countP (isOpCqe j)) A := by
  induction A with
  | nil => trivial
  | cons c A ih =>
    have hs' : Suf b (c :: (A ++ B)) := hs
    obtain ⟨h1, h2⟩ := hs'
    refine ⟨fun j hj => ?_, ih h2⟩
    have := h1 j hj
    rw [List.countP_cons, List.countP_append] at this
    show 1 ≤ b j + List.countP (isOpCqe j) B + List.countP (isOpCqe j) (c :: A)
    rw [List.countP_cons]
    omega

/-- Appending a completion at the end of the queue: the tokens it takes out of
`base` (a final completion: one) are the ones it carries itself. -/
theorem suf_snoc (b b' : Nat → Nat) (L : List Cqe) (c : Cqe)
    (hb : ∀ i, b i ≤ b' i + b2n (isOpCqe i c))
    (hc : ∀ j, cqeOf j c = true → 1 ≤ b' j + b2n (isOpCqe j c)) (hs : Suf b L) :
    Suf b' (L ++ [c]) := by
  induction L with
  | nil =>
    show Suf b' [c]
    refine ⟨fun j hj => ?_, trivial⟩
    have := hc j hj
    simp only [b2n] at this
    rw [List.countP_cons, List.countP_nil]
    omega
  | cons c0 L ih =>
    obtain ⟨h1, h2⟩ := hs
    show Suf b' (c0 :: (L ++ [c]))
    refine ⟨fun j hj => ?_, ih h2⟩
    have h3 := h1 j hj
    have h4 := hb j
    simp only [b2n] at h4
    rw [List.countP_cons] at h3
    rw [List.countP_cons, List.countP_append, List.countP_cons, List.countP_nil]
    omega

/-- The tokens not yet turned into a completion. -/
def baseQ (q : Queues) (j : Nat) : Nat := q.sq.count (.op j) + q.inflight.count j

def SufS (s : St) : Prop := Suf (baseQ s.toQueues) (s.cq ++ s.overflow)

theorem postCqe_queue (s : St) (c : Cqe) :
    (s.postCqe c).cq ++ (s.postCqe c).overflow = s.cq ++ s.overflow ++ [c] := by
  unfold St.postCqe
  split
  · rename_i h
    simp only [Bool.and_eq_true, List.isEmpty_iff] at h
    simp [h.1]
  · simp

theorem postCqe_baseQ (s : St) (c : Cqe) (j : Nat) : baseQ (s.postCqe c).toQueues j = baseQ s.toQueues j := by
  unfold St.postCqe baseQ; split <;> rfl

/-- Posting `c` in state `s'` whose queue is that of `s`. -/
theorem sufS_post (s s' : St) (c : Cqe) (hcq : s'.cq = s.cq) (hov : s'.overflow = s.overflow)
    (hb : ∀ i, baseQ s.toQueues i ≤ baseQ s'.toQueues i + b2n (isOpCqe i c))
    (hc : ∀ j, cqeOf j c = true → 1 ≤ baseQ s'.toQueues j + b2n (isOpCqe j c))
    (h : SufS s) : SufS (s'.postCqe c) := by
  unfold SufS
  rw [postCqe_queue, hcq, hov]
  exact suf_snoc _ _ _ _ (fun i => by rw [postCqe_baseQ]; exact hb i)
    (fun j hj => by rw [postCqe_baseQ]; exact hc j hj) h

theorem cqeOf_reserved (j n : Nat) (r : Int) (f : Nat) : cqeOf j ⟨.reserved n, r, f⟩ = false := rfl

theorem sufS_post_reserved (s : St) (n : Nat) (r : Int) (h : SufS s) : SufS (s.postCqe ⟨.reserved n, r, 0⟩) :=
  sufS_post s s _ rfl rfl (fun i => Nat.le_add_right _ _) (fun j hj => by simp [cqeOf] at hj) h

theorem sufS_congr (s s' : St) (hcq : s'.cq = s.cq) (hov : s'.overflow = s.overflow)
    (hb : ∀ j, baseQ s.toQueues j ≤ baseQ s'.toQueues j) (h : SufS s) : SufS s' := by
  unfold SufS at *
  rw [hcq, hov]
  exact suf_mono _ _ _ hb h

theorem sufS_flush (s : St) (h : SufS s) : SufS s.flushOverflow := by
  unfold SufS at *
  show Suf (baseQ s.toQueues) ((s.cq ++ s.overflow.take _) ++ s.overflow.drop _)
  rw [List.append_assoc, List.take_append_drop]
  exact h

theorem sufS_closeIdx (s : St) (fi : Nat) (h : SufS s) : SufS (s.closeIdx fi) := by
  cases fi with
  | zero => exact h
  | succ j =>
    simp only [St.closeIdx]
    split
    · exact sufS_congr s _ rfl rfl (fun _ => Nat.le_refl _) h
    · split
      · exact sufS_congr _ _ rfl rfl (fun _ => Nat.le_refl _)
          (sufS_post s (s.releaseSlot j) _ rfl rfl (fun i => Nat.le_add_right _ _)
            (fun j hj => by simp [cqeOf] at hj) h)
      · exact sufS_congr _ _ rfl rfl (fun _ => Nat.le_refl _)
          (sufS_post s (s.releaseSlot j) _ rfl rfl (fun i => Nat.le_add_right _ _)
            (fun j hj => by simp [cqeOf] at hj) h)

/-- Consuming the entries `es`: an operation's entry moves from "published"
(counted by the caller in `es`) to "in flight". -/
theorem suf_consume (s : St) (es : List SqEntry)
    (h : Suf (fun j => baseQ s.toQueues j + es.count (SqEntry.op j)) (s.cq ++ s.overflow)) :
    SufS (s.consume es) := by
  induction es generalizing s with
  | nil => simpa [St.consume, SufS] using h
  | cons e es ih =>
    simp only [St.consume]
    apply ih
    cases e with
    | op i =>
      refine suf_mono _ _ _ (fun j => ?_) h
      simp only [St.consumeOne, baseQ, List.count_append, List.count_cons]
      by_cases hij : i = j <;> simp [hij] <;> omega
    | cancel i =>
      simp only [St.consumeOne]
      split
      · refine suf_mono _ _ _ (fun j => ?_) h
        simp [List.count_cons]
      · rw [postCqe_queue]
        refine suf_snoc _ _ _ _ (fun j => ?_) (fun j hj => by simp [cqeOf] at hj) h
        rw [postCqe_baseQ]; simp [List.count_cons]
    | close k =>
      simp only [St.consumeOne]
      split
      · refine suf_mono _ _ _ (fun j => ?_) h
        simp [List.count_cons, St.closeFd, St.emit, baseQ]
      · show Suf _ ((((s.closeFd k).postCqe _).emit _).cq ++ (((s.closeFd k).postCqe _).emit _).overflow)
        have hq := postCqe_queue (s.closeFd k) ⟨.reserved 3, -EBADF, 0⟩
        show Suf _ (((s.closeFd k).postCqe _).cq ++ ((s.closeFd k).postCqe _).overflow)
        rw [hq]
        refine suf_snoc _ _ _ _ (fun j => ?_) (fun j hj => by simp [cqeOf] at hj) h
        show _ ≤ baseQ ((s.closeFd k).postCqe _).toQueues j + _ + _
        rw [postCqe_baseQ]; simp [List.count_cons, St.closeFd, baseQ]
    | closeIdx fi =>
      have h1 : SufS (s.closeIdx fi) → Suf (fun j => baseQ (s.consumeOne (.closeIdx fi)).toQueues j
          + es.count (SqEntry.op j)) ((s.consumeOne (.closeIdx fi)).cq ++ (s.consumeOne (.closeIdx fi)).overflow) := by
        intro hh
        exact suf_mono _ _ _ (fun j => Nat.le_add_right _ _) hh
      -- the queue and the tokens are those of `s` plus possibly one reserved completion
      cases fi with
      | zero =>
        refine suf_mono _ _ _ (fun j => ?_) h
        simp [St.consumeOne, St.closeIdx, List.count_cons]
      | succ j' =>
        simp only [St.consumeOne, St.closeIdx]
        split
        · refine suf_mono _ _ _ (fun j => ?_) h
          simp [List.count_cons, St.releaseSlot, St.emit, baseQ]
        · split
          · show Suf _ (((s.releaseSlot j').postCqe _).cq ++ ((s.releaseSlot j').postCqe _).overflow)
            rw [postCqe_queue]
            refine suf_snoc _ _ _ _ (fun j => ?_) (fun j hj => by simp [cqeOf] at hj) h
            show _ ≤ baseQ ((s.releaseSlot j').postCqe _).toQueues j + _ + _
            rw [postCqe_baseQ]; simp [List.count_cons, St.releaseSlot, baseQ]
          · show Suf _ (((s.releaseSlot j').postCqe _).cq ++ ((s.releaseSlot j').postCqe _).overflow)
            rw [postCqe_queue]
            refine suf_snoc _ _ _ _ (fun j => ?_) (fun j hj => by simp [cqeOf] at hj) h
            show _ ≤ baseQ ((s.releaseSlot j').postCqe _).toQueues j + _ + _
            rw [postCqe_baseQ]; simp [List.count_cons, St.releaseSlot, baseQ]

theorem sufS_consumeAll (s : St) (h : SufS s) : SufS s.consumeAll := by
  unfold St.consumeAll
  apply suf_consume
  refine suf_mono _ _ _ (fun j => ?_) h
  simp [baseQ]; omega

theorem sufS_kpostQuiet (s : St) (j : Nat) (r : Int) (f : Nat) (h : SufS s) : SufS (s.kpostQuiet j r f) := by
  unfold St.kpostQuiet
  split
  · rename_i hc
    have hmem := canPost_mem s j r hc
    have hpos : 0 < s.inflight.count j := List.count_pos_iff.mpr hmem
    refine sufS_post s _ _ rfl rfl ?_ ?_ h
    · intro i
      simp only [baseQ, isOpCqe]
      cases hm : fMore f with
      | true => simp
      | false =>
        by_cases hji : j = i
        · subst hji; simp [List.count_erase_self, b2n]; omega
        · have h' : i ≠ j := fun e => hji e.symm
          simp [hji, b2n, List.count_erase_of_ne h']
    · intro i hi
      have hij : j = i := by simpa [cqeOf] using hi
      subst hij
      simp only [baseQ, isOpCqe]
      cases hm : fMore f with
      | true => simp; omega
      | false => simp [b2n]
  · exact h

theorem sufS_foldl_kpost (posts : List Post) (s : St) (h : SufS s) :
    SufS (posts.foldl (fun (s : St) p => s.kpostQuiet p.1 p.2.1 p.2.2) s) := by
  induction posts generalizing s with
  | nil => exact h
  | cons p ps ih => exact ih _ (sufS_kpostQuiet s _ _ _ h)

theorem sufS_enter (s : St) (m : Nat) (ge : Bool) (posts : List Post) (h : SufS s) :
    SufS (s.enter m ge posts) := by
  unfold St.enter
  have h1 := sufS_foldl_kpost posts _ (sufS_consumeAll s h)
  simp only []
  split
  · exact sufS_congr _ _ rfl rfl (fun _ => Nat.le_refl _) (sufS_flush _ h1)
  · exact sufS_congr _ _ rfl rfl (fun _ => Nat.le_refl _) h1

theorem sufS_cancelAll (s : St) (l : List Nat)
    (h : Suf (fun j => baseQ s.toQueues j + l.count j) (s.cq ++ s.overflow)) : SufS (s.cancelAll l) := by
  induction l generalizing s with
  | nil => simpa [St.cancelAll, SufS] using h
  | cons i is ih =>
    simp only [St.cancelAll]
    apply ih
    rw [postCqe_queue]
    refine suf_snoc _ _ _ _ (fun k => ?_) (fun k hk => ?_) h
    · rw [postCqe_baseQ]
      by_cases hik : i = k
      · subst hik; simp [List.count_cons, isOpCqe, b2n]; omega
      · simp [List.count_cons, hik, isOpCqe, b2n]
    · have hik : i = k := by simpa [cqeOf] using hk
      subst hik
      simp [isOpCqe, b2n]

/-! ### Processing -/

/-- One processing step keeps the token equation (`Q` = the tokens held
elsewhere, `c :: L` = the completions still to be processed). -/
theorem process_tok (s : St) (c : Cqe) (L : List Cqe) (Q : Nat → Nat) (hok : AllOk s.ops)
    (h : ∀ i, Q i + (c :: L).countP (isOpCqe i) = want s.ops i)
    (hs : ∀ j, cqeOf j c = true → 1 ≤ Q j + (c :: L).countP (isOpCqe j)) :
    AllOk (s.process c).ops ∧ (∀ i, Q i + L.countP (isOpCqe i) = want (s.process c).ops i) ∧
    (s.process c).panicked = s.panicked := by
  cases hud : c.ud with
  | reserved n =>
    have hops : (s.process c) = s := by simp [St.process, hud]
    rw [hops]
    refine ⟨hok, fun i => ?_, rfl⟩
    have := h i
    simpa [List.countP_cons, isOpCqe, hud] using this
  | op j =>
    have hj := h j
    have hcj : cqeOf j c = true := by simp [cqeOf, hud]
    have hpos := hs j hcj
    -- operation j exists and is active
    cases hget : s.ops[j]? with
    | none => rw [hj] at hpos; simp [want, hget] at hpos
    | some t =>
      have hw : want s.ops j = b2n (activeB t.op) := want_of_getElem? _ _ _ hget
      have hact : activeB t.op = true := by
        cases ha : activeB t.op with
        | true => rfl
        | false => rw [hj, hw, ha] at hpos; simp at hpos
      have hokt : OpOk t.op := hok t (List.mem_of_getElem? hget)
      have hother : ∀ i, i ≠ j → isOpCqe i c = false := by
        intro i hij
        simp [isOpCqe, hud]; intro e; exact absurd e.symm hij
      cases hm : fMore c.flags with
      | false =>
        have hfin : isOpCqe j c = true := by simp [isOpCqe, hud, hm]
        obtain ⟨o', effs, hu, hina, hok', _, _⟩ := update_final t.op ⟨c.res, c.flags⟩ hokt hact hm
        have hops : (s.process c).ops = s.ops.set j { t with op := o' } := by
          simp [St.process, hud, hget, hu, (applyEffs_frame _ _ _).1]
        have hpan : (s.process c).panicked = s.panicked := by
          simp only [St.process, hud, hget, hu]
          rw [show ∀ x : St, x.settlePool.panicked = x.panicked from fun x => by
            unfold St.settlePool; split <;> rfl]
          have : ∀ (x : St) (es : List Eff), (applyEffs x j es).panicked = x.panicked := by
            intro x es
            induction es generalizing x with
            | nil => rfl
            | cons e es ih => cases e <;> simp [applyEffs, ih]
          rw [this]
        rw [hops]
        refine ⟨allOk_set _ _ _ hok hok', fun i => ?_, hpan⟩
        by_cases hij : i = j
        · subst hij
          rw [want_set_self _ _ _ _ hget]
          simp only [hina, b2n_false]
          simp only [List.countP_cons, hfin, if_true] at hj
          rw [hw, hact] at hj; simp at hj; omega
        · rw [want_set_ne _ _ _ _ hij]
          have := h i
          simpa [List.countP_cons, hother i hij] using this
      | true =>
        have hnf : isOpCqe j c = false := by simp [isOpCqe, hud, hm]
        obtain ⟨o', effs, hu, hact', hok', _, _, _⟩ := update_more t.op ⟨c.res, c.flags⟩ hokt hact hm
        have hops : (s.process c).ops = s.ops.set j { t with op := o' } := by
          simp [St.process, hud, hget, hu, (applyEffs_frame _ _ _).1]
        have hpan : (s.process c).panicked = s.panicked := by
          simp only [St.process, hud, hget, hu]
          rw [show ∀ x : St, x.settlePool.panicked = x.panicked from fun x => by
            unfold St.settlePool; split <;> rfl]
          have : ∀ (x : St) (es : List Eff), (applyEffs x j es).panicked = x.panicked := by
            intro x es
            induction es generalizing x with
            | nil => rfl
            | cons e es ih => cases e <;> simp [applyEffs, ih]
          rw [this]
        rw [hops]
        refine ⟨allOk_set _ _ _ hok hok', fun i => ?_, hpan⟩
        by_cases hij : i = j
        · subst hij
          rw [want_set_self _ _ _ _ hget]
          simp only [hact', b2n_true]
          simp only [List.countP_cons, hnf] at hj
          rw [hw, hact] at hj; simpa using hj
        · rw [want_set_ne _ _ _ _ hij]
          have := h i
          simpa [List.countP_cons, hother i hij] using this

theorem processAll_tok (s : St) (L : List Cqe) (Q : Nat → Nat) (hok : AllOk s.ops)
    (h : ∀ i, Q i + L.countP (isOpCqe i) = want s.ops i) (hs : Suf Q L) :
    AllOk (s.processAll L).ops ∧ (∀ i, Q i = want (s.processAll L).ops i) ∧
    (s.processAll L).panicked = s.panicked := by
  induction L generalizing s with
  | nil => exact ⟨hok, by simpa [St.processAll] using h, rfl⟩
  | cons c cs ih =>
    obtain ⟨h1, h2, h3⟩ := process_tok s c cs Q hok h hs.1
    obtain ⟨r1, r2, r3⟩ := ih (s.process c) h1 h2 hs.2
    exact ⟨r1, r2, by simp only [St.processAll]; rw [r3, h3]⟩

/-- The operations, the token equation and the position of the completions that
carry no token, as one statement about a state. -/
def TokEq (s : St) : Prop := AllOk s.ops ∧ (∀ i, tokQ s.toQueues i = want s.ops i) ∧ SufS s

theorem queues_fields (a b : St) (h : a.toQueues = b.toQueues) :
    a.cq = b.cq ∧ a.overflow = b.overflow ∧ a.sq = b.sq ∧ a.inflight = b.inflight := by
  have h1 : a.toQueues.cq = b.toQueues.cq := by rw [h]
  have h2 : a.toQueues.overflow = b.toQueues.overflow := by rw [h]
  have h3 : a.toQueues.sq = b.toQueues.sq := by rw [h]
  have h4 : a.toQueues.inflight = b.toQueues.inflight := by rw [h]
  exact ⟨h1, h2, h3, h4⟩

theorem drainCq_spec (s : St) (h : TokEq s) : TokEq s.drainCq ∧ s.drainCq.panicked = s.panicked := by
  obtain ⟨hok, htok, hsuf⟩ := h
  unfold St.drainCq
  have key := processAll_tok ({ s with cq := [] } : St) s.cq
    (fun i => tokQ ({ s with cq := [] } : St).toQueues i) hok (by
      intro i
      have := htok i
      simp only [tokQ] at this ⊢
      simp; omega) (by
      have := suf_left _ _ _ hsuf
      refine suf_mono _ _ _ (fun j => ?_) this
      simp [tokQ, baseQ])
  have hq := processAll_queues ({ s with cq := [] } : St) s.cq
  refine ⟨⟨key.1, fun i => ?_, ?_⟩, key.2.2⟩
  · have := key.2.1 i
    simp only [tokQ] at this ⊢
    simpa using this
  · -- the overflow list is what is left of the queue
    have hov := suf_append_right _ _ _ hsuf
    have h0 : SufS ({ s with cq := [] } : St) := hov
    obtain ⟨hcq, hovf, hsq, hin⟩ := queues_fields _ _ hq
    refine sufS_congr ({ s with cq := [] } : St) _ hcq hovf (fun j => ?_) h0
    show baseQ _ j ≤ (St.processAll ({ s with cq := [] } : St) s.cq).sq.count _
      + (St.processAll ({ s with cq := [] } : St) s.cq).inflight.count _
    rw [hsq, hin]
    exact Nat.le_refl _

theorem tokEq_drainCq (s : St) (h : TokEq s) : TokEq s.drainCq := (drainCq_spec s h).1

theorem tokEq_enter (s : St) (m : Nat) (ge : Bool) (posts : List Post) (h : TokEq s) :
    TokEq (s.enter m ge posts) := by
  obtain ⟨hok, htok, hsuf⟩ := h
  refine ⟨by simpa using hok, fun i => ?_, sufS_enter s m ge posts hsuf⟩
  rw [tokQ_enter]; simpa using htok i

theorem tokEq_loopFetch (s : St) (h : TokEq s) : TokEq s.loopFetch := by
  unfold St.loopFetch
  have h1 := tokEq_enter s 1 true [] h
  split
  · exact tokEq_enter _ 1 true [] h1
  · exact h1

theorem tokEq_dropLoop (s : St) (fuel : Nat) (h : TokEq s) : TokEq (s.dropLoop fuel) := by
  induction fuel generalizing s with
  | zero => exact h
  | succ n ih =>
    unfold St.dropLoop
    have h2 := tokEq_drainCq _ (tokEq_loopFetch s h)
    split
    · exact h2
    · exact ih _ h2

/-! ### The final loop of `Completions::drop` drains everything -/

theorem enter_nil_spec (s : St) (m : Nat) (hsq : s.sq = []) :
    (s.enter m true []).cq = s.cq ++ s.overflow.take (s.cqLen - s.cq.length) ∧
    (s.enter m true []).overflow = s.overflow.drop (s.cqLen - s.cq.length) ∧
    (s.enter m true []).inflight = s.inflight := by
  simp [St.enter, St.consumeAll, hsq, St.consume, St.flushOverflow, St.emit, St.wakeBlocked]

theorem drainCq_queues (s : St) :
    s.drainCq.cq = [] ∧ s.drainCq.overflow = s.overflow ∧ s.drainCq.sq = s.sq ∧
    s.drainCq.inflight = s.inflight ∧ s.drainCq.fdCloses = s.fdCloses ∧ s.drainCq.cqLen = s.cqLen := by
  unfold St.drainCq
  have h := processAll_queues ({ s with cq := [] } : St) s.cq
  have hc := processAll_cqLen ({ s with cq := [] } : St) s.cq
  have e : ∀ (a b : St), a.toQueues = b.toQueues →
      a.cq = b.cq ∧ a.overflow = b.overflow ∧ a.sq = b.sq ∧ a.inflight = b.inflight ∧ a.fdCloses = b.fdCloses := by
    intro a b hab
    have h1 : a.toQueues.cq = b.toQueues.cq := by rw [hab]
    have h2 : a.toQueues.overflow = b.toQueues.overflow := by rw [hab]
    have h3 : a.toQueues.sq = b.toQueues.sq := by rw [hab]
    have h4 : a.toQueues.inflight = b.toQueues.inflight := by rw [hab]
    have h5 : a.toQueues.fdCloses = b.toQueues.fdCloses := by rw [hab]
    exact ⟨h1, h2, h3, h4, h5⟩
  obtain ⟨h1, h2, h3, h4, h5⟩ := e _ _ h
  exact ⟨h1, h2, h3, h4, h5, hc⟩

theorem loopFetch_spec (s : St) (hsq : s.sq = []) (hcq : 1 ≤ s.cqLen) :
    s.loopFetch.sq = [] ∧ s.loopFetch.inflight = s.inflight ∧ s.loopFetch.cqLen = s.cqLen ∧
    (s.cq ≠ [] → s.loopFetch.cq ≠ [] ∧ s.loopFetch.overflow.length ≤ s.overflow.length) ∧
    (s.cq = [] → s.overflow ≠ [] →
        s.loopFetch.cq ≠ [] ∧ s.loopFetch.overflow.length < s.overflow.length) ∧
    (s.cq = [] → s.overflow = [] → s.loopFetch.cq = [] ∧ s.loopFetch.overflow = []) := by
  obtain ⟨e1, e2, e3⟩ := enter_nil_spec s 1 hsq
  have hsq1 : (s.enter 1 true []).sq = [] := enter_sq s 1 true []
  obtain ⟨g1, g2, g3⟩ := enter_nil_spec (s.enter 1 true []) 1 hsq1
  unfold St.loopFetch
  split
  · rename_i hemp
    have hemp' : (s.enter 1 true []).cq = [] := by simpa using hemp
    rw [e1] at hemp'
    have hc0 : s.cq = [] := (List.append_eq_nil_iff.mp hemp').1
    have ht0 : s.overflow.take (s.cqLen - s.cq.length) = [] := (List.append_eq_nil_iff.mp hemp').2
    have hov : s.overflow = [] := by
      rw [hc0] at ht0
      cases hov : s.overflow with
      | nil => rfl
      | cons x xs =>
        rw [hov] at ht0
        have : s.cqLen - 0 = (s.cqLen - 1) + 1 := by omega
        simp [this] at ht0
    refine ⟨by simp, by rw [g3, e3], by simp, ?_, ?_, ?_⟩
    · intro h; exact absurd hc0 h
    · intro _ h; exact absurd hov h
    · intro _ _
      rw [g1, g2, e1, e2, hc0, hov]; simp
  · rename_i hne
    have hne' : (s.enter 1 true []).cq ≠ [] := by simpa using hne
    refine ⟨hsq1, e3, by simp, ?_, ?_, ?_⟩
    · intro _; exact ⟨hne', by rw [e2]; simp⟩
    · intro hc0 hov
      refine ⟨hne', ?_⟩
      rw [e2, hc0]
      cases hov' : s.overflow with
      | nil => exact absurd hov' hov
      | cons x xs => simp; omega
    · intro hc0 hov
      rw [e1, hc0, hov] at hne'; simp at hne'

theorem dropLoop_drains (s : St) (fuel : Nat) (hcq : 1 ≤ s.cqLen) (hsq : s.sq = [])
    (hf : s.overflow.length + (if s.cq = [] then 0 else 1) + 1 ≤ fuel) :
    (s.dropLoop fuel).cq = [] ∧ (s.dropLoop fuel).overflow = [] ∧ (s.dropLoop fuel).sq = [] ∧
    (s.dropLoop fuel).inflight = s.inflight := by
  induction fuel generalizing s with
  | zero => omega
  | succ n ih =>
    obtain ⟨f1, f2, f3, f4, f5, f6⟩ := loopFetch_spec s hsq hcq
    obtain ⟨d1, d2, d3, d4, _, d6⟩ := drainCq_queues s.loopFetch
    unfold St.dropLoop
    split
    · rename_i hemp
      have hemp' : s.loopFetch.cq = [] := by simpa using hemp
      -- nothing was fetched: everything is empty
      have hc0 : s.cq = [] := by
        cases hc : s.cq with
        | nil => rfl
        | cons x xs => exact absurd hemp' (f4 (by simp [hc])).1
      have hov : s.overflow = [] := by
        cases hov : s.overflow with
        | nil => rfl
        | cons x xs => exact absurd hemp' (f5 hc0 (by simp [hov])).1
      exact ⟨d1, by rw [d2]; exact (f6 hc0 hov).2, by rw [d3]; exact f1, by rw [d4]; exact f2⟩
    · rename_i hne
      have hrec := ih s.loopFetch.drainCq (by rw [d6, f3]; exact hcq) (by rw [d3]; exact f1) (by
        rw [d2, d1]
        simp only [if_true]
        by_cases hc0 : s.cq = []
        · by_cases hov : s.overflow = []
          · have := (f6 hc0 hov).1; simp [this] at hne
          · have := (f5 hc0 hov).2
            simp [hc0] at hf; omega
        · have := (f4 hc0).2
          simp [hc0] at hf; omega)
      obtain ⟨r1, r2, r3, r4⟩ := hrec
      exact ⟨r1, r2, r3, by rw [r4, d4, f2]⟩

end A10.Teardown
