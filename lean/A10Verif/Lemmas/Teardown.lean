/-
Lemmas about the teardown model (`Model/Teardown.lean`): the per-operation
invariant, frame properties of the building blocks, token counting.
-/
import A10Verif.Model.Teardown
import A10Verif.Lemmas.OpInv

set_option linter.unusedSimpArgs false

namespace A10.Teardown
open A10 A10.OpSys

/-! ### Per-operation invariant -/

/-- The part of `OpSys.Inv` that only talks about the operation itself. -/
structure OpOk (o : Op) : Prop where
  f1 : o.frees ≤ 1
  f2 : o.boxLive = true ↔ o.frees = 0
  r1 : o.boxLive = true → (o.resInit = true ↔ o.status ≠ .complete)
  l1 : o.futLive = true → o.boxLive = true ∧ o.status ≠ .dropped
  l2 : o.futLive = false → o.status = .dropped ∨ o.boxLive = false
  r2 : o.boxLive = false → o.resInit = false
  /-- the operations of the teardown population are single-shot -/
  sm : o.multi = false
  /-- only a live future is `Running` (its drop turns it into `Dropped`) -/
  rn : isRunning o.status = true → o.futLive = true

/-- The kernel owes the operation a final completion: it is running, or it
was dropped while running and its state has not been reclaimed yet. -/
def isDropped : Status → Bool
  | .dropped => true
  | _ => false

def activeB (o : Op) : Bool := isRunning o.status || (isDropped o.status && o.boxLive)

theorem opOk_init : OpOk { multi := false } := by
  constructor <;> simp

theorem opOk_pollAux (o : Op) (w : Nat) (room : Bool) (fuel : Nat) :
    OpOk o → o.futLive = true → OpOk (o.pollAux w room fuel).1 := by
  fun_induction Op.pollAux o w room fuel
  case case12 o fuel r hs x r' hn hneg hre hm ih =>
    intro h hf
    apply ih
    · obtain ⟨f1, f2, r1, l1, l2, r2, sm, rn⟩ := h
      constructor <;> simp_all
    · exact hf
  all_goals
    intro h hf
    obtain ⟨f1, f2, r1, l1, l2, r2, sm, rn⟩ := h
    constructor <;> simp_all

theorem opOk_poll (o : Op) (w : Nat) (room : Bool) (h : OpOk o) (hf : o.futLive = true) :
    OpOk (o.poll w room).1 := opOk_pollAux o w room 2 h hf

theorem opOk_update (o o' : Op) (c : Res) (effs : List Eff) (h : OpOk o)
    (ha : o.status = .dropped → o.boxLive = true) (hu : o.update c = some (o', effs)) :
    OpOk o' := by
  obtain ⟨f1, f2, r1, l1, l2, r2, sm, rn⟩ := h
  cases o with
  | mk multi status waker boxLive resInit futLive frees resDrops =>
  cases status <;> simp [Op.update] at hu
  · cases hm : fMore c.flags <;> cases multi <;> cases waker <;> simp_all <;>
      (obtain ⟨rfl, _⟩ := hu; constructor <;> simp_all [isRunning])
  · cases hm : fMore c.flags <;> cases multi <;> cases waker <;> simp_all <;>
      (obtain ⟨rfl, _⟩ := hu; constructor <;> simp_all [isRunning])
  · cases hm : fMore c.flags <;> simp_all <;> (obtain ⟨rfl, _⟩ := hu; constructor <;> simp_all [isRunning])

theorem opOk_dropFut (o : Op) (room : Bool) (h : OpOk o) (hf : o.futLive = true) :
    OpOk (o.dropFut room).1 := by
  obtain ⟨f1, f2, r1, l1, l2, r2, sm, rn⟩ := h
  cases o with
  | mk multi status waker boxLive resInit futLive frees resDrops =>
  cases status <;> (constructor <;> simp_all [Op.dropFut, isRunning])

/-- What `poll` does to the token an operation is owed: a submission is made
exactly when an inactive operation becomes active; nothing else changes it. -/
theorem pollAux_active (o : Op) (w : Nat) (room : Bool) (fuel : Nat) :
    OpOk o → o.futLive = true →
    (((o.pollAux w room fuel).2.2.contains .submit = true →
        activeB o = false ∧ activeB (o.pollAux w room fuel).1 = true) ∧
     ((o.pollAux w room fuel).2.2.contains .submit = false →
        activeB (o.pollAux w room fuel).1 = activeB o)) := by
  fun_induction Op.pollAux o w room fuel
  case case12 o fuel r hs x r' hn hneg hre hm ih =>
    intro h hf
    have h' : OpOk { o with status := .notStarted } := by
      obtain ⟨f1, f2, r1, l1, l2, r2, sm, rn⟩ := h
      constructor <;> simp_all
    have := ih h' hf
    simp_all [activeB, isRunning, isDropped]
  all_goals
    intro h hf
    have := h.l1 hf
    simp_all [activeB, isRunning, isDropped]

theorem poll_active (o : Op) (w : Nat) (room : Bool) (h : OpOk o) (hf : o.futLive = true) :
    ((o.poll w room).2.2.contains .submit = true →
        activeB o = false ∧ activeB (o.poll w room).1 = true) ∧
    ((o.poll w room).2.2.contains .submit = false →
        activeB (o.poll w room).1 = activeB o) := pollAux_active o w room 2 h hf

/-- The resources either stay with the state or are handed to the caller
(`Ok`) or dropped (`Err`); `poll` never conjures them up. -/
theorem pollAux_res (o : Op) (w : Nat) (room : Bool) (fuel : Nat) :
    OpOk o → o.futLive = true →
    (b2n (o.pollAux w room fuel).1.resInit + b2n (isReadyOk (o.pollAux w room fuel).2.1) ≤ b2n o.resInit ∧
     (o.pollAux w room fuel).1.futLive = true) := by
  fun_induction Op.pollAux o w room fuel
  case case12 o fuel r hs x r' hn hneg hre hm ih =>
    intro h hf
    have h' : OpOk { o with status := .notStarted } := by
      obtain ⟨f1, f2, r1, l1, l2, r2, sm, rn⟩ := h
      constructor <;> simp_all
    have := ih h' hf
    simp_all
  all_goals
    intro h hf
    have := h.l1 hf
    have := h.r1 this.1
    have := h.sm
    simp_all [b2n, isReadyOk]

theorem poll_res (o : Op) (w : Nat) (room : Bool) (h : OpOk o) (hf : o.futLive = true) :
    b2n (o.poll w room).1.resInit + b2n (isReadyOk (o.poll w room).2.1) ≤ b2n o.resInit ∧
    (o.poll w room).1.futLive = true := pollAux_res o w room 2 h hf

/-- Processing the final completion of an active operation: it is no longer
active afterwards, its resources are not re-created, the future is untouched. -/
theorem update_active (o : Op) (res : Int) (h : OpOk o) (ha : activeB o = true) :
    ∃ o' effs, o.update ⟨res, 0⟩ = some (o', effs) ∧ activeB o' = false ∧ OpOk o' ∧
      b2n o'.resInit ≤ b2n o.resInit ∧ o'.futLive = o.futLive := by
  obtain ⟨f1, f2, r1, l1, l2, r2, sm, rn⟩ := h
  cases o with
  | mk multi status waker boxLive resInit futLive frees resDrops =>
  cases status <;> simp_all [activeB, isRunning, isDropped, Op.update, fMore]
  · cases waker <;> simp <;> constructor <;> simp_all [isRunning]
  · simp [b2n]
    constructor <;> simp_all [isRunning]

theorem dropFut_active (o : Op) (room : Bool) (h : OpOk o) (hf : o.futLive = true) :
    activeB (o.dropFut room).1 = activeB o ∧ b2n (o.dropFut room).1.resInit ≤ b2n o.resInit ∧
    (o.dropFut room).1.futLive = false := by
  obtain ⟨f1, f2, r1, l1, l2, r2, sm, rn⟩ := h
  cases o with
  | mk multi status waker boxLive resInit futLive frees resDrops =>
  cases status <;> simp_all [Op.dropFut, activeB, isRunning, isDropped, b2n] <;> split <;> simp

/-- `update` never touches the future and never re-creates the resources. -/
theorem update_mono (o o' : Op) (c : Res) (effs : List Eff) (hu : o.update c = some (o', effs)) :
    o'.futLive = o.futLive ∧ b2n o'.resInit ≤ b2n o.resInit := by
  cases o with
  | mk multi status waker boxLive resInit futLive frees resDrops =>
  cases status <;> simp [Op.update] at hu
  · cases hm : fMore c.flags <;> cases multi <;> cases waker <;> simp_all <;>
      (obtain ⟨rfl, _⟩ := hu; simp)
  · cases hm : fMore c.flags <;> cases multi <;> cases waker <;> simp_all <;>
      (obtain ⟨rfl, _⟩ := hu; simp)
  · cases hm : fMore c.flags <;> simp_all <;> (obtain ⟨rfl, _⟩ := hu; simp [b2n]) <;> split <;> simp

/-! ### Frames: the kernel's moves leave the objects alone -/

@[simp] theorem emit_objs (s : St) (l : String) : (s.emit l).toObjs = s.toObjs := rfl
@[simp] theorem emit_queues (s : St) (l : String) : (s.emit l).toQueues = s.toQueues := rfl
@[simp] theorem emit_cqLen (s : St) (l : String) : (s.emit l).cqLen = s.cqLen := rfl
@[simp] theorem emit_sqLen (s : St) (l : String) : (s.emit l).sqLen = s.sqLen := rfl

@[simp] theorem postCqe_objs (s : St) (c : Cqe) : (s.postCqe c).toObjs = s.toObjs := by
  unfold St.postCqe; split <;> rfl
@[simp] theorem postCqe_cqLen (s : St) (c : Cqe) : (s.postCqe c).cqLen = s.cqLen := by
  unfold St.postCqe; split <;> rfl
@[simp] theorem postCqe_sqLen (s : St) (c : Cqe) : (s.postCqe c).sqLen = s.sqLen := by
  unfold St.postCqe; split <;> rfl
@[simp] theorem postCqe_sq (s : St) (c : Cqe) : (s.postCqe c).sq = s.sq := by
  unfold St.postCqe; split <;> rfl
@[simp] theorem postCqe_inflight (s : St) (c : Cqe) : (s.postCqe c).inflight = s.inflight := by
  unfold St.postCqe; split <;> rfl
@[simp] theorem postCqe_fdCloses (s : St) (c : Cqe) : (s.postCqe c).fdCloses = s.fdCloses := by
  unfold St.postCqe; split <;> rfl

@[simp] theorem flushOverflow_objs (s : St) : s.flushOverflow.toObjs = s.toObjs := rfl
@[simp] theorem flushOverflow_cqLen (s : St) : s.flushOverflow.cqLen = s.cqLen := rfl
@[simp] theorem flushOverflow_sqLen (s : St) : s.flushOverflow.sqLen = s.sqLen := rfl
@[simp] theorem flushOverflow_sq (s : St) : s.flushOverflow.sq = s.sq := rfl
@[simp] theorem flushOverflow_inflight (s : St) : s.flushOverflow.inflight = s.inflight := rfl
@[simp] theorem flushOverflow_fdCloses (s : St) : s.flushOverflow.fdCloses = s.fdCloses := rfl

@[simp] theorem closeFd_objs (s : St) (k : Nat) : (s.closeFd k).toObjs = s.toObjs := rfl
@[simp] theorem closeFd_cqLen (s : St) (k : Nat) : (s.closeFd k).cqLen = s.cqLen := rfl
@[simp] theorem closeFd_sqLen (s : St) (k : Nat) : (s.closeFd k).sqLen = s.sqLen := rfl

@[simp] theorem consumeOne_objs (s : St) (e : SqEntry) : (s.consumeOne e).toObjs = s.toObjs := by
  cases e <;> simp [St.consumeOne] <;> split <;> simp
@[simp] theorem consumeOne_cqLen (s : St) (e : SqEntry) : (s.consumeOne e).cqLen = s.cqLen := by
  cases e <;> simp [St.consumeOne] <;> split <;> simp
@[simp] theorem consumeOne_sqLen (s : St) (e : SqEntry) : (s.consumeOne e).sqLen = s.sqLen := by
  cases e <;> simp [St.consumeOne] <;> split <;> simp
@[simp] theorem consumeOne_sq (s : St) (e : SqEntry) : (s.consumeOne e).sq = s.sq := by
  cases e <;> simp [St.consumeOne] <;> split <;> simp [St.closeFd]

@[simp] theorem consume_objs (s : St) (es : List SqEntry) : (s.consume es).toObjs = s.toObjs := by
  induction es generalizing s with
  | nil => rfl
  | cons e es ih => simp [St.consume, ih]
@[simp] theorem consume_cqLen (s : St) (es : List SqEntry) : (s.consume es).cqLen = s.cqLen := by
  induction es generalizing s with
  | nil => rfl
  | cons e es ih => simp [St.consume, ih]
@[simp] theorem consume_sqLen (s : St) (es : List SqEntry) : (s.consume es).sqLen = s.sqLen := by
  induction es generalizing s with
  | nil => rfl
  | cons e es ih => simp [St.consume, ih]
@[simp] theorem consume_sq (s : St) (es : List SqEntry) : (s.consume es).sq = s.sq := by
  induction es generalizing s with
  | nil => rfl
  | cons e es ih => simp [St.consume, ih]

@[simp] theorem consumeAll_objs (s : St) : s.consumeAll.toObjs = s.toObjs := by simp [St.consumeAll]
@[simp] theorem consumeAll_cqLen (s : St) : s.consumeAll.cqLen = s.cqLen := by simp [St.consumeAll]
@[simp] theorem consumeAll_sqLen (s : St) : s.consumeAll.sqLen = s.sqLen := by simp [St.consumeAll]
@[simp] theorem consumeAll_sq (s : St) : s.consumeAll.sq = [] := by simp [St.consumeAll]

@[simp] theorem wakeBlocked_objs (s : St) : s.wakeBlocked.toObjs = s.toObjs := rfl
@[simp] theorem wakeBlocked_cqLen (s : St) : s.wakeBlocked.cqLen = s.cqLen := rfl
@[simp] theorem wakeBlocked_sqLen (s : St) : s.wakeBlocked.sqLen = s.sqLen := rfl
@[simp] theorem wakeBlocked_sq (s : St) : s.wakeBlocked.sq = s.sq := rfl
@[simp] theorem wakeBlocked_inflight (s : St) : s.wakeBlocked.inflight = s.inflight := rfl
@[simp] theorem wakeBlocked_cq (s : St) : s.wakeBlocked.cq = s.cq := rfl
@[simp] theorem wakeBlocked_overflow (s : St) : s.wakeBlocked.overflow = s.overflow := rfl
@[simp] theorem wakeBlocked_fdCloses (s : St) : s.wakeBlocked.fdCloses = s.fdCloses := rfl

@[simp] theorem kpostQuiet_objs (s : St) (i : Nat) (r : Int) : (s.kpostQuiet i r).toObjs = s.toObjs := by
  unfold St.kpostQuiet; split <;> simp
@[simp] theorem kpostQuiet_cqLen (s : St) (i : Nat) (r : Int) : (s.kpostQuiet i r).cqLen = s.cqLen := by
  unfold St.kpostQuiet; split <;> simp
@[simp] theorem kpostQuiet_sqLen (s : St) (i : Nat) (r : Int) : (s.kpostQuiet i r).sqLen = s.sqLen := by
  unfold St.kpostQuiet; split <;> simp
@[simp] theorem kpostQuiet_sq (s : St) (i : Nat) (r : Int) : (s.kpostQuiet i r).sq = s.sq := by
  unfold St.kpostQuiet; split <;> simp
@[simp] theorem kpostQuiet_fdCloses (s : St) (i : Nat) (r : Int) :
    (s.kpostQuiet i r).fdCloses = s.fdCloses := by
  unfold St.kpostQuiet; split <;> simp

theorem foldl_kpost_frame (posts : List (Nat × Int)) (s : St) :
    (posts.foldl (fun (s : St) p => s.kpostQuiet p.1 p.2) s).toObjs = s.toObjs ∧
    (posts.foldl (fun (s : St) p => s.kpostQuiet p.1 p.2) s).cqLen = s.cqLen ∧
    (posts.foldl (fun (s : St) p => s.kpostQuiet p.1 p.2) s).sqLen = s.sqLen ∧
    (posts.foldl (fun (s : St) p => s.kpostQuiet p.1 p.2) s).sq = s.sq ∧
    (posts.foldl (fun (s : St) p => s.kpostQuiet p.1 p.2) s).fdCloses = s.fdCloses := by
  induction posts generalizing s with
  | nil => simp
  | cons p ps ih => simp [List.foldl, ih]

@[simp] theorem enter_objs (s : St) (m : Nat) (ge : Bool) (posts : List (Nat × Int)) :
    (s.enter m ge posts).toObjs = s.toObjs := by
  unfold St.enter
  simp only [wakeBlocked_objs, emit_objs]
  split <;> simp [(foldl_kpost_frame posts _).1]
@[simp] theorem enter_cqLen (s : St) (m : Nat) (ge : Bool) (posts : List (Nat × Int)) :
    (s.enter m ge posts).cqLen = s.cqLen := by
  unfold St.enter
  simp only [wakeBlocked_cqLen, emit_cqLen]
  split <;> simp [(foldl_kpost_frame posts _).2.1]
@[simp] theorem enter_sqLen (s : St) (m : Nat) (ge : Bool) (posts : List (Nat × Int)) :
    (s.enter m ge posts).sqLen = s.sqLen := by
  unfold St.enter
  simp only [wakeBlocked_sqLen, emit_sqLen]
  split <;> simp [(foldl_kpost_frame posts _).2.2.1]
@[simp] theorem enter_sq (s : St) (m : Nat) (ge : Bool) (posts : List (Nat × Int)) :
    (s.enter m ge posts).sq = [] := by
  unfold St.enter
  simp only [wakeBlocked_sq]
  split <;> simp [St.emit, (foldl_kpost_frame posts _).2.2.2.1]

@[simp] theorem cancelAll_objs (s : St) (l : List Nat) : (s.cancelAll l).toObjs = s.toObjs := by
  induction l generalizing s with
  | nil => rfl
  | cons i is ih => simp [St.cancelAll, ih]
@[simp] theorem cancelAll_cqLen (s : St) (l : List Nat) : (s.cancelAll l).cqLen = s.cqLen := by
  induction l generalizing s with
  | nil => rfl
  | cons i is ih => simp [St.cancelAll, ih]
@[simp] theorem cancelAll_sq (s : St) (l : List Nat) : (s.cancelAll l).sq = s.sq := by
  induction l generalizing s with
  | nil => rfl
  | cons i is ih => simp [St.cancelAll, ih]
@[simp] theorem cancelAll_inflight (s : St) (l : List Nat) : (s.cancelAll l).inflight = s.inflight := by
  induction l generalizing s with
  | nil => rfl
  | cons i is ih => simp [St.cancelAll, ih]
@[simp] theorem cancelAll_fdCloses (s : St) (l : List Nat) : (s.cancelAll l).fdCloses = s.fdCloses := by
  induction l generalizing s with
  | nil => rfl
  | cons i is ih => simp [St.cancelAll, ih]

/-! ### Frames: processing completions leaves the queues alone -/

@[simp] theorem useSq_queues (s : St) : s.useSq.toQueues = s.toQueues := rfl
@[simp] theorem useCq_queues (s : St) : s.useCq.toQueues = s.toQueues := rfl
@[simp] theorem useSq_cqLen (s : St) : s.useSq.cqLen = s.cqLen := rfl
@[simp] theorem useCq_cqLen (s : St) : s.useCq.cqLen = s.cqLen := rfl
@[simp] theorem useSq_sqLen (s : St) : s.useSq.sqLen = s.sqLen := rfl
@[simp] theorem useCq_sqLen (s : St) : s.useCq.sqLen = s.sqLen := rfl

@[simp] theorem settlePool_queues (s : St) : s.settlePool.toQueues = s.toQueues := by
  unfold St.settlePool; split <;> rfl
@[simp] theorem settlePool_cqLen (s : St) : s.settlePool.cqLen = s.cqLen := by
  unfold St.settlePool; split <;> rfl
@[simp] theorem settlePool_sqLen (s : St) : s.settlePool.sqLen = s.sqLen := by
  unfold St.settlePool; split <;> rfl
@[simp] theorem settlePool_ops (s : St) : s.settlePool.ops = s.ops := by
  unfold St.settlePool; split <;> rfl
@[simp] theorem settlePool_ringLive (s : St) : s.settlePool.ringLive = s.ringLive := by
  unfold St.settlePool; split <;> rfl

theorem applyEffs_frame (s : St) (i : Nat) (effs : List Eff) :
    (applyEffs s i effs).toObjs = s.toObjs ∧ (applyEffs s i effs).toQueues = s.toQueues ∧
    (applyEffs s i effs).cqLen = s.cqLen ∧ (applyEffs s i effs).sqLen = s.sqLen := by
  induction effs generalizing s with
  | nil => simp [applyEffs]
  | cons e es ih => cases e <;> simp [applyEffs, ih]

@[simp] theorem applyEffs_objs (s : St) (i : Nat) (effs : List Eff) :
    (applyEffs s i effs).toObjs = s.toObjs := (applyEffs_frame s i effs).1
@[simp] theorem applyEffs_queues (s : St) (i : Nat) (effs : List Eff) :
    (applyEffs s i effs).toQueues = s.toQueues := (applyEffs_frame s i effs).2.1
@[simp] theorem applyEffs_cqLen (s : St) (i : Nat) (effs : List Eff) :
    (applyEffs s i effs).cqLen = s.cqLen := (applyEffs_frame s i effs).2.2.1
@[simp] theorem applyEffs_sqLen (s : St) (i : Nat) (effs : List Eff) :
    (applyEffs s i effs).sqLen = s.sqLen := (applyEffs_frame s i effs).2.2.2

@[simp] theorem process_queues (s : St) (c : Cqe) : (s.process c).toQueues = s.toQueues := by
  unfold St.process
  split
  · rfl
  · split
    · rfl
    · split <;> simp
@[simp] theorem process_cqLen (s : St) (c : Cqe) : (s.process c).cqLen = s.cqLen := by
  unfold St.process
  split
  · rfl
  · split
    · rfl
    · split <;> simp
@[simp] theorem process_ringLive (s : St) (c : Cqe) : (s.process c).ringLive = s.ringLive := by
  unfold St.process
  split
  · rfl
  · split
    · rfl
    · split <;> simp [(applyEffs_frame _ _ _).1]

@[simp] theorem processAll_queues (s : St) (cs : List Cqe) : (s.processAll cs).toQueues = s.toQueues := by
  induction cs generalizing s with
  | nil => rfl
  | cons c cs ih => simp [St.processAll, ih]
@[simp] theorem processAll_cqLen (s : St) (cs : List Cqe) : (s.processAll cs).cqLen = s.cqLen := by
  induction cs generalizing s with
  | nil => rfl
  | cons c cs ih => simp [St.processAll, ih]
@[simp] theorem processAll_ringLive (s : St) (cs : List Cqe) : (s.processAll cs).ringLive = s.ringLive := by
  induction cs generalizing s with
  | nil => rfl
  | cons c cs ih => simp [St.processAll, ih]

/-! ### Token counting

Every submission of an operation is, at any time, in exactly one place: the
submission queue (published), the kernel (in flight), the completion queue or
the overflow list (its final completion waits to be processed). -/

def isOpCqe (i : Nat) (c : Cqe) : Bool :=
  match c.ud with
  | .op j => j == i
  | .reserved _ => false

def tokQ (q : Queues) (i : Nat) : Nat :=
  q.sq.count (.op i) + q.inflight.count i + q.cq.countP (isOpCqe i) + q.overflow.countP (isOpCqe i)

/-- The number of tokens operation `i` is owed. -/
def want (ops : List TOp) (i : Nat) : Nat :=
  match ops[i]? with
  | some t => b2n (activeB t.op)
  | none => 0

@[simp] theorem b2n_true : b2n true = 1 := rfl
@[simp] theorem b2n_false : b2n false = 0 := rfl
theorem b2n_le_one (b : Bool) : b2n b ≤ 1 := by cases b <;> simp

theorem tokQ_postCqe (s : St) (c : Cqe) (i : Nat) :
    tokQ (s.postCqe c).toQueues i = tokQ s.toQueues i + b2n (isOpCqe i c) := by
  unfold St.postCqe tokQ
  split <;> simp [List.countP_append, List.countP_cons] <;> cases isOpCqe i c <;> simp <;> omega

theorem tokQ_flush (s : St) (i : Nat) : tokQ s.flushOverflow.toQueues i = tokQ s.toQueues i := by
  unfold St.flushOverflow tokQ
  simp only [List.countP_append]
  have := List.take_append_drop (s.cqLen - s.cq.length) s.overflow
  have h2 : List.countP (isOpCqe i) s.overflow =
      List.countP (isOpCqe i) (s.overflow.take (s.cqLen - s.cq.length)) +
      List.countP (isOpCqe i) (s.overflow.drop (s.cqLen - s.cq.length)) := by
    rw [← List.countP_append, this]
  omega

theorem tokQ_consumeOne (s : St) (e : SqEntry) (i : Nat) :
    tokQ (s.consumeOne e).toQueues i = tokQ s.toQueues i + b2n (e == SqEntry.op i) := by
  cases e with
  | op j =>
    simp only [St.consumeOne, tokQ, List.count_append]
    by_cases h : j = i <;> simp [h, b2n] <;> omega
  | cancel j =>
    simp only [St.consumeOne]
    split
    · simp [b2n]
    · rw [tokQ_postCqe]; simp [isOpCqe, b2n]
  | close k =>
    simp only [St.consumeOne]
    split
    · simp [St.closeFd, tokQ, b2n]
    · simp only [emit_queues]; rw [tokQ_postCqe]; simp [isOpCqe, St.closeFd, tokQ, b2n]

theorem tokQ_consume (s : St) (es : List SqEntry) (i : Nat) :
    tokQ (s.consume es).toQueues i = tokQ s.toQueues i + es.count (SqEntry.op i) := by
  induction es generalizing s with
  | nil => simp [St.consume]
  | cons e es ih =>
    simp only [St.consume, ih, tokQ_consumeOne, List.count_cons]
    cases h : (e == SqEntry.op i) <;> simp <;> omega

theorem tokQ_consumeAll (s : St) (i : Nat) : tokQ s.consumeAll.toQueues i = tokQ s.toQueues i := by
  unfold St.consumeAll
  rw [tokQ_consume]
  simp [tokQ]; omega

theorem tokQ_wakeBlocked (s : St) (i : Nat) : tokQ s.wakeBlocked.toQueues i = tokQ s.toQueues i := rfl

theorem tokQ_kpostQuiet (s : St) (j : Nat) (r : Int) (i : Nat) :
    tokQ (s.kpostQuiet j r).toQueues i = tokQ s.toQueues i := by
  unfold St.kpostQuiet
  split
  · rename_i hc
    rw [tokQ_postCqe]
    simp only [tokQ, isOpCqe]
    by_cases h : j = i
    · subst h
      have : 0 < s.inflight.count j := List.count_pos_iff.mpr (by simpa using hc)
      simp [List.count_erase_self]; omega
    · have h' : i ≠ j := fun e => h e.symm
      simp [h, b2n, List.count_erase_of_ne h']
  · rfl

theorem tokQ_foldl_kpost (posts : List (Nat × Int)) (s : St) (i : Nat) :
    tokQ (posts.foldl (fun (s : St) p => s.kpostQuiet p.1 p.2) s).toQueues i = tokQ s.toQueues i := by
  induction posts generalizing s with
  | nil => rfl
  | cons p ps ih => simp [List.foldl, ih, tokQ_kpostQuiet]

theorem tokQ_enter (s : St) (m : Nat) (ge : Bool) (posts : List (Nat × Int)) (i : Nat) :
    tokQ (s.enter m ge posts).toQueues i = tokQ s.toQueues i := by
  unfold St.enter
  simp only [tokQ_wakeBlocked, emit_queues]
  split <;> simp [tokQ_flush, tokQ_foldl_kpost, tokQ_consumeAll]

theorem tokQ_cancelAll (s : St) (l : List Nat) (i : Nat) :
    tokQ (s.cancelAll l).toQueues i = tokQ s.toQueues i + l.count i := by
  induction l generalizing s with
  | nil => simp [St.cancelAll]
  | cons j js ih =>
    simp only [St.cancelAll, ih, tokQ_postCqe, isOpCqe, List.count_cons]
    by_cases h : j = i <;> simp [h, b2n] <;> omega

/-! ### List helpers -/

theorem countP_set_of_getElem? {α : Type} (p : α → Bool) (l : List α) (i : Nat) (a b : α)
    (h : l[i]? = some a) : (l.set i b).countP p + b2n (p a) = l.countP p + b2n (p b) := by
  induction l generalizing i with
  | nil => simp at h
  | cons x xs ih =>
    cases i with
    | zero =>
      simp at h; subst h
      simp [List.countP_cons, b2n]; omega
    | succ i =>
      simp at h
      have := ih i h
      simp [List.countP_cons]; omega

theorem count_set_of_getElem? (l : List Bool) (k : Nat) (h : l[k]? = some true) :
    (l.set k false).count true + 1 = l.count true := by
  have := countP_set_of_getElem? (fun b => b == true) l k true false h
  simpa [List.count_eq_countP] using this

theorem count_pos_of_getElem? (l : List Bool) (k : Nat) (h : l[k]? = some true) :
    0 < l.count true :=
  List.count_pos_iff.mpr (List.mem_of_getElem? h)

theorem countP_pos_of_getElem? {α : Type} (p : α → Bool) (l : List α) (i : Nat) (a : α)
    (h : l[i]? = some a) (hp : p a = true) : 0 < l.countP p :=
  List.countP_pos_iff.mpr ⟨a, List.mem_of_getElem? h, hp⟩

/-! ### What the operations are owed -/

theorem want_set_self (ops : List TOp) (i : Nat) (t t' : TOp) (h : ops[i]? = some t) :
    want (ops.set i t') i = b2n (activeB t'.op) := by
  have hl : i < ops.length := by
    rcases List.getElem?_eq_some_iff.mp h with ⟨hl, _⟩; exact hl
  simp [want, List.getElem?_set, hl]

theorem want_set_ne (ops : List TOp) (i j : Nat) (t' : TOp) (h : j ≠ i) :
    want (ops.set i t') j = want ops j := by
  simp [want, List.getElem?_set, Ne.symm h]

theorem want_of_getElem? (ops : List TOp) (i : Nat) (t : TOp) (h : ops[i]? = some t) :
    want ops i = b2n (activeB t.op) := by
  simp [want, h]

theorem want_append_inactive (ops : List TOp) (t : TOp) (h : activeB t.op = false) (i : Nat) :
    want (ops ++ [t]) i = want ops i := by
  unfold want
  by_cases hl : i < ops.length
  · simp [List.getElem?_append_left hl]
  · have hge : ops.length ≤ i := Nat.le_of_not_lt hl
    rw [List.getElem?_append_right hge]
    have : ops[i]? = none := List.getElem?_eq_none hge
    rw [this]
    cases hi : i - ops.length with
    | zero => simp [h]
    | succ n => simp

def AllOk (ops : List TOp) : Prop := ∀ t ∈ ops, OpOk t.op

theorem allOk_set (ops : List TOp) (i : Nat) (t' : TOp) (h : AllOk ops) (h' : OpOk t'.op) :
    AllOk (ops.set i t') := by
  intro t ht
  rcases List.mem_or_eq_of_mem_set ht with h1 | h1
  · exact h t h1
  · subst h1; exact h'

/-- Shape of one processing step: nothing happens to the operations, or the
addressed operation is updated. -/
theorem process_shape (s : St) (c : Cqe) :
    (s.process c).ops = s.ops ∨
    ∃ i t o' effs, c.ud = .op i ∧ s.ops[i]? = some t ∧ t.op.update ⟨c.res, 0⟩ = some (o', effs) ∧
      (s.process c).ops = s.ops.set i { t with op := o' } := by
  unfold St.process
  split
  · left; rfl
  · rename_i i hud
    split
    · left; rfl
    · rename_i t ht
      split
      · left; rfl
      · rename_i r hr
        right
        exact ⟨i, t, r.1, r.2, hud, ht, by simp [hr], by simp [(applyEffs_frame _ _ _).1]⟩

/-- One processing step keeps the token equation (`Q` = the tokens held
elsewhere, `c :: L` = the completions still to be processed). -/
theorem process_tok (s : St) (c : Cqe) (L : List Cqe) (Q : Nat → Nat) (hok : AllOk s.ops)
    (h : ∀ i, Q i + (c :: L).countP (isOpCqe i) = want s.ops i) :
    AllOk (s.process c).ops ∧ (∀ i, Q i + L.countP (isOpCqe i) = want (s.process c).ops i) := by
  cases hud : c.ud with
  | reserved n =>
    have hops : (s.process c).ops = s.ops := by simp [St.process, hud]
    rw [hops]
    refine ⟨hok, fun i => ?_⟩
    have := h i
    simpa [List.countP_cons, isOpCqe, hud] using this
  | op j =>
    have hj := h j
    have hcj : isOpCqe j c = true := by simp [isOpCqe, hud]
    simp only [List.countP_cons, hcj, if_true] at hj
    -- operation j exists and is active
    cases hget : s.ops[j]? with
    | none => simp [want, hget] at hj
    | some t =>
      have hw : want s.ops j = b2n (activeB t.op) := want_of_getElem? _ _ _ hget
      have hact : activeB t.op = true := by
        cases ha : activeB t.op with
        | true => rfl
        | false => rw [hw, ha] at hj; simp at hj
      have hokt : OpOk t.op := hok t (List.mem_of_getElem? hget)
      obtain ⟨o', effs, hu, hina, hok', _, _⟩ := update_active t.op c.res hokt hact
      have hops : (s.process c).ops = s.ops.set j { t with op := o' } := by
        simp [St.process, hud, hget, hu, (applyEffs_frame _ _ _).1]
      rw [hops]
      refine ⟨allOk_set _ _ _ hok hok', fun i => ?_⟩
      by_cases hij : i = j
      · subst hij
        rw [want_set_self _ _ _ _ hget]
        simp only [hina, b2n_false]
        rw [hw, hact] at hj; simp at hj; omega
      · rw [want_set_ne _ _ _ _ hij]
        have := h i
        have hci : isOpCqe i c = false := by
          simp [isOpCqe, hud]; exact fun e => hij e.symm
        simpa [List.countP_cons, hci] using this

theorem processAll_tok (s : St) (L : List Cqe) (Q : Nat → Nat) (hok : AllOk s.ops)
    (h : ∀ i, Q i + L.countP (isOpCqe i) = want s.ops i) :
    AllOk (s.processAll L).ops ∧ (∀ i, Q i = want (s.processAll L).ops i) := by
  induction L generalizing s with
  | nil => exact ⟨hok, by simpa [St.processAll] using h⟩
  | cons c cs ih =>
    obtain ⟨h1, h2⟩ := process_tok s c cs Q hok h
    exact ih (s.process c) h1 h2

/-- The operations and the token equation, as one statement about a state. -/
def TokEq (s : St) : Prop := AllOk s.ops ∧ ∀ i, tokQ s.toQueues i = want s.ops i

theorem tokEq_drainCq (s : St) (h : TokEq s) : TokEq s.drainCq := by
  obtain ⟨hok, htok⟩ := h
  unfold St.drainCq
  have key := processAll_tok ({ s with cq := [] } : St) s.cq
    (fun i => tokQ ({ s with cq := [] } : St).toQueues i) hok (by
      intro i
      have := htok i
      simp only [tokQ] at this ⊢
      simp; omega)
  refine ⟨key.1, fun i => ?_⟩
  have := key.2 i
  simp only [tokQ] at this ⊢
  simpa using this

theorem tokEq_enter (s : St) (m : Nat) (ge : Bool) (posts : List (Nat × Int)) (h : TokEq s) :
    TokEq (s.enter m ge posts) := by
  obtain ⟨hok, htok⟩ := h
  refine ⟨by simpa using hok, fun i => ?_⟩
  rw [tokQ_enter]; simpa using htok i

theorem tokEq_loopFetch (s : St) (h : TokEq s) : TokEq s.loopFetch := by
  unfold St.loopFetch
  have h1 := tokEq_enter s 1 true [] h
  split
  · exact tokEq_enter _ 1 true [] h1
  · exact h1

theorem tokEq_dropLoop (s : St) (fuel : Nat) (h : TokEq s) : TokEq (s.dropLoop fuel) := by
  induction fuel generalizing s with
  | zero => exact h
  | succ n ih =>
    unfold St.dropLoop
    have h2 := tokEq_drainCq _ (tokEq_loopFetch s h)
    split
    · exact h2
    · exact ih _ h2

/-! ### The final loop of `Completions::drop` drains everything -/

theorem enter_nil_spec (s : St) (m : Nat) (hsq : s.sq = []) :
    (s.enter m true []).cq = s.cq ++ s.overflow.take (s.cqLen - s.cq.length) ∧
    (s.enter m true []).overflow = s.overflow.drop (s.cqLen - s.cq.length) ∧
    (s.enter m true []).inflight = s.inflight := by
  simp [St.enter, St.consumeAll, hsq, St.consume, St.flushOverflow, St.emit, St.wakeBlocked]

theorem drainCq_queues (s : St) :
    s.drainCq.cq = [] ∧ s.drainCq.overflow = s.overflow ∧ s.drainCq.sq = s.sq ∧
    s.drainCq.inflight = s.inflight ∧ s.drainCq.fdCloses = s.fdCloses ∧ s.drainCq.cqLen = s.cqLen := by
  unfold St.drainCq
  have h := processAll_queues ({ s with cq := [] } : St) s.cq
  have hc := processAll_cqLen ({ s with cq := [] } : St) s.cq
  have e : ∀ (a b : St), a.toQueues = b.toQueues →
      a.cq = b.cq ∧ a.overflow = b.overflow ∧ a.sq = b.sq ∧ a.inflight = b.inflight ∧ a.fdCloses = b.fdCloses := by
    intro a b hab
    have h1 : a.toQueues.cq = b.toQueues.cq := by rw [hab]
    have h2 : a.toQueues.overflow = b.toQueues.overflow := by rw [hab]
    have h3 : a.toQueues.sq = b.toQueues.sq := by rw [hab]
    have h4 : a.toQueues.inflight = b.toQueues.inflight := by rw [hab]
    have h5 : a.toQueues.fdCloses = b.toQueues.fdCloses := by rw [hab]
    exact ⟨h1, h2, h3, h4, h5⟩
  obtain ⟨h1, h2, h3, h4, h5⟩ := e _ _ h
  exact ⟨h1, h2, h3, h4, h5, hc⟩

theorem loopFetch_spec (s : St) (hsq : s.sq = []) (hcq : 1 ≤ s.cqLen) :
    s.loopFetch.sq = [] ∧ s.loopFetch.inflight = s.inflight ∧ s.loopFetch.cqLen = s.cqLen ∧
    (s.cq ≠ [] → s.loopFetch.cq ≠ [] ∧ s.loopFetch.overflow.length ≤ s.overflow.length) ∧
    (s.cq = [] → s.overflow ≠ [] →
        s.loopFetch.cq ≠ [] ∧ s.loopFetch.overflow.length < s.overflow.length) ∧
    (s.cq = [] → s.overflow = [] → s.loopFetch.cq = [] ∧ s.loopFetch.overflow = []) := by
  obtain ⟨e1, e2, e3⟩ := enter_nil_spec s 1 hsq
  have hsq1 : (s.enter 1 true []).sq = [] := enter_sq s 1 true []
  obtain ⟨g1, g2, g3⟩ := enter_nil_spec (s.enter 1 true []) 1 hsq1
  unfold St.loopFetch
  split
  · rename_i hemp
    have hemp' : (s.enter 1 true []).cq = [] := by simpa using hemp
    rw [e1] at hemp'
    have hc0 : s.cq = [] := (List.append_eq_nil_iff.mp hemp').1
    have ht0 : s.overflow.take (s.cqLen - s.cq.length) = [] := (List.append_eq_nil_iff.mp hemp').2
    have hov : s.overflow = [] := by
      rw [hc0] at ht0
      cases hov : s.overflow with
      | nil => rfl
      | cons x xs =>
        rw [hov] at ht0
        have : s.cqLen - 0 = (s.cqLen - 1) + 1 := by omega
        simp [this] at ht0
    refine ⟨by simp, by rw [g3, e3], by simp, ?_, ?_, ?_⟩
    · intro h; exact absurd hc0 h
    · intro _ h; exact absurd hov h
    · intro _ _
      rw [g1, g2, e1, e2, hc0, hov]; simp
  · rename_i hne
    have hne' : (s.enter 1 true []).cq ≠ [] := by simpa using hne
    refine ⟨hsq1, e3, by simp, ?_, ?_, ?_⟩
    · intro _; exact ⟨hne', by rw [e2]; simp⟩
    · intro hc0 hov
      refine ⟨hne', ?_⟩
      rw [e2, hc0]
      cases hov' : s.overflow with
      | nil => exact absurd hov' hov
      | cons x xs => simp; omega
    · intro hc0 hov
      rw [e1, hc0, hov] at hne'; simp at hne'

theorem dropLoop_drains (s : St) (fuel : Nat) (hcq : 1 ≤ s.cqLen) (hsq : s.sq = [])
    (hf : s.overflow.length + (if s.cq = [] then 0 else 1) + 1 ≤ fuel) :
    (s.dropLoop fuel).cq = [] ∧ (s.dropLoop fuel).overflow = [] ∧ (s.dropLoop fuel).sq = [] ∧
    (s.dropLoop fuel).inflight = s.inflight := by
  induction fuel generalizing s with
  | zero => omega
  | succ n ih =>
    obtain ⟨f1, f2, f3, f4, f5, f6⟩ := loopFetch_spec s hsq hcq
    obtain ⟨d1, d2, d3, d4, _, d6⟩ := drainCq_queues s.loopFetch
    unfold St.dropLoop
    split
    · rename_i hemp
      have hemp' : s.loopFetch.cq = [] := by simpa using hemp
      -- nothing was fetched: everything is empty
      have hc0 : s.cq = [] := by
        cases hc : s.cq with
        | nil => rfl
        | cons x xs => exact absurd hemp' (f4 (by simp [hc])).1
      have hov : s.overflow = [] := by
        cases hov : s.overflow with
        | nil => rfl
        | cons x xs => exact absurd hemp' (f5 hc0 (by simp [hov])).1
      exact ⟨d1, by rw [d2]; exact (f6 hc0 hov).2, by rw [d3]; exact f1, by rw [d4]; exact f2⟩
    · rename_i hne
      have hrec := ih s.loopFetch.drainCq (by rw [d6, f3]; exact hcq) (by rw [d3]; exact f1) (by
        rw [d2, d1]
        simp only [if_true]
        by_cases hc0 : s.cq = []
        · by_cases hov : s.overflow = []
          · have := (f6 hc0 hov).1; simp [this] at hne
          · have := (f5 hc0 hov).2
            simp [hc0] at hf; omega
        · have := (f4 hc0).2
          simp [hc0] at hf; omega)
      obtain ⟨r1, r2, r3, r4⟩ := hrec
      exact ⟨r1, r2, r3, by rw [r4, d4, f2]⟩

end A10.Teardown
