/-
Helper lemmas for the descriptor ledger (`Model/Fds.lean`, property C07).
-/
import A10Verif.Model.Fds

namespace A10.Fds

open A10

/-! ### The descriptor word -/

theorem or_sign (fd : Nat) (h : fd < 2147483648) : fd ||| SIGN = fd + 2147483648 := by
  have := Nat.two_pow_add_eq_or_of_lt (i := 31) (b := fd) (by simpa using h) 1
  simp at this
  unfold SIGN
  rw [Nat.or_comm, ← this]; omega

theorem and_mask (w : Nat) : w &&& 2147483647 = w % 2147483648 := by
  have := Nat.and_two_pow_sub_one_eq_mod w 31
  simpa using this

theorem kindOf_fromRaw (fd : Nat) (k : Kind) (h : fd < 2147483648) :
    kindOf (fromRaw fd k) = k := by
  cases k
  · have : ¬ (2147483648 ≤ fd) := by omega
    simp [fromRaw, kindOf, SIGN, this]
  · simp only [fromRaw, kindOf, or_sign fd h]; simp [SIGN]

theorem fdOf_fromRaw (fd : Nat) (k : Kind) (h : fd < 2147483648) :
    fdOf (fromRaw fd k) = fd := by
  cases k
  · simp only [fromRaw, fdOf, and_mask]; omega
  · simp only [fromRaw, fdOf, or_sign fd h, and_mask]; omega

theorem target_closeFileFd (fd : Nat) (k : Kind) (h : fd < 2147483648) :
    (closeFileFd fd k).target = (k, fd) := by
  cases k
  · simp [closeFileFd, CloseReq.target]
  · simp only [closeFileFd, CloseReq.target]
    have : (fd + 1) % 4294967296 = fd + 1 := by omega
    simp [this]

/-! ### The kernel's table lookup -/

theorem findOpen_some {ds : List Desc} {k : Kind} {idx d : Nat} (h : findOpen ds k idx = some d) :
    ∃ e, ds[d]? = some e ∧ e.kind = k ∧ e.raw = idx ∧ e.closes = 0 := by
  induction ds generalizing d with
  | nil => simp [findOpen] at h
  | cons e es ih =>
    unfold findOpen at h
    split at h
    · rename_i hc
      cases h
      exact ⟨e, by simp, hc⟩
    · cases hf : findOpen es k idx with
      | none => simp [hf] at h
      | some d' =>
        simp [hf] at h
        subst h
        obtain ⟨e', he', hp⟩ := ih hf
        exact ⟨e', by simpa using he', hp⟩

theorem findOpen_none {ds : List Desc} {k : Kind} {idx : Nat} (h : findOpen ds k idx = none) :
    ∀ (d : Nat) (e : Desc), ds[d]? = some e → ¬ (e.kind = k ∧ e.raw = idx ∧ e.closes = 0) := by
  induction ds with
  | nil => simp
  | cons e es ih =>
    unfold findOpen at h
    split at h
    · cases h
    · rename_i hc
      have hf : findOpen es k idx = none := by
        cases hf : findOpen es k idx with
        | none => rfl
        | some d' => simp [hf] at h
      intro d e' he'
      cases d with
      | zero => simp at he'; subst he'; exact hc
      | succ d => simp at he'; exact ih hf d e' he'

/-- At most one open descriptor per table and number. -/
def Uniq (ds : List Desc) : Prop :=
  ∀ (d1 d2 : Nat) (e1 e2 : Desc), ds[d1]? = some e1 → ds[d2]? = some e2 →
    e1.closes = 0 → e2.closes = 0 → e1.kind = e2.kind → e1.raw = e2.raw → d1 = d2

/-- With at most one open descriptor per number, the lookup returns it. -/
theorem findOpen_eq {ds : List Desc} {k : Kind} {idx d : Nat} {e : Desc}
    (he : ds[d]? = some e) (hk : e.kind = k) (hr : e.raw = idx) (hc : e.closes = 0)
    (uniq : Uniq ds) :
    findOpen ds k idx = some d := by
  cases hf : findOpen ds k idx with
  | none => exact absurd ⟨hk, hr, hc⟩ (findOpen_none hf d e he)
  | some d' =>
    obtain ⟨e', he', hk', hr', hc'⟩ := findOpen_some hf
    have := uniq d' d e' e he' he hc' hc (by rw [hk', hk]) (by rw [hr', hr])
    rw [this]

/-! ### The operation state machine (`Model/Op.lean`) -/

/-- Case analysis of `Op.poll` (= `poll_inner`), one hypothesis per leaf. -/
theorem poll_elim (op : Op) (w : Nat) (room : Bool) (P : Op → PollOut → List Eff → Prop)
    (submit : ∀ op0 : Op, (op0 = op ∨ ∃ r x r', op.status = .done r ∧ r.next = some (x, r') ∧ x.res < 0 ∧
          (-x.res = EINTR ∨ -x.res = ECANCELED) ∧ ¬ (op.multi = true ∧ r'.hasNext = true) ∧
          op0 = { op with status := .notStarted }) →
        op0.status = .notStarted → room = true →
        P { op0 with waker := some w, status := .running (Results.empty op0.multi) } .pending [.submit])
    (blocked : ∀ op0 : Op, (op0 = op ∨ ∃ r x r', op.status = .done r ∧ r.next = some (x, r') ∧ x.res < 0 ∧
          (-x.res = EINTR ∨ -x.res = ECANCELED) ∧ ¬ (op.multi = true ∧ r'.hasNext = true) ∧
          op0 = { op with status := .notStarted }) →
        op0.status = .notStarted → room = false → P op0 .pending [.blocked w])
    (wait : ∀ r, op.status = .running r → (op.multi = false ∨ r.next = none) →
        P { op with waker := some w } .pending [])
    (nextOk : ∀ r x r', op.status = .running r → op.multi = true → r.next = some (x, r') → 0 ≤ x.res →
        P { op with status := .running r' } (.readyOk x) [])
    (nextErr : ∀ r x r', op.status = .running r → op.multi = true → r.next = some (x, r') → x.res < 0 →
        P { op with status := .running r' } (.readyErr (-x.res)) [])
    (finished : ∀ r, op.status = .done r → r.next = none →
        P { op with status := .complete, resInit := false, resDrops := op.resDrops + 1 } .readyNone [])
    (doneOkMulti : ∀ r x r', op.status = .done r → r.next = some (x, r') → 0 ≤ x.res → op.multi = true →
        P { op with status := .done r' } (.readyOk x) [])
    (doneOkSingle : ∀ r x r', op.status = .done r → r.next = some (x, r') → 0 ≤ x.res → op.multi = false →
        P { op with status := .complete, resInit := false, resDrops := op.resDrops + 1 } (.readyOk x) [])
    (assertFail : ∀ r x r', op.status = .done r → r.next = some (x, r') → x.res < 0 →
        op.multi = true → r'.hasNext = true → P op .panic [])
    (doneErrMulti : ∀ r x r', op.status = .done r → r.next = some (x, r') → x.res < 0 → op.multi = true →
        P { op with status := .done r' } (.readyErr (-x.res)) [])
    (doneErrSingle : ∀ r x r', op.status = .done r → r.next = some (x, r') → x.res < 0 → op.multi = false →
        P { op with status := .complete, resInit := false, resDrops := op.resDrops + 1 }
          (.readyErr (-x.res)) [])
    (misuse : (op.status = .dropped ∨ op.status = .complete) → P op .panic []) :
    P (op.poll w room).1 (op.poll w room).2.1 (op.poll w room).2.2 := by
  unfold Op.poll Op.pollAux
  cases hs : op.status with
  | notStarted =>
    simp only []
    cases room with
    | true => simpa using submit op (Or.inl rfl) hs rfl
    | false => simpa using blocked op (Or.inl rfl) hs rfl
  | running r =>
    simp only []
    cases hm : op.multi with
    | false => simpa [hs, hm] using wait r hs (Or.inl hm)
    | true =>
      simp only [if_true]
      cases hn : r.next with
      | none => simpa [hs, hm] using wait r hs (Or.inr hn)
      | some p =>
        obtain ⟨x, r'⟩ := p
        simp only []
        by_cases hx : 0 ≤ x.res
        · simpa [hx, hm] using nextOk r x r' hs hm hn hx
        · have hx' : x.res < 0 := by omega
          simpa [hx, hm] using nextErr r x r' hs hm hn hx'
  | done r =>
    simp only []
    cases hn : r.next with
    | none => simpa using finished r hs hn
    | some p =>
      obtain ⟨x, r'⟩ := p
      simp only []
      by_cases hx : 0 ≤ x.res
      · cases hm : op.multi with
        | true => simpa [hx, hm] using doneOkMulti r x r' hs hn hx hm
        | false => simpa [hx, hm] using doneOkSingle r x r' hs hn hx hm
      · have hx' : x.res < 0 := by omega
        simp only [hx, if_false]
        by_cases he : -x.res = EINTR ∨ -x.res = ECANCELED
        · simp only [he, if_true]
          by_cases hh : op.multi = true ∧ r'.hasNext = true
          · simpa [hh] using assertFail r x r' hs hn hx' hh.1 hh.2
          · have hh' : (op.multi && r'.hasNext) = false := by
              cases h1 : op.multi <;> cases h2 : r'.hasNext <;> simp_all
            simp only [hh', Bool.false_eq_true, if_false]
            unfold Op.pollAux
            simp only []
            have h0 : ∃ r x r', op.status = .done r ∧ r.next = some (x, r') ∧ x.res < 0 ∧
                (-x.res = EINTR ∨ -x.res = ECANCELED) ∧ ¬ (op.multi = true ∧ r'.hasNext = true) ∧
                ({ op with status := Status.notStarted } : Op) = { op with status := .notStarted } :=
              ⟨r, x, r', hs, hn, hx', he, hh, rfl⟩
            cases room with
            | true => simpa using submit { op with status := .notStarted } (Or.inr h0) rfl rfl
            | false => simpa using blocked { op with status := .notStarted } (Or.inr h0) rfl rfl
        · simp only [he, if_false]
          cases hm : op.multi with
          | true => simpa [hm] using doneErrMulti r x r' hs hn hx' hm
          | false => simpa [hm] using doneErrSingle r x r' hs hn hx' hm
  | dropped => simpa using misuse (Or.inl hs)
  | complete => simpa using misuse (Or.inr hs)

/-- Every result held by a `Results` container. -/
def resList : Results → List Res
  | .single x => [x]
  | .multi q => q

/-- Every result held in the operation state. -/
def allRes : Status → List Res
  | .running r => resList r
  | .done r => resList r
  | _ => []

/-- Results stored in the operation state that the future can still read. -/
def stored : Status → List Res
  | .running (.multi q) => q
  | .done r => resList r
  | _ => []

/-- Descriptor numbers the future will still hand out. -/
def okVals (o : FOp) : List Nat :=
  if o.op.futLive then ((stored o.op.status).filter (fun x => 0 ≤ x.res)).flatMap (valsOf o) else []

/-- The container matches the kind of operation (`Singleshot` / `Multishot`). -/
def wtRes (multi : Bool) : Results → Prop
  | .single _ => multi = false
  | .multi _ => multi = true

def opWt (op : Op) : Prop :=
  ∀ r, (op.status = .running r ∨ op.status = .done r) → wtRes op.multi r

/-- `poll_inner` restarts the operation (EINTR / ECANCELED as the final result). -/
def Restart (op : Op) : Prop :=
  ∃ r x r', op.status = .done r ∧ r.next = some (x, r') ∧ (-x.res = EINTR ∨ -x.res = ECANCELED)

@[simp] theorem valsOf_op (o : FOp) (op' : Op) (x : Res) : valsOf { o with op := op' } x = valsOf o x := rfl

@[simp] theorem valsOf_mk (o : FOp) (op' : Op) :
    valsOf { op := op', kind := o.kind, req := o.req, on := o.on, cfd := o.cfd, ckind := o.ckind,
             mem := o.mem } = valsOf o := rfl

theorem next_sub {r r' : Results} {x : Res} (h : r.next = some (x, r')) :
    ∀ y ∈ resList r', y ∈ resList r := by
  cases r with
  | single y =>
    simp [Results.next] at h
    obtain ⟨rfl, rfl⟩ := h
    simp [resList]
  | multi q =>
    cases q with
    | nil => simp [Results.next] at h
    | cons y q =>
      simp [Results.next] at h
      obtain ⟨rfl, rfl⟩ := h
      simp_all [resList]

theorem wtRes_empty (m : Bool) : wtRes m (Results.empty m) := by
  cases m <;> simp [Results.empty, wtRes]

theorem stored_empty (m : Bool) : stored (.running (Results.empty m)) = [] := by
  cases m <;> simp [Results.empty, stored]

theorem allRes_empty (m : Bool) : ∀ x ∈ allRes (.running (Results.empty m)), x = ⟨0, 0⟩ := by
  cases m <;> simp [Results.empty, allRes, resList]

theorem next_wt {m : Bool} {r r' : Results} {x : Res} (h : r.next = some (x, r')) (hw : wtRes m r) :
    wtRes m r' ∧ (m = true → resList r = x :: resList r') ∧ (m = false → resList r = [x]) ∧
      (∀ y ∈ resList r', y ∈ resList r) := by
  cases r with
  | single y =>
    simp [Results.next] at h
    obtain ⟨rfl, rfl⟩ := h
    simp_all [wtRes, resList]
  | multi q =>
    cases q with
    | nil => simp [Results.next] at h
    | cons y q =>
      simp [Results.next] at h
      obtain ⟨rfl, rfl⟩ := h
      simp_all [wtRes, resList]

theorem next_none_wt {r : Results} (h : r.next = none) : resList r = [] := by
  cases r with
  | single y => simp [Results.next] at h
  | multi q =>
    cases q with
    | nil => rfl
    | cons y q => simp [Results.next] at h

structure PollFacts (o : FOp) (op' : Op) (out : PollOut) (effs : List Eff) : Prop where
  live : op'.futLive = o.op.futLive
  multi : op'.multi = o.op.multi
  wt : opWt o.op → opWt op'
  vals : opWt o.op → okVals o =
    (match out with | .readyOk x => (if o.op.futLive then valsOf o x else []) | _ => []) ++ okVals { o with op := op' }
  sub : effs.contains .submit = true →
    op'.status = .running (Results.empty o.op.multi) ∧ (o.op.status = .notStarted ∨ Restart o.op)
  ns : op'.status = .notStarted → o.op.status = .notStarted ∨ Restart o.op
  res : ∀ x ∈ allRes op'.status, x ∈ allRes o.op.status ∨ x = ⟨0, 0⟩
  okRes : ∀ x, out = .readyOk x → 0 ≤ x.res
  nosub : ∀ x, out = .readyOk x → effs.contains .submit = false


/-- The state `poll_inner` submits from: the original one, or the one reset by a restart. -/
def Base (op op0 : Op) : Prop :=
  op0 = op ∨ ∃ r x r', op.status = .done r ∧ r.next = some (x, r') ∧ x.res < 0 ∧
    (-x.res = EINTR ∨ -x.res = ECANCELED) ∧ ¬ (op.multi = true ∧ r'.hasNext = true) ∧
    op0 = { op with status := .notStarted }

theorem base_facts (o : FOp) (op0 : Op) (h0 : Base o.op op0) (hs : op0.status = .notStarted) :
    op0.multi = o.op.multi ∧ op0.futLive = o.op.futLive ∧
    (o.op.status = .notStarted ∨ Restart o.op) ∧ (opWt o.op → okVals o = []) := by
  refine ⟨?_, ?_, ?_, ?_⟩
  · rcases h0 with rfl | ⟨r, x, r', _, _, _, _, _, rfl⟩ <;> rfl
  · rcases h0 with rfl | ⟨r, x, r', _, _, _, _, _, rfl⟩ <;> rfl
  · rcases h0 with rfl | ⟨r, x, r', h1, h2, _, h4, _, rfl⟩
    · exact Or.inl hs
    · exact Or.inr ⟨r, x, r', h1, h2, h4⟩
  · intro hw
    rcases h0 with rfl | ⟨r, x, r', h1, h2, h3, h4, h5, rfl⟩
    · simp [okVals, hs, stored]
    · have hwr := hw r (Or.inr h1)
      obtain ⟨hw', hmt, hmf, _⟩ := next_wt h2 hwr
      simp only [okVals, h1, stored]
      cases hmm : o.op.multi with
      | false =>
        have : ¬ (0 ≤ x.res) := by omega
        simp [hmf hmm, this]
      | true =>
        have hn : r'.hasNext = false := by
          cases hh : r'.hasNext with
          | false => rfl
          | true => exact absurd ⟨hmm, hh⟩ h5
        have : resList r' = [] := by
          cases r' with
          | single y => simp [wtRes, hmm] at hw'
          | multi q => cases q <;> simp_all [Results.hasNext, resList]
        have hx : ¬ (0 ≤ x.res) := by omega
        simp [hmt hmm, this, hx]

theorem poll_facts (o : FOp) (w : Nat) (room : Bool) :
    PollFacts o (o.op.poll w room).1 (o.op.poll w room).2.1 (o.op.poll w room).2.2 := by
  apply poll_elim o.op w room (fun op' out effs => PollFacts o op' out effs)
  · -- submit
    intro op0 h0 hs hr
    obtain ⟨hm, hl, hst, hv⟩ := base_facts o op0 h0 hs
    refine ⟨hl, hm, ?_, ?_, ?_, ?_, ?_, ?_, ?_⟩
    · intro _ r hr'
      simp at hr'
      subst hr'
      exact wtRes_empty _
    · intro hw
      rw [hv hw]
      simp [okVals, stored_empty]
    · intro _
      exact ⟨by simp [hm], hst⟩
    · intro h; simp at h
    · intro x hx
      exact Or.inr (allRes_empty _ x hx)
    · intro x h; cases h
    · intro x h; first | (cases h; rfl) | cases h
  · -- blocked
    intro op0 h0 hs hr
    obtain ⟨hm, hl, hst, hv⟩ := base_facts o op0 h0 hs
    refine ⟨hl, hm, ?_, ?_, ?_, ?_, ?_, ?_, ?_⟩
    · intro _ r hr'
      simp [hs] at hr'
    · intro hw
      rw [hv hw]
      simp [okVals, hs, stored]
    · intro h; simp at h
    · intro _; exact hst
    · intro x hx
      simp [hs, allRes] at hx
    · intro x h; cases h
    · intro x h; first | (cases h; rfl) | cases h
  · -- wait
    intro r hs hc
    refine ⟨rfl, rfl, ?_, ?_, ?_, ?_, ?_, ?_, ?_⟩
    · intro hw; exact hw
    · intro hw; simp [okVals]
    · intro h; simp at h
    · intro h; simp [hs] at h
    · intro x hx; exact Or.inl hx
    · intro x h; cases h
    · intro x h; first | (cases h; rfl) | cases h
  · -- nextOk
    intro r x r' hs hm hn hx
    refine ⟨rfl, rfl, ?_, ?_, ?_, ?_, ?_, ?_, ?_⟩
    · intro hw r2 h2
      simp at h2
      subst h2
      exact (next_wt hn (hw r (Or.inl hs))).1
    · intro hw
      obtain ⟨hw', hmt, _, _⟩ := next_wt hn (hw r (Or.inl hs))
      have h1 : stored (.running r) = x :: stored (.running r') := by
        cases r with
        | single y => have := hw (.single y) (Or.inl hs); simp [wtRes, hm] at this
        | multi q =>
          cases r' with
          | single y => simp [wtRes, hm] at hw'
          | multi q' => simpa [stored, resList] using hmt hm
      simp only [okVals, hs, h1]
      cases o.op.futLive <;> simp [hx]
    · intro h; simp at h
    · intro h; simp at h
    · intro y hy
      simp only [allRes] at hy
      exact Or.inl (by simpa [hs, allRes] using next_sub hn y hy)
    · intro y h; cases h; exact hx
    · intro x h; first | (cases h; rfl) | cases h
  · -- nextErr
    intro r x r' hs hm hn hx
    refine ⟨rfl, rfl, ?_, ?_, ?_, ?_, ?_, ?_, ?_⟩
    · intro hw r2 h2
      simp at h2
      subst h2
      exact (next_wt hn (hw r (Or.inl hs))).1
    · intro hw
      obtain ⟨hw', hmt, _, _⟩ := next_wt hn (hw r (Or.inl hs))
      have h1 : stored (.running r) = x :: stored (.running r') := by
        cases r with
        | single y => have := hw (.single y) (Or.inl hs); simp [wtRes, hm] at this
        | multi q =>
          cases r' with
          | single y => simp [wtRes, hm] at hw'
          | multi q' => simpa [stored, resList] using hmt hm
      have hx' : ¬ (0 ≤ x.res) := by omega
      simp only [okVals, hs, h1]
      cases o.op.futLive <;> simp [hx']
    · intro h; simp at h
    · intro h; simp at h
    · intro y hy
      simp only [allRes] at hy
      exact Or.inl (by simpa [hs, allRes] using next_sub hn y hy)
    · intro y h; cases h
    · intro x h; first | (cases h; rfl) | cases h
  · -- finished
    intro r hs hn
    refine ⟨rfl, rfl, ?_, ?_, ?_, ?_, ?_, ?_, ?_⟩
    · intro hw r2 h2; simp at h2
    · intro hw
      have := next_none_wt hn
      simp [okVals, hs, stored, this]
    · intro h; simp at h
    · intro h; simp at h
    · intro y hy; simp [allRes] at hy
    · intro y h; cases h
    · intro x h; first | (cases h; rfl) | cases h
  · -- doneOkMulti
    intro r x r' hs hn hx hm
    refine ⟨rfl, rfl, ?_, ?_, ?_, ?_, ?_, ?_, ?_⟩
    · intro hw r2 h2
      simp at h2
      subst h2
      exact (next_wt hn (hw r (Or.inr hs))).1
    · intro hw
      obtain ⟨hw', hmt, _, _⟩ := next_wt hn (hw r (Or.inr hs))
      simp only [okVals, hs, stored, hmt hm]
      cases o.op.futLive <;> simp [hx]
    · intro h; simp at h
    · intro h; simp at h
    · intro y hy
      simp only [allRes] at hy
      exact Or.inl (by simpa [hs, allRes] using next_sub hn y hy)
    · intro y h; cases h; exact hx
    · intro x h; first | (cases h; rfl) | cases h
  · -- doneOkSingle
    intro r x r' hs hn hx hm
    refine ⟨rfl, rfl, ?_, ?_, ?_, ?_, ?_, ?_, ?_⟩
    · intro hw r2 h2; simp at h2
    · intro hw
      obtain ⟨hw', _, hmf, _⟩ := next_wt hn (hw r (Or.inr hs))
      simp only [okVals, hs, stored, hmf hm]
      cases o.op.futLive <;> simp [hx]
    · intro h; simp at h
    · intro h; simp at h
    · intro y hy; simp [allRes] at hy
    · intro y h; cases h; exact hx
    · intro x h; first | (cases h; rfl) | cases h
  · -- assertFail
    intro r x r' hs hn hx hm hh
    refine ⟨rfl, rfl, ?_, ?_, ?_, ?_, ?_, ?_, ?_⟩
    · intro hw; exact hw
    · intro hw; simp
    · intro h; simp at h
    · intro h; exact Or.inl h
    · intro y hy; exact Or.inl hy
    · intro y h; cases h
    · intro x h; first | (cases h; rfl) | cases h
  · -- doneErrMulti
    intro r x r' hs hn hx hm
    refine ⟨rfl, rfl, ?_, ?_, ?_, ?_, ?_, ?_, ?_⟩
    · intro hw r2 h2
      simp at h2
      subst h2
      exact (next_wt hn (hw r (Or.inr hs))).1
    · intro hw
      obtain ⟨hw', hmt, _, _⟩ := next_wt hn (hw r (Or.inr hs))
      have hx' : ¬ (0 ≤ x.res) := by omega
      simp only [okVals, hs, stored, hmt hm]
      cases o.op.futLive <;> simp [hx']
    · intro h; simp at h
    · intro h; simp at h
    · intro y hy
      simp only [allRes] at hy
      exact Or.inl (by simpa [hs, allRes] using next_sub hn y hy)
    · intro y h; cases h
    · intro x h; first | (cases h; rfl) | cases h
  · -- doneErrSingle
    intro r x r' hs hn hx hm
    refine ⟨rfl, rfl, ?_, ?_, ?_, ?_, ?_, ?_, ?_⟩
    · intro hw r2 h2; simp at h2
    · intro hw
      obtain ⟨hw', _, hmf, _⟩ := next_wt hn (hw r (Or.inr hs))
      have hx' : ¬ (0 ≤ x.res) := by omega
      simp only [okVals, hs, stored, hmf hm]
      cases o.op.futLive <;> simp [hx']
    · intro h; simp at h
    · intro h; simp at h
    · intro y hy; simp [allRes] at hy
    · intro y h; cases h
    · intro x h; first | (cases h; rfl) | cases h
  · -- misuse
    intro hs
    refine ⟨rfl, rfl, ?_, ?_, ?_, ?_, ?_, ?_, ?_⟩
    · intro hw; exact hw
    · intro hw; simp
    · intro h; simp at h
    · intro h; exact Or.inl h
    · intro y hy; exact Or.inl hy
    · intro y h; cases h
    · intro x h; first | (cases h; rfl) | cases h


theorem okVals_close (o : FOp) (h : o.kind = .close) : okVals o = [] := by
  unfold okVals
  split
  · have : ∀ x, valsOf o x = [] := by intro x; simp [valsOf, h]
    simp [this]
  · rfl

structure UpdFacts (o : FOp) (c : Res) (op' : Op) : Prop where
  live : op'.futLive = o.op.futLive
  multi : op'.multi = o.op.multi
  wt : opWt o.op → opWt op'
  vals : opWt o.op → fNotif c.flags = false →
    (okVals { o with op := op' }).Sublist
      (okVals o ++ (if 0 ≤ c.res then valsOf o c else []))
  ns : op'.status ≠ .notStarted
  res : ∀ x ∈ allRes op'.status, x ∈ allRes o.op.status ∨ x = c

theorem resList_update (r : Results) (c : Res) :
    ∀ x ∈ resList (r.update c), x ∈ resList r ∨ x = c := by
  cases r with
  | single y => simp only [Results.update]; split <;> simp [resList]
  | multi q => simp [Results.update, resList]

theorem wtRes_update {m : Bool} (r : Results) (c : Res) (h : wtRes m r) : wtRes m (r.update c) := by
  cases r with
  | single y => simp only [Results.update]; split <;> simpa [wtRes] using h
  | multi q => simpa [Results.update, wtRes] using h

theorem update_shape (op : Op) (c : Res) (op' : Op) (effs : List Eff) (r : Results)
    (h : op.update c = some (op', effs)) (hs : op.status = .running r ∨ op.status = .done r) :
    op'.multi = op.multi ∧ op'.futLive = op.futLive ∧
    (op'.status = .done (r.update c) ∨ (op'.status = .running (r.update c) ∧ op.status = .running r)) := by
  unfold Op.update at h
  rcases hs with hs | hs <;> simp only [hs] at h <;>
    (repeat' split at h) <;> (simp at h; obtain ⟨rfl, _⟩ := h; simp_all)

theorem okVals_upd (o : FOp) (c : Res) (op' : Op) (r : Results)
    (hs : o.op.status = .running r ∨ o.op.status = .done r)
    (hl : op'.futLive = o.op.futLive)
    (hst : op'.status = .done (r.update c) ∨ (op'.status = .running (r.update c) ∧ o.op.status = .running r))
    (hn : fNotif c.flags = false) :
    (okVals { o with op := op' }).Sublist (okVals o ++ (if 0 ≤ c.res then valsOf o c else [])) := by
  unfold okVals
  simp only [hl]
  cases hlive : o.op.futLive with
  | false => simp
  | true =>
    simp only [if_true]
    cases r with
    | single old =>
      have hu : (Results.single old).update c = .single c := by simp [Results.update, hn]
      rw [hu] at hst
      rcases hst with h1 | ⟨h1, h2⟩
      · rw [h1]
        simp only [stored, resList]
        by_cases hc : 0 ≤ c.res
        · simp [hc]
        · simp [hc]
      · rw [h1]; simp [stored]
    | multi q =>
      have hu : (Results.multi q).update c = .multi (q ++ [c]) := by simp [Results.update]
      rw [hu] at hst
      have h0 : stored o.op.status = q := by
        rcases hs with h | h <;> simp [h, stored, resList]
      have h1 : stored op'.status = q ++ [c] := by
        rcases hst with h | ⟨h, _⟩ <;> simp [h, stored, resList]
      rw [h0, h1]
      by_cases hc : 0 ≤ c.res
      · simp [hc, List.filter_append]
      · simp [hc, List.filter_append]

theorem update_facts (o : FOp) (c : Res) (op' : Op) (effs : List Eff)
    (h : o.op.update c = some (op', effs)) : UpdFacts o c op' := by
  have key : ∀ r, (o.op.status = .running r ∨ o.op.status = .done r) → UpdFacts o c op' := by
    intro r hs
    obtain ⟨hm, hl, hst⟩ := update_shape o.op c op' effs r h hs
    refine ⟨hl, hm, ?_, ?_, ?_, ?_⟩
    · intro hw r2 h2
      have hwr : wtRes op'.multi (r.update c) := by
        rw [hm]; exact wtRes_update r c (hw r hs)
      rcases hst with h1 | ⟨h1, _⟩ <;> (rw [h1] at h2; simp at h2; subst h2; exact hwr)
    · intro _ hn
      exact okVals_upd o c op' r hs hl hst hn
    · rcases hst with h1 | ⟨h1, _⟩ <;> simp [h1]
    · intro x hx
      have : x ∈ resList (r.update c) := by
        rcases hst with h1 | ⟨h1, _⟩ <;> simpa [h1, allRes] using hx
      rcases resList_update r c x this with h2 | h2
      · left; rcases hs with h3 | h3 <;> simpa [h3, allRes] using h2
      · exact Or.inr h2
  cases hs : o.op.status with
  | notStarted => simp [Op.update, hs] at h
  | complete => simp [Op.update, hs] at h
  | running r => exact key r (Or.inl hs)
  | done r => exact key r (Or.inr hs)
  | dropped =>
    unfold Op.update at h
    simp only [hs] at h
    split at h
    · simp at h
      obtain ⟨rfl, _⟩ := h
      refine ⟨rfl, rfl, ?_, ?_, ?_, ?_⟩
      · intro hw r hr; simp at hr
      · intro _ _; simp [okVals, hs, stored]
      · simp
      · intro x hx; simp [allRes] at hx
    · simp at h
      obtain ⟨rfl, _⟩ := h
      refine ⟨rfl, rfl, ?_, ?_, ?_, ?_⟩
      · intro hw; exact hw
      · intro _ _; simp
      · simp [hs]
      · intro x hx; exact Or.inl hx

/-! `Op.dropFut` -/

structure DropFacts (op op' : Op) : Prop where
  live : op'.futLive = false
  multi : op'.multi = op.multi
  wt : opWt op → opWt op'
  res : ∀ x ∈ allRes op'.status, x ∈ allRes op.status
  ns : op'.status = .notStarted → op.status = .notStarted

theorem drop_facts (op : Op) (room : Bool) : DropFacts op (op.dropFut room).1 := by
  unfold Op.dropFut
  cases hs : op.status <;> simp only [] <;> refine ⟨rfl, rfl, ?_, ?_, ?_⟩ <;>
    simp_all [opWt, allRes]


/-! ### The invariant -/

/-- Ledger entry `e` is consistent with the rest of the system; `T` = the
close requests that are still outstanding. -/
structure DescOk (s : Sys) (T : List (Kind × Nat)) (e : Desc) : Prop where
  raw : e.raw < 2147483648
  std : e.kind = .file → 3 ≤ e.raw
  closed : e.st = .closed → e.closes = 1
  opn : e.st ≠ .closed → e.closes = 0
  rel : e.st = .released → (e.kind, e.raw) ∈ T
  own : ∀ a, e.st = .owned a → ∃ h, s.handles[a]? = some h ∧ h.live = true ∧ h.std = false ∧
    h.word = fromRaw e.raw e.kind
  cf : ∀ j, e.st = .closeFut j → ∃ o, s.ops[j]? = some o ∧ o.kind = .close ∧
    (closeFileFd o.cfd o.ckind).target = (e.kind, e.raw)
  wr0 : ((∃ i, e.st = .pending i) ∨ e.st = .lost) → e.wraps = 0
  wr1 : ¬ ((∃ i, e.st = .pending i) ∨ e.st = .lost) → e.wraps = 1

structure OpOk (s : Sys) (i : Nat) (o : FOp) : Prop where
  wt : opWt o.op
  single : o.kind ≠ .maccept → o.op.multi = false
  nodup : (okVals o).Nodup
  vals : ∀ v ∈ okVals o, ∃ (d : Nat) (e : Desc), s.descs[d]? = some e ∧ e.kind = s.issueKind o ∧ e.raw = v ∧
    e.st = .pending i
  on : o.kind.borrows = true → o.on < s.handles.length
  cn : o.kind = .close → o.op.status = .notStarted → o.op.futLive = true →
    ∃ (d : Nat) (e : Desc), s.descs[d]? = some e ∧ e.st = .closeFut i
  cr : o.kind = .close → ∀ x ∈ allRes o.op.status, x.res = 0 ∨ x.res = -9

structure InvG (s : Sys) (T : List (Kind × Nat)) : Prop where
  lo : 3 ≤ s.fileLo
  strays : s.strays = 0
  desc : ∀ (d : Nat) (e : Desc), s.descs[d]? = some e → DescOk s T e
  uniq : Uniq s.descs
  tgt : ∀ t ∈ T, ∃ (d : Nat) (e : Desc), s.descs[d]? = some e ∧ e.st = .released ∧ (e.kind, e.raw) = t
  nodup : T.Nodup
  hand : ∀ a h, s.handles[a]? = some h → h.live = true →
    (h.std = true → h.word < 3) ∧ (h.std = false → ∃ (d : Nat) (e : Desc), s.descs[d]? = some e ∧ e.st = .owned a)
  op : ∀ i o, s.ops[i]? = some o → OpOk s i o
  sqk : ∀ i r, Sqe.op i (some r) ∈ s.sq → ∃ o, s.ops[i]? = some o ∧ o.kind = .close
  log : ∀ t ∈ s.closeLog, t.1 = .file → 3 ≤ t.2

/-- The invariant of the descriptor ledger. -/
def Inv (s : Sys) : Prop := InvG s s.targets

theorem InvG.perm {s : Sys} {T T' : List (Kind × Nat)} (hp : T.Perm T') (h : InvG s T) : InvG s T' where
  lo := h.lo
  strays := h.strays
  desc := fun d e he =>
    let x := h.desc d e he
    { raw := x.raw, std := x.std, closed := x.closed, opn := x.opn,
      rel := fun hr => hp.mem_iff.mp (x.rel hr), own := x.own, cf := x.cf, wr0 := x.wr0, wr1 := x.wr1 }
  uniq := h.uniq
  tgt := fun t ht => h.tgt t (hp.mem_iff.mpr ht)
  nodup := hp.nodup_iff.mp h.nodup
  hand := h.hand
  op := h.op
  sqk := h.sqk
  log := h.log

theorem issueKind_congr {s s' : Sys} (o : FOp)
    (hw : ∀ (a : Nat) (h : Handle), s.handles[a]? = some h → ∃ h', s'.handles[a]? = some h' ∧ h'.word = h.word)
    (hon : o.kind.borrows = true → o.on < s.handles.length) : s'.issueKind o = s.issueKind o := by
  unfold Sys.issueKind
  cases hk : o.kind <;> simp only []
  all_goals
    have hlt := hon (by simp [OpKind.borrows, hk])
    have hsome : ∃ h, s.handles[o.on]? = some h := ⟨s.handles[o.on], by simp [hlt]⟩
    obtain ⟨h, hh⟩ := hsome
    obtain ⟨h', hh', hw'⟩ := hw o.on h hh
    simp [hh, hh', hw']

theorem OpOk.frame {s s' : Sys} {i : Nat} {o : FOp} (h : OpOk s i o)
    (hd : ∀ (d : Nat) (e : Desc), s.descs[d]? = some e →
      (e.st = .pending i ∨ e.st = .closeFut i) → s'.descs[d]? = some e)
    (hk : s'.issueKind o = s.issueKind o)
    (hl : s.handles.length ≤ s'.handles.length) : OpOk s' i o where
  wt := h.wt
  single := h.single
  nodup := h.nodup
  vals := fun v hv => by
    obtain ⟨d, e, he, h1, h2, h3⟩ := h.vals v hv
    exact ⟨d, e, hd d e he (Or.inl h3), by rw [hk]; exact h1, h2, h3⟩
  on := fun hb => Nat.lt_of_lt_of_le (h.on hb) hl
  cn := fun h1 h2 h3 => by
    obtain ⟨d, e, he, hs⟩ := h.cn h1 h2 h3
    exact ⟨d, e, hd d e he (Or.inr hs), hs⟩
  cr := h.cr

theorem OpOk.frame' {s s' : Sys} {i : Nat} {o : FOp} (h : OpOk s i o)
    (hd : ∀ (d : Nat) (e : Desc), s.descs[d]? = some e →
      ((e.st = .pending i ∧ e.raw ∈ okVals o) ∨ e.st = .closeFut i) → s'.descs[d]? = some e)
    (hk : s'.issueKind o = s.issueKind o)
    (hl : s.handles.length ≤ s'.handles.length) : OpOk s' i o where
  wt := h.wt
  single := h.single
  nodup := h.nodup
  vals := fun v hv => by
    obtain ⟨d, e, he, h1, h2, h3⟩ := h.vals v hv
    exact ⟨d, e, hd d e he (Or.inl ⟨h3, by rw [h2]; exact hv⟩), by rw [hk]; exact h1, h2, h3⟩
  on := fun hb => Nat.lt_of_lt_of_le (h.on hb) hl
  cn := fun h1 h2 h3 => by
    obtain ⟨d, e, he, hs⟩ := h.cn h1 h2 h3
    exact ⟨d, e, hd d e he (Or.inr hs), hs⟩
  cr := h.cr

/-- The kernel executes an outstanding close request. -/
theorem kclose_inv {s : Sys} {t : Kind × Nat} {T : List (Kind × Nat)} (h : InvG s (t :: T)) :
    InvG (s.kclose t.1 t.2).1 T ∧ (s.kclose t.1 t.2).2 = true ∧
    (s.kclose t.1 t.2).1.sq = s.sq ∧ (s.kclose t.1 t.2).1.ops = s.ops ∧
    (s.kclose t.1 t.2).1.handles = s.handles := by
  obtain ⟨d, e, he, hst, hkey⟩ := h.tgt t (by simp)
  have hde := h.desc d e he
  have hc : e.closes = 0 := hde.opn (by simp [hst])
  obtain ⟨k, idx⟩ := t
  simp only [Prod.mk.injEq] at hkey
  have hf : findOpen s.descs k idx = some d := findOpen_eq he hkey.1 hkey.2 hc h.uniq
  have hkc : s.kclose k idx =
      ({ s with closeLog := s.closeLog ++ [(k, idx)], descs := s.descs.modify d Desc.close }, true) := by
    unfold Sys.kclose
    simp only [hf]
  simp only [hkc]
  refine ⟨?_, trivial, trivial, trivial, trivial⟩
  have hT : (k, idx) ∉ T := (List.nodup_cons.mp h.nodup).1
  have hget : ∀ (d' : Nat) (e' : Desc), (s.descs.modify d Desc.close)[d']? = some e' →
      (d' = d ∧ e' = { e with closes := 1, st := .closed }) ∨ (d' ≠ d ∧ s.descs[d']? = some e') := by
    intro d' e' h'
    rw [List.getElem?_modify] at h'
    by_cases hdd : d = d'
    · subst hdd
      simp [he, Desc.close, hst, hc] at h'
      exact Or.inl ⟨rfl, h'.symm⟩
    · simp [hdd] at h'
      exact Or.inr ⟨fun x => hdd x.symm, h'⟩
  constructor
  · exact h.lo
  · exact h.strays
  · intro d' e' h'
    rcases hget d' e' h' with ⟨rfl, rfl⟩ | ⟨hne, h0⟩
    · exact { raw := hde.raw, std := hde.std, closed := fun _ => rfl, opn := fun x => absurd rfl x,
              rel := fun x => by simp at x, own := fun a x => by simp at x, cf := fun j x => by simp at x,
              wr0 := fun x => by simp at x,
              wr1 := fun _ => hde.wr1 (by simp [hst]) }
    · have x := h.desc d' e' h0
      refine { raw := x.raw, std := x.std, closed := x.closed, opn := x.opn, rel := ?_, own := x.own,
               cf := x.cf, wr0 := x.wr0, wr1 := x.wr1 }
      intro hr
      have := x.rel hr
      simp only [List.mem_cons] at this
      rcases this with heq | hin
      · exfalso
        simp only [Prod.mk.injEq] at heq
        exact hne (h.uniq d' d e' e h0 he (x.opn (by simp [hr])) hc (by rw [heq.1, hkey.1]) (by rw [heq.2, hkey.2]))
      · exact hin
  · intro d1 d2 e1 e2 h1 h2 c1 c2 hk hr
    rcases hget d1 e1 h1 with ⟨rfl, rfl⟩ | ⟨_, h1'⟩
    · simp at c1
    · rcases hget d2 e2 h2 with ⟨rfl, rfl⟩ | ⟨_, h2'⟩
      · simp at c2
      · exact h.uniq d1 d2 e1 e2 h1' h2' c1 c2 hk hr
  · intro t' ht'
    obtain ⟨d', e', h0, hs', hk'⟩ := h.tgt t' (by simp [ht'])
    have hne : d' ≠ d := by
      intro hdd
      subst hdd
      rw [he] at h0
      cases h0
      rw [← hk'] at ht'
      exact hT (by rw [← hkey.1, ← hkey.2]; exact ht')
    refine ⟨d', e', ?_, hs', hk'⟩
    rw [List.getElem?_modify]
    have hne' : ¬ d = d' := fun x => hne x.symm
    simp [hne', h0]
  · exact (List.nodup_cons.mp h.nodup).2
  · intro a hh hha hl
    obtain ⟨p1, p2⟩ := h.hand a hh hha hl
    refine ⟨p1, fun hs' => ?_⟩
    obtain ⟨d', e', h0, hs''⟩ := p2 hs'
    have hne : d' ≠ d := by
      intro hdd
      subst hdd
      rw [he] at h0
      cases h0
      rw [hst] at hs''
      cases hs''
    refine ⟨d', e', ?_, hs''⟩
    rw [List.getElem?_modify]
    have hne' : ¬ d = d' := fun x => hne x.symm
    simp [hne', h0]
  · intro i o hio
    refine (h.op i o hio).frame ?_ rfl (Nat.le_refl _)
    intro d' e' h0 hs'
    have hne : ¬ d = d' := by
      intro hdd
      subst hdd
      rw [he] at h0
      cases h0
      rw [hst] at hs'
      rcases hs' with x | x <;> cases x
    show (s.descs.modify d Desc.close)[d']? = some e'
    rw [List.getElem?_modify]
    simp [hne, h0]
  · exact h.sqk
  · intro t' ht'
    simp only [List.mem_append, List.mem_singleton] at ht'
    rcases ht' with h1 | rfl
    · exact h.log t' h1
    · intro hk
      simp only at hk
      exact hkey.2 ▸ hde.std (by rw [hkey.1]; exact hk)

/-- Replace operation `i` by one with the same static fields. -/
theorem InvG.setOp {s : Sys} {T : List (Kind × Nat)} {i : Nat} {o o' : FOp} (h : InvG s T)
    (hio : s.ops[i]? = some o) (hk : o'.kind = o.kind) (hcfd : o'.cfd = o.cfd)
    (hck : o'.ckind = o.ckind) (hok : OpOk s i o') :
    InvG { s with ops := s.ops.set i o' } T := by
  have hlt : i < s.ops.length := by
    rcases Nat.lt_or_ge i s.ops.length with h1 | h1
    · exact h1
    · simp [List.getElem?_eq_none h1] at hio
  have hget : ∀ (j : Nat) (oj : FOp), (s.ops.set i o')[j]? = some oj →
      (j = i ∧ oj = o') ∨ (j ≠ i ∧ s.ops[j]? = some oj) := by
    intro j oj hj
    rw [List.getElem?_set] at hj
    by_cases hij : i = j
    · subst hij; simp [hlt] at hj; exact Or.inl ⟨rfl, hj.symm⟩
    · simp [hij] at hj; exact Or.inr ⟨fun x => hij x.symm, hj⟩
  have hkind : ∀ (j : Nat) (oj : FOp), s.ops[j]? = some oj →
      ∃ oj', (s.ops.set i o')[j]? = some oj' ∧ oj'.kind = oj.kind ∧ oj'.cfd = oj.cfd ∧ oj'.ckind = oj.ckind := by
    intro j oj hj
    by_cases hij : i = j
    · subst hij
      rw [hio] at hj; cases hj
      exact ⟨o', by simp [hlt], hk, hcfd, hck⟩
    · exact ⟨oj, by simp [hij, hj], rfl, rfl, rfl⟩
  constructor
  · exact h.lo
  · exact h.strays
  · intro d e he
    have x := h.desc d e he
    refine { raw := x.raw, std := x.std, closed := x.closed, opn := x.opn, rel := x.rel, own := x.own,
             cf := ?_, wr0 := x.wr0, wr1 := x.wr1 }
    intro j hj
    obtain ⟨oj, h1, h2, h3⟩ := x.cf j hj
    obtain ⟨oj', g1, g2, g3, g4⟩ := hkind j oj h1
    exact ⟨oj', g1, by rw [g2, h2], by rw [g3, g4]; exact h3⟩
  · exact h.uniq
  · exact h.tgt
  · exact h.nodup
  · exact h.hand
  · intro j oj hj
    rcases hget j oj hj with ⟨rfl, rfl⟩ | ⟨_, h0⟩
    · exact hok.frame (fun _ _ x _ => x) rfl (Nat.le_refl _)
    · exact (h.op j oj h0).frame (fun _ _ x _ => x) rfl (Nat.le_refl _)
  · intro j r hj
    obtain ⟨oj, h1, h2⟩ := h.sqk j r hj
    obtain ⟨oj', g1, g2, _, _⟩ := hkind j oj h1
    exact ⟨oj', g1, by rw [g2, h2]⟩
  · exact h.log

theorem deliver_frame (s : Sys) (i : Nat) (c : Res) :
    (s.deliver i c).1.descs = s.descs ∧ (s.deliver i c).1.handles = s.handles ∧
    (s.deliver i c).1.sq = s.sq ∧ (s.deliver i c).1.strays = s.strays ∧
    (s.deliver i c).1.closeLog = s.closeLog ∧ (s.deliver i c).1.fileLo = s.fileLo := by
  unfold Sys.deliver
  split
  · simp
  · split <;> simp

theorem deliver_inv {s : Sys} {T : List (Kind × Nat)} {i : Nat} {c : Res} (h : InvG s T)
    (hnew : ∀ (o : FOp) (op' : Op) (effs : List Eff), s.ops[i]? = some o → o.op.update c = some (op', effs) →
      (okVals { o with op := op' }).Nodup ∧ ∀ v ∈ okVals { o with op := op' },
        ∃ (d : Nat) (e : Desc), s.descs[d]? = some e ∧ e.kind = s.issueKind o ∧ e.raw = v ∧ e.st = .pending i)
    (hcr : ∀ o, s.ops[i]? = some o → o.kind = .close → c.res = 0 ∨ c.res = -9) :
    InvG (s.deliver i c).1 T := by
  unfold Sys.deliver
  cases hio : s.ops[i]? with
  | none => exact h
  | some o =>
    simp only []
    cases hu : o.op.update c with
    | none => exact h
    | some p =>
      obtain ⟨op', effs⟩ := p
      simp only []
      have uf := update_facts o c op' effs hu
      have ho := h.op i o hio
      obtain ⟨hnd, hvals⟩ := hnew o op' effs hio hu
      apply h.setOp (o' := { o with op := op' }) hio rfl rfl rfl
      exact {
        wt := uf.wt ho.wt
        single := fun hk => by rw [uf.multi]; exact ho.single hk
        nodup := hnd
        vals := hvals
        on := ho.on
        cn := fun _ hs _ => absurd hs uf.ns
        cr := fun hk x hx => by
          rcases uf.res x hx with h1 | h1
          · exact ho.cr hk x h1
          · subst h1; exact hcr o hio hk }


/-- The invariant only reads these components. -/
theorem InvG.congr {s s' : Sys} {T : List (Kind × Nat)} (h : InvG s T)
    (h1 : s'.fileLo = s.fileLo) (h2 : s'.strays = s.strays) (h3 : s'.descs = s.descs)
    (h4 : s'.handles = s.handles) (h5 : s'.ops = s.ops) (h6 : s'.closeLog = s.closeLog)
    (h7 : ∀ (j : Nat) (r : CloseReq), Sqe.op j (some r) ∈ s'.sq → Sqe.op j (some r) ∈ s.sq) :
    InvG s' T := by
  have hik : ∀ o, s'.issueKind o = s.issueKind o := by
    intro o; unfold Sys.issueKind; rw [h4]
  constructor
  · rw [h1]; exact h.lo
  · rw [h2]; exact h.strays
  · intro d e he
    rw [h3] at he
    have x := h.desc d e he
    exact { raw := x.raw, std := x.std, closed := x.closed, opn := x.opn, rel := x.rel,
            own := by rw [h4]; exact x.own, cf := by rw [h5]; exact x.cf, wr0 := x.wr0, wr1 := x.wr1 }
  · rw [h3]; exact h.uniq
  · rw [h3]; exact h.tgt
  · exact h.nodup
  · rw [h3, h4]; exact h.hand
  · intro i o hio
    rw [h5] at hio
    exact (h.op i o hio).frame (fun d e he _ => by rw [h3]; exact he) (hik o) (by rw [h4]; exact Nat.le_refl _)
  · intro i r hi
    rw [h5]; exact h.sqk i r (h7 _ _ hi)
  · rw [h6]; exact h.log

theorem targets_cons (s : Sys) (e : Sqe) (rest : List Sqe) (hs : s.sq = e :: rest) :
    s.targets = (match e.target with | some t => [t] | none => []) ++ rest.filterMap Sqe.target := by
  unfold Sys.targets
  rw [hs, List.filterMap_cons]
  cases e.target <;> simp

theorem kstep_inv {s : Sys} (h : Inv s) : Inv (s.kstep).1 := by
  unfold Sys.kstep
  cases hsq : s.sq with
  | nil => simpa [hsq] using h
  | cons e rest =>
    simp only []
    have hT := targets_cons s e rest hsq
    have h0 : InvG { s with sq := rest } s.targets :=
      h.congr rfl rfl rfl rfl rfl rfl (fun _ _ hx => by rw [hsq]; exact List.mem_cons_of_mem _ hx)
    cases e with
    | cancel i =>
      simp only []
      simp only [Sqe.target] at hT
      show InvG _ (List.filterMap Sqe.target rest)
      simpa [hT] using h0
    | op i cr =>
      cases cr with
      | none =>
        simp only []
        simp only [Sqe.target] at hT
        show InvG _ (List.filterMap Sqe.target rest)
        have := h0.congr (s' := { s with sq := rest, inflight := s.inflight ++ [i] }) rfl rfl rfl rfl rfl rfl
          (fun _ _ hx => hx)
        simpa [hT] using this
      | some r =>
        simp only []
        simp only [Sqe.target] at hT
        rw [hT] at h0
        obtain ⟨h1, hok, hsq1, hops1, hh1⟩ := kclose_inv (s := { s with sq := rest }) (t := r.target) h0
        obtain ⟨o, hio, hkind⟩ := h.sqk i r (by rw [hsq]; simp)
        generalize hkc : Sys.kclose { s with sq := rest } r.target.1 r.target.2 = kc at h1 hok hsq1 hops1 hh1
        obtain ⟨s1, ok⟩ := kc
        simp only at h1 hok hsq1 hops1 hh1
        subst hok
        simp only [if_true]
        have hfr := deliver_frame s1 i ⟨0, 0⟩
        have hio1 : s1.ops[i]? = some o := by rw [hops1]; exact hio
        have h2 : InvG (s1.deliver i ⟨0, 0⟩).1 (List.filterMap Sqe.target rest) := by
          apply deliver_inv h1
          · intro o' op' effs ho' _
            rw [hio1] at ho'; cases ho'
            have : okVals { o with op := op' } = [] := okVals_close _ hkind
            rw [this]
            simp
          · intro _ _ _; exact Or.inl rfl
        show InvG _ (Sys.targets _)
        unfold Sys.targets
        rw [hfr.2.2.1, hsq1]
        exact h2
    | close r =>
      simp only []
      simp only [Sqe.target] at hT
      rw [hT] at h0
      obtain ⟨h1, hok, hsq1, hops1, hh1⟩ := kclose_inv (s := { s with sq := rest }) (t := r.target) h0
      show InvG _ (Sys.targets _)
      unfold Sys.targets
      rw [hsq1]
      exact h1


theorem kconsume_inv (n : Nat) {s : Sys} (h : Inv s) : Inv (Sys.kconsume n s).1 := by
  induction n generalizing s with
  | zero => exact h
  | succ n ih =>
    unfold Sys.kconsume
    exact ih (kstep_inv h)

theorem rpoll_inv {s : Sys} (h : Inv s) : Inv (s.rpoll).1 := by
  unfold Sys.rpoll
  exact kconsume_inv _ h

/-! ### a10's steps -/

theorem handles_append_word (hs : List Handle) (hn : Handle) :
    ∀ (a : Nat) (h : Handle), hs[a]? = some h → ∃ h', (hs ++ [hn])[a]? = some h' ∧ h'.word = h.word := by
  intro a h ha
  have hlt : a < hs.length := by
    rcases Nat.lt_or_ge a hs.length with h1 | h1
    · exact h1
    · simp [List.getElem?_eq_none h1] at ha
  exact ⟨h, by rw [List.getElem?_append_left hlt]; exact ha, rfl⟩

theorem getElem?_append_single {α : Type} {l : List α} {x y : α} {a : Nat}
    (h : (l ++ [x])[a]? = some y) : (a < l.length ∧ l[a]? = some y) ∨ (a = l.length ∧ y = x) := by
  rcases Nat.lt_or_ge a l.length with hlt | hge
  · rw [List.getElem?_append_left hlt] at h
    exact Or.inl ⟨hlt, h⟩
  · rw [List.getElem?_append_right hge] at h
    rcases Nat.eq_zero_or_pos (a - l.length) with h0 | h0
    · rw [h0] at h
      simp at h
      exact Or.inr ⟨by omega, h.symm⟩
    · have : [x][a - l.length]? = none := by
        apply List.getElem?_eq_none
        simp; omega
      rw [this] at h
      cases h

theorem getElem?_lt {α : Type} {l : List α} {y : α} {a : Nat} (h : l[a]? = some y) : a < l.length := by
  rcases Nat.lt_or_ge a l.length with h1 | h1
  · exact h1
  · simp [List.getElem?_eq_none h1] at h

theorem std_inv {s : Sys} (w : Nat) (h : Inv s) : Inv (s.std w).1 := by
  unfold Sys.std
  split
  · rename_i hw
    simp only []
    show InvG _ s.targets
    constructor
    · exact h.lo
    · exact h.strays
    · intro d e he
      have x := h.desc d e he
      refine { raw := x.raw, std := x.std, closed := x.closed, opn := x.opn, rel := x.rel, own := ?_,
               cf := x.cf, wr0 := x.wr0, wr1 := x.wr1 }
      intro a ha
      obtain ⟨hh, h1, h2⟩ := x.own a ha
      obtain ⟨h', g1, _⟩ := handles_append_word s.handles { word := fromRaw w .file, std := true } a hh h1
      have hlt : a < s.handles.length := by
        rcases Nat.lt_or_ge a s.handles.length with h1' | h1'
        · exact h1'
        · simp [List.getElem?_eq_none h1'] at h1
      exact ⟨hh, by show (s.handles ++ _)[a]? = _; rw [List.getElem?_append_left hlt]; exact h1, h2⟩
    · exact h.uniq
    · exact h.tgt
    · exact h.nodup
    · intro a hh ha hl
      show _ ∧ _
      simp only at ha
      rcases getElem?_append_single ha with ⟨_, h0⟩ | ⟨_, rfl⟩
      · exact h.hand a hh h0 hl
      · simp [fromRaw]
        exact hw
    · intro i o hio
      have ho := h.op i o hio
      exact ho.frame (fun _ _ x _ => x)
        (issueKind_congr o (handles_append_word s.handles _) ho.on) (by simp)
    · exact h.sqk
    · exact h.log
  · exact h


theorem getElem?_map_some {f : Desc → Desc} {l : List Desc} {d : Nat} {e' : Desc}
    (h : (l.map f)[d]? = some e') : ∃ e, l[d]? = some e ∧ e' = f e := by
  rw [List.getElem?_map] at h
  cases hl : l[d]? with
  | none => simp [hl] at h
  | some e => simp [hl] at h; exact ⟨e, rfl, h.symm⟩

theorem Uniq.map {ds : List Desc} {f : Desc → Desc} (h : Uniq ds)
    (hf : ∀ e, (f e).kind = e.kind ∧ (f e).raw = e.raw ∧ (f e).closes = e.closes) : Uniq (ds.map f) := by
  intro d1 d2 e1 e2 h1 h2 c1 c2 hk hr
  obtain ⟨x1, g1, rfl⟩ := getElem?_map_some h1
  obtain ⟨x2, g2, rfl⟩ := getElem?_map_some h2
  rw [(hf x1).2.2] at c1
  rw [(hf x2).2.2] at c2
  rw [(hf x1).1, (hf x2).1] at hk
  rw [(hf x1).2.1, (hf x2).2.1] at hr
  exact h d1 d2 x1 x2 g1 g2 c1 c2 hk hr

/-- Add an operation future. -/
theorem InvG.addOp {s : Sys} {T : List (Kind × Nat)} {o : FOp} (h : InvG s T)
    (hok : OpOk s s.ops.length o) : InvG { s with ops := s.ops ++ [o] } T := by
  constructor
  · exact h.lo
  · exact h.strays
  · intro d e he
    have x := h.desc d e he
    refine { raw := x.raw, std := x.std, closed := x.closed, opn := x.opn, rel := x.rel, own := x.own,
             cf := ?_, wr0 := x.wr0, wr1 := x.wr1 }
    intro j hj
    obtain ⟨oj, h1, h2⟩ := x.cf j hj
    exact ⟨oj, by show (s.ops ++ [o])[j]? = _; rw [List.getElem?_append_left (getElem?_lt h1)]; exact h1, h2⟩
  · exact h.uniq
  · exact h.tgt
  · exact h.nodup
  · exact h.hand
  · intro j oj hj
    rcases getElem?_append_single hj with ⟨_, h0⟩ | ⟨rfl, rfl⟩
    · exact (h.op j oj h0).frame (fun _ _ x _ => x) rfl (Nat.le_refl _)
    · exact hok.frame (fun _ _ x _ => x) rfl (Nat.le_refl _)
  · intro j r hj
    obtain ⟨oj, h1, h2⟩ := h.sqk j r hj
    exact ⟨oj, by show (s.ops ++ [o])[j]? = _; rw [List.getElem?_append_left (getElem?_lt h1)]; exact h1, h2⟩
  · exact h.log

theorem okVals_notStarted (o : FOp) (h : o.op.status = .notStarted) : okVals o = [] := by
  simp [okVals, h, stored]

theorem set_word (hs : List Handle) (a : Nat) (hh : Handle) (ha : hs[a]? = some hh) :
    ∀ (b : Nat) (h : Handle), hs[b]? = some h →
      ∃ h', (hs.set a { hh with live := false })[b]? = some h' ∧ h'.word = h.word := by
  intro b h hb
  rw [List.getElem?_set]
  by_cases hab : a = b
  · subst hab
    rw [ha] at hb; cases hb
    simp [getElem?_lt ha]
  · simp [hab, hb]

theorem newOp_close_inv {s : Sys} {a : Nat} {hh : Handle} (h : Inv s) (ha : s.handles[a]? = some hh)
    (hlive : hh.live = true) (hstd : hh.std = false) :
    Inv { s with
      ops := s.ops ++ [{ op := { multi := false }, kind := .close,
                         cfd := fdOf hh.word, ckind := kindOf hh.word }],
      handles := s.handles.set a { hh with live := false },
      descs := s.descs.map (fun e =>
        if e.st = .owned a then { e with st := .closeFut s.ops.length } else e) } := by
  show InvG _ s.targets
  obtain ⟨d0, e0, he0, hst0⟩ := (h.hand a hh ha hlive).2 hstd
  have hgetH : ∀ (b : Nat) (hb : Handle), (s.handles.set a { hh with live := false })[b]? = some hb →
      hb.live = true → b ≠ a ∧ s.handles[b]? = some hb := by
    intro b hb h1 h2
    rw [List.getElem?_set] at h1
    by_cases hab : a = b
    · subst hab
      simp [getElem?_lt ha] at h1
      subst h1
      simp at h2
    · simp [hab] at h1
      exact ⟨fun x => hab x.symm, h1⟩
  constructor
  · exact h.lo
  · exact h.strays
  · intro d e' he'
    obtain ⟨e, he, rfl⟩ := getElem?_map_some he'
    have x := h.desc d e he
    by_cases hs : e.st = .owned a
    · simp only [hs, if_true]
      obtain ⟨h1, g1, g2, g3, g4⟩ := x.own a hs
      rw [ha] at g1; cases g1
      refine { raw := x.raw, std := x.std, closed := fun c => by simp at c,
               opn := fun _ => x.opn (by simp [hs]), rel := fun c => by simp at c,
               own := fun b c => by simp at c, cf := ?_, wr0 := fun c => by simp at c,
               wr1 := fun _ => x.wr1 (by simp [hs]) }
      intro j hj
      simp at hj
      subst hj
      refine ⟨{ op := { multi := false }, kind := .close, cfd := fdOf hh.word, ckind := kindOf hh.word },
        by show (s.ops ++ [_])[s.ops.length]? = _; simp, rfl, ?_⟩
      simp only [g4, kindOf_fromRaw _ _ x.raw, fdOf_fromRaw _ _ x.raw]
      exact target_closeFileFd _ _ x.raw
    · simp only [hs, if_false]
      refine { raw := x.raw, std := x.std, closed := x.closed, opn := x.opn, rel := x.rel, own := ?_,
               cf := ?_, wr0 := x.wr0, wr1 := x.wr1 }
      · intro b hb
        obtain ⟨h1, g1, g2, g3, g4⟩ := x.own b hb
        have hne : ¬ a = b := by intro hab; subst hab; exact hs hb
        exact ⟨h1, by show (s.handles.set a _)[b]? = _; rw [List.getElem?_set]; simp [hne, g1], g2, g3, g4⟩
      · intro j hj
        obtain ⟨oj, h1, h2⟩ := x.cf j hj
        exact ⟨oj, by show (s.ops ++ [_])[j]? = _; rw [List.getElem?_append_left (getElem?_lt h1)]; exact h1, h2⟩
  · exact h.uniq.map (fun e => by split <;> simp)
  · intro t ht
    obtain ⟨d, e, he, hs, hk⟩ := h.tgt t ht
    refine ⟨d, e, ?_, hs, hk⟩
    show (s.descs.map _)[d]? = _
    rw [List.getElem?_map, he]
    simp [hs]
  · exact h.nodup
  · intro b hb h1 h2
    obtain ⟨hne, h0⟩ := hgetH b hb h1 h2
    obtain ⟨p1, p2⟩ := h.hand b hb h0 h2
    refine ⟨p1, fun hs => ?_⟩
    obtain ⟨d, e, he, hst⟩ := p2 hs
    refine ⟨d, e, ?_, hst⟩
    show (s.descs.map _)[d]? = _
    rw [List.getElem?_map, he]
    have : ¬ e.st = .owned a := by rw [hst]; intro c; cases c; exact hne rfl
    simp [this]
  · intro i o hio
    have hframe : ∀ (i : Nat) (o : FOp), OpOk s i o → OpOk { s with
        ops := s.ops ++ [{ op := { multi := false }, kind := .close,
                           cfd := fdOf hh.word, ckind := kindOf hh.word }],
        handles := s.handles.set a { hh with live := false },
        descs := s.descs.map (fun e =>
          if e.st = .owned a then { e with st := .closeFut s.ops.length } else e) } i o := by
      intro i o ho
      refine ho.frame ?_ (issueKind_congr o (set_word s.handles a hh ha) ho.on) (by simp)
      intro d e he hs
      show (s.descs.map _)[d]? = _
      rw [List.getElem?_map, he]
      have : ¬ e.st = .owned a := by rcases hs with c | c <;> (rw [c]; intro c'; cases c')
      simp [this]
    rcases getElem?_append_single hio with ⟨_, h0⟩ | ⟨rfl, rfl⟩
    · exact hframe i o (h.op i o h0)
    · exact { wt := fun r hr => by simp at hr
              single := fun _ => rfl
              nodup := by simp [okVals_close]
              vals := by simp [okVals_close]
              on := fun c => by simp [OpKind.borrows] at c
              cn := fun _ _ _ => ⟨d0, { e0 with st := .closeFut s.ops.length }, by
                  show (s.descs.map _)[d0]? = _
                  rw [List.getElem?_map, he0]; simp [hst0], rfl⟩
              cr := fun _ x hx => by simp [allRes] at hx }
  · intro j r hj
    obtain ⟨oj, h1, h2⟩ := h.sqk j r hj
    exact ⟨oj, by show (s.ops ++ [_])[j]? = _; rw [List.getElem?_append_left (getElem?_lt h1)]; exact h1, h2⟩
  · exact h.log

theorem newOp_inv {s : Sys} (kind : OpKind) (req : Kind) (a : Nat) (h : Inv s) :
    Inv (s.newOp kind req a).1 := by
  have fresh : ∀ (o : FOp), o.op.status = .notStarted → o.kind ≠ .close →
      (o.kind ≠ .maccept → o.op.multi = false) → (o.kind.borrows = true → o.on < s.handles.length) →
      OpOk s s.ops.length o := by
    intro o hs hk hm hon
    exact { wt := fun r hr => by simp [hs] at hr
            single := hm
            nodup := by simp [okVals_notStarted o hs]
            vals := by simp [okVals_notStarted o hs]
            on := hon
            cn := fun hc => absurd hc hk
            cr := fun hc => absurd hc hk }
  unfold Sys.newOp
  cases kind with
  | «open» =>
    exact h.addOp (fresh _ rfl (by simp) (by simp) (by simp [OpKind.borrows]))
  | socket =>
    exact h.addOp (fresh _ rfl (by simp) (by simp) (by simp [OpKind.borrows]))
  | pipe =>
    exact h.addOp (fresh _ rfl (by simp) (by simp) (by simp [OpKind.borrows]))
  | accept =>
    simp only []
    cases ha : s.handles[a]? with
    | none => exact h
    | some hh =>
      simp only []
      split
      · exact h
      · exact h.addOp (fresh _ rfl (by simp) (by simp) (fun _ => getElem?_lt ha))
  | maccept =>
    simp only []
    cases ha : s.handles[a]? with
    | none => exact h
    | some hh =>
      simp only []
      split
      · exact h
      · exact h.addOp (fresh _ rfl (by simp) (by simp) (fun _ => getElem?_lt ha))
  | acceptp =>
    simp only []
    cases ha : s.handles[a]? with
    | none => exact h
    | some hh =>
      simp only []
      split
      · exact h
      · exact h.addOp (fresh _ rfl (by simp) (by simp) (fun _ => getElem?_lt ha))
  | toDirect =>
    simp only []
    cases ha : s.handles[a]? with
    | none => exact h
    | some hh =>
      simp only []
      split
      · exact h
      · exact h.addOp (fresh _ rfl (by simp) (by simp) (fun _ => getElem?_lt ha))
  | toFd =>
    simp only []
    cases ha : s.handles[a]? with
    | none => exact h
    | some hh =>
      simp only []
      split
      · exact h
      · exact h.addOp (fresh _ rfl (by simp) (by simp) (fun _ => getElem?_lt ha))
  | close =>
    simp only []
    cases ha : s.handles[a]? with
    | none => exact h
    | some hh =>
      simp only []
      split
      · exact h
      · rename_i hg
        have hlive : hh.live = true := by
          cases hl : hh.live <;> simp_all
        have hstd : hh.std = false := by
          cases hl : hh.std <;> simp_all
        exact newOp_close_inv h ha hlive hstd


theorem okVals_dead (o : FOp) (h : o.op.futLive = false) : okVals o = [] := by
  simp [okVals, h]

/-- Results and unsubmitted close requests held by a dropped future are gone. -/
theorem InvG.abandon {s : Sys} {T : List (Kind × Nat)} {i : Nat} (h : InvG s T)
    (hdead : ∀ o, s.ops[i]? = some o → o.op.futLive = false) (sq' : List Sqe)
    (hsq : ∀ (j : Nat) (r : CloseReq), Sqe.op j (some r) ∈ sq' → Sqe.op j (some r) ∈ s.sq) :
    InvG { s with
      sq := sq',
      descs := s.descs.map (fun e =>
        if e.st = .pending i then { e with st := .lost }
        else if e.st = .closeFut i then { e with st := .forfeited } else e) } T := by
  have keep : ∀ (d : Nat) (e : Desc), s.descs[d]? = some e → e.st ≠ .pending i → e.st ≠ .closeFut i →
      (s.descs.map (fun e =>
        if e.st = .pending i then { e with st := .lost }
        else if e.st = .closeFut i then { e with st := .forfeited } else e))[d]? = some e := by
    intro d e he h1 h2
    rw [List.getElem?_map, he]
    simp [h1, h2]
  constructor
  · exact h.lo
  · exact h.strays
  · intro d e' he'
    obtain ⟨e, he, rfl⟩ := getElem?_map_some he'
    have x := h.desc d e he
    by_cases h1 : e.st = .pending i
    · simp only [h1, if_true]
      exact { raw := x.raw, std := x.std, closed := fun c => by simp at c,
              opn := fun _ => x.opn (by simp [h1]), rel := fun c => by simp at c,
              own := fun b c => by simp at c, cf := fun j c => by simp at c,
              wr0 := fun _ => x.wr0 (Or.inl ⟨i, h1⟩), wr1 := fun c => by simp at c }
    · by_cases h2 : e.st = .closeFut i
      · simp only [h2, if_true]
        simp only [show ¬ (DSt.closeFut i = DSt.pending i) by simp, if_false]
        exact { raw := x.raw, std := x.std, closed := fun c => by simp at c,
                opn := fun _ => x.opn (by simp [h2]), rel := fun c => by simp at c,
                own := fun b c => by simp at c, cf := fun j c => by simp at c,
                wr0 := fun c => by simp at c, wr1 := fun _ => x.wr1 (by simp [h2]) }
      · simp only [h1, h2, if_false]
        exact { raw := x.raw, std := x.std, closed := x.closed, opn := x.opn, rel := x.rel, own := x.own,
                cf := x.cf, wr0 := x.wr0, wr1 := x.wr1 }
  · exact h.uniq.map (fun e => by split <;> (try split) <;> simp)
  · intro t ht
    obtain ⟨d, e, he, hs, hk⟩ := h.tgt t ht
    exact ⟨d, e, keep d e he (by simp [hs]) (by simp [hs]), hs, hk⟩
  · exact h.nodup
  · intro b hb h1 h2
    obtain ⟨p1, p2⟩ := h.hand b hb h1 h2
    refine ⟨p1, fun hs => ?_⟩
    obtain ⟨d, e, he, hst⟩ := p2 hs
    exact ⟨d, e, keep d e he (by simp [hst]) (by simp [hst]), hst⟩
  · intro j o hjo
    have ho := h.op j o hjo
    by_cases hji : j = i
    · subst hji
      have hd := hdead o hjo
      exact { wt := ho.wt, single := ho.single
              nodup := by simp [okVals_dead o hd]
              vals := by simp [okVals_dead o hd]
              on := ho.on
              cn := fun _ _ c => by rw [hd] at c; cases c
              cr := ho.cr }
    · refine ho.frame ?_ rfl (Nat.le_refl _)
      intro d e he hs
      refine keep d e he ?_ ?_
      · rcases hs with c | c <;> (rw [c]; intro c'; cases c'; try exact hji rfl)
      · rcases hs with c | c <;> (rw [c]; intro c'; cases c'; try exact hji rfl)
  · intro j r hj
    exact h.sqk j r (hsq j r hj)
  · exact h.log

theorem dropOp_inv {s : Sys} (i : Nat) (h : Inv s) : Inv (s.dropOp i).1 := by
  unfold Sys.dropOp
  cases hio : s.ops[i]? with
  | none => exact h
  | some o =>
    simp only []
    split
    · exact h
    · have df := drop_facts o.op s.sqRoom
      generalize o.op.dropFut s.sqRoom = p at df
      obtain ⟨op', effs⟩ := p
      simp only at df ⊢
      have ho := h.op i o hio
      have h1 : InvG { s with ops := s.ops.set i { o with op := op' } } s.targets := by
        apply InvG.setOp (o' := { o with op := op' }) h hio rfl rfl rfl
        exact { wt := df.wt ho.wt
                single := fun hk => by rw [df.multi]; exact ho.single hk
                nodup := by simp [okVals_dead { o with op := op' } df.live]
                vals := by simp [okVals_dead { o with op := op' } df.live]
                on := ho.on
                cn := fun _ _ c => by rw [df.live] at c; cases c
                cr := fun hk x hx => ho.cr hk x (df.res x hx) }
      have hlt : i < s.ops.length := getElem?_lt hio
      have h2 := h1.abandon (i := i)
        (by intro o' ho'; simp [hlt] at ho'; subst ho'; exact df.live)
        (if effs.contains .cancel then s.sq ++ [.cancel i] else s.sq)
        (by intro j r hj; split at hj
            · simp at hj; exact hj
            · exact hj)
      have hT : (if effs.contains .cancel then s.sq ++ [Sqe.cancel i] else s.sq).filterMap Sqe.target
          = s.targets := by
        unfold Sys.targets
        split <;> simp [List.filterMap_append, Sqe.target]
      show InvG _ (Sys.targets _)
      unfold Sys.targets
      simp only [hT]
      exact h2


theorem fromRaw_inj {r1 r2 : Nat} {k1 k2 : Kind} (h1 : r1 < 2147483648) (h2 : r2 < 2147483648)
    (h : fromRaw r1 k1 = fromRaw r2 k2) : k1 = k2 ∧ r1 = r2 := by
  have a := kindOf_fromRaw r1 k1 h1
  have b := fdOf_fromRaw r1 k1 h1
  rw [h] at a b
  rw [kindOf_fromRaw r2 k2 h2] at a
  rw [fdOf_fromRaw r2 k2 h2] at b
  exact ⟨a.symm, b.symm⟩

theorem InvG.owned_unique {s : Sys} {T : List (Kind × Nat)} (h : InvG s T) {d1 d2 a : Nat} {e1 e2 : Desc}
    (h1 : s.descs[d1]? = some e1) (h2 : s.descs[d2]? = some e2)
    (s1 : e1.st = .owned a) (s2 : e2.st = .owned a) : d1 = d2 := by
  have x1 := h.desc d1 e1 h1
  have x2 := h.desc d2 e2 h2
  obtain ⟨hh1, g1, _, _, w1⟩ := x1.own a s1
  obtain ⟨hh2, g2, _, _, w2⟩ := x2.own a s2
  rw [g1] at g2; cases g2
  obtain ⟨hk, hr⟩ := fromRaw_inj x1.raw x2.raw (w1.symm.trans w2)
  exact h.uniq d1 d2 e1 e2 h1 h2 (x1.opn (by simp [s1])) (x2.opn (by simp [s2])) hk hr

/-- The `AsyncFd` `a` is gone and its close request `t` is in hand. -/
theorem InvG.release {s : Sys} {T : List (Kind × Nat)} {a : Nat} {hh : Handle} (h : InvG s T)
    (ha : s.handles[a]? = some hh) (hlive : hh.live = true) (hstd : hh.std = false) :
    InvG { s with
      handles := s.handles.set a { hh with live := false },
      descs := s.descs.map (fun e => if e.st = .owned a then { e with st := .released } else e) }
      ((kindOf hh.word, fdOf hh.word) :: T) := by
  obtain ⟨d0, e0, he0, hst0⟩ := (h.hand a hh ha hlive).2 hstd
  have x0 := h.desc d0 e0 he0
  obtain ⟨hh', g1, _, _, hword⟩ := x0.own a hst0
  rw [ha] at g1; cases g1
  have hkey : (kindOf hh.word, fdOf hh.word) = (e0.kind, e0.raw) := by
    rw [hword, kindOf_fromRaw _ _ x0.raw, fdOf_fromRaw _ _ x0.raw]
  rw [hkey]
  have keep : ∀ (d : Nat) (e : Desc), s.descs[d]? = some e → e.st ≠ .owned a →
      (s.descs.map (fun e => if e.st = .owned a then { e with st := .released } else e))[d]? = some e := by
    intro d e he h1
    rw [List.getElem?_map, he]
    simp [h1]
  have hgetH : ∀ (b : Nat) (hb : Handle), (s.handles.set a { hh with live := false })[b]? = some hb →
      hb.live = true → b ≠ a ∧ s.handles[b]? = some hb := by
    intro b hb h1 h2
    rw [List.getElem?_set] at h1
    by_cases hab : a = b
    · subst hab
      simp [getElem?_lt ha] at h1
      subst h1
      simp at h2
    · simp [hab] at h1
      exact ⟨fun x => hab x.symm, h1⟩
  have hnotin : (e0.kind, e0.raw) ∉ T := by
    intro hin
    obtain ⟨d', e', he', hs', hk'⟩ := h.tgt _ hin
    simp only [Prod.mk.injEq] at hk'
    have := h.uniq d' d0 e' e0 he' he0 ((h.desc d' e' he').opn (by simp [hs'])) (x0.opn (by simp [hst0])) hk'.1 hk'.2
    subst this
    rw [he0] at he'; cases he'
    rw [hst0] at hs'; cases hs'
  constructor
  · exact h.lo
  · exact h.strays
  · intro d e' he'
    obtain ⟨e, he, rfl⟩ := getElem?_map_some he'
    have x := h.desc d e he
    by_cases hs : e.st = .owned a
    · have hd : d = d0 := h.owned_unique he he0 hs hst0
      subst hd
      rw [he0] at he; cases he
      simp only [hs, if_true]
      exact { raw := x.raw, std := x.std, closed := fun c => by simp at c,
              opn := fun _ => x.opn (by simp [hs]), rel := fun _ => by simp,
              own := fun b c => by simp at c, cf := fun j c => by simp at c,
              wr0 := fun c => by simp at c, wr1 := fun _ => x.wr1 (by simp [hs]) }
    · simp only [hs, if_false]
      refine { raw := x.raw, std := x.std, closed := x.closed, opn := x.opn,
               rel := fun c => List.mem_cons_of_mem _ (x.rel c), own := ?_,
               cf := x.cf, wr0 := x.wr0, wr1 := x.wr1 }
      intro b hb
      obtain ⟨h1, g1, g2, g3, g4⟩ := x.own b hb
      have hne : ¬ a = b := by intro hab; subst hab; exact hs hb
      exact ⟨h1, by show (s.handles.set a _)[b]? = _; rw [List.getElem?_set]; simp [hne, g1], g2, g3, g4⟩
  · exact h.uniq.map (fun e => by split <;> simp)
  · intro t ht
    simp only [List.mem_cons] at ht
    rcases ht with rfl | ht
    · refine ⟨d0, { e0 with st := .released }, ?_, rfl, rfl⟩
      show (s.descs.map _)[d0]? = _
      rw [List.getElem?_map, he0]; simp [hst0]
    · obtain ⟨d, e, he, hs, hk⟩ := h.tgt t ht
      exact ⟨d, e, keep d e he (by simp [hs]), hs, hk⟩
  · exact List.nodup_cons.mpr ⟨hnotin, h.nodup⟩
  · intro b hb h1 h2
    obtain ⟨hne, h0⟩ := hgetH b hb h1 h2
    obtain ⟨p1, p2⟩ := h.hand b hb h0 h2
    refine ⟨p1, fun hs => ?_⟩
    obtain ⟨d, e, he, hst⟩ := p2 hs
    exact ⟨d, e, keep d e he (by rw [hst]; intro c; cases c; exact hne rfl), hst⟩
  · intro i o hio
    have ho := h.op i o hio
    refine ho.frame ?_ (issueKind_congr o (set_word s.handles a hh ha) ho.on) (by simp)
    intro d e he hs
    exact keep d e he (by rcases hs with c | c <;> (rw [c]; intro c'; cases c'))
  · exact h.sqk
  · exact h.log


/-- Dropping a standard-stream wrapper: only the object goes away. -/
theorem InvG.killStd {s : Sys} {T : List (Kind × Nat)} {a : Nat} {hh : Handle} (h : InvG s T)
    (ha : s.handles[a]? = some hh) (hstd : hh.std = true) :
    InvG { s with handles := s.handles.set a { hh with live := false } } T := by
  have hgetH : ∀ (b : Nat) (hb : Handle), (s.handles.set a { hh with live := false })[b]? = some hb →
      hb.live = true → b ≠ a ∧ s.handles[b]? = some hb := by
    intro b hb h1 h2
    rw [List.getElem?_set] at h1
    by_cases hab : a = b
    · subst hab
      simp [getElem?_lt ha] at h1
      subst h1
      simp at h2
    · simp [hab] at h1
      exact ⟨fun x => hab x.symm, h1⟩
  constructor
  · exact h.lo
  · exact h.strays
  · intro d e he
    have x := h.desc d e he
    refine { raw := x.raw, std := x.std, closed := x.closed, opn := x.opn, rel := x.rel, own := ?_,
             cf := x.cf, wr0 := x.wr0, wr1 := x.wr1 }
    intro b hb
    obtain ⟨h1, g1, g2, g3, g4⟩ := x.own b hb
    have hne : ¬ a = b := by
      intro hab; subst hab
      rw [ha] at g1; cases g1
      rw [hstd] at g3; cases g3
    exact ⟨h1, by show (s.handles.set a _)[b]? = _; rw [List.getElem?_set]; simp [hne, g1], g2, g3, g4⟩
  · exact h.uniq
  · exact h.tgt
  · exact h.nodup
  · intro b hb h1 h2
    obtain ⟨hne, h0⟩ := hgetH b hb h1 h2
    exact h.hand b hb h0 h2
  · intro i o hio
    have ho := h.op i o hio
    exact ho.frame (fun _ _ x _ => x) (issueKind_congr o (set_word s.handles a hh ha) ho.on) (by simp)
  · exact h.sqk
  · exact h.log

theorem dropH_inv {s : Sys} (a : Nat) (h : Inv s) : Inv (s.dropH a).1 := by
  unfold Sys.dropH
  cases ha : s.handles[a]? with
  | none => exact h
  | some hh =>
    simp only []
    split
    · exact h
    · rename_i hg
      have hlive : hh.live = true := by
        cases hl : hh.live <;> simp_all
      by_cases hstd' : hh.std = true
      · rw [if_pos hstd']
        exact h.killStd ha hstd'
      · rw [if_neg hstd']
        have hstd : hh.std = false := by cases hx : hh.std <;> simp_all
        have h1 := InvG.release h ha hlive hstd
        split
        · -- the CLOSE is queued
          simp only []
          show InvG _ (Sys.targets _)
          unfold Sys.targets
          simp only [List.filterMap_append, List.filterMap_cons, List.filterMap_nil, Sqe.target]
          have hw := (h.hand a hh ha hlive).2 hstd
          obtain ⟨d0, e0, he0, hst0⟩ := hw
          have x0 := h.desc d0 e0 he0
          obtain ⟨hh', g1, _, _, hword⟩ := x0.own a hst0
          rw [ha] at g1; cases g1
          have hfd : fdOf hh.word < 2147483648 := by
            rw [hword, fdOf_fromRaw _ _ x0.raw]; exact x0.raw
          rw [target_closeFileFd _ _ hfd]
          have h2 : InvG _ (s.targets ++ [(kindOf hh.word, fdOf hh.word)]) :=
            h1.perm (List.perm_append_singleton _ _).symm
          exact h2.congr rfl rfl rfl rfl rfl rfl (by
            intro j r he
            simpa using he)
        · -- queue full: synchronous close
          simp only [syncTarget]
          obtain ⟨h2, _, hsq, _, _⟩ := kclose_inv h1
          have : Inv (Sys.kclose { s with
              handles := s.handles.set a { hh with live := false },
              descs := s.descs.map (fun e => if e.st = .owned a then { e with st := .released } else e) }
              (kindOf hh.word) (fdOf hh.word)).1 := by
            show InvG _ (Sys.targets _)
            unfold Sys.targets
            rw [hsq]
            exact h2
          cases hk : kindOf hh.word <;> simp only [hk] at this ⊢ <;> exact this


theorem wrap_frame (s : Sys) (i : Nat) (k : Kind) (vals : List Nat) :
    (s.wrap i k vals).1.sq = s.sq ∧ (s.wrap i k vals).1.ops = s.ops := by
  induction vals generalizing s with
  | nil => exact ⟨rfl, rfl⟩
  | cons v vs ih =>
    unfold Sys.wrap
    simp only []
    have := ih { s with
      handles := s.handles ++ [{ word := fromRaw v k }],
      descs := s.descs.map (fun e =>
        if e.st = .pending i ∧ e.kind = k ∧ e.raw = v ∧ e.closes = 0
        then { e with st := .owned s.handles.length, wraps := e.wraps + 1 } else e) }
    exact this

/-- One `AsyncFd::from_raw`. -/
theorem wrap_one {s : Sys} {T : List (Kind × Nat)} (i : Nat) (k : Kind) (v : Nat) (h : InvG s T)
    (hv : ∃ (d : Nat) (e : Desc), s.descs[d]? = some e ∧ e.kind = k ∧ e.raw = v ∧ e.st = .pending i)
    (hfree : ∀ o, s.ops[i]? = some o → v ∉ okVals o) :
    InvG { s with
      handles := s.handles ++ [{ word := fromRaw v k }],
      descs := s.descs.map (fun e =>
        if e.st = .pending i ∧ e.kind = k ∧ e.raw = v ∧ e.closes = 0
        then { e with st := .owned s.handles.length, wraps := e.wraps + 1 } else e) } T := by
  have keep : ∀ (d : Nat) (e : Desc), s.descs[d]? = some e →
      ¬ (e.st = .pending i ∧ e.kind = k ∧ e.raw = v ∧ e.closes = 0) →
      (s.descs.map (fun e =>
        if e.st = .pending i ∧ e.kind = k ∧ e.raw = v ∧ e.closes = 0
        then { e with st := .owned s.handles.length, wraps := e.wraps + 1 } else e))[d]? = some e := by
    intro d e he h1
    rw [List.getElem?_map, he]
    simp only [Option.map_some, if_neg h1]
  constructor
  · exact h.lo
  · exact h.strays
  · intro d e' he'
    obtain ⟨e, he, rfl⟩ := getElem?_map_some he'
    have x := h.desc d e he
    by_cases hc : e.st = .pending i ∧ e.kind = k ∧ e.raw = v ∧ e.closes = 0
    · rw [if_pos hc]
      obtain ⟨c1, c2, c3, c4⟩ := hc
      refine { raw := x.raw, std := x.std, closed := fun c => by simp at c,
               opn := fun _ => c4, rel := fun c => by simp at c,
               own := ?_, cf := fun j c => by simp at c,
               wr0 := fun c => by simp at c, wr1 := fun _ => by simp [x.wr0 (Or.inl ⟨i, c1⟩)] }
      intro b hb
      simp at hb
      subst hb
      refine ⟨{ word := fromRaw v k }, ?_, rfl, rfl, ?_⟩
      · show (s.handles ++ [_])[s.handles.length]? = _
        simp
      · simp [c2, c3]
    · rw [if_neg hc]
      refine { raw := x.raw, std := x.std, closed := x.closed, opn := x.opn, rel := x.rel, own := ?_,
               cf := x.cf, wr0 := x.wr0, wr1 := x.wr1 }
      intro b hb
      obtain ⟨h1, g1, g2⟩ := x.own b hb
      exact ⟨h1, by show (s.handles ++ [_])[b]? = _; rw [List.getElem?_append_left (getElem?_lt g1)]; exact g1, g2⟩
  · exact h.uniq.map (fun e => by split <;> simp)
  · intro t ht
    obtain ⟨d, e, he, hs, hk⟩ := h.tgt t ht
    exact ⟨d, e, keep d e he (by simp [hs]), hs, hk⟩
  · exact h.nodup
  · intro b hb h1 h2
    rcases getElem?_append_single h1 with ⟨_, h0⟩ | ⟨rfl, rfl⟩
    · obtain ⟨p1, p2⟩ := h.hand b hb h0 h2
      refine ⟨p1, fun hs => ?_⟩
      obtain ⟨d, e, he, hst⟩ := p2 hs
      exact ⟨d, e, keep d e he (by simp [hst]), hst⟩
    · refine ⟨fun c => by simp at c, fun _ => ?_⟩
      obtain ⟨d, e, he, c2, c3, c1⟩ := hv
      have c4 := (h.desc d e he).opn (by simp [c1])
      refine ⟨d, { e with st := .owned s.handles.length, wraps := e.wraps + 1 }, ?_, rfl⟩
      show (s.descs.map _)[d]? = _
      rw [List.getElem?_map, he]
      simp [c1, c2, c3, c4]
  · intro j o hjo
    have ho := h.op j o hjo
    refine ho.frame' ?_ (issueKind_congr o (handles_append_word s.handles _) ho.on) (by simp)
    intro d e he hs
    refine keep d e he ?_
    rintro ⟨c1, c2, c3, c4⟩
    rcases hs with ⟨hp, hin⟩ | hcf
    · rw [c1] at hp
      cases hp
      rw [c3] at hin
      exact hfree o hjo hin
    · rw [c1] at hcf; cases hcf
  · exact h.sqk
  · exact h.log

theorem wrap_inv {s : Sys} {T : List (Kind × Nat)} (i : Nat) (k : Kind) (vals : List Nat) (h : InvG s T)
    (hv : ∀ v ∈ vals, ∃ (d : Nat) (e : Desc), s.descs[d]? = some e ∧ e.kind = k ∧ e.raw = v ∧ e.st = .pending i)
    (hnd : vals.Nodup)
    (hfree : ∀ o, s.ops[i]? = some o → ∀ v ∈ vals, v ∉ okVals o) :
    InvG (s.wrap i k vals).1 T := by
  induction vals generalizing s with
  | nil => exact h
  | cons v vs ih =>
    unfold Sys.wrap
    simp only []
    have h1 := wrap_one i k v h (hv v (by simp)) (fun o ho => hfree o ho v (by simp))
    obtain ⟨hnv, hnd'⟩ := List.nodup_cons.mp hnd
    apply ih h1
    · intro v' hv'
      obtain ⟨d, e, he, c2, c3, c1⟩ := hv v' (by simp [hv'])
      refine ⟨d, e, ?_, c2, c3, c1⟩
      show (s.descs.map _)[d]? = _
      rw [List.getElem?_map, he]
      have : ¬ (e.st = .pending i ∧ e.kind = k ∧ e.raw = v ∧ e.closes = 0) := by
        rintro ⟨_, _, c, _⟩
        rw [c3] at c
        subst c
        exact hnv hv'
      simp only [Option.map_some, if_neg this]
    · exact hnd'
    · intro o ho v' hv'
      exact hfree o ho v' (by simp [hv'])


theorem next_mem {r r' : Results} {x : Res} (h : r.next = some (x, r')) : x ∈ resList r := by
  cases r with
  | single y =>
    simp [Results.next] at h
    obtain ⟨rfl, rfl⟩ := h
    simp [resList]
  | multi q =>
    cases q with
    | nil => simp [Results.next] at h
    | cons y q =>
      simp [Results.next] at h
      obtain ⟨rfl, rfl⟩ := h
      simp [resList]

/-- A `Close` future never restarts: the kernel answers a CLOSE with 0 or EBADF. -/
theorem close_no_restart {s : Sys} {i : Nat} {o : FOp} (ho : OpOk s i o) (hk : o.kind = .close) :
    ¬ Restart o.op := by
  rintro ⟨r, x, r', h1, h2, h3⟩
  have hx : x ∈ allRes o.op.status := by rw [h1]; exact next_mem h2
  have := ho.cr hk x hx
  simp only [EINTR, ECANCELED] at h3
  omega

/-- The `Close` future `i` is submitted: its descriptor is released, the request is outstanding. -/
theorem InvG.submitClose {s : Sys} {T : List (Kind × Nat)} {i : Nat} {o : FOp} (h : InvG s T)
    (hio : s.ops[i]? = some o) (hk : o.kind = .close)
    (hex : ∃ (d : Nat) (e : Desc), s.descs[d]? = some e ∧ e.st = .closeFut i)
    (hns : o.op.status ≠ .notStarted) :
    InvG { s with
      sq := s.sq ++ [.op i (some (closeFileFd o.cfd o.ckind))],
      descs := s.descs.map (fun e => if e.st = .closeFut i then { e with st := .released } else e) }
      ((closeFileFd o.cfd o.ckind).target :: T) := by
  have keep : ∀ (d : Nat) (e : Desc), s.descs[d]? = some e → e.st ≠ .closeFut i →
      (s.descs.map (fun e => if e.st = .closeFut i then { e with st := .released } else e))[d]? = some e := by
    intro d e he h1
    rw [List.getElem?_map, he]
    simp [h1]
  have hkey : ∀ (d : Nat) (e : Desc), s.descs[d]? = some e → e.st = .closeFut i →
      (closeFileFd o.cfd o.ckind).target = (e.kind, e.raw) := by
    intro d e he hs
    obtain ⟨o', h1, _, h3⟩ := (h.desc d e he).cf i hs
    rw [hio] at h1; cases h1
    exact h3
  obtain ⟨d0, e0, he0, hst0⟩ := hex
  have hk0 := hkey d0 e0 he0 hst0
  have hnotin : (closeFileFd o.cfd o.ckind).target ∉ T := by
    intro hin
    obtain ⟨d', e', he', hs', hk'⟩ := h.tgt _ hin
    rw [hk0] at hk'
    simp only [Prod.mk.injEq] at hk'
    have := h.uniq d' d0 e' e0 he' he0 ((h.desc d' e' he').opn (by simp [hs']))
      ((h.desc d0 e0 he0).opn (by simp [hst0])) hk'.1 hk'.2
    subst this
    rw [he0] at he'; cases he'
    rw [hst0] at hs'; cases hs'
  constructor
  · exact h.lo
  · exact h.strays
  · intro d e' he'
    obtain ⟨e, he, rfl⟩ := getElem?_map_some he'
    have x := h.desc d e he
    by_cases hs : e.st = .closeFut i
    · simp only [hs, if_true]
      exact { raw := x.raw, std := x.std, closed := fun c => by simp at c,
              opn := fun _ => x.opn (by simp [hs]), rel := fun _ => by rw [hkey d e he hs]; simp,
              own := fun b c => by simp at c, cf := fun j c => by simp at c,
              wr0 := fun c => by simp at c, wr1 := fun _ => x.wr1 (by simp [hs]) }
    · simp only [hs, if_false]
      exact { raw := x.raw, std := x.std, closed := x.closed, opn := x.opn,
              rel := fun c => List.mem_cons_of_mem _ (x.rel c), own := x.own,
              cf := x.cf, wr0 := x.wr0, wr1 := x.wr1 }
  · exact h.uniq.map (fun e => by split <;> simp)
  · intro t ht
    simp only [List.mem_cons] at ht
    rcases ht with rfl | ht
    · refine ⟨d0, { e0 with st := .released }, ?_, rfl, hk0.symm⟩
      show (s.descs.map _)[d0]? = _
      rw [List.getElem?_map, he0]; simp [hst0]
    · obtain ⟨d, e, he, hs, hk'⟩ := h.tgt t ht
      exact ⟨d, e, keep d e he (by simp [hs]), hs, hk'⟩
  · exact List.nodup_cons.mpr ⟨hnotin, h.nodup⟩
  · intro b hb h1 h2
    obtain ⟨p1, p2⟩ := h.hand b hb h1 h2
    refine ⟨p1, fun hs => ?_⟩
    obtain ⟨d, e, he, hst⟩ := p2 hs
    exact ⟨d, e, keep d e he (by simp [hst]), hst⟩
  · intro j oj hjo
    have ho := h.op j oj hjo
    by_cases hji : j = i
    · subst hji
      rw [hio] at hjo; cases hjo
      exact { wt := ho.wt, single := ho.single, nodup := ho.nodup
              vals := fun v hv => by
                obtain ⟨d, e, he, c1, c2, c3⟩ := ho.vals v hv
                exact ⟨d, e, keep d e he (by simp [c3]), c1, c2, c3⟩
              on := ho.on
              cn := fun _ c _ => absurd c hns
              cr := ho.cr }
    · refine ho.frame ?_ rfl (Nat.le_refl _)
      intro d e he hs
      refine keep d e he ?_
      rcases hs with c | c <;> (rw [c]; intro c'; cases c'; try exact hji rfl)
  · intro j r hj
    simp only [List.mem_append, List.mem_singleton] at hj
    rcases hj with hj | hj
    · exact h.sqk j r hj
    · cases hj
      exact ⟨o, hio, hk⟩
  · exact h.log

theorem map_closeFut_id {s : Sys} {T : List (Kind × Nat)} {i : Nat} {o : FOp} (h : InvG s T)
    (hio : s.ops[i]? = some o) (hk : o.kind ≠ .close) :
    s.descs.map (fun e => if e.st = .closeFut i then { e with st := .released } else e) = s.descs := by
  apply List.ext_getElem?
  intro d
  rw [List.getElem?_map]
  cases he : s.descs[d]? with
  | none => rfl
  | some e =>
    have : e.st ≠ .closeFut i := by
      intro hs
      obtain ⟨o', h1, h2, _⟩ := (h.desc d e he).cf i hs
      rw [hio] at h1; cases h1
      exact hk h2
    simp [this]


theorem pollCore_inv {s : Sys} (i : Nat) (h : Inv s) : Inv (s.pollCore i).1 := by
  unfold Sys.pollCore
  cases hio : s.ops[i]? with
  | none => exact h
  | some o =>
    simp only []
    split
    · exact h
    · rename_i hlive'
      have hlive : o.op.futLive = true := by
        cases hl : o.op.futLive <;> simp_all
      have pf := poll_facts o i s.sqRoom
      generalize o.op.poll i s.sqRoom = p at pf
      obtain ⟨op', out, effs⟩ := p
      simp only at pf ⊢
      have ho := h.op i o hio
      have hvals := pf.vals ho.wt
      rw [hlive] at hvals
      simp only [if_true] at hvals
      have hlt : i < s.ops.length := getElem?_lt hio
      have hsub_vals : ∀ v ∈ okVals { o with op := op' }, v ∈ okVals o := by
        intro v hv; rw [hvals]; exact List.mem_append_right _ hv
      have hnd' : (okVals { o with op := op' }).Nodup := by
        have := ho.nodup
        rw [hvals] at this
        exact (List.nodup_append.mp this).2.1
      have hok' : OpOk s i { o with op := op' } :=
        { wt := pf.wt ho.wt
          single := fun hk => by show op'.multi = false; rw [pf.multi]; exact ho.single hk
          nodup := hnd'
          vals := fun v hv => ho.vals v (hsub_vals v hv)
          on := ho.on
          cn := fun hk hs hl => by
            have hs0 : o.op.status = .notStarted := by
              rcases pf.ns hs with c | c
              · exact c
              · exact absurd c (close_no_restart ho hk)
            exact ho.cn hk hs0 hlive
          cr := fun hk x hx => by
            rcases pf.res x hx with c | c
            · exact ho.cr hk x c
            · subst c; exact Or.inl rfl }
      have h1 : InvG { s with ops := s.ops.set i { o with op := op' } } s.targets :=
        h.setOp (o' := { o with op := op' }) hio rfl rfl rfl hok'
      have hio1 : (s.ops.set i { o with op := op' })[i]? = some { o with op := op' } := by
        simp [hlt]
      cases hsub : effs.contains Eff.submit with
      | true =>
        simp only [if_true]
        obtain ⟨hst', hst0⟩ := pf.sub hsub
        have hout : ∀ x, out ≠ .readyOk x := by
          intro x hx
          have := pf.nosub x hx
          rw [hsub] at this; cases this
        -- the state after the submission
        have hfin : Inv { s with
            ops := s.ops.set i { o with op := op' },
            sq := s.sq ++ [.op i (if o.kind = .close then some (closeFileFd o.cfd o.ckind) else none)],
            descs := s.descs.map (fun e =>
              if e.st = .closeFut i then { e with st := .released } else e) } := by
          by_cases hk : o.kind = .close
          · rw [if_pos hk]
            have hs0 : o.op.status = .notStarted := by
              rcases hst0 with c | c
              · exact c
              · exact absurd c (close_no_restart ho hk)
            have h2 := h1.submitClose (o := { o with op := op' }) hio1 hk (ho.cn hk hs0 hlive)
              (by show op'.status ≠ _; rw [hst']; simp)
            show InvG _ (Sys.targets _)
            unfold Sys.targets
            simp only [List.filterMap_append, List.filterMap_cons, List.filterMap_nil, Sqe.target]
            exact h2.perm (List.perm_append_singleton _ _).symm
          · rw [if_neg hk]
            have hmap := map_closeFut_id h1 (o := { o with op := op' }) hio1 hk
            simp only at hmap
            rw [hmap]
            show InvG _ (Sys.targets _)
            unfold Sys.targets
            simp only [List.filterMap_append, List.filterMap_cons, List.filterMap_nil, Sqe.target,
              List.append_nil]
            exact h1.congr rfl rfl rfl rfl rfl rfl (by intro j r hj; simpa using hj)
        cases out with
        | readyOk x => exact absurd rfl (hout x)
        | pending => exact hfin
        | readyErr e => exact hfin
        | readyNone => exact hfin
        | panic => exact hfin
      | false =>
        simp only [Bool.false_eq_true, if_false]
        have hfin : Inv { s with ops := s.ops.set i { o with op := op' } } := h1
        cases out with
        | pending => exact hfin
        | readyErr e => exact hfin
        | readyNone => exact hfin
        | panic => exact hfin
        | readyOk x =>
          simp only []
          simp only at hvals
          have hw := wrap_inv (s := { s with ops := s.ops.set i { o with op := op' } }) i (s.issueKind o)
            (valsOf o x) h1
            (by intro v hv
                obtain ⟨d, e, he, c1, c2, c3⟩ := ho.vals v (by rw [hvals]; exact List.mem_append_left _ hv)
                exact ⟨d, e, he, c1, c2, c3⟩)
            (by have := ho.nodup
                rw [hvals] at this
                exact (List.nodup_append.mp this).1)
            (by intro o2 ho2 v hv hin
                rw [hio1] at ho2; cases ho2
                have := ho.nodup
                rw [hvals] at this
                exact (List.nodup_append.mp this).2.2 v hv v hin rfl)
          show InvG _ (Sys.targets _)
          unfold Sys.targets
          rw [(wrap_frame _ i (s.issueKind o) (valsOf o x)).1]
          exact hw


/-- Single-shot operations hold at most one readable result. -/
theorem okVals_upd_single (o : FOp) (c : Res) (op' : Op) (effs : List Eff)
    (hm : o.op.multi = false) (hw : opWt o.op) (hn : fNotif c.flags = false)
    (h : o.op.update c = some (op', effs)) :
    okVals { o with op := op' } = [] ∨
      (okVals { o with op := op' } = valsOf o c ∧ 0 ≤ c.res ∧ o.op.futLive = true) := by
  have uf := update_facts o c op' effs h
  cases hs : o.op.status with
  | notStarted => simp [Op.update, hs] at h
  | complete => simp [Op.update, hs] at h
  | dropped =>
    left
    unfold Op.update at h
    simp only [hs] at h
    split at h <;> (simp at h; obtain ⟨rfl, _⟩ := h; simp [okVals, hs, stored])
  | running r =>
    obtain ⟨_, hl, hst⟩ := update_shape o.op c op' effs r h (Or.inl hs)
    cases r with
    | multi q => have := hw _ (Or.inl hs); simp [wtRes, hm] at this
    | single old =>
      have hu : (Results.single old).update c = .single c := by simp [Results.update, hn]
      rw [hu] at hst
      unfold okVals
      simp only [hl]
      cases hlive : o.op.futLive with
      | false => left; simp
      | true =>
        rcases hst with h1 | ⟨h1, _⟩
        · rw [h1]
          by_cases hc : 0 ≤ c.res
          · right; simp [stored, resList, hc]
          · left; simp [stored, resList, hc]
        · left; rw [h1]; simp [stored]
  | done r =>
    obtain ⟨_, hl, hst⟩ := update_shape o.op c op' effs r h (Or.inr hs)
    cases r with
    | multi q => have := hw _ (Or.inr hs); simp [wtRes, hm] at this
    | single old =>
      have hu : (Results.single old).update c = .single c := by simp [Results.update, hn]
      rw [hu] at hst
      unfold okVals
      simp only [hl]
      cases hlive : o.op.futLive with
      | false => left; simp
      | true =>
        rcases hst with h1 | ⟨h1, h2⟩
        · rw [h1]
          by_cases hc : 0 ≤ c.res
          · right; simp [stored, resList, hc]
          · left; simp [stored, resList, hc]
        · rw [hs] at h2; cases h2

theorem okVals_single (o : FOp) (hm : o.op.multi = false) (hw : opWt o.op) :
    okVals o = [] ∨ ∃ x, okVals o = valsOf o x := by
  unfold okVals
  cases hlive : o.op.futLive with
  | false => left; simp
  | true =>
    simp only [if_true]
    cases hs : o.op.status with
    | notStarted => left; simp [stored]
    | complete => left; simp [stored]
    | dropped => left; simp [stored]
    | running r =>
      cases r with
      | multi q => have := hw _ (Or.inl hs); simp [wtRes, hm] at this
      | single x => left; simp [stored]
    | done r =>
      cases r with
      | multi q => have := hw _ (Or.inr hs); simp [wtRes, hm] at this
      | single x =>
        by_cases hc : 0 ≤ x.res
        · right; exact ⟨x, by simp [stored, resList, hc]⟩
        · left; simp [stored, resList, hc]

/-- The kernel installs fresh descriptors for operation `i`. -/
theorem InvG.addDescs {s : Sys} {T : List (Kind × Nat)} (h : InvG s T) (b : Bool) (k : Kind) (raws : List Nat)
    (st : DSt) (hst : (∃ i, st = .pending i) ∨ st = .lost) (hok : s.kernelOk k raws = true) :
    InvG { s with descs := s.descs ++ raws.map (Desc.freshS b k st) } T := by
  unfold Sys.kernelOk at hok
  simp only [Bool.and_eq_true, decide_eq_true_eq, List.all_eq_true, Bool.not_eq_eq_eq_not,
    Bool.not_true, decide_eq_false_iff_not] at hok
  obtain ⟨hnd, hall⟩ := hok
  have hnew : ∀ (d : Nat) (e : Desc),
      (s.descs ++ raws.map (Desc.freshS b k st))[d]? = some e →
      s.descs[d]? = some e ∨ (s.descs.length ≤ d ∧ ∃ r, raws[d - s.descs.length]? = some r ∧
        e = Desc.freshS b k st r) := by
    intro d e he
    rcases Nat.lt_or_ge d s.descs.length with hlt | hge
    · rw [List.getElem?_append_left hlt] at he; exact Or.inl he
    · rw [List.getElem?_append_right hge, List.getElem?_map] at he
      cases hr : raws[d - s.descs.length]? with
      | none => simp [hr] at he
      | some r => simp [hr] at he; exact Or.inr ⟨hge, r, rfl, he.symm⟩
  have hold : ∀ (d : Nat) (e : Desc), s.descs[d]? = some e →
      (s.descs ++ raws.map (Desc.freshS b k st))[d]? = some e := by
    intro d e he
    rw [List.getElem?_append_left (getElem?_lt he)]; exact he
  have hmem : ∀ {n : Nat} {r : Nat}, raws[n]? = some r → r ∈ raws := by
    intro n r hr
    exact List.mem_of_getElem? hr
  constructor
  · exact h.lo
  · exact h.strays
  · intro d e he
    rcases hnew d e he with h0 | ⟨_, r, hr, rfl⟩
    · have x := h.desc d e h0
      exact { raw := x.raw, std := x.std, closed := x.closed, opn := x.opn, rel := x.rel, own := x.own,
              cf := x.cf, wr0 := x.wr0, wr1 := x.wr1 }
    · obtain ⟨⟨h1, h2⟩, _⟩ := hall r (hmem hr)
      have hne : st ≠ .closed := by rcases hst with ⟨i, rfl⟩ | rfl <;> simp
      refine { raw := h1, std := ?_, closed := fun c => absurd c hne, opn := fun _ => rfl,
               rel := fun c => by rcases hst with ⟨i, rfl⟩ | rfl <;> simp [Desc.freshS] at c,
               own := fun a c => by rcases hst with ⟨i, rfl⟩ | rfl <;> simp [Desc.freshS] at c,
               cf := fun j c => by rcases hst with ⟨i, rfl⟩ | rfl <;> simp [Desc.freshS] at c,
               wr0 := fun _ => rfl, wr1 := fun c => absurd hst c }
      intro hk
      simp only [Desc.freshS] at hk
      subst hk
      simp at h2
      have := h.lo
      show 3 ≤ r
      omega
  · intro d1 d2 e1 e2 g1 g2 c1 c2 hk hr
    rcases hnew d1 e1 g1 with a1 | ⟨l1, r1, hr1, rfl⟩
    · rcases hnew d2 e2 g2 with a2 | ⟨l2, r2, hr2, rfl⟩
      · exact h.uniq d1 d2 e1 e2 a1 a2 c1 c2 hk hr
      · exfalso
        obtain ⟨_, hfresh⟩ := hall r2 (hmem hr2)
        exact hfresh e1 (List.mem_of_getElem? a1) ⟨hk, hr, c1⟩
    · rcases hnew d2 e2 g2 with a2 | ⟨l2, r2, hr2, rfl⟩
      · exfalso
        obtain ⟨_, hfresh⟩ := hall r1 (hmem hr1)
        exact hfresh e2 (List.mem_of_getElem? a2) ⟨hk.symm, hr.symm, c2⟩
      · simp only [Desc.freshS] at hr
        subst hr
        have := (List.getElem?_inj (getElem?_lt hr1) hnd).mp (hr1.trans hr2.symm)
        omega
  · intro t ht
    obtain ⟨d, e, he, hs, hk⟩ := h.tgt t ht
    exact ⟨d, e, hold d e he, hs, hk⟩
  · exact h.nodup
  · intro b hb h1 h2
    obtain ⟨p1, p2⟩ := h.hand b hb h1 h2
    refine ⟨p1, fun hs => ?_⟩
    obtain ⟨d, e, he, hst'⟩ := p2 hs
    exact ⟨d, e, hold d e he, hst'⟩
  · intro j o hjo
    exact (h.op j o hjo).frame (fun d e he _ => hold d e he) rfl (Nat.le_refl _)
  · exact h.sqk
  · exact h.log


theorem fNotif_flags (more : Bool) : fNotif (if more then 2 else 0) = false := by
  cases more <;> decide

theorem kpostMem_static (o : FOp) (raws : List Nat) :
    (kpostMem o raws).kind = o.kind ∧ (kpostMem o raws).cfd = o.cfd ∧ (kpostMem o raws).ckind = o.ckind ∧
    (kpostMem o raws).op = o.op ∧ (kpostMem o raws).on = o.on ∧ (kpostMem o raws).req = o.req := by
  unfold kpostMem
  split <;> simp

theorem valsOf_kpost (o : FOp) (raws : List Nat) (flags : Nat) (ha : raws.length = o.kind.arity)
    (hc : o.kind ≠ .close) : valsOf (kpostMem o raws) (kpostRes o.kind raws flags) = raws := by
  unfold kpostMem kpostRes valsOf
  cases hk : o.kind <;> simp_all [OpKind.arity] <;>
    (match raws, ha with
     | [r], _ => simp)

theorem kpostRes_ok (k : OpKind) (raws : List Nat) (flags : Nat) : 0 ≤ (kpostRes k raws flags).res := by
  unfold kpostRes
  split <;> simp

theorem kpostRes_flags (k : OpKind) (raws : List Nat) (flags : Nat) : (kpostRes k raws flags).flags = flags := by
  unfold kpostRes
  split <;> rfl

/-- Either the out-parameters are untouched, or every readable result maps to them. -/
theorem kpostMem_cases (o : FOp) (raws : List Nat) :
    kpostMem o raws = o ∨ (o.kind ≠ .maccept ∧ ∀ x, valsOf (kpostMem o raws) x = raws) := by
  unfold kpostMem
  cases hk : o.kind <;> simp [valsOf, hk]

theorem issueKind_static {s : Sys} {o o' : FOp} (h1 : o'.kind = o.kind) (h2 : o'.on = o.on)
    (h3 : o'.req = o.req) : s.issueKind o' = s.issueKind o := by
  unfold Sys.issueKind
  rw [h1, h2, h3]


theorem kpost_inv {s : Sys} (i : Nat) (out : Outcome) (more : Bool) (h : Inv s) :
    Inv (s.kpost i out more).1 := by
  unfold Sys.kpost
  split
  · exact h
  · cases hio : s.ops[i]? with
    | none => exact h
    | some o =>
      simp only []
      split
      · exact h
      · rename_i hg
        have hnc : o.kind ≠ .close := fun c => hg (Or.inl c)
        have ho := h.op i o hio
        cases out with
        | err e =>
          simp only []
          split
          · exact h
          · rename_i he
            have he0 : ¬ (0 : Int) ≤ -(e : Int) := by
              have : e ≠ 0 := fun c => he (Or.inl c)
              omega
            have h0 : InvG { s with inflight := if more then s.inflight else s.inflight.erase i } s.targets :=
              h.congr rfl rfl rfl rfl rfl rfl (fun _ _ x => x)
            have h1 := deliver_inv (i := i) (c := ⟨-(e : Int), if more then 2 else 0⟩) h0
              (by intro o2 op' effs ho2 hu
                  rw [show ({ s with inflight := if more then s.inflight else s.inflight.erase i } : Sys).ops[i]?
                    = s.ops[i]? from rfl, hio] at ho2
                  cases ho2
                  have uf := update_facts o _ op' effs hu
                  have hsl := uf.vals ho.wt (fNotif_flags more)
                  simp only [he0, if_false, List.append_nil] at hsl
                  exact ⟨hsl.nodup ho.nodup, fun v hv => ho.vals v (hsl.subset hv)⟩)
              (by intro o2 ho2 hk
                  rw [show ({ s with inflight := if more then s.inflight else s.inflight.erase i } : Sys).ops[i]?
                    = s.ops[i]? from rfl, hio] at ho2
                  cases ho2
                  exact absurd hk hnc)
            show InvG _ (Sys.targets _)
            unfold Sys.targets
            rw [(deliver_frame _ i _).2.2.1]
            exact h1
        | ok raws =>
          simp only []
          split
          · exact h
          · rename_i harity
            split
            · exact h
            · rename_i hkok
              have hok : s.kernelOk (s.issueKind o) raws = true := by
                cases hx : s.kernelOk (s.issueKind o) raws <;> simp_all
              have harity' : raws.length = o.kind.arity := by
                rcases Nat.decEq raws.length o.kind.arity with c | c
                · exact absurd c (by simpa using harity)
                · exact c
              -- Stage A: the kernel installs the descriptors
              have hstA : (∃ j, (if o.op.futLive = true then DSt.pending i else DSt.lost) = .pending j) ∨
                  (if o.op.futLive = true then DSt.pending i else DSt.lost) = .lost := by
                cases o.op.futLive <;> simp
              have hA : InvG { s with descs := s.descs ++ raws.map (Desc.fresh (s.issueKind o)
                  (if o.op.futLive = true then DSt.pending i else DSt.lost)) } s.targets :=
                h.addDescs false (s.issueKind o) raws
                  (if o.op.futLive = true then DSt.pending i else DSt.lost) hstA hok
              obtain ⟨mk, _, _, mop, mon, mreq⟩ := kpostMem_static o raws
              have hkind_m : ∀ (s' : Sys), s'.issueKind (kpostMem o raws) = s'.issueKind o :=
                fun s' => issueKind_static mk mon mreq
              -- facts from the kernel contract
              have hok' := hok
              unfold Sys.kernelOk at hok'
              simp only [Bool.and_eq_true, decide_eq_true_eq, List.all_eq_true, Bool.not_eq_eq_eq_not,
                Bool.not_true, decide_eq_false_iff_not] at hok'
              obtain ⟨hraws_nd, hall⟩ := hok'
              -- entries of the new descriptors
              have hnewE : o.op.futLive = true → ∀ v ∈ raws, ∃ (d : Nat) (e : Desc),
                  (s.descs ++ raws.map (Desc.fresh (s.issueKind o) (if o.op.futLive = true then DSt.pending i else DSt.lost)))[d]? = some e ∧
                  e.kind = s.issueKind o ∧ e.raw = v ∧ e.st = .pending i := by
                intro hl v hv
                obtain ⟨n, hn, hnv⟩ := List.getElem_of_mem hv
                refine ⟨s.descs.length + n, Desc.fresh (s.issueKind o) (.pending i) v, ?_, rfl, rfl, rfl⟩
                rw [List.getElem?_append_right (by omega)]
                simp [hn, hnv, hl]
              have holdE : ∀ (d : Nat) (e : Desc), s.descs[d]? = some e →
                  (s.descs ++ raws.map (Desc.fresh (s.issueKind o) (if o.op.futLive = true then DSt.pending i else DSt.lost)))[d]? = some e := by
                intro d e he
                rw [List.getElem?_append_left (getElem?_lt he)]; exact he
              -- values already stored are different from the fresh numbers
              have hdisj : ∀ v ∈ okVals o, v ∉ raws := by
                intro v hv hin
                obtain ⟨d, e, he, c1, c2, c3⟩ := ho.vals v hv
                obtain ⟨_, hfresh⟩ := hall v hin
                exact hfresh e (List.mem_of_getElem? he) ⟨c1, c2, (h.desc d e he).opn (by simp [c3])⟩
              -- Stage B: the out-parameters are written
              have hokA : OpOk { s with descs := s.descs ++ raws.map (Desc.fresh (s.issueKind o) (if o.op.futLive = true then DSt.pending i else DSt.lost)) } i (kpostMem o raws) := by
                rcases kpostMem_cases o raws with heq | ⟨hnm, hall_v⟩
                · rw [heq]
                  exact (ho.frame (fun d e he _ => holdE d e he) rfl (Nat.le_refl _))
                · have hm : (kpostMem o raws).op.multi = false := by rw [mop]; exact ho.single hnm
                  have hw : opWt (kpostMem o raws).op := by rw [mop]; exact ho.wt
                  have hshape := okVals_single (kpostMem o raws) hm hw
                  have hlive_of : okVals (kpostMem o raws) ≠ [] → o.op.futLive = true := by
                    intro hne
                    cases hl : o.op.futLive with
                    | true => rfl
                    | false => exact absurd (okVals_dead _ (by rw [mop]; exact hl)) hne
                  exact { wt := hw
                          single := fun _ => hm
                          nodup := by
                            rcases hshape with c | ⟨x, c⟩
                            · rw [c]; simp
                            · rw [c, hall_v x]; exact hraws_nd
                          vals := fun v hv => by
                            have hne : okVals (kpostMem o raws) ≠ [] := by
                              intro c; rw [c] at hv; cases hv
                            rcases hshape with c | ⟨x, c⟩
                            · exact absurd c hne
                            · rw [c, hall_v x] at hv
                              obtain ⟨d, e, he, c1, c2, c3⟩ := hnewE (hlive_of hne) v hv
                              exact ⟨d, e, he, by rw [c1]; exact (hkind_m _).symm, c2, c3⟩
                          on := fun hb => by
                            show (kpostMem o raws).on < s.handles.length
                            rw [mon]; exact ho.on (by rw [← mk]; exact hb)
                          cn := fun hk => absurd (mk ▸ hk) hnc
                          cr := fun hk => absurd (mk ▸ hk) hnc }
              have hB : InvG { s with
                  descs := s.descs ++ raws.map (Desc.fresh (s.issueKind o) (if o.op.futLive = true then DSt.pending i else DSt.lost)),
                  ops := s.ops.set i (kpostMem o raws) } s.targets :=
                hA.setOp (o' := kpostMem o raws) (by exact hio) mk (kpostMem_static o raws).2.1
                  (kpostMem_static o raws).2.2.1 hokA
              have hlt : i < s.ops.length := getElem?_lt hio
              have hB2 : InvG { s with
                  inflight := if more then s.inflight else s.inflight.erase i,
                  descs := s.descs ++ raws.map (Desc.fresh (s.issueKind o) (if o.op.futLive = true then DSt.pending i else DSt.lost)),
                  ops := s.ops.set i (kpostMem o raws) } s.targets :=
                hB.congr rfl rfl rfl rfl rfl rfl (fun _ _ x => x)
              -- Stage C: the completion is processed
              have hC := deliver_inv (i := i) (c := kpostRes o.kind raws (if more then 2 else 0)) hB2
                (by intro o2 op' effs ho2 hu
                    have : o2 = kpostMem o raws := by
                      have : (s.ops.set i (kpostMem o raws))[i]? = some o2 := ho2
                      simp [hlt] at this
                      exact this.symm
                    subst this
                    have hvk := valsOf_kpost o raws (if more then 2 else 0) harity' hnc
                    have hres := kpostRes_ok o.kind raws (if more then 2 else 0)
                    have hnf : fNotif (kpostRes o.kind raws (if more then 2 else 0)).flags = false := by
                      rw [kpostRes_flags]; exact fNotif_flags more
                    have uf := update_facts _ _ op' effs hu
                    have hw : opWt (kpostMem o raws).op := by rw [mop]; exact ho.wt
                    have hentries : ∀ v, (v ∈ okVals o ∨ (v ∈ raws ∧ o.op.futLive = true)) →
                        ∃ (d : Nat) (e : Desc), (s.descs ++ raws.map (Desc.fresh (s.issueKind o) (if o.op.futLive = true then DSt.pending i else DSt.lost)))[d]? = some e ∧
                        e.kind = s.issueKind (kpostMem o raws) ∧ e.raw = v ∧ e.st = .pending i := by
                      intro v hv
                      rcases hv with hv | ⟨hv, hl⟩
                      · obtain ⟨d, e, he, c1, c2, c3⟩ := ho.vals v hv
                        exact ⟨d, e, holdE d e he, by rw [c1]; exact (hkind_m _).symm, c2, c3⟩
                      · obtain ⟨d, e, he, c1, c2, c3⟩ := hnewE hl v hv
                        exact ⟨d, e, he, by rw [c1]; exact (hkind_m _).symm, c2, c3⟩
                    cases hmulti : o.op.multi with
                    | false =>
                      have hm : (kpostMem o raws).op.multi = false := by rw [mop]; exact hmulti
                      rcases okVals_upd_single _ _ op' effs hm hw hnf hu with c | ⟨c, _, hl⟩
                      · rw [c]; simp
                      · rw [c, hvk]
                        rw [mop] at hl
                        exact ⟨hraws_nd, fun v hv => hentries v (Or.inr ⟨hv, hl⟩)⟩
                    | true =>
                      have hkm : o.kind = .maccept := by
                        cases hk : o.kind <;> first | rfl | (have := ho.single (by simp [hk]); rw [hmulti] at this; cases this)
                      have heq : kpostMem o raws = o := by
                        rcases kpostMem_cases o raws with c | ⟨c, _⟩
                        · exact c
                        · exact absurd hkm c
                      have hsl := uf.vals hw hnf
                      simp only [hres, if_true, hvk] at hsl
                      rw [heq] at hsl ⊢
                      have hnd : (okVals o ++ raws).Nodup :=
                        List.nodup_append.mpr ⟨ho.nodup, hraws_nd, fun a ha b hb hab => hdisj a ha (hab ▸ hb)⟩
                      refine ⟨hsl.nodup hnd, fun v hv => ?_⟩
                      have hlive : o.op.futLive = true := by
                        cases hl : o.op.futLive with
                        | true => rfl
                        | false =>
                          have := okVals_dead { o with op := op' } (by show op'.futLive = false; rw [uf.live, heq]; exact hl)
                          rw [this] at hv; cases hv
                      have := hsl.subset hv
                      rw [List.mem_append] at this
                      have hx := hentries v (this.elim Or.inl (fun x => Or.inr ⟨x, hlive⟩))
                      rw [heq] at hx
                      exact hx)
                (by intro o2 ho2 hk
                    have : o2 = kpostMem o raws := by
                      have : (s.ops.set i (kpostMem o raws))[i]? = some o2 := ho2
                      simp [hlt] at this
                      exact this.symm
                    subst this
                    exact absurd (mk ▸ hk) hnc)
              show InvG _ (Sys.targets _)
              unfold Sys.targets
              rw [(deliver_frame _ i _).2.2.1]
              exact hC


/-! ### The synchronous `pipe2` fallback of `pipe` -/

/-- The panicking poll of an accept is a poll followed by a drop of the handle it made. -/
theorem pollPanic_inv {s : Sys} (i : Nat) (h : Inv s) : Inv (s.pollPanic i).1 := by
  unfold Sys.pollPanic
  cases hio : s.ops[i]? with
  | none => exact h
  | some o =>
    simp only []
    split
    · exact dropH_inv _ (pollCore_inv i h)
    · exact pollCore_inv i h

theorem poll_inv {s : Sys} (i : Nat) (h : Inv s) : Inv (s.poll i).1 := by
  unfold Sys.poll
  cases hio : s.ops[i]? with
  | none => exact h
  | some o =>
    simp only []
    split
    · exact h
    · split
      · exact pollPanic_inv i h
      · exact pollCore_inv i h

/-- What `FOp.pipe2Due` says about the operation. -/
theorem pipe2Due_elim {o : FOp} (hd : o.pipe2Due = true) :
    o.kind = .pipe ∧ o.op.futLive = true ∧
    ∃ r x r', o.op.status = .done r ∧ r.next = some (x, r') ∧ x.res = -22 := by
  unfold FOp.pipe2Due at hd
  simp only [Bool.and_eq_true, beq_iff_eq] at hd
  obtain ⟨⟨hk, hl⟩, hm⟩ := hd
  refine ⟨hk, hl, ?_⟩
  cases hs : o.op.status with
  | done r =>
    rw [hs] at hm
    simp only at hm
    cases hn : r.next with
    | none => rw [hn] at hm; simp at hm
    | some p =>
      obtain ⟨x, r'⟩ := p
      rw [hn] at hm
      simp only [beq_iff_eq] at hm
      exact ⟨r, x, r', rfl, hn, hm⟩
  | notStarted => rw [hs] at hm; simp at hm
  | running r => rw [hs] at hm; simp at hm
  | dropped => rw [hs] at hm; simp at hm
  | complete => rw [hs] at hm; simp at hm

/-- The poll that reads `-EINVAL` on a single-shot operation: the operation becomes `Complete`,
the error goes to `fallback`, nothing is submitted. -/
theorem pipe2Due_poll {o : FOp} (w : Nat) (room : Bool) (hd : o.pipe2Due = true) (hm : o.op.multi = false) :
    o.op.poll w room =
      ({ o.op with status := .complete, resInit := false, resDrops := o.op.resDrops + 1 }, .readyErr 22, []) := by
  obtain ⟨_, _, r, x, r', hs, hn, hx⟩ := pipe2Due_elim hd
  unfold Op.poll Op.pollAux
  simp [hs, hn, hx, hm, EINTR, ECANCELED]

/-- The state after that poll. -/
theorem pollCore_due {s : Sys} {i : Nat} {o : FOp} (hio : s.ops[i]? = some o) (hd : o.pipe2Due = true)
    (hm : o.op.multi = false) :
    (s.pollCore i).1 = { s with ops := s.ops.set i { o with op :=
      { o.op with status := .complete, resInit := false, resDrops := o.op.resDrops + 1 } } } := by
  obtain ⟨_, hl, _⟩ := pipe2Due_elim hd
  unfold Sys.pollCore
  simp only [hio, hl, pipe2Due_poll i s.sqRoom hd hm]
  simp

theorem okVals_complete (o : FOp) (h : o.op.status = .complete) : okVals o = [] := by
  simp [okVals, h, stored]

theorem pollFb_inv {s : Sys} (i : Nat) (fb : Fb) (h : Inv s) : Inv (s.pollFb i fb).1 := by
  unfold Sys.pollFb
  cases hio : s.ops[i]? with
  | none => exact h
  | some o =>
    simp only []
    split
    · exact h
    · rename_i hdue'
      have hdue : o.pipe2Due = true := by
        cases hx : o.pipe2Due <;> simp_all
      cases fb with
      | fail e =>
        simp only []
        split
        · exact h
        · exact pollCore_inv i h
      | ok raws =>
        simp only []
        split
        · exact h
        · split
          · exact h
          · rename_i hlen hkok
            have hok : s.kernelOk .file raws = true := by
              cases hx : s.kernelOk .file raws <;> simp_all
            obtain ⟨hkind, hlive, _⟩ := pipe2Due_elim hdue
            have ho := h.op i o hio
            have hm : o.op.multi = false := ho.single (by rw [hkind]; simp)
            have h1 : Inv (s.pollCore i).1 := pollCore_inv i h
            have hs1 := pollCore_due hio hdue hm
            rw [hs1] at h1 ⊢
            have hlt : i < s.ops.length := getElem?_lt hio
            -- `pipe2` installs the descriptors
            have hA := InvG.addDescs h1 true .file raws (.pending i) (Or.inl ⟨i, rfl⟩) hok
            -- facts from the kernel contract
            have hok' := hok
            unfold Sys.kernelOk at hok'
            simp only [Bool.and_eq_true, decide_eq_true_eq, List.all_eq_true, Bool.not_eq_eq_eq_not,
              Bool.not_true, decide_eq_false_iff_not] at hok'
            obtain ⟨hraws_nd, _⟩ := hok'
            -- `map_ok` wraps them
            have hw := wrap_inv (s := { s with
                ops := s.ops.set i { o with op :=
                  { o.op with status := .complete, resInit := false, resDrops := o.op.resDrops + 1 } },
                descs := s.descs ++ raws.map (Desc.freshS true .file (.pending i)) })
              i .file raws hA
              (by intro v hv
                  obtain ⟨n, hn, hnv⟩ := List.getElem_of_mem hv
                  refine ⟨s.descs.length + n, Desc.freshS true .file (.pending i) v, ?_, rfl, rfl, rfl⟩
                  show (s.descs ++ raws.map (Desc.freshS true .file (.pending i)))[s.descs.length + n]? = _
                  rw [List.getElem?_append_right (by omega)]
                  simp [hn, hnv])
              hraws_nd
              (by intro o2 ho2 v _ hin
                  have : (s.ops.set i { o with op :=
                      { o.op with status := .complete, resInit := false, resDrops := o.op.resDrops + 1 } })[i]?
                      = some o2 := ho2
                  simp [hlt] at this
                  subst this
                  rw [okVals_complete _ rfl] at hin
                  cases hin)
            generalize hwr : Sys.wrap _ i Kind.file raws = wr at hw ⊢
            obtain ⟨s3, hs⟩ := wr
            simp only at hw ⊢
            show InvG s3 (Sys.targets s3)
            have hsq := (wrap_frame { s with
                ops := s.ops.set i { o with op :=
                  { o.op with status := .complete, resInit := false, resDrops := o.op.resDrops + 1 } },
                descs := s.descs ++ raws.map (Desc.freshS true .file (.pending i)) } i .file raws).1
            rw [hwr] at hsq
            simp only at hsq
            unfold Sys.targets
            rw [hsq]
            exact hw


/-! ### Descriptors created by the fallback (`Desc.sync`) -/

/-- A descriptor returned by the synchronous `pipe2` is regular and has been wrapped. -/
def SyncP (e : Desc) : Prop := e.sync = true → e.kind = .file ∧ 1 ≤ e.wraps

def SyncOk (s : Sys) : Prop := ∀ e ∈ s.descs, SyncP e

theorem SyncP.mono {e e' : Desc} (h : SyncP e) (h1 : e'.sync = e.sync) (h2 : e'.kind = e.kind)
    (h3 : e.wraps ≤ e'.wraps) : SyncP e' := by
  intro hs
  obtain ⟨a, b⟩ := h (h1 ▸ hs)
  exact ⟨h2 ▸ a, Nat.le_trans b h3⟩

theorem syncP_map {l : List Desc} {f : Desc → Desc} (h : ∀ e ∈ l, SyncP e)
    (hf : ∀ e, (f e).sync = e.sync ∧ (f e).kind = e.kind ∧ e.wraps ≤ (f e).wraps) :
    ∀ e ∈ l.map f, SyncP e := by
  intro e he
  obtain ⟨e0, h0, rfl⟩ := List.mem_map.mp he
  exact (h e0 h0).mono (hf e0).1 (hf e0).2.1 (hf e0).2.2

theorem syncP_modify {l : List Desc} {f : Desc → Desc} (d : Nat) (h : ∀ e ∈ l, SyncP e)
    (hf : ∀ e, (f e).sync = e.sync ∧ (f e).kind = e.kind ∧ e.wraps ≤ (f e).wraps) :
    ∀ e ∈ l.modify d f, SyncP e := by
  intro e he
  obtain ⟨n, hn⟩ := List.mem_iff_getElem?.mp he
  rw [List.getElem?_modify] at hn
  cases hl : l[n]? with
  | none => simp [hl] at hn
  | some e0 =>
    have h0 := h e0 (List.mem_of_getElem? hl)
    by_cases hdn : d = n
    · simp [hl, hdn] at hn
      subst hn
      exact h0.mono (hf e0).1 (hf e0).2.1 (hf e0).2.2
    · simp [hl, hdn] at hn
      subst hn
      exact h0

theorem kclose_sync {s : Sys} (k : Kind) (idx : Nat) (h : SyncOk s) : SyncOk (s.kclose k idx).1 := by
  unfold Sys.kclose
  simp only []
  split
  · exact syncP_modify _ h (fun e => by simp [Desc.close])
  · exact h

theorem deliver_sync {s : Sys} (i : Nat) (c : Res) (h : SyncOk s) : SyncOk (s.deliver i c).1 := by
  unfold SyncOk
  rw [(deliver_frame s i c).1]
  exact h

theorem kstep_sync {s : Sys} (h : SyncOk s) : SyncOk (s.kstep).1 := by
  unfold Sys.kstep
  cases hsq : s.sq with
  | nil => exact h
  | cons e rest =>
    simp only []
    have h0 : SyncOk { s with sq := rest } := h
    cases e with
    | cancel i => exact h0
    | op i cr =>
      cases cr with
      | none => exact h0
      | some r =>
        simp only []
        have h1 := kclose_sync (s := { s with sq := rest }) r.target.1 r.target.2 h0
        generalize Sys.kclose { s with sq := rest } r.target.1 r.target.2 = kc at h1
        obtain ⟨s1, ok⟩ := kc
        exact deliver_sync i _ h1
    | close r =>
      simp only []
      have h1 := kclose_sync (s := { s with sq := rest }) r.target.1 r.target.2 h0
      generalize Sys.kclose { s with sq := rest } r.target.1 r.target.2 = kc at h1
      obtain ⟨s1, ok⟩ := kc
      exact h1

theorem kconsume_sync (n : Nat) {s : Sys} (h : SyncOk s) : SyncOk (Sys.kconsume n s).1 := by
  induction n generalizing s with
  | zero => exact h
  | succ n ih =>
    unfold Sys.kconsume
    exact ih (kstep_sync h)

theorem rpoll_sync {s : Sys} (h : SyncOk s) : SyncOk (s.rpoll).1 := by
  unfold Sys.rpoll
  exact kconsume_sync _ h

theorem wrap_descs_sync (s : Sys) (i : Nat) (k : Kind) (vals : List Nat) (h : SyncOk s) :
    SyncOk (s.wrap i k vals).1 := by
  induction vals generalizing s with
  | nil => exact h
  | cons v vs ih =>
    unfold Sys.wrap
    simp only []
    apply ih
    exact syncP_map h (fun e => by split <;> simp)

theorem newOp_sync {s : Sys} (kind : OpKind) (req : Kind) (a : Nat) (h : SyncOk s) :
    SyncOk (s.newOp kind req a).1 := by
  unfold Sys.newOp
  cases kind <;> simp only []
  case close =>
    split
    · exact h
    · split
      · exact h
      · exact syncP_map h (fun e => by split <;> simp)
  all_goals first
    | exact h
    | (split
       · exact h
       · split
         · exact h
         · exact h)

theorem pollCore_sync {s : Sys} (i : Nat) (h : SyncOk s) : SyncOk (s.pollCore i).1 := by
  unfold Sys.pollCore
  cases hio : s.ops[i]? with
  | none => exact h
  | some o =>
    simp only []
    split
    · exact h
    · generalize o.op.poll i s.sqRoom = p
      obtain ⟨op', out, effs⟩ := p
      simp only []
      have h1 : SyncOk { s with
          ops := s.ops.set i { o with op := op' },
          sq := if effs.contains .submit then s.sq ++ [.op i (if o.kind = .close then some (closeFileFd o.cfd o.ckind) else none)] else s.sq,
          descs := if effs.contains .submit then s.descs.map (fun e =>
              if e.st = .closeFut i then { e with st := .released } else e) else s.descs } := by
        unfold SyncOk
        simp only []
        split
        · exact syncP_map h (fun e => by split <;> simp)
        · exact h
      cases out with
      | pending => exact h1
      | readyErr e => exact h1
      | readyNone => exact h1
      | panic => exact h1
      | readyOk x =>
        simp only []
        exact wrap_descs_sync _ i _ _ h1

theorem dropOp_sync {s : Sys} (i : Nat) (h : SyncOk s) : SyncOk (s.dropOp i).1 := by
  unfold Sys.dropOp
  cases hio : s.ops[i]? with
  | none => exact h
  | some o =>
    simp only []
    split
    · exact h
    · exact syncP_map h (fun e => by split <;> (try split) <;> simp)

theorem dropH_sync {s : Sys} (a : Nat) (h : SyncOk s) : SyncOk (s.dropH a).1 := by
  unfold Sys.dropH
  cases ha : s.handles[a]? with
  | none => exact h
  | some hh =>
    simp only []
    split
    · exact h
    · split
      · exact h
      · have h1 : SyncOk { s with
            handles := s.handles.set a { hh with live := false },
            descs := s.descs.map (fun e => if e.st = .owned a then { e with st := .released } else e) } :=
          syncP_map h (fun e => by split <;> simp)
        split
        · exact h1
        · simp only [syncTarget]
          have h2 := kclose_sync (kindOf hh.word) (fdOf hh.word) h1
          cases hk : kindOf hh.word <;> simp only [hk] at h2 ⊢ <;> exact h2

theorem kpost_sync {s : Sys} (i : Nat) (out : Outcome) (more : Bool) (h : SyncOk s) :
    SyncOk (s.kpost i out more).1 := by
  unfold Sys.kpost
  split
  · exact h
  · cases hio : s.ops[i]? with
    | none => exact h
    | some o =>
      simp only []
      split
      · exact h
      · cases out with
        | err e =>
          simp only []
          split
          · exact h
          · exact deliver_sync i _ h
        | ok raws =>
          simp only []
          split
          · exact h
          · split
            · exact h
            · apply deliver_sync
              intro e he
              simp only [List.mem_append, List.mem_map] at he
              rcases he with he | ⟨r, _, rfl⟩
              · exact h e he
              · intro c; simp [Desc.fresh] at c

/-- The entries `pipe2` just created are wrapped by the `map_ok` that follows. -/
theorem wrap_fresh_sync (s : Sys) (i : Nat) (vals : List Nat)
    (h : ∀ e ∈ s.descs, SyncP e ∨ (e.kind = .file ∧ e.st = .pending i ∧ e.closes = 0 ∧ e.raw ∈ vals)) :
    SyncOk (s.wrap i .file vals).1 := by
  induction vals generalizing s with
  | nil =>
    intro e he
    rcases h e he with c | ⟨_, _, _, c⟩
    · exact c
    · cases c
  | cons v vs ih =>
    unfold Sys.wrap
    simp only []
    apply ih
    intro e' he'
    obtain ⟨e, he, rfl⟩ := List.mem_map.mp he'
    rcases h e he with c | ⟨c1, c2, c3, c4⟩
    · left
      exact c.mono (by split <;> rfl) (by split <;> rfl) (by split <;> simp)
    · by_cases hv : e.raw = v
      · left
        rw [if_pos ⟨c2, c1, hv, c3⟩]
        intro _
        exact ⟨c1, by simp⟩
      · right
        have : ¬ (e.st = .pending i ∧ e.kind = .file ∧ e.raw = v ∧ e.closes = 0) := fun x => hv x.2.2.1
        rw [if_neg this]
        refine ⟨c1, c2, c3, ?_⟩
        simp only [List.mem_cons] at c4
        rcases c4 with c4 | c4
        · exact absurd c4 hv
        · exact c4

theorem pollFb_sync {s : Sys} (i : Nat) (fb : Fb) (h : SyncOk s) : SyncOk (s.pollFb i fb).1 := by
  unfold Sys.pollFb
  cases hio : s.ops[i]? with
  | none => exact h
  | some o =>
    simp only []
    split
    · exact h
    · cases fb with
      | fail e =>
        simp only []
        split
        · exact h
        · exact pollCore_sync i h
      | ok raws =>
        simp only []
        split
        · exact h
        · split
          · exact h
          · have h1 := pollCore_sync i h
            have h2 := wrap_fresh_sync { (s.pollCore i).1 with
                descs := (s.pollCore i).1.descs ++ raws.map (Desc.freshS true .file (.pending i)) } i raws
              (by intro e he
                  simp only [List.mem_append, List.mem_map] at he
                  rcases he with he | ⟨r, hr, rfl⟩
                  · exact Or.inl (h1 e he)
                  · exact Or.inr ⟨rfl, rfl, rfl, hr⟩)
            generalize Sys.wrap _ i Kind.file raws = wr at h2 ⊢
            obtain ⟨s3, hs⟩ := wr
            exact h2

theorem std_sync {s : Sys} (w : Nat) (h : SyncOk s) : SyncOk (s.std w).1 := by
  unfold Sys.std
  split
  · exact h
  · exact h

theorem pollPanic_sync {s : Sys} (i : Nat) (h : SyncOk s) : SyncOk (s.pollPanic i).1 := by
  unfold Sys.pollPanic
  cases hio : s.ops[i]? with
  | none => exact h
  | some o =>
    simp only []
    split
    · exact dropH_sync _ (pollCore_sync i h)
    · exact pollCore_sync i h

theorem poll_sync {s : Sys} (i : Nat) (h : SyncOk s) : SyncOk (s.poll i).1 := by
  unfold Sys.poll
  cases hio : s.ops[i]? with
  | none => exact h
  | some o =>
    simp only []
    split
    · exact h
    · split
      · exact pollPanic_sync i h
      · exact pollCore_sync i h

theorem step_sync {s : Sys} (st : Step) (h : SyncOk s) : SyncOk (s.next st) := by
  unfold Sys.next Sys.step
  cases st with
  | std w => exact std_sync w h
  | newOp k r a => exact newOp_sync k r a h
  | poll i => exact poll_sync i h
  | pollFb i fb => exact pollFb_sync i fb h
  | dropOp i => exact dropOp_sync i h
  | dropH a => exact dropH_sync a h
  | kpost i out more => exact kpost_sync i out more h
  | rpoll => exact rpoll_sync h

theorem run_sync {s : Sys} (steps : List Step) (h : SyncOk s) : SyncOk (run s steps) := by
  induction steps generalizing s with
  | nil => exact h
  | cons st rest ih => exact ih (step_sync st h)


/-! ### Runs -/

theorem step_inv {s : Sys} (st : Step) (h : Inv s) : Inv (s.next st) := by
  unfold Sys.next Sys.step
  cases st with
  | std w => exact std_inv w h
  | newOp k r a => exact newOp_inv k r a h
  | poll i => exact poll_inv i h
  | pollFb i fb => exact pollFb_inv i fb h
  | dropOp i => exact dropOp_inv i h
  | dropH a => exact dropH_inv a h
  | kpost i out more => exact kpost_inv i out more h
  | rpoll => exact rpoll_inv h

theorem run_inv {s : Sys} (steps : List Step) (h : Inv s) : Inv (run s steps) := by
  induction steps generalizing s with
  | nil => exact h
  | cons st rest ih => exact ih (step_inv st h)

/-- A freshly built ring: nothing issued, nothing queued. -/
def start (sqLen slotLo slots fileLo fileHi : Nat) : Sys :=
  { sqLen := sqLen, slotLo := slotLo, slots := slots, fileLo := fileLo, fileHi := fileHi }

theorem start_inv (sqLen slotLo slots fileLo fileHi : Nat) (hlo : 3 ≤ fileLo) :
    Inv (start sqLen slotLo slots fileLo fileHi) := by
  show InvG _ _
  constructor <;> simp [start, Sys.targets, Uniq]
  exact hlo

theorem start_sync (sqLen slotLo slots fileLo fileHi : Nat) :
    SyncOk (start sqLen slotLo slots fileLo fileHi) := by
  intro e he
  simp [start] at he

end A10.Fds
