/-
Invariant S of the teardown model: the slots of the ring's registered-file
table (direct descriptors). Per slot `j`

  releases executed + CLOSE(file_index = j+1) entries queued
    + (1 if a live direct `AsyncFd` has index `j`)  =  (1 if slot `j` belongs to a
                                                       direct descriptor of the population)

so a slot of the population is released exactly once and through exactly one of
the three, and no request ever targets any other slot; the kernel's table holds
a file in slot `j` exactly while nothing has released it.
-/
import A10Verif.Lemmas.TeardownInv

set_option linter.unusedSimpArgs false

namespace A10.Teardown
open A10 A10.OpSys

structure InvS (s : St) : Prop where
  rlen : s.slotRel.length = s.slotReg.length
  /-- a direct descriptor is one of the descriptors -/
  dlen : s.fdDir.length ≤ s.fdLive.length
  /-- the index of a direct descriptor lies inside the table -/
  tab : ∀ j, s.fdDir.getD j false = true → j < s.slotRel.length
  eq : ∀ j, s.slotRel.getD j 0 + s.sq.count (SqEntry.closeIdx (j + 1))
      + b2n (s.fdLive.getD j false && s.fdDir.getD j false) = b2n (s.fdDir.getD j false)
  /-- `file_index = 0` (= "a regular descriptor") is never used for a direct one -/
  zero : s.sq.count (SqEntry.closeIdx 0) = 0
  /-- the kernel's table: a file is registered exactly in the population's slots
  that nothing has released -/
  reg : ∀ j, s.slotReg.getD j false = (s.fdDir.getD j false && s.slotRel.getD j 0 == 0)

theorem invS_of_frame (s s' : St) (h : InvS s) (h1 : s'.sq = s.sq)
    (h2 : s'.slotRel = s.slotRel := by first | rfl | simp)
    (h3 : s'.slotReg = s.slotReg := by first | rfl | simp)
    (h4 : s'.fdLive = s.fdLive := by first | rfl | simp)
    (h5 : s'.fdDir = s.fdDir := by first | rfl | simp) : InvS s' :=
  ⟨by rw [h2, h3]; exact h.rlen, by rw [h4, h5]; exact h.dlen,
   fun j hj => by rw [h2]; exact h.tab j (by rw [← h5]; exact hj),
   fun j => by rw [h1, h2, h4, h5]; exact h.eq j, by rw [h1]; exact h.zero,
   fun j => by rw [h2, h3, h5]; exact h.reg j⟩

/-! ### The kernel's moves -/

@[simp] theorem postCqe_slotRel (s : St) (c : Cqe) : (s.postCqe c).slotRel = s.slotRel := by
  unfold St.postCqe; split <;> rfl
@[simp] theorem postCqe_slotReg (s : St) (c : Cqe) : (s.postCqe c).slotReg = s.slotReg := by
  unfold St.postCqe; split <;> rfl
@[simp] theorem flushOverflow_slotRel (s : St) : s.flushOverflow.slotRel = s.slotRel := rfl
@[simp] theorem flushOverflow_slotReg (s : St) : s.flushOverflow.slotReg = s.slotReg := rfl
@[simp] theorem wakeBlocked_slotRel (s : St) : s.wakeBlocked.slotRel = s.slotRel := rfl
@[simp] theorem wakeBlocked_slotReg (s : St) : s.wakeBlocked.slotReg = s.slotReg := rfl
@[simp] theorem emit_slotRel (s : St) (l : String) : (s.emit l).slotRel = s.slotRel := rfl
@[simp] theorem emit_slotReg (s : St) (l : String) : (s.emit l).slotReg = s.slotReg := rfl
@[simp] theorem closeFd_slotRel (s : St) (k : Nat) : (s.closeFd k).slotRel = s.slotRel := rfl
@[simp] theorem closeFd_slotReg (s : St) (k : Nat) : (s.closeFd k).slotReg = s.slotReg := rfl
@[simp] theorem kpostQuiet_slotRel (s : St) (i : Nat) (r : Int) (f : Nat) : (s.kpostQuiet i r f).slotRel = s.slotRel := by
  unfold St.kpostQuiet; split <;> simp
@[simp] theorem kpostQuiet_slotReg (s : St) (i : Nat) (r : Int) (f : Nat) : (s.kpostQuiet i r f).slotReg = s.slotReg := by
  unfold St.kpostQuiet; split <;> simp

theorem foldl_kpost_slot (posts : List Post) (s : St) :
    (posts.foldl (fun (s : St) p => s.kpostQuiet p.1 p.2.1 p.2.2) s).slotRel = s.slotRel ∧
    (posts.foldl (fun (s : St) p => s.kpostQuiet p.1 p.2.1 p.2.2) s).slotReg = s.slotReg := by
  induction posts generalizing s with
  | nil => simp
  | cons p ps ih => simp [List.foldl, ih]

@[simp] theorem cancelAll_slotRel (s : St) (l : List Nat) : (s.cancelAll l).slotRel = s.slotRel := by
  induction l generalizing s with
  | nil => rfl
  | cons i is ih => simp [St.cancelAll, ih]
@[simp] theorem cancelAll_slotReg (s : St) (l : List Nat) : (s.cancelAll l).slotReg = s.slotReg := by
  induction l generalizing s with
  | nil => rfl
  | cons i is ih => simp [St.cancelAll, ih]

theorem getD_set_bool (l : List Bool) (k k' : Nat) (v : Bool) :
    (l.set k' v).getD k false = if k' = k ∧ k < l.length then v else l.getD k false := by
  simp only [List.getD_eq_getElem?_getD, List.getElem?_set]
  by_cases h : k' = k
  · subst h
    by_cases hk : k' < l.length
    · simp [hk]
    · simp [hk, List.getElem?_eq_none (Nat.le_of_not_lt hk)]
  · simp [h]

theorem getD_set_nat (l : List Nat) (k k' v : Nat) :
    (l.set k' v).getD k 0 = if k' = k ∧ k < l.length then v else l.getD k 0 := by
  simp only [List.getD_eq_getElem?_getD, List.getElem?_set]
  by_cases h : k' = k
  · subst h
    by_cases hk : k' < l.length
    · simp [hk]
    · simp [hk, List.getElem?_eq_none (Nat.le_of_not_lt hk)]
  · simp [h]

/-- What a release does to the two per-slot ledgers. -/
theorem releaseSlot_slot (s : St) (j' : Nat) (hl : s.slotRel.length = s.slotReg.length) :
    (s.releaseSlot j').slotRel.length = s.slotRel.length ∧
    (s.releaseSlot j').slotReg.length = s.slotReg.length ∧
    ∀ j, (s.releaseSlot j').slotRel.getD j 0 =
          s.slotRel.getD j 0 + (if j' = j ∧ j < s.slotRel.length then 1 else 0) ∧
        (s.releaseSlot j').slotReg.getD j false =
          (s.slotReg.getD j false && !(decide (j' = j ∧ j < s.slotRel.length))) := by
  refine ⟨by simp [St.releaseSlot], by simp [St.releaseSlot], fun j => ?_⟩
  simp only [St.releaseSlot]
  rw [getD_set_nat, getD_set_bool]
  by_cases h : j' = j ∧ j < s.slotRel.length
  · have h2 : j' = j ∧ j < s.slotReg.length := ⟨h.1, hl ▸ h.2⟩
    rw [if_pos h, if_pos h, if_pos h2]
    simp [h]
  · have h2 : ¬ (j' = j ∧ j < s.slotReg.length) := fun e => h ⟨e.1, hl ▸ e.2⟩
    rw [if_neg h, if_neg h, if_neg h2]
    simp [h]

theorem closeIdx_slot (s : St) (fi : Nat) (hl : s.slotRel.length = s.slotReg.length) :
    (s.closeIdx fi).slotRel.length = s.slotRel.length ∧
    (s.closeIdx fi).slotReg.length = s.slotReg.length ∧
    ∀ j, (s.closeIdx fi).slotRel.getD j 0 =
          s.slotRel.getD j 0 + (if fi = j + 1 ∧ j < s.slotRel.length then 1 else 0) ∧
        (s.closeIdx fi).slotReg.getD j false =
          (s.slotReg.getD j false && !(decide (fi = j + 1 ∧ j < s.slotRel.length))) := by
  cases fi with
  | zero => simp [St.closeIdx]
  | succ j' =>
    obtain ⟨r1, r2, r3⟩ := releaseSlot_slot s j' hl
    have e : ∀ j, (j' + 1 = j + 1 ∧ j < s.slotRel.length) = (j' = j ∧ j < s.slotRel.length) := by
      intro j; simp
    simp only [St.closeIdx]
    split
    · refine ⟨by simpa using r1, by simpa using r2, fun j => ?_⟩
      simp only [emit_slotRel, emit_slotReg, e]; exact r3 j
    · split <;>
      · refine ⟨by simpa using r1, by simpa using r2, fun j => ?_⟩
        simp only [emit_slotRel, emit_slotReg, postCqe_slotRel, postCqe_slotReg, e]; exact r3 j

theorem consumeOne_slot (s : St) (e : SqEntry) (hl : s.slotRel.length = s.slotReg.length) :
    (s.consumeOne e).slotRel.length = s.slotRel.length ∧
    (s.consumeOne e).slotReg.length = s.slotReg.length ∧
    ∀ j, (s.consumeOne e).slotRel.getD j 0 =
          s.slotRel.getD j 0 + (if e = SqEntry.closeIdx (j + 1) ∧ j < s.slotRel.length then 1 else 0) ∧
        (s.consumeOne e).slotReg.getD j false =
          (s.slotReg.getD j false && !(decide (e = SqEntry.closeIdx (j + 1) ∧ j < s.slotRel.length))) := by
  cases e with
  | op i => simp [St.consumeOne]
  | cancel i =>
    simp only [St.consumeOne]
    split <;> simp
  | close k =>
    simp only [St.consumeOne]
    split <;> simp
  | closeIdx fi =>
    obtain ⟨r1, r2, r3⟩ := closeIdx_slot s fi hl
    refine ⟨r1, r2, fun j => ?_⟩
    have := r3 j
    simpa [St.consumeOne] using this

theorem consume_slot (s : St) (es : List SqEntry) (hl : s.slotRel.length = s.slotReg.length) :
    (s.consume es).slotRel.length = s.slotRel.length ∧
    (s.consume es).slotReg.length = s.slotReg.length ∧
    ∀ j, (s.consume es).slotRel.getD j 0 =
          s.slotRel.getD j 0 + (if j < s.slotRel.length then es.count (SqEntry.closeIdx (j + 1)) else 0) ∧
        (s.consume es).slotReg.getD j false =
          (s.slotReg.getD j false &&
            !(decide (0 < es.count (SqEntry.closeIdx (j + 1)) ∧ j < s.slotRel.length))) := by
  induction es generalizing s with
  | nil => simp [St.consume]
  | cons e es ih =>
    obtain ⟨a1, a2, a3⟩ := consumeOne_slot s e hl
    obtain ⟨b1, b2, b3⟩ := ih (s.consumeOne e) (by rw [a1, a2]; exact hl)
    refine ⟨by simp only [St.consume]; rw [b1, a1], by simp only [St.consume]; rw [b2, a2], fun j => ?_⟩
    obtain ⟨c1, c2⟩ := b3 j
    obtain ⟨d1, d2⟩ := a3 j
    simp only [St.consume]
    rw [c1, c2, d1, d2, a1, List.count_cons]
    by_cases he : e = SqEntry.closeIdx (j + 1)
    · subst he
      by_cases hj : j < s.slotRel.length
      · simp [hj]; omega
      · simp [hj]
    · have hne : (e == SqEntry.closeIdx (j + 1)) = false := by simpa using he
      simp [he, hne]

theorem zero_and_none (a c : Nat) : ((a == 0) && !decide (0 < c)) = (a + c == 0) := by
  cases a <;> cases c <;> simp

theorem invS_consumeAll (s : St) (h : InvS s) : InvS s.consumeAll := by
  obtain ⟨c1, c2, c3⟩ := consume_slot ({ s with sq := [] } : St) s.sq h.rlen
  have c1 : (St.consume ({ s with sq := [] } : St) s.sq).slotRel.length = s.slotRel.length := c1
  have c2 : (St.consume ({ s with sq := [] } : St) s.sq).slotReg.length = s.slotReg.length := c2
  have c3 : ∀ j, (St.consume ({ s with sq := [] } : St) s.sq).slotRel.getD j 0 =
          s.slotRel.getD j 0 + (if j < s.slotRel.length then s.sq.count (SqEntry.closeIdx (j + 1)) else 0) ∧
        (St.consume ({ s with sq := [] } : St) s.sq).slotReg.getD j false =
          (s.slotReg.getD j false &&
            !(decide (0 < s.sq.count (SqEntry.closeIdx (j + 1)) ∧ j < s.slotRel.length))) := c3
  have eL : s.consumeAll.fdLive = s.fdLive := by simp
  have eD : s.consumeAll.fdDir = s.fdDir := by simp
  have eR : s.consumeAll.slotRel = (St.consume ({ s with sq := [] } : St) s.sq).slotRel := rfl
  have eG : s.consumeAll.slotReg = (St.consume ({ s with sq := [] } : St) s.sq).slotReg := rfl
  -- a queued CLOSE targets a slot inside the table
  have hin : ∀ j, ¬ j < s.slotRel.length → s.sq.count (SqEntry.closeIdx (j + 1)) = 0 := by
    intro j hj
    have hd : s.fdDir.getD j false = false := by
      cases hd : s.fdDir.getD j false with
      | false => rfl
      | true => exact absurd (h.tab j hd) hj
    have := h.eq j
    rw [hd] at this
    simp at this
    exact this.2
  refine ⟨by rw [eR, eG, c1, c2]; exact h.rlen, by rw [eL, eD]; exact h.dlen, fun j hj => ?_, fun j => ?_,
    by simp [h.zero], fun j => ?_⟩
  · rw [eR, c1]; exact h.tab j (by rw [← eD]; exact hj)
  · rw [eR, (c3 j).1, consumeAll_sq, eL, eD]
    have := h.eq j
    by_cases hj : j < s.slotRel.length
    · simp only [hj, if_true, List.count_nil]; omega
    · simp only [hj, if_false, List.count_nil]
      have := hin j hj
      omega
  · rw [eG, (c3 j).2, eR, (c3 j).1, eD]
    have hr := h.reg j
    rw [hr]
    by_cases hj : j < s.slotRel.length
    · simp only [hj, if_true, and_true]
      rw [Bool.and_assoc, zero_and_none]
    · have := hin j hj
      simp [hj, this]

theorem enter_slot (s : St) (m : Nat) (ge : Bool) (posts : List Post) :
    (s.enter m ge posts).slotRel = s.consumeAll.slotRel ∧
    (s.enter m ge posts).slotReg = s.consumeAll.slotReg := by
  unfold St.enter
  simp only [wakeBlocked_slotRel, wakeBlocked_slotReg]
  split <;> simp [St.emit, (foldl_kpost_slot posts _).1, (foldl_kpost_slot posts _).2]

theorem invS_enter (s : St) (m : Nat) (ge : Bool) (posts : List Post) (h : InvS s) :
    InvS (s.enter m ge posts) :=
  invS_of_frame s.consumeAll _ (invS_consumeAll s h) (by simp) (enter_slot _ _ _ _).1
    (enter_slot _ _ _ _).2 (by simp) (by simp)

/-! ### Processing completions leaves the table alone -/

theorem queues_slot (a b : St) (h : a.toQueues = b.toQueues) :
    a.slotRel = b.slotRel ∧ a.slotReg = b.slotReg ∧ a.sq = b.sq := by
  have h1 : a.toQueues.slotRel = b.toQueues.slotRel := by rw [h]
  have h2 : a.toQueues.slotReg = b.toQueues.slotReg := by rw [h]
  have h3 : a.toQueues.sq = b.toQueues.sq := by rw [h]
  exact ⟨h1, h2, h3⟩

theorem invS_drainCq (s : St) (h : InvS s) : InvS s.drainCq := by
  have hq := processAll_queues ({ s with cq := [] } : St) s.cq
  obtain ⟨q1, q2, q3⟩ := queues_slot _ _ hq
  exact invS_of_frame s _ h (by unfold St.drainCq; exact q3) (by unfold St.drainCq; exact q1)
    (by unfold St.drainCq; exact q2) (drainCq_fdLive s) (drainCq_fdDir s)

theorem invS_loopFetch (s : St) (h : InvS s) : InvS s.loopFetch := by
  unfold St.loopFetch
  split
  · exact invS_enter _ _ _ _ (invS_enter _ _ _ _ h)
  · exact invS_enter _ _ _ _ h

theorem invS_dropLoop (s : St) (fuel : Nat) (h : InvS s) : InvS (s.dropLoop fuel) := by
  induction fuel generalizing s with
  | zero => exact h
  | succ n ih =>
    unfold St.dropLoop
    have := invS_drainCq _ (invS_loopFetch s h)
    split
    · exact this
    · exact ih _ this

theorem invS_cqDrop (s : St) (h : InvS s) : InvS s.cqDrop := by
  unfold St.cqDrop
  simp only []
  apply invS_dropLoop
  have h1 := invS_enter s 4294967295 false [] h
  exact invS_of_frame _ _ h1 (by simp [St.emit]) (by simp [St.emit]) (by simp [St.emit]) (by simp) (by simp)

theorem invS_sharedDrop (s : St) (h : InvS s) : InvS s.sharedDrop := by
  unfold St.sharedDrop
  simp only []
  split
  · exact invS_of_frame s _ h rfl rfl rfl rfl rfl
  · have h1 : InvS s.useSq := invS_of_frame s _ h rfl rfl rfl rfl rfl
    exact invS_of_frame _ _ (invS_consumeAll _ h1) rfl rfl rfl rfl rfl

theorem invS_settle (s : St) (h : InvS s) : InvS s.settle := by
  unfold St.settle St.settleShared
  obtain ⟨q1, q2, q3⟩ := queues_slot _ _ (settlePool_queues s)
  have h1 : InvS s.settlePool := invS_of_frame s _ h q3 q1 q2 (settlePool_fdLive s) (settlePool_fdDir s)
  split
  · exact invS_sharedDrop _ h1
  · exact h1

/-! ### The steps of a script -/

/-- The synchronous release of the slot of a live direct descriptor `k`, whose
`AsyncFd` goes with it. -/
theorem invS_release (s s1 : St) (k : Nat) (h : InvS s) (e1 : s1.slotRel = s.slotRel)
    (e2 : s1.slotReg = s.slotReg) (e3 : s1.sq = s.sq) (e4 : s1.fdLive = s.fdLive.set k false)
    (e5 : s1.fdDir = s.fdDir) (hkt : s.fdLive.getD k false = true)
    (hkd : s.fdDir.getD k false = true) : InvS (s1.releaseSlot k) := by
  have hkl := h.tab k hkd
  obtain ⟨r1, r2, r3⟩ := releaseSlot_slot s1 k (by rw [e1, e2]; exact h.rlen)
  have hsq : (s1.releaseSlot k).sq = s.sq := e3
  have hfl : (s1.releaseSlot k).fdLive = s.fdLive.set k false := e4
  have hfd : (s1.releaseSlot k).fdDir = s.fdDir := e5
  refine ⟨by rw [r1, r2, e1, e2]; exact h.rlen, by rw [hfl, hfd]; simpa using h.dlen, fun j hj => ?_,
    fun j => ?_, by rw [hsq]; exact h.zero, fun j => ?_⟩
  · rw [r1, e1]; exact h.tab j (by rw [← hfd]; exact hj)
  · rw [(r3 j).1, hsq, hfl, hfd, e1]
    have := h.eq j
    by_cases hjk : j = k
    · subst hjk
      rw [hkt, hkd] at this
      have hk0 : (s.fdLive.set j false).getD j false = false := by
        rw [getD_set_bool]; split <;> simp_all
      rw [hk0, hkd]
      simp [hkl] at this ⊢
      omega
    · have hl : (s.fdLive.set k false).getD j false = s.fdLive.getD j false := by
        simp [List.getD_eq_getElem?_getD, List.getElem?_set, Ne.symm hjk]
      rw [hl]
      have hn : ¬ (k = j ∧ j < s.slotRel.length) := fun e => hjk e.1.symm
      rw [if_neg hn]
      omega
  · rw [(r3 j).1, (r3 j).2, hfd, e1, e2, h.reg j]
    by_cases hjk : k = j ∧ j < s.slotRel.length
    · simp [hjk]
    · simp [hjk]

theorem invS_core (s : St) (e : Step) (h : InvS s) : InvS (core s e) := by
  have hdl : ∀ k, s.fdDir.length ≤ (s.fdLive.set k false).length := fun k => by simpa using h.dlen
  cases e with
  | newOp i k fd =>
    simp only [core, St.newOp]
    split <;> exact invS_of_frame s _ h rfl rfl rfl rfl rfl
  | poll i w =>
    simp only [core, St.poll]
    split
    · exact invS_of_frame s _ h rfl rfl rfl rfl rfl
    · split
      · refine ⟨h.rlen, h.dlen, h.tab, fun j => ?_, ?_, h.reg⟩
        · have := h.eq j
          simp only [St.pollCore, St.useSq]
          split
          · simpa [List.count_cons] using this
          · exact this
        · have := h.zero
          simp only [St.pollCore, St.useSq]
          split
          · simpa [List.count_cons] using this
          · exact this
      · exact invS_of_frame s _ h rfl rfl rfl rfl rfl
  | kpost i res =>
    simp only [core, St.kpost]
    split
    · split
      · exact invS_of_frame s _ h (by simp) (by simp) (by simp) (by simp) (by simp)
      · exact invS_of_frame s _ h rfl rfl rfl rfl rfl
    · exact invS_of_frame s _ h rfl rfl rfl rfl rfl
  | rpoll posts =>
    simp only [core, St.rpoll]
    split
    · have h2 : InvS (if s.useCq.cq.isEmpty then s.useCq.useSq.enter 1 true (posts.filter (postOk s))
          else s.useCq) := by
        split
        · exact invS_enter _ _ _ _ (invS_of_frame s _ h rfl rfl rfl rfl rfl)
        · exact invS_of_frame s _ h rfl rfl rfl rfl rfl
      exact invS_of_frame _ _ (invS_drainCq _ h2) rfl rfl rfl rfl rfl
    · exact invS_of_frame s _ h rfl rfl rfl rfl rfl
  | dropRing =>
    simp only [core, St.dropRing]
    split
    · exact invS_of_frame _ _ (invS_cqDrop _ (invS_of_frame s s.useSq.useCq h rfl rfl rfl rfl rfl))
        rfl rfl rfl rfl rfl
    · exact invS_of_frame s _ h rfl rfl rfl rfl rfl
  | dropClone k =>
    simp only [core, St.dropClone]
    split <;> exact invS_of_frame s _ h rfl rfl rfl rfl rfl
  | dropFd k =>
    simp only [core, St.dropFd]
    split
    · rename_i hg
      simp only [Bool.and_eq_true] at hg
      have hkd : s.fdDir.getD k false = false := by simpa [fdDir] using hg.2
      -- a regular descriptor does not count in the slot ledger, alive or not
      have hl : ∀ j, ((s.fdLive.set k false).getD j false && s.fdDir.getD j false)
          = (s.fdLive.getD j false && s.fdDir.getD j false) := by
        intro j
        by_cases hjk : j = k
        · subst hjk; rw [hkd]; simp
        · simp [List.getD_eq_getElem?_getD, List.getElem?_set, Ne.symm hjk]
      split
      · refine ⟨h.rlen, hdl k, h.tab, fun j => ?_, ?_, h.reg⟩
        · have := h.eq j
          simp only [St.emit, St.useSq]
          rw [hl j]
          simpa [List.count_cons] using this
        · have := h.zero
          simp only [St.emit, St.useSq]
          simpa [List.count_cons] using this
      · refine ⟨h.rlen, hdl k, h.tab, fun j => ?_, h.zero, h.reg⟩
        have := h.eq j
        simp only [St.emit, St.useSq, St.closeFd]
        rw [hl j]
        exact this
    · exact invS_of_frame s _ h rfl rfl rfl rfl rfl
  | dropDfd k =>
    simp only [core, St.dropDfd]
    split
    · rename_i hg
      simp only [Bool.and_eq_true] at hg
      have hg' : s.fdLive[k]? = some true := by simpa using hg.1.1
      have hkt : s.fdLive.getD k false = true := by
        rw [List.getD_eq_getElem?_getD, hg']; rfl
      have hkd : s.fdDir.getD k false = true := by simpa [fdDir] using hg.2
      have hkl := h.tab k hkd
      have hl : ∀ j, j ≠ k → (s.fdLive.set k false).getD j false = s.fdLive.getD j false := by
        intro j hjk
        simp [List.getD_eq_getElem?_getD, List.getElem?_set, Ne.symm hjk]
      have hk0 : (s.fdLive.set k false).getD k false = false := by
        rw [getD_set_bool]; split <;> simp_all
      split
      · -- queued: CLOSE with file_index = k + 1
        refine ⟨h.rlen, hdl k, h.tab, fun j => ?_, ?_, h.reg⟩
        · have := h.eq j
          simp only [St.emit, St.useSq]
          by_cases hjk : j = k
          · subst hjk
            rw [hkt, hkd] at this
            rw [hk0, hkd]
            simp [List.count_cons] at this ⊢
            omega
          · have hne : SqEntry.closeIdx (k + 1) ≠ SqEntry.closeIdx (j + 1) := by
              intro e; injection e with e; omega
            rw [hl j hjk]
            simpa [List.count_cons, hne] using this
        · have := h.zero
          simp only [St.emit, St.useSq]
          simpa [List.count_cons] using this
      · -- queue full: FILES_UPDATE(offset k, -1)
        exact invS_of_frame _ _
          (invS_release s ({ s.useSq with fdLive := s.fdLive.set k false } : St).useSq k h
            rfl rfl rfl rfl rfl hkt hkd) rfl rfl rfl rfl rfl
    · exact invS_of_frame s _ h rfl rfl rfl rfl rfl
  | dropOp i =>
    simp only [core, St.dropOp]
    split
    · exact invS_of_frame s _ h rfl rfl rfl rfl rfl
    · split
      · refine ⟨h.rlen, h.dlen, h.tab, fun j => ?_, ?_, h.reg⟩
        · have := h.eq j
          simp only [St.dropOpCore, St.useSq]
          split
          · simpa [List.count_cons] using this
          · exact this
        · have := h.zero
          simp only [St.dropOpCore, St.useSq]
          split
          · simpa [List.count_cons] using this
          · exact this
      · exact invS_of_frame s _ h rfl rfl rfl rfl rfl
  | dropPool =>
    simp only [core, St.dropPool]
    split <;> exact invS_of_frame s _ h rfl rfl rfl rfl rfl
  | dropBuf j =>
    simp only [core, St.dropBuf]
    split <;> exact invS_of_frame s _ h rfl rfl rfl rfl rfl

theorem invS_step (s : St) (e : Step) (h : InvS s) : InvS (step s e) :=
  invS_settle _ (invS_core s e h)

end A10.Teardown
