/-
C13 — Each operation equals its POSIX call for all arguments and descriptor kinds.

Statement (properties.jsonl): every a10 operation has the same observable
effect and result as the corresponding synchronous system call given the same
arguments — same bytes at the same offsets, same returned counts, metadata,
addresses and option values, and failure exactly when that call would fail —
whether the descriptor is regular or direct, and every builder setting made
before the first poll takes effect.

Model: `A10Verif/Model/Encode.lean` (`fill` is tied to the real
`fill_submission` code by the `encode` correspondence component; `abi` is the
trusted io_uring ABI table; `posix` is the call the API stands for).
-/
import A10Verif.Model.Encode
import A10Verif.Props.C16

namespace A10.Encode

open A10.Addr (Addr)

/-! ### Well-formedness of arguments -/

/-- The address value fits the address type parameter and is one the public
API can construct (`Addr.WF`, from C16). -/
def AddrWF : ATy → Addr → Prop
  | .v4, .v4 ip port => Addr.WF (.v4 ip port)
  | .v6, .v6 ip port flow scope => Addr.WF (.v6 ip port flow scope)
  | .any, .v4 ip port => Addr.WF (.v4 ip port)
  | .any, .v6 ip port flow scope => Addr.WF (.v6 ip port flow scope)
  | .unix, .path p => Addr.WF (.path p)
  | .unix, .abstr n => Addr.WF (.abstr n)
  | .unix, .unnamed => True
  | _, _ => False

/-- Preconditions on the arguments of each operation: the ranges of the Rust
types and the restrictions of the public API. -/
def WF (op : OpKind) (a : Args) (k : FdKind) : Prop :=
  a.fd < 2147483648 ∧
  match op with
  | .readv | .writev | .recvv | .recvfromv => a.iov.length < U32
  | .splice => a.flags < 2147483648 ∧ a.target < 2147483648
  | .close | .dropfd => a.target + 1 < U32
  | .openat => a.flags < U32
  | .bind | .connect => AddrWF a.aty a.addr
  | .sendto => a.aty = .noaddr ∨ AddrWF a.aty a.addr
  | .sendmsg => a.iov.length < U32 ∧ (a.aty = .noaddr ∨ AddrWF a.aty a.addr)
  -- `AcceptFlag` has no public constants; in general it must not contain SOCK_CLOEXEC
  | .accept | .maccept => k = .direct → a.flags &&& O_CLOEXEC = 0
  | .getsockopt => a.level < U32
  | .setsockopt => a.level < U32 ∧ a.optlen = a.optval.length
  -- `to_file_descriptor` is for direct descriptors, `to_direct_descriptor` and
  -- `Signals` for regular ones
  | .tofd => k = .direct
  | .todirect | .sigrecv => k = .file
  | _ => True

/-- The cases in which the current code does **not** encode the POSIX call
(both are reported by the correspondence oracle as known findings F17, F18). -/
def Supported (op : OpKind) (a : Args) (k : FdKind) : Prop :=
  match op with
  -- `splice_to` on a direct descriptor: the input is not flagged SPLICE_F_FD_IN_FIXED
  | .splice => ¬ (a.dirTo = true ∧ k = .direct)
  -- `metadata()` on a direct descriptor: statx takes no registered file
  | .statx => k = .file
  | _ => True

/-! ### Socket addresses passed to the kernel (uses C16) -/


theorem kaddr_v4 (ip : List Nat) (port : Nat) (h : Addr.WF (.v4 ip port)) :
    kernelAddr (Addr.storageV4 ip port) = some (.v4 ip port) := by
  have hr := Addr.C16_roundtrip_v4 ip port h
  obtain ⟨hl, hp⟩ := h
  match ip, hl with
  | [a, b, c, d], _ =>
    have : (Addr.storageV4 [a,b,c,d] port).take 16 = Addr.storageV4 [a,b,c,d] port := by
      simp [Addr.storageV4, Addr.le16, Addr.be16, Addr.zeros]
    simp only [kernelAddr, this, hr]
    simp [Addr.storageV4, Addr.le16, Addr.be16, Addr.zeros, Addr.rd16le, Addr.AF_INET]

theorem kaddr_v6 (ip : List Nat) (port flow scope : Nat) (h : Addr.WF (.v6 ip port flow scope)) :
    kernelAddr (Addr.storageV6 ip port flow scope) = some (.v6 ip port flow scope) := by
  have hr := Addr.C16_roundtrip_v6 ip port flow scope h
  obtain ⟨hl, hp, hf, hs⟩ := h
  match ip, hl with
  | [a0, a1, a2, a3, a4, a5, a6, a7, a8, a9, a10, a11, a12, a13, a14, a15], _ =>
    have : (Addr.storageV6 [a0, a1, a2, a3, a4, a5, a6, a7, a8, a9, a10, a11, a12, a13, a14, a15] port flow scope).take 28
        = Addr.storageV6 [a0, a1, a2, a3, a4, a5, a6, a7, a8, a9, a10, a11, a12, a13, a14, a15] port flow scope := by
      simp [Addr.storageV6, Addr.le16, Addr.be16, Addr.le32]
    simp only [kernelAddr, this, hr]
    simp [Addr.storageV6, Addr.le16, Addr.be16, Addr.le32, Addr.rd16le, Addr.AF_INET, Addr.AF_INET6]


theorem storageV4_length (ip : List Nat) (port : Nat) (h : ip.length = 4) :
    (Addr.storageV4 ip port).length = 16 := by
  simp [Addr.storageV4, Addr.le16, Addr.be16, Addr.zeros, h]

theorem storageV6_length (ip : List Nat) (port flow scope : Nat) (h : ip.length = 16) :
    (Addr.storageV6 ip port flow scope).length = 28 := by
  simp [Addr.storageV6, Addr.le16, Addr.be16, Addr.le32, h]

theorem unixTail_path (x : Nat) (xs : List Nat) (hx : x ≠ 0) :
    unixTail (x :: xs) = .path ((x :: xs).takeWhile (· ≠ 0)) := by
  cases x with
  | zero => exact absurd rfl hx
  | succ n => rfl

theorem storageUnix_path_take (p : List Nat) (h : p.length ≤ 107) :
    (Addr.storageUnix (.path p)).take (2 + p.length + 1) = 1 :: 0 :: (p ++ [0]) := by
  have hz : Addr.zeros (108 - p.length) = 0 :: Addr.zeros (107 - p.length) := by
    have : 108 - p.length = (107 - p.length) + 1 := by omega
    rw [this]; simp [Addr.zeros, List.replicate_succ]
  have e : 2 + p.length + 1 = (p ++ [0]).length + 1 + 1 := by simp; omega
  have hs : Addr.storageUnix (.path p) = 1 :: 0 :: ((p ++ [0]) ++ Addr.zeros (107 - p.length)) := by
    simp [Addr.storageUnix, Addr.le16, hz, Addr.AF_UNIX]
  rw [hs, e, List.take_succ_cons, List.take_succ_cons, List.take_left]

theorem kaddr_path (p : List Nat) (h : Addr.WF (.path p)) :
    kernelAddr (addrBytes .unix (.path p)) = some (.path p) := by
  obtain ⟨h1, h2, h0⟩ := h
  have htw := Addr.takeWhile_append_zero p h0 []
  simp only [addrBytes, Addr.ptrLenUnix, storageUnix_path_take p h2]
  have hlen : (1 :: 0 :: (p ++ [0])).length = p.length + 3 := by simp
  have hfam : Addr.rd16le (1 :: 0 :: (p ++ [0])) 0 = 1 := by simp [Addr.rd16le]
  simp only [kernelAddr, hlen, hfam, List.drop_succ_cons, List.drop_zero]
  cases p with
  | nil => simp at h1
  | cons x xs =>
    have hx : x ≠ 0 := h0 x (by simp)
    simp only [List.cons_append] at htw ⊢
    rw [unixTail_path x _ hx, htw]
    simp [Addr.AF_INET, Addr.AF_INET6, Addr.AF_UNIX]
    simp at h2; omega

theorem kaddr_abstract (n : List Nat) (h : n.length ≤ 107) :
    kernelAddr (addrBytes .unix (.abstr n)) = some (.abstr n) := by
  have ht : (Addr.storageUnix (.abstr n)).take (2 + 1 + n.length) = 1 :: 0 :: 0 :: n := by
    have e : 2 + 1 + n.length = n.length + 1 + 1 + 1 := by omega
    have hs : Addr.storageUnix (.abstr n) = 1 :: 0 :: 0 :: (n ++ Addr.zeros (107 - n.length)) := by
      simp [Addr.storageUnix, Addr.le16, Addr.AF_UNIX]
    rw [hs, e, List.take_succ_cons, List.take_succ_cons, List.take_succ_cons, List.take_left]
  simp only [addrBytes, Addr.ptrLenUnix, ht]
  have hlen : (1 :: 0 :: 0 :: n).length = n.length + 3 := by simp
  have hfam : Addr.rd16le (1 :: 0 :: 0 :: n) 0 = 1 := by simp [Addr.rd16le]
  simp only [kernelAddr, hlen, hfam, List.drop_succ_cons, List.drop_zero]
  simp [Addr.AF_INET, Addr.AF_INET6, Addr.AF_UNIX, unixTail]
  omega

theorem kaddr_unnamed : kernelAddr (addrBytes .unix .unnamed) = some .unnamed := by
  decide

/-- Every address the API can build, of every address type, is read back by
the kernel as the same address (Unix addresses included, now that their
canonical length is passed). -/
theorem kaddr_exact (ty : ATy) (a : Addr) (h : AddrWF ty a) :
    kernelAddr (addrBytes ty a) = some a := by
  cases ty <;> cases a <;> simp only [AddrWF] at h <;> try exact absurd h id
  case v4.v4 ip port => exact kaddr_v4 ip port h
  case v6.v6 ip port flow scope => exact kaddr_v6 ip port flow scope h
  case any.v4 ip port =>
    have h16 := (Addr.C16_roundtrip_any_v4 ip port h).1
    have hl := storageV4_length ip port h.1
    have : (Addr.storageAny (.v4 ip port)).take 16 = Addr.storageV4 ip port := by
      simp only [Addr.storageAny]
      rw [← hl, List.take_left]
    simp only [addrBytes, h16, this]
    exact kaddr_v4 ip port h
  case any.v6 ip port flow scope =>
    have h28 := (Addr.C16_roundtrip_any_v6 ip port flow scope h).1
    have hl := storageV6_length ip port flow scope h.1
    have : (Addr.storageAny (.v6 ip port flow scope)).take 28 = Addr.storageV6 ip port flow scope := by
      simp only [Addr.storageAny]
      rw [← hl, List.take_length]
    simp only [addrBytes, h28, this]
    exact kaddr_v6 ip port flow scope h
  case unix.path p => exact kaddr_path p h
  case unix.abstr n => exact kaddr_abstract n h
  case unix.unnamed => exact kaddr_unnamed

/-! ### Encoding -/

theorem iovOf_length (l : List (Nat × Nat)) : (iovOf l).length = l.length := by
  simp [iovOf]

theorem and_pow31_of_lt (x : Nat) (h : x < 2147483648) : x &&& 2147483648 = 0 := by
  have h1 : x &&& 2147483647 = x := by
    have := Nat.and_two_pow_sub_one_eq_mod x 31
    simp at this
    rw [this]; exact Nat.mod_eq_of_lt h
  calc x &&& 2147483648 = (x &&& 2147483647) &&& 2147483648 := by rw [h1]
    _ = x &&& (2147483647 &&& 2147483648) := Nat.and_assoc ..
    _ = 0 := by simp

theorem toI32_atfdcwd : toI32 AT_FDCWD_U32 = AT_FDCWD := by decide

theorem addrBytes_noaddr (a : Addr) : addrBytes .noaddr a = [] := by
  cases a <;> rfl

theorem addrWF_ne_noaddr (ty : ATy) (a : Addr) (h : AddrWF ty a) : ty ≠ .noaddr := by
  intro e; subst e; cases a <;> exact h

theorem addrBytes_length (ty : ATy) (a : Addr) (h : AddrWF ty a) :
    2 ≤ (addrBytes ty a).length ∧ (addrBytes ty a).length ≤ 110 := by
  cases ty <;> cases a <;> simp only [AddrWF] at h <;> try exact absurd h id
  case v4.v4 ip port => simp [addrBytes, storageV4_length ip port h.1]
  case v6.v6 ip port flow scope => simp [addrBytes, storageV6_length ip port flow scope h.1]
  case any.v4 ip port =>
    have h16 := (Addr.C16_roundtrip_any_v4 ip port h).1
    have hl := storageV4_length ip port h.1
    have hs : (Addr.storageAny (.v4 ip port)).length = 28 := by simp [Addr.storageAny, hl, Addr.zeros]
    simp only [addrBytes, h16, List.length_take, hs]; omega
  case any.v6 ip port flow scope =>
    have h28 := (Addr.C16_roundtrip_any_v6 ip port flow scope h).1
    have hl := storageV6_length ip port flow scope h.1
    have hs : (Addr.storageAny (.v6 ip port flow scope)).length = 28 := by simp [Addr.storageAny, hl]
    simp only [addrBytes, h28, List.length_take, hs]; omega
  case unix.path p =>
    have := (Addr.C16_ptr_len (.path p) h).1
    obtain ⟨_, h2, _⟩ := h
    simp only [addrBytes, Addr.ptrLenUnix, List.length_take, this]; omega
  case unix.abstr n =>
    have := (Addr.C16_ptr_len (.abstr n) h).1
    have h2 : n.length ≤ 107 := h
    simp only [addrBytes, Addr.ptrLenUnix, List.length_take, this]; omega
  case unix.unnamed =>
    have := (Addr.C16_ptr_len .unnamed h).1
    simp only [addrBytes, Addr.ptrLenUnix, List.length_take, this]; omega

macro "enc_simp" : tactic => `(tactic|
  simp [abi, fill, posix, fdArgs, pfd, flagsOk, isNum, numOf, useFlags, bit, kindBit, slotOf, paddr,
      createIndex, cloexec, IOSQE_FIXED_FILE, IOSQE_ASYNC, IOSQE_BUFFER_SELECT, IOSQE_CQE_SKIP_SUCCESS,
      ALLOC, O_CLOEXEC, iovOf_length, U32, toI32_atfdcwd, OP_SEND, OP_SEND_ZC, OP_SENDMSG, OP_SENDMSG_ZC] at *)

/-- **Full statement**: for every operation, all arguments and both descriptor
kinds, the request a10 submits is — field by field under the io_uring ABI —
the POSIX call the API call stands for. -/
def C13_encode_full : Prop :=
  ∀ (op : OpKind) (a : Args) (k : FdKind), WF op a k → abi op (fill op a k) = some (posix op a k)

/-- The strongest version that holds for the current code: everything except
`splice_to` and `metadata()` on a direct descriptor (`Supported`). Covers, for all argument values: offset vs address fields,
`NO_OFFSET` for the current position, in/out descriptors of splice, lengths,
every flag word unchanged, `O_CLOEXEC`/`SOCK_CLOEXEC` for regular and none for
direct descriptors, `IOSQE_FIXED_FILE` iff direct, `file_index = ALLOC` iff a
direct descriptor is created, multishot bits, zero-copy opcodes, vectored
buffer counts, address bytes and lengths, option level/name/length. -/
theorem C13_encode_partial (op : OpKind) (a : Args) (k : FdKind) (h : WF op a k) (hs : Supported op a k) :
    abi op (fill op a k) = some (posix op a k) := by
  obtain ⟨hfd, h⟩ := h
  cases op
  case splice =>
    obtain ⟨hf, ht⟩ := h
    have hb := and_pow31_of_lt a.flags hf
    have hm : a.flags % 2147483648 = a.flags := Nat.mod_eq_of_lt hf
    cases k <;> cases hd : a.dirTo <;>
      simp [Supported, hd] at hs <;>
      simp [abi, fill, posix, flagsOk, isNum, useFlags, bit, kindBit, IOSQE_FIXED_FILE, IOSQE_ASYNC,
        SPLICE_F_FD_IN_FIXED, hd, hb, hm, OP_SPLICE]
  case close =>
    have h1 : (a.target + 1) % 4294967296 = a.target + 1 := Nat.mod_eq_of_lt h
    cases k <;> simp [abi, fill, posix, flagsOk, kindBit, IOSQE_CQE_SKIP_SUCCESS, U32, h1, OP_CLOSE]
  case dropfd =>
    have h1 : (a.target + 1) % 4294967296 = a.target + 1 := Nat.mod_eq_of_lt h
    cases k <;> simp [abi, fill, posix, flagsOk, kindBit, IOSQE_CQE_SKIP_SUCCESS, U32, h1, OP_CLOSE]
  case bind =>
    have := kaddr_exact a.aty a.addr h
    cases k <;> enc_simp <;> exact this
  case connect =>
    have := kaddr_exact a.aty a.addr h
    cases k <;> enc_simp <;> exact this
  case statx =>
    have hk : k = .file := hs
    subst hk
    enc_simp
  case sendto =>
    rcases h with hna | hwf
    · have hb := addrBytes_noaddr a.addr
      cases k <;> cases hz : a.zc <;> enc_simp <;> simp [hna, hb]
    · have hne := addrWF_ne_noaddr _ _ hwf
      have hl := addrBytes_length _ _ hwf
      have hk := kaddr_exact a.aty a.addr hwf
      have hnil : addrBytes a.aty a.addr ≠ [] := by
        intro e; rw [e] at hl; simp at hl
      have hm : (addrBytes a.aty a.addr).length % 65536 = (addrBytes a.aty a.addr).length := by omega
      cases k <;> cases hz : a.zc <;> enc_simp <;> simp [hne, hnil, hk] <;> omega
  case sendmsg =>
    obtain ⟨hiov, h⟩ := h
    rcases h with hna | hwf
    · have hb := addrBytes_noaddr a.addr
      cases k <;> cases hz : a.zc <;> enc_simp <;> simp [hna, hb] <;> omega
    · have hne := addrWF_ne_noaddr _ _ hwf
      have hl := addrBytes_length _ _ hwf
      have hk := kaddr_exact a.aty a.addr hwf
      have hnil : addrBytes a.aty a.addr ≠ [] := by
        intro e; rw [e] at hl; simp at hl
      cases k <;> cases hz : a.zc <;> enc_simp <;> simp [hne, hnil, hk] <;> omega
  case pollable => cases k <;> enc_simp <;> rfl
  all_goals (cases k <;> enc_simp <;> (try first | assumption | omega | (split <;> omega) | (cases a.zc <;> simp)))

/-- **`Ring::pollable`** (the one operation whose descriptor is another ring):
for every ring descriptor the request is a multishot poll of exactly that
descriptor for `EPOLLIN | EPOLLHUP | EPOLLERR`, edge triggered and exclusive,
tagged as multishot — and the ABI reading is not vacuous: the same request
with a single-shot tag, or with any other bit in `len`, is not that call. -/
theorem C13_pollable_request (a : Args) (k : FdKind) :
    abi .pollable (fill .pollable a k) =
      some ⟨"poll", [("fd", .i a.fd), ("events", .n 2415919129), ("multi", .n 1)]⟩ ∧
    abi .pollable { (fill .pollable a k) with sqe := { (fill .pollable a k).sqe with userData := .single } } = none ∧
    abi .pollable { (fill .pollable a k) with sqe := { (fill .pollable a k).sqe with len := 3 } } = none := by
  refine ⟨?_, ?_, ?_⟩ <;>
    simp [abi, fill, OP_POLL_ADD, IORING_POLL_ADD_MULTI, POLLABLE_EVENTS]

/-- `direct.splice_to(fd 700, 10)` with direct descriptor 5. -/
def spliceWitness : Args := { fd := 5, target := 700, dirTo := true, len := 10 }

/-- `splice_to` on a direct descriptor: a10 flags the *output* (`sqe.fd`, the
caller's regular descriptor) as a registered file and leaves the input (the
direct descriptor, in `splice_fd_in`) unflagged. The kernel therefore splices
from regular descriptor number `dfd` into registered file number `target`. -/
theorem C13_splice_to_direct_fails :
    WF .splice spliceWitness .direct ∧
    abi .splice (fill .splice spliceWitness .direct) = some ⟨"splice", [("fd_in", .n 5), ("in_fixed", .n 0),
      ("off_in", .v (.num NO_OFFSET)), ("fd_out", .i 700), ("out_fixed", .n 1),
      ("off_out", .v (.num NO_OFFSET)), ("len", .n 10), ("flags", .n 0)]⟩ ∧
    posix .splice spliceWitness .direct = ⟨"splice", [("fd_in", .n 5), ("in_fixed", .n 1),
      ("off_in", .v (.num NO_OFFSET)), ("fd_out", .i 700), ("out_fixed", .n 0),
      ("off_out", .v (.num NO_OFFSET)), ("len", .n 10), ("flags", .n 0)]⟩ := by
  refine ⟨by simp [WF, spliceWitness], by decide, by decide⟩

/-! The defect repaired by `fix: pass the actual length of Unix addresses to the
kernel`: every Unix address used to be passed with length 110
(`size_of::<sockaddr_un>()`), which the kernel reads as a NUL-padded abstract
name / an abstract name of 107 NULs instead of the unnamed address. -/
example : kernelAddr (Addr.storageUnix (.abstr [97, 98])) = some (.abstr ([97, 98] ++ Addr.zeros 105)) := by
  decide
example : kernelAddr (Addr.storageUnix .unnamed) = some (.abstr (Addr.zeros 107)) := by decide
example : kernelAddr (addrBytes .unix (.abstr [97, 98])) = some (.abstr [97, 98]) ∧
    (addrBytes .unix (.abstr [97, 98])).length = 5 ∧ (addrBytes .unix .unnamed).length = 2 ∧
    (addrBytes .unix (.path [47, 120])).length = 5 := by decide

/-- `metadata()` on a direct descriptor: the request carries
`IOSQE_FIXED_FILE`, which `IORING_OP_STATX` rejects (`-EBADF`) — there is no
`statx` call it stands for. -/
theorem C13_statx_direct_fails (a : Args) : abi .statx (fill .statx a .direct) = none := by
  simp [abi, fill, flagsOk, useFlags, IOSQE_FIXED_FILE, IOSQE_ASYNC]

theorem C13_encode_full_fails : ¬ C13_encode_full := by
  intro h
  have := h .splice spliceWitness .direct C13_splice_to_direct_fails.1
  revert this
  decide



/-! ### Builder methods -/

/-- A builder method called once the operation has been started (any status
but `NotStarted`) does not reach the arguments. -/
theorem C13_builder_frozen (s : Setter) (o : A10.Op) (a : Args) (h : o.status ≠ .notStarted) :
    s.apply o a = a := by
  unfold Setter.apply A10.Op.builderAccess
  cases hs : o.status <;> simp_all

/-- Before the first poll it sets the argument. -/
theorem C13_builder_before_first_poll (s : Setter) (o : A10.Op) (a : Args)
    (h : o.status = .notStarted) : s.apply o a = s.set a := by
  simp [Setter.apply, A10.Op.builderAccess, h]

/-- The first poll (with room in the submission queue) starts the operation:
from then on builder methods are frozen (uses the operation model of C01). -/
theorem C13_builder_first_poll_freezes (o : A10.Op) (w : Nat) (s : Setter) (a : Args)
    (h : o.status = .notStarted) : s.apply (o.poll w true).1 a = a := by
  apply C13_builder_frozen
  simp [A10.Op.poll, A10.Op.pollAux, h]

/-- The argument a builder method writes. -/
def Setter.target : Setter → Nat
  | .offset _ => 0 | .offIn _ => 1 | .offOut _ => 2 | .flags _ => 3 | .zc => 4 | .kind _ => 5

/-- Builder methods that set different arguments commute: the request does not depend on the order
in which `.flags(..)`, `.zc()`, `.kind(..)`, `.from(..)`/`.at(..)` are called before the first poll
(each one only assigns its own field of the argument tuple). The `encode` component calls the
setters of `pipe` (`kind`/`flags`) and of `send`/`send_to` (`flags`/`zc`) in both orders (`ord=`). -/
theorem C13_builder_order_independent (s1 s2 : Setter) (a : Args) (h : s1.target ≠ s2.target) :
    s1.set (s2.set a) = s2.set (s1.set a) := by
  cases s1 <;> cases s2 <;> simp [Setter.target] at h <;> rfl

/-- Every setting made before the first poll lands in the request: offsets in
`off` (`splice_off_in` for the splice input), flag words in the operation's flag
field, the statx mask and the fallocate mode in `len`, wait options in
`file_index`, zero-copy in the opcode, the descriptor kind in
`file_index`/close-on-exec. -/
theorem C13_builder_reflected (a : Args) (k : FdKind) (v : Nat) (ck : FdKind) :
    (fill .read ((Setter.offset v).set a) k).sqe.off = .num v ∧
    (fill .readv ((Setter.offset v).set a) k).sqe.off = .num v ∧
    (fill .write ((Setter.offset v).set a) k).sqe.off = .num v ∧
    (fill .writev ((Setter.offset v).set a) k).sqe.off = .num v ∧
    (fill .splice ((Setter.offIn v).set a) k).sqe.addr = .num v ∧
    (fill .splice ((Setter.offOut v).set a) k).sqe.off = .num v ∧
    (fill .splice ((Setter.flags v).set a) k).sqe.opFlags = v ∧
    (fill .recv ((Setter.flags v).set a) k).sqe.opFlags = v ∧
    (fill .recvp ((Setter.flags v).set a) k).sqe.opFlags = v ∧
    (fill .mrecv ((Setter.flags v).set a) k).sqe.opFlags = v ∧
    (fill .recvv ((Setter.flags v).set a) k).sqe.opFlags = v ∧
    (fill .recvfrom ((Setter.flags v).set a) k).sqe.opFlags = v ∧
    (fill .recvfromv ((Setter.flags v).set a) k).sqe.opFlags = v ∧
    (fill .send ((Setter.flags v).set a) k).sqe.opFlags = v ∧
    (fill .sendto ((Setter.flags v).set a) k).sqe.opFlags = v ∧
    (fill .sendmsg ((Setter.flags v).set a) k).sqe.opFlags = v ∧
    (fill .statx ((Setter.flags v).set a) k).sqe.len = v ∧
    (fill .fallocate ((Setter.flags v).set a) k).sqe.len = v ∧
    (fill .waitid ((Setter.flags v).set a) k).sqe.fileIndex = v ∧
    (fill .send (Setter.zc.set a) k).sqe.opcode = OP_SEND_ZC ∧
    (fill .sendto (Setter.zc.set a) k).sqe.opcode = OP_SEND_ZC ∧
    (fill .sendmsg (Setter.zc.set a) k).sqe.opcode = OP_SENDMSG_ZC ∧
    (fill .socket ((Setter.kind ck).set a) k).sqe.fileIndex = createIndex ck ∧
    (fill .socket ((Setter.kind ck).set a) k).sqe.off = .num (a.type ||| cloexec ck) ∧
    (fill .pipe ((Setter.kind ck).set a) k).sqe.fileIndex = createIndex ck ∧
    (fill .pipe ((Setter.kind ck).set a) k).sqe.opFlags = a.flags ||| cloexec ck ∧
    (fill .pipe ((Setter.flags v).set a) k).sqe.opFlags = v ||| cloexec a.ckind := by
  simp [fill, Setter.set]

/-! ### Result decoding -/

/-- `check_result` is the identity on the call's result: a non-negative
result is returned as is, a negative one is the error `-res`. -/
theorem C13_decode_check_result (res : Int) :
    (0 ≤ res → ∃ n : Nat, checkResult res = .ok n ∧ (n : Int) = res) ∧
    (res < 0 → checkResult res = .error (-res) ∧ 0 < -res) := by
  constructor
  · intro h
    exact ⟨res.toNat, by simp [checkResult, h], Int.toNat_of_nonneg h⟩
  · intro h
    have : ¬ (0 ≤ res) := by omega
    exact ⟨by simp [checkResult, this], by omega⟩

/-- Only `EINVAL` is translated (to `Unsupported`); every other errno is
returned unchanged. -/
theorem C13_decode_error (e : Int) (h : e ≠ 22) : fallbackErr e = .os e := by
  simp [fallbackErr, h]

theorem toI32_of_lt (n : Nat) (h : n < 2147483648) : toI32 n = n := by
  simp [toI32, h]

theorem or_pow31 (n : Nat) (h : n < 2147483648) : n ||| 2147483648 = n + 2147483648 := by
  have h' : n < 2 ^ 31 := by simpa using h
  have := Nat.two_pow_add_eq_or_of_lt h' 1
  simp at this
  rw [Nat.or_comm]; omega

/-- A descriptor returned by the kernel is stored and read back unchanged, with
its kind, for both kinds and every descriptor number. -/
theorem C13_decode_fd (n : Nat) (k : FdKind) (h : n < 2147483648) :
    fdOf (fromRaw n k) = n ∧ kindOf (fromRaw n k) = k := by
  cases k
  · have h0 : ¬ ((n : Int) < 0) := by omega
    simp only [fromRaw, toI32, h, if_true, fdOf, kindOf, h0, if_false, Int.toNat_natCast]
    exact ⟨Nat.mod_eq_of_lt h, trivial⟩
  · have ho := or_pow31 n h
    have h1 : ¬ (n + 2147483648 < 2147483648) := by omega
    have h2 : ((n + 2147483648 : Nat) : Int) - 4294967296 < 0 := by omega
    have h3 : (((n + 2147483648 : Nat) : Int) - 4294967296 + 4294967296).toNat = n + 2147483648 := by omega
    simp only [fromRaw, ho, toI32, fdOf, kindOf, h1, if_false, h2, if_true, h3]
    exact ⟨by omega, trivial⟩


/-- `Metadata::{accessed, modified, created}`: for every `statx_timestamp` the
kernel can report (any `i64` seconds, nanoseconds below 10^9) the accessor
returns exactly that instant — negative `tv_sec` (before 1970) included. -/
theorem C13_decode_timestamp (sec : Int) (nsec : Nat)
    (hlo : -9223372036854775808 ≤ sec) (hhi : sec ≤ 9223372036854775807) (hn : nsec < 1000000000) :
    timestamp sec nsec = some (sec * 1000000000 + nsec) := by
  unfold timestamp
  have hq : nsec / 1000000000 = 0 := Nat.div_eq_of_lt hn
  by_cases h : sec < 0
  · simp only [h, if_true]; congr 1; omega
  · have hq' : (nsec : Int) / 1000000000 = 0 := by omega
    have : ¬ (sec + (nsec : Int) / 1000000000 > 9223372036854775807) := by
      rw [hq']; omega
    simp only [h, if_false, this]

/-- The defect repaired by `fix: Metadata timestamps before the Unix epoch`:
casting `tv_sec` to `u64` before the sign test made every pre-1970 timestamp
overflow (panic). -/
theorem C13_decode_timestamp_before_fix_fails : timestampOld (-1) 0 = none ∧ timestamp (-1) 0 = some (-1000000000) := by
  decide

/-- `WaitInfo::status` equals what `wait(2)`/`std` report for the same child, for every `si_status`
the kernel can write (an `i32`) and each `si_code`: an exited child has `WIFEXITED` and its exit
code, a killed one `WIFSIGNALED` with the signal (and `WCOREDUMP` iff it dumped core), a stopped or
traced one `WIFSTOPPED` with the signal, a continued one `WIFCONTINUED`. (A signal number is in
1..=64, never 0 or 127.) -/
theorem C13_decode_wait_status (status : Int) (h : -2147483648 ≤ status ∧ status ≤ 2147483647) :
    (wifexited (waitStatus 1 status) = true ∧ wexitstatus (waitStatus 1 status) = status % 256) ∧
    ((1 ≤ status ∧ status ≤ 64) →
      wifsignaled (waitStatus 2 status) = true ∧ wtermsig (waitStatus 2 status) = status ∧
      wcoredump (waitStatus 2 status) = false ∧
      wifsignaled (waitStatus 3 status) = true ∧ wtermsig (waitStatus 3 status) = status ∧
      wcoredump (waitStatus 3 status) = true ∧
      wifstopped (waitStatus 5 status) = true ∧ wstopsig (waitStatus 5 status) = status ∧
      wifstopped (waitStatus 4 status) = true ∧ wstopsig (waitStatus 4 status) = status) ∧
    wifcontinued (waitStatus 6 status) = true := by
  obtain ⟨h1, h2⟩ := h
  refine ⟨?_, ?_, by simp [waitStatus, wifcontinued]⟩
  · simp only [waitStatus, wifexited, wexitstatus, if_true, decide_eq_true_eq]
    omega
  · intro ⟨a, b⟩
    simp only [waitStatus, wifsignaled, wtermsig, wcoredump, wifstopped, wstopsig]
    simp
    omega

/-- The repaired defect (`fix:` commit 52243a1): `si_status` handed to `ExitStatus::from_raw` as is
made a child that exited with code 3 look like one killed by signal 3. -/
theorem C13_decode_wait_status_before_fix_fails :
    wifexited (waitStatusOld 1 3) = false ∧ wtermsig (waitStatusOld 1 3) = 3 ∧
    wifexited (waitStatus 1 3) = true ∧ wexitstatus (waitStatus 1 3) = 3 := by
  decide

def sumLens (bufs : List (Nat × Nat)) : Nat := (bufs.map (·.2)).sum
def sumSpare (bufs : List (Nat × Nat)) : Nat := (bufs.map (fun b => b.1 - b.2)).sum

/-- Vectored reads (`BufMutSlice::set_init`): `n` bytes reported by the kernel
are accounted to the buffers in order, each filled to its capacity before the
next — as `readv(2)` fills them: the result has one length per buffer, no
buffer exceeds its capacity, and the lengths grow by exactly `n` in total. -/
theorem C13_decode_set_init (bufs : List (Nat × Nat)) (n : Nat) (l : List Nat)
    (hw : ∀ b ∈ bufs, b.2 ≤ b.1) (h : setInitV bufs n = some l) :
    l.length = bufs.length ∧ l.sum = sumLens bufs + n ∧
    (∀ i (hi : i < l.length) (hj : i < bufs.length), bufs[i].2 ≤ l[i] ∧ l[i] ≤ bufs[i].1) := by
  induction bufs generalizing n l with
  | nil => simp [setInitV] at h
  | cons b rest ih =>
    obtain ⟨cap, len⟩ := b
    have hb : len ≤ cap := hw (cap, len) (by simp)
    have hr : ∀ b ∈ rest, b.2 ≤ b.1 := fun b hb' => hw b (by simp [hb'])
    simp only [setInitV] at h
    by_cases hlt : cap - len < n
    · simp only [hlt, if_true] at h
      cases hrec : setInitV rest (n - (cap - len)) with
      | none => simp [hrec] at h
      | some r =>
        simp only [hrec, Option.map_some, Option.some.injEq] at h
        subst h
        obtain ⟨h1, h2, h3⟩ := ih (n - (cap - len)) r hr hrec
        refine ⟨by simp [h1], ?_, ?_⟩
        · simp only [List.sum_cons, sumLens, List.map_cons] at *
          omega
        · intro i hi hj
          cases i with
          | zero => simp; omega
          | succ j =>
            simp only [List.getElem_cons_succ]
            exact h3 j (by simpa using hi) (by simpa using hj)
    · simp only [hlt, if_false, Option.some.injEq] at h
      subst h
      refine ⟨by simp, ?_, ?_⟩
      · simp only [List.sum_cons, sumLens, List.map_cons]
        omega
      · intro i hi hj
        cases i with
        | zero => simp; omega
        | succ j =>
          have hj' : j < rest.length := by simpa using hj
          simp only [List.getElem_cons_succ, List.getElem_map]
          have := hr rest[j] (List.getElem_mem hj')
          exact ⟨Nat.le_refl _, this⟩

/-- It succeeds exactly when the byte count fits the spare capacity. -/
theorem C13_decode_set_init_total (bufs : List (Nat × Nat)) (n : Nat) (hne : bufs ≠ [])
    (hn : n ≤ sumSpare bufs) : ∃ l, setInitV bufs n = some l := by
  induction bufs generalizing n with
  | nil => exact absurd rfl hne
  | cons b rest ih =>
    obtain ⟨cap, len⟩ := b
    simp only [setInitV]
    by_cases hlt : cap - len < n
    · simp only [hlt, if_true]
      have hrest : rest ≠ [] := by
        intro e; subst e
        simp [sumSpare] at hn; omega
      have : n - (cap - len) ≤ sumSpare rest := by
        simp only [sumSpare, List.map_cons, List.sum_cons] at hn ⊢; omega
      obtain ⟨r, hr⟩ := ih (n - (cap - len)) hrest this
      exact ⟨(len + (cap - len)) :: r, by simp [hr]⟩
    · simp only [hlt, if_false]; exact ⟨_, rfl⟩

/-- File type and permission accessors look at exactly the `S_IFMT` bits and
the nine permission bits of `stx_mode`. -/
theorem C13_decode_mode_bits (mode : Nat) :
    fileTypeChar mode = fileTypeChar (mode &&& 61440) ∧ permString mode = permString (mode &&& 511) := by
  constructor
  · simp [fileTypeChar, Nat.and_assoc]
  · simp [permString, Nat.and_assoc]

/-- The `FileType` tests are mutually exclusive and each corresponds to its
`S_IF*` constant (stat(2)). -/
theorem C13_decode_file_type (mode : Nat) :
    (fileTypeChar mode = "d" ↔ mode &&& 61440 = 16384) ∧
    (fileTypeChar mode = "-" ↔ mode &&& 61440 = 32768) ∧
    (fileTypeChar mode = "l" ↔ mode &&& 61440 = 40960) ∧
    (fileTypeChar mode = "s" ↔ mode &&& 61440 = 49152) := by
  simp only [fileTypeChar]
  generalize mode &&& 61440 = t
  refine ⟨?_, ?_, ?_, ?_⟩ <;> (constructor <;> intro h) <;> (repeat' split at h) <;> simp_all



theorem le32At_le32 (v : Nat) (h : v < 4294967296) (rest : List Nat) :
    le32At (Addr.le32 v ++ rest) 0 = v := by
  simp [le32At, Addr.rd32le, Addr.le32]
  omega

/-- Socket options: a `u32` value written by `setsockopt` storage encoding is
read back by the `getsockopt` decoder as the same number; a boolean as its
truth value; `Linger` as `Some(seconds)`/`None`. -/
theorem C13_decode_sockopt_roundtrip (v : Nat) (h : v < 4294967296) :
    decodeOpt .u32 (encodeOpt .u32 (some v)) 4 = some (toString v) ∧
    decodeOpt .bool (encodeOpt .bool (some v)) 4 = some (if v = 0 then "false" else "true") ∧
    decodeOpt .linger (encodeOpt .linger (some v)) 8 = some s!"some:{v}" ∧
    decodeOpt .linger (encodeOpt .linger none) 8 = some "none" := by
  have h0 := le32At_le32 v h []
  simp only [List.append_nil] at h0
  refine ⟨?_, ?_, ?_, ?_⟩
  · simp [decodeOpt, encodeOpt, OptTy.size, h0]
  · by_cases hv : v = 0
    · subst hv; decide
    · have h1 : le32At (Addr.le32 1) 0 = 1 := by decide
      simp [decodeOpt, encodeOpt, OptTy.size, hv, h1, toI32]
  · have h1 : le32At (Addr.le32 1 ++ Addr.le32 v) 0 = 1 := by
      simp [le32At, Addr.rd32le, Addr.le32]
    have h4 : le32At (Addr.le32 1 ++ Addr.le32 v) 4 = v := by
      simp [le32At, Addr.rd32le, Addr.le32]; omega
    simp [decodeOpt, encodeOpt, OptTy.size, h1, h4, toI32]
  · decide

/-- The length assertion of every option decoder: a result length other than
the storage size is a panic, never a wrong value. -/
theorem C13_decode_sockopt_length (t : OptTy) (bs : List Nat) (n : Nat) (h : n ≠ t.size) :
    decodeOpt t bs n = none := by
  simp [decodeOpt, h]

/-! Address out-parameters (accept, getsockname/getpeername, recvmsg): the
decoder is C16's `init*`; with the length the kernel reports the address reads
back, whatever junk the rest of the storage holds. -/

theorem C13_decode_address_ip (ip : List Nat) (port flow scope : Nat) :
    (Addr.WF (.v4 ip port) →
      decodeAddr .v4 (.v4 ip port) 16 = some (Addr.showAddr (.v4 ip port)) ∧
      decodeAddr .any (.v4 ip port) 16 = some (Addr.showAddr (.v4 ip port))) ∧
    (Addr.WF (.v6 ip port flow scope) →
      decodeAddr .v6 (.v6 ip port flow scope) 28 = some (Addr.showAddr (.v6 ip port flow scope)) ∧
      decodeAddr .any (.v6 ip port flow scope) 28 = some (Addr.showAddr (.v6 ip port flow scope))) := by
  constructor
  · intro h
    have hr := Addr.C16_roundtrip_v4 ip port h
    have hl := storageV4_length ip port h.1
    have ht : (Addr.storageV4 ip port).take 16 = Addr.storageV4 ip port := by
      rw [← hl, List.take_length]
    have hf : Addr.rd16le (Addr.storageV4 ip port) 0 = 2 := by
      simp [Addr.storageV4, Addr.le16, Addr.rd16le, Addr.AF_INET]
    constructor
    · simp [decodeAddr, kernelBytes, mutLen, ht, hf, hr, Addr.AF_INET]
    · have ht' : ∀ L : List Nat, (Addr.storageV4 ip port ++ L).take 16 = Addr.storageV4 ip port := by
        intro L; rw [← hl, List.take_left]
      have hf' : ∀ L : List Nat, Addr.rd16le (Addr.storageV4 ip port ++ L) 0 = 2 := by
        intro L; simp [Addr.storageV4, Addr.le16, Addr.rd16le, Addr.AF_INET]
      simp [decodeAddr, kernelBytes, mutLen, ht, hf', ht', hr, Addr.AF_INET]
  · intro h
    have hr := Addr.C16_roundtrip_v6 ip port flow scope h
    have hl := storageV6_length ip port flow scope h.1
    have ht : (Addr.storageV6 ip port flow scope).take 28 = Addr.storageV6 ip port flow scope := by
      rw [← hl, List.take_length]
    have hf : Addr.rd16le (Addr.storageV6 ip port flow scope) 0 = 10 := by
      simp [Addr.storageV6, Addr.le16, Addr.rd16le, Addr.AF_INET6]
    constructor <;> simp [decodeAddr, kernelBytes, mutLen, ht, hf, hr, Addr.AF_INET, Addr.AF_INET6]

theorem C13_decode_address_unix (a : Addr) (h : Addr.WF a)
    (hu : match a with | .path _ | .abstr _ | .unnamed => True | _ => False) :
    ∀ klen ∈ Addr.kernelLens a, decodeAddr .unix a klen = some (Addr.showAddr a) := by
  intro klen hk
  by_cases hk0 : klen < 2
  · -- only the unnamed address is reported with a length below the family field (0)
    cases a <;> simp at hu <;> simp [Addr.kernelLens] at hk
    · obtain ⟨h1, h2, _⟩ := h; rcases hk with rfl | rfl <;> omega
    · omega
    · simp [decodeAddr, hk0, Addr.initUnix]
  have hlen : (Addr.storageUnix a).length = 110 := by
    cases a <;> simp at hu
    · exact (Addr.C16_ptr_len (.path _) h).1
    · exact (Addr.C16_ptr_len (.abstr _) h).1
    · exact (Addr.C16_ptr_len .unnamed h).1
  have hk2 : 2 ≤ klen ∧ klen ≤ 110 := by
    cases a <;> simp at hu <;> simp [Addr.kernelLens] at hk
    · obtain ⟨h1, h2, _⟩ := h; rcases hk with rfl | rfl <;> omega
    · have : _ ≤ 107 := h; omega
    · omega
  have hinit : Addr.initUnix ((Addr.storageUnix a).take klen ++ List.replicate (110 - klen) 170) klen = a := by
    rw [Addr.C16_unix_init_ignores_tail _ _ _ (by omega)]
    cases a <;> simp at hu
    · exact Addr.C16_roundtrip_unix_path _ h klen hk
    · exact Addr.C16_roundtrip_unix_abstract _ h klen hk
    · exact Addr.C16_roundtrip_unix_unnamed klen hk
  have hfam : Addr.rd16le ((Addr.storageUnix a).take klen ++ List.replicate (110 - klen) 170) 0 = 1 := by
    have : (Addr.storageUnix a).take klen = 1 :: 0 :: ((Addr.storageUnix a).drop 2).take (klen - 2) := by
      obtain ⟨m, rfl⟩ : ∃ m, klen = m + 2 := ⟨klen - 2, by omega⟩
      cases a <;> simp at hu <;> simp [Addr.storageUnix, Addr.le16, Addr.AF_UNIX]
    rw [this]; simp [Addr.rd16le]
  have hnot : ¬ (klen < 2) := by omega
  have hfam' : ¬ (Addr.rd16le ((Addr.storageUnix a).take klen ++ List.replicate (110 - klen) 170) 0
      ≠ Addr.AF_UNIX) := by simp [hfam, Addr.AF_UNIX]
  cases a <;> simp at hu <;>
    simp only [decodeAddr, kernelBytes, mutLen, if_neg hnot, if_neg hfam', hinit]

/-! ### `OpenOptions` -/


theorem or_mod4 (x m : Nat) (hm : m % 4 = 0) : (x ||| m) % 4 = x % 4 := by
  have := @Nat.or_mod_two_pow x m 2
  simp at this
  rw [this, hm]; simp

theorem or_testBit_mono (x c i : Nat) (h : x.testBit i = true) : (x ||| c).testBit i = true := by
  simp [Nat.testBit_or, h]

theorem or_and_self' (x c : Nat) : (x ||| c) &&& c = c := by
  apply Nat.eq_of_testBit_eq
  intro i
  simp [Nat.testBit_and, Nat.testBit_or]
  cases x.testBit i <;> cases c.testBit i <;> simp

/-- The setters that only add flags. -/
def OpenSetter.orFlag : OpenSetter → Option Nat
  | .append => some O_APPEND
  | .truncate => some O_TRUNC
  | .create => some O_CREAT
  | .createNew => some (O_CREAT ||| O_EXCL)
  | .dataSync => some O_DSYNC
  | .sync => some O_SYNC
  | .direct => some O_DIRECT
  | _ => none

/-- `OpenOptions` access mode algebra: `write_only` gives `O_WRONLY`; `write`
upgrades read-only to read-write and keeps a write mode; `read` upgrades
write-only to read-write and keeps a read mode; the access mode is always one
of the three valid values. -/
theorem C13_open_options_access_mode (o : OpenOptions) (h : o.flags % 4 < 3) :
    ((OpenSetter.writeOnly).set o).flags % 4 = O_WRONLY ∧
    ((OpenSetter.write).set o).flags % 4 = (if o.flags % 4 = 0 then O_RDWR else o.flags % 4) ∧
    ((OpenSetter.read).set o).flags % 4 = (if o.flags % 4 = O_WRONLY then O_RDWR else o.flags % 4) ∧
    (∀ s : OpenSetter, (s.set o).flags % 4 < 3) := by
  refine ⟨?_, ?_, ?_, ?_⟩
  · simp only [OpenSetter.set, setAccMode, O_WRONLY]; omega
  · simp only [OpenSetter.set, setAccMode, O_RDWR]
    by_cases hc : o.flags % 4 = 0 <;> simp [hc] <;> omega
  · simp only [OpenSetter.set, setAccMode, O_RDWR, O_WRONLY]
    by_cases hc : o.flags % 4 = 1 <;> simp [hc] <;> omega
  · intro s
    cases s <;> simp only [OpenSetter.set, setAccMode, O_RDWR, O_WRONLY]
    case read => by_cases hc : o.flags % 4 = 1 <;> simp [hc] <;> omega
    case write => by_cases hc : o.flags % 4 = 0 <;> simp [hc] <;> omega
    case writeOnly => omega
    case append => rw [or_mod4 _ _ (by decide)]; exact h
    case truncate => rw [or_mod4 _ _ (by decide)]; exact h
    case create => rw [or_mod4 _ _ (by decide)]; exact h
    case createNew => rw [or_mod4 _ _ (by decide)]; exact h
    case dataSync => rw [or_mod4 _ _ (by decide)]; exact h
    case sync => rw [or_mod4 _ _ (by decide)]; exact h
    case direct => rw [or_mod4 _ _ (by decide)]; exact h
    case mode => exact h
    case kind => exact h

/-- Changing the access mode touches only the two access-mode bits: every
other flag set before is still set (`flags / 4` is unchanged). -/
theorem C13_open_options_access_keeps_flags (o : OpenOptions) (s : OpenSetter)
    (hs : s = .read ∨ s = .write ∨ s = .writeOnly) : (s.set o).flags / 4 = o.flags / 4 := by
  rcases hs with rfl | rfl | rfl <;> simp only [OpenSetter.set, setAccMode, O_RDWR, O_WRONLY]
  · by_cases hc : o.flags % 4 = 1 <;> simp [hc] <;> omega
  · by_cases hc : o.flags % 4 = 0 <;> simp [hc] <;> omega
  · omega

/-- Every flag-adding setter sets exactly its flag(s), keeps the access mode
and never drops a flag set earlier. -/
theorem C13_open_options_flag_set (o : OpenOptions) (s : OpenSetter) (c : Nat)
    (hc : s.orFlag = some c) :
    (s.set o).flags = o.flags ||| c ∧ (s.set o).flags &&& c = c ∧ (s.set o).flags % 4 = o.flags % 4 ∧
    (∀ i, o.flags.testBit i = true → (s.set o).flags.testBit i = true) := by
  have key : (s.set o).flags = o.flags ||| c ∧ c % 4 = 0 := by
    cases s <;> simp [OpenSetter.orFlag] at hc <;> subst hc <;> simp [OpenSetter.set] <;> decide
  obtain ⟨hk, hm⟩ := key
  rw [hk]
  exact ⟨rfl, or_and_self' _ _, or_mod4 _ _ hm, fun i hi => or_testBit_mono _ _ _ hi⟩

/-- `open`: a regular descriptor is opened close-on-exec, a direct descriptor
is not (the kernel rejects `O_CLOEXEC` with a file slot) and goes to a freshly
allocated slot; nothing else is added to the caller's flags and the mode is
passed as set; `open_temp_file` adds `O_TMPFILE`. -/
theorem C13_open_options_open (o : OpenOptions) (path : List Nat) :
    (o.openArgs false path).flags = o.flags ||| cloexec o.kind ∧
    (o.openArgs true path).flags = (o.flags ||| O_TMPFILE) ||| cloexec o.kind ∧
    (o.openArgs false path).mode = o.mode ∧ (o.openArgs false path).ckind = o.kind ∧
    (o.kind = .file → (o.openArgs false path).flags &&& O_CLOEXEC = O_CLOEXEC) ∧
    (o.kind = .direct → (o.openArgs false path).flags = o.flags ∧
      (fill .openat (o.openArgs false path) .file).sqe.fileIndex = ALLOC) := by
  refine ⟨by simp [OpenOptions.openArgs], by simp [OpenOptions.openArgs], rfl, rfl, ?_, ?_⟩
  · intro hk; simp [OpenOptions.openArgs, hk, cloexec, or_and_self']
  · intro hk; simp [OpenOptions.openArgs, hk, cloexec, fill, createIndex]


/-! ### Synchronous fallbacks

Some operations answer a completion error that means "this kernel has no
io_uring form of the call" by issuing the synchronous system call themselves
(`fallbackCall`). A system call takes a *regular* descriptor number; issued for
an operation on a direct descriptor it would act on whatever regular descriptor
happens to have the number of the direct index. -/

/-- The operation's target is a direct descriptor (operations that run on the
submission queue — open, socket, pipe, … — have no target descriptor). -/
def DirectTarget (op : OpKind) (k : FdKind) : Prop := op.onQueue = false ∧ k = .direct

instance (op : OpKind) (k : FdKind) : Decidable (DirectTarget op k) := by
  unfold DirectTarget; infer_instance

/-- **When a system call is issued**, for all operations, arguments, descriptor
kinds and errors: exactly when the error is the special one of that operation
and the target is not a direct descriptor. -/
theorem C13_fallback_iff (op : OpKind) (a : Args) (k : FdKind) (e : Int) :
    (fallbackCall op a k e).isSome = true ↔ (specialErr op e = true ∧ ¬ DirectTarget op k) := by
  cases op <;> cases k <;>
    simp [fallbackCall, specialErr, DirectTarget, OpKind.onQueue] <;>
    (try (split <;> simp_all))

/-- No operation on a direct descriptor ever issues a system call, whatever
the error. -/
theorem C13_fallback_never_on_direct (op : OpKind) (a : Args) (k : FdKind) (e : Int)
    (h : DirectTarget op k) : fallbackCall op a k e = none := by
  obtain ⟨hq, hk⟩ := h
  subst hk
  cases op <;> simp [fallbackCall, OpKind.onQueue] at hq ⊢

/-- On a direct descriptor the caller gets the operation's ordinary error
result, for every operation and error, whatever a system call would have
returned … -/
theorem C13_fallback_direct_result (op : OpKind) (a : Args) (k : FdKind) (e sys : Int)
    (h : DirectTarget op k) : fallbackResult op a k e sys = .err (opErr op e) := by
  simp [fallbackResult, C13_fallback_never_on_direct op a k e h]

/-- … which for the errors that have a fallback is **exactly the kernel's
error**, untranslated. -/
theorem C13_fallback_direct_error (op : OpKind) (a : Args) (k : FdKind) (e sys : Int)
    (h : DirectTarget op k) (hs : specialErr op e = true) :
    fallbackResult op a k e sys = .err (.os e) := by
  rw [C13_fallback_direct_result op a k e sys h]
  cases op <;> simp [specialErr] at hs <;> simp [opErr]

/-- Without a fallback call the result is the ordinary error; with one it is
the system call's own outcome: its errno unchanged, or its out-parameters
through the decoder of the io_uring completion. -/
theorem C13_fallback_result (op : OpKind) (a : Args) (k : FdKind) (e sys : Int) :
    (fallbackCall op a k e = none → fallbackResult op a k e sys = .err (opErr op e)) ∧
    (∀ c, fallbackCall op a k e = some c →
      (sys < 0 → fallbackResult op a k e sys = .sysErr (-sys)) ∧
      (0 ≤ sys → fallbackResult op a k e sys = .decoded)) := by
  constructor
  · intro h; simp [fallbackResult, h]
  · intro c h
    constructor
    · intro hs; simp [fallbackResult, h, hs]
    · intro hs
      have : ¬ sys < 0 := by omega
      simp [fallbackResult, h, this]

/-- **The call is on the target's own descriptor**: a fallback of a descriptor
operation passes the number of the `AsyncFd` it was called on, that descriptor
is a regular one, and it is the descriptor the io_uring request named (same
number, not flagged as a registered file). -/
theorem C13_fallback_own_descriptor (op : OpKind) (a : Args) (k : FdKind) (e : Int) (c : SysCall)
    (h : fallbackCall op a k e = some c) (hq : op.onQueue = false) :
    c.fd = some a.fd ∧ k = .file ∧ (fill op a k).sqe.fd = (a.fd : Int) ∧
    (fill op a k).sqe.flags &&& IOSQE_FIXED_FILE = 0 := by
  cases op <;> simp [OpKind.onQueue] at hq <;> simp [fallbackCall] at h <;>
    obtain ⟨⟨_, hk⟩, hc⟩ := h <;> subst hk <;> subst hc <;>
    simp [fill, useFlags]

/-- **Same arguments as the request**: which of getsockname/getpeername, the
address buffer length, option level, name, length and value bytes, and the pipe
flags are those the io_uring request carried (field by field of the entry and
the memory it points to). `pipe2` additionally gets `O_CLOEXEC`: it creates
regular descriptors, which a10 always creates close-on-exec. -/
theorem C13_fallback_request_args (op : OpKind) (a : Args) (k : FdKind) (e : Int) (c : SysCall)
    (hwf : WF op a k) (h : fallbackCall op a k e = some c) :
    (op = .sockname →
      c.name = (if (fill op a k).sqe.fileIndex = 0 then "getsockname" else "getpeername") ∧
      (fill op a k).mem.alen = some c.len) ∧
    (op = .getsockopt →
      c.name = "getsockopt" ∧ c.level = numOf (fill op a k).sqe.addr % U32 ∧
      c.optname = numOf (fill op a k).sqe.addr / U32 ∧ c.len = (fill op a k).sqe.fileIndex) ∧
    (op = .setsockopt →
      c.name = "setsockopt" ∧ c.level = numOf (fill op a k).sqe.addr % U32 ∧
      c.optname = numOf (fill op a k).sqe.addr / U32 ∧ c.len = (fill op a k).sqe.fileIndex ∧
      (fill op a k).mem.optval = some c.val ∧ c.len = c.val.length) ∧
    (op = .pipe → c.name = "pipe2" ∧ c.flags = (fill op a k).sqe.opFlags ||| O_CLOEXEC) := by
  obtain ⟨_, hw⟩ := hwf
  refine ⟨?_, ?_, ?_, ?_⟩ <;> intro hop <;> subst hop <;> simp [fallbackCall] at h <;>
    obtain ⟨_, hc⟩ := h <;> subst hc
  · by_cases hz : a.which = 0 <;> simp [fill, hz]
  · have hl : a.level < 4294967296 := hw
    simp [fill, numOf, U32]
    exact ⟨(Nat.mod_eq_of_lt hl).symm, by omega⟩
  · obtain ⟨hl, hv⟩ := hw
    have hl : a.level < 4294967296 := hl
    simp [fill, numOf, U32]
    exact ⟨(Nat.mod_eq_of_lt hl).symm, by omega, hv⟩
  · cases hck : a.ckind <;> simp [fill, cloexec, hck, Nat.or_assoc]

/-- The same, one level up: the call issued is the POSIX call the API stands
for (`posix`), on the same regular descriptor with the same arguments. With
`C13_encode_partial` (request = POSIX call under the ABI) the synchronous call
and the io_uring request are the same call. -/
theorem C13_fallback_is_posix_call (op : OpKind) (a : Args) (k : FdKind) (e : Int) (c : SysCall)
    (h : fallbackCall op a k e = some c) (hq : op.onQueue = false) :
    (posix op a k).name = c.name ∧
    (posix op a k).args.lookup "fd" = some (.i a.fd) ∧ c.fd = some a.fd ∧
    (posix op a k).args.lookup "fixed" = some (.n 0) ∧
    (op = .sockname → (posix op a k).args.lookup "addrlen" = some (.n c.len)) ∧
    (op ≠ .sockname →
      (posix op a k).args.lookup "level" = some (.n c.level) ∧
      (posix op a k).args.lookup "optname" = some (.n c.optname) ∧
      (posix op a k).args.lookup "optlen" = some (.n c.len)) ∧
    (op = .setsockopt → (posix op a k).args.lookup "optval" = some (.bytes c.val)) := by
  cases op <;> simp [OpKind.onQueue] at hq <;> simp [fallbackCall] at h <;>
    obtain ⟨⟨_, hk⟩, hc⟩ := h <;> subst hk <;> subst hc <;>
    simp [posix, pfd, List.lookup]

/-- The code before `fix: don't fall back to system calls on direct
descriptors` (40c45eb): the three descriptor operations tested only the error. -/
def fallbackCallOld (op : OpKind) (a : Args) (k : FdKind) (e : Int) : Option SysCall :=
  match op with
  | .sockname | .getsockopt | .setsockopt => fallbackCall op a .file e
  | _ => fallbackCall op a k e

/-- The repaired defect: `peer_addr()` on direct descriptor 0, completed with
`EOPNOTSUPP`, issued `getpeername(0, …)` — on the process's regular descriptor
0 — where the repaired code issues nothing and returns the error. -/
theorem C13_fallback_before_fix_fails :
    DirectTarget .sockname .direct ∧
    fallbackCallOld .sockname { fd := 0, which := 1, aty := .v4 } .direct 95
      = some { name := "getpeername", fd := some 0, len := 16 } ∧
    fallbackCall .sockname { fd := 0, which := 1, aty := .v4 } .direct 95 = none ∧
    fallbackResult .sockname { fd := 0, which := 1, aty := .v4 } .direct 95 0 = .err (.os 95) := by
  decide

/-! ### Non-vacuity: concrete arguments meet the hypotheses -/

example : WF .read { fd := 700, offset := 4294967296 + 5, bufPtr := 10, bufLen := 54 } .file := by simp [WF]
example : abi .read (fill .read { fd := 700, offset := 4294967296 + 5, bufPtr := 10, bufLen := 54 } .direct)
    = some (posix .read { fd := 700, offset := 4294967296 + 5, bufPtr := 10, bufLen := 54 } .direct) := by decide
example : WF .accept { fd := 5, aty := .v4 } .direct ∧ Supported .accept { fd := 5, aty := .v4 } .direct := by
  simp [WF, Supported, O_CLOEXEC]
example : (fill .accept { fd := 5, aty := .v4 } .direct).sqe.fileIndex = ALLOC ∧
    (fill .accept { fd := 5, aty := .v4 } .file).sqe.opFlags = O_CLOEXEC := by decide
example : WF .bind { fd := 700, aty := .unix, addr := .path [47, 116, 109, 112] } .file ∧
    Supported .bind { fd := 700, aty := .unix, addr := .path [47, 116, 109, 112] } .file := by
  simp [WF, Supported, AddrWF, Addr.WF]
example : WF .splice { fd := 5, target := 700, dirTo := false, flags := 5 } .direct ∧
    Supported .splice { fd := 5, target := 700, dirTo := false, flags := 5 } .direct := by
  simp [WF, Supported]
example : setInitV [(4, 1), (8, 0), (3, 3)] 5 = some [4, 2, 3] := by decide
example : timestamp (-9223372036854775808) 999999999 = some (-9223372036854775807000000001) := by decide
example : ((OpenSetter.write).set ((OpenSetter.create).set {})).flags = O_RDWR ||| O_CREAT := by decide
example : decodeAddr .unix (.path [47, 116, 109, 112]) 7 = some "path:2f746d70" := by decide

-- fallbacks: the special error on a regular descriptor issues the call …
example : fallbackCall .getsockopt { fd := 700, level := 6, optname := 1, optlen := 4 } .file 38
    = some { name := "getsockopt", fd := some 700, level := 6, optname := 1, len := 4 } := by decide
def lingerArgs : Args := { fd := 700, level := 1, optname := 13, optlen := 8, optval := encodeOpt .linger (some 7) }
example : (fallbackCall .setsockopt lingerArgs .file 95).map (·.val) = some [1, 0, 0, 0, 7, 0, 0, 0] := by decide
example : WF .setsockopt lingerArgs .file := by simp [WF, U32, lingerArgs, encodeOpt, Addr.le32]
-- … the same error on a direct descriptor, or another error on a regular one, does not
example : DirectTarget .getsockopt .direct ∧ specialErr .getsockopt 38 = true ∧
    fallbackCall .getsockopt { fd := 5, level := 6, optname := 1, optlen := 4 } .direct 38 = none := by decide
example : fallbackCall .sockname { fd := 700, aty := .unix } .file 22 = none ∧
    fallbackResult .sockname { fd := 700, aty := .unix } .file 22 0 = .err (.os 22) := by decide
-- the system call's own error is returned as it is (EINVAL is not translated)
example : fallbackResult .sockname { fd := 700, aty := .unix } .file 95 (-22) = .sysErr 22 := by decide
-- pipe: no target descriptor, the fallback does not depend on any kind; regular descriptors come back
example : ¬ DirectTarget .pipe .direct ∧
    fallbackCall .pipe { flags := 16384, ckind := .direct } .direct 22 = some { name := "pipe2", flags := 540672 } ∧
    (fallbackDecodeArgs .pipe { flags := 16384, ckind := .direct } 0).1.ckind = .file := by decide

end A10.Encode
