/-
C04 — Submission queue integrity under concurrent submitters and index wrap-around.

Statement (properties.jsonl): every submission accepted from any thread sharing
a SubmissionQueue reaches the kernel exactly once and unmodified: a slot is
never overwritten before the kernel has consumed it, the kernel never sees a
partially written entry, and when the queue is full the operation waits instead
of overrunning. This holds for every ring size, any number of submitters and
every value of the ring's 32-bit head/tail counters, including after they wrap
around.

Model: `A10Verif/Model/SqRing.lean` (micro-step transcription of
`Submissions::add`, src/io_uring/sq.rs:25-80, and `unsubmitted_submissions`,
src/io_uring/mod.rs:250-257, tied to the code by the `sq` correspondence
component). Quantification: every `len = 2^k`, `k ≤ 31` (`WfLen`), every
initial absolute counter `h0 : Nat` (the shared words are `h0 % 2^32`, so every
32-bit value and every number of earlier wrap-arounds), every number of
threads `n`, every list of moves `mvs` (every interleaving of submitter
micro-steps, kernel consumption and new `add` calls).

The proof is the inductive invariant `Inv` of `Lemmas/SqRing.lean`.
-/
import A10Verif.Lemmas.SqRing

namespace A10.SqRing

open A10

/-! ### The system's moves -/

inductive Mv where
  /-- one micro-step of submitter `i` -/
  | thr (i : Nat)
  /-- the kernel consumes one entry (if one is published) -/
  | kernel
  /-- thread `i` starts a new call of `add` submitting `entry` (if its previous call returned) -/
  | again (i : Nat) (entry : Nat)
  /-- the call of thread `i` is left by a panic of user code while the submission is filled -/
  | abort (i : Nat)
  deriving Repr, DecidableEq

def stepMv (s : St) : Mv → St
  | .thr i => (stepThr s i).1
  | .kernel => (stepKernel s).1
  | .again i e => (restart s i e).1
  | .abort i => abortThr s i

/-- Apply the moves in order. -/
def runMv (s : St) : List Mv → St
  | [] => s
  | m :: ms => runMv (stepMv s m) ms

theorem runMv_append (s : St) (a b : List Mv) : runMv s (a ++ b) = runMv (runMv s a) b := by
  induction a generalizing s with
  | nil => rfl
  | cons m ms ih => exact ih _

theorem inv_stepMv {h0 : Nat} {s : St} (h : Inv h0 s) (m : Mv) : Inv h0 (stepMv s m) := by
  cases m with
  | thr i => exact inv_stepThr h i
  | kernel => exact inv_stepKernel h
  | again i e => exact inv_restart h i e
  | abort i => exact inv_abortThr h i

theorem inv_runMv {h0 : Nat} {s : St} (h : Inv h0 s) (mvs : List Mv) : Inv h0 (runMv s mvs) := by
  induction mvs generalizing s with
  | nil => exact h
  | cons m ms ih => exact ih (inv_stepMv h m)

/-- The invariant holds in every reachable state. -/
theorem C04_invariant (len h0 n : Nat) (hw : WfLen len) (mvs : List Mv) :
    Inv h0 (runMv (init len h0 n) mvs) :=
  inv_runMv (inv_init len h0 n hw) mvs

/-! ### Frame facts about single steps (no invariant needed) -/

/-- The pc a thread has after its own micro-step. -/
def nextPc (s : St) (t : Thr) : Pc :=
  match t.pc with
  | .a1 => .a2 (head32 s)
  | .a2 h => if wsub (tail32 s) h ≥ s.len then .full else .a3
  | .a3 => match s.lock with | none => .a4 | some _ => .a3
  | .a4 => .a5 (head32 s)
  | .a5 h => if wsub (tail32 s) h ≥ s.len then .full else .w1 (tail32 s)
  | .w1 tl => .w2 tl
  | .w2 tl => .a6 tl
  | .a6 _ => .ok
  | .ok => .ok
  | .full => .full

theorem set_self {l : List Thr} {i : Nat} {t : Thr} (h : l[i]? = some t) : l.set i t = l := by
  apply List.ext_getElem?
  intro k
  rw [get_set_thr h]
  split
  · rename_i e; rw [e, h]
  · rfl

theorem stepThr_thr {s : St} {i : Nat} {t : Thr} (h : s.thr[i]? = some t) :
    (stepThr s i).1.thr = s.thr.set i { t with pc := nextPc s t } := by
  unfold stepThr nextPc
  rw [h]
  simp only
  cases hpc : t.pc <;> simp only [setThr]
  case a2 hd => split <;> rfl
  case a3 =>
    cases s.lock <;> simp only
    rw [← hpc]; exact (set_self h).symm
  case a5 hd => split <;> rfl
  case ok => rw [← hpc]; exact (set_self h).symm
  case full => rw [← hpc]; exact (set_self h).symm

theorem stepThr_none {s : St} {i : Nat} (h : s.thr[i]? = none) : (stepThr s i).1 = s := by
  unfold stepThr; rw [h]

theorem stepThr_len (s : St) (i : Nat) : (stepThr s i).1.len = s.len := by
  unfold stepThr
  cases s.thr[i]? with
  | none => rfl
  | some t =>
    simp only
    cases t.pc <;> simp only [setThr] <;> (try split) <;> rfl

theorem stepThr_H (s : St) (i : Nat) : (stepThr s i).1.H = s.H := by
  unfold stepThr
  cases s.thr[i]? with
  | none => rfl
  | some t =>
    simp only
    cases t.pc <;> simp only [setThr] <;> (try split) <;> rfl

theorem stepThr_consumed (s : St) (i : Nat) : (stepThr s i).1.consumed = s.consumed := by
  unfold stepThr
  cases s.thr[i]? with
  | none => rfl
  | some t =>
    simp only
    cases t.pc <;> simp only [setThr] <;> (try split) <;> rfl

/-- The tail and the published list change only in the `a6` step, by exactly one entry. -/
theorem stepThr_T_accepted {s : St} {i : Nat} {t : Thr} (h : s.thr[i]? = some t) :
    ((stepThr s i).1.T, (stepThr s i).1.accepted) =
      match t.pc with
      | .a6 _ => (s.T + 1, s.accepted ++ [t.entry])
      | _ => (s.T, s.accepted) := by
  unfold stepThr
  rw [h]
  simp only
  cases t.pc <;> simp only [setThr] <;> (try split) <;> rfl

/-- The slots change only in the `w1`/`w2` steps, at index `tl % len`. -/
theorem stepThr_slots {s : St} {i : Nat} {t : Thr} (h : s.thr[i]? = some t) :
    (stepThr s i).1.slots =
      match t.pc with
      | .w1 tl => s.slots.set (tl % s.len) none
      | .w2 tl => s.slots.set (tl % s.len) (some t.entry)
      | _ => s.slots := by
  unfold stepThr
  rw [h]
  simp only
  cases t.pc <;> simp only [setThr] <;> (try split) <;> rfl

theorem stepKernel_thr (s : St) : (stepKernel s).1.thr = s.thr := by
  unfold stepKernel; split <;> rfl

theorem stepKernel_slots (s : St) : (stepKernel s).1.slots = s.slots := by
  unfold stepKernel; split <;> rfl

theorem stepKernel_T (s : St) : (stepKernel s).1.T = s.T := by
  unfold stepKernel; split <;> rfl

theorem stepKernel_accepted (s : St) : (stepKernel s).1.accepted = s.accepted := by
  unfold stepKernel; split <;> rfl

theorem restart_slots (s : St) (i e : Nat) : (restart s i e).1.slots = s.slots := by
  unfold restart
  cases s.thr[i]? with
  | none => rfl
  | some t => simp only; split <;> rfl

theorem restart_T (s : St) (i e : Nat) : (restart s i e).1.T = s.T := by
  unfold restart
  cases s.thr[i]? with
  | none => rfl
  | some t => simp only; split <;> rfl

theorem restart_accepted (s : St) (i e : Nat) : (restart s i e).1.accepted = s.accepted := by
  unfold restart
  cases s.thr[i]? with
  | none => rfl
  | some t => simp only; split <;> rfl

theorem restart_thr {s : St} {i : Nat} {t : Thr} (h : s.thr[i]? = some t) (e : Nat) :
    (restart s i e).1.thr =
      if t.pc = .ok ∨ t.pc = .full then
        s.thr.set i { pc := startPc (isCancel s.nc e), entry := e } else s.thr := by
  unfold restart
  rw [h]
  simp only
  split <;> rfl

theorem restart_none {s : St} {i : Nat} (h : s.thr[i]? = none) (e : Nat) :
    (restart s i e).1 = s := by
  unfold restart; rw [h]

/-- What an aborted call changes: at most the pc of its thread (to `full`) and the lock. -/
theorem abortThr_frame (s : St) (i : Nat) :
    (abortThr s i).slots = s.slots ∧ (abortThr s i).T = s.T ∧ (abortThr s i).H = s.H ∧
    (abortThr s i).accepted = s.accepted ∧ (abortThr s i).consumed = s.consumed ∧
    (abortThr s i).len = s.len := by
  unfold abortThr
  cases s.thr[i]? with
  | none => exact ⟨rfl, rfl, rfl, rfl, rfl, rfl⟩
  | some t => simp only; split <;> exact ⟨rfl, rfl, rfl, rfl, rfl, rfl⟩

theorem abortThr_w2 {s : St} {i : Nat} {t : Thr} {tl : Nat} (h : s.thr[i]? = some t)
    (hpc : t.pc = .w2 tl) :
    abortThr s i = { setThr s i { t with pc := .full } with lock := none } := by
  unfold abortThr
  rw [h]
  simp only [hpc]

theorem abortThr_other {s : St} {i : Nat} {t : Thr} (h : s.thr[i]? = some t)
    (hpc : ∀ tl, t.pc ≠ .w2 tl) : abortThr s i = s := by
  unfold abortThr
  rw [h]
  cases hp : t.pc with
  | w2 tl => exact absurd hp (hpc tl)
  | _ => simp only [hp]

theorem abortThr_none {s : St} {i : Nat} (h : s.thr[i]? = none) : abortThr s i = s := by
  unfold abortThr; rw [h]

/-! ### C04: the property theorems -/

/-- Never overrun: the published, unconsumed window has at most `len` entries. -/
theorem C04_bounded (len h0 n : Nat) (hw : WfLen len) (mvs : List Mv) :
    let s := runMv (init len h0 n) mvs
    s.H ≤ s.T ∧ s.T - s.H ≤ s.len := by
  intro s
  have h : Inv h0 s := C04_invariant len h0 n hw mvs
  exact ⟨h.HT, h.TH⟩

/-- What the kernel copied is exactly the prefix of the published entries, in
publication order, each once and unmodified; never a torn (`none`) entry. -/
theorem C04_exactly_once_in_order (len h0 n : Nat) (hw : WfLen len) (mvs : List Mv) :
    let s := runMv (init len h0 n) mvs
    s.consumed = (s.accepted.take (s.H - h0)).map some ∧
    s.accepted.length = s.T - h0 ∧
    s.consumed.length = s.H - h0 ∧
    none ∉ s.consumed := by
  intro s
  have h : Inv h0 s := C04_invariant len h0 n hw mvs
  refine ⟨h.cons, h.acc, ?_, ?_⟩
  · rw [h.cons, List.length_map, List.length_take, h.acc]
    have := h.HT
    omega
  · rw [h.cons]
    intro hm
    rcases List.mem_map.1 hm with ⟨x, _, hx⟩
    cases hx

/-- The `k`-th entry the kernel copied is the `k`-th published entry. -/
theorem C04_consumed_nth (len h0 n : Nat) (hw : WfLen len) (mvs : List Mv) (k : Nat) :
    let s := runMv (init len h0 n) mvs
    k < s.H - h0 → s.consumed[k]? = (s.accepted[k]?).map some ∧ (s.accepted[k]?).isSome := by
  intro s hk
  have h : Inv h0 s := C04_invariant len h0 n hw mvs
  have hl : k < s.accepted.length := by rw [h.acc]; have := h.HT; omega
  constructor
  · rw [h.cons, List.getElem?_map, List.getElem?_take, if_pos hk]
  · simp [hl]

/-- Every published, unconsumed entry sits complete in its slot. -/
theorem C04_window_intact (len h0 n : Nat) (hw : WfLen len) (mvs : List Mv) (j : Nat) :
    let s := runMv (init len h0 n) mvs
    s.H ≤ j → j < s.T →
      ∃ e, s.accepted[j - h0]? = some e ∧ s.slots[j % s.len]? = some (some e) := by
  intro s h1 h2
  have h : Inv h0 s := C04_invariant len h0 n hw mvs
  have hl : j - h0 < s.accepted.length := by rw [h.acc]; have := h.h0H; omega
  refine ⟨s.accepted[j - h0], List.getElem?_eq_getElem hl, ?_⟩
  have hw' := h.win j h1 h2
  rw [List.getElem?_eq_getElem hl, List.getD_eq_getElem?_getD] at hw'
  have hlt : j % s.len < s.slots.length := by rw [h.slen]; exact Nat.mod_lt _ h.wf.pos
  rw [List.getElem?_eq_getElem hlt] at hw' ⊢
  simpa using hw'

/-- A writer (pc `w1 t` or `w2 t`: about to reset / fill slot `t % len`) never
targets the slot of a published, unconsumed entry; in particular not the slot
the kernel reads next. -/
theorem C04_no_overwrite (len h0 n : Nat) (hw : WfLen len) (mvs : List Mv)
    (i : Nat) (t : Thr) (tl : Nat) :
    let s := runMv (init len h0 n) mvs
    s.thr[i]? = some t → (t.pc = .w1 tl ∨ t.pc = .w2 tl) →
      (∀ j, s.H ≤ j → j < s.T → j % s.len ≠ tl % s.len) ∧ tl = tail32 s ∧ s.T - s.H < s.len := by
  intro s hti hpc
  have h : Inv h0 s := C04_invariant len h0 n hw mvs
  have hpk := h.thr i t hti
  unfold PcOk at hpk
  have key : tl = s.T % 4294967296 ∧ s.T - s.H < s.len := by
    rcases hpc with hpc | hpc <;> rw [hpc] at hpk <;> exact hpk
  refine ⟨?_, key.1, key.2⟩
  intro j h1 h2 e
  rw [key.1, mod32_mod_len h.wf] at e
  have := window_inj (Nat.le_of_lt h2) (by omega) e
  omega

/-- At most one thread is between taking and releasing the lock, and the lock
word says which. -/
theorem C04_mutex (len h0 n : Nat) (hw : WfLen len) (mvs : List Mv)
    (i j : Nat) (ti tj : Thr) :
    let s := runMv (init len h0 n) mvs
    s.thr[i]? = some ti → s.thr[j]? = some tj → Holds ti.pc → Holds tj.pc →
      i = j ∧ s.lock = some i := by
  intro s hi hj hhi hhj
  have h : Inv h0 s := C04_invariant len h0 n hw mvs
  exact ⟨h.holder_unique hi hj hhi hhj, h.holder_lock hi hhi⟩

/-- The value `unsubmitted_submissions` computes from the two 32-bit words is
the true number of published, unconsumed entries — for every counter value. -/
theorem C04_unsubmitted_exact (len h0 n : Nat) (hw : WfLen len) (mvs : List Mv) :
    let s := runMv (init len h0 n) mvs
    wsub (tail32 s) (head32 s) = s.T - s.H := by
  intro s
  have h : Inv h0 s := C04_invariant len h0 n hw mvs
  have := h.TH
  have := h.wf.2
  exact wsub_exact s.T s.H h.HT (by omega)

/-! ### Entering the kernel (`Shared::enter`) -/

/-- `consumeN n` is `n` kernel moves: every theorem above (stated for all lists
of moves) covers states reached through `io_uring_enter` as well. -/
theorem consumeN_eq_runMv (n : Nat) (s : St) :
    consumeN n s = runMv s (List.replicate n .kernel) := by
  induction n generalizing s with
  | zero => rfl
  | succ k ih => simp only [consumeN, List.replicate_succ, runMv, stepMv]; exact ih _

theorem stepEnter_eq_runMv (s : St) :
    (stepEnter s).1 = runMv s (List.replicate (unsubmitted s) .kernel) := by
  simp only [stepEnter]; exact consumeN_eq_runMv _ _

theorem consumeN_spec (n : Nat) (s : St) (h : s.H + n ≤ s.T) :
    (consumeN n s).H = s.H + n ∧ (consumeN n s).T = s.T ∧
      (consumeN n s).accepted = s.accepted := by
  induction n generalizing s with
  | zero => exact ⟨rfl, rfl, rfl⟩
  | succ k ih =>
    have hlt : s.H < s.T := by omega
    have h1 : (stepKernel s).1.H = s.H + 1 := by simp [stepKernel, hlt]
    have h2 := stepKernel_T s
    have h3 := stepKernel_accepted s
    have := ih (stepKernel s).1 (by omega)
    simp only [consumeN]
    refine ⟨by rw [this.1, h1]; omega, by rw [this.2.1, h2], by rw [this.2.2, h3]⟩

/-- **Every accepted submission reaches the kernel.** When `Ring::poll` (or any
other caller of `Shared::enter`) enters the kernel, the count it passes is the
true number of published entries — for every value of the 32-bit counters —
so after the call the kernel has copied *every* entry accepted so far, each
exactly once, in order and untorn, and nothing is left behind in the queue. -/
theorem C04_enter_submits_all (len h0 n : Nat) (hw : WfLen len) (mvs : List Mv) :
    let s := runMv (init len h0 n) mvs
    let s' := (stepEnter s).1
    unsubmitted s = s.T - s.H ∧ s'.H = s.T ∧ s'.T = s.T ∧ s'.accepted = s.accepted ∧
      s'.consumed = s.accepted.map some := by
  intro s s'
  have h : Inv h0 s := C04_invariant len h0 n hw mvs
  have hu : unsubmitted s = s.T - s.H := by
    have := h.TH
    have := h.wf.2
    exact wsub_exact s.T s.H h.HT (by omega)
  have hsp := consumeN_spec (unsubmitted s) s (by have := h.HT; omega)
  have hs' : s' = consumeN (unsubmitted s) s := rfl
  have h' : Inv h0 s' := by
    rw [hs', consumeN_eq_runMv]
    exact inv_runMv h _
  have hH : s'.H = s.T := by rw [hs', hsp.1, hu]; have := h.HT; omega
  have hA : s'.accepted = s.accepted := by rw [hs', hsp.2.2]
  refine ⟨hu, hH, by rw [hs', hsp.2.1], hA, ?_⟩
  rw [h'.cons, hH, hA]
  have := h.acc
  rw [List.take_of_length_le (by omega)]

/-! ### SQPOLL: the kernel thread and `IORING_SQ_NEED_WAKEUP` -/

/-- The invariant does not depend on the kernel thread's state. -/
theorem inv_set_asleep {h0 : Nat} {s : St} (h : Inv h0 s) (b : Bool) :
    Inv h0 { s with asleep := b } :=
  ⟨h.wf, h.slen, h.h0H, h.HT, h.TH, h.acc, h.win, h.cons, h.lock, h.thr⟩

theorem consumeN_asleep (n : Nat) (s : St) : (consumeN n s).asleep = s.asleep := by
  induction n generalizing s with
  | zero => rfl
  | succ k ih =>
    simp only [consumeN]; rw [ih]
    unfold stepKernel; split <;> rfl

/-- **SQPOLL rings: an idle kernel thread is woken by `enter`, and then every
accepted submission reaches the kernel.** While the thread is idle it consumes
nothing (`stepKernelKt` is the identity), so entries published in that state
reach the kernel only through the wake-up that `Shared::enter` requests when it
sees `IORING_SQ_NEED_WAKEUP`; after that call the kernel has copied every entry
accepted so far, exactly once, in order and untorn — for every reachable queue
state and every value of the 32-bit counters. -/
theorem C04_enter_wakes_kernel_thread (h0 : Nat) (s : St) (h : Inv h0 s) (ha : s.asleep = true) :
    (stepKernelKt s).1 = s ∧
    (let s' := (stepEnterKt s).1
     s'.asleep = false ∧ s'.H = s.T ∧ s'.T = s.T ∧ s'.accepted = s.accepted ∧
       s'.consumed = s.accepted.map some ∧ Inv h0 s') := by
  refine ⟨by simp [stepKernelKt, ha], ?_⟩
  intro s'
  have hs' : s' = consumeN (s.T - s.H) { s with asleep := false } := by
    show (stepEnterKt s).1 = _
    simp [stepEnterKt, ha]
  have hw : Inv h0 { s with asleep := false } := inv_set_asleep h false
  have hsp := consumeN_spec (s.T - s.H) { s with asleep := false } (by have := h.HT; show s.H + (s.T - s.H) ≤ s.T; omega)
  have h' : Inv h0 s' := by
    rw [hs', consumeN_eq_runMv]; exact inv_runMv hw _
  have hH : s'.H = s.T := by rw [hs', hsp.1]; have := h.HT; show s.H + (s.T - s.H) = s.T; omega
  have hA : s'.accepted = s.accepted := by rw [hs', hsp.2.2]
  refine ⟨by rw [hs', consumeN_asleep], hH, by rw [hs', hsp.2.1], hA, ?_, h'⟩
  rw [h'.cons, hH, hA]
  have := h.acc
  rw [List.take_of_length_le (by omega)]

/-- A running kernel thread needs no wake-up: `enter` changes nothing, the entries are
consumed by the thread's own steps (kernel moves, covered by every theorem above);
and the thread only ever goes idle on an empty queue. -/
theorem C04_kernel_thread_running (s : St) :
    (s.asleep = false → (stepEnterKt s).1 = s) ∧
    ((stepIdle s).1.asleep = true → s.asleep = true ∨ s.H = s.T) := by
  refine ⟨fun ha => by simp [stepEnterKt, ha], ?_⟩
  unfold stepIdle
  split
  · rename_i hc; intro _; exact Or.inr hc.2.1
  · intro ha; exact Or.inl ha

/-- `tail.saturating_sub(head)` instead of `wrapping_sub` (a seeded change, and the
shape of the defect repaired by 38373ef) is wrong exactly after the tail word wrapped:
one entry is published, the count passed to the kernel would be 0. -/
theorem C04_saturating_sub_loses :
    let s := runMv (init 2 4294967295 1) (List.replicate 8 (.thr 0))
    s.accepted = [0] ∧ s.T - s.H = 1 ∧ unsubmitted s = 1 ∧ tail32 s - head32 s = 0 := by
  decide

/-- The locked check is exact. A thread at `a5 hd` loaded `hd` from an absolute
head `H'` (`h0 ≤ H' ≤ H`, `hd = H' % 2^32`) with `T − H' ≤ len`; its step
answers `full` iff `T − H' = len` (the queue was full when `hd` was loaded — `T`
does not move while the lock is held, see `C04_full_at_load`), and otherwise
goes on to write slot `T % len`, with room in the queue now (`T − H < len`). -/
theorem C04_full_means_full (len h0 n : Nat) (hw : WfLen len) (mvs : List Mv)
    (i : Nat) (t : Thr) (hd : Nat) :
    let s := runMv (init len h0 n) mvs
    s.thr[i]? = some t → t.pc = .a5 hd →
      ∃ H', h0 ≤ H' ∧ H' ≤ s.H ∧ hd = H' % 4294967296 ∧ s.T - H' ≤ s.len ∧
        (pcOf (stepThr s i).1 i = some .full ↔ s.T - H' = s.len) ∧
        (pcOf (stepThr s i).1 i = some (.w1 (tail32 s)) ↔ s.T - H' < s.len) ∧
        (s.T - H' < s.len → s.T - s.H < s.len) := by
  intro s hti hpc
  have h : Inv h0 s := C04_invariant len h0 n hw mvs
  have hpk := h.thr i t hti
  unfold PcOk at hpk
  rw [hpc] at hpk
  rcases hpk with ⟨H', a, b, c, d⟩
  refine ⟨H', a, b, c, d, ?_⟩
  have hHT := h.HT
  have hlt := h.wf.2
  have hws : wsub (tail32 s) hd = s.T - H' := by
    rw [c]; exact wsub_exact s.T H' (by omega) (by omega)
  have hp : pcOf (stepThr s i).1 i = some (nextPc s t) := by
    unfold pcOf
    rw [stepThr_thr hti, get_set_thr hti, if_pos rfl]
    rfl
  rw [hp]
  unfold nextPc
  rw [hpc]
  simp only [hws]
  refine ⟨?_, ?_, by omega⟩
  · by_cases hf : s.T - H' ≥ s.len
    · simp [hf] <;> omega
    · simp [hf] <;> omega
  · by_cases hf : s.T - H' ≥ s.len
    · simp [hf] <;> omega
    · simp [hf] <;> omega

/-- The unlocked pre-check works on a possibly stale head `H' ≤ H`
(`hd = H' % 2^32`): it can answer `full` only if at least `len` entries were
published since that head (`T − H' ≥ len`) — spurious exactly when the kernel
consumed some of them meanwhile (a liveness matter, C03) — and a thread that it
lets through has not yet touched anything shared. -/
theorem C04_precheck (len h0 n : Nat) (hw : WfLen len) (mvs : List Mv)
    (i : Nat) (t : Thr) (hd : Nat) :
    let s := runMv (init len h0 n) mvs
    s.thr[i]? = some t → t.pc = .a2 hd →
      ∃ H', h0 ≤ H' ∧ H' ≤ s.H ∧ hd = H' % 4294967296 ∧
        (pcOf (stepThr s i).1 i = some .full → s.len ≤ s.T - H') ∧
        (pcOf (stepThr s i).1 i = some .full ∨ pcOf (stepThr s i).1 i = some .a3) ∧
        (H' = s.H → (pcOf (stepThr s i).1 i = some .full ↔ s.T - s.H = s.len)) := by
  intro s hti hpc
  have h : Inv h0 s := C04_invariant len h0 n hw mvs
  have hpk := h.thr i t hti
  unfold PcOk at hpk
  rw [hpc] at hpk
  rcases hpk with ⟨H', a, b, c⟩
  refine ⟨H', a, b, c, ?_⟩
  have hHT := h.HT
  have hTH := h.TH
  have hlt := h.wf.2
  have hws : wsub (tail32 s) hd = (s.T - H') % 4294967296 := by
    rw [c]; exact wsub_mod s.T H' (by omega)
  have hp : pcOf (stepThr s i).1 i = some (nextPc s t) := by
    unfold pcOf
    rw [stepThr_thr hti, get_set_thr hti, if_pos rfl]
    rfl
  rw [hp]
  unfold nextPc
  rw [hpc]
  simp only [hws]
  refine ⟨?_, ?_, ?_⟩
  · by_cases hf : (s.T - H') % 4294967296 ≥ s.len
    · intro _; omega
    · simp [hf]
  · by_cases hf : (s.T - H') % 4294967296 ≥ s.len <;> simp [hf]
  · intro e
    subst e
    by_cases hf : (s.T - s.H) % 4294967296 ≥ s.len
    · simp [hf] <;> omega
    · simp [hf] <;> omega


/-! ### The tail does not move while another thread holds the lock -/

theorem stepKernel_len (s : St) : (stepKernel s).1.len = s.len := by
  unfold stepKernel; split <;> rfl

theorem restart_len (s : St) (i e : Nat) : (restart s i e).1.len = s.len := by
  unfold restart
  cases s.thr[i]? with
  | none => rfl
  | some t => simp only; split <;> rfl

theorem stepMv_len (s : St) (m : Mv) : (stepMv s m).len = s.len := by
  cases m with
  | thr i => exact stepThr_len s i
  | kernel => exact stepKernel_len s
  | again i e => exact restart_len s i e
  | abort i => exact (abortThr_frame s i).2.2.2.2.2

/-- While thread `i` holds the lock, no move other than its own changes its
pc/loaded values, or the tail. -/
theorem holder_stable {h0 : Nat} {s : St} (h : Inv h0 s) {i : Nat} {t : Thr}
    (hti : s.thr[i]? = some t) (hh : Holds t.pc) (m : Mv) (hm : m ≠ .thr i)
    (hma : m ≠ .abort i) :
    (stepMv s m).thr[i]? = some t ∧ (stepMv s m).T = s.T := by
  cases m with
  | abort j =>
    have hji : i ≠ j := fun e => hma (by rw [e])
    refine ⟨?_, (abortThr_frame s j).2.1⟩
    simp only [stepMv]
    cases htj : s.thr[j]? with
    | none => rw [abortThr_none htj]; exact hti
    | some tj =>
      by_cases hw : ∃ tl, tj.pc = .w2 tl
      · obtain ⟨tl, hw⟩ := hw
        rw [abortThr_w2 htj hw]
        show (s.thr.set j _)[i]? = some t
        rw [get_set_thr htj, if_neg hji]; exact hti
      · rw [abortThr_other htj (fun tl e => hw ⟨tl, e⟩)]; exact hti
  | thr j =>
    have hji : i ≠ j := fun e => hm (by rw [e])
    cases htj : s.thr[j]? with
    | none =>
      show (stepThr s j).1.thr[i]? = some t ∧ (stepThr s j).1.T = s.T
      rw [stepThr_none htj]; exact ⟨hti, rfl⟩
    | some tj =>
      simp only [stepMv]
      refine ⟨?_, ?_⟩
      · rw [stepThr_thr htj, get_set_thr htj, if_neg hji]; exact hti
      · have hT := congrArg Prod.fst (stepThr_T_accepted htj)
        simp only at hT
        rw [hT]
        cases hpc : tj.pc <;> simp only
        case a6 tl =>
          exact absurd (h.holder_unique hti htj hh (by simp [Holds, hpc])) hji
  | kernel => exact ⟨by simp only [stepMv, stepKernel_thr]; exact hti, stepKernel_T s⟩
  | again j e =>
    refine ⟨?_, restart_T s j e⟩
    simp only [stepMv]
    cases htj : s.thr[j]? with
    | none => rw [restart_none htj]; exact hti
    | some tj =>
      rw [restart_thr htj]
      split
      · rename_i hpc
        by_cases hji : i = j
        · subst hji
          rw [hti] at htj; cases htj
          rcases hpc with hpc | hpc <;> simp [Holds, hpc] at hh
        · rw [get_set_thr htj, if_neg hji]; exact hti
      · exact hti

theorem holder_stable_run {h0 : Nat} {s : St} (h : Inv h0 s) {i : Nat} {t : Thr}
    (hti : s.thr[i]? = some t) (hh : Holds t.pc) (mid : List Mv)
    (hm : ∀ m ∈ mid, m ≠ .thr i ∧ m ≠ .abort i) :
    (runMv s mid).thr[i]? = some t ∧ (runMv s mid).T = s.T ∧ (runMv s mid).len = s.len := by
  induction mid generalizing s with
  | nil => exact ⟨hti, rfl, rfl⟩
  | cons m ms ih =>
    have h1 := holder_stable h hti hh m (hm m (by simp)).1 (hm m (by simp)).2
    have h2 := ih (inv_stepMv h m) h1.1 (fun m' hm' => hm m' (by simp [hm']))
    exact ⟨h2.1, h2.2.1.trans h1.2, h2.2.2.trans (stepMv_len s m)⟩

/-- The locked check, with the moment of the head load made explicit: thread `i`
loads the head in state `s1` (pc `a4`), then any moves of the other threads and
the kernel happen (`mid`), then `i` performs the check in state `s2`. The tail is
the same in `s2` as in `s1`, and the check answers `full` iff the queue was full
in `s1`, and proceeds to write iff it was not. -/
theorem C04_full_at_load (len h0 n : Nat) (hw : WfLen len) (pre mid : List Mv)
    (i : Nat) (t : Thr) :
    let s1 := runMv (init len h0 n) pre
    let s2 := runMv (init len h0 n) (pre ++ [.thr i] ++ mid)
    s1.thr[i]? = some t → t.pc = .a4 → (∀ m ∈ mid, m ≠ .thr i ∧ m ≠ .abort i) →
      s2.thr[i]? = some { t with pc := .a5 (head32 s1) } ∧ s2.T = s1.T ∧
      (pcOf (stepThr s2 i).1 i = some .full ↔ s1.T - s1.H = s1.len) ∧
      (pcOf (stepThr s2 i).1 i = some (.w1 (tail32 s1)) ↔ s1.T - s1.H < s1.len) := by
  intro s1 s2 hti hpc hmid
  have h1 : Inv h0 s1 := C04_invariant len h0 n hw pre
  have hs2 : s2 = runMv (stepThr s1 i).1 mid := by
    show runMv _ (pre ++ [.thr i] ++ mid) = _
    rw [runMv_append, runMv_append]; rfl
  have hmid1 : Inv h0 (stepThr s1 i).1 := inv_stepThr h1 i
  have hthr1 : (stepThr s1 i).1.thr[i]? = some { t with pc := .a5 (head32 s1) } := by
    rw [stepThr_thr hti, get_set_thr hti, if_pos rfl]
    simp [nextPc, hpc]
  have hT1 : (stepThr s1 i).1.T = s1.T := by
    have := congrArg Prod.fst (stepThr_T_accepted hti)
    simp only [hpc] at this
    exact this
  have hst := holder_stable_run hmid1 hthr1 (by simp [Holds]) mid hmid
  rw [← hs2] at hst
  rcases hst with ⟨a, b, c⟩
  rw [hT1] at b
  rw [stepThr_len] at c
  refine ⟨a, b, ?_⟩
  have hp : pcOf (stepThr s2 i).1 i =
      some (nextPc s2 { t with pc := .a5 (head32 s1) }) := by
    unfold pcOf
    rw [stepThr_thr a, get_set_thr a, if_pos rfl]
    rfl
  rw [hp]
  have hHT := h1.HT
  have hTH := h1.TH
  have hlt := h1.wf.2
  have hws : wsub (tail32 s2) (head32 s1) = s1.T - s1.H := by
    unfold tail32 head32
    rw [b]; exact wsub_exact s1.T s1.H hHT (by omega)
  unfold nextPc
  simp only [hws, c]
  have ht : tail32 s2 = tail32 s1 := by unfold tail32; rw [b]
  rw [ht]
  constructor
  · by_cases hf : s1.T - s1.H ≥ s1.len
    · simp [hf] <;> omega
    · simp [hf] <;> omega
  · by_cases hf : s1.T - s1.H ≥ s1.len
    · simp [hf] <;> omega
    · simp [hf] <;> omega

/-! ### `ok` means published, `full` means nothing was written -/

/-- A thread reaches pc `ok` only by its own `a6` step, and that step publishes
exactly its entry (appends it to `accepted`, tail + 1). Holds for any state. -/
theorem C04_accepted_published (s : St) (m : Mv) (i : Nat) (t' : Thr) :
    (stepMv s m).thr[i]? = some t' → t'.pc = .ok →
      s.thr[i]? = some t' ∨
      (m = .thr i ∧ ∃ tl, s.thr[i]? = some { t' with pc := .a6 tl } ∧
        (stepMv s m).accepted = s.accepted ++ [t'.entry] ∧ (stepMv s m).T = s.T + 1) := by
  intro h1 h2
  cases m with
  | kernel => left; simpa [stepMv, stepKernel_thr] using h1
  | abort j =>
    left
    simp only [stepMv] at h1
    cases htj : s.thr[j]? with
    | none => rwa [abortThr_none htj] at h1
    | some tj =>
      by_cases hw : ∃ tl, tj.pc = .w2 tl
      · obtain ⟨tl, hw⟩ := hw
        rw [abortThr_w2 htj hw] at h1
        have h1' : (s.thr.set j { tj with pc := .full })[i]? = some t' := h1
        rw [get_set_thr htj] at h1'
        split at h1'
        · cases h1'; cases h2
        · exact h1'
      · rwa [abortThr_other htj (fun tl e => hw ⟨tl, e⟩)] at h1
  | again j e =>
    left
    simp only [stepMv] at h1
    cases htj : s.thr[j]? with
    | none => rwa [restart_none htj] at h1
    | some tj =>
      rw [restart_thr htj] at h1
      split at h1
      · rw [get_set_thr htj] at h1
        split at h1
        · cases h1; exact absurd h2 (startPc_ne_ok _)
        · exact h1
      · exact h1
  | thr j =>
    simp only [stepMv] at h1 ⊢
    cases htj : s.thr[j]? with
    | none => left; rwa [stepThr_none htj] at h1
    | some tj =>
      rw [stepThr_thr htj, get_set_thr htj] at h1
      split at h1
      · rename_i hij
        subst hij
        cases h1
        simp only at h2
        have hTA := stepThr_T_accepted htj
        unfold nextPc at h2
        cases hpc : tj.pc <;> rw [hpc] at h2 <;> simp only at h2
        case a2 hd => split at h2 <;> cases h2
        case a3 => split at h2 <;> cases h2
        case a5 hd => split at h2 <;> cases h2
        case a6 tl =>
          right
          refine ⟨rfl, tl, ?_, ?_, ?_⟩
          · rw [htj]; congr 1; cases tj; simp only at hpc; rw [hpc]
          · rw [hpc] at hTA; exact congrArg Prod.snd hTA
          · rw [hpc] at hTA; exact congrArg Prod.fst hTA
        case ok =>
          left; rw [htj]; congr 1; cases tj; simp only at hpc; rw [hpc, nextPc]
        all_goals cases h2
      · left; exact h1

/-- The slots are modified only by the `w1`/`w2` steps of a thread. -/
theorem C04_writes_only_w (s : St) (m : Mv) :
    (stepMv s m).slots ≠ s.slots →
      ∃ i t tl, m = .thr i ∧ s.thr[i]? = some t ∧ (t.pc = .w1 tl ∨ t.pc = .w2 tl) := by
  intro hne
  cases m with
  | kernel => exact absurd (stepKernel_slots s) hne
  | again j e => exact absurd (restart_slots s j e) hne
  | abort j => exact absurd (abortThr_frame s j).1 hne
  | thr j =>
    simp only [stepMv] at hne
    cases htj : s.thr[j]? with
    | none => rw [stepThr_none htj] at hne; exact absurd rfl hne
    | some tj =>
      rw [stepThr_slots htj] at hne
      cases hpc : tj.pc <;> rw [hpc] at hne <;> simp only at hne
      case w1 tl => exact ⟨j, tj, tl, rfl, htj, Or.inl hpc⟩
      case w2 tl => exact ⟨j, tj, tl, rfl, htj, Or.inr hpc⟩
      all_goals exact absurd rfl hne

/-- Ghost bookkeeping: `w[i]` is set whenever thread `i` performs a slot-writing
step (`w1`/`w2`, the only ones by `C04_writes_only_w`) and cleared when it starts
a new call of `add`. -/
def stepW (s : St) (w : List Bool) : Mv → List Bool
  | .thr i =>
    match pcOf s i with
    | some (.w1 _) => w.set i true
    | some (.w2 _) => w.set i true
    | _ => w
  | .kernel => w
  | .abort _ => w
  | .again i _ =>
    match pcOf s i with
    | some .ok => w.set i false
    | some .full => w.set i false
    | _ => w

def runW (s : St) (w : List Bool) : List Mv → St × List Bool
  | [] => (s, w)
  | m :: ms => runW (stepMv s m) (stepW s w m) ms

theorem runW_fst (s : St) (w : List Bool) (mvs : List Mv) : (runW s w mvs).1 = runMv s mvs := by
  induction mvs generalizing s w with
  | nil => rfl
  | cons m ms ih => exact ih _ _

/-- The pcs after the first slot write of a call. -/
def wrote : Pc → Bool
  | .w2 _ | .a6 _ | .ok => true
  | _ => false

theorem wrote_startPc (c : Bool) : wrote (startPc c) = false := by cases c <;> rfl

def WInv (s : St) (w : List Bool) : Prop :=
  ∀ (i : Nat) (t : Thr), s.thr[i]? = some t → w[i]? = some (wrote t.pc)

theorem set_bool_get {w : List Bool} {i : Nat} {b0 : Bool} (h : w[i]? = some b0) (b : Bool) :
    (w.set i b)[i]? = some b := by
  have hi : i < w.length := by
    rcases Nat.lt_or_ge i w.length with h1 | h1
    · exact h1
    · rw [List.getElem?_eq_none h1] at h; cases h
  simp [hi]

theorem winv_step {s : St} {w : List Bool} (h : WInv s w) (m : Mv) (hna : ∀ j, m ≠ .abort j) :
    WInv (stepMv s m) (stepW s w m) := by
  intro k tk hk
  cases m with
  | abort j => exact absurd rfl (hna j)
  | kernel =>
    simp only [stepMv, stepKernel_thr] at hk
    exact h k tk hk
  | again j e =>
    simp only [stepMv] at hk
    simp only [stepW, pcOf]
    cases htj : s.thr[j]? with
    | none => rw [restart_none htj] at hk; simp only [Option.map_none]; exact h k tk hk
    | some tj =>
      have hwj := h j tj htj
      rw [restart_thr htj] at hk
      simp only [Option.map_some]
      by_cases hkj : k = j
      · subst hkj
        by_cases hfin : tj.pc = .ok ∨ tj.pc = .full
        · rw [if_pos hfin, get_set_thr htj, if_pos rfl] at hk
          cases hk
          rcases hfin with hpc | hpc <;> rw [hpc] <;> simp only [wrote_startPc] <;>
            exact set_bool_get hwj _
        · rw [if_neg hfin, htj] at hk
          cases hk
          cases hpc : tk.pc <;> rw [hpc] at hwj hfin <;> simp only <;>
            first | exact hwj | simp at hfin
      · have hk' : s.thr[k]? = some tk := by
          split at hk
          · rwa [get_set_thr htj, if_neg hkj] at hk
          · exact hk
        have := h k tk hk'
        have hne : j ≠ k := fun e => hkj e.symm
        cases tj.pc <;> simp only <;> (try rw [List.getElem?_set_ne hne]) <;> exact this
  | thr j =>
    simp only [stepMv] at hk
    simp only [stepW, pcOf]
    cases htj : s.thr[j]? with
    | none => rw [stepThr_none htj] at hk; simp only [Option.map_none]; exact h k tk hk
    | some tj =>
      have hwj := h j tj htj
      rw [stepThr_thr htj, get_set_thr htj] at hk
      simp only [Option.map_some]
      by_cases hkj : k = j
      · subst hkj
        rw [if_pos rfl] at hk
        cases hk
        unfold nextPc
        cases hpc : tj.pc <;> rw [hpc] at hwj <;> simp only
        case a2 hd => split <;> exact hwj
        case a3 => cases s.lock <;> exact hwj
        case a5 hd => split <;> exact hwj
        case w1 tl => exact set_bool_get hwj _
        case w2 tl => exact set_bool_get hwj _
        all_goals exact hwj
      · rw [if_neg hkj] at hk
        have := h k tk hk
        have hne : j ≠ k := fun e => hkj e.symm
        cases tj.pc <;> simp only <;> (try rw [List.getElem?_set_ne hne]) <;> exact this

theorem winv_init (len h0 n : Nat) : WInv (init len h0 n) (List.replicate n false) := by
  intro i t h1
  simp only [init, List.getElem?_map] at h1
  cases hr : (List.range n)[i]? with
  | none => rw [hr] at h1; cases h1
  | some v =>
    rw [hr] at h1; cases h1
    have hi : i < n := by
      rcases Nat.lt_or_ge i n with h2 | h2
      · exact h2
      · rw [List.getElem?_eq_none (by simpa using h2)] at hr; cases hr
    simp [wrote_startPc, hi]

theorem winv_run {s : St} {w : List Bool} (h : WInv s w) (mvs : List Mv)
    (hna : ∀ m ∈ mvs, ∀ j, m ≠ .abort j) :
    WInv (runW s w mvs).1 (runW s w mvs).2 := by
  induction mvs generalizing s w with
  | nil => exact h
  | cons m ms ih =>
    exact ih (winv_step h m (hna m (by simp))) (fun m' hm' => hna m' (by simp [hm']))

/-- A thread whose call answered `QueueFull` performed no slot-writing step in
that call; a thread whose call answered `Ok` did. (Runs without calls left by a panic: such a call
has reset its slot — `Mv.abort`, `C04_abort_publishes_nothing`.) -/
theorem C04_full_never_wrote (len h0 n : Nat) (mvs : List Mv) (i : Nat) (t : Thr)
    (hna : ∀ m ∈ mvs, ∀ j, m ≠ .abort j) :
    let r := runW (init len h0 n) (List.replicate n false) mvs
    r.1 = runMv (init len h0 n) mvs ∧
    (r.1.thr[i]? = some t →
      (t.pc = .full → r.2[i]? = some false) ∧ (t.pc = .ok → r.2[i]? = some true)) := by
  intro r
  refine ⟨runW_fst _ _ _, ?_⟩
  intro hti
  have h : WInv r.1 r.2 := winv_run (winv_init len h0 n) mvs hna
  have := h i t hti
  constructor
  · intro hpc; rw [hpc] at this; exact this
  · intro hpc; rw [hpc] at this; exact this


/-- **A call left by a panic while the submission is filled publishes nothing** (`Mv.abort`; the
situation of seeded change C04h and of the `sq panicfill` scenario): the tail, the publication
history, what the kernel consumed and every slot are as before — the reset slot `T mod len` lies
outside the window `[H, T)` (`C04_window_intact` holds for runs with such calls, like every
theorem above: `Mv` includes them) — the lock is released and the call is over. -/
theorem C04_abort_publishes_nothing (s : St) (i : Nat) :
    (abortThr s i).T = s.T ∧ (abortThr s i).H = s.H ∧ (abortThr s i).accepted = s.accepted ∧
    (abortThr s i).consumed = s.consumed ∧ (abortThr s i).slots = s.slots ∧
    (∀ (t : Thr) (tl : Nat), s.thr[i]? = some t → t.pc = .w2 tl →
      (abortThr s i).lock = none ∧ pcOf (abortThr s i) i = some .full) := by
  obtain ⟨a, b, c, d, e, _⟩ := abortThr_frame s i
  refine ⟨b, c, d, e, a, ?_⟩
  intro t tl hti hpc
  rw [abortThr_w2 hti hpc]
  refine ⟨rfl, ?_⟩
  show ((s.thr.set i { t with pc := .full })[i]?).map (·.pc) = some .full
  rw [get_set_thr hti, if_pos rfl]
  rfl

/-- Non-vacuity: thread 0 of a queue of two slots is inside its fill (`w2`) when it is aborted;
thread 1 then takes the lock and publishes: the kernel consumes exactly thread 1's entry. -/
example :
    let s := runMv (init 2 7 2) (List.replicate 6 (.thr 0))
    pcOf s 0 = some (.w2 7) ∧ s.lock = some 0 ∧
    (runMv s ([.abort 0] ++ List.replicate 8 (.thr 1) ++ [.kernel])).consumed = [some 1] ∧
    (runMv s ([.abort 0] ++ List.replicate 8 (.thr 1) ++ [.kernel])).accepted = [1] := by
  decide

/-! ### Exactly once, by entry identity -/

/-- The entry ids introduced by the `again` moves of a run. -/
def againIds : List Mv → List Nat
  | [] => []
  | .again _ e :: ms => e :: againIds ms
  | .thr _ :: ms => againIds ms
  | .kernel :: ms => againIds ms
  | .abort _ :: ms => againIds ms

/-- Invariant about entry identities; `U` is the set of ids handed out so far. -/
structure IdInv (U : List Nat) (s : St) : Prop where
  nodup : s.accepted.Nodup
  accU : ∀ e ∈ s.accepted, e ∈ U
  thrU : ∀ (i : Nat) (t : Thr), s.thr[i]? = some t → t.entry ∈ U
  fresh : ∀ (i : Nat) (t : Thr), s.thr[i]? = some t → t.pc ≠ .ok → t.entry ∉ s.accepted
  okin : ∀ (i : Nat) (t : Thr), s.thr[i]? = some t → t.pc = .ok → t.entry ∈ s.accepted
  distinct : ∀ (i j : Nat) (ti tj : Thr), s.thr[i]? = some ti → s.thr[j]? = some tj →
    i ≠ j → ti.pc ≠ .ok → ti.entry ≠ tj.entry

theorem IdInv.mono {U U' : List Nat} {s : St} (h : IdInv U s) (hs : ∀ e ∈ U, e ∈ U') :
    IdInv U' s :=
  { h with accU := fun e he => hs e (h.accU e he), thrU := fun i t ht => hs _ (h.thrU i t ht) }

/-- Thread `j` changes its pc to `p'`, possibly publishing its entry. -/
theorem idinv_update {U : List Nat} {s s' : St} (h : IdInv U s) {j : Nat} {tj : Thr}
    (htj : s.thr[j]? = some tj) (p' : Pc)
    (hthr : s'.thr = s.thr.set j { tj with pc := p' })
    (h2 : p' ≠ .ok → tj.pc ≠ .ok)
    (h3 : (s'.accepted = s.accepted ∧ (p' = .ok → tj.pc = .ok)) ∨
          (s'.accepted = s.accepted ++ [tj.entry] ∧ p' = .ok ∧ tj.pc ≠ .ok)) :
    IdInv U s' := by
  have hget : ∀ k tk, s'.thr[k]? = some tk →
      (k = j ∧ tk = { tj with pc := p' }) ∨ (k ≠ j ∧ s.thr[k]? = some tk) := by
    intro k tk hk
    rw [hthr, get_set_thr htj] at hk
    by_cases hkj : k = j
    · rw [if_pos hkj] at hk; cases hk; exact Or.inl ⟨hkj, rfl⟩
    · rw [if_neg hkj] at hk; exact Or.inr ⟨hkj, hk⟩
  rcases h3 with ⟨hacc, hok⟩ | ⟨hacc, hp', hnok⟩
  · refine ⟨by rw [hacc]; exact h.nodup, by rw [hacc]; exact h.accU, ?_, ?_, ?_, ?_⟩
    · intro k tk hk
      rcases hget k tk hk with ⟨_, e⟩ | ⟨_, hk'⟩
      · rw [e]; exact h.thrU j tj htj
      · exact h.thrU k tk hk'
    · intro k tk hk hpc
      rw [hacc]
      rcases hget k tk hk with ⟨_, e⟩ | ⟨_, hk'⟩
      · rw [e] at hpc ⊢; exact h.fresh j tj htj (h2 hpc)
      · exact h.fresh k tk hk' hpc
    · intro k tk hk hpc
      rw [hacc]
      rcases hget k tk hk with ⟨_, e⟩ | ⟨_, hk'⟩
      · rw [e] at hpc ⊢; exact h.okin j tj htj (hok hpc)
      · exact h.okin k tk hk' hpc
    · intro a b ta tb ha hb hab hpc
      rcases hget a ta ha with ⟨ea, e⟩ | ⟨hna, ha'⟩
      · rw [e] at hpc ⊢
        rcases hget b tb hb with ⟨eb, _⟩ | ⟨_, hb'⟩
        · exact absurd (ea.trans eb.symm) hab
        · exact h.distinct j b tj tb htj hb' (ea ▸ hab) (h2 hpc)
      · rcases hget b tb hb with ⟨eb, e⟩ | ⟨_, hb'⟩
        · rw [e]; exact h.distinct a j ta tj ha' htj hna hpc
        · exact h.distinct a b ta tb ha' hb' hab hpc
  · have hfr := h.fresh j tj htj hnok
    refine ⟨?_, ?_, ?_, ?_, ?_, ?_⟩
    · rw [hacc, List.nodup_append]
      refine ⟨h.nodup, by simp, ?_⟩
      intro a ha b hb e
      simp only [List.mem_singleton] at hb
      rw [e, hb] at ha; exact hfr ha
    · intro e he
      rw [hacc, List.mem_append, List.mem_singleton] at he
      rcases he with he | he
      · exact h.accU e he
      · rw [he]; exact h.thrU j tj htj
    · intro k tk hk
      rcases hget k tk hk with ⟨_, e⟩ | ⟨_, hk'⟩
      · rw [e]; exact h.thrU j tj htj
      · exact h.thrU k tk hk'
    · intro k tk hk hpc
      rw [hacc, List.mem_append, List.mem_singleton]
      rcases hget k tk hk with ⟨_, e⟩ | ⟨hkj, hk'⟩
      · rw [e] at hpc; exact absurd hp' hpc
      · rintro (hm | hm)
        · exact h.fresh k tk hk' hpc hm
        · exact h.distinct k j tk tj hk' htj hkj hpc hm
    · intro k tk hk hpc
      rw [hacc, List.mem_append, List.mem_singleton]
      rcases hget k tk hk with ⟨_, e⟩ | ⟨_, hk'⟩
      · rw [e]; exact Or.inr rfl
      · exact Or.inl (h.okin k tk hk' hpc)
    · intro a b ta tb ha hb hab hpc
      rcases hget a ta ha with ⟨ea, e⟩ | ⟨hna, ha'⟩
      · rw [e] at hpc; exact absurd hp' hpc
      · rcases hget b tb hb with ⟨eb, e⟩ | ⟨_, hb'⟩
        · rw [e]; exact h.distinct a j ta tj ha' htj hna hpc
        · exact h.distinct a b ta tb ha' hb' hab hpc

theorem idinv_stepThr {U : List Nat} {s : St} (h : IdInv U s) (j : Nat) :
    IdInv U (stepThr s j).1 := by
  cases htj : s.thr[j]? with
  | none => rw [stepThr_none htj]; exact h
  | some tj =>
    have hTA := congrArg Prod.snd (stepThr_T_accepted htj)
    simp only at hTA
    refine idinv_update h htj (nextPc s tj) (stepThr_thr htj) ?_ ?_
    · intro hp hpc; apply hp; simp [nextPc, hpc]
    · rw [hTA]
      unfold nextPc
      cases hpc : tj.pc <;> simp only
      case a2 hd => left; split <;> simp
      case a3 => left; split <;> simp
      case a5 hd => left; split <;> simp
      case a6 tl => right; simp
      all_goals (left; simp)

theorem idinv_stepKernel {U : List Nat} {s : St} (h : IdInv U s) : IdInv U (stepKernel s).1 := by
  have h1 := stepKernel_thr s
  have h2 := stepKernel_accepted s
  exact ⟨by rw [h2]; exact h.nodup, by rw [h2]; exact h.accU, by rw [h1]; exact h.thrU,
    by rw [h1, h2]; exact h.fresh, by rw [h1, h2]; exact h.okin, by rw [h1]; exact h.distinct⟩

theorem idinv_restart {U : List Nat} {s : St} (h : IdInv U s) (j e : Nat) (he : e ∉ U) :
    IdInv (U ++ [e]) (restart s j e).1 := by
  have hmono : IdInv (U ++ [e]) s := h.mono (fun x hx => List.mem_append_left _ hx)
  cases htj : s.thr[j]? with
  | none => rw [restart_none htj]; exact hmono
  | some tj =>
    have hacc := restart_accepted s j e
    have hthr := restart_thr htj e
    by_cases hfin : tj.pc = .ok ∨ tj.pc = .full
    · rw [if_pos hfin] at hthr
      have hget : ∀ k tk, (restart s j e).1.thr[k]? = some tk →
          (k = j ∧ tk = { pc := startPc (isCancel s.nc e), entry := e }) ∨
            (k ≠ j ∧ s.thr[k]? = some tk) := by
        intro k tk hk
        rw [hthr, get_set_thr htj] at hk
        by_cases hkj : k = j
        · rw [if_pos hkj] at hk; cases hk; exact Or.inl ⟨hkj, rfl⟩
        · rw [if_neg hkj] at hk; exact Or.inr ⟨hkj, hk⟩
      have hneU : ∀ (k : Nat) (tk : Thr), s.thr[k]? = some tk → tk.entry ≠ e :=
        fun k tk hk e' => he (e' ▸ h.thrU k tk hk)
      refine ⟨by rw [hacc]; exact h.nodup, by rw [hacc]; exact hmono.accU, ?_, ?_, ?_, ?_⟩
      · intro k tk hk
        rcases hget k tk hk with ⟨_, e'⟩ | ⟨_, hk'⟩
        · rw [e']; simp
        · exact hmono.thrU k tk hk'
      · intro k tk hk hpc
        rw [hacc]
        rcases hget k tk hk with ⟨_, e'⟩ | ⟨_, hk'⟩
        · rw [e']; exact fun hm => he (h.accU e hm)
        · exact h.fresh k tk hk' hpc
      · intro k tk hk hpc
        rw [hacc]
        rcases hget k tk hk with ⟨_, e'⟩ | ⟨_, hk'⟩
        · rw [e'] at hpc; exact absurd hpc (startPc_ne_ok _)
        · exact h.okin k tk hk' hpc
      · intro a b ta tb ha hb hab hpc
        rcases hget a ta ha with ⟨ea, e'⟩ | ⟨hna, ha'⟩
        · rcases hget b tb hb with ⟨eb, _⟩ | ⟨_, hb'⟩
          · exact absurd (ea.trans eb.symm) hab
          · rw [e']; exact fun x => hneU b tb hb' x.symm
        · rcases hget b tb hb with ⟨eb, e'⟩ | ⟨_, hb'⟩
          · rw [e']; exact hneU a ta ha'
          · exact h.distinct a b ta tb ha' hb' hab hpc
    · rw [if_neg hfin] at hthr
      exact ⟨by rw [hacc]; exact hmono.nodup, by rw [hacc]; exact hmono.accU,
        by rw [hthr]; exact hmono.thrU, by rw [hthr, hacc]; exact hmono.fresh,
        by rw [hthr, hacc]; exact hmono.okin, by rw [hthr]; exact hmono.distinct⟩

theorem idinv_abort {U : List Nat} {s : St} (h : IdInv U s) (j : Nat) :
    IdInv U (abortThr s j) := by
  cases htj : s.thr[j]? with
  | none => rw [abortThr_none htj]; exact h
  | some tj =>
    by_cases hw : ∃ tl, tj.pc = .w2 tl
    · obtain ⟨tl, hw⟩ := hw
      rw [abortThr_w2 htj hw]
      exact idinv_update h htj .full rfl (fun _ => by rw [hw]; simp)
        (Or.inl ⟨rfl, fun e => by cases e⟩)
    · rw [abortThr_other htj (fun tl e => hw ⟨tl, e⟩)]; exact h

theorem idinv_run {U : List Nat} {s : St} (h : IdInv U s) (mvs : List Mv)
    (hnd : (U ++ againIds mvs).Nodup) : IdInv (U ++ againIds mvs) (runMv s mvs) := by
  induction mvs generalizing U s with
  | nil => simpa [againIds, runMv] using h
  | cons m ms ih =>
    cases m with
    | thr j => exact ih (idinv_stepThr h j) hnd
    | kernel => exact ih (idinv_stepKernel h) hnd
    | abort j => exact ih (idinv_abort h j) hnd
    | again j e =>
      have e1 : U ++ againIds (.again j e :: ms) = (U ++ [e]) ++ againIds ms := by
        simp [againIds]
      rw [e1] at hnd ⊢
      have he : e ∉ U := by
        have := (List.nodup_append.1 (List.nodup_append.1 hnd).1).2.2
        intro hm
        exact this e hm e (by simp) rfl
      exact ih (idinv_restart h j e he) hnd

theorem idinv_init (len h0 n : Nat) : IdInv (List.range n) (init len h0 n) := by
  have hget : ∀ (i : Nat) (t : Thr), (init len h0 n).thr[i]? = some t →
      i < n ∧ t = { pc := startPc (i % 3 == 2), entry := i } := by
    intro i t h1
    simp only [init, List.getElem?_map] at h1
    cases hr : (List.range n)[i]? with
    | none => rw [hr] at h1; cases h1
    | some v =>
      rw [hr] at h1; cases h1
      have hi : i < n := by
        rcases Nat.lt_or_ge i n with h2 | h2
        · exact h2
        · rw [List.getElem?_eq_none (by simpa using h2)] at hr; cases hr
      rw [List.getElem?_range hi] at hr
      cases hr
      exact ⟨hi, rfl⟩
  refine ⟨by simp [init], by simp [init], ?_, by simp [init], ?_, ?_⟩
  · intro i t hi
    rcases hget i t hi with ⟨a, b⟩
    rw [b]; simpa using a
  · intro i t hi hpc
    rcases hget i t hi with ⟨a, b⟩
    rw [b] at hpc; exact absurd hpc (startPc_ne_ok _)
  · intro i j ti tj hi hj hij _
    rcases hget i ti hi with ⟨_, b⟩
    rcases hget j tj hj with ⟨_, d⟩
    rw [b, d]; exact hij

/-- With pairwise distinct entry ids (those of `init`, `0..n-1`, and those of
all `again` moves), every id is published at most once and copied by the kernel
at most once; only ids that were handed to `add` are ever published; and the
entry of a call that answered `Ok` is in the published list (hence, by
`C04_exactly_once_in_order`, is copied by the kernel exactly once, as soon as
the head passes its position). -/
theorem C04_exactly_once_ids (len h0 n : Nat) (hw : WfLen len) (mvs : List Mv)
    (hd : (List.range n ++ againIds mvs).Nodup) :
    let s := runMv (init len h0 n) mvs
    s.accepted.Nodup ∧ s.consumed.Nodup ∧
    (∀ e ∈ s.accepted, e ∈ List.range n ++ againIds mvs) ∧
    (∀ (i : Nat) (t : Thr), s.thr[i]? = some t → t.pc = .ok → s.accepted.count t.entry = 1) ∧
    (∀ (i : Nat) (t : Thr), s.thr[i]? = some t → t.pc ≠ .ok → t.entry ∉ s.accepted) := by
  intro s
  have h : Inv h0 s := C04_invariant len h0 n hw mvs
  have hi : IdInv (List.range n ++ againIds mvs) s := idinv_run (idinv_init len h0 n) mvs hd
  refine ⟨hi.nodup, ?_, hi.accU, ?_, hi.fresh⟩
  · rw [h.cons]
    have : (s.accepted.take (s.H - h0)).Nodup := hi.nodup.sublist (List.take_sublist _ _)
    exact List.Pairwise.map some (fun a b hab e => hab (Option.some.inj e)) this
  · intro i t hti hpc
    rw [hi.nodup.count, if_pos (hi.okin i t hti hpc)]


/-! ### The statement of DESIGN.md §C04 in one theorem -/

/-- (i) never overrun; (ii) the kernel copies exactly the published entries, in
order, none torn; (iii) a writer never targets a slot of `[H, T)`; (iv) a thread
proceeds past the locked check only if there is room, and answers QueueFull
there only if the queue is full for the head it loaded. -/
theorem C04_full (len h0 n : Nat) (hw : WfLen len) (mvs : List Mv) :
    let s := runMv (init len h0 n) mvs
    (s.H ≤ s.T ∧ s.T - s.H ≤ s.len) ∧
    (s.consumed = (s.accepted.take (s.H - h0)).map some ∧ s.accepted.length = s.T - h0 ∧
      none ∉ s.consumed) ∧
    (∀ (i : Nat) (t : Thr) (tl : Nat), s.thr[i]? = some t → (t.pc = .w1 tl ∨ t.pc = .w2 tl) →
      ∀ j, s.H ≤ j → j < s.T → j % s.len ≠ tl % s.len) ∧
    (∀ (i : Nat) (t : Thr) (hd : Nat), s.thr[i]? = some t → t.pc = .a5 hd →
      (pcOf (stepThr s i).1 i = some (.w1 (tail32 s)) → s.T - s.H < s.len) ∧
      (pcOf (stepThr s i).1 i = some .full →
        ∃ H', h0 ≤ H' ∧ H' ≤ s.H ∧ hd = H' % 4294967296 ∧ s.T - H' = s.len)) := by
  intro s
  have e := C04_exactly_once_in_order len h0 n hw mvs
  refine ⟨C04_bounded len h0 n hw mvs, ⟨e.1, e.2.1, e.2.2.2⟩, ?_, ?_⟩
  · intro i t tl hti hpc
    exact (C04_no_overwrite len h0 n hw mvs i t tl hti hpc).1
  · intro i t hd hti hpc
    rcases C04_full_means_full len h0 n hw mvs i t hd hti hpc with ⟨H', a, b, c, _, f, g, k⟩
    exact ⟨fun hw1 => k (g.1 hw1), fun hf => ⟨H', a, b, c, f.1 hf⟩⟩

/-! ### Non-vacuity and wrap-around instances -/

/-- `k` consecutive micro-steps of thread `i` (a complete uncontended `add` is 8). -/
def steps (k i : Nat) : List Mv := List.replicate k (.thr i)

def pcs (s : St) : List Pc := s.thr.map (·.pc)

/-- The hypotheses are satisfiable: all ring sizes the kernel allows (and more). -/
example : WfLen 1 ∧ WfLen 2 ∧ WfLen 8 ∧ WfLen 32768 ∧ WfLen 2147483648 := by decide
example : ¬ WfLen 0 ∧ ¬ WfLen 3 ∧ ¬ WfLen 4294967296 := by decide

/-- len = 1, counters one step before the 32-bit wrap: both threads pass the
unlocked pre-check, thread 0 publishes (the tail word wraps to 0), thread 1's
*locked* check answers QueueFull; after the kernel consumed, thread 1 retries
and is accepted. -/
def wrapRun1 : List Mv :=
  [.thr 0, .thr 0, .thr 1, .thr 1] ++ steps 6 0 ++ [.thr 1, .thr 1, .thr 1]

/-- len = 2, counters one step before the wrap: thread 0 publishes two entries
(tail words `2^32-1 → 0 → 1`), thread 1's *unlocked* pre-check answers QueueFull. -/
def wrapRun2 : List Mv := steps 8 0 ++ [.again 0 2] ++ steps 8 0 ++ [.thr 1, .thr 1]

/-- The theorems apply to wrapped counters, and concrete interleavings of two
threads and the kernel in which a QueueFull is answered evaluate as expected. -/
theorem C04_wrap :
    -- instances of the general theorems at wrapped / about-to-wrap counters
    (∀ (len n : Nat) (mvs : List Mv), WfLen len →
      let s := runMv (init len (2 ^ 32 - 1) n) mvs
      s.T - s.H ≤ s.len ∧ s.consumed = (s.accepted.take (s.H - (2 ^ 32 - 1))).map some) ∧
    (∀ (len n : Nat) (mvs : List Mv), WfLen len →
      let s := runMv (init len (2 ^ 33 + 5) n) mvs
      s.T - s.H ≤ s.len ∧ s.consumed = (s.accepted.take (s.H - (2 ^ 33 + 5))).map some) ∧
    -- len = 1: QueueFull from the locked check, across the wrap
    (let s := runMv (init 1 4294967295 2) wrapRun1
     pcs s = [.ok, .full] ∧ s.T = 4294967296 ∧ tail32 s = 0 ∧ head32 s = 4294967295 ∧
       s.slots = [some 0] ∧ s.lock = none) ∧
    (let s := runMv (init 1 4294967295 2) (wrapRun1 ++ [.kernel, .again 1 7] ++ steps 8 1 ++ [.kernel])
     pcs s = [.ok, .ok] ∧ s.accepted = [0, 7] ∧ s.consumed = [some 0, some 7] ∧
       s.H = 4294967297) ∧
    -- len = 2: QueueFull from the unlocked pre-check, after the wrap
    (let s := runMv (init 2 4294967295 2) wrapRun2
     pcs s = [.ok, .full] ∧ tail32 s = 1 ∧ head32 s = 4294967295 ∧
       s.slots = [some 2, some 0] ∧ s.accepted = [0, 2]) ∧
    (let s := runMv (init 2 4294967295 2)
        (wrapRun2 ++ [.kernel, .again 1 9] ++ steps 8 1 ++ [.kernel, .kernel])
     pcs s = [.ok, .ok] ∧ s.consumed = [some 0, some 2, some 9]) ∧
    -- the same at h0 = 2^33 + 5 (several wraps earlier) and at 2^31
    (let s := runMv (init 2 (2 ^ 33 + 5) 2) wrapRun2
     pcs s = [.ok, .full] ∧ s.accepted = [0, 2]) ∧
    (let s := runMv (init 1 2147483648 2) wrapRun1
     pcs s = [.ok, .full]) := by
  refine ⟨?_, ?_, by decide, by decide, by decide, by decide, by decide, by decide⟩
  · intro len n mvs hw s
    exact ⟨(C04_bounded len _ n hw mvs).2, (C04_exactly_once_in_order len _ n hw mvs).1⟩
  · intro len n mvs hw s
    exact ⟨(C04_bounded len _ n hw mvs).2, (C04_exactly_once_in_order len _ n hw mvs).1⟩

/-! ### The repaired defects, as machine-checked witnesses

Everything below concerns *variants* of the model (`stepThrP` with the fullness
tests as parameters), not the model the theorems above are about. `fixedV`
reproduces the real model (`runP_fixed`); `oldA` has the locked test of the
code before the fix (`> len` instead of `≥ len`); `oldB` has the non-wrapping
(saturating) subtraction in `unsubmitted_submissions`, which feeds both the
unlocked pre-check and the `to_submit` argument of `io_uring_enter`. -/

structure Variant where
  /-- unlocked pre-check: `pre tail head len` = "full" -/
  pre : Nat → Nat → Nat → Bool
  /-- locked check -/
  post : Nat → Nat → Nat → Bool
  /-- `unsubmitted_submissions` as passed to `io_uring_enter`: `toSubmit tail head` -/
  toSubmit : Nat → Nat → Nat

def fixedV : Variant :=
  { pre := fun t h len => decide (wsub t h ≥ len),
    post := fun t h len => decide (wsub t h ≥ len),
    toSubmit := fun t h => wsub t h }

/-- (a) locked test `tail ⊖ head > len`. -/
def oldA : Variant := { fixedV with post := fun t h len => decide (wsub t h > len) }

/-- (b) `tail.saturating_sub(head)` in `unsubmitted_submissions`. -/
def oldB : Variant :=
  { fixedV with pre := fun t h len => decide (t - h ≥ len), toSubmit := fun t h => t - h }

/-- `stepThr` with the two fullness tests as parameters (state only). -/
def stepThrP (v : Variant) (s : St) (i : Nat) : St :=
  match s.thr[i]? with
  | none => s
  | some t =>
    match t.pc with
    | .a1 => setThr s i { t with pc := .a2 (head32 s) }
    | .a2 h =>
      if v.pre (tail32 s) h s.len then setThr s i { t with pc := .full }
      else setThr s i { t with pc := .a3 }
    | .a3 =>
      match s.lock with
      | none => { setThr s i { t with pc := .a4 } with lock := some i }
      | some _ => s
    | .a4 => setThr s i { t with pc := .a5 (head32 s) }
    | .a5 h =>
      if v.post (tail32 s) h s.len then
        { setThr s i { t with pc := .full } with lock := none }
      else setThr s i { t with pc := .w1 (tail32 s) }
    | .w1 tl =>
      { setThr s i { t with pc := .w2 tl } with slots := s.slots.set (tl % s.len) none }
    | .w2 tl =>
      { setThr s i { t with pc := .a6 tl } with slots := s.slots.set (tl % s.len) (some t.entry) }
    | .a6 _ =>
      { setThr s i { t with pc := .ok } with
          T := s.T + 1, lock := none, accepted := s.accepted ++ [t.entry] }
    | .ok => s
    | .full => s

/-- Moves of the variant system: as `Mv`, plus `enter` = `io_uring_enter` with
`to_submit = unsubmitted_submissions()`, where the kernel consumes
`min(to_submit, T − H)` entries (the non-SQPOLL way entries reach the kernel). -/
inductive MvP where
  | thr (i : Nat)
  | kernel
  | again (i : Nat) (entry : Nat)
  | enter
  | abort (i : Nat)
  deriving Repr, DecidableEq

def kernelN : Nat → St → St
  | 0, s => s
  | k + 1, s => kernelN k (stepKernel s).1

def stepP (v : Variant) (s : St) : MvP → St
  | .thr i => stepThrP v s i
  | .kernel => (stepKernel s).1
  | .again i e => (restart s i e).1
  | .enter => kernelN (v.toSubmit (tail32 s) (head32 s)) s
  | .abort i => abortThr s i

def runP (v : Variant) (s : St) : List MvP → St
  | [] => s
  | m :: ms => runP v (stepP v s m) ms

def MvP.ofMv : Mv → MvP
  | .thr i => .thr i
  | .kernel => .kernel
  | .again i e => .again i e
  | .abort i => .abort i

theorem stepThrP_fixed (s : St) (i : Nat) : stepThrP fixedV s i = (stepThr s i).1 := by
  unfold stepThrP stepThr
  cases s.thr[i]? with
  | none => rfl
  | some t =>
    simp only
    cases t.pc <;> simp only [fixedV, decide_eq_true_eq] <;>
      first | rfl | (split <;> rfl) | (cases s.lock <;> rfl)

/-- The parametrised system instantiated with the repaired tests is the real model. -/
theorem runP_fixed (s : St) (mvs : List Mv) : runP fixedV s (mvs.map MvP.ofMv) = runMv s mvs := by
  induction mvs generalizing s with
  | nil => rfl
  | cons m ms ih =>
    cases m with
    | thr i => simp only [List.map, runP, runMv, MvP.ofMv, stepP, stepMv, stepThrP_fixed]; exact ih _
    | kernel => exact ih _
    | again i e => exact ih _
    | abort i => exact ih _

def stepsP (k i : Nat) : List MvP := List.replicate k (.thr i)

/-- (a) len = 2, one entry pending (`H = 0, T = 1`); threads 0 and 1 both pass
the unlocked check; thread 0 publishes (`T = 2`: full); thread 1 takes the lock. -/
def overrunRun : List MvP :=
  stepsP 8 0 ++ [.again 0 2] ++ [.thr 0, .thr 0, .thr 1, .thr 1] ++ stepsP 6 0 ++ stepsP 3 1

/-- (b) h0 = 2^32 − 1: one `add` (the tail word wraps to 0), then `enter`. -/
def wrapRunB : List MvP := stepsP 8 0 ++ [.enter]

/-- The two defects repaired before `C04` could be proved, as witnesses on the
variants `oldA` / `oldB` (and the same runs on `fixedV` for contrast). -/
theorem C04_old_check_overruns :
    -- (a) with `> len`: thread 1's locked test `2 > 2` fails to report full; its `w1`
    -- step resets slot 0, which holds the unconsumed entry 0 (`H = 0`): the kernel
    -- then reads a torn entry ...
    (let s := runP oldA (init 2 0 2) (overrunRun ++ [.thr 1])
     pcs s = [.ok, .w2 2] ∧ s.H = 0 ∧ s.T = 2 ∧ s.accepted = [0, 2] ∧ s.slots = [none, some 2]) ∧
    (let s := runP oldA (init 2 0 2) (overrunRun ++ [.thr 1, .kernel])
     s.consumed = [none]) ∧
    -- ... or, if thread 1 completes first, `T − H = 3 > len`, entry 0 is lost and
    -- entry 1 reaches the kernel twice.
    (let s := runP oldA (init 2 0 2) (overrunRun ++ stepsP 3 1 ++ [.kernel, .kernel, .kernel])
     pcs s = [.ok, .ok] ∧ s.accepted = [0, 2, 1] ∧ s.consumed = [some 1, some 2, some 1]) ∧
    (let s := runP oldA (init 2 0 2) (overrunRun ++ stepsP 3 1)
     s.T - s.H = 3 ∧ s.len = 2) ∧
    -- the repaired test answers QueueFull in the same interleaving
    (let s := runP fixedV (init 2 0 2) overrunRun
     pcs s = [.ok, .full] ∧ s.slots = [some 0, some 2] ∧ s.lock = none) ∧
    -- (b) with the saturating subtraction: after the tail word wrapped, `enter`
    -- passes `to_submit = 0`, the published entry is not consumed ...
    (let s := runP oldB (init 2 4294967295 2) wrapRunB
     s.accepted = [0] ∧ s.consumed = [] ∧ s.T - s.H = 1 ∧
       oldB.toSubmit (tail32 s) (head32 s) = 0 ∧ fixedV.toSubmit (tail32 s) (head32 s) = 1) ∧
    (let s := runP fixedV (init 2 4294967295 2) wrapRunB
     s.consumed = [some 0]) ∧
    -- ... nor is any later one, so the ring fills up and from then on every `add`
    -- answers QueueFull although `enter` is called in between: nothing is accepted
    -- any more. (With *both* old tests the third `add` overruns instead.)
    (let s := runP oldB (init 2 4294967295 2)
        (wrapRunB ++ [.again 0 2] ++ stepsP 8 0 ++ [.enter, .again 0 3] ++ stepsP 5 0 ++
          [.enter] ++ stepsP 5 1 ++ [.enter, .again 0 4] ++ stepsP 5 0)
     pcs s = [.full, .full] ∧ s.accepted = [0, 2] ∧ s.consumed = [] ∧ s.T - s.H = s.len) ∧
    -- the unlocked pre-check of `oldB` lets a thread through on a full ring
    -- (the repaired pre-check answers QueueFull)
    (let mvs := stepsP 8 0 ++ [.again 0 2] ++ stepsP 8 0 ++ [.thr 1, .thr 1]
     pcs (runP oldB (init 2 4294967295 2) mvs) = [.ok, .a3] ∧
     pcs (runP fixedV (init 2 4294967295 2) mvs) = [.ok, .full]) := by
  refine ⟨by decide, by decide, by decide, by decide, by decide, by decide, by decide,
    by decide, by decide⟩

end A10.SqRing
