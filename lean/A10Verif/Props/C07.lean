/-
C07 — Each descriptor owned by an AsyncFd is closed exactly once, the right way.

Statement (properties.jsonl): while its Ring exists, each descriptor owned by
an AsyncFd is closed exactly once: when the AsyncFd is dropped (through the
ring, or synchronously when the submission queue is full) or when
AsyncFd::close completes — regular descriptors as regular, direct descriptors
as direct, and the standard-stream handles never. Every descriptor the kernel
returns for an operation (open, socket, accept, pipe, descriptor conversions)
ends up owned by exactly one AsyncFd of the requested kind, or is closed if
the operation had been abandoned.

Model: `A10Verif/Model/Fds.lean` (tied to src/fd.rs, src/io_uring/fd.rs,
src/io/mod.rs, src/io_uring/{io,net,fs,pipe}.rs by the `fds` correspondence
component), over the operation state machine `A10Verif/Model/Op.lean`.
Invariant and its preservation: `A10Verif/Lemmas/Fds.lean`.

Every theorem quantifies over ALL runs: any ring configuration with
`3 ≤ fileLo` (the standard streams are open, so the kernel never returns
0, 1, 2), any list of steps (creating operations, polling and dropping
futures, dropping AsyncFds with a full or non-full queue, explicit closes,
kernel answers with any fresh descriptor numbers below 2^31 — including numbers
that were closed earlier — or errors, among them EINVAL ("kernel too old"),
after which the poll of a `pipe` future calls `pipe2(2)` synchronously, with
any answer of that call: two fresh regular descriptors or an errno —,
`Ring::poll`). The environment's
contract (KC8: returned numbers are not open at that moment, are within the
table, are non-negative `i32`s) is the guard `Sys.kernelOk` of the kernel's
move `Sys.kpost`; the user contract (Rust's borrow rules: an AsyncFd borrowed
by a live future cannot be dropped or closed) is the guard `Sys.borrowed`.

The full statement fails on the code as it is (`C07_full_fails`): a
descriptor delivered to an ABANDONED operation is never wrapped and never
closed. `C07_partial` is the statement for runs without that event.
-/
import A10Verif.Lemmas.Fds

namespace A10.Fds

open A10

/-! ### The descriptor word and the close encodings -/

/-- Round trip of the descriptor word for every descriptor number below 2^31,
for both kinds: `kind()` and `fd()` recover what `from_raw` stored. -/
theorem C07_encoding (fd : Nat) (k : Kind) (h : fd < 2147483648) :
    kindOf (fromRaw fd k) = k ∧ fdOf (fromRaw fd k) = fd :=
  ⟨kindOf_fromRaw fd k h, fdOf_fromRaw fd k h⟩

/-- The CLOSE submission: a direct descriptor is named by `file_index = fd + 1`
and never touches the regular table (`sqe.fd` stays 0 and is ignored by the
kernel because `file_index ≠ 0`); a regular descriptor is named by `sqe.fd`
with `file_index = 0` and never touches the direct table. Release profile
(`fd + 1` wraps), every `fd < 2^31`. -/
theorem C07_encoding_close (fd : Nat) (h : fd < 2147483648) :
    (closeFileFd fd .direct).target = (.direct, fd) ∧ (closeFileFd fd .direct).fileIndex = fd + 1 ∧
    (closeFileFd fd .file).target = (.file, fd) ∧ (closeFileFd fd .file).fileIndex = 0 := by
  refine ⟨target_closeFileFd fd .direct h, ?_, target_closeFileFd fd .file h, rfl⟩
  simp only [closeFileFd]
  omega

/-- The same in the dev profile (overflow checks on): no panic and the same
request for every index a kernel can hand out (`fd + 1 < 2^31`); the only
other value, `i32::MAX`, panics instead of closing anything. -/
theorem C07_encoding_close_dev (fd : Nat) (k : Kind) :
    (fd + 1 < 2147483648 → closeFileFdChecked fd k = some (closeFileFd fd k)) ∧
    (closeFileFdChecked fd k = none → k = .direct ∧ 2147483648 ≤ fd + 1) := by
  cases k
  · simp [closeFileFdChecked, closeFileFd]
  · simp only [closeFileFdChecked, closeFileFd]
    constructor
    · intro h
      have : (fd + 1) % 4294967296 = fd + 1 := by omega
      simp [h, this]
    · intro h
      split at h
      · cases h
      · exact ⟨by trivial, by omega⟩

/-- The synchronous fallback addresses the same table and number. -/
theorem C07_encoding_sync (fd : Nat) (k : Kind) (h : fd < 2147483648) :
    syncTarget (fdOf (fromRaw fd k)) (kindOf (fromRaw fd k)) = (k, fd) := by
  rw [kindOf_fromRaw fd k h, fdOf_fromRaw fd k h]
  rfl

example : kindOf (fromRaw 2147483647 .direct) = .direct ∧ fdOf (fromRaw 2147483647 .direct) = 2147483647 ∧
    kindOf (fromRaw 0 .direct) = .direct ∧ (closeFileFd 0 .direct).target = (.direct, 0) ∧
    (closeFileFd 0 .file).target = (.file, 0) := by decide

/-! ### Runs -/

/-- Every state reachable from a freshly built ring. -/
def Reachable (s : Sys) : Prop :=
  ∃ (sqLen slotLo slots fileLo fileHi : Nat) (steps : List Step),
    3 ≤ fileLo ∧ s = run (start sqLen slotLo slots fileLo fileHi) steps

theorem reachable_inv {s : Sys} (h : Reachable s) : Inv s := by
  obtain ⟨sqLen, slotLo, slots, fileLo, fileHi, steps, hlo, rfl⟩ := h
  exact run_inv steps (start_inv sqLen slotLo slots fileLo fileHi hlo)

/-- No descriptor is closed twice, no close request ever misses (`strays`:
requests that hit no open descriptor — a double close, a wrong number or the
wrong table), and the kernel only ever closed descriptors whose own AsyncFd
had asked for it (`closed` is only reached from `released`): a descriptor that
is still owned, still held by an operation or by an unsubmitted `Close`
future, lost or forfeited has `closes = 0` — nobody else's close request hit
it, even when its number had been used by an earlier descriptor. -/
theorem C07_closes_le_one {s : Sys} (h : Reachable s) :
    s.strays = 0 ∧
    ∀ (d : Nat) (e : Desc), s.descs[d]? = some e →
      e.closes ≤ 1 ∧ (e.closes = 1 ↔ e.st = .closed) := by
  have hi := reachable_inv h
  refine ⟨hi.strays, fun d e he => ?_⟩
  have x := hi.desc d e he
  by_cases hs : e.st = .closed
  · have := x.closed hs
    exact ⟨by omega, ⟨fun _ => hs, fun _ => this⟩⟩
  · have := x.opn hs
    exact ⟨by omega, ⟨fun c => by omega, fun c => absurd c hs⟩⟩

/-- Closed the right way: (1) every live AsyncFd that is not a standard-stream
wrapper holds the word of an open descriptor of the kernel — `kind()` is the
table the kernel put it in, `fd()` its number there; (2) every outstanding
close request (CLOSE submissions of dropped AsyncFds and of `Close` futures)
names, in the kernel's reading of the submission, the table and number of an
open descriptor whose AsyncFd is gone, and no two outstanding requests name
the same descriptor. -/
theorem C07_right_kind {s : Sys} (h : Reachable s) :
    (∀ (a : Nat) (hd : Handle), s.handles[a]? = some hd → hd.live = true → hd.std = false →
      ∃ (d : Nat) (e : Desc), s.descs[d]? = some e ∧ e.st = .owned a ∧ e.closes = 0 ∧
        kindOf hd.word = e.kind ∧ fdOf hd.word = e.raw) ∧
    (∀ t ∈ s.targets, ∃ (d : Nat) (e : Desc), s.descs[d]? = some e ∧ e.st = .released ∧
        e.closes = 0 ∧ (e.kind, e.raw) = t) ∧
    s.targets.Nodup := by
  have hi := reachable_inv h
  refine ⟨fun a hd ha hl hs => ?_, fun t ht => ?_, hi.nodup⟩
  · obtain ⟨d, e, he, hst⟩ := (hi.hand a hd ha hl).2 hs
    have x := hi.desc d e he
    obtain ⟨hd', g1, _, _, g4⟩ := x.own a hst
    rw [ha] at g1; cases g1
    exact ⟨d, e, he, hst, x.opn (by simp [hst]), by rw [g4]; exact kindOf_fromRaw _ _ x.raw,
      by rw [g4]; exact fdOf_fromRaw _ _ x.raw⟩
  · obtain ⟨d, e, he, hst, hk⟩ := hi.tgt t ht
    exact ⟨d, e, he, hst, (hi.desc d e he).opn (by simp [hst]), hk⟩

/-- The standard streams are never closed: no close request the kernel ever
executed and no outstanding one names descriptor 0, 1 or 2 of the regular
table; and dropping a standard-stream wrapper issues nothing at all. -/
theorem C07_std_never {s : Sys} (h : Reachable s) :
    (∀ t ∈ s.closeLog ++ s.targets, t.1 = .file → 3 ≤ t.2) ∧
    (∀ (a : Nat) (hd : Handle), s.handles[a]? = some hd → hd.std = true →
      (s.dropH a).1.sq = s.sq ∧ (s.dropH a).1.closeLog = s.closeLog ∧ (s.dropH a).1.descs = s.descs ∧
      (s.dropH a).1.strays = s.strays) := by
  have hi := reachable_inv h
  constructor
  · intro t ht hk
    rcases List.mem_append.mp ht with h1 | h1
    · exact hi.log t h1 hk
    · obtain ⟨d, e, he, _, hkey⟩ := hi.tgt t h1
      have x := hi.desc d e he
      rw [← hkey] at hk ⊢
      exact x.std hk
  · intro a hd ha hs
    unfold Sys.dropH
    simp only [ha]
    split
    · refine ⟨?_, ?_, ?_, ?_⟩ <;> trivial
    · refine ⟨?_, ?_, ?_, ?_⟩ <;> trivial

/-- Owned exactly once: a descriptor is wrapped in at most one AsyncFd over its
whole life (`wraps ≤ 1`, and exactly one as soon as it has left the operation
that received it); while it is owned, its AsyncFd is live, is not a
standard-stream wrapper and carries exactly `from_raw(number, kind)` with the
kind the kernel was asked for; no other descriptor is owned by that AsyncFd. -/
theorem C07_owned_once {s : Sys} (h : Reachable s) :
    ∀ (d : Nat) (e : Desc), s.descs[d]? = some e →
      e.wraps ≤ 1 ∧
      (e.wraps = 0 ↔ ((∃ i, e.st = .pending i) ∨ e.st = .lost)) ∧
      (∀ a, e.st = .owned a →
        (∃ hd, s.handles[a]? = some hd ∧ hd.live = true ∧ hd.std = false ∧
          hd.word = fromRaw e.raw e.kind) ∧
        (∀ (d' : Nat) (e' : Desc), s.descs[d']? = some e' → e'.st = .owned a → d' = d)) := by
  have hi := reachable_inv h
  intro d e he
  have x := hi.desc d e he
  refine ⟨?_, ?_, fun a ha => ⟨x.own a ha, fun d' e' he' ha' => hi.owned_unique he' he ha' ha⟩⟩
  · by_cases hp : (∃ i, e.st = .pending i) ∨ e.st = .lost
    · have := x.wr0 hp; omega
    · have := x.wr1 hp; omega
  · constructor
    · intro h0
      by_cases hp : (∃ i, e.st = .pending i) ∨ e.st = .lost
      · exact hp
      · have := x.wr1 hp; omega
    · exact x.wr0

/-! ### The full statement -/

/-- Nothing is queued and no live future holds a descriptor it has not handed
out or a close it has not submitted. -/
def Quiescent (s : Sys) : Prop :=
  s.sq = [] ∧ ∀ (d : Nat) (e : Desc), s.descs[d]? = some e →
    (∀ i, e.st ≠ .pending i) ∧ (∀ j, e.st ≠ .closeFut j)

/-- Hypothesis made explicit: every `Close` future is polled until it is
submitted (a `Close` future dropped before that never closes, by construction
of `AsyncFd::close`; the property's wording "when AsyncFd::close completes"
excludes it). -/
def ClosePolled (s : Sys) : Prop :=
  ∀ (d : Nat) (e : Desc), s.descs[d]? = some e → e.st ≠ .forfeited

/-- No descriptor was delivered to an abandoned operation. -/
def NoneAbandoned (s : Sys) : Prop :=
  ∀ (d : Nat) (e : Desc), s.descs[d]? = some e → e.st ≠ .lost

/-- Closed exactly once, or owned by a live AsyncFd. -/
def Settled (s : Sys) (e : Desc) : Prop :=
  e.closes = 1 ∨ ∃ (a : Nat) (hd : Handle), e.st = .owned a ∧ s.handles[a]? = some hd ∧ hd.live = true

/-- The full statement: at quiescence, with the Ring alive, every descriptor
the kernel returned has been closed exactly once or has a live owner. -/
def C07_full : Prop :=
  ∀ (s : Sys), Reachable s → Quiescent s → ClosePolled s →
    ∀ (d : Nat) (e : Desc), s.descs[d]? = some e → Settled s e

/-- The full statement holds for every run in which no descriptor-bearing
completion is consumed by, or discarded with, an abandoned operation. -/
theorem C07_partial (s : Sys) (h : Reachable s) (hq : Quiescent s) (hc : ClosePolled s)
    (hn : NoneAbandoned s) :
    ∀ (d : Nat) (e : Desc), s.descs[d]? = some e → Settled s e := by
  have hi := reachable_inv h
  intro d e he
  have x := hi.desc d e he
  obtain ⟨hsq, hdq⟩ := hq
  cases hst : e.st with
  | pending i => exact absurd hst ((hdq d e he).1 i)
  | closeFut j => exact absurd hst ((hdq d e he).2 j)
  | lost => exact absurd hst (hn d e he)
  | forfeited => exact absurd hst (hc d e he)
  | closed => exact Or.inl (x.closed hst)
  | released =>
    have := x.rel hst
    unfold Sys.targets at this
    rw [hsq] at this
    simp at this
  | owned a =>
    obtain ⟨hd, g1, g2, _, _⟩ := x.own a hst
    exact Or.inr ⟨a, hd, hst, g1, g2⟩

/-- The counterexample: `open` is submitted and consumed, its future is
dropped (the cancel is queued), the kernel completes the open with descriptor
200 anyway, the ring is polled. The descriptor is never wrapped, never closed. -/
def abandonedRun : List Step :=
  [.newOp .open .file 0, .poll 0, .rpoll, .dropOp 0, .kpost 0 (.ok [200]) false, .rpoll]

theorem abandonedRun_state :
    (run (start 4 0 4 200 456) abandonedRun).descs = [{ kind := .file, raw := 200, st := .lost }] ∧
    (run (start 4 0 4 200 456) abandonedRun).sq = [] := by
  decide

/-- The full statement does not hold for the code as it is. -/
theorem C07_full_fails : ¬ C07_full := by
  intro hf
  obtain ⟨hd, hsq⟩ := abandonedRun_state
  have hr : Reachable (run (start 4 0 4 200 456) abandonedRun) :=
    ⟨4, 0, 4, 200, 456, abandonedRun, by decide, rfl⟩
  have hq : Quiescent (run (start 4 0 4 200 456) abandonedRun) := by
    refine ⟨hsq, fun d e he => ?_⟩
    rw [hd] at he
    cases d with
    | zero => simp at he; subst he; simp
    | succ d => simp at he
  have hc : ClosePolled (run (start 4 0 4 200 456) abandonedRun) := by
    intro d e he
    rw [hd] at he
    cases d with
    | zero => simp at he; subst he; simp
    | succ d => simp at he
  have := hf _ hr hq hc 0 { kind := .file, raw := 200, st := .lost } (by rw [hd]; rfl)
  rcases this with c | ⟨a, hdl, c, _⟩
  · simp at c
  · simp at c

/-- The same happens when the result is already stored in the operation state
and the future is dropped before reading it, and with the queued and late
results of a multishot accept. -/
example :
    ((run (start 4 0 4 200 456)
      [.newOp .socket .direct 0, .poll 0, .rpoll, .kpost 0 (.ok [1]) false, .dropOp 0, .rpoll]).descs.map
        (fun e => (e.st, e.closes))) = [(.lost, 0)] := by decide

example :
    ((run (start 4 0 4 200 456)
      [.newOp .socket .file 0, .poll 0, .rpoll, .kpost 0 (.ok [200]) false, .poll 0,
       .newOp .maccept .file 0, .poll 1, .rpoll, .kpost 1 (.ok [201]) true, .kpost 1 (.ok [202]) true,
       .poll 1, .dropOp 1, .kpost 1 (.ok [203]) true, .kpost 1 (.err 125) false,
       .dropH 0, .dropH 1, .rpoll]).descs.map (fun e => (e.raw, e.st, e.closes))) =
      [(200, .closed, 1), (201, .closed, 1), (202, .lost, 0), (203, .lost, 0)] := by decide

/-! ### The old-kernel fallback of `pipe` (EINVAL → synchronous `pipe2`) -/

theorem Reachable.step {s : Sys} (h : Reachable s) (st : Step) : Reachable (s.next st) := by
  obtain ⟨sqLen, slotLo, slots, fileLo, fileHi, steps, hlo, rfl⟩ := h
  exact ⟨sqLen, slotLo, slots, fileLo, fileHi, steps ++ [st], hlo, by simp [run, List.foldl_append]⟩

theorem reachable_sync {s : Sys} (h : Reachable s) : SyncOk s := by
  obtain ⟨sqLen, slotLo, slots, fileLo, fileHi, steps, _, rfl⟩ := h
  exact run_sync steps (start_sync sqLen slotLo slots fileLo fileHi)

/-- The descriptors created by the fallback (`PipeOp::fallback`: the kernel answered EINVAL to
`IORING_OP_PIPE`, the poll called `pipe2(2)`; ghost mark `Desc.sync`), in EVERY reachable state,
whatever kind the caller had requested (`.kind(Direct)` included): they are REGULAR descriptors;
each has been wrapped in exactly one AsyncFd (`wraps = 1`: it never sits unwrapped in an
operation and is never lost, abandoned futures included); while owned, its AsyncFd is live, is
of kind File (`kind()` of its word) and carries exactly that number, and owns nothing else; the
exactly-once ledger covers it: it is never closed twice, it is closed only through the request
of its own AsyncFd, and at quiescence it has been closed exactly once or has a live owner —
without the `NoneAbandoned` hypothesis the completion-delivered descriptors need. -/
theorem C07_pipe_fallback_regular {s : Sys} (h : Reachable s) :
    ∀ (d : Nat) (e : Desc), s.descs[d]? = some e → e.sync = true →
      e.kind = .file ∧ 3 ≤ e.raw ∧ e.raw < 2147483648 ∧ e.wraps = 1 ∧
      (∀ i, e.st ≠ .pending i) ∧ e.st ≠ .lost ∧
      e.closes ≤ 1 ∧ (e.closes = 1 ↔ e.st = .closed) ∧
      (∀ a, e.st = .owned a →
        (∃ hd, s.handles[a]? = some hd ∧ hd.live = true ∧ hd.std = false ∧
          kindOf hd.word = .file ∧ fdOf hd.word = e.raw) ∧
        (∀ (d' : Nat) (e' : Desc), s.descs[d']? = some e' → e'.st = .owned a → d' = d)) ∧
      (e.st = .released → (Kind.file, e.raw) ∈ s.targets) ∧
      (Quiescent s → ClosePolled s → Settled s e) := by
  have hi := reachable_inv h
  have hs := reachable_sync h
  intro d e he hsync
  have x := hi.desc d e he
  obtain ⟨hkind, hwr⟩ := hs e (List.mem_of_getElem? he) hsync
  have hnp : ¬ ((∃ i, e.st = .pending i) ∨ e.st = .lost) := by
    intro c
    have := x.wr0 c
    omega
  have hw1 : e.wraps = 1 := x.wr1 hnp
  have hcl := (C07_closes_le_one h).2 d e he
  refine ⟨hkind, x.std hkind, x.raw, hw1, fun i c => hnp (Or.inl ⟨i, c⟩), fun c => hnp (Or.inr c),
    hcl.1, hcl.2, ?_, ?_, ?_⟩
  · intro a ha
    obtain ⟨hd, g1, g2, g3, g4⟩ := x.own a ha
    refine ⟨⟨hd, g1, g2, g3, ?_, ?_⟩, fun d' e' he' ha' => hi.owned_unique he' he ha' ha⟩
    · rw [g4, kindOf_fromRaw _ _ x.raw]; exact hkind
    · rw [g4, fdOf_fromRaw _ _ x.raw]
  · intro hr
    have := x.rel hr
    rw [hkind] at this
    exact this
  · intro hq hc
    obtain ⟨hsq, hdq⟩ := hq
    cases hst : e.st with
    | pending i => exact absurd ⟨i, hst⟩ (fun c => hnp (Or.inl c))
    | closeFut j => exact absurd hst ((hdq d e he).2 j)
    | lost => exact absurd (Or.inr hst) hnp
    | forfeited => exact absurd hst (hc d e he)
    | closed => exact Or.inl (x.closed hst)
    | released =>
      have := x.rel hst
      unfold Sys.targets at this
      rw [hsq] at this
      simp at this
    | owned a =>
      obtain ⟨hd, g1, g2, _, _⟩ := x.own a hst
      exact Or.inr ⟨a, hd, hst, g1, g2⟩

theorem map_eq_self {l : List Desc} {g : Desc → Desc} (h : ∀ e ∈ l, g e = e) : l.map g = l := by
  induction l with
  | nil => rfl
  | cons a t ih =>
    simp only [List.map_cons]
    rw [h a (by simp), ih (fun e he => h e (by simp [he]))]

/-- Ledger entry of a descriptor the fallback created: regular, number `r`, wrapped once, owned
by AsyncFd number `h`. -/
def fbDesc (r h : Nat) : Desc := { kind := .file, raw := r, st := .owned h, wraps := 1, sync := true }

/-- The AsyncFd `AsyncFd::from_raw(r, fd::Kind::File, sq)`. -/
def fbHandle (r : Nat) : Handle := { word := fromRaw r .file }

/-- The step that creates them, exactly: a live `pipe` future whose operation finished with
`-EINVAL` is polled, `pipe2` returns `[r1, r2]` (any two numbers the kernel may return: not open,
distinct, in range). Whatever kind `o.req` the caller asked for, the ledger gains exactly two
REGULAR descriptors, each owned by exactly one new AsyncFd whose word is `from_raw(r, File)`
(so `kind() = File`, `fd() = r`), nothing else changes in the ledger, nothing is queued, no
direct slot is named anywhere; the new state is reachable, so every theorem of this file applies
to it. -/
theorem C07_pipe_fallback_creates {s : Sys} (h : Reachable s) (i : Nat) (o : FOp) (r1 r2 : Nat)
    (hio : s.ops[i]? = some o) (hd : o.pipe2Due = true) (hk : s.kernelOk .file [r1, r2] = true) :
    (s.next (.pollFb i (.ok [r1, r2]))).descs =
      s.descs ++ [fbDesc r1 s.handles.length, fbDesc r2 (s.handles.length + 1)] ∧
    (s.next (.pollFb i (.ok [r1, r2]))).handles = s.handles ++ [fbHandle r1, fbHandle r2] ∧
    kindOf (fromRaw r1 .file) = .file ∧ fdOf (fromRaw r1 .file) = r1 ∧
    kindOf (fromRaw r2 .file) = .file ∧ fdOf (fromRaw r2 .file) = r2 ∧
    (s.next (.pollFb i (.ok [r1, r2]))).sq = s.sq ∧
    (s.next (.pollFb i (.ok [r1, r2]))).closeLog = s.closeLog ∧
    Reachable (s.next (.pollFb i (.ok [r1, r2]))) := by
  have hi := reachable_inv h
  have ho := hi.op i o hio
  obtain ⟨hkind, _, _⟩ := pipe2Due_elim hd
  have hm : o.op.multi = false := ho.single (by rw [hkind]; simp)
  have hk' := hk
  unfold Sys.kernelOk at hk'
  simp only [Bool.and_eq_true, decide_eq_true_eq, List.all_eq_true, Bool.not_eq_eq_eq_not,
    Bool.not_true, decide_eq_false_iff_not] at hk'
  obtain ⟨hnd, hall⟩ := hk'
  have hne : r1 ≠ r2 := by
    intro c; subst c; simp at hnd
  obtain ⟨⟨hlt1, _⟩, hf1⟩ := hall r1 (by simp)
  obtain ⟨⟨hlt2, _⟩, hf2⟩ := hall r2 (by simp)
  have hstep : s.next (.pollFb i (.ok [r1, r2])) =
      (Sys.wrap { s with
        ops := s.ops.set i { o with op :=
          { o.op with status := .complete, resInit := false, resDrops := o.op.resDrops + 1 } },
        descs := s.descs ++ [Desc.freshS true .file (.pending i) r1, Desc.freshS true .file (.pending i) r2] }
        i .file [r1, r2]).1 := by
    show (s.pollFb i (.ok [r1, r2])).1 = _
    unfold Sys.pollFb
    simp only [hio, hd, hk, pollCore_due hio hd hm]
    simp
  refine ⟨?_, ?_, kindOf_fromRaw _ _ hlt1, fdOf_fromRaw _ _ hlt1, kindOf_fromRaw _ _ hlt2,
    fdOf_fromRaw _ _ hlt2, ?_, ?_, h.step _⟩
  · rw [hstep]
    simp only [Sys.wrap, List.map_append, List.map_map]
    congr 1
    · apply map_eq_self
      intro e he
      have n1 : ¬ (e.st = .pending i ∧ e.kind = .file ∧ e.raw = r1 ∧ e.closes = 0) :=
        fun c => hf1 e he ⟨c.2.1, c.2.2.1, c.2.2.2⟩
      have n2 : ¬ (e.st = .pending i ∧ e.kind = .file ∧ e.raw = r2 ∧ e.closes = 0) :=
        fun c => hf2 e he ⟨c.2.1, c.2.2.1, c.2.2.2⟩
      simp [n1, n2]
    · have hne' : ¬ r2 = r1 := fun c => hne c.symm
      simp [Desc.freshS, fbDesc, hne, hne']
  · rw [hstep]
    simp [Sys.wrap, fbHandle]
  · rw [hstep]
    exact (wrap_frame _ i .file [r1, r2]).1
  · rw [hstep]
    simp [Sys.wrap]

/-- `pipe2` runs only inside the poll of a LIVE pipe future that reads `-EINVAL`: for any other
operation — dropped before that poll (abandoned: then the EINVAL completion only frees the
state), still running, of another kind, or holding another error — the step does not exist
(nothing changes at all), and the plain poll of such a future never creates a descriptor by a
system call. If `pipe2` itself fails, the future resolves with that error and the ledger, the
AsyncFds, the queue and the kernel's close log are exactly as before. -/
theorem C07_pipe_fallback_only_live_poll (s : Sys) (i : Nat) (fb : Fb) :
    ((∀ o, s.ops[i]? = some o → o.pipe2Due = false) → s.next (.pollFb i fb) = s) ∧
    (∀ o, s.ops[i]? = some o → o.op.futLive = false → o.pipe2Due = false) ∧
    (∀ e, (s.next (.pollFb i (.fail e))).descs = s.descs ∧
      (s.next (.pollFb i (.fail e))).handles = s.handles ∧
      (s.next (.pollFb i (.fail e))).sq = s.sq ∧
      (s.next (.pollFb i (.fail e))).closeLog = s.closeLog) := by
  refine ⟨?_, ?_, ?_⟩
  · intro hnd
    show (s.pollFb i fb).1 = s
    unfold Sys.pollFb
    cases hio : s.ops[i]? with
    | none => rfl
    | some o => simp [hnd o hio]
  · intro o _ hl
    unfold FOp.pipe2Due
    simp [hl]
  · intro e
    show (s.pollFb i (.fail e)).1.descs = s.descs ∧ (s.pollFb i (.fail e)).1.handles = s.handles ∧
      (s.pollFb i (.fail e)).1.sq = s.sq ∧ (s.pollFb i (.fail e)).1.closeLog = s.closeLog
    unfold Sys.pollFb
    cases hio : s.ops[i]? with
    | none => exact ⟨rfl, rfl, rfl, rfl⟩
    | some o =>
      simp only []
      cases hd : o.pipe2Due with
      | false => exact ⟨rfl, rfl, rfl, rfl⟩
      | true =>
        simp only [Bool.not_true, Bool.false_eq_true, if_false]
        split
        · exact ⟨rfl, rfl, rfl, rfl⟩
        · obtain ⟨_, hl, r, x, r', hs, hn, hx⟩ := pipe2Due_elim hd
          -- the poll reads an error: nothing is submitted, nothing is wrapped
          have hp : ∃ op', (o.op.poll i s.sqRoom).1 = op' ∧ (o.op.poll i s.sqRoom).2.2 = [] ∧
              ∃ e', (o.op.poll i s.sqRoom).2.1 = .readyErr e' := by
            unfold Op.poll Op.pollAux
            cases o.op.multi <;> simp [hs, hn, hx, EINTR, ECANCELED]
          obtain ⟨op', _, h2, e', h3⟩ := hp
          unfold Sys.pollCore
          simp only [hio, hl]
          generalize o.op.poll i s.sqRoom = p at h2 h3
          obtain ⟨op1, out, effs⟩ := p
          simp only at h2 h3
          subst h2 h3
          simp

/-- An EINVAL completion — like every error completion, for every kind of operation (open,
socket, accept, multishot accept, the conversions, pipe) — creates nothing: no descriptor, no
AsyncFd, no close request. (What the caller sees is `ErrorKind::Unsupported` from the default
`fallback`, the unchanged error from the conversions' and, for errors other than EINVAL, pipe's.) -/
theorem C07_error_completion_creates_nothing (s : Sys) (i : Nat) (e : Nat) (more : Bool) :
    (s.next (.kpost i (.err e) more)).descs = s.descs ∧
    (s.next (.kpost i (.err e) more)).handles = s.handles ∧
    (s.next (.kpost i (.err e) more)).sq = s.sq ∧
    (s.next (.kpost i (.err e) more)).closeLog = s.closeLog := by
  show (s.kpost i (.err e) more).1.descs = s.descs ∧ (s.kpost i (.err e) more).1.handles = s.handles ∧
    (s.kpost i (.err e) more).1.sq = s.sq ∧ (s.kpost i (.err e) more).1.closeLog = s.closeLog
  unfold Sys.kpost
  split
  · exact ⟨rfl, rfl, rfl, rfl⟩
  · cases hio : s.ops[i]? with
    | none => exact ⟨rfl, rfl, rfl, rfl⟩
    | some o =>
      simp only []
      split
      · exact ⟨rfl, rfl, rfl, rfl⟩
      · split
        · exact ⟨rfl, rfl, rfl, rfl⟩
        · have hf := deliver_frame { s with inflight := if more then s.inflight else s.inflight.erase i } i
            ⟨-(e : Int), if more then 2 else 0⟩
          exact ⟨hf.1, hf.2.1, hf.2.2.1, hf.2.2.2.2.1⟩

/-- Non-vacuity and the scenario of the missed change: `pipe` with `.kind(Direct)` on a ring
with a direct table whose slots 0..3 are in use by other AsyncFds' numbers; the kernel answers
EINVAL; the poll calls `pipe2`, which returns 200 and 201. Both become regular descriptors owned
by AsyncFds of kind File (words 200 and 201, no sign bit); dropping them closes regular 200 and
201 (one through the ring, one — the queue being full — through `close(2)`), and the direct
slot 1 owned by the other AsyncFd is untouched. -/
example :
    let s := run (start 1 0 4 200 456)
      [.newOp .socket .direct 0, .poll 0, .rpoll, .kpost 0 (.ok [1]) false, .poll 0,
       .newOp .pipe .direct 0, .poll 1, .rpoll, .kpost 1 (.err 22) false,
       .poll 1,                       -- refused: the environment has to answer `pipe2`
       .pollFb 1 (.ok [200, 201]),
       .dropH 1, .dropH 2, .rpoll]
    s.descs.map (fun e => (e.kind, e.raw, e.st, e.closes, e.wraps, e.sync)) =
      [(.direct, 1, .owned 0, 0, 1, false), (.file, 200, .closed, 1, 1, true),
       (.file, 201, .closed, 1, 1, true)] ∧
    s.handles.map (fun h => (kindOf h.word, fdOf h.word, h.live)) =
      [(.direct, 1, true), (.file, 200, false), (.file, 201, false)] ∧
    s.closeLog = [(.file, 201), (.file, 200)] ∧ s.strays = 0 ∧ s.sq = [] := by decide

/-- The future dropped before the poll (nothing is created, `pipe2` cannot run any more), an
EINVAL completion for an abandoned pipe, `pipe2` failing with EMFILE, and EINVAL for the other
kinds of operation: the ledger stays empty. -/
example :
    let s := run (start 4 0 4 200 456)
      [.newOp .pipe .direct 0, .poll 0, .rpoll, .kpost 0 (.err 22) false, .dropOp 0,
       .pollFb 0 (.ok [200, 201]),
       .newOp .pipe .file 0, .poll 1, .rpoll, .dropOp 1, .kpost 1 (.err 22) false,
       .pollFb 1 (.ok [200, 201]),
       .newOp .pipe .file 0, .poll 2, .rpoll, .kpost 2 (.err 22) false, .pollFb 2 (.fail 24),
       .newOp .open .direct 0, .poll 3, .rpoll, .kpost 3 (.err 22) false, .poll 3,
       .newOp .socket .file 0, .poll 4, .rpoll, .kpost 4 (.err 22) false, .pollFb 4 (.ok [200, 201])]
    s.descs = [] ∧ s.handles = [] ∧ s.sq = [] ∧
    (s.ops.map (fun o => (o.op.status, o.op.futLive))) =
      [(.done (.single ⟨-22, 0⟩), false), (.dropped, false), (.complete, true), (.complete, true),
       (.done (.single ⟨-22, 0⟩), true)] := by decide

/-! ### Non-vacuity: reachable, quiescent states in which every path was taken -/

/-- Regular descriptor closed through the ring, direct descriptor through the
ring (`file_index = slot + 1`), a descriptor number reused after it was
closed, an accepted socket inheriting the direct kind of its listener, a
standard-stream wrapper dropped: every descriptor closed exactly once. -/
example :
    let s := run (start 4 0 4 200 456)
      [.std 1,
       .newOp .open .file 0, .poll 0, .rpoll, .kpost 0 (.ok [200]) false, .poll 0,
       .newOp .socket .direct 0, .poll 1, .rpoll, .kpost 1 (.ok [2]) false, .poll 1,
       .newOp .accept .file 2, .poll 2, .rpoll, .kpost 2 (.ok [3]) false, .poll 2,
       .dropOp 2, .dropH 1, .rpoll,
       .newOp .open .file 0, .poll 3, .rpoll, .kpost 3 (.ok [200]) false, .poll 3,
       .dropH 0, .dropH 2, .dropH 3, .dropH 4, .rpoll]
    s.descs.map (fun e => (e.kind, e.raw, e.st, e.closes, e.wraps)) =
      [(.file, 200, .closed, 1, 1), (.direct, 2, .closed, 1, 1), (.direct, 3, .closed, 1, 1),
       (.file, 200, .closed, 1, 1)] ∧
    s.sq = [] ∧ s.strays = 0 ∧
    s.closeLog = [(.file, 200), (.direct, 2), (.direct, 3), (.file, 200)] := by decide

/-- **A panic while decoding the peer address of an accepted connection.**
`AcceptOp::map_ok` wraps the descriptor the kernel returned before it calls
`SocketAddress::init` (a public trait: a user implementation may panic, and the
crate's own implementations `debug_assert!` the address family). The poll of
such a future that reads a successful result is, state for state, the poll of an
ordinary accept followed by the drop of the `AsyncFd` it built: every theorem
over runs (the invariants, `C07_partial`, exactly-once closing) covers it, and
the accepted descriptor is closed by that drop. -/
theorem C07_accept_init_panic (s : Sys) (i : Nat) (o : FOp) (x : Res)
    (hio : s.ops[i]? = some o) (hk : o.kind = .acceptp)
    (hr : (o.op.poll i s.sqRoom).2.1 = .readyOk x) :
    (s.poll i).1 = ((s.pollCore i).1.dropH s.handles.length).1 ∧
    (s.poll i).2.head? = some "ready panic" := by
  have hd : o.pipe2Due = false := by simp [FOp.pipe2Due, hk]
  simp [Sys.poll, hio, hd, hk, Sys.pollPanic, hr]

/-- An accepted connection whose address decoding panics: the descriptor (201)
is closed exactly once, through the ring; with the queue full, synchronously. -/
example :
    let s := run (start 4 0 4 200 456)
      [.newOp .socket .file 0, .poll 0, .rpoll, .kpost 0 (.ok [200]) false, .poll 0,
       .newOp .acceptp .file 0, .poll 1, .rpoll, .kpost 1 (.ok [201]) false, .poll 1, .rpoll]
    s.descs.map (fun e => (e.kind, e.raw, e.st, e.closes, e.wraps)) =
      [(.file, 200, .owned 0, 0, 1), (.file, 201, .closed, 1, 1)] ∧
    s.closeLog = [(.file, 201)] ∧ (s.handles.map (·.live)) = [true, false] := by decide

example :
    let s := run (start 1 0 4 200 456)
      [.newOp .socket .file 0, .poll 0, .rpoll, .kpost 0 (.ok [200]) false, .poll 0,
       .newOp .acceptp .file 0, .poll 1, .rpoll, .kpost 1 (.ok [201]) false,
       .newOp .open .file 0, .poll 2, .poll 1]
    s.descs.map (fun e => (e.kind, e.raw, e.st, e.closes)) =
      [(.file, 200, .owned 0, 0), (.file, 201, .closed, 1)] ∧ s.closeLog = [(.file, 201)] := by decide

/-- Queue-full fallback (`sq = 1`, one unconsumed submission): `close(2)` for the
regular descriptor, `FILES_UPDATE(-1)` for the direct one; and an explicit
`AsyncFd::close` polled to completion. -/
example :
    let s := run (start 1 0 4 200 456)
      [.newOp .pipe .file 0, .poll 0, .rpoll, .kpost 0 (.ok [200, 201]) false, .poll 0,
       .newOp .toDirect .file 0, .poll 1, .rpoll, .kpost 1 (.ok [0]) false, .poll 1,
       .newOp .open .file 0, .poll 2,
       .dropOp 1, .dropH 0, .dropH 2,
       .newOp .close .file 1, .rpoll, .poll 3, .rpoll, .poll 3]
    s.descs.map (fun e => (e.kind, e.raw, e.st, e.closes)) =
      [(.file, 200, .closed, 1), (.file, 201, .closed, 1), (.direct, 0, .closed, 1)] ∧
    s.strays = 0 ∧ s.closeLog = [(.file, 200), (.direct, 0), (.file, 201)] := by decide

/-- The hypotheses of `C07_partial` are satisfiable together with a non-trivial
ledger (and its conclusion is then the full statement for that run). -/
example :
    let s := run (start 2 0 4 200 456)
      [.newOp .open .direct 0, .poll 0, .rpoll, .kpost 0 (.ok [1]) false, .poll 0,
       .newOp .toFd .file 0, .poll 1, .rpoll, .kpost 1 (.ok [200]) false, .poll 1,
       .dropOp 0, .dropOp 1, .dropH 0, .rpoll]
    s.sq = [] ∧ s.descs.map (fun e => (e.st, e.closes)) = [(.closed, 1), (.owned 1, 0)] ∧
    (s.handles.map (fun h => h.live)) = [false, true] := by decide

end A10.Fds
