/-
C07 — Each descriptor owned by an AsyncFd is closed exactly once, the right way.

Statement (properties.jsonl): while its Ring exists, each descriptor owned by
an AsyncFd is closed exactly once: when the AsyncFd is dropped (through the
ring, or synchronously when the submission queue is full) or when
AsyncFd::close completes — regular descriptors as regular, direct descriptors
as direct, and the standard-stream handles never. Every descriptor the kernel
returns for an operation (open, socket, accept, pipe, descriptor conversions)
ends up owned by exactly one AsyncFd of the requested kind, or is closed if
the operation had been abandoned.

Model: `A10Verif/Model/Fds.lean` (tied to src/fd.rs, src/io_uring/fd.rs,
src/io/mod.rs, src/io_uring/{io,net,fs,pipe}.rs by the `fds` correspondence
component), over the operation state machine `A10Verif/Model/Op.lean`.
Invariant and its preservation: `A10Verif/Lemmas/Fds.lean`.

Every theorem quantifies over ALL runs: any ring configuration with
`3 ≤ fileLo` (the standard streams are open, so the kernel never returns
0, 1, 2), any list of steps (creating operations, polling and dropping
futures, dropping AsyncFds with a full or non-full queue, explicit closes,
kernel answers with any fresh descriptor numbers below 2^31 — including numbers
that were closed earlier — or errors, `Ring::poll`). The environment's
contract (KC8: returned numbers are not open at that moment, are within the
table, are non-negative `i32`s) is the guard `Sys.kernelOk` of the kernel's
move `Sys.kpost`; the user contract (Rust's borrow rules: an AsyncFd borrowed
by a live future cannot be dropped or closed) is the guard `Sys.borrowed`.

The full statement fails on the code as it is (`C07_full_fails`): a
descriptor delivered to an ABANDONED operation is never wrapped and never
closed. `C07_partial` is the statement for runs without that event.
-/
import A10Verif.Lemmas.Fds

namespace A10.Fds

open A10

/-! ### The descriptor word and the close encodings -/

/-- Round trip of the descriptor word for every descriptor number below 2^31,
for both kinds: `kind()` and `fd()` recover what `from_raw` stored. -/
theorem C07_encoding (fd : Nat) (k : Kind) (h : fd < 2147483648) :
    kindOf (fromRaw fd k) = k ∧ fdOf (fromRaw fd k) = fd :=
  ⟨kindOf_fromRaw fd k h, fdOf_fromRaw fd k h⟩

/-- The CLOSE submission: a direct descriptor is named by `file_index = fd + 1`
and never touches the regular table (`sqe.fd` stays 0 and is ignored by the
kernel because `file_index ≠ 0`); a regular descriptor is named by `sqe.fd`
with `file_index = 0` and never touches the direct table. Release profile
(`fd + 1` wraps), every `fd < 2^31`. -/
theorem C07_encoding_close (fd : Nat) (h : fd < 2147483648) :
    (closeFileFd fd .direct).target = (.direct, fd) ∧ (closeFileFd fd .direct).fileIndex = fd + 1 ∧
    (closeFileFd fd .file).target = (.file, fd) ∧ (closeFileFd fd .file).fileIndex = 0 := by
  refine ⟨target_closeFileFd fd .direct h, ?_, target_closeFileFd fd .file h, rfl⟩
  simp only [closeFileFd]
  omega

/-- The same in the dev profile (overflow checks on): no panic and the same
request for every index a kernel can hand out (`fd + 1 < 2^31`); the only
other value, `i32::MAX`, panics instead of closing anything. -/
theorem C07_encoding_close_dev (fd : Nat) (k : Kind) :
    (fd + 1 < 2147483648 → closeFileFdChecked fd k = some (closeFileFd fd k)) ∧
    (closeFileFdChecked fd k = none → k = .direct ∧ 2147483648 ≤ fd + 1) := by
  cases k
  · simp [closeFileFdChecked, closeFileFd]
  · simp only [closeFileFdChecked, closeFileFd]
    constructor
    · intro h
      have : (fd + 1) % 4294967296 = fd + 1 := by omega
      simp [h, this]
    · intro h
      split at h
      · cases h
      · exact ⟨by trivial, by omega⟩

/-- The synchronous fallback addresses the same table and number. -/
theorem C07_encoding_sync (fd : Nat) (k : Kind) (h : fd < 2147483648) :
    syncTarget (fdOf (fromRaw fd k)) (kindOf (fromRaw fd k)) = (k, fd) := by
  rw [kindOf_fromRaw fd k h, fdOf_fromRaw fd k h]
  rfl

example : kindOf (fromRaw 2147483647 .direct) = .direct ∧ fdOf (fromRaw 2147483647 .direct) = 2147483647 ∧
    kindOf (fromRaw 0 .direct) = .direct ∧ (closeFileFd 0 .direct).target = (.direct, 0) ∧
    (closeFileFd 0 .file).target = (.file, 0) := by decide

/-! ### Runs -/

/-- Every state reachable from a freshly built ring. -/
def Reachable (s : Sys) : Prop :=
  ∃ (sqLen slotLo slots fileLo fileHi : Nat) (steps : List Step),
    3 ≤ fileLo ∧ s = run (start sqLen slotLo slots fileLo fileHi) steps

theorem reachable_inv {s : Sys} (h : Reachable s) : Inv s := by
  obtain ⟨sqLen, slotLo, slots, fileLo, fileHi, steps, hlo, rfl⟩ := h
  exact run_inv steps (start_inv sqLen slotLo slots fileLo fileHi hlo)

/-- No descriptor is closed twice, no close request ever misses (`strays`:
requests that hit no open descriptor — a double close, a wrong number or the
wrong table), and the kernel only ever closed descriptors whose own AsyncFd
had asked for it (`closed` is only reached from `released`): a descriptor that
is still owned, still held by an operation or by an unsubmitted `Close`
future, lost or forfeited has `closes = 0` — nobody else's close request hit
it, even when its number had been used by an earlier descriptor. -/
theorem C07_closes_le_one {s : Sys} (h : Reachable s) :
    s.strays = 0 ∧
    ∀ (d : Nat) (e : Desc), s.descs[d]? = some e →
      e.closes ≤ 1 ∧ (e.closes = 1 ↔ e.st = .closed) := by
  have hi := reachable_inv h
  refine ⟨hi.strays, fun d e he => ?_⟩
  have x := hi.desc d e he
  by_cases hs : e.st = .closed
  · have := x.closed hs
    exact ⟨by omega, ⟨fun _ => hs, fun _ => this⟩⟩
  · have := x.opn hs
    exact ⟨by omega, ⟨fun c => by omega, fun c => absurd c hs⟩⟩

/-- Closed the right way: (1) every live AsyncFd that is not a standard-stream
wrapper holds the word of an open descriptor of the kernel — `kind()` is the
table the kernel put it in, `fd()` its number there; (2) every outstanding
close request (CLOSE submissions of dropped AsyncFds and of `Close` futures)
names, in the kernel's reading of the submission, the table and number of an
open descriptor whose AsyncFd is gone, and no two outstanding requests name
the same descriptor. -/
theorem C07_right_kind {s : Sys} (h : Reachable s) :
    (∀ (a : Nat) (hd : Handle), s.handles[a]? = some hd → hd.live = true → hd.std = false →
      ∃ (d : Nat) (e : Desc), s.descs[d]? = some e ∧ e.st = .owned a ∧ e.closes = 0 ∧
        kindOf hd.word = e.kind ∧ fdOf hd.word = e.raw) ∧
    (∀ t ∈ s.targets, ∃ (d : Nat) (e : Desc), s.descs[d]? = some e ∧ e.st = .released ∧
        e.closes = 0 ∧ (e.kind, e.raw) = t) ∧
    s.targets.Nodup := by
  have hi := reachable_inv h
  refine ⟨fun a hd ha hl hs => ?_, fun t ht => ?_, hi.nodup⟩
  · obtain ⟨d, e, he, hst⟩ := (hi.hand a hd ha hl).2 hs
    have x := hi.desc d e he
    obtain ⟨hd', g1, _, _, g4⟩ := x.own a hst
    rw [ha] at g1; cases g1
    exact ⟨d, e, he, hst, x.opn (by simp [hst]), by rw [g4]; exact kindOf_fromRaw _ _ x.raw,
      by rw [g4]; exact fdOf_fromRaw _ _ x.raw⟩
  · obtain ⟨d, e, he, hst, hk⟩ := hi.tgt t ht
    exact ⟨d, e, he, hst, (hi.desc d e he).opn (by simp [hst]), hk⟩

/-- The standard streams are never closed: no close request the kernel ever
executed and no outstanding one names descriptor 0, 1 or 2 of the regular
table; and dropping a standard-stream wrapper issues nothing at all. -/
theorem C07_std_never {s : Sys} (h : Reachable s) :
    (∀ t ∈ s.closeLog ++ s.targets, t.1 = .file → 3 ≤ t.2) ∧
    (∀ (a : Nat) (hd : Handle), s.handles[a]? = some hd → hd.std = true →
      (s.dropH a).1.sq = s.sq ∧ (s.dropH a).1.closeLog = s.closeLog ∧ (s.dropH a).1.descs = s.descs ∧
      (s.dropH a).1.strays = s.strays) := by
  have hi := reachable_inv h
  constructor
  · intro t ht hk
    rcases List.mem_append.mp ht with h1 | h1
    · exact hi.log t h1 hk
    · obtain ⟨d, e, he, _, hkey⟩ := hi.tgt t h1
      have x := hi.desc d e he
      rw [← hkey] at hk ⊢
      exact x.std hk
  · intro a hd ha hs
    unfold Sys.dropH
    simp only [ha]
    split
    · refine ⟨?_, ?_, ?_, ?_⟩ <;> trivial
    · refine ⟨?_, ?_, ?_, ?_⟩ <;> trivial

/-- Owned exactly once: a descriptor is wrapped in at most one AsyncFd over its
whole life (`wraps ≤ 1`, and exactly one as soon as it has left the operation
that received it); while it is owned, its AsyncFd is live, is not a
standard-stream wrapper and carries exactly `from_raw(number, kind)` with the
kind the kernel was asked for; no other descriptor is owned by that AsyncFd. -/
theorem C07_owned_once {s : Sys} (h : Reachable s) :
    ∀ (d : Nat) (e : Desc), s.descs[d]? = some e →
      e.wraps ≤ 1 ∧
      (e.wraps = 0 ↔ ((∃ i, e.st = .pending i) ∨ e.st = .lost)) ∧
      (∀ a, e.st = .owned a →
        (∃ hd, s.handles[a]? = some hd ∧ hd.live = true ∧ hd.std = false ∧
          hd.word = fromRaw e.raw e.kind) ∧
        (∀ (d' : Nat) (e' : Desc), s.descs[d']? = some e' → e'.st = .owned a → d' = d)) := by
  have hi := reachable_inv h
  intro d e he
  have x := hi.desc d e he
  refine ⟨?_, ?_, fun a ha => ⟨x.own a ha, fun d' e' he' ha' => hi.owned_unique he' he ha' ha⟩⟩
  · by_cases hp : (∃ i, e.st = .pending i) ∨ e.st = .lost
    · have := x.wr0 hp; omega
    · have := x.wr1 hp; omega
  · constructor
    · intro h0
      by_cases hp : (∃ i, e.st = .pending i) ∨ e.st = .lost
      · exact hp
      · have := x.wr1 hp; omega
    · exact x.wr0

/-! ### The full statement -/

/-- Nothing is queued and no live future holds a descriptor it has not handed
out or a close it has not submitted. -/
def Quiescent (s : Sys) : Prop :=
  s.sq = [] ∧ ∀ (d : Nat) (e : Desc), s.descs[d]? = some e →
    (∀ i, e.st ≠ .pending i) ∧ (∀ j, e.st ≠ .closeFut j)

/-- Hypothesis made explicit: every `Close` future is polled until it is
submitted (a `Close` future dropped before that never closes, by construction
of `AsyncFd::close`; the property's wording "when AsyncFd::close completes"
excludes it). -/
def ClosePolled (s : Sys) : Prop :=
  ∀ (d : Nat) (e : Desc), s.descs[d]? = some e → e.st ≠ .forfeited

/-- No descriptor was delivered to an abandoned operation. -/
def NoneAbandoned (s : Sys) : Prop :=
  ∀ (d : Nat) (e : Desc), s.descs[d]? = some e → e.st ≠ .lost

/-- Closed exactly once, or owned by a live AsyncFd. -/
def Settled (s : Sys) (e : Desc) : Prop :=
  e.closes = 1 ∨ ∃ (a : Nat) (hd : Handle), e.st = .owned a ∧ s.handles[a]? = some hd ∧ hd.live = true

/-- The full statement: at quiescence, with the Ring alive, every descriptor
the kernel returned has been closed exactly once or has a live owner. -/
def C07_full : Prop :=
  ∀ (s : Sys), Reachable s → Quiescent s → ClosePolled s →
    ∀ (d : Nat) (e : Desc), s.descs[d]? = some e → Settled s e

/-- The full statement holds for every run in which no descriptor-bearing
completion is consumed by, or discarded with, an abandoned operation. -/
theorem C07_partial (s : Sys) (h : Reachable s) (hq : Quiescent s) (hc : ClosePolled s)
    (hn : NoneAbandoned s) :
    ∀ (d : Nat) (e : Desc), s.descs[d]? = some e → Settled s e := by
  have hi := reachable_inv h
  intro d e he
  have x := hi.desc d e he
  obtain ⟨hsq, hdq⟩ := hq
  cases hst : e.st with
  | pending i => exact absurd hst ((hdq d e he).1 i)
  | closeFut j => exact absurd hst ((hdq d e he).2 j)
  | lost => exact absurd hst (hn d e he)
  | forfeited => exact absurd hst (hc d e he)
  | closed => exact Or.inl (x.closed hst)
  | released =>
    have := x.rel hst
    unfold Sys.targets at this
    rw [hsq] at this
    simp at this
  | owned a =>
    obtain ⟨hd, g1, g2, _, _⟩ := x.own a hst
    exact Or.inr ⟨a, hd, hst, g1, g2⟩

/-- The counterexample: `open` is submitted and consumed, its future is
dropped (the cancel is queued), the kernel completes the open with descriptor
200 anyway, the ring is polled. The descriptor is never wrapped, never closed. -/
def abandonedRun : List Step :=
  [.newOp .open .file 0, .poll 0, .rpoll, .dropOp 0, .kpost 0 (.ok [200]) false, .rpoll]

theorem abandonedRun_state :
    (run (start 4 0 4 200 456) abandonedRun).descs = [{ kind := .file, raw := 200, st := .lost }] ∧
    (run (start 4 0 4 200 456) abandonedRun).sq = [] := by
  decide

/-- The full statement does not hold for the code as it is. -/
theorem C07_full_fails : ¬ C07_full := by
  intro hf
  obtain ⟨hd, hsq⟩ := abandonedRun_state
  have hr : Reachable (run (start 4 0 4 200 456) abandonedRun) :=
    ⟨4, 0, 4, 200, 456, abandonedRun, by decide, rfl⟩
  have hq : Quiescent (run (start 4 0 4 200 456) abandonedRun) := by
    refine ⟨hsq, fun d e he => ?_⟩
    rw [hd] at he
    cases d with
    | zero => simp at he; subst he; simp
    | succ d => simp at he
  have hc : ClosePolled (run (start 4 0 4 200 456) abandonedRun) := by
    intro d e he
    rw [hd] at he
    cases d with
    | zero => simp at he; subst he; simp
    | succ d => simp at he
  have := hf _ hr hq hc 0 { kind := .file, raw := 200, st := .lost } (by rw [hd]; rfl)
  rcases this with c | ⟨a, hdl, c, _⟩
  · simp at c
  · simp at c

/-- The same happens when the result is already stored in the operation state
and the future is dropped before reading it, and with the queued and late
results of a multishot accept. -/
example :
    ((run (start 4 0 4 200 456)
      [.newOp .socket .direct 0, .poll 0, .rpoll, .kpost 0 (.ok [1]) false, .dropOp 0, .rpoll]).descs.map
        (fun e => (e.st, e.closes))) = [(.lost, 0)] := by decide

example :
    ((run (start 4 0 4 200 456)
      [.newOp .socket .file 0, .poll 0, .rpoll, .kpost 0 (.ok [200]) false, .poll 0,
       .newOp .maccept .file 0, .poll 1, .rpoll, .kpost 1 (.ok [201]) true, .kpost 1 (.ok [202]) true,
       .poll 1, .dropOp 1, .kpost 1 (.ok [203]) true, .kpost 1 (.err 125) false,
       .dropH 0, .dropH 1, .rpoll]).descs.map (fun e => (e.raw, e.st, e.closes))) =
      [(200, .closed, 1), (201, .closed, 1), (202, .lost, 0), (203, .lost, 0)] := by decide

/-! ### Non-vacuity: reachable, quiescent states in which every path was taken -/

/-- Regular descriptor closed through the ring, direct descriptor through the
ring (`file_index = slot + 1`), a descriptor number reused after it was
closed, an accepted socket inheriting the direct kind of its listener, a
standard-stream wrapper dropped: every descriptor closed exactly once. -/
example :
    let s := run (start 4 0 4 200 456)
      [.std 1,
       .newOp .open .file 0, .poll 0, .rpoll, .kpost 0 (.ok [200]) false, .poll 0,
       .newOp .socket .direct 0, .poll 1, .rpoll, .kpost 1 (.ok [2]) false, .poll 1,
       .newOp .accept .file 2, .poll 2, .rpoll, .kpost 2 (.ok [3]) false, .poll 2,
       .dropOp 2, .dropH 1, .rpoll,
       .newOp .open .file 0, .poll 3, .rpoll, .kpost 3 (.ok [200]) false, .poll 3,
       .dropH 0, .dropH 2, .dropH 3, .dropH 4, .rpoll]
    s.descs.map (fun e => (e.kind, e.raw, e.st, e.closes, e.wraps)) =
      [(.file, 200, .closed, 1, 1), (.direct, 2, .closed, 1, 1), (.direct, 3, .closed, 1, 1),
       (.file, 200, .closed, 1, 1)] ∧
    s.sq = [] ∧ s.strays = 0 ∧
    s.closeLog = [(.file, 200), (.direct, 2), (.direct, 3), (.file, 200)] := by decide

/-- Queue-full fallback (`sq = 1`, one unconsumed submission): `close(2)` for the
regular descriptor, `FILES_UPDATE(-1)` for the direct one; and an explicit
`AsyncFd::close` polled to completion. -/
example :
    let s := run (start 1 0 4 200 456)
      [.newOp .pipe .file 0, .poll 0, .rpoll, .kpost 0 (.ok [200, 201]) false, .poll 0,
       .newOp .toDirect .file 0, .poll 1, .rpoll, .kpost 1 (.ok [0]) false, .poll 1,
       .newOp .open .file 0, .poll 2,
       .dropOp 1, .dropH 0, .dropH 2,
       .newOp .close .file 1, .rpoll, .poll 3, .rpoll, .poll 3]
    s.descs.map (fun e => (e.kind, e.raw, e.st, e.closes)) =
      [(.file, 200, .closed, 1), (.file, 201, .closed, 1), (.direct, 0, .closed, 1)] ∧
    s.strays = 0 ∧ s.closeLog = [(.file, 200), (.direct, 0), (.file, 201)] := by decide

/-- The hypotheses of `C07_partial` are satisfiable together with a non-trivial
ledger (and its conclusion is then the full statement for that run). -/
example :
    let s := run (start 2 0 4 200 456)
      [.newOp .open .direct 0, .poll 0, .rpoll, .kpost 0 (.ok [1]) false, .poll 0,
       .newOp .toFd .file 0, .poll 1, .rpoll, .kpost 1 (.ok [200]) false, .poll 1,
       .dropOp 0, .dropOp 1, .dropH 0, .rpoll]
    s.sq = [] ∧ s.descs.map (fun e => (e.st, e.closes)) = [(.closed, 1), (.owned 1, 0)] ∧
    (s.handles.map (fun h => h.live)) = [false, true] := by decide

end A10.Fds
