/-
C18 — Ring construction is all-or-nothing and honours its configuration.

Statement (properties.jsonl): `Config::build` either returns a working `Ring`
whose queues have the sizes and modes that were requested (as granted by the
kernel), or returns an error and leaves no descriptor and no memory mapping
behind. Which of the two happens depends only on what the kernel answers, never
on a partially initialised `Ring` escaping. Quantifier: all combinations of
queue sizes, clamp, kernel thread (+ affinity, idle), single issuer, defer
taskrun, disabled, attach and direct descriptors, crossed with every point at
which the kernel can refuse.

Model: `A10Verif/Model/Config.lean` (`build : Cfg → Answers → Run`, tied to
`src/config.rs`, `src/io_uring/config.rs`, `src/io_uring/mod.rs`,
`src/io_uring/cq.rs` by the `config` correspondence component). All theorems
are for every configuration and every vector of kernel answers; sizes are
unbounded naturals (the `u32` overflow behaviour of the dev profile is part of
the model: outcome `panic`, which also leaves nothing behind).
-/
import A10Verif.Model.Config

namespace A10.Config

/-! ### Specification: decision list and behaviour table -/

/-- Where a build stops. -/
inductive Stop where
  | feature (b : Nat)
  | overflowSq
  | mmap1 (e : Nat) | madv1 (e : Nat) | mmap2 (e : Nat) | madv2 (e : Nat)
  | overflowCq
  | mmap3 (e : Nat) | madv3 (e : Nat)
  | reg (e : Nat)
  | done
  deriving Repr, DecidableEq

def fits32 (n : Nat) : Prop := n < 4294967296
instance (n : Nat) : Decidable (fits32 n) := by unfold fits32; infer_instance

def sqRingLen (k : SetupOk) : Nat := k.sqArray + k.sqEntries * 4
def sqesLen (k : SetupOk) : Nat := k.sqEntries * 64
def cqRingLen (k : SetupOk) : Nat := k.cqCqes + k.cqEntries * 16

/-- The decision list: the first answer that refuses. Depends on the
configuration only through `direct` (is a registration attempted at all). -/
def verdict (direct : Bool) (k : SetupOk) (a : Answers) : Stop :=
  match missingFeature k.features with
  | some b => .feature b
  | none =>
  if ¬ (fits32 (k.sqEntries * 4) ∧ fits32 (sqRingLen k)) then .overflowSq else
  match a.mmap1 with
  | some e => .mmap1 e
  | none =>
  match a.madv1 with
  | some e => .madv1 e
  | none =>
  match a.mmap2 with
  | some e => .mmap2 e
  | none =>
  match a.madv2 with
  | some e => .madv2 e
  | none =>
  if ¬ (fits32 (k.cqEntries * 16) ∧ fits32 (cqRingLen k)) then .overflowCq else
  match a.mmap3 with
  | some e => .mmap3 e
  | none =>
  match a.madv3 with
  | some e => .madv3 e
  | none =>
  match direct, a.reg with
  | true, some e => .reg e
  | _, _ => .done

def okLedger (k : SetupOk) : Ledger :=
  { fds := [k.fd], maps := [(.sq, sqRingLen k), (.sqes, sqesLen k), (.cq, cqRingLen k)] }

def builtRing (k : SetupOk) : Ring :=
  { sq := { fd := k.fd, sqRingLen := sqRingLen k, sqLen := k.sqEntries,
            kernelThread := k.flags.testBit B_SQPOLL, singleIssuer := k.flags.testBit B_SINGLE_ISSUER },
    cq := { ringLen := cqRingLen k, cqLen := k.cqEntries } }

def regCall (n : Nat) (res : Option Nat) : Sys := .register n RSRC_REGISTER_SPARSE RSRC_REGISTER_SIZE res

/-- The complete behaviour table: result, ledger and system calls per stop point. -/
def table (p : Params) (k : SetupOk) (direct : Option Nat) : Stop → Run
  | .feature b => ⟨.err (.unsupported b), {}, [.setup p (.ok k.fd), .close k.fd]⟩
  | .overflowSq => ⟨.panic, {}, [.setup p (.ok k.fd), .close k.fd]⟩
  | .mmap1 e => ⟨.err (.os e), {},
      [.setup p (.ok k.fd), .mmap .sq (sqRingLen k) (some e), .close k.fd]⟩
  | .madv1 e => ⟨.err (.os e), {},
      [.setup p (.ok k.fd), .mmap .sq (sqRingLen k) none, .madvise .sq (sqRingLen k) (some e),
       .munmap .sq (sqRingLen k), .close k.fd]⟩
  | .mmap2 e => ⟨.err (.os e), {},
      [.setup p (.ok k.fd), .mmap .sq (sqRingLen k) none, .madvise .sq (sqRingLen k) none,
       .mmap .sqes (sqesLen k) (some e), .munmap .sq (sqRingLen k), .close k.fd]⟩
  | .madv2 e => ⟨.err (.os e), {},
      [.setup p (.ok k.fd), .mmap .sq (sqRingLen k) none, .madvise .sq (sqRingLen k) none,
       .mmap .sqes (sqesLen k) none, .madvise .sqes (sqesLen k) (some e),
       .munmap .sqes (sqesLen k), .munmap .sq (sqRingLen k), .close k.fd]⟩
  | .overflowCq => ⟨.panic, {},
      [.setup p (.ok k.fd), .mmap .sq (sqRingLen k) none, .madvise .sq (sqRingLen k) none,
       .mmap .sqes (sqesLen k) none, .madvise .sqes (sqesLen k) none,
       .munmap .sqes (sqesLen k), .munmap .sq (sqRingLen k), .close k.fd]⟩
  | .mmap3 e => ⟨.err (.os e), {},
      [.setup p (.ok k.fd), .mmap .sq (sqRingLen k) none, .madvise .sq (sqRingLen k) none,
       .mmap .sqes (sqesLen k) none, .madvise .sqes (sqesLen k) none,
       .mmap .cq (cqRingLen k) (some e),
       .munmap .sqes (sqesLen k), .munmap .sq (sqRingLen k), .close k.fd]⟩
  | .madv3 e => ⟨.err (.os e), {},
      [.setup p (.ok k.fd), .mmap .sq (sqRingLen k) none, .madvise .sq (sqRingLen k) none,
       .mmap .sqes (sqesLen k) none, .madvise .sqes (sqesLen k) none,
       .mmap .cq (cqRingLen k) none, .madvise .cq (cqRingLen k) (some e), .munmap .cq (cqRingLen k),
       .munmap .sqes (sqesLen k), .munmap .sq (sqRingLen k), .close k.fd]⟩
  | .reg e => ⟨.err (.os e), {},
      [.setup p (.ok k.fd), .mmap .sq (sqRingLen k) none, .madvise .sq (sqRingLen k) none,
       .mmap .sqes (sqesLen k) none, .madvise .sqes (sqesLen k) none,
       .mmap .cq (cqRingLen k) none, .madvise .cq (cqRingLen k) none,
       regCall (direct.getD 0) (some e),
       .munmap .cq (cqRingLen k), .munmap .sqes (sqesLen k), .munmap .sq (sqRingLen k), .close k.fd]⟩
  | .done => ⟨.ok (builtRing k), okLedger k,
      [.setup p (.ok k.fd), .mmap .sq (sqRingLen k) none, .madvise .sq (sqRingLen k) none,
       .mmap .sqes (sqesLen k) none, .madvise .sqes (sqesLen k) none,
       .mmap .cq (cqRingLen k) none, .madvise .cq (cqRingLen k) none]
      ++ (match direct with | some n => [regCall n none] | none => [])⟩

def setupErrRun (p : Params) (e : Nat) : Run := ⟨.err (.os e), {}, [.setup p (.error e)]⟩


/-- Unfolding set for evaluating the model on a fixed path. -/
macro "bsimp" : tactic =>
  `(tactic| simp [*, finish, dropFd, dropShared, dropCompletions, St.sys, Ledger.apply, table, mmapWrap,
      completionsNew, mul32, add32, fits32, sqRingLen, sqesLen, cqRingLen, okLedger, builtRing, regCall])

theorem C18_behaviour_table (c : Cfg) (a : Answers) :
    build c a = match a.setup with
      | .error e => setupErrRun (params c) e
      | .ok k => table (params c) k c.direct (verdict c.direct.isSome k a) := by
  rcases a with ⟨setup, m1, d1, m2, d2, m3, d3, reg⟩
  cases setup with
  | error e => simp [build, finish, St.sys, Ledger.apply, setupErrRun]
  | ok k =>
    simp only [build, verdict]
    cases hmf : missingFeature k.features with
    | some b => bsimp
    | none =>
      simp only [sharedNew, mul32, add32, fits32, sqRingLen]
      by_cases h1 : k.sqEntries * 4 < 4294967296
      · by_cases h2 : k.sqArray + k.sqEntries * 4 < 4294967296
        · cases m1 with
          | some e => bsimp
          | none =>
            cases d1 with
            | some e => bsimp
            | none =>
              cases m2 with
              | some e => bsimp
              | none =>
                cases d2 with
                | some e => bsimp
                | none =>
                  by_cases h3 : k.cqEntries * 16 < 4294967296
                  · by_cases h4 : k.cqCqes + k.cqEntries * 16 < 4294967296
                    · cases m3 with
                      | some e => bsimp
                      | none =>
                        cases d3 with
                        | some e => bsimp
                        | none =>
                          cases hd : c.direct with
                          | none => bsimp
                          | some n =>
                            cases reg with
                            | none => bsimp
                            | some e => bsimp
                    · bsimp
                  · bsimp
        · bsimp
      · bsimp

/-! ### All or nothing -/

/-- The ring handed out has the descriptor, sizes and modes the kernel granted,
and its mappings have the lengths derived from them. -/
structure Honours (r : Ring) (k : SetupOk) : Prop where
  fd : r.sq.fd = k.fd
  sqLen : r.sq.sqLen = k.sqEntries
  cqLen : r.cq.cqLen = k.cqEntries
  kernelThread : r.sq.kernelThread = k.flags.testBit B_SQPOLL
  singleIssuer : r.sq.singleIssuer = k.flags.testBit B_SINGLE_ISSUER
  sqRingLen : r.sq.sqRingLen = k.sqArray + k.sqEntries * 4
  cqRingLen : r.cq.ringLen = k.cqCqes + k.cqEntries * 16

/-- **All or nothing.** For every configuration and every vector of kernel
answers: if `build` returns a ring, the process holds exactly the ring
descriptor and its three mappings and the ring is the one the kernel granted;
if it does not (error or panic), the process holds nothing. -/
theorem C18_all_or_nothing (c : Cfg) (a : Answers) :
    (∀ r, (build c a).result = .ok r →
      ∃ k, a.setup = .ok k ∧ (build c a).ledger = okLedger k ∧ Honours r k) ∧
    ((∀ r, (build c a).result ≠ .ok r) → (build c a).ledger = {}) := by
  rw [C18_behaviour_table]
  rcases a with ⟨setup, m1, d1, m2, d2, m3, d3, reg⟩
  cases setup with
  | error e => simp [setupErrRun]
  | ok k =>
    simp only
    generalize verdict c.direct.isSome k _ = v
    cases v <;> simp [table]
    exact ⟨rfl, rfl, rfl, rfl, rfl, rfl, rfl⟩

/-- The answers under which a build goes through: setup succeeded, the four
required features are there, the length computations fit, no mapping call
failed and, if a registration is attempted, it succeeded. -/
structure Accepts (direct : Bool) (k : SetupOk) (a : Answers) : Prop where
  features : missingFeature k.features = none
  sqFits : fits32 (k.sqEntries * 4) ∧ fits32 (sqRingLen k)
  cqFits : fits32 (k.cqEntries * 16) ∧ fits32 (cqRingLen k)
  mmap1 : a.mmap1 = none
  madv1 : a.madv1 = none
  mmap2 : a.mmap2 = none
  madv2 : a.madv2 = none
  mmap3 : a.mmap3 = none
  madv3 : a.madv3 = none
  reg : direct = true → a.reg = none

theorem verdict_done_iff (direct : Bool) (k : SetupOk) (a : Answers) :
    verdict direct k a = .done ↔ Accepts direct k a := by
  rcases a with ⟨setup, m1, d1, m2, d2, m3, d3, reg⟩
  constructor
  · intro h
    unfold verdict at h
    cases hf : missingFeature k.features <;> simp only [hf] at h <;> try contradiction
    split at h; · contradiction
    rename_i hsq
    cases m1 <;> simp only at h <;> try contradiction
    cases d1 <;> simp only at h <;> try contradiction
    cases m2 <;> simp only at h <;> try contradiction
    cases d2 <;> simp only at h <;> try contradiction
    split at h; · contradiction
    rename_i hcq
    cases m3 <;> simp only at h <;> try contradiction
    cases d3 <;> simp only at h <;> try contradiction
    refine ⟨hf, Decidable.of_not_not hsq, Decidable.of_not_not hcq, rfl, rfl, rfl, rfl, rfl, rfl, ?_⟩
    intro hd
    subst hd
    cases reg <;> simp_all
  · rintro ⟨hf, hsq, hcq, h1, h2, h3, h4, h5, h6, hr⟩
    simp only at h1 h2 h3 h4 h5 h6 hr
    subst h1 h2 h3 h4 h5 h6
    unfold verdict
    simp only [hf, hsq, hcq, and_self, not_true_eq_false, ↓reduceIte]
    cases direct
    · rfl
    · simp [hr rfl]

/-- **Which of the two happens depends only on what the kernel answers**: a
ring comes back exactly when setup succeeded and no later answer refused. The
configuration matters only through whether a registration is attempted. -/
theorem C18_outcome_by_answers (c : Cfg) (a : Answers) :
    (∃ r, (build c a).result = .ok r) ↔
      ∃ k, a.setup = .ok k ∧ Accepts c.direct.isSome k a := by
  rw [C18_behaviour_table]
  cases hs : a.setup with
  | error e => simp [setupErrRun]
  | ok k =>
    simp only [Except.ok.injEq, exists_eq_left']
    rw [← verdict_done_iff]
    generalize verdict c.direct.isSome k a = v
    cases v <;> simp [table]

/-- Result and ledger are a function of the answers (and of whether direct
descriptors were requested): two configurations that differ in anything else
get the same result from the same answers. -/
theorem C18_result_independent_of_settings (c₁ c₂ : Cfg) (a : Answers)
    (h : c₁.direct.isSome = c₂.direct.isSome) :
    (build c₁ a).result = (build c₂ a).result ∧ (build c₁ a).ledger = (build c₂ a).ledger := by
  rw [C18_behaviour_table, C18_behaviour_table, h]
  cases a.setup with
  | error e => simp [setupErrRun]
  | ok k =>
    simp only
    generalize verdict c₂.direct.isSome k a = v
    cases v <;> simp [table]

/-- The error reported is the first refusal, in the order the calls are made
(a later refusal is never reached). -/
theorem C18_first_refusal_wins (c : Cfg) (a : Answers) (k : SetupOk) (h : a.setup = .ok k) :
    (build c a).result = (table (params c) k c.direct (verdict c.direct.isSome k a)).result := by
  rw [C18_behaviour_table, h]

/-! ### The system calls are legal and account for the ledger -/

def ringFdOf (a : Answers) : Option Nat :=
  match a.setup with
  | .ok k => some k.fd
  | .error _ => none

/-- Replaying the system calls of a build from the empty ledger never hits an
illegal call — no `mmap`/`register` on a closed descriptor, no `munmap` of
something not mapped or with another length than it was mapped with, no double
`close`, no region mapped twice — and ends in the ledger of the run. -/
theorem C18_trace_legal (c : Cfg) (a : Answers) :
    replay (ringFdOf a) (build c a).trace {} = some (build c a).ledger := by
  rw [C18_behaviour_table]
  unfold ringFdOf
  cases a.setup with
  | error e => simp [setupErrRun, replay, Ledger.legal, Ledger.apply]
  | ok k =>
    simp only
    generalize verdict c.direct.isSome k a = v
    cases v <;>
      first
      | (simp [table, replay, Ledger.legal, Ledger.apply, regCall, okLedger]; done)
      | (cases c.direct <;> simp [table, replay, Ledger.legal, Ledger.apply, regCall, okLedger])

/-- The calls of a successful build: setup, the three mappings (each followed
by its `madvise`), and — after both halves exist — the registration of the
direct descriptor table iff one was requested, with the requested size. -/
theorem C18_ok_trace (c : Cfg) (a : Answers) (r : Ring) (h : (build c a).result = .ok r) :
    ∃ k, a.setup = .ok k ∧ (build c a).trace =
      [.setup (params c) (.ok k.fd),
       .mmap .sq (sqRingLen k) none, .madvise .sq (sqRingLen k) none,
       .mmap .sqes (sqesLen k) none, .madvise .sqes (sqesLen k) none,
       .mmap .cq (cqRingLen k) none, .madvise .cq (cqRingLen k) none]
      ++ (match c.direct with
          | some n => [.register n RSRC_REGISTER_SPARSE RSRC_REGISTER_SIZE none]
          | none => []) := by
  rw [C18_behaviour_table] at h ⊢
  cases hs : a.setup with
  | error e => simp [hs, setupErrRun] at h
  | ok k =>
    refine ⟨k, rfl, ?_⟩
    simp only [hs] at h ⊢
    generalize verdict c.direct.isSome k a = v at h ⊢
    cases v <;> simp [table] at h ⊢
    cases c.direct <;> simp [regCall]

/-- The parameter block is sent as configured whatever the kernel answers, and
`io_uring_setup` is the first call. -/
theorem C18_params_sent (c : Cfg) (a : Answers) :
    ∃ res, (build c a).trace.head? = some (.setup (params c) res) := by
  rw [C18_behaviour_table]
  cases a.setup with
  | error e => exact ⟨_, rfl⟩
  | ok k =>
    simp only
    generalize verdict c.direct.isSome k a = v
    cases v <;> exact ⟨_, rfl⟩

/-! ### No panic under the kernel's size limits -/

/-- What `io_uring_setup(2)` guarantees about the echoed block:
`IORING_MAX_ENTRIES`, `IORING_MAX_CQ_ENTRIES`, offsets inside the ring header. -/
structure KernelSizes (k : SetupOk) : Prop where
  sq : k.sqEntries ≤ 32768
  cq : k.cqEntries ≤ 65536
  sqArray : k.sqArray < 2147483648
  cqCqes : k.cqCqes < 2147483648

theorem C18_no_panic (c : Cfg) (a : Answers)
    (h : ∀ k, a.setup = .ok k → KernelSizes k) : (build c a).result ≠ .panic := by
  rw [C18_behaviour_table]
  cases hs : a.setup with
  | error e => simp [setupErrRun]
  | ok k =>
    obtain ⟨h1, h2, h3, h4⟩ := h k hs
    have hsq : fits32 (k.sqEntries * 4) ∧ fits32 (sqRingLen k) := by
      unfold fits32 sqRingLen; omega
    have hcq : fits32 (k.cqEntries * 16) ∧ fits32 (cqRingLen k) := by
      unfold fits32 cqRingLen; omega
    simp only
    unfold verdict
    simp only [hsq, hcq, and_self, not_true_eq_false, ↓reduceIte]
    repeat' split
    all_goals simp [table]


/-! ### Parameter block -/

theorem testBit_bit (b : Bool) (k i : Nat) : (bit b k).testBit i = (b && decide (k = i)) := by
  cases b <;> simp [bit, Nat.testBit_two_pow]

def flagSpec (c : Cfg) (i : Nat) : Bool :=
  if i = B_SUBMIT_ALL ∨ i = B_NO_SQARRAY then true
  else if i = B_SQPOLL then c.kernelThread
  else if i = B_COOP_TASKRUN then !c.kernelThread
  else if i = B_R_DISABLED then c.disabled
  else if i = B_SINGLE_ISSUER then c.singleIssuer
  else if i = B_DEFER_TASKRUN then c.deferTaskrun
  else if i = B_CQSIZE then c.cq.isSome
  else if i = B_CLAMP then c.clamp
  else if i = B_SQ_AFF then c.cpu.isSome
  else if i = B_ATTACH_WQ then c.attach.isSome
  else false

theorem C18_params_flags (c : Cfg) (i : Nat) : (setupFlags c).testBit i = flagSpec c i := by
  simp only [setupFlags, Nat.testBit_or, testBit_bit, flagSpec, B_SUBMIT_ALL, B_NO_SQARRAY, B_SQPOLL,
    B_COOP_TASKRUN, B_R_DISABLED, B_SINGLE_ISSUER, B_DEFER_TASKRUN, B_CQSIZE, B_CLAMP, B_SQ_AFF, B_ATTACH_WQ]
  rcases Nat.lt_or_ge i 17 with h | h
  · have : i = 0 ∨ i = 1 ∨ i = 2 ∨ i = 3 ∨ i = 4 ∨ i = 5 ∨ i = 6 ∨ i = 7 ∨ i = 8 ∨ i = 9 ∨ i = 10
        ∨ i = 11 ∨ i = 12 ∨ i = 13 ∨ i = 14 ∨ i = 15 ∨ i = 16 := by omega
    rcases this with rfl | rfl | rfl | rfl | rfl | rfl | rfl | rfl | rfl | rfl | rfl | rfl | rfl
      | rfl | rfl | rfl | rfl <;> simp
  · have h2 : i ≠ 1 ∧ i ≠ 8 ∧ i ≠ 6 ∧ i ≠ 12 ∧ i ≠ 13 ∧ i ≠ 3 ∧ i ≠ 4 ∧ i ≠ 2 ∧ i ≠ 5 ∧ i ≠ 7 ∧ i ≠ 16 := by
      omega
    have h3 : 1 ≠ i ∧ 8 ≠ i ∧ 6 ≠ i ∧ 12 ≠ i ∧ 13 ≠ i ∧ 3 ≠ i ∧ 4 ≠ i ∧ 2 ≠ i ∧ 5 ≠ i ∧ 7 ≠ i ∧ 16 ≠ i := by
      omega
    simp [h2, h3]

theorem C18_params_flags_fit (c : Cfg) : setupFlags c < 2 ^ 17 := by
  apply Nat.lt_pow_two_of_testBit
  intro i hi
  rw [C18_params_flags]
  simp only [flagSpec, B_SUBMIT_ALL, B_NO_SQARRAY, B_SQPOLL,
    B_COOP_TASKRUN, B_R_DISABLED, B_SINGLE_ISSUER, B_DEFER_TASKRUN, B_CQSIZE, B_CLAMP, B_SQ_AFF, B_ATTACH_WQ]
  have h1 : ¬ (i = 7 ∨ i = 16) := by omega
  have : i ≠ 1 ∧ i ≠ 8 ∧ i ≠ 6 ∧ i ≠ 12 ∧ i ≠ 13 ∧ i ≠ 3 ∧ i ≠ 4 ∧ i ≠ 2 ∧ i ≠ 5 := by omega
  simp [h1, this]

/-- **Each setting sets exactly its flag / field**: `SUBMIT_ALL | NO_SQARRAY`
always, `SQPOLL` iff a kernel thread was asked for and `COOP_TASKRUN` iff not,
`R_DISABLED`, `SINGLE_ISSUER`, `DEFER_TASKRUN`, `CLAMP` iff set, `CQSIZE` /
`SQ_AFF` / `ATTACH_WQ` iff a completion queue size / CPU / queue to attach to
was given (with the value in its field), no other bit ever; sizes, idle time
and descriptors are passed through unchanged. -/
theorem C18_params (c : Cfg) :
    (params c).sqEntries = c.sq ∧ (params c).cqEntries = c.cq.getD 0 ∧
    (params c).sqThreadCpu = c.cpu.getD 0 ∧ (params c).sqThreadIdle = c.idle.getD 0 ∧
    (params c).wqFd = c.attach.getD 0 ∧
    ∀ i, (params c).flags.testBit i = flagSpec c i :=
  ⟨rfl, rfl, rfl, rfl, rfl, C18_params_flags c⟩

/-! ### The builder methods -/

def Call.isCq : Call → Bool | .cq _ => true | _ => false
def Call.isCpu : Call → Bool | .cpu _ => true | _ => false
def Call.isIdle : Call → Bool | .idle _ => true | _ => false
def Call.isDirect : Call → Bool | .direct _ => true | _ => false
def Call.isAttach : Call → Bool | .attach _ => true | _ => false

/-- What a chain of builder calls switches on. -/
structure Switched (c : Cfg) (cs : List Call) (c' : Cfg) : Prop where
  kernelThread : c'.kernelThread = (c.kernelThread || cs.contains .kernelThread)
  disabled : c'.disabled = (c.disabled || cs.contains .disable)
  singleIssuer : c'.singleIssuer = (c.singleIssuer || cs.contains .singleIssuer)
  deferTaskrun : c'.deferTaskrun = (c.deferTaskrun || cs.contains .deferTaskRun)
  clamp : c'.clamp = (c.clamp || cs.contains .max)
  cq : c'.cq.isSome = (c.cq.isSome || cs.any Call.isCq)
  cpu : c'.cpu.isSome = (c.cpu.isSome || cs.any Call.isCpu)
  idle : c'.idle.isSome = (c.idle.isSome || cs.any Call.isIdle)
  direct : c'.direct.isSome = (c.direct.isSome || cs.any Call.isDirect)
  attach : c'.attach.isSome = (c.attach.isSome || cs.any Call.isAttach)

theorem foldl_switched (cs : List Call) (c : Cfg) : Switched c cs (cs.foldl Cfg.call c) := by
  induction cs generalizing c with
  | nil => constructor <;> simp
  | cons x xs ih =>
    obtain ⟨h1, h2, h3, h4, h5, h6, h7, h8, h9, h10⟩ := ih (c.call x)
    simp only [List.foldl_cons]
    constructor
    all_goals
      first
      | rw [h1] | rw [h2] | rw [h3] | rw [h4] | rw [h5] | rw [h6] | rw [h7] | rw [h8] | rw [h9] | rw [h10]
    all_goals
      cases x <;>
        simp [Cfg.call, Call.isCq, Call.isCpu, Call.isIdle, Call.isDirect, Call.isAttach]

/-- A setting, once made by a builder call, is never lost, and nothing is
switched on that was not asked for: for every chain of builder calls on
`Ring::config()` each flag is set iff its method occurs in the chain. -/
theorem C18_builder_flags (cs : List Call) :
    let f := (params (Cfg.calls cs)).flags
    f.testBit B_SQPOLL = cs.contains .kernelThread ∧
    f.testBit B_COOP_TASKRUN = !cs.contains .kernelThread ∧
    f.testBit B_R_DISABLED = cs.contains .disable ∧
    f.testBit B_SINGLE_ISSUER = cs.contains .singleIssuer ∧
    f.testBit B_DEFER_TASKRUN = cs.contains .deferTaskRun ∧
    f.testBit B_CLAMP = cs.contains .max ∧
    f.testBit B_CQSIZE = cs.any Call.isCq ∧
    f.testBit B_SQ_AFF = cs.any Call.isCpu ∧
    f.testBit B_ATTACH_WQ = cs.any Call.isAttach ∧
    f.testBit B_SUBMIT_ALL = true ∧ f.testBit B_NO_SQARRAY = true ∧
    ((Cfg.calls cs).direct.isSome = cs.any Call.isDirect) := by
  obtain ⟨h1, h2, h3, h4, h5, h6, h7, h8, h9, h10⟩ := foldl_switched cs Cfg.new
  simp only [Cfg.new, Bool.false_or, Option.isSome_none] at h1 h2 h3 h4 h5 h6 h7 h8 h9 h10
  simp only [params, C18_params_flags, Cfg.calls]
  simp [flagSpec, B_SUBMIT_ALL, B_NO_SQARRAY, B_SQPOLL, B_COOP_TASKRUN, B_R_DISABLED, B_SINGLE_ISSUER,
    B_DEFER_TASKRUN, B_CQSIZE, B_CLAMP, B_SQ_AFF, B_ATTACH_WQ, Cfg.new, *]

/-- The last call of a valued setting decides its value; `with_maximum_queue_size`
asks for `u32::MAX` entries with clamping; the idle time saturates at
`u32::MAX` milliseconds. -/
theorem C18_builder_last_wins (cs : List Call) (n : Nat) :
    (params (Cfg.calls (cs ++ [.sq n]))).sqEntries = n ∧
    (params (Cfg.calls (cs ++ [.cq n]))).cqEntries = n ∧
    (params (Cfg.calls (cs ++ [.cpu n]))).sqThreadCpu = n ∧
    (params (Cfg.calls (cs ++ [.idle n]))).sqThreadIdle = min n U32MAX ∧
    (params (Cfg.calls (cs ++ [.attach n]))).wqFd = n ∧
    (Cfg.calls (cs ++ [.direct n])).direct = some n ∧
    ((params (Cfg.calls (cs ++ [.max]))).sqEntries = U32MAX ∧ (Cfg.calls (cs ++ [.max])).clamp = true) := by
  simp only [Cfg.calls, List.foldl_append, List.foldl_cons, List.foldl_nil, Cfg.call, params,
    Option.getD_some, true_and, and_true]
  split <;> omega

/-! ### Non-vacuity: concrete configurations and answers -/

/-- An echoed block as the kernel grants it for 8 entries. -/
def k0 : SetupOk :=
  { fd := 5, sqEntries := 8, cqEntries := 16, flags := 69762, features := 16382,
    sqArray := 0, cqCqes := 64 }

def c0 : Cfg := Cfg.calls [.sq 8, .kernelThread, .singleIssuer, .direct 64]

example : (params c0).flags = 69762 := by decide
example : KernelSizes k0 := by constructor <;> decide
example : Accepts true k0 { setup := .ok k0 } := by constructor <;> decide
example : Accepts c0.direct.isSome k0 { setup := .ok k0 } := by constructor <;> decide

/-- A build that goes through: the ring is the granted one, with both modes. -/
example : (build c0 { setup := .ok k0 }).result = .ok (builtRing k0)
    ∧ (builtRing k0).sq.kernelThread = true ∧ (builtRing k0).sq.singleIssuer = true
    ∧ (build c0 { setup := .ok k0 }).ledger = okLedger k0
    ∧ (build c0 { setup := .ok k0 }).trace.getLast? = some (regCall 64 none) := by decide

/-- Refusals at different points: nothing left, the clean-up in the trace. -/
example : build c0 { setup := .ok k0, madv2 := some 12 } =
    ⟨.err (.os 12), {},
     [.setup (params c0) (.ok 5), .mmap .sq 32 none, .madvise .sq 32 none, .mmap .sqes 512 none,
      .madvise .sqes 512 (some 12), .munmap .sqes 512, .munmap .sq 32, .close 5]⟩ := by decide

example : build c0 { setup := .ok k0, reg := some 16 } =
    ⟨.err (.os 16), {},
     [.setup (params c0) (.ok 5), .mmap .sq 32 none, .madvise .sq 32 none, .mmap .sqes 512 none,
      .madvise .sqes 512 none, .mmap .cq 320 none, .madvise .cq 320 none, regCall 64 (some 16),
      .munmap .cq 320, .munmap .sqes 512, .munmap .sq 32, .close 5]⟩ := by decide

example : (build c0 { setup := .ok { k0 with features := 16382 - 8 } }).result
    = .err (.unsupported F_RW_CUR_POS) := by decide

example : (build c0 { setup := .ok { k0 with cqEntries := 268435456 } }).result = .panic
    ∧ (build c0 { setup := .ok { k0 with cqEntries := 268435456 } }).ledger = {} := by decide

/-- Several refusals at once: the first call that is refused decides. -/
example : (build c0 { setup := .ok k0, mmap3 := some 11, madv1 := some 12, reg := some 16 }).result
    = .err (.os 12) := by decide

/-- The legality check of `C18_trace_legal` is not vacuous: a double close, an
unmapping with a wrong length and a mapping after the close are all rejected,
and a forgotten `munmap` leaves a non-empty ledger. -/
example : replay (some 5) [.setup (params c0) (.ok 5), .close 5, .close 5] {} = none := by decide
example : replay (some 5)
    [.setup (params c0) (.ok 5), .mmap .sq 32 none, .munmap .sq 16, .close 5] {} = none := by decide
example : replay (some 5)
    [.setup (params c0) (.ok 5), .close 5, .mmap .sq 32 none] {} = none := by decide
example : replay (some 5) [.setup (params c0) (.ok 5), .mmap .sq 32 none, .close 5] {}
    = some { fds := [], maps := [(.sq, 32)] } := by decide

end A10.Config
