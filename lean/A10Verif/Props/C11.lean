/-
C11 — `SubmissionQueue::wake` never loses a wake-up.

Theorems over the interleaving model `Model/Wake.lean` (one poller, any number
of wakers, the SQPOLL kernel thread, unrelated completions, other submissions
being queued), for every list of moves and the three ring configurations. `io`
and `fill` moves are never used to discharge an obligation: they are just more
moves the environment may make (a `fill` can make the submission queue exactly
full when `wake()` is called: the `QueueFull` retry path).

Reading of the statement (DESIGN.md, C11): the decisive step of `wake()` is its
`fetch_or` (`k1`); the obligation it creates (`oblig`) attaches to the
`Ring::poll` call in progress at that step, otherwise to the next call to start.
-/
import A10Verif.Lemmas.Wake

namespace A10.Wake

open A10

/-- The states reachable from a start state (any configuration, at least one
submission-queue slot and one completion-queue slot) by any interleaving of moves. -/
def Reachable (s : St) : Prop :=
  ∃ (mode : Mode) (sqLen cqLen : Nat) (ms : List Mv),
    1 ≤ sqLen ∧ 1 ≤ cqLen ∧ runMv (initC mode sqLen cqLen) ms = s

theorem Reachable.step {s : St} (h : Reachable s) (m : Mv) : Reachable (stepMv s m) := by
  rcases h with ⟨mode, sqLen, cqLen, ms, hl, hc, rfl⟩
  exact ⟨mode, sqLen, cqLen, ms ++ [m], hl, hc, by rw [runMv_append]; rfl⟩

theorem Reachable.run {s : St} (h : Reachable s) (ms : List Mv) : Reachable (runMv s ms) := by
  rcases h with ⟨mode, sqLen, cqLen, ms0, hl, hc, rfl⟩
  exact ⟨mode, sqLen, cqLen, ms0 ++ ms, hl, hc, by rw [runMv_append]⟩

/-- The start state with the default completion queue is a start state. -/
theorem Reachable.of_init (mode : Mode) (sqLen : Nat) (hl : 1 ≤ sqLen) (ms : List Mv) :
    Reachable (runMv (init mode sqLen) ms) :=
  ⟨mode, sqLen, 64, ms, hl, by decide, rfl⟩

/-! ### The invariant -/

/-- The inductive invariant (`Lemmas/Wake.lean`, `Inv`) holds after every interleaving. -/
theorem C11_inv (mode : Mode) (sqLen cqLen : Nat) (hlen : 1 ≤ sqLen) (hclen : 1 ≤ cqLen)
    (ms : List Mv) : Inv (runMv (initC mode sqLen cqLen) ms) :=
  inv_runMv (inv_initC mode sqLen cqLen hlen hclen) ms

theorem Reachable.inv {s : St} (h : Reachable s) : Inv s := by
  rcases h with ⟨mode, sqLen, cqLen, ms, hl, hc, rfl⟩
  exact C11_inv mode sqLen cqLen hl hc ms

/-- The invariant in the words of DESIGN.md: once some `wake()` call has passed its
`fetch_or` since the poller's previous return, a completion is available (in the
completion queue or on the kernel's overflow list), or
a wake message is queued, or a waker is on its sending path, or AWOKEN is set and the
poller has not executed its swap yet, or the poller is past the swap and cannot block. -/
theorem C11_inv_design (s : St) (hs : Reachable s) :
    s.oblig = true →
      0 < s.avail ∨ true ∈ s.sq ∨ Has (fun pc => pc.sending = true) s.w ∨
      (s.word / 2 % 2 = 1 ∧ (s.p = .idle ∨ (∃ inf, s.p = .start inf) ∨ (∃ inf, s.p = .c3 inf))) ∨
      ((∃ n, s.p = .e3 false n) ∨ s.p = .c4 ∨ s.p = .c5) := by
  intro ho
  rcases hs.inv.ob ho with c | c | c | c | c
  · left; exact c
  · right; left; exact c
  · right; right; left
    refine c.mono ?_
    intro pc hpc
    cases pc <;> simp_all [WPc.robust, WPc.sending]
  · right; right; right; left
    refine ⟨c.1, ?_⟩
    have c2 := c.2
    cases hp : s.p <;> simp_all [PPc.preSwap]
  · right; right; right; right
    cases hp : s.p <;> simp_all [PPc.noBlock]
    rename_i b n
    cases b <;> simp_all

/-- The configuration never changes. -/
theorem stepMv_mode (s : St) (m : Mv) :
    (stepMv s m).mode = s.mode ∧ (stepMv s m).sqLen = s.sqLen ∧ (stepMv s m).cqLen = s.cqLen := by
  cases m with
  | poll inf => simp only [stepMv, startPoll]; split <;> simp
  | p =>
    simp only [stepMv, stepP]
    split <;> (try split) <;> (try split) <;> simp [consume, post, flush]
  | call j =>
    simp only [stepMv, startWake]
    split <;> (try split) <;> simp
  | w j => exact ⟨(stepW_frame s j).2.2.1, (stepW_frame s j).2.2.2.1, (stepW_frame s j).2.2.2.2.1⟩
  | k => simp only [stepMv, stepK]; split <;> simp [consume, post]
  | io => simp [stepMv, stepIo, post]
  | fill => simp only [stepMv, stepFill]; split <;> simp

theorem C11_config_const (mode : Mode) (sqLen cqLen : Nat) (ms : List Mv) :
    (runMv (initC mode sqLen cqLen) ms).mode = mode ∧
    (runMv (initC mode sqLen cqLen) ms).sqLen = sqLen ∧
    (runMv (initC mode sqLen cqLen) ms).cqLen = cqLen := by
  have : ∀ (s : St) (ms : List Mv), (runMv s ms).mode = s.mode ∧ (runMv s ms).sqLen = s.sqLen ∧
      (runMv s ms).cqLen = s.cqLen := by
    intro s ms
    induction ms generalizing s with
    | nil => exact ⟨rfl, rfl, rfl⟩
    | cons m ms ih =>
      have a := ih (stepMv s m)
      have b := stepMv_mode s m
      exact ⟨a.1.trans b.1, a.2.1.trans b.2.1, a.2.2.trans b.2.2⟩
  exact this (initC mode sqLen cqLen) ms

/-! ### No lost wake-up: a blocked poller -/

/-- A blocked poller leaves `.waiting` as soon as a completion is available: the wait loop
flushes the overflow list into the (at least one slot large) queue. -/
theorem stepP_waiting_avail {s : St} (hc : 1 ≤ s.cqLen) (hp : s.p = .waiting)
    (h : 0 < s.avail) : (stepP s).p = .c4 := by
  have hf : (flush s).cq > 0 := flush_cq_pos hc h
  simp only [stepP, hp]
  rw [if_pos hf]

/-- The poller is never blocked for good after a completed wake: if it is blocked
in the kernel (`.waiting`, infinite timeout), a `wake()` call has passed its
`fetch_or` since the poller's previous return, every wake call has returned and
(SQPOLL) the kernel thread has nothing left to consume, then a completion is
available (in the completion queue, or on the overflow list from which the wait loop
moves it into the queue), so the blocked `io_uring_enter` returns: the poller's next step
leaves `.waiting`. -/
theorem C11_no_lost_wake (s : St) (hs : Reachable s) :
    s.p = .waiting → s.oblig = true → (∀ pc ∈ s.w, pc = .done) →
    (s.mode = .sqpoll → true ∉ s.sq) →
      0 < s.avail ∧ (stepP s).p = .c4 := by
  intro hp ho hd hk
  have hinv := hs.inv
  have hcq : 0 < s.avail := by
    rcases hinv.ob ho with c | c | c | c | c
    · exact c
    · by_cases hm : s.mode = .sqpoll
      · exact absurd c (hk hm)
      · exact absurd (hinv.cover hm c) (not_has_of_all hd (by simp))
    · exact absurd c (not_has_of_all hd (by simp [WPc.robust]))
    · have c2 := c.2
      rw [hp] at c2; simp [PPc.preSwap] at c2
    · rw [hp] at c; simp [PPc.noBlock] at c
  refine ⟨hcq, ?_⟩
  exact stepP_waiting_avail hinv.clen hp hcq

/-- The same with the kernel thread still to run: after its step (which is a no-op
without SQPOLL) the blocked poller leaves `.waiting`. No hypothesis on `sq`. -/
theorem C11_no_lost_wake_kernel (s : St) (hs : Reachable s) :
    s.p = .waiting → s.oblig = true → (∀ pc ∈ s.w, pc = .done) →
      0 < (stepK s).avail ∧ (stepP (stepK s)).p = .c4 := by
  intro hp ho hd
  have hinv := hs.inv
  have hcq : 0 < (stepK s).avail := by
    have hc := consume_avail_le s s.sq.length
    rcases hinv.ob ho with c | c | c | c | c
    · unfold stepK; split
      · omega
      · exact c
    · by_cases hm : s.mode = .sqpoll
      · simp only [stepK, hm, beq_self_eq_true, if_true]
        rcases consume_true s.sq.length c with d | d
        · exact d
        · simp [consume_sq] at d
      · exact absurd (hinv.cover hm c) (not_has_of_all hd (by simp))
    · exact absurd c (not_has_of_all hd (by simp [WPc.robust]))
    · have c2 := c.2
      rw [hp] at c2; simp [PPc.preSwap] at c2
    · rw [hp] at c; simp [PPc.noBlock] at c
  refine ⟨hcq, ?_⟩
  have hp' : (stepK s).p = .waiting := by
    unfold stepK; split
    · exact hp
    · exact hp
  have hc' : 1 ≤ (stepK s).cqLen := by
    unfold stepK; split
    · exact hinv.clen
    · exact hinv.clen
  exact stepP_waiting_avail hc' hp' hcq

/-- SQPOLL: while a wake message is published the kernel thread's move is enabled,
it empties the queue and posts the message's completion. (Any state.) -/
theorem C11_kernel_thread_enabled (s : St) (hm : s.mode = .sqpoll) (hsq : true ∈ s.sq) :
    0 < (stepK s).avail ∧ (stepK s).sq = [] := by
  simp only [stepK, hm, beq_self_eq_true, if_true]
  refine ⟨?_, by simp [consume_sq]⟩
  rcases consume_true s.sq.length hsq with d | d
  · exact d
  · simp [consume_sq] at d

/-- Position of a waker in its call (number of own steps still to go, at most). -/
def WPc.rank : WPc → Nat
  | .k1 => 3
  | .enter false _ => 2
  | .enter true _ => 1
  | .sync => 1
  | .done => 0

/-- A waker that has not returned always has an enabled step that changes its pc, to
one strictly closer to its return (so a wake call takes at most 3 such steps) —
except in the `QueueFull` retry loop with SQPOLL, when the submission queue is still
full (`sq.length = sqLen`; of wake messages and/or other submissions): then the kernel
thread's move is enabled, empties the queue (posting the completion of every wake message
in it), and after it the waker's step adds its message. Without SQPOLL the retry always
succeeds, because the waker's own `enter` submits the whole queue. -/
theorem C11_waker_progress (s : St) (hs : Reachable s) (j : Nat) (pc : WPc) :
    s.w[j]? = some pc → pc ≠ .done →
      (∃ pc', (stepW s j).w[j]? = some pc' ∧ pc'.rank < pc.rank) ∨
      (s.mode = .sqpoll ∧ (∃ n, pc = .enter false n) ∧ s.sq.length = s.sqLen ∧
        (stepK s).sq = [] ∧ (true ∈ s.sq → 0 < (stepK s).avail) ∧
        ∃ n', (stepW (stepK s) j).w[j]? = some (.enter true n')) := by
  intro hj hnd
  have hinv := hs.inv
  have hset : ∀ x : WPc, (s.w.set j x)[j]? = some x := by
    intro x; rw [get_set hj]; simp
  cases pc with
  | done => exact absurd rfl hnd
  | k1 =>
    left
    by_cases hw : s.word = 1
    · by_cases hm : s.mode = .single
      · rw [stepW_k1_single hj hw hm]; exact ⟨_, hset _, by simp [WPc.rank]⟩
      · by_cases hlt : s.sq.length < s.sqLen
        · rw [stepW_k1_add hj hw hm hlt]; exact ⟨_, hset _, by simp [WPc.rank]⟩
        · rw [stepW_k1_full hj hw hm hlt]; exact ⟨_, hset _, by simp [WPc.rank]⟩
    · rw [stepW_k1_other hj hw]; exact ⟨_, hset _, by simp [WPc.rank]⟩
  | sync => left; rw [stepW_sync hj]; exact ⟨_, hset _, by simp [WPc.rank]⟩
  | enter added n =>
    cases added
    · by_cases hlt : (consume s n).sq.length < s.sqLen
      · left; rw [stepW_enter_false_add hj hlt]; exact ⟨_, hset _, by simp [WPc.rank]⟩
      · right
        have hc := consume_len s n
        have hle := hinv.sqle
        have hlen' := hinv.len
        by_cases hm : s.mode = .sqpoll
        · have hfull : s.sq.length = s.sqLen := by omega
          have hk : stepK s = consume s s.sq.length := by simp [stepK, hm]
          have hjk : (stepK s).w[j]? = some (.enter false n) := by rw [hk]; exact hj
          have hsq0 : (stepK s).sq = [] := by rw [hk]; simp [consume_sq]
          have hcq : true ∈ s.sq → 0 < (stepK s).avail := by
            intro hin
            rw [hk]
            rcases consume_true s.sq.length hin with d | d
            · exact d
            · simp [consume_sq] at d
          have hlt' : (consume (stepK s) n).sq.length < (stepK s).sqLen := by
            have := consume_len (stepK s) n
            have e : (stepK s).sqLen = s.sqLen := by rw [hk]; rfl
            rw [hsq0] at this
            simp only [List.length_nil] at this
            omega
          refine ⟨hm, ⟨n, rfl⟩, hfull, hsq0, hcq, ?_⟩
          rw [stepW_enter_false_add hjk hlt']
          refine ⟨if (stepK s).mode = .sqpoll then 0 else (consume (stepK s) n).sq.length + 1, ?_⟩
          show ((stepK s).w.set j _)[j]? = _
          rw [get_set hjk]; simp
        · exfalso
          have := hinv.full hm j n hj
          omega
    · left; rw [stepW_enter_true hj]; exact ⟨_, hset _, by simp [WPc.rank]⟩

/-! ### No lost wake-up: the next poll to start -/

/-- The poller's current (or next) call cannot block: it has not swapped yet and
AWOKEN is set, or it is past the swap with a zero timeout or already leaving. -/
def NoBlockAhead (s : St) : Prop :=
  (s.p.preSwap = true ∧ s.word = 2) ∨ s.p.noBlock = true

theorem noBlockAhead_stepP {s : St} (h : NoBlockAhead s) :
    NoBlockAhead (stepP s) ∨ ((stepP s).p = .idle ∧ (stepP s).returns = s.returns + 1) := by
  unfold NoBlockAhead at *
  cases hp : s.p with
  | idle => left; simpa [stepP, hp] using h
  | start inf =>
    simp only [hp, PPc.preSwap, PPc.noBlock] at h
    by_cases hcq : s.cq > 0
    · right; simp [stepP, hp, hcq]
    · left; left; simp [stepP, hp, hcq, PPc.preSwap]; simpa using h
  | c3 inf =>
    simp only [hp, PPc.preSwap, PPc.noBlock] at h
    have hw : s.word = 2 := by simpa using h
    left; right
    simp [stepP, hp, hw, PPc.noBlock]
  | e3 b n =>
    cases b
    · left; right
      simp only [stepP, hp]
      split <;> simp [PPc.noBlock]
    · simp [hp, PPc.preSwap, PPc.noBlock] at h
  | waiting => simp [hp, PPc.preSwap, PPc.noBlock] at h
  | c4 => left; right; simp [stepP, hp, PPc.noBlock]
  | c5 => right; simp [stepP, hp]

theorem stepP_returns_le (s : St) : s.returns ≤ (stepP s).returns := by
  cases hp : s.p <;> simp only [stepP, hp]
  case start => split <;> simp
  case e3 b n => (repeat' split) <;> simp [consume]
  case waiting => split <;> simp
  all_goals simp

/-- Effect of the moves other than the poller's own step on the poller. -/
theorem stepMv_other_frame (s : St) (m : Mv) (hm : m ≠ .p) :
    (stepMv s m).returns = s.returns ∧
    ((stepMv s m).p = s.p ∨ (∃ inf, m = .poll inf ∧ s.p = .idle ∧ (stepMv s m).p = .start inf)) ∧
    (s.word = 2 → (stepMv s m).word = 2) := by
  cases m with
  | p => exact absurd rfl hm
  | poll inf =>
    simp only [stepMv, startPoll]
    split
    · rename_i hp; exact ⟨rfl, Or.inr ⟨inf, rfl, hp, rfl⟩, fun h => h⟩
    · exact ⟨rfl, Or.inl rfl, fun h => h⟩
  | call j =>
    simp only [stepMv, startWake]
    split
    · exact ⟨rfl, Or.inl rfl, fun h => h⟩
    · split
      · exact ⟨rfl, Or.inl rfl, fun h => h⟩
      · exact ⟨rfl, Or.inl rfl, fun h => h⟩
  | w j =>
    have := stepW_frame s j
    exact ⟨this.2.1, Or.inl this.1, this.2.2.2.2.2⟩
  | k =>
    simp only [stepMv, stepK]
    split
    · exact ⟨rfl, Or.inl rfl, fun h => h⟩
    · exact ⟨rfl, Or.inl rfl, fun h => h⟩
  | io => exact ⟨rfl, Or.inl rfl, fun h => h⟩
  | fill =>
    simp only [stepMv, stepFill]
    split
    · exact ⟨rfl, Or.inl rfl, fun h => h⟩
    · exact ⟨rfl, Or.inl rfl, fun h => h⟩

theorem noBlockAhead_other {s : St} (h : NoBlockAhead s) (m : Mv) (hm : m ≠ .p) :
    NoBlockAhead (stepMv s m) := by
  rcases stepMv_other_frame s m hm with ⟨_, hp, hw⟩
  unfold NoBlockAhead at *
  rcases hp with e | ⟨inf, _, hi, e⟩
  · rw [e]
    rcases h with ⟨a, b⟩ | a
    · exact Or.inl ⟨a, hw b⟩
    · exact Or.inr a
  · rw [e]
    rcases h with ⟨a, b⟩ | a
    · exact Or.inl ⟨rfl, hw b⟩
    · rw [hi] at a; simp [PPc.noBlock] at a

theorem returns_mono (s : St) (ms : List Mv) : s.returns ≤ (runMv s ms).returns := by
  induction ms generalizing s with
  | nil => exact Nat.le_refl _
  | cons m ms ih =>
    refine Nat.le_trans ?_ (ih (stepMv s m))
    by_cases hm : m = .p
    · subst hm; exact stepP_returns_le s
    · exact Nat.le_of_eq (stepMv_other_frame s m hm).1.symm

theorem noBlockAhead_run {s : St} (h : NoBlockAhead s) (ms : List Mv) :
    NoBlockAhead (runMv s ms) ∨ s.returns < (runMv s ms).returns := by
  induction ms generalizing s with
  | nil => exact Or.inl h
  | cons m ms ih =>
    by_cases hm : m = .p
    · subst hm
      rcases noBlockAhead_stepP h with a | ⟨_, a⟩
      · rcases ih a with b | b
        · exact Or.inl b
        · right
          have := stepP_returns_le s
          exact Nat.lt_of_le_of_lt this b
      · right
        have := returns_mono (stepP s) ms
        show s.returns < (runMv (stepP s) ms).returns
        omega
    · rcases ih (noBlockAhead_other h m hm) with b | b
      · exact Or.inl b
      · right
        have := (stepMv_other_frame s m hm).1
        show s.returns < (runMv (stepMv s m) ms).returns
        omega

theorem noBlockAhead_not_waiting {s : St} (h : NoBlockAhead s) : s.p ≠ .waiting := by
  intro hp
  unfold NoBlockAhead at h
  rw [hp] at h
  simp [PPc.preSwap, PPc.noBlock] at h

/-- When the poller is idle and a `wake()` call has passed its `fetch_or` since the
previous return, the next `Ring::poll` call (any timeout) does not block, under EVERY
interleaving of all the moves (wakers, kernel thread, unrelated completions, new wake
calls): whenever the poller is seen `.waiting` afterwards, that call has already
returned (a later call is the one that blocks). No hypothesis on the wakers. -/
theorem C11_next_poll_never_blocks (s : St) (hs : Reachable s) (hp : s.p = .idle)
    (ho : s.oblig = true) (inf : Bool) (ms : List Mv) :
    (runMv (startPoll s inf) ms).p = .waiting →
      s.returns < (runMv (startPoll s inf) ms).returns := by
  intro hw
  have h0 : NoBlockAhead (startPoll s inf) := by
    have h2 : s.word = 2 := hs.inv.obw ho (by simp [hp, PPc.preSwap])
    left
    simp [startPoll, hp, PPc.preSwap, h2]
  have hr : (startPoll s inf).returns = s.returns := by simp [startPoll, hp]
  rcases noBlockAhead_run h0 ms with a | a
  · exact absurd hw (noBlockAhead_not_waiting a)
  · omega

/-- The statement asked for: poller idle, obligation pending, every wake call
returned; start a poll with an infinite timeout and let only the poller and the
kernel thread move (and anybody queue other submissions): the poller never reaches
`.waiting`. -/
theorem C11_next_poll_prompt (s : St) (hs : Reachable s) (hp : s.p = .idle)
    (ho : s.oblig = true) (_hd : ∀ pc ∈ s.w, pc = .done)
    (ms : List Mv) (hms : ∀ m ∈ ms, m = .p ∨ m = .k ∨ m = .fill) :
    (runMv (startPoll s true) ms).p ≠ .waiting := by
  have key : ∀ (t : St) (ms : List Mv), (∀ m ∈ ms, m = .p ∨ m = .k ∨ m = .fill) →
      (t.p = .idle ∨ NoBlockAhead t) → (runMv t ms).p ≠ .waiting := by
    intro t ms
    induction ms generalizing t with
    | nil =>
      intro _ h
      rcases h with h | h
      · show t.p ≠ .waiting
        rw [h]; simp
      · exact noBlockAhead_not_waiting h
    | cons m ms ih =>
      intro hms h
      have hm := hms m (by simp)
      refine ih (stepMv t m) (fun m' hm' => hms m' (by simp [hm'])) ?_
      rcases hm with e | e
      · subst e
        rcases h with h | h
        · left; show (stepP t).p = .idle; simp [stepP, h]
        · rcases noBlockAhead_stepP h with a | ⟨a, _⟩
          · exact Or.inr a
          · exact Or.inl a
      · have hne : m ≠ .p := by rcases e with e | e <;> subst e <;> simp
        rcases h with h | h
        · left
          have := (stepMv_other_frame t m hne).2.1
          rcases this with e' | ⟨_, e', _⟩
          · rw [e']; exact h
          · rcases e with e | e <;> subst e <;> cases e'
        · exact Or.inr (noBlockAhead_other h m hne)
  refine key _ ms hms (Or.inr ?_)
  have h2 : s.word = 2 := hs.inv.obw ho (by simp [hp, PPc.preSwap])
  left
  simp [startPoll, hp, PPc.preSwap, h2]

/-! ### Bounded response -/

/-- `k` steps of the poller alone (nothing else moves: no waker, no kernel thread, no I/O). -/
def pollerRun (s : St) (k : Nat) : St := runMv s (List.replicate k Mv.p)

/-- The poller's current call returns within `k` of its own steps. -/
def ReturnsWithin (s : St) (k : Nat) : Prop :=
  ∃ i, i ≤ k ∧ (pollerRun s i).p = .idle ∧ (pollerRun s i).returns = s.returns + 1

theorem returnsWithin_one {s : St} (h : (stepP s).p = .idle ∧ (stepP s).returns = s.returns + 1)
    {k : Nat} (hk : 1 ≤ k) : ReturnsWithin s k :=
  ⟨1, hk, h⟩

theorem returnsWithin_succ {s : St} {k : Nat} (h : ReturnsWithin (stepP s) k)
    (hr : (stepP s).returns = s.returns) : ReturnsWithin s (k + 1) := by
  rcases h with ⟨i, hi, a, b⟩
  exact ⟨i + 1, by omega, a, by rw [← hr]; exact b⟩

theorem returnsWithin_mono {s : St} {k k' : Nat} (h : ReturnsWithin s k) (hk : k ≤ k') :
    ReturnsWithin s k' := by
  rcases h with ⟨i, hi, a⟩
  exact ⟨i, by omega, a⟩

theorem rw_c5 {s : St} (hp : s.p = .c5) : ReturnsWithin s 1 :=
  returnsWithin_one (by simp [stepP, hp]) (Nat.le_refl _)

theorem rw_c4 {s : St} (hp : s.p = .c4) : ReturnsWithin s 2 :=
  returnsWithin_succ (rw_c5 (by simp [stepP, hp])) (by simp [stepP, hp])

theorem rw_waiting {s : St} (hc : 1 ≤ s.cqLen) (hp : s.p = .waiting) (hcq : 0 < s.avail) :
    ReturnsWithin s 3 := by
  have hf : (flush s).cq > 0 := flush_cq_pos hc hcq
  exact returnsWithin_succ (rw_c4 (stepP_waiting_avail hc hp hcq))
    (by simp only [stepP, hp]; rw [if_pos hf]; rfl)

theorem rw_e3 {s : St} {b : Bool} {n : Nat} (hc : 1 ≤ s.cqLen) (hp : s.p = .e3 b n)
    (h : b = false ∨ 0 < s.avail) : ReturnsWithin s 3 := by
  have e : (stepP s).p = .c4 ∧ (stepP s).returns = s.returns := by
    simp only [stepP, hp]
    have hr : (flush (consume s n)).returns = s.returns := rfl
    have hcc : 0 < s.avail → (flush (consume s n)).cq > 0 := by
      intro h0
      exact flush_cq_pos (s := consume s n) hc (by have := consume_avail_le s n; omega)
    generalize flush (consume s n) = t at hr hcc
    by_cases hcq : t.cq > 0
    · simp [hcq, hr]
    · rcases h with h | h
      · subst h; simp [hcq, hr]
      · exact absurd (hcc h) hcq
  exact returnsWithin_succ (rw_c4 e.1) e.2

theorem rw_c3 {s : St} {inf : Bool} (hc : 1 ≤ s.cqLen) (hp : s.p = .c3 inf)
    (h : s.word = 2 ∨ 0 < s.avail) : ReturnsWithin s 4 := by
  refine returnsWithin_succ (rw_e3 (b := inf && !(s.word / 2 % 2 == 1)) (n := toSubmit s)
    (by simpa [stepP, hp] using hc) (by simp [stepP, hp]) ?_) (by simp [stepP, hp])
  rcases h with h | h
  · left; simp [h]
  · right; simpa [stepP, hp] using h

theorem rw_start {s : St} {inf : Bool} (hc : 1 ≤ s.cqLen) (hp : s.p = .start inf)
    (h : s.word = 2 ∨ 0 < s.avail) : ReturnsWithin s 5 := by
  by_cases hcq : s.cq > 0
  · exact returnsWithin_one (by simp [stepP, hp, hcq]) (by omega)
  · refine returnsWithin_succ (rw_c3 (inf := inf) (by simpa [stepP, hp, hcq] using hc)
      (by simp [stepP, hp, hcq]) ?_) (by simp [stepP, hp, hcq])
    rcases h with h | h
    · left; simpa [stepP, hp, hcq] using h
    · right; simpa [stepP, hp, hcq] using h

/-- Any state with a non-degenerate completion queue (reachable or not): a poller that is
in a call and either cannot block any more (`NoBlockAhead`) or has a completion available
(in the queue or on the overflow list) returns within 5 of its own steps, nothing else moving. -/
theorem C11_poll_returns_unblocked (s : St) (hc : 1 ≤ s.cqLen) (hne : s.p ≠ .idle)
    (h : NoBlockAhead s ∨ 0 < s.avail) : ReturnsWithin s 5 := by
  have hw : (s.p.preSwap = true → s.word = 2 ∨ 0 < s.avail) := by
    intro hpre
    rcases h with (⟨_, h⟩ | h) | h
    · exact Or.inl h
    · cases hp : s.p <;> simp_all [PPc.preSwap, PPc.noBlock]
    · exact Or.inr h
  cases hp : s.p with
  | idle => exact absurd hp hne
  | start inf => exact rw_start hc hp (hw (by simp [hp, PPc.preSwap]))
  | c3 inf => exact returnsWithin_mono (rw_c3 hc hp (hw (by simp [hp, PPc.preSwap]))) (by omega)
  | e3 b n =>
    refine returnsWithin_mono (rw_e3 hc hp ?_) (by omega)
    rcases h with (⟨h, _⟩ | h) | h
    · simp [hp, PPc.preSwap] at h
    · left; cases b <;> simp_all [PPc.noBlock]
    · exact Or.inr h
  | waiting =>
    refine returnsWithin_mono (rw_waiting hc hp ?_) (by omega)
    rcases h with (⟨h, _⟩ | h) | h
    · simp [hp, PPc.preSwap] at h
    · simp [hp, PPc.noBlock] at h
    · exact h
  | c4 => exact returnsWithin_mono (rw_c4 hp) (by omega)
  | c5 => exact returnsWithin_mono (rw_c5 hp) (by omega)

/-- Bounded response to a wake: in any reachable state in which the poller is in a
call (blocked in the kernel or not), a `wake()` call has passed its `fetch_or` since
the poller's previous return, every wake call has returned and (SQPOLL) the kernel
thread has no wake message left to consume, the poller's call returns (`returns` increases
by one, pc `.idle`) within at most 6 of its own steps — no waker, kernel-thread or
I/O move is needed. -/
theorem C11_poll_returns (s : St) (hs : Reachable s) (hne : s.p ≠ .idle)
    (ho : s.oblig = true) (hd : ∀ pc ∈ s.w, pc = .done) (hk : s.mode = .sqpoll → true ∉ s.sq) :
    ReturnsWithin s 6 := by
  have hinv := hs.inv
  refine returnsWithin_mono (C11_poll_returns_unblocked s hinv.clen hne ?_) (by omega)
  rcases hinv.ob ho with c | c | c | c | c
  · exact Or.inr c
  · by_cases hm : s.mode = .sqpoll
    · exact absurd c (hk hm)
    · exact absurd (hinv.cover hm c) (not_has_of_all hd (by simp))
  · exact absurd c (not_has_of_all hd (by simp [WPc.robust]))
  · exact Or.inl (Or.inl ⟨c.2, hinv.obw ho c.2⟩)
  · exact Or.inl (Or.inr c)

/-- Position of the poller in its call (number of own steps still to go, at most). -/
def PPc.rank : PPc → Nat
  | .idle => 0
  | .c5 => 1
  | .c4 => 2
  | .waiting => 3
  | .e3 _ _ => 4
  | .c3 _ => 5
  | .start _ => 6

/-- Under ANY interleaving: every step of the poller, except while it is blocked with
nothing available (empty completion queue and empty overflow list), brings it strictly closer to its return (so it makes at
most 6 such steps per call), and no other move changes the poller's pc (a `poll` move
only starts a new call when it is idle). With `C11_no_lost_wake` (a blocked poller
with a completed wake pending has a non-empty completion queue) this is the bounded
response for arbitrary interleavings. -/
theorem C11_poll_progress (s : St) (hc : 1 ≤ s.cqLen) :
    (s.p ≠ .idle → ¬ (s.p = .waiting ∧ s.avail = 0) → (stepP s).p.rank < s.p.rank) ∧
    (∀ m : Mv, m ≠ .p → (stepMv s m).p = s.p ∨
      (∃ inf, m = .poll inf ∧ s.p = .idle ∧ (stepMv s m).p = .start inf)) := by
  refine ⟨?_, fun m hm => (stepMv_other_frame s m hm).2.1⟩
  intro hne hnb
  cases hp : s.p with
  | idle => exact absurd hp hne
  | start inf => simp only [stepP, hp]; split <;> simp [PPc.rank]
  | c3 inf => simp [stepP, hp, PPc.rank]
  | e3 b n => simp only [stepP, hp]; (repeat' split) <;> simp [PPc.rank]
  | waiting =>
    have : 0 < s.avail := by
      rcases Nat.eq_zero_or_pos s.avail with h | h
      · exact absurd ⟨hp, h⟩ hnb
      · exact h
    rw [stepP_waiting_avail hc hp this]; decide
  | c4 => simp [stepP, hp, PPc.rank]
  | c5 => simp [stepP, hp, PPc.rank]

/-- The literal reading "from any reachable state in which the poller is not idle and
not `.waiting` with nothing available, the poller returns within 6 own steps" does NOT hold, and
must not: a poll with an infinite timeout, no wake call and no I/O blocks. It is kept
here as a `Prop` with its refutation; `C11_poll_returns` is the statement with the
hypothesis that a wake call is pending. -/
def C11_poll_returns_literal : Prop :=
  ∀ s : St, Reachable s → s.p ≠ .idle → ¬ (s.p = .waiting ∧ s.avail = 0) → ReturnsWithin s 6

theorem C11_poll_returns_literal_fails : ¬ C11_poll_returns_literal := by
  intro h
  have hr : Reachable (runMv (init .default 4) [.poll true]) :=
    Reachable.of_init .default 4 (by decide) _
  rcases h _ hr (by decide) (by decide) with ⟨i, hi, hp, _⟩
  have : i = 0 ∨ i = 1 ∨ i = 2 ∨ i = 3 ∨ i = 4 ∨ i = 5 ∨ i = 6 := by omega
  rcases this with e | e | e | e | e | e | e <;> subst e <;> revert hp <;> decide

/-! ### Idle poller, dropped Ring -/

/-- When the poller is not inside a call the POLLING bit is clear. -/
theorem C11_idle_word (s : St) (hs : Reachable s) (hp : s.p = .idle) : s.word % 2 = 0 := by
  have h3 := hs.inv.word
  simp only [hp, PPc.polling] at h3
  rcases (by simpa using h3 : s.word = 0 ∨ s.word = 2) with e | e <;> simp [e]

/-- A `wake()` call whose `fetch_or` sees the POLLING bit clear (any state: this is in
particular the situation after the Ring has been dropped — nobody polls any more, the
word is kept alive by every handle) is finished after that single step: it sets AWOKEN
in the polling word and nothing else — no message is queued, the kernel is not
entered, `sq`, `cq`, the poller and the other wakers are untouched. -/
theorem C11_after_drop (s : St) (j : Nat) (hj : s.w[j]? = some .k1) (hw : s.word % 2 = 0) :
    stepW s j = { s with word := if s.word / 2 % 2 = 1 then s.word else s.word + 2,
                         oblig := true, w := s.w.set j .done } ∧
    (stepW s j).w[j]? = some .done ∧ (stepW s j).sq = s.sq ∧ (stepW s j).cq = s.cq ∧
    (stepW s j).ovf = s.ovf ∧
    (stepW s j).p = s.p ∧ (stepW s j).word % 2 = 0 ∧
    (∀ i, i ≠ j → (stepW s j).w[i]? = s.w[i]?) := by
  have hne : s.word ≠ 1 := by omega
  rw [stepW_k1_other hj hne]
  refine ⟨rfl, ?_, rfl, rfl, rfl, rfl, ?_, ?_⟩
  · show (s.w.set j .done)[j]? = _
    rw [get_set hj]; simp
  · show (if s.word / 2 % 2 = 1 then s.word else s.word + 2) % 2 = 0
    split <;> omega
  · intro i hi
    show (s.w.set j .done)[i]? = _
    rw [get_set hj]; simp [hi]

/-- What holds along a run of wake calls while nobody polls. -/
def Dropped (sq : List Bool) (cq : Nat × Nat) (t : St) : Prop :=
  t.p = .idle ∧ t.word % 2 = 0 ∧ (∀ pc ∈ t.w, pc = .k1 ∨ pc = .done) ∧
  (∃ k, t.sq = sq ++ List.replicate k false) ∧ (t.cq, t.ovf) = cq

theorem dropped_step {sq : List Bool} {cq : Nat × Nat} {t : St} (h : Dropped sq cq t) (m : Mv)
    (hm : (∃ j, m = .call j) ∨ (∃ j, m = .w j) ∨ m = .fill) : Dropped sq cq (stepMv t m) := by
  rcases h with ⟨h1, h2, h3, h4, h5⟩
  rcases hm with ⟨j, rfl⟩ | ⟨j, rfl⟩ | rfl
  · simp only [stepMv, startWake]
    split
    · refine ⟨h1, h2, ?_, h4, h5⟩
      intro pc hpc
      rcases List.mem_append.1 hpc with a | a
      · exact h3 pc a
      · simp at a; exact Or.inl a
    · split
      · refine ⟨h1, h2, ?_, h4, h5⟩
        intro pc hpc
        rcases List.mem_or_eq_of_mem_set hpc with a | a
        · exact h3 pc a
        · exact Or.inl a
      · exact ⟨h1, h2, h3, h4, h5⟩
  · simp only [stepMv]
    cases hj : t.w[j]? with
    | none => rw [stepW_none hj]; exact ⟨h1, h2, h3, h4, h5⟩
    | some pc =>
      rcases h3 pc (List.mem_of_getElem? hj) with e | e
      · subst e
        have a := C11_after_drop t j hj h2
        refine ⟨a.2.2.2.2.2.1.trans h1, a.2.2.2.2.2.2.1, ?_, ?_,
          (by rw [a.2.2.2.1, a.2.2.2.2.1]; exact h5)⟩
        · rw [a.1]
          intro pc hpc
          rcases List.mem_or_eq_of_mem_set hpc with b | b
          · exact h3 pc b
          · exact Or.inr b
        · rw [a.2.2.1]; exact h4
      · subst e
        rw [stepW_done hj]; exact ⟨h1, h2, h3, h4, h5⟩
  · simp only [stepMv, stepFill]
    split
    · refine ⟨h1, h2, h3, ?_, h5⟩
      rcases h4 with ⟨k, hk⟩
      refine ⟨k + 1, ?_⟩
      show t.sq ++ [false] = _
      rw [hk, List.replicate_succ', List.append_assoc]
    · exact ⟨h1, h2, h3, h4, h5⟩

/-- After the Ring has been dropped (the poller is idle for good: no `poll`/`p` move, no
kernel thread, no I/O; every earlier wake call has returned), any number of `wake()` calls
from any number of threads, interleaved in any way (also with other submissions being
queued), are harmless: they never queue a message or post a completion (the queue only
grows by the other submissions), and each is finished after its `fetch_or` (a waker is
only ever about to `fetch_or` or done). -/
theorem C11_after_drop_run (s : St) (hs : Reachable s) (hp : s.p = .idle)
    (hd : ∀ pc ∈ s.w, pc = .done) (ms : List Mv)
    (hms : ∀ m ∈ ms, (∃ j, m = .call j) ∨ (∃ j, m = .w j) ∨ m = .fill) :
    let t := runMv s ms
    (∃ k, t.sq = s.sq ++ List.replicate k false) ∧ t.cq = s.cq ∧ t.ovf = s.ovf ∧ t.p = .idle ∧
    (∀ pc ∈ t.w, pc = .k1 ∨ pc = .done) := by
  have key : ∀ (t : St) (ms : List Mv),
      (∀ m ∈ ms, (∃ j, m = .call j) ∨ (∃ j, m = .w j) ∨ m = .fill) →
      Dropped s.sq (s.cq, s.ovf) t → Dropped s.sq (s.cq, s.ovf) (runMv t ms) := by
    intro t ms
    induction ms generalizing t with
    | nil => intro _ h; exact h
    | cons m ms ih =>
      intro hms h
      exact ih (stepMv t m) (fun m' hm' => hms m' (by simp [hm']))
        (dropped_step h m (hms m (by simp)))
  have h0 : Dropped s.sq (s.cq, s.ovf) s :=
    ⟨hp, C11_idle_word s hs hp, fun pc hpc => Or.inr (hd pc hpc), ⟨0, by simp⟩, rfl⟩
  have := key s ms hms h0
  exact ⟨this.2.2.2.1, congrArg Prod.fst this.2.2.2.2, congrArg Prod.snd this.2.2.2.2, this.1,
    this.2.2.1⟩

/-! ### The choice of reading, made visible -/

/-- Default ring. A poll blocks; an unrelated completion makes its `enter` return (pc
`c4`: left the kernel, `swap(0)` not yet executed); the wake call's `fetch_or` falls
exactly there (sees POLLING, so it sends a message); the message's completion is
consumed by the tail end of that same poll; that poll returns; the next poll blocks. -/
def strictRun : List Mv :=
  [.poll true, .p, .p, .p,      -- start, swap(POLLING), enter: blocked
   .io, .p,                     -- a completion arrives, enter returns: pc c4
   .call 0, .w 0, .w 0,         -- wake(): fetch_or at c4, message queued, submitted
   .p, .p,                      -- swap(0), reload the tail: the poll call returns
   .poll true, .p, .p, .p]      -- the next poll blocks

/-- Documentation of the reading fixed in DESIGN.md. Under the stricter reading "a poll
that has already left the kernel does not count" the code would NOT satisfy the
property: in `strictRun` (1) the wake's `fetch_or` happens while the poller is at `c4`
(its `enter` has returned, the POLLING bit is still set), the wake call runs to completion
and its message's completion is in the queue before the poller reloads the tail; (2) at
the end the NEXT poll is blocked (`.waiting`, empty completion queue, nothing queued, the
waker done, no obligation left); while (3) a `Ring::poll` call did return after the wake
call (`returns` went from 0 at the `fetch_or` to 1), which is what the property as read in
DESIGN.md requires and what a caller of `wake` relies on. -/
theorem C11_strict_reading_witness :
    -- (1) the state at the fetch_or, and right after the wake call has returned
    (let a := runMv (init .default 4) (strictRun.take 7)
     a.p = .c4 ∧ a.w = [.k1] ∧ a.word = 1 ∧ a.returns = 0 ∧ a.oblig = false) ∧
    (let b := runMv (init .default 4) (strictRun.take 9)
     b.p = .c4 ∧ b.w = [.done] ∧ b.word = 3 ∧ b.cq = 3 ∧ b.sq = [] ∧ b.returns = 0 ∧
     b.oblig = true) ∧
    -- (3) that poll returns after the wake call, consuming the wake's completion
    (let c := runMv (init .default 4) (strictRun.take 11)
     c.p = .idle ∧ c.returns = 1 ∧ c.cq = 0 ∧ c.word = 0 ∧ c.oblig = false) ∧
    -- (2) the next poll blocks although a wake call completed before it started
    (let d := runMv (init .default 4) strictRun
     d.p = .waiting ∧ d.cq = 0 ∧ d.sq = [] ∧ d.w = [.done] ∧ d.returns = 1 ∧
     d.oblig = false) := by
  decide

/-- The same without any I/O: a first wake call brings the poller out of the kernel, a
second wake call's `fetch_or` falls at `c4` and sees POLLING|AWOKEN (so it sends nothing);
the poll returns after both; the next poll blocks. -/
def strictRun2 : List Mv :=
  [.poll true, .p, .p, .p, .call 0, .w 0, .w 0, .p, .call 1, .w 1, .p, .p,
   .poll true, .p, .p, .p]

theorem C11_strict_reading_witness_no_io :
    (let a := runMv (init .default 4) (strictRun2.take 9)
     a.p = .c4 ∧ a.w = [.done, .k1] ∧ a.word = 3 ∧ a.returns = 0) ∧
    (let b := runMv (init .default 4) (strictRun2.take 10)
     b.p = .c4 ∧ b.w = [.done, .done] ∧ b.returns = 0 ∧ b.oblig = true) ∧
    (let d := runMv (init .default 4) strictRun2
     d.p = .waiting ∧ d.cq = 0 ∧ d.sq = [] ∧ d.w = [.done, .done] ∧ d.returns = 1 ∧
     d.oblig = false) := by
  decide

/-! ### Why the AWOKEN bit is needed -/

/-- The poller without the AWOKEN check: the swap at `c3` ignores the previous value and
keeps the caller's timeout. Everything else as `stepP`. -/
def stepP' (s : St) : St :=
  match s.p with
  | .c3 inf => { s with word := POLLING, p := .e3 inf (toSubmit s) }
  | _ => stepP s

/-- Moves of the variant protocol. -/
def stepMv' (s : St) : Mv → St
  | .p => stepP' s
  | m => stepMv s m

def runMv' (s : St) : List Mv → St
  | [] => s
  | m :: ms => runMv' (stepMv' s m) ms

/-- Without the AWOKEN check a wake-up is lost: a wake call that runs to completion while
the poller is idle (it only sets AWOKEN) is followed by a poll that blocks for good — the
exact situation `C11_no_lost_wake` / `C11_next_poll_prompt` exclude for the real protocol. -/
theorem C11_old_protocol_loses_wake :
    let s := runMv' (init .default 4) [.call 0, .w 0, .poll true, .p, .p, .p]
    s.p = .waiting ∧ s.oblig = true ∧ s.w = [.done] ∧ s.cq = 0 ∧ s.sq = [] := by
  decide

/-- The same moves under the real protocol: the poll does not block. -/
theorem C11_real_protocol_same_run :
    let s := runMv (init .default 4) [.call 0, .w 0, .poll true, .p, .p, .p]
    s.p = .c4 ∧ s.oblig = true ∧ s.w = [.done] := by
  decide

/-! ### Why the `QueueFull` retry must enter the kernel again -/

/-- The seeded defect: on the `QueueFull` retry path (`.enter false n`: submit what is
queued, then try the add again) a successful second add returns at once, WITHOUT the
further `enter` (`.enter true _`) that submits the message. Everything else as `stepW`. -/
def stepW' (s : St) (j : Nat) : St :=
  match s.w[j]? with
  | some (.enter false n) =>
    let s := consume s n
    let (s, ok) := tryAdd s
    if ok then { s with w := s.w.set j .done }
    else { s with w := s.w.set j (.enter false (toSubmit s)) }
  | _ => stepW s j

def stepMvW (s : St) : Mv → St
  | .w j => stepW' s j
  | m => stepMv s m

def runMvW (s : St) : List Mv → St
  | [] => s
  | m :: ms => runMvW (stepMvW s m) ms

/-- Default ring with a single submission-queue slot. The poller blocks; somebody queues an
operation (the queue is now full); `wake()`: `fetch_or` sees POLLING, the add fails with
`QueueFull`, the waker's `enter` submits the other operation (no completion), the second
add succeeds. -/
def retryRun : List Mv :=
  [.poll true, .p, .p, .p,   -- start, swap(POLLING), enter: blocked
   .fill,                    -- the queue is full
   .call 0, .w 0,            -- wake(): fetch_or, QueueFull
   .w 0]                     -- enter (submits the filler), second add succeeds

/-- With the seeded defect the wake-up is lost: the wake call has returned, its message sits
unsubmitted in the queue, nothing is in the completion queue, and the poller stays blocked
(its own step changes nothing) — exactly what `C11_no_lost_wake` excludes. Under the real
`stepW` the same moves leave the waker at its second `enter` (`.enter true 1`, not yet
returned); its last step submits the message, whose completion unblocks the poller. -/
theorem C11_retry_must_enter :
    (let s := runMvW (init .default 1) retryRun
     s.p = .waiting ∧ s.oblig = true ∧ s.w = [.done] ∧ s.cq = 0 ∧ s.sq = [true] ∧
     (stepP s).p = .waiting) ∧
    (let r := runMv (init .default 1) retryRun
     r.p = .waiting ∧ r.oblig = true ∧ r.w = [.enter true 1] ∧ r.cq = 0 ∧ r.sq = [true]) ∧
    (let r := runMv (init .default 1) (retryRun ++ [.w 0])
     r.p = .waiting ∧ r.w = [.done] ∧ r.cq = 2 ∧ r.sq = [] ∧ (stepP r).p = .c4) := by
  decide

/-! ### Non-vacuity -/

/-- A state meeting the hypotheses of `C11_no_lost_wake` / `C11_poll_returns`: the poller
is blocked, then a wake call runs to completion (and, SQPOLL, the kernel thread). -/
def blockedThenWoken (mode : Mode) : St :=
  runMv (init mode 4) [.poll true, .p, .p, .p, .call 0, .w 0, .w 0, .k]

example : ∀ mode : Mode,
    let s := blockedThenWoken mode
    Reachable s ∧ s.p = .waiting ∧ s.oblig = true ∧ (∀ pc ∈ s.w, pc = .done) ∧
    (s.mode = .sqpoll → true ∉ s.sq) ∧ s.w ≠ [] := by
  intro mode
  refine ⟨Reachable.of_init mode 4 (by decide) _, ?_⟩
  cases mode <;> decide

/-- Two wakers, the second finds POLLING|AWOKEN and sends nothing. -/
example : ∀ mode : Mode,
    let s := runMv (init mode 4)
      [.poll true, .p, .p, .p, .call 0, .w 0, .call 1, .w 1, .w 0, .k]
    Reachable s ∧ s.p = .waiting ∧ s.oblig = true ∧ (∀ pc ∈ s.w, pc = .done) ∧
    (s.mode = .sqpoll → true ∉ s.sq) ∧ s.w.length = 2 := by
  intro mode
  refine ⟨Reachable.of_init mode 4 (by decide) _, ?_⟩
  cases mode <;> decide

/-- A state meeting the hypotheses of `C11_next_poll_prompt`: a wake call runs to
completion while the poller is idle — before the first poll, and between two polls. -/
example : ∀ mode : Mode,
    let s := runMv (init mode 4) [.call 0, .w 0]
    Reachable s ∧ s.p = .idle ∧ s.oblig = true ∧ (∀ pc ∈ s.w, pc = .done) ∧ s.w ≠ [] := by
  intro mode
  refine ⟨Reachable.of_init mode 4 (by decide) _, ?_⟩
  cases mode <;> decide

example : ∀ mode : Mode,
    let s := runMv (init mode 4)
      [.poll false, .p, .p, .p, .p, .p, .call 0, .w 0]
    Reachable s ∧ s.p = .idle ∧ s.returns = 1 ∧ s.oblig = true ∧
    (∀ pc ∈ s.w, pc = .done) ∧ s.w ≠ [] := by
  intro mode
  refine ⟨Reachable.of_init mode 4 (by decide) _, ?_⟩
  cases mode <;> decide

/-- The `QueueFull` retry loop is reachable (queue of one slot, two wakers), in the
SQPOLL configuration it needs the kernel thread (`C11_waker_progress`, second case). -/
example :
    let s := runMv (init .sqpoll 1) [.poll true, .p, .p, .p, .call 0, .w 0, .io, .p, .p, .p,
      .poll true, .p, .p, .p, .call 1, .w 1]
    s.w = [.enter true 0, .enter false 0] ∧ s.sq = [true] ∧ s.sq.length = s.sqLen ∧
    (stepW s 1).w[1]? = some (.enter false 0) := by
  decide

/-- Other submissions in the queue (fillers queued before the wake message, between the
add and the waker's `enter`, and afterwards): states meeting the hypotheses of
`C11_no_lost_wake` with a non-empty submission queue, for each mode. -/
example : ∀ mode : Mode,
    let s := runMv (init mode 4)
      [.poll true, .p, .p, .p, .fill, .call 0, .w 0, .fill, .w 0, .k, .fill]
    Reachable s ∧ s.p = .waiting ∧ s.oblig = true ∧ (∀ pc ∈ s.w, pc = .done) ∧
    (s.mode = .sqpoll → true ∉ s.sq) ∧ false ∈ s.sq ∧ 0 < s.cq := by
  intro mode
  refine ⟨Reachable.of_init mode 4 (by decide) _, ?_⟩
  cases mode <;> decide

/-- The queue exactly full of other submissions when `wake()` is called (one slot, default
mode): the `QueueFull` retry path, run to completion, meets the hypotheses of
`C11_no_lost_wake`. -/
example :
    let s := runMv (init .default 1) (retryRun ++ [.w 0])
    Reachable s ∧ s.p = .waiting ∧ s.oblig = true ∧ (∀ pc ∈ s.w, pc = .done) ∧ 0 < s.cq :=
  ⟨Reachable.of_init .default 1 (by decide) _, by decide⟩

/-- Hypotheses of `C11_next_poll_prompt` with fillers in the queue. -/
example : ∀ mode : Mode,
    let s := runMv (init mode 4) [.fill, .call 0, .fill, .w 0]
    Reachable s ∧ s.p = .idle ∧ s.oblig = true ∧ (∀ pc ∈ s.w, pc = .done) ∧
    s.sq = [false, false] := by
  intro mode
  refine ⟨Reachable.of_init mode 4 (by decide) _, ?_⟩
  cases mode <;> decide

/-! ### A small completion queue: exactly full, and overflow -/

/-- The variant of the poller that goes round again when it found the completion queue
completely full (to fetch what may have overflown), re-using the caller's timeout: at the
end of a pass (`.start` with completions, `.c5`) over a full queue it does not return but
starts over. -/
def stepPL (inf : Bool) (s : St) : St :=
  match s.p with
  | .start _ =>
    if s.cq > 0 ∧ s.cq = s.cqLen then { s with cq := 0, p := .start inf } else stepP s
  | .c5 => if s.cq = s.cqLen then { s with cq := 0, p := .start inf } else stepP s
  | _ => stepP s

def stepMvL (inf : Bool) (s : St) : Mv → St
  | .p => stepPL inf s
  | m => stepMv s m

def runMvL (inf : Bool) (s : St) : List Mv → St
  | [] => s
  | m :: ms => runMvL inf (stepMvL inf s m) ms

/-- Completion queue of two slots: the poll blocks, a wake call runs to completion (its message
and the completion of the MSG_RING submission are two completions: the queue is exactly full),
the poller processes both. -/
def exactFullRun : List Mv :=
  [.poll true, .p, .p, .p, .call 0, .w 0, .w 0, .p, .p, .p, .p, .p, .p]

/-- The real protocol returns from that poll (the queue was exactly full, nothing overflew);
the go-round-again variant consumes the wake-up and blocks again with nothing left that
could wake it, although the wake call completed: a lost wake-up. -/
theorem C11_exact_full_returns_and_second_pass_loses_wake :
    (let s := runMv (initC .default 2 2) (exactFullRun.take 7)
     s.p = .waiting ∧ s.cq = 2 ∧ s.cq = s.cqLen ∧ s.ovf = 0 ∧ s.w = [.done]) ∧
    (let s := runMv (initC .default 2 2) exactFullRun
     s.p = .idle ∧ s.returns = 1 ∧ s.avail = 0) ∧
    (let s := runMvL true (initC .default 2 2) exactFullRun
     s.p = .waiting ∧ s.returns = 0 ∧ s.oblig = true ∧ s.w = [.done] ∧ s.avail = 0 ∧
     s.sq = [] ∧ (stepPL true s).p = .waiting ∧ (stepPL true s).avail = 0) := by
  decide

/-- Completions that did not fit are not lost: with a one-slot queue and two completions the
first poll takes the one in the queue, the next poll does not block — its `enter` moves the
overflown one into the queue — and returns. -/
theorem C11_overflow_next_poll :
    (let s := runMv (initC .default 1 1) [.io, .io, .poll true, .p]
     Reachable s ∧ s.p = .idle ∧ s.returns = 1 ∧ s.cq = 0 ∧ s.ovf = 1) ∧
    (let s := runMv (initC .default 1 1) [.io, .io, .poll true, .p, .poll true, .p, .p, .p, .p, .p]
     s.p = .idle ∧ s.returns = 2 ∧ s.avail = 0) :=
  ⟨⟨⟨.default, 1, 1, _, by decide, by decide, rfl⟩, by decide⟩, by decide⟩

/-- A wake message that overflows (queue full of other completions) still ends the poll it
was meant for: hypotheses of `C11_no_lost_wake` with the message on the overflow list. -/
example :
    let s := runMv (initC .default 1 1) [.poll true, .p, .p, .p, .call 0, .io, .w 0, .w 0]
    Reachable s ∧ s.p = .waiting ∧ s.oblig = true ∧ (∀ pc ∈ s.w, pc = .done) ∧
    s.cq = 1 ∧ s.ovf = 2 :=
  ⟨⟨.default, 1, 1, _, by decide, by decide, rfl⟩, by decide⟩

/-! ### Signals: an interrupted `io_uring_enter` -/

/-- **An interrupted enter is a zero-timeout enter.** Whatever the poll call decided about
blocking, a signal delivered during its `io_uring_enter` (`stepPI`: submissions consumed,
overflow moved, the wait ended by `EINTR`, swallowed by `Shared::enter`) leaves exactly the
state a call with a zero timeout reaches. Every theorem over runs therefore covers polls
that are interrupted at their enter (`wake polli` in the correspondence is a zero-timeout
poll in the model): in particular such a poll returns, and a wake-up consumed by its
`set_polling(true)` is not waited for again. -/
theorem C11_interrupted_enter_is_zero_timeout (s : St) (block : Bool) (n : Nat) :
    stepPI { s with p := .e3 block n } = stepP { s with p := .e3 false n } := by
  simp only [stepPI, stepP, consume, post, flush]
  split <;> simp

/-- A poller already blocked in the kernel that is interrupted goes on to
`set_polling(false)` with whatever the kernel moved from the overflow list: the state a
zero-timeout enter with nothing to submit reaches. -/
theorem C11_interrupted_wait_returns (s : St) :
    (stepPI { s with p := .waiting }).p = .c4 ∧
    (stepPI { s with p := .waiting }).word = s.word ∧
    (stepPI { s with p := .waiting }).avail = s.avail := by
  refine ⟨rfl, rfl, ?_⟩
  show s.cq + min s.ovf (s.cqLen - s.cq) + (s.ovf - min s.ovf (s.cqLen - s.cq)) = s.cq + s.ovf
  omega

/-- The behaviour the red-team change C11j introduced (retry the whole
`set_polling(true)` / enter / `set_polling(false)` block after `EINTR`): the second
`set_polling(true)` finds the wake-up flag already consumed, so the retried enter blocks —
with a wake() that completed before the call. Shown on the model: a second pass through
`c3` after the interrupted enter of an awoken poll reaches `waiting` with the obligation
pending, where the real protocol (no second pass) has returned. -/
theorem C11_retry_after_eintr_loses_wake :
    (let s := runMv (initC .default 2 2) [.call 0, .w 0, .poll true, .p, .p]
     s.p = .e3 false 0 ∧ s.oblig = true ∧ s.w = [.done]) ∧
    (let s := stepPI (runMv (initC .default 2 2) [.call 0, .w 0, .poll true, .p, .p])
     (runMv s [.p, .p]).p = .idle ∧ (runMv s [.p, .p]).returns = 1) ∧
    (let s := stepPI (runMv (initC .default 2 2) [.call 0, .w 0, .poll true, .p, .p])
     -- the retry: back to `c3` of a call without a timeout
     let r := runMv { s with p := .c3 true } [.p, .p]
     r.p = .waiting ∧ r.oblig = true ∧ r.avail = 0 ∧ r.sq = []) := by
  decide

end A10.Wake
