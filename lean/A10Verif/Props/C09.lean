/-
C09 — Interrupted or cancelled operations restart transparently.

Statement (properties.jsonl): if the kernel reports an operation as interrupted
or cancelled although the caller did not drop it, the operation is re-issued
with the same arguments and the same resources, and the caller only ever
observes the outcome of the last attempt — never the interruption itself, and
never data from an earlier attempt mixed into the result.

Model: the restart branch of `poll_inner` (op.rs:914-932) in `Op.pollAux`.
"Same arguments and same resources": the submission is a function of the
`resources`/`args` stored in the operation state; the restart neither drops,
moves, nor re-initialises them (`resInit`, `resDrops` unchanged, same box) and
the builder setters cannot touch them any more — the correspondence oracle
additionally compares the 64 bytes of every re-issued submission.
-/
import A10Verif.Lemmas.OpResults
import A10Verif.Props.C01

namespace A10.OpSys
open A10

def isRestartErr (x : Res) : Prop := -x.res = EINTR ∨ -x.res = ECANCELED

instance (x : Res) : Decidable (isRestartErr x) := by unfold isRestartErr; exact inferInstance

/-- **The restart step.** Polling an operation that is `Done` with an
interrupted/cancelled outcome (and, for multishot, nothing queued behind it)
returns `Pending` — the caller never sees the interruption —, publishes a
fresh submission, registers the new waker, starts with EMPTY results (nothing
of the earlier attempt survives), and keeps box and resources exactly as they
were. When the queue is full it waits for a slot instead (`NotStarted`,
waker pushed on the blocked list) and re-issues on the next poll. -/
theorem C09_restart_step (o : Op) (w : Nat) (room : Bool) (r : Results) (x : Res) (r' : Results)
    (hst : o.status = .done r) (hn : r.next = some (x, r')) (he : isRestartErr x)
    (hq : (o.multi && r'.hasNext) = false) :
    o.poll w room =
      if room then
        ({ o with waker := some w, status := .running (Results.empty o.multi) }, .pending, [.submit])
      else ({ o with status := .notStarted }, .pending, [.blocked w]) := by
  have hneg : ¬ (x.res ≥ 0) := by
    unfold isRestartErr EINTR ECANCELED at he; omega
  cases o with
  | mk multi status waker boxLive resInit futLive frees resDrops =>
  simp at hst; subst hst
  simp only [Op.poll, Op.pollAux, hn, hneg, ↓reduceIte]
  unfold isRestartErr at he
  simp only [he, ↓reduceIte, hq, Bool.false_eq_true]

/-- The restart keeps the same box and the same resources (not dropped, not
moved out, not replaced) and never hands anything to the caller. -/
theorem C09_same_resources (o : Op) (w : Nat) (room : Bool) (r : Results) (x : Res) (r' : Results)
    (hst : o.status = .done r) (hn : r.next = some (x, r')) (he : isRestartErr x)
    (hq : (o.multi && r'.hasNext) = false) :
    (o.poll w room).1.boxLive = o.boxLive ∧ (o.poll w room).1.resInit = o.resInit ∧
    (o.poll w room).1.resDrops = o.resDrops ∧ (o.poll w room).1.frees = o.frees ∧
    ov (o.poll w room).2.1 = [] := by
  rw [C09_restart_step o w room r x r' hst hn he hq]
  cases room <;> simp [ov]

/-- The events of one attempt of a single-shot operation that ends with
outcome `e`: the kernel posts the (final) completion, `Ring::poll` processes
it, the task re-polls. -/
def attempt (w : Nat) (e : Int) : List Ev := [.kpost ⟨e, 0⟩, .process, .poll w true]

def attempts (w : Nat) : List Int → List Ev
  | [] => []
  | e :: es => attempt w e ++ attempts w es

/-- State of a single-shot operation whose (re-)submission has just been
published: running with empty results, nothing pending. -/
def Fresh (s : OS) : Prop :=
  s.op.multi = false ∧ s.op.status = .running (.single ⟨0, 0⟩) ∧ s.cq = [] ∧ s.op.futLive = true ∧
  s.inflight = true

theorem attempt_restart (s : OS) (w : Nat) (e : Int) (hf : Fresh s) (he : -e = EINTR ∨ -e = ECANCELED) :
    Fresh (run s (attempt w e)) ∧
    (run s (attempt w e)).yielded = s.yielded ++ [.pending] ∧
    (run s (attempt w e)).submits = s.submits + 1 ∧
    (run s (attempt w e)).op.resInit = s.op.resInit ∧
    (run s (attempt w e)).op.resDrops = s.op.resDrops ∧
    (run s (attempt w e)).op.boxLive = s.op.boxLive ∧
    validRun s (attempt w e) = true := by
  obtain ⟨h1, h2, h3, h4, h5⟩ := hf
  have hneg : ¬ (e ≥ 0) := by unfold EINTR ECANCELED at he; omega
  have hnn : fNotif 0 = false := by decide
  have hnm : fMore 0 = false := by decide
  cases hs : s with
  | mk op inflight cq posted processed delivered submits cancels woken yielded panicked lastPend readySince wokenSince =>
  cases ho : op with
  | mk multi status waker boxLive resInit futLive frees resDrops =>
  subst hs ho
  simp at h1 h2 h3 h4 h5; subst h1 h2 h3 h4 h5
  cases waker <;>
    simp [attempt, run, step, validRun, valid, Op.update, Results.update, hnn, hnm, Op.poll, Op.pollAux,
      Results.next, hneg, he, Results.hasNext, Results.empty, Fresh]

theorem attempt_final (s : OS) (w : Nat) (v : Int) (hf : Fresh s)
    (hv : ¬ (-v = EINTR ∨ -v = ECANCELED)) :
    (run s (attempt w v)).yielded =
      s.yielded ++ [if v ≥ 0 then .readyOk ⟨v, 0⟩ else .readyErr (-v)] ∧
    (run s (attempt w v)).submits = s.submits ∧
    (run s (attempt w v)).op.status = .complete ∧
    validRun s (attempt w v) = true := by
  obtain ⟨h1, h2, h3, h4, h5⟩ := hf
  have hnn : fNotif 0 = false := by decide
  have hnm : fMore 0 = false := by decide
  cases hs : s with
  | mk op inflight cq posted processed delivered submits cancels woken yielded panicked lastPend readySince wokenSince =>
  cases ho : op with
  | mk multi status waker boxLive resInit futLive frees resDrops =>
  subst hs ho
  simp at h1 h2 h3 h4 h5; subst h1 h2 h3 h4 h5
  by_cases hp : v ≥ 0 <;> cases waker <;>
    simp [attempt, run, step, validRun, valid, Op.update, Results.update, hnn, hnm, Op.poll, Op.pollAux,
      Results.next, hp, hv, Results.hasNext, Results.empty]

theorem run_append (s : OS) (a b : List Ev) : run s (a ++ b) = run (run s a) b := by
  induction a generalizing s with
  | nil => rfl
  | cons e es ih => simp [run, ih]

theorem validRun_append (s : OS) (a b : List Ev) :
    validRun s (a ++ b) = (validRun s a && validRun (run s a) b) := by
  induction a generalizing s with
  | nil => simp [validRun, run]
  | cons e es ih => simp [validRun, run, ih, Bool.and_assoc]

/-- **Any finite sequence of interruptions, then any final outcome.** For a
single-shot operation whose submission has just been published, every finite
list `errs` of EINTR/ECANCELED outcomes followed by a final outcome `v`
(success, short count or any other error): the caller observes `Pending`
once per interrupted attempt and then exactly the outcome of the LAST attempt;
the operation is submitted once more per interruption; box and resources stay
the same throughout; and the whole history is a legal one. -/
theorem C09_restart (s : OS) (w : Nat) (errs : List Int) (v : Int) (hf : Fresh s)
    (he : ∀ e ∈ errs, -e = EINTR ∨ -e = ECANCELED) (hv : ¬ (-v = EINTR ∨ -v = ECANCELED)) :
    let s' := run s (attempts w errs ++ attempt w v)
    s'.yielded = s.yielded ++ List.replicate errs.length .pending ++
        [if v ≥ 0 then .readyOk ⟨v, 0⟩ else .readyErr (-v)] ∧
    s'.submits = s.submits + errs.length ∧
    s'.op.status = .complete ∧
    validRun s (attempts w errs ++ attempt w v) = true := by
  induction errs generalizing s with
  | nil =>
    obtain ⟨a1, a2, a3, a4⟩ := attempt_final s w v hf hv
    simp [attempts, a1, a2, a3, a4]
  | cons e es ih =>
    obtain ⟨b1, b2, b3, _, _, _, b7⟩ := attempt_restart s w e hf (he e (by simp))
    have := ih (run s (attempt w e)) b1 (fun e' he' => he e' (by simp [he']))
    obtain ⟨c1, c2, c3, c4⟩ := this
    simp only [attempts, List.append_assoc, run_append, validRun_append] at c1 c2 c3 c4 ⊢
    refine ⟨?_, ?_, c3, ?_⟩
    · rw [c1, b2]; simp [List.replicate_succ, List.append_assoc]
    · rw [c2, b3]; simp; omega
    · simp [b7, c4]

/-! ### Restarts that find the submission queue full

`C09_restart` re-issues every attempt at once. The re-issue goes through the
same `Submissions::add` as a first submission, so it can find the queue full:
the operation then waits for a slot (`NotStarted`, its waker on the blocked
list) and is re-issued by a later poll. The theorem below covers every such
history: each interrupted attempt `(e, k)` finds the queue full `k` times
before it gets a slot. -/

/-- A single-shot operation that was interrupted and is waiting for a slot to be
re-issued: not started, nothing in flight, nothing pending. -/
def Waiting (s : OS) : Prop :=
  s.op.multi = false ∧ s.op.status = .notStarted ∧ s.cq = [] ∧ s.op.futLive = true ∧
  s.inflight = false

/-- One attempt that ends with outcome `e` and whose re-issue is refused `k`
times by a full queue before it succeeds. `k = 0` is `attempt`. -/
def attemptF (w : Nat) (e : Int) (k : Nat) : List Ev :=
  [.kpost ⟨e, 0⟩, .process] ++ List.replicate k (.poll w false) ++ [.poll w true]

def attemptsF (w : Nat) : List (Int × Nat) → List Ev
  | [] => []
  | (e, k) :: es => attemptF w e k ++ attemptsF w es

theorem attemptF_zero (w : Nat) (e : Int) : attemptF w e 0 = attempt w e := rfl

/-- A poll that finds the queue full while waiting: still waiting, the caller
sees `Pending`, nothing is submitted, nothing released. -/
theorem waiting_full (s : OS) (w : Nat) (hw : Waiting s) :
    Waiting (step s (.poll w false)) ∧
    (step s (.poll w false)).yielded = s.yielded ++ [.pending] ∧
    (step s (.poll w false)).submits = s.submits ∧
    (step s (.poll w false)).op.resInit = s.op.resInit ∧
    (step s (.poll w false)).op.resDrops = s.op.resDrops ∧
    (step s (.poll w false)).op.boxLive = s.op.boxLive ∧
    valid s (.poll w false) = true := by
  obtain ⟨h1, h2, h3, h4, h5⟩ := hw
  cases hs : s with
  | mk op inflight cq posted processed delivered submits cancels woken yielded panicked lastPend readySince wokenSince =>
  cases ho : op with
  | mk multi status waker boxLive resInit futLive frees resDrops =>
  subst hs ho
  simp at h1 h2 h3 h4 h5; subst h1 h2 h3 h4 h5
  simp [step, valid, Op.poll, Op.pollAux, Waiting]

/-- The poll that gets the slot: the operation is re-issued and is `Fresh`. -/
theorem waiting_room (s : OS) (w : Nat) (hw : Waiting s) :
    Fresh (step s (.poll w true)) ∧
    (step s (.poll w true)).yielded = s.yielded ++ [.pending] ∧
    (step s (.poll w true)).submits = s.submits + 1 ∧
    (step s (.poll w true)).op.resInit = s.op.resInit ∧
    (step s (.poll w true)).op.resDrops = s.op.resDrops ∧
    (step s (.poll w true)).op.boxLive = s.op.boxLive ∧
    valid s (.poll w true) = true := by
  obtain ⟨h1, h2, h3, h4, h5⟩ := hw
  cases hs : s with
  | mk op inflight cq posted processed delivered submits cancels woken yielded panicked lastPend readySince wokenSince =>
  cases ho : op with
  | mk multi status waker boxLive resInit futLive frees resDrops =>
  subst hs ho
  simp at h1 h2 h3 h4 h5; subst h1 h2 h3 h4 h5
  simp [step, valid, Op.poll, Op.pollAux, Fresh, Results.empty]

/-- Any number of refused polls keeps the operation waiting. -/
theorem waiting_fulls (s : OS) (w k : Nat) (hw : Waiting s) :
    let es := List.replicate k (Ev.poll w false)
    Waiting (run s es) ∧
    (run s es).yielded = s.yielded ++ List.replicate k .pending ∧
    (run s es).submits = s.submits ∧
    (run s es).op.resInit = s.op.resInit ∧
    (run s es).op.resDrops = s.op.resDrops ∧
    (run s es).op.boxLive = s.op.boxLive ∧
    validRun s es = true := by
  induction k generalizing s with
  | zero => simp [run, validRun, hw]
  | succ k ih =>
    obtain ⟨a1, a2, a3, a4, a5, a6, a7⟩ := waiting_full s w hw
    obtain ⟨b1, b2, b3, b4, b5, b6, b7⟩ := ih (step s (.poll w false)) a1
    simp only [List.replicate_succ, run, validRun] at b1 b2 b3 b4 b5 b6 b7 ⊢
    refine ⟨b1, ?_, ?_, ?_, ?_, ?_, ?_⟩
    · rw [b2, a2]; simp [List.append_assoc]
    · rw [b3, a3]
    · rw [b4, a4]
    · rw [b5, a5]
    · rw [b6, a6]
    · simp [a7, b7]

/-- The interrupted completion is processed and the next poll finds the queue
full: the interruption is swallowed and the operation waits. -/
theorem interrupted_full (s : OS) (w : Nat) (e : Int) (hf : Fresh s) (he : -e = EINTR ∨ -e = ECANCELED) :
    let es := [Ev.kpost ⟨e, 0⟩, .process, .poll w false]
    Waiting (run s es) ∧
    (run s es).yielded = s.yielded ++ [.pending] ∧
    (run s es).submits = s.submits ∧
    (run s es).op.resInit = s.op.resInit ∧
    (run s es).op.resDrops = s.op.resDrops ∧
    (run s es).op.boxLive = s.op.boxLive ∧
    validRun s es = true := by
  obtain ⟨h1, h2, h3, h4, h5⟩ := hf
  have hneg : ¬ (e ≥ 0) := by unfold EINTR ECANCELED at he; omega
  have hnn : fNotif 0 = false := by decide
  have hnm : fMore 0 = false := by decide
  cases hs : s with
  | mk op inflight cq posted processed delivered submits cancels woken yielded panicked lastPend readySince wokenSince =>
  cases ho : op with
  | mk multi status waker boxLive resInit futLive frees resDrops =>
  subst hs ho
  simp at h1 h2 h3 h4 h5; subst h1 h2 h3 h4 h5
  cases waker <;>
    simp [run, step, validRun, valid, Op.update, Results.update, hnn, hnm, Op.poll, Op.pollAux,
      Results.next, hneg, he, Results.hasNext, Results.empty, Waiting]

theorem replicate_snoc {α : Type} (k : Nat) (a : α) :
    List.replicate k a ++ [a] = a :: List.replicate k a := by
  induction k with
  | zero => rfl
  | succ k ih => simp [List.replicate_succ, ih]

/-- One interrupted attempt whose re-issue is refused `k` times: `k + 1`
`Pending`s, one more submission, same box and resources, `Fresh` again. -/
theorem attemptF_restart (s : OS) (w : Nat) (e : Int) (k : Nat) (hf : Fresh s)
    (he : -e = EINTR ∨ -e = ECANCELED) :
    Fresh (run s (attemptF w e k)) ∧
    (run s (attemptF w e k)).yielded = s.yielded ++ List.replicate (k + 1) .pending ∧
    (run s (attemptF w e k)).submits = s.submits + 1 ∧
    (run s (attemptF w e k)).op.resInit = s.op.resInit ∧
    (run s (attemptF w e k)).op.resDrops = s.op.resDrops ∧
    (run s (attemptF w e k)).op.boxLive = s.op.boxLive ∧
    validRun s (attemptF w e k) = true := by
  cases k with
  | zero =>
    rw [attemptF_zero]
    obtain ⟨a1, a2, a3, a4, a5, a6, a7⟩ := attempt_restart s w e hf he
    exact ⟨a1, by simpa using a2, a3, a4, a5, a6, a7⟩
  | succ k =>
    have hsplit : attemptF w e (k + 1) =
        [Ev.kpost ⟨e, 0⟩, .process, .poll w false] ++ (List.replicate k (Ev.poll w false) ++ [.poll w true]) := by
      simp [attemptF, List.replicate_succ]
    obtain ⟨a1, a2, a3, a4, a5, a6, a7⟩ := interrupted_full s w e hf he
    rw [hsplit]
    simp only [run_append, validRun_append]
    generalize run s [Ev.kpost ⟨e, 0⟩, .process, .poll w false] = s1 at a1 a2 a3 a4 a5 a6 ⊢
    obtain ⟨b1, b2, b3, b4, b5, b6, b7⟩ := waiting_fulls s1 w k a1
    generalize run s1 (List.replicate k (Ev.poll w false)) = s2 at b1 b2 b3 b4 b5 b6 ⊢
    obtain ⟨c1, c2, c3, c4, c5, c6, c7⟩ := waiting_room s2 w b1
    simp only [run, validRun]
    refine ⟨c1, ?_, ?_, ?_, ?_, ?_, ?_⟩
    · rw [c2, b2, a2]; simp [List.replicate_succ, List.append_assoc, replicate_snoc]
    · rw [c3, b3, a3]
    · rw [c4, b4, a4]
    · rw [c5, b5, a5]
    · rw [c6, b6, a6]
    · simp only [b7, c7, Bool.and_true]
      simpa [validRun] using a7

/-- **Any finite sequence of interruptions, each re-issue refused any number
of times by a full submission queue, then any final outcome.** The caller
observes only `Pending`s (one per interruption and one per refused re-issue)
and then exactly the outcome of the LAST attempt; the operation is submitted
exactly once more per interruption — a refused re-issue is neither lost nor
doubled —; box and resources stay the same; the history is a legal one. -/
theorem C09_restart_queue_full (s : OS) (w : Nat) (errs : List (Int × Nat)) (v : Int) (hf : Fresh s)
    (he : ∀ p ∈ errs, -p.1 = EINTR ∨ -p.1 = ECANCELED) (hv : ¬ (-v = EINTR ∨ -v = ECANCELED)) :
    let s' := run s (attemptsF w errs ++ attempt w v)
    s'.yielded = s.yielded ++ List.replicate ((errs.map (·.2 + 1)).sum) .pending ++
        [if v ≥ 0 then .readyOk ⟨v, 0⟩ else .readyErr (-v)] ∧
    s'.submits = s.submits + errs.length ∧
    s'.op.status = .complete ∧
    s'.op.boxLive = s.op.boxLive ∧
    validRun s (attemptsF w errs ++ attempt w v) = true := by
  induction errs generalizing s with
  | nil =>
    obtain ⟨a1, a2, a3, a4⟩ := attempt_final s w v hf hv
    have hb : (run s (attempt w v)).op.boxLive = s.op.boxLive := by
      obtain ⟨h1, h2, h3, h4, h5⟩ := hf
      have hnn : fNotif 0 = false := by decide
      have hnm : fMore 0 = false := by decide
      cases hs : s with
      | mk op inflight cq posted processed delivered submits cancels woken yielded panicked lastPend readySince wokenSince =>
      cases ho : op with
      | mk multi status waker boxLive resInit futLive frees resDrops =>
      subst hs ho
      simp at h1 h2 h3 h4 h5; subst h1 h2 h3 h4 h5
      by_cases hp : v ≥ 0 <;> cases waker <;>
        simp [attempt, run, step, Op.update, Results.update, hnn, hnm, Op.poll, Op.pollAux,
          Results.next, hp, hv, Results.hasNext, Results.empty]
    simp [attemptsF, a1, a2, a3, a4, hb]
  | cons p es ih =>
    obtain ⟨e, k⟩ := p
    obtain ⟨b1, b2, b3, _, _, b6, b7⟩ := attemptF_restart s w e k hf (he (e, k) (by simp))
    have := ih (run s (attemptF w e k)) b1 (fun p' hp' => he p' (by simp [hp']))
    obtain ⟨c1, c2, c3, c4, c5⟩ := this
    simp only [attemptsF, List.append_assoc, run_append, validRun_append] at c1 c2 c3 c4 c5 ⊢
    refine ⟨?_, ?_, c3, ?_, ?_⟩
    · rw [c1, b2]
      simp only [List.map_cons, List.sum_cons, List.append_assoc]
      rw [← List.append_assoc (List.replicate (k + 1) PollOut.pending), List.replicate_append_replicate]
    · rw [c2, b3]; simp; omega
    · rw [c4, b6]
    · simp [b7, c5]

/-- The statement is about something: two interruptions, the first re-issue
refused twice, then 5 bytes. -/
example :
    let s0 : OS := run (init false) [.poll 1 true]
    Fresh s0 ∧
    (run s0 (attemptsF 1 [(-4, 2), (-125, 0)] ++ attempt 1 5)).yielded =
      [.pending, .pending, .pending, .pending, .pending, .readyOk ⟨5, 0⟩] := by
  intro s0
  refine ⟨?_, by decide⟩
  unfold Fresh
  decide

/-- **Interruption on the first completion of a two-step (zero-copy)
operation.** The restart happens only after the notification arrived (the
kernel is done with the buffers), and the interruption itself is swallowed. -/
theorem C09_zc_first (s : OS) (w : Nat) (e : Int) (n : Int) (hf : Fresh s)
    (he : -e = EINTR ∨ -e = ECANCELED) :
    let es := [Ev.kpost ⟨e, 2⟩, .process, .poll w true, .kpost ⟨n, 8⟩, .process, .poll w true]
    let s' := run s es
    validRun s es = true ∧ Fresh s' ∧ s'.yielded = s.yielded ++ [.pending, .pending] ∧
    s'.submits = s.submits + 1 ∧ s'.op.resDrops = s.op.resDrops := by
  obtain ⟨h1, h2, h3, h4, h5⟩ := hf
  have hneg : ¬ (e ≥ 0) := by unfold EINTR ECANCELED at he; omega
  have f1 : fNotif 2 = false := by decide
  have f2 : fMore 2 = true := by decide
  have f3 : fNotif 8 = true := by decide
  have f4 : fMore 8 = false := by decide
  cases hs : s with
  | mk op inflight cq posted processed delivered submits cancels woken yielded panicked lastPend readySince wokenSince =>
  cases ho : op with
  | mk multi status waker boxLive resInit futLive frees resDrops =>
  subst hs ho
  simp at h1 h2 h3 h4 h5; subst h1 h2 h3 h4 h5
  cases waker <;>
    simp [run, step, validRun, valid, Op.update, Results.update, f1, f2, f3, f4, Op.poll, Op.pollAux,
      Results.next, hneg, he, Results.hasNext, Results.empty, Fresh]

/-- **End of a multishot stream.** If the stream's terminator is an
interruption/cancellation, everything queued before it is handed out first (in
order), then the poll that reaches the terminator re-issues the operation
instead of reporting it. -/
theorem C09_multi_end (o : Op) (w : Nat) (q : List Res) (x : Res) (hm : o.multi = true)
    (hst : o.status = .done (.multi [x])) (he : isRestartErr x) :
    o.poll w true =
      ({ o with waker := some w, status := .running (.multi []) }, .pending, [.submit]) := by
  have := C09_restart_step o w true (.multi [x]) x (.multi []) hst (by simp [Results.next]) he
    (by simp [Results.hasNext])
  simpa [hm, Results.empty] using this

/-- Results queued before the terminator are delivered before it is reached
(FIFO): a poll on `Done [y, …]` with `y` an ordinary result yields `y`. -/
theorem C09_multi_drains_first (o : Op) (w : Nat) (room : Bool) (y : Res) (q : List Res)
    (hm : o.multi = true) (hst : o.status = .done (.multi (y :: q))) (hy : y.res ≥ 0) :
    o.poll w room = ({ o with status := .done (.multi q) }, .readyOk y, []) := by
  cases o with
  | mk multi status waker boxLive resInit futLive frees resDrops =>
  simp at hm hst; subst hm hst
  simp [Op.poll, Op.pollAux, Results.next, hy]

/-- **A dropped operation is never re-issued**: neither the completion handler
nor the drop emits a submission; only `poll` does, and a dropped future cannot
be polled. -/
theorem C09_not_when_dropped (o : Op) :
    (∀ c o' effs, o.update c = some (o', effs) → Eff.submit ∉ effs) ∧
    (∀ room, Eff.submit ∉ (o.dropFut room).2) := by
  constructor
  · intro c o' effs hu
    cases o with
    | mk multi status waker boxLive resInit futLive frees resDrops =>
    cases status <;> simp [Op.update] at hu
    · cases hm : fMore c.flags <;> cases multi <;> cases waker <;> simp_all <;>
        (obtain ⟨_, rfl⟩ := hu; simp)
    · cases hm : fMore c.flags <;> cases multi <;> cases waker <;> simp_all <;>
        (obtain ⟨_, rfl⟩ := hu; simp)
    · cases hm : fMore c.flags <;> simp_all <;> (obtain ⟨_, rfl⟩ := hu; simp)
  · intro room
    cases o with
    | mk multi status waker boxLive resInit futLive frees resDrops =>
    cases status <;> cases room <;> simp [Op.dropFut]

/-! ### Non-vacuity -/
example : Fresh (run (init false) [.poll 1 true]) := by unfold Fresh; decide
example :
    let s := run (init false) [.poll 1 true]
    (run s (attempts 1 [-4, -125, -4] ++ attempt 1 42)).yielded =
      [.pending, .pending, .pending, .pending, .readyOk ⟨42, 0⟩] ∧
    (run s (attempts 1 [-4, -125, -4] ++ attempt 1 42)).submits = 4 := by decide

end A10.OpSys

/-! ## Interruption inside a batch of the multi-operation system (session 5) -/

namespace A10.Life
open A10

theorem upd1_final_done (o : Op) (c : Cqe) (hh : held o.status = true) (hf : fMore c.flags = false) :
    ∃ r, (upd1 o c).status = .done r := by
  cases o with
  | mk multi status waker boxLive resInit futLive frees resDrops =>
  cases status <;> simp [held, OpSys.isRunning, OpSys.isDone] at hh <;>
    cases multi <;> cases waker <;> simp [upd1, Op.update, hf]

theorem upd1_multi (o : Op) (c : Cqe) : (upd1 o c).multi = o.multi := by
  cases o with
  | mk multi status waker boxLive resInit futLive frees resDrops =>
  cases status <;> cases hf : fMore c.flags <;> cases multi <;> cases waker <;>
    simp [upd1, Op.update, hf]

theorem foldl_upd1_multi (l : List Cqe) : ∀ (o : Op), (l.foldl upd1 o).multi = o.multi := by
  induction l with
  | nil => intro o; rfl
  | cons c l ih => intro o; simp only [List.foldl_cons]; rw [ih, upd1_multi]

theorem slotStep_fold_last (l : List Res) (x c : Res) (hn : fNotif c.flags = false) :
    (l ++ [c]).foldl OpSys.slotStep x = c := by
  simp [List.foldl_append, OpSys.slotStep, hn]

/-- **Interrupted inside any batch, re-issued by the next poll.** A running single-shot operation
`i` of the multi-operation system whose completions in a batch end with an interrupted/cancelled
final completion `c` (whatever came before it for `i` — e.g. the data of a first completion of a
two-step operation — and whatever other operations' completions surround it): the next poll of
its future does not report the interruption but returns `Pending`, publishes a fresh submission
with the new waker and EMPTY results (nothing of the earlier attempt survives), or — with a full
queue — waits for a slot; and the state allocation and the resources are the ones it had. -/
theorem C09_batch_restart (cs : List Cqe) (s : Sys) (a : Acc) (i : Nat) (o : Op) (x0 : Res)
    (w : Nat) (room : Bool) (ho : s.ops[i]? = some o) (hm : o.multi = false)
    (hst : o.status = .running (.single x0)) (pre : List Cqe) (c : Cqe)
    (hown : cs.filter (addressed i) = pre ++ [c])
    (hfin : fMore c.flags = false) (hnn : fNotif c.flags = false)
    (he : OpSys.isRestartErr (toRes c)) :
    ∃ o', (processAll s a cs).1.ops[i]? = some o' ∧
      o'.poll w room =
        (if room then
          ({ o' with waker := some w, status := .running (.single ⟨0, 0⟩) }, .pending, [.submit])
        else ({ o' with status := .notStarted }, .pending, [.blocked w])) ∧
      o'.boxLive = o.boxLive ∧ o'.resInit = o.resInit ∧ o'.frees = o.frees ∧
      o'.resDrops = o.resDrops := by
  have hh : held o.status = true := by simp [hst, held, OpSys.isRunning]
  refine ⟨(cs.filter (addressed i)).foldl upd1 o, ?_, ?_, ?_⟩
  · rw [C02_own_completions_only, ho]; rfl
  · have hres := foldl_upd1_results (cs.filter (addressed i)) o (.single x0) (by simp [hst, resultsOf])
    rw [foldl_update_single] at hres
    obtain ⟨k1, _, _, _, _, _⟩ := foldl_upd1_held pre o hh
    have hd : ∃ r, ((cs.filter (addressed i)).foldl upd1 o).status = .done r := by
      rw [hown, List.foldl_append]
      exact upd1_final_done _ c k1 hfin
    obtain ⟨r, hr⟩ := hd
    rw [hr] at hres
    simp only [resultsOf, Option.some.injEq] at hres
    rw [hown, List.map_append, List.map_cons, List.map_nil,
      slotStep_fold_last _ _ _ (by simpa [toRes] using hnn)] at hres
    subst hres
    have hmul : ((cs.filter (addressed i)).foldl upd1 o).multi = false := by
      rw [foldl_upd1_multi, hm]
    have := OpSys.C09_restart_step _ w room (.single (toRes c)) (toRes c) (.single (toRes c)) hr
      (by simp [Results.next]) he (by simp [hmul])
    rw [this, hmul]; simp [Results.empty]
  · obtain ⟨_, k2, k3, k4, k5, _⟩ := foldl_upd1_held (cs.filter (addressed i)) o hh
    exact ⟨k2, k3, k4, k5⟩

/-- Non-vacuity: a two-step operation whose first completion carries data and whose final one is
`-ECANCELED`, between completions of a neighbour: the next poll re-issues it with empty results. -/
example :
    let s : Sys := { ops := [{ multi := false, status := .running (.single ⟨0, 0⟩) },
                             { multi := true, status := .running (.multi []) }] }
    let cs : List Cqe := [⟨.op 1, 4, 2⟩, ⟨.op 0, 512, 2⟩, ⟨.op 1, 5, 2⟩, ⟨.op 0, -125, 0⟩, ⟨.op 1, 6, 2⟩]
    cs.filter (addressed 0) = [⟨.op 0, 512, 2⟩] ++ [⟨.op 0, -125, 0⟩] ∧
    OpSys.isRestartErr (toRes ⟨.op 0, -125, 0⟩) ∧
    (((processAll s {} cs).1.ops.map (fun o => (o.poll 3 true).2))[0]?) =
      some (.pending, [.submit]) := by
  refine ⟨by decide, by decide, by decide⟩

end A10.Life
