/-
C16 — Socket addresses round-trip through their kernel representation.

Statement (properties.jsonl): converting any supported socket address (IPv4,
IPv6, either-family, Unix path, Unix abstract, Unix unnamed) to the kernel's
representation and back — using the length the kernel itself reports for that
address — yields the same address, and the pointer/length pair passed to the
kernel covers exactly the structure for that address family.

Model: `A10Verif/Model/Addr.lean` (tied to `src/net.rs` by the `addr`
correspondence component).
-/
import A10Verif.Model.Addr

namespace A10.Addr

def Bytes (l : List Nat) : Prop := ∀ b ∈ l, b < 256

/-- The addresses the public API can construct. -/
def WF : Addr → Prop
  | .v4 ip port => ip.length = 4 ∧ port < 65536
  | .v6 ip port flow scope =>
      ip.length = 16 ∧ port < 65536 ∧ flow < 4294967296 ∧ scope < 4294967296
  | .path p => 1 ≤ p.length ∧ p.length ≤ 107 ∧ (∀ b ∈ p, b ≠ 0)
  | .abstr n => n.length ≤ 107
  | .unnamed => True

/-! ### Helper lemmas -/

theorem rd16be_be16 (port : Nat) (h : port < 65536) (rest : List Nat) (a b : Nat) :
    rd16be (a :: b :: (be16 port ++ rest)) 2 = port := by
  simp [rd16be, be16]
  omega

theorem rd32le_le32 (x : Nat) (h : x < 4294967296) :
    (x % 256) + 256 * (x / 256 % 256) + 65536 * (x / 65536 % 256)
      + 16777216 * (x / 16777216 % 256) = x := by
  omega

theorem takeWhile_append_zero (p : List Nat) (h : ∀ b ∈ p, b ≠ 0) (rest : List Nat) :
    (p ++ 0 :: rest).takeWhile (· ≠ 0) = p := by
  induction p with
  | nil => simp
  | cons x xs ih =>
    have hx : x ≠ 0 := h x (by simp)
    have hxs : ∀ b ∈ xs, b ≠ 0 := fun b hb => h b (by simp [hb])
    have := ih hxs
    simp only [List.cons_append, List.takeWhile_cons, ne_eq, hx, not_false_eq_true, decide_true,
      ↓reduceIte, this]

theorem takeWhile_all (p : List Nat) (h : ∀ b ∈ p, b ≠ 0) :
    p.takeWhile (· ≠ 0) = p := by
  induction p with
  | nil => simp
  | cons x xs ih =>
    have hx : x ≠ 0 := h x (by simp)
    have hxs : ∀ b ∈ xs, b ≠ 0 := fun b hb => h b (by simp [hb])
    have := ih hxs
    simp only [List.takeWhile_cons, ne_eq, hx, not_false_eq_true, decide_true, ↓reduceIte, this]

theorem fromPathname_ok (p : List Nat) (h0 : ∀ b ∈ p, b ≠ 0) (h1 : 1 ≤ p.length)
    (h2 : p.length ≤ 107) : fromPathname p = some (.path p) := by
  unfold fromPathname
  have hne : p.isEmpty = false := by
    cases p with
    | nil => simp at h1
    | cons _ _ => simp
  have h3 : ¬ (p.length ≥ 108) := by omega
  have h4 : ¬ (0 ∈ p) := fun hm => h0 0 hm rfl
  simp [hne, h3, h4]

/-- The bytes of a Unix path storage the kernel reports with length `2 + |p| + k`. -/
theorem unix_path_prefix (p : List Nat) (k : Nat) (h : p.length + k ≤ 108) :
    ((storageUnix (.path p)).drop 2).take (p.length + k) = p ++ zeros k := by
  have : (storageUnix (.path p)).drop 2 = p ++ zeros (108 - p.length) := by
    simp [storageUnix, le16]
  rw [this, List.take_length_add_append]
  simp [zeros, List.take_replicate]
  omega

/-! ### Property theorems -/

/-- IPv4 round trip: every address, every port (network byte order). -/
theorem C16_roundtrip_v4 (ip : List Nat) (port : Nat) (h : WF (.v4 ip port)) :
    initV4 (storageV4 ip port) = .v4 ip port := by
  obtain ⟨hl, hp⟩ := h
  match ip, hl with
  | [a, b, c, d], _ =>
    simp [initV4, storageV4, le16, be16, rd16be, zeros]
    omega

/-- IPv6 round trip: every address, port, flow label and scope id. -/
theorem C16_roundtrip_v6 (ip : List Nat) (port flow scope : Nat)
    (h : WF (.v6 ip port flow scope)) :
    initV6 (storageV6 ip port flow scope) = .v6 ip port flow scope := by
  obtain ⟨hl, hp, hf, hs⟩ := h
  match ip, hl with
  | [a0, a1, a2, a3, a4, a5, a6, a7, a8, a9, a10, a11, a12, a13, a14, a15], _ =>
    simp [initV6, storageV6, le16, be16, le32, rd16be, rd32le]
    refine ⟨by omega, by omega, by omega⟩

/-- Either-family address holding an IPv4 address: the length passed to the
kernel is that of `sockaddr_in` and the address reads back. -/
theorem C16_roundtrip_any_v4 (ip : List Nat) (port : Nat) (h : WF (.v4 ip port)) :
    ptrLenAny (storageAny (.v4 ip port)) = 16 ∧
    initAny (storageAny (.v4 ip port)) = .v4 ip port := by
  obtain ⟨hl, hp⟩ := h
  match ip, hl with
  | [a, b, c, d], _ =>
    simp [ptrLenAny, initAny, storageAny, initV4, storageV4, le16, be16, rd16le, rd16be,
      zeros, AF_INET]
    omega

/-- Either-family address holding an IPv6 address. -/
theorem C16_roundtrip_any_v6 (ip : List Nat) (port flow scope : Nat)
    (h : WF (.v6 ip port flow scope)) :
    ptrLenAny (storageAny (.v6 ip port flow scope)) = 28 ∧
    initAny (storageAny (.v6 ip port flow scope)) = .v6 ip port flow scope := by
  obtain ⟨hl, hp, hf, hs⟩ := h
  match ip, hl with
  | [a0, a1, a2, a3, a4, a5, a6, a7, a8, a9, a10, a11, a12, a13, a14, a15], _ =>
    simp [ptrLenAny, initAny, storageAny, initV6, storageV6, le16, be16, le32, rd16le,
      rd16be, rd32le, AF_INET, AF_INET6]
    refine ⟨by omega, by omega, by omega⟩

theorem initUnix_ge (st : List Nat) (len : Nat) (h : 2 ≤ len) :
    initUnix st len = initUnixCore st len := by
  have : ¬ len < 2 := by omega
  simp [initUnix, this]

/-- Unix path names read back for both lengths the kernel reports (with and
without the terminating NUL). -/
theorem C16_roundtrip_unix_path (p : List Nat) (h : WF (.path p)) :
    ∀ len ∈ kernelLens (.path p), initUnix (storageUnix (.path p)) len = .path p := by
  obtain ⟨h1, h2, h0⟩ := h
  intro len hlen
  have hpath := fromPathname_ok p h0 h1 h2
  simp [kernelLens] at hlen
  cases p with
  | nil => simp at h1
  | cons x xs =>
    have hx : x ≠ 0 := h0 x (by simp)
    rcases hlen with rfl | rfl
    · -- with the terminating NUL
      have hpre := unix_path_prefix (x :: xs) 1 (by omega)
      have harith : 2 + (x :: xs).length + 1 - 2 = (x :: xs).length + 1 := by omega
      have htw : ((x :: xs) ++ zeros 1).takeWhile (· ≠ 0) = x :: xs :=
        takeWhile_append_zero (x :: xs) h0 []
      rw [initUnix_ge _ _ (by simp; omega)]
      simp only [initUnixCore, harith, hpre]
      simp only [List.cons_append] at htw ⊢
      split
      · rename_i heq; simp at heq; exact absurd heq.1 hx
      · rw [htw, hpath]; rfl
    · -- without it
      have hpre := unix_path_prefix (x :: xs) 0 (by omega)
      have harith : 2 + (x :: xs).length - 2 = (x :: xs).length + 0 := by omega
      have htw := takeWhile_all (x :: xs) h0
      rw [initUnix_ge _ _ (by simp)]
      simp only [initUnixCore, harith, hpre]
      simp only [zeros, List.replicate_zero, List.append_nil]
      split
      · rename_i heq; simp at heq; exact absurd heq.1 hx
      · rw [htw, hpath]; rfl

/-- Unix abstract names (any bytes, including NULs) read back. -/
theorem C16_roundtrip_unix_abstract (n : List Nat) (h : WF (.abstr n)) :
    ∀ len ∈ kernelLens (.abstr n), initUnix (storageUnix (.abstr n)) len = .abstr n := by
  intro len hlen
  simp [kernelLens] at hlen
  subst hlen
  have h' : n.length ≤ 107 := h
  rw [initUnix_ge _ _ (by omega)]
  simp only [initUnixCore, storageUnix, le16]
  have hdrop : (([AF_UNIX % 256, AF_UNIX / 256 % 256] ++ [0] ++ n ++ zeros (107 - n.length)).drop 2)
      = 0 :: (n ++ zeros (107 - n.length)) := by simp
  rw [hdrop]
  have harith : 3 + n.length - 2 = n.length + 1 := by omega
  rw [harith]
  have htake : (0 :: (n ++ zeros (107 - n.length))).take (n.length + 1) = 0 :: n := by
    simp
  rw [htake]
  have h3 : ¬ (n.length + 1 > 108) := by omega
  simp [fromAbstract, h3]

/-- The unnamed Unix address reads back, from `getsockname`'s length 2 as well as from the
length 0 `recvmsg` reports for a datagram of an unbound sender (before the `fix:` commit
2945ba2 that length hit a debug assertion / underflowed the path length). -/
theorem C16_roundtrip_unix_unnamed :
    ∀ len ∈ kernelLens .unnamed, initUnix (storageUnix .unnamed) len = .unnamed := by
  intro len hlen
  simp [kernelLens] at hlen
  rcases hlen with rfl | rfl
  · simp [initUnix, initUnixCore, storageUnix, fromPathname]
  · simp [initUnix]

/-- The pointer/length pair handed to the kernel: the IP storages are exactly the family's
structure (16 bytes `sockaddr_in`, 28 bytes `sockaddr_in6`); a Unix address is stored in a
110-byte `sockaddr_un` and passed with the length OF THAT ADDRESS (family + path + NUL,
family + `\0name`, or the bare family), which lies inside the structure and is one of the
lengths the kernel itself reports for it (`kernelLens`). -/
theorem C16_ptr_len (a : Addr) (h : WF a) :
    match a with
    | .v4 ip port => (storageV4 ip port).length = 16
    | .v6 ip port flow scope => (storageV6 ip port flow scope).length = 28
    | u => (storageUnix u).length = 110 ∧ ptrLenUnix u ≤ 110 ∧ ptrLenUnix u ∈ kernelLens u := by
  cases a with
  | v4 ip port => obtain ⟨hl, _⟩ := h; simp [storageV4, le16, be16, zeros, hl]
  | v6 ip port flow scope =>
    obtain ⟨hl, _⟩ := h; simp [storageV6, le16, be16, le32, hl]
  | path p =>
    obtain ⟨_, h2, _⟩ := h
    simp [storageUnix, le16, zeros, ptrLenUnix, kernelLens]; omega
  | abstr n =>
    have h2 : n.length ≤ 107 := h
    simp [storageUnix, le16, zeros, ptrLenUnix, kernelLens]; omega
  | unnamed => simp [storageUnix, le16, zeros, ptrLenUnix, kernelLens]

/-- What the kernel sees for a Unix address is the address itself: reading the storage back with
the length `as_ptr` passes yields the same address (an abstract name is NOT padded with NULs, the
unnamed address stays unnamed). Before the `fix:` commit 372ec6f the length was always 110 and an
abstract name `n` was seen as `n ++ 0…0` (`example` below). -/
theorem C16_kernel_sees_same_unix_address (a : Addr) (h : WF a)
    (hu : match a with | .path _ | .abstr _ | .unnamed => True | _ => False) :
    initUnix (storageUnix a) (ptrLenUnix a) = a := by
  cases a with
  | v4 _ _ => simp at hu
  | v6 _ _ _ _ => simp at hu
  | path p => exact C16_roundtrip_unix_path p h (ptrLenUnix (.path p)) (by simp [kernelLens, ptrLenUnix])
  | abstr n => exact C16_roundtrip_unix_abstract n h (ptrLenUnix (.abstr n)) (by simp [kernelLens, ptrLenUnix])
  | unnamed => exact C16_roundtrip_unix_unnamed (ptrLenUnix .unnamed) (by simp [kernelLens, ptrLenUnix])

/-- The repaired defect: with the old length 110 the kernel saw the abstract name padded. -/
example : initUnix (storageUnix (.abstr [97, 98])) 110 ≠ .abstr [97, 98] := by decide

/-- Reading back a Unix address depends only on the bytes the kernel reported:
whatever lies beyond `len` in the caller's buffer is ignored (for `len < 2` nothing at all is
read: the storage may be entirely uninitialised). -/
theorem C16_unix_init_ignores_tail (st junk : List Nat) (len : Nat)
    (h : len ≤ st.length) :
    initUnix (st.take len ++ junk) len = initUnix st len := by
  by_cases h2 : len < 2
  · simp [initUnix, h2]
  have h2 : 2 ≤ len := by omega
  rw [initUnix_ge _ _ h2, initUnix_ge _ _ h2]
  have : ((st.take len ++ junk).drop 2).take (len - 2) = (st.drop 2).take (len - 2) := by
    rw [List.drop_append_of_le_length (by simp; omega)]
    rw [List.take_append_of_le_length (by simp; omega)]
    rw [List.drop_take]
    rw [List.take_take]
    congr 1
    omega
  simp only [initUnixCore, this]

/-- The three Unix round trips as one statement: every Unix address the API can construct reads
back as itself for EVERY length the kernel reports for it (`kernelLens`: with and without the
terminating NUL for path names, 2 and 0 for the unnamed address). -/
theorem C16_roundtrip_unix (a : Addr) (h : WF a)
    (hu : match a with | .path _ | .abstr _ | .unnamed => True | _ => False) :
    ∀ len ∈ kernelLens a, initUnix (storageUnix a) len = a := by
  cases a with
  | v4 _ _ => simp at hu
  | v6 _ _ _ _ => simp at hu
  | path p => exact C16_roundtrip_unix_path p h
  | abstr n => exact C16_roundtrip_unix_abstract n h
  | unnamed => exact C16_roundtrip_unix_unnamed

/-- No two addresses share a kernel representation (Unix): when the storage bytes and the length
handed to the kernel agree, the addresses are the same. A corollary of the round trip, so it holds
for every path name, abstract name (NUL bytes included) and the unnamed address. -/
theorem C16_unix_representation_injective (a b : Addr) (ha : WF a) (hb : WF b)
    (hua : match a with | .path _ | .abstr _ | .unnamed => True | _ => False)
    (hub : match b with | .path _ | .abstr _ | .unnamed => True | _ => False)
    (hs : storageUnix a = storageUnix b) (hl : ptrLenUnix a = ptrLenUnix b) : a = b := by
  have h1 := C16_kernel_sees_same_unix_address a ha hua
  have h2 := C16_kernel_sees_same_unix_address b hb hub
  rw [hs, hl] at h1
  exact h1.symm.trans h2

/-- No two IP addresses share a kernel representation, in the family's own structure and in the
either-family storage. -/
theorem C16_ip_representation_injective :
    (∀ ip port ip' port', WF (.v4 ip port) → WF (.v4 ip' port') →
      storageV4 ip port = storageV4 ip' port' → (Addr.v4 ip port) = .v4 ip' port') ∧
    (∀ ip port flow scope ip' port' flow' scope',
      WF (.v6 ip port flow scope) → WF (.v6 ip' port' flow' scope') →
      storageV6 ip port flow scope = storageV6 ip' port' flow' scope' →
      (Addr.v6 ip port flow scope) = .v6 ip' port' flow' scope') ∧
    (∀ a b, WF a → WF b →
      (match a with | .v4 _ _ | .v6 _ _ _ _ => True | _ => False) →
      (match b with | .v4 _ _ | .v6 _ _ _ _ => True | _ => False) →
      storageAny a = storageAny b → a = b) := by
  refine ⟨?_, ?_, ?_⟩
  · intro ip port ip' port' h h' hs
    have h1 := C16_roundtrip_v4 ip port h
    rw [hs, C16_roundtrip_v4 ip' port' h'] at h1
    exact h1.symm
  · intro ip port flow scope ip' port' flow' scope' h h' hs
    have h1 := C16_roundtrip_v6 ip port flow scope h
    rw [hs, C16_roundtrip_v6 ip' port' flow' scope' h'] at h1
    exact h1.symm
  · intro a b ha hb hia hib hs
    have key : ∀ c, WF c → (match c with | .v4 _ _ | .v6 _ _ _ _ => True | _ => False) →
        initAny (storageAny c) = c := by
      intro c hc hic
      cases c with
      | v4 ip port => exact (C16_roundtrip_any_v4 ip port hc).2
      | v6 ip port flow scope => exact (C16_roundtrip_any_v6 ip port flow scope hc).2
      | path _ => simp at hic
      | abstr _ => simp at hic
      | unnamed => simp at hic
    have h1 := key a ha hia
    rw [hs, key b hb hib] at h1
    exact h1.symm

/-! ### Non-vacuity: concrete addresses meet the hypotheses and round-trip -/

example : WF (.v4 [192, 168, 0, 1] 8080) := by simp [WF]
example : initV4 (storageV4 [192, 168, 0, 1] 8080) = .v4 [192, 168, 0, 1] 8080 := by decide
example : WF (.path [47, 116, 109, 112]) := by simp [WF]
example : initUnix (storageUnix (.path [47, 116, 109, 112])) 7 = .path [47, 116, 109, 112] := by
  decide
example : initUnix (storageUnix (.abstr [97, 0, 98])) 6 = .abstr [97, 0, 98] := by decide

/-- The defect repaired by the `fix:` commit: without stripping the terminating
NUL, the path name reported by the kernel was read back as *unnamed*. -/
def initUnixOld (st : List Nat) (len : Nat) : Addr :=
  let path := (st.drop 2).take (len - 2)
  match path with
  | 0 :: rest =>
    match fromAbstract rest with
    | some a => a
    | none => (fromPathname path).getD .unnamed
  | _ => (fromPathname path).getD .unnamed

example : initUnixOld (storageUnix (.path [47, 116, 109, 112])) 7 = .unnamed := by decide

end A10.Addr
