/-
C05 — Completions consumed exactly once, in order, wrap-safe; internal ones ignored.

Statement (properties.jsonl): `Ring::poll` hands every completion the kernel has
published to its operation exactly once and in publication order, never
interprets entries the kernel has not published, and gives ring slots back to
the kernel only after it has finished reading them. Bookkeeping completions
(wake-ups, cancellation acknowledgements, background closes, skipped/padding
entries) are never treated as belonging to an operation. This holds for every
completion-queue size, batch size and 32-bit counter value including wrap-around.

Model: `A10Verif/Model/CqRing.lean` (`pollRun` = `Completions::poll`,
`classify` = `Completion::process`, `Kern.step` = the kernel contract KC3), tied
to `src/io_uring/cq.rs` by the `cq` correspondence component.

Ghost absolute counters: the kernel's tail is `T = base + |pub|`, a10's head is
`H`; the shared words are `T mod 2^32` and `H mod 2^32`. Well-formedness `Inv`:
the ring size is `2^e` with `e < 32` (`entries_len: u32`), `H ≤ T ≤ H + len`
and the slots of `[H, T)` hold the entries published at those positions.
Nothing bounds `base`, `H`, `T`: every 32-bit counter value, wrapped any
number of times, is covered.

Theorems (obligations): `C05_bookkeeping_ignored`, `C05_operation_dispatched`,
`C05_tag_roundtrip`, `C05_slot_release`, `C05_poll`, `C05_reads_in_window`,
`C05_head_stored_last`, `C05_full`, `C05_delivery`, `C05_from_creation`,
`C05_old_code_fails`, `C05_early_store_unsafe`.
-/
import A10Verif.Model.CqRing

namespace A10.CqRing

open A10

/-! ### Helper lemmas -/

/-- Ring sizes: `entries_len: u32` is a power of two (the kernel rounds up). -/
def Pow2 (n : Nat) : Prop := ∃ e, e < 32 ∧ n = 2 ^ e

theorem Pow2.pos {n} (h : Pow2 n) : 0 < n := by
  obtain ⟨e, _, rfl⟩ := h; exact Nat.two_pow_pos e

theorem Pow2.le {n} (h : Pow2 n) : n ≤ 2147483648 := by
  obtain ⟨e, he, rfl⟩ := h
  have : 2 ^ e ≤ 2 ^ 31 := Nat.pow_le_pow_right (by decide) (by omega)
  simpa using this

theorem Pow2.dvd {n} (h : Pow2 n) : n ∣ 4294967296 := by
  obtain ⟨e, he, rfl⟩ := h
  have : (4294967296 : Nat) = 2 ^ 32 := by decide
  rw [this]
  exact Nat.pow_dvd_pow 2 (by omega)

theorem Pow2.mask {n} (h : Pow2 n) (x : Nat) : x &&& (n - 1) = x % n := by
  obtain ⟨e, _, rfl⟩ := h
  exact Nat.and_two_pow_sub_one_eq_mod x e

theorem Pow2.mod_mod {n} (h : Pow2 n) (x : Nat) : x % 4294967296 % n = x % n :=
  Nat.mod_mod_of_dvd x h.dvd

theorem window_inj {len a b : Nat} (h1 : a ≤ b) (h2 : b - a < len) (h3 : a % len = b % len) : a = b := by
  have h4 : (b - a) % len = 0 := Nat.sub_mod_eq_zero_of_mod_eq h3.symm
  have h5 : (b - a) % len = b - a := Nat.mod_eq_of_lt h2
  omega

/-- `(H mod 2^32 + off) mod 2^32 mod len = (H + off) mod len`. -/
theorem Pow2.wadd_mod {n} (h : Pow2 n) (H off : Nat) :
    wadd (H % 4294967296) off % n = (H + off) % n := by
  unfold wadd
  rw [h.mod_mod, Nat.add_mod, h.mod_mod, ← Nat.add_mod]

/-- Well-formed ring state; `H` is the ghost absolute head. -/
structure Inv (k : Kern) (H : Nat) : Prop where
  pow : Pow2 k.len
  head : k.head = H % 4294967296
  lo : k.base ≤ H
  hi : H ≤ k.T
  win : k.T - H ≤ k.len
  slots : ∀ j, H ≤ j → j < k.T → k.pub[j - k.base]? = some (k.mem (j % k.len))

theorem Inv.count {k H} (h : Inv k H) : k.count = k.T - H := by
  have h1 := h.pow.le
  have h2 := h.win
  have h3 := h.hi
  unfold Kern.count Kern.tail wsub
  rw [h.head]
  omega

/-- What a kernel move never changes, and what it can only extend. -/
structure Ext (k k' : Kern) : Prop where
  len : k'.len = k.len
  base : k'.base = k.base
  pub : ∃ suf, k'.pub = k.pub ++ suf

theorem Ext.refl (k : Kern) : Ext k k := ⟨rfl, rfl, ⟨[], by simp⟩⟩

theorem Ext.trans {a b c : Kern} (h1 : Ext a b) (h2 : Ext b c) : Ext a c := by
  obtain ⟨s1, e1⟩ := h1.pub
  obtain ⟨s2, e2⟩ := h2.pub
  exact ⟨h2.len.trans h1.len, h2.base.trans h1.base,
    ⟨s1 ++ s2, by rw [e2, e1, List.append_assoc]⟩⟩

theorem Ext.T_le {k k'} (h : Ext k k') : k.T ≤ k'.T := by
  obtain ⟨s, e⟩ := h.pub
  unfold Kern.T
  rw [h.base, e, List.length_append]
  omega

theorem Ext.get {k k'} (h : Ext k k') {i : Nat} (hi : i < k.pub.length) : k'.pub[i]? = k.pub[i]? := by
  obtain ⟨s, e⟩ := h.pub
  rw [e, List.getElem?_append_left hi]

theorem step_inv {k H} (h : Inv k H) (m : KMove) : Inv (k.step m) H ∧ Ext k (k.step m) := by
  have hc := h.count
  have hpos := h.pow.pos
  have hlo := h.lo
  have hhi := h.hi
  have hwin := h.win
  cases m with
  | post c =>
    by_cases hlt : k.count < k.len
    · have e : k.step (.post c) = { k with mem := setSlot k.mem (k.tail &&& (k.len - 1)) c, pub := k.pub ++ [c] } := by
        simp [Kern.step, hlt]
      rw [e]
      refine ⟨⟨h.pow, h.head, h.lo, ?_, ?_, ?_⟩, ⟨rfl, rfl, ⟨[c], rfl⟩⟩⟩
      · have := h.hi; simp only [Kern.T, List.length_append, List.length_cons, List.length_nil] at *; omega
      · have := h.win; simp only [Kern.T, List.length_append, List.length_cons, List.length_nil] at *; omega
      · intro j hj1 hj2
        have hidx : k.tail &&& (k.len - 1) = k.T % k.len := by
          rw [h.pow.mask]; unfold Kern.tail; exact h.pow.mod_mod _
        simp only [hidx, setSlot]
        have hT : k.T = k.base + k.pub.length := rfl
        simp only [Kern.T, List.length_append, List.length_cons, List.length_nil] at hj2
        by_cases hjT : j = k.T
        · subst hjT
          have : k.base + k.pub.length - k.base = k.pub.length := by omega
          simp [hT, this]
        · have hjlt : j < k.T := by omega
          have hne : j % k.len ≠ k.T % k.len := by
            intro heq
            have := window_inj (len := k.len) (a := j) (b := k.T) (by omega) (by omega) heq
            omega
          simp only [hne, if_false]
          have : j - k.base < k.pub.length := by omega
          rw [List.getElem?_append_left this]
          exact h.slots j hj1 hjlt
    · have e : k.step (.post c) = k := by simp [Kern.step, hlt]
      rw [e]; exact ⟨h, Ext.refl k⟩
  | scribble off c =>
    by_cases hg : k.count ≤ off ∧ off < k.len
    · have e : k.step (.scribble off c) = { k with mem := setSlot k.mem (wadd k.head off &&& (k.len - 1)) c } := by
        simp [Kern.step, hg]
      rw [e]
      refine ⟨⟨h.pow, h.head, h.lo, h.hi, h.win, ?_⟩, ⟨rfl, rfl, ⟨[], by simp⟩⟩⟩
      intro j hj1 hj2
      have hidx : wadd k.head off &&& (k.len - 1) = (H + off) % k.len := by
        rw [h.pow.mask, h.head]; exact h.pow.wadd_mod H off
      simp only [hidx, setSlot]
      have hj2' : j < k.T := hj2
      have hne : j % k.len ≠ (H + off) % k.len := by
        intro heq
        have := window_inj (len := k.len) (a := j) (b := H + off) (by omega) (by omega) heq
        omega
      simp only [hne, if_false]
      exact h.slots j hj1 hj2'
    · have e : k.step (.scribble off c) = k := by simp only [Kern.step, hg, if_false]
      rw [e]; exact ⟨h, Ext.refl k⟩

theorem steps_inv {k H} (h : Inv k H) (ms : List KMove) : Inv (k.steps ms) H ∧ Ext k (k.steps ms) := by
  induction ms generalizing k with
  | nil => exact ⟨h, Ext.refl k⟩
  | cons m ms ih =>
    have h1 := step_inv h m
    have h2 := ih h1.1
    exact ⟨h2.1, h1.2.trans h2.2⟩


/-- The reads of the absolute positions `a, a+1, …, a+n-1`: slot index
`j mod len`, local head `j mod 2^32`, content = the entry published at `j`. -/
def readsFrom (len base : Nat) (pub : List Cqe) : Nat → Nat → List Ev
  | _, 0 => []
  | a, n + 1 =>
    .read (a % len) (a % 4294967296) (pub.getD (a - base) default) :: readsFrom len base pub (a + 1) n

theorem loop_spec (s : Sched) : ∀ (n fuel i : Nat) (k : Kern) (H Hc : Nat),
    Inv k H → H ≤ Hc → Hc + n ≤ k.T → n ≤ fuel →
    Inv (loopRun s ((Hc + n) % 4294967296) fuel i (Hc % 4294967296) k).1 H ∧
    Ext k (loopRun s ((Hc + n) % 4294967296) fuel i (Hc % 4294967296) k).1 ∧
    (loopRun s ((Hc + n) % 4294967296) fuel i (Hc % 4294967296) k).2.2 = (Hc + n) % 4294967296 ∧
    (loopRun s ((Hc + n) % 4294967296) fuel i (Hc % 4294967296) k).2.1 =
      readsFrom k.len k.base (loopRun s ((Hc + n) % 4294967296) fuel i (Hc % 4294967296) k).1.pub Hc n := by
  intro n
  induction n with
  | zero =>
    intro fuel i k H Hc h _ _ _
    cases fuel <;> simp [loopRun, readsFrom, h, Ext.refl]
  | succ n ih =>
    intro fuel i k H Hc h h1 h2 h3
    obtain ⟨f, rfl⟩ : ∃ f, fuel = f + 1 := ⟨fuel - 1, by omega⟩
    have hple := h.pow.le
    have hwin := h.win
    have hne : ¬ (Hc % 4294967296 = (Hc + 1 + n) % 4294967296) := by omega
    obtain ⟨hi1, he1⟩ := steps_inv h (s.beforeRead i)
    have hT1 := he1.T_le
    have hw : wadd (Hc % 4294967296) 1 = (Hc + 1) % 4294967296 := by unfold wadd; omega
    have hs : Hc + (n + 1) = (Hc + 1) + n := by omega
    have ih' := ih f (i + 1) (k.steps (s.beforeRead i)) H (Hc + 1) hi1 (by omega) (by omega) (by omega)
    simp only [hs]
    simp only [loopRun, hne, if_false, hw]
    obtain ⟨a1, a2, a3, a4⟩ := ih'
    refine ⟨a1, he1.trans a2, a3, ?_⟩
    rw [a4]
    simp only [readsFrom, he1.len, he1.base]
    congr 1
    have hidx : Hc % 4294967296 &&& (k.len - 1) = Hc % k.len := by
      rw [h.pow.mask, h.pow.mod_mod]
    rw [hidx]
    have hlo := h.lo
    have hsl := hi1.slots Hc h1 (by omega)
    have hlt : Hc - k.base < (k.steps (s.beforeRead i)).pub.length := by
      have : (k.steps (s.beforeRead i)).T = (k.steps (s.beforeRead i)).base + (k.steps (s.beforeRead i)).pub.length := rfl
      rw [he1.base] at this
      omega
    have hg := a2.get hlt
    rw [he1.base, he1.len] at hsl
    rw [List.getD_eq_getElem?_getD, hg, hsl]
    rfl


theorem readsFrom_ext (len base : Nat) (pub suf : List Cqe) : ∀ (n a : Nat),
    base ≤ a → a - base + n ≤ pub.length →
    readsFrom len base (pub ++ suf) a n = readsFrom len base pub a n := by
  intro n
  induction n with
  | zero => intros; rfl
  | succ n ih =>
    intro a h1 h2
    simp only [readsFrom]
    rw [ih (a + 1) (by omega) (by omega)]
    congr 2
    rw [List.getD_eq_getElem?_getD, List.getD_eq_getElem?_getD,
      List.getElem?_append_left (by omega)]

theorem entries_append (a b : List Ev) : entries (a ++ b) = entries a ++ entries b := by
  induction a with
  | nil => rfl
  | cons e es ih => cases e <;> simp [entries, ih]

theorem readsFrom_entries (len base : Nat) (pub : List Cqe) : ∀ (n a : Nat),
    base ≤ a → a - base + n ≤ pub.length →
    entries (readsFrom len base pub a n) = (pub.drop (a - base)).take n := by
  intro n
  induction n with
  | zero => intros; simp [readsFrom, entries]
  | succ n ih =>
    intro a h1 h2
    have hlt : a - base < pub.length := by omega
    simp only [readsFrom, entries]
    rw [ih (a + 1) (by omega) (by omega)]
    have e1 : a + 1 - base = (a - base) + 1 := by omega
    rw [e1, List.getD_eq_getElem?_getD, List.getElem?_eq_getElem hlt]
    rw [List.drop_eq_getElem_cons hlt, List.take_succ_cons]
    rfl

theorem body_spec (dbg : Bool) (s : Sched) (pre : List Ev) (k : Kern) (H : Nat) (h : Inv k H) :
    Inv (bodyRun dbg s pre (H % 4294967296) (k.T % 4294967296) k).1 k.T ∧
    Ext k (bodyRun dbg s pre (H % 4294967296) (k.T % 4294967296) k).1 ∧
    (bodyRun dbg s pre (H % 4294967296) (k.T % 4294967296) k).2 =
      pre ++ readsFrom k.len k.base (bodyRun dbg s pre (H % 4294967296) (k.T % 4294967296) k).1.pub
        H (k.T - H) ++ [.storeHead (k.T % 4294967296)] := by
  have hple := h.pow.le
  have hwin := h.win
  have hhi := h.hi
  have hlo := h.lo
  have hnp : (dbg && decide (wsub (k.T % 4294967296) (H % 4294967296) > k.len)) = false := by
    have : wsub (k.T % 4294967296) (H % 4294967296) = k.T - H := by unfold wsub; omega
    rw [this]; simp; intro _; omega
  have hT : H + (k.T - H) = k.T := by omega
  have hl := loop_spec s (k.T - H) 4294967296 0 k H H h (Nat.le_refl _) (by omega) (by omega)
  rw [hT] at hl
  obtain ⟨l1, l2, l3, l4⟩ := hl
  simp only [bodyRun, hnp, Bool.false_eq_true, if_false]
  generalize loopRun s (k.T % 4294967296) 4294967296 0 (H % 4294967296) k = r at *
  obtain ⟨m1, m2⟩ := steps_inv l1 s.beforeStore
  have hx := l2.trans m2
  refine ⟨?_, ⟨hx.len, hx.base, hx.pub⟩, ?_⟩
  · have hTle := hx.T_le
    refine ⟨m1.pow, l3, ?_, hTle, ?_, ?_⟩
    · show (Kern.steps _ _).base ≤ k.T
      rw [hx.base]; unfold Kern.T; omega
    · have := m1.win
      show (Kern.steps _ _).T - k.T ≤ (Kern.steps _ _).len
      omega
    · intro j hj1 hj2
      exact m1.slots j (by omega) hj2
  · rw [l3, l4]
    obtain ⟨suf, e⟩ := m2.pub
    show _ = _ ++ readsFrom k.len k.base (Kern.steps _ _).pub H (k.T - H) ++ _
    rw [e, readsFrom_ext _ _ _ _ _ _ hlo]
    have := l2.T_le
    have hb := l2.base
    have e1 : r.1.T = r.1.base + r.1.pub.length := rfl
    have e2 : k.T = k.base + k.pub.length := rfl
    omega


/-- **Unwinding** (fix ecc12ae). A call that is left by a panic of user code after `m` entries of
its batch were handed over (`H + m ≤ T`) has read exactly the positions `[H, H + m)`, each once,
in order, and has stored the head `H + m`: the state is well-formed with `H := H + m`, so the next
call (`C05_poll`) starts at `H + m` — nothing is handed over a second time, nothing is skipped. -/
theorem unwind_spec (s : Sched) (pre : List Ev) (k : Kern) (H m : Nat) (h : Inv k H)
    (hm : H + m ≤ k.T) :
    Inv (bodyUnwind s pre (H % 4294967296) m k).1 (H + m) ∧
    Ext k (bodyUnwind s pre (H % 4294967296) m k).1 ∧
    (bodyUnwind s pre (H % 4294967296) m k).2 =
      pre ++ readsFrom k.len k.base (bodyUnwind s pre (H % 4294967296) m k).1.pub H m ++
        [.storeHead ((H + m) % 4294967296)] := by
  have hple := h.pow.le
  have hwin := h.win
  have hhi := h.hi
  have hlo := h.lo
  have hw : wadd (H % 4294967296) m = (H + m) % 4294967296 := by unfold wadd; omega
  have hl := loop_spec s m 4294967296 0 k H H h (Nat.le_refl _) hm (by omega)
  obtain ⟨l1, l2, l3, l4⟩ := hl
  simp only [bodyUnwind, hw]
  generalize loopRun s ((H + m) % 4294967296) 4294967296 0 (H % 4294967296) k = r at *
  obtain ⟨m1, m2⟩ := steps_inv l1 s.beforeStore
  have hx := l2.trans m2
  refine ⟨?_, ⟨hx.len, hx.base, hx.pub⟩, ?_⟩
  · have hTle := hx.T_le
    refine ⟨m1.pow, l3, ?_, ?_, ?_, ?_⟩
    · show (Kern.steps _ _).base ≤ H + m
      rw [hx.base]; omega
    · show H + m ≤ (Kern.steps _ _).T
      omega
    · have := m1.win
      show (Kern.steps _ _).T - (H + m) ≤ (Kern.steps _ _).len
      omega
    · intro j hj1 hj2
      exact m1.slots j (by omega) hj2
  · rw [l3, l4]
    obtain ⟨suf, e⟩ := m2.pub
    show _ = _ ++ readsFrom k.len k.base (Kern.steps _ _).pub H m ++ _
    rw [e, readsFrom_ext _ _ _ _ _ _ hlo]
    have := l2.T_le
    have hb := l2.base
    have e1 : r.1.T = r.1.base + r.1.pub.length := rfl
    have e2 : k.T = k.base + k.pub.length := rfl
    omega

/-- The two shapes of the events before the loop. -/
def IsPre (H T₁ : Nat) (pre : List Ev) : Prop :=
  pre = [.loadHead (H % 4294967296), .loadTail (T₁ % 4294967296)] ∨
  pre = [.loadHead (H % 4294967296), .loadTail (H % 4294967296), .enter, .loadTail (T₁ % 4294967296)]

/-- **One call.** From any well-formed state, for every behaviour of the
concurrent kernel (`s`), `Completions::poll` either returns the error of a
failed `enter` having read nothing and stored nothing, or: loads the head, loads
the tail (once more after `enter` if the queue looked empty), reads exactly the
slots of the absolute positions `[H, T₁)` — `T₁` being the tail it loaded, at
least everything published before the call — each once, in order, each
containing the entry published at that position, then stores the head once, as
its last step, equal to the loaded tail; no assertion fails, the loop
terminates; the resulting state is well-formed with `H := T₁`. -/
theorem C05_poll (dbg : Bool) (k : Kern) (s : Sched) (H : Nat) (h : Inv k H) :
    ∃ T₁, H ≤ T₁ ∧ Inv (pollRun dbg k s).1 T₁ ∧ Ext k (pollRun dbg k s).1 ∧
      (((pollRun dbg k s).2 =
          [.loadHead (H % 4294967296), .loadTail (H % 4294967296), .enter, .error] ∧
          T₁ = H ∧ s.enterOk = false ∧ k.T = H) ∨
       (k.T ≤ T₁ ∧ ∃ pre, IsPre H T₁ pre ∧
          (pollRun dbg k s).2 =
            pre ++ readsFrom k.len k.base (pollRun dbg k s).1.pub H (T₁ - H) ++
              [.storeHead (T₁ % 4294967296)])) := by
  obtain ⟨i0, e0⟩ := steps_inv h s.beforeTail
  have hple := h.pow.le
  have hT0 := e0.T_le
  have hwin0 := i0.win
  have hhi0 := i0.hi
  have hhi := h.hi
  unfold pollRun
  simp only [h.head]
  by_cases hemp : H % 4294967296 = (k.steps s.beforeTail).tail
  · -- empty: enter the kernel
    have hTH : (k.steps s.beforeTail).T = H := by
      unfold Kern.tail at hemp; rw [e0.len] at hwin0; omega
    simp only [hemp, if_true]
    obtain ⟨i1, e1⟩ := steps_inv i0 s.duringEnter
    cases hok : s.enterOk with
    | false =>
      refine ⟨H, Nat.le_refl _, ?_, ?_, Or.inl ⟨?_, rfl, rfl, by omega⟩⟩
      · simpa using i1
      · simpa using e0.trans e1
      · simp [← hemp]
    | true =>
      obtain ⟨i2, e2⟩ := steps_inv i1 s.afterEnter
      have hb := body_spec dbg s
        [.loadHead (k.steps s.beforeTail).tail, .loadTail (k.steps s.beforeTail).tail, .enter,
          .loadTail (((k.steps s.beforeTail).steps s.duringEnter).steps s.afterEnter).tail]
        _ H i2
      have ex := (e0.trans e1).trans e2
      have hTle := ex.T_le
      simp only [Bool.not_true, Bool.false_eq_true, if_false]
      rw [← hemp] at hb ⊢
      obtain ⟨b1, b2, b3⟩ := hb
      refine ⟨_, i2.hi, b1, ex.trans b2, Or.inr ⟨hTle, _, Or.inr rfl, ?_⟩⟩
      rw [ex.len, ex.base] at b3
      exact b3
  · simp only [hemp, if_false]
    have hb := body_spec dbg s [.loadHead (H % 4294967296), .loadTail (k.steps s.beforeTail).tail] _ H i0
    obtain ⟨b1, b2, b3⟩ := hb
    refine ⟨_, i0.hi, b1, e0.trans b2, Or.inr ⟨hT0, _, Or.inl rfl, ?_⟩⟩
    rw [e0.len, e0.base] at b3
    exact b3

/-- A run of the whole system: kernel activity between calls, and `poll` calls
(with kernel activity inside them). -/
inductive Round where
  | kernel (ms : List KMove)
  | poll (s : Sched)
  /-- a `poll` call that is left by a panic of user code after (at most) `m` entries of the batch
  it found were handed over (fix ecc12ae: the head is stored while unwinding) -/
  | unwind (s : Sched) (m : Nat)

def run (dbg : Bool) (k : Kern) : List Round → Kern × List Ev
  | [] => (k, [])
  | .kernel ms :: rs => run dbg (k.steps ms) rs
  | .poll s :: rs =>
    let r := pollRun dbg k s
    let r' := run dbg r.1 rs
    (r'.1, r.2 ++ r'.2)
  | .unwind s m :: rs =>
    let r := bodyUnwind s [.loadHead k.head, .loadTail k.tail] k.head (min m k.count) k
    let r' := run dbg r.1 rs
    (r'.1, r.2 ++ r'.2)

theorem take_drop_ext (pub suf : List Cqe) (a n : Nat) (h : a + n ≤ pub.length) :
    ((pub ++ suf).drop a).take n = (pub.drop a).take n := by
  rw [List.drop_append_of_le_length (by omega), List.take_append_of_le_length (by simp; omega)]

theorem take_drop_add (l : List Cqe) (a n m : Nat) :
    (l.drop a).take n ++ (l.drop (a + n)).take m = (l.drop a).take (n + m) := by
  rw [List.take_add, List.drop_drop]

theorem readsFrom_clean (len base : Nat) (pub : List Cqe) (n a : Nat) :
    Ev.panic ∉ readsFrom len base pub a n ∧ Ev.diverge ∉ readsFrom len base pub a n ∧
    Ev.error ∉ readsFrom len base pub a n := by
  induction n generalizing a with
  | zero => simp [readsFrom]
  | succ n ih => simp [readsFrom, ih]


/-! ### Property theorems -/

/-- Bookkeeping completions (`user_data` 0-3) and `IORING_CQE_F_SKIP` padding
are dispatched to no operation: no pointer is formed, `update` is not called. -/
theorem C05_bookkeeping_ignored (c : Cqe) (h : fSkip c.flags = true ∨ c.ud ≤ 3) :
    opOf c = none ∧ ∀ p m, classify c ≠ .dispatch p m := by
  have key : ∀ p m, classify c ≠ .dispatch p m := by
    intro p m
    unfold classify
    rcases h with h | h
    · simp [h]
    · have : c.ud = 0 ∨ c.ud = 1 ∨ c.ud = 2 ∨ c.ud = 3 := by omega
      rcases this with h | h | h | h <;> simp only [h] <;> (repeat' split) <;> simp_all
  refine ⟨?_, key⟩
  unfold opOf
  cases hc : classify c <;> simp
  exact absurd hc (key _ _)

/-- Every other completion is dispatched to the operation whose state address
is `user_data & !1`, as multishot iff the tag bit is set, with its `res` and
`flags` unchanged. -/
theorem C05_operation_dispatched (c : Cqe) (h1 : fSkip c.flags = false) (h2 : 3 < c.ud) :
    opOf c = some (c.ud - c.ud % 2, c.ud % 2 == 1, c.res, c.flags) := by
  unfold opOf classify
  have a0 : c.ud ≠ 0 := by omega
  have a1 : c.ud ≠ 1 := by omega
  have a2 : c.ud ≠ 2 := by omega
  have a3 : c.ud ≠ 3 := by omega
  simp [h1, a0, a1, a2, a3]

/-- The tag split inverts `State::user_data` (op.rs:219-229) for every state
address (even, above the reserved values): the completion of a submission
reaches exactly the operation that made it, with the right shape. -/
theorem C05_tag_roundtrip (ptr : Nat) (multi : Bool) (res : Int) (flags : Nat)
    (h1 : ptr % 2 = 0) (h2 : 3 < ptr) (h3 : fSkip flags = false) :
    opOf ⟨userData ptr multi, res, flags⟩ = some (ptr, multi, res, flags) := by
  have h := C05_operation_dispatched ⟨userData ptr multi, res, flags⟩ h3
    (by unfold userData; cases multi <;> simp <;> omega)
  rw [h]
  cases multi <;> simp [userData] <;> omega

/-- **Slot release.** Whatever the kernel does (KC3: it computes the free space
from the *published* head word) while the head has not been stored, it never
touches a slot of `[H, T)`: those still hold the entries published there. Since
`poll` stores the head last (`C05_poll`), the kernel never overwrites a slot
a10 has not finished reading. -/
theorem C05_slot_release (k : Kern) (H : Nat) (h : Inv k H) (ms : List KMove) :
    Inv (k.steps ms) H ∧
    ∀ j, H ≤ j → j < k.T →
      (k.steps ms).mem (j % k.len) = k.mem (j % k.len) ∧
      (k.steps ms).pub[j - k.base]? = k.pub[j - k.base]? := by
  obtain ⟨i1, e1⟩ := steps_inv h ms
  refine ⟨i1, ?_⟩
  intro j hj1 hj2
  have hlo := h.lo
  have hT : k.T = k.base + k.pub.length := rfl
  have hg := e1.get (i := j - k.base) (by omega)
  refine ⟨?_, hg⟩
  have s1 := i1.slots j hj1 (by have := e1.T_le; omega)
  have s0 := h.slots j hj1 hj2
  rw [e1.base, e1.len, hg, s0] at s1
  exact (Option.some.inj s1).symm

theorem mem_readsFrom {len base : Nat} {pub : List Cqe} {e : Ev} : ∀ {n a : Nat},
    e ∈ readsFrom len base pub a n →
    ∃ j, a ≤ j ∧ j < a + n ∧
      e = .read (j % len) (j % 4294967296) (pub.getD (j - base) default) := by
  intro n
  induction n with
  | zero => intro a h; simp [readsFrom] at h
  | succ n ih =>
    intro a h
    simp only [readsFrom, List.mem_cons] at h
    rcases h with h | h
    · exact ⟨a, Nat.le_refl _, by omega, h⟩
    · obtain ⟨j, h1, h2, h3⟩ := ih h
      exact ⟨j, by omega, by omega, h3⟩

/-- **Never interprets unpublished entries.** Every slot read by a call is the
slot of an absolute position `j` with `H ≤ j < T'` (`T'` the kernel's tail when
the call returns, so `j` was published), its content is the entry published at
`j`, and the index is `j mod len`. -/
theorem C05_reads_in_window (dbg : Bool) (k : Kern) (s : Sched) (H : Nat) (h : Inv k H)
    (idx hd : Nat) (c : Cqe) (hr : Ev.read idx hd c ∈ (pollRun dbg k s).2) :
    ∃ j, H ≤ j ∧ j < (pollRun dbg k s).1.T ∧ idx = j % k.len ∧ hd = j % 4294967296 ∧
      (pollRun dbg k s).1.pub[j - k.base]? = some c := by
  obtain ⟨T₁, h1, h2, h3, h4⟩ := C05_poll dbg k s H h
  rcases h4 with ⟨e, _⟩ | ⟨_, pre, hp, e⟩
  · rw [e] at hr; simp at hr
  · rw [e] at hr
    have hT := h2.hi
    have hlo := h.lo
    simp only [List.mem_append, List.mem_singleton, reduceCtorEq, or_false] at hr
    rcases hr with hr | hr
    · rcases hp with hp | hp <;> rw [hp] at hr <;> simp at hr
    · obtain ⟨j, j1, j2, j3⟩ := mem_readsFrom hr
      injection j3 with a1 a2 a3
      refine ⟨j, j1, by omega, a1, a2, ?_⟩
      have hlt : j - k.base < (pollRun dbg k s).1.pub.length := by
        have : (pollRun dbg k s).1.T = (pollRun dbg k s).1.base + (pollRun dbg k s).1.pub.length := rfl
        rw [h3.base] at this
        omega
      rw [a3, List.getD_eq_getElem?_getD, List.getElem?_eq_getElem hlt]
      rfl

theorem last_unique {t v : Nat} : ∀ {X a b : List Ev}, (∀ w, Ev.storeHead w ∉ X) →
    a ++ Ev.storeHead v :: b = X ++ [Ev.storeHead t] → b = [] ∧ v = t ∧ a = X := by
  intro X
  induction X with
  | nil =>
    intro a b _ h
    cases a with
    | nil => simp at h; exact ⟨h.2, h.1, rfl⟩
    | cons y a' =>
      have := congrArg List.length h
      simp at this
  | cons x X' ih =>
    intro a b hX h
    cases a with
    | nil =>
      simp at h
      exact absurd (List.mem_cons_self) (h.1 ▸ hX v)
    | cons y a' =>
      simp only [List.cons_append, List.cons.injEq] at h
      obtain ⟨r1, r2, r3⟩ := ih (fun w hw => hX w (List.mem_cons_of_mem _ hw)) h.2
      exact ⟨r1, r2, by rw [h.1, r3]⟩

theorem readsFrom_no_store (len base : Nat) (pub : List Cqe) (n a w : Nat) :
    Ev.storeHead w ∉ readsFrom len base pub a n := by
  induction n generalizing a with
  | zero => simp [readsFrom]
  | succ n ih => simp [readsFrom, ih]

/-- **Head stored last.** The head is stored at most once per call; nothing is
read (or done at all) after it, and the value stored is the head word the
kernel sees afterwards. -/
theorem C05_head_stored_last (dbg : Bool) (k : Kern) (s : Sched) (H : Nat) (h : Inv k H)
    (a b : List Ev) (v : Nat) (he : (pollRun dbg k s).2 = a ++ .storeHead v :: b) :
    b = [] ∧ (∀ w, Ev.storeHead w ∉ a) ∧ v = (pollRun dbg k s).1.head := by
  obtain ⟨T₁, h1, h2, h3, h4⟩ := C05_poll dbg k s H h
  rcases h4 with ⟨e, _⟩ | ⟨_, pre, hp, e⟩
  · rw [e] at he
    have : Ev.storeHead v ∈ [Ev.loadHead (H % 4294967296), .loadTail (H % 4294967296), .enter, .error] := by
      rw [he]; simp
    simp at this
  · rw [e] at he
    have hX : ∀ w, Ev.storeHead w ∉ pre ++ readsFrom k.len k.base (pollRun dbg k s).1.pub H (T₁ - H) := by
      intro w hw
      rcases List.mem_append.mp hw with hw | hw
      · rcases hp with hp | hp <;> rw [hp] at hw <;> simp at hw
      · exact readsFrom_no_store _ _ _ _ _ _ hw
    obtain ⟨r1, r2, r3⟩ := last_unique hX he.symm
    exact ⟨r1, r3 ▸ hX, by rw [r2, h2.head]⟩

theorem entries_pre {H T₁ : Nat} {pre : List Ev} (hp : IsPre H T₁ pre) :
    entries pre = [] ∧ Ev.panic ∉ pre ∧ Ev.diverge ∉ pre := by
  rcases hp with hp | hp <;> rw [hp] <;> simp [entries]

/-- The full statement: for every ring size `2^e` (`e < 32`), all absolute
counters (hence all 32-bit counter values, wrapped or not), all batchings of
completions across successive calls — calls that return and calls that are left by a panic
of user code after any part of their batch —, all kernel activity between and *during*
the calls and all mixes of operation and bookkeeping entries: the entries
processed by the successive `poll` calls, concatenated, are exactly the
kernel's publication sequence from the initial head on — each once, in order —
up to the final head `H'`; the state stays well-formed; no assertion fails and
every loop terminates. -/
def C05_full_statement : Prop :=
  ∀ (dbg : Bool) (rs : List Round) (k : Kern) (H : Nat), Inv k H →
    ∃ H', H ≤ H' ∧ Inv (run dbg k rs).1 H' ∧ Ext k (run dbg k rs).1 ∧
      entries (run dbg k rs).2 = ((run dbg k rs).1.pub.drop (H - k.base)).take (H' - H) ∧
      Ev.panic ∉ (run dbg k rs).2 ∧ Ev.diverge ∉ (run dbg k rs).2

theorem C05_full : C05_full_statement := by
  intro dbg rs
  induction rs with
  | nil =>
    intro k H h
    exact ⟨H, Nat.le_refl _, h, Ext.refl k, by simp [run, entries], by simp [run], by simp [run]⟩
  | cons r rs ih =>
    intro k H h
    cases r with
    | kernel ms =>
      obtain ⟨i1, e1⟩ := steps_inv h ms
      obtain ⟨H', a1, a2, a3, a4, a5, a6⟩ := ih (k.steps ms) H i1
      simp only [run]
      rw [e1.base] at a4
      exact ⟨H', a1, a2, e1.trans a3, a4, a5, a6⟩
    | poll s =>
      obtain ⟨T₁, h1, h2, h3, h4⟩ := C05_poll dbg k s H h
      obtain ⟨H', a1, a2, a3, a4, a5, a6⟩ := ih (pollRun dbg k s).1 T₁ h2
      simp only [run]
      rw [h3.base] at a4
      refine ⟨H', by omega, a2, h3.trans a3, ?_, ?_, ?_⟩
      · rw [entries_append, a4]
        rcases h4 with ⟨e, t, _⟩ | ⟨_, pre, hp, e⟩
        · rw [e, t]; simp [entries]
        · rw [e, entries_append, entries_append, (entries_pre hp).1]
          have hlo := h.lo
          have hT := h2.hi
          have hTe : (pollRun dbg k s).1.T = k.base + (pollRun dbg k s).1.pub.length := by
            show (pollRun dbg k s).1.base + _ = _
            rw [h3.base]
          rw [readsFrom_entries _ _ _ _ _ hlo (by omega)]
          obtain ⟨suf, es⟩ := a3.pub
          have e1 : T₁ - k.base = (H - k.base) + (T₁ - H) := by omega
          have e2 : H' - H = (T₁ - H) + (H' - T₁) := by omega
          have e0 := (take_drop_ext (pollRun dbg k s).1.pub suf (H - k.base) (T₁ - H) (by omega)).symm
          rw [e0, ← es]
          simp only [entries, List.nil_append, List.append_nil]
          rw [e1, e2, take_drop_add]
      · intro hm
        rcases List.mem_append.mp hm with hm | hm
        · rcases h4 with ⟨e, _⟩ | ⟨_, pre, hp, e⟩
          · rw [e] at hm; simp at hm
          · rw [e] at hm
            simp only [List.mem_append, List.mem_singleton, reduceCtorEq, or_false] at hm
            rcases hm with hm | hm
            · exact (entries_pre hp).2.1 hm
            · exact (readsFrom_clean _ _ _ _ _).1 hm
        · exact a5 hm
      · intro hm
        rcases List.mem_append.mp hm with hm | hm
        · rcases h4 with ⟨e, _⟩ | ⟨_, pre, hp, e⟩
          · rw [e] at hm; simp at hm
          · rw [e] at hm
            simp only [List.mem_append, List.mem_singleton, reduceCtorEq, or_false] at hm
            rcases hm with hm | hm
            · exact (entries_pre hp).2.2 hm
            · exact (readsFrom_clean _ _ _ _ _).2.1 hm
        · exact a6 hm
    | unwind s m =>
      have hc := h.count
      have hhi := h.hi
      have hm : H + min m k.count ≤ k.T := by rw [hc]; omega
      have hpre : IsPre H k.T [Ev.loadHead k.head, Ev.loadTail k.tail] := by
        left; rw [h.head]; rfl
      obtain ⟨u1, u2, u3⟩ := unwind_spec s [.loadHead k.head, .loadTail k.tail] k H
        (min m k.count) h hm
      rw [← h.head] at u1 u2 u3
      generalize hr : bodyUnwind s [.loadHead k.head, .loadTail k.tail] k.head (min m k.count) k = r
        at u1 u2 u3
      obtain ⟨H', a1, a2, a3, a4, a5, a6⟩ := ih r.1 (H + min m k.count) u1
      simp only [run, hr]
      rw [u2.base] at a4
      refine ⟨H', by omega, a2, u2.trans a3, ?_, ?_, ?_⟩
      · rw [entries_append, a4, u3, entries_append, entries_append, (entries_pre hpre).1]
        have hlo := h.lo
        have hT := u1.hi
        have hTe : r.1.T = k.base + r.1.pub.length := by
          show r.1.base + _ = _
          rw [u2.base]
        rw [readsFrom_entries _ _ _ _ _ hlo (by omega)]
        obtain ⟨suf, es⟩ := a3.pub
        have e1 : H + min m k.count - k.base = (H - k.base) + min m k.count := by omega
        have e2 : H' - H = min m k.count + (H' - (H + min m k.count)) := by omega
        have e0 := (take_drop_ext r.1.pub suf (H - k.base) (min m k.count) (by omega)).symm
        rw [e0, ← es]
        simp only [entries, List.nil_append, List.append_nil]
        rw [e1, e2, take_drop_add]
      · intro hmem
        rcases List.mem_append.mp hmem with hmem | hmem
        · rw [u3] at hmem
          simp only [List.mem_append, List.mem_singleton, reduceCtorEq, or_false] at hmem
          rcases hmem with hmem | hmem
          · exact (entries_pre hpre).2.1 hmem
          · exact (readsFrom_clean _ _ _ _ _).1 hmem
        · exact a5 hmem
      · intro hmem
        rcases List.mem_append.mp hmem with hmem | hmem
        · rw [u3] at hmem
          simp only [List.mem_append, List.mem_singleton, reduceCtorEq, or_false] at hmem
          rcases hmem with hmem | hmem
          · exact (entries_pre hpre).2.2 hmem
          · exact (readsFrom_clean _ _ _ _ _).2.1 hmem
        · exact a6 hmem

/-- **A call left by a panic** (fix ecc12ae), the property-level form of `unwind_spec`: exactly the
entries at positions `[H, H + m)` were handed over, each once, in order, and the stored head is
`H + m`; `C05_full` / `C05_delivery` therefore hold for runs that contain such calls
(`Round.unwind`). -/
theorem C05_unwinding_poll (s : Sched) (k : Kern) (H m : Nat) (h : Inv k H) (hm : H + m ≤ k.T) :
    let r := bodyUnwind s [.loadHead k.head, .loadTail k.tail] k.head m k
    Inv r.1 (H + m) ∧ Ext k r.1 ∧ r.1.head = (H + m) % 4294967296 ∧
    entries r.2 = (r.1.pub.drop (H - k.base)).take m := by
  have hpre : IsPre H k.T [Ev.loadHead k.head, Ev.loadTail k.tail] := by
    left; rw [h.head]; rfl
  obtain ⟨u1, u2, u3⟩ := unwind_spec s [.loadHead k.head, .loadTail k.tail] k H m h hm
  rw [← h.head] at u1 u2 u3
  refine ⟨u1, u2, u1.head, ?_⟩
  have hlo := h.lo
  have hTe : (bodyUnwind s [.loadHead k.head, .loadTail k.tail] k.head m k).1.T =
      k.base + (bodyUnwind s [.loadHead k.head, .loadTail k.tail] k.head m k).1.pub.length := by
    show (bodyUnwind s _ k.head m k).1.base + _ = _
    rw [u2.base]
  have hT := u1.hi
  rw [u3, entries_append, entries_append, (entries_pre hpre).1,
    readsFrom_entries _ _ _ _ _ hlo (by omega)]
  simp [entries]

/-- Why the head has to be stored while unwinding (the defect repaired by ecc12ae): a call that
leaves the head word at `H` although it handed the entry at position `H` to its operation is
followed by a call whose FIRST processed entry is that same entry. (Any well-formed state with
something published: `C05_poll` starts reading at the stored head.) -/
theorem C05_unwind_without_store_rereads (dbg : Bool) (k : Kern) (s : Sched) (H : Nat)
    (h : Inv k H) (hne : H < k.T) :
    (entries (pollRun dbg k s).2).head? = (pollRun dbg k s).1.pub[H - k.base]? ∧
    (pollRun dbg k s).1.pub[H - k.base]? = k.pub[H - k.base]? := by
  obtain ⟨T₁, h1, h2, h3, h4⟩ := C05_poll dbg k s H h
  have hlo := h.lo
  have hlt : H - k.base < k.pub.length := by
    have : k.T = k.base + k.pub.length := rfl
    omega
  refine ⟨?_, h3.get hlt⟩
  rcases h4 with ⟨_, _, _, e⟩ | ⟨hT, pre, hp, e⟩
  · omega
  · rw [e, entries_append, entries_append, (entries_pre hp).1]
    have hTe : (pollRun dbg k s).1.T = k.base + (pollRun dbg k s).1.pub.length := by
      show (pollRun dbg k s).1.base + _ = _
      rw [h3.base]
    have hT2 := h2.hi
    rw [readsFrom_entries _ _ _ _ _ hlo (by omega)]
    simp only [entries, List.nil_append, List.append_nil]
    obtain ⟨n, hn⟩ : ∃ n, T₁ - H = n + 1 := ⟨T₁ - H - 1, by omega⟩
    have hlt2 : H - k.base < (pollRun dbg k s).1.pub.length := by omega
    rw [hn, List.drop_eq_getElem_cons hlt2, List.take_succ_cons, List.head?_cons,
      List.getElem?_eq_getElem hlt2]

/-- What the operations receive over a whole run: exactly the operation
entries of the publication sequence, each once, in order, each addressed to the
operation whose state address is `user_data & !1`; bookkeeping and padding
entries reach nobody. -/
theorem C05_delivery (dbg : Bool) (rs : List Round) (k : Kern) (H : Nat) (h : Inv k H) :
    ∃ H', H ≤ H' ∧ (run dbg k rs).1.head = H' % 4294967296 ∧
      delivered (run dbg k rs).2 =
        (((run dbg k rs).1.pub.drop (H - k.base)).take (H' - H)).filterMap opOf ∧
      ∀ x ∈ delivered (run dbg k rs).2, ∃ c ∈ (run dbg k rs).1.pub,
        fSkip c.flags = false ∧ 3 < c.ud ∧ x = (c.ud - c.ud % 2, c.ud % 2 == 1, c.res, c.flags) := by
  obtain ⟨H', a1, a2, _, a4, _, _⟩ := C05_full dbg rs k H h
  refine ⟨H', a1, a2.head, by unfold delivered; rw [a4], ?_⟩
  intro x hx
  unfold delivered at hx
  rw [a4] at hx
  obtain ⟨c, hc, hx⟩ := List.mem_filterMap.mp hx
  have hc' : c ∈ (run dbg k rs).1.pub := List.mem_of_mem_drop (List.mem_of_mem_take hc)
  refine ⟨c, hc', ?_⟩
  by_cases hs : fSkip c.flags = true
  · rw [(C05_bookkeeping_ignored c (Or.inl hs)).1] at hx; simp at hx
  · by_cases hu : c.ud ≤ 3
    · rw [(C05_bookkeeping_ignored c (Or.inr hu)).1] at hx; simp at hx
    · have hs' : fSkip c.flags = false := by simpa using hs
      rw [C05_operation_dispatched c hs' (by omega)] at hx
      exact ⟨hs', by omega, (Option.some.inj hx).symm⟩

/-- A ring as `io_uring_setup` hands it over: both counters at `base` (any
value), nothing published. -/
def Kern.fresh (e base : Nat) (mem : Nat → Cqe) : Kern :=
  { len := 2 ^ e, mem := mem, head := base % 4294967296, base := base, pub := [] }

theorem fresh_inv (e base : Nat) (mem : Nat → Cqe) (he : e < 32) : Inv (Kern.fresh e base mem) base := by
  refine ⟨⟨e, he, rfl⟩, rfl, Nat.le_refl _, ?_, ?_, ?_⟩
  · simp [Kern.T, Kern.fresh]
  · simp [Kern.T, Kern.fresh]
  · intro j h1 h2
    simp [Kern.T, Kern.fresh] at h2
    omega

/-- From ring creation on, for every queue size and every initial counter
value: what `poll` has processed so far is always a prefix of what the kernel
has published, each entry once, in order; the prefix ends at the head. -/
theorem C05_from_creation (dbg : Bool) (e base : Nat) (mem : Nat → Cqe) (he : e < 32)
    (rs : List Round) :
    ∃ n, entries (run dbg (Kern.fresh e base mem) rs).2 =
          (run dbg (Kern.fresh e base mem) rs).1.pub.take n ∧
      (run dbg (Kern.fresh e base mem) rs).1.head = (base + n) % 4294967296 ∧
      n ≤ (run dbg (Kern.fresh e base mem) rs).1.pub.length ∧
      (run dbg (Kern.fresh e base mem) rs).1.pub.length - n ≤ 2 ^ e ∧
      Ev.panic ∉ (run dbg (Kern.fresh e base mem) rs).2 ∧
      Ev.diverge ∉ (run dbg (Kern.fresh e base mem) rs).2 := by
  obtain ⟨H', a1, a2, a3, a4, a5, a6⟩ := C05_full dbg rs _ base (fresh_inv e base mem he)
  have hb : (Kern.fresh e base mem).base = base := rfl
  have hT : (run dbg (Kern.fresh e base mem) rs).1.T =
      base + (run dbg (Kern.fresh e base mem) rs).1.pub.length := by
    show (run dbg (Kern.fresh e base mem) rs).1.base + _ = _
    rw [a3.base]; rfl
  have hhi := a2.hi
  have hwin := a2.win
  rw [a3.len] at hwin
  refine ⟨H' - base, ?_, ?_, by omega, ?_, a5, a6⟩
  · rw [a4, hb]; simp
  · rw [a2.head]; congr 1; omega
  · show _ ≤ (Kern.fresh e base mem).len; omega

/-! ### What the repaired comparisons repair, and why the head must be stored last -/

def wa : Cqe := ⟨16, 7, 0⟩
def wb : Cqe := ⟨33, 9, 2⟩

/-- The wrapped witness: `H = 2^32 - 1`, `T = 2^32 + 1`, two completions pending. -/
def kWrap : Kern :=
  { len := 2, mem := fun i => if i = 1 then wa else wb, head := 4294967295,
    base := 4294967295, pub := [wa, wb] }

theorem kWrap_inv : Inv kWrap 4294967295 := by
  refine ⟨⟨1, by decide, rfl⟩, rfl, Nat.le_refl _, by decide, by decide, ?_⟩
  intro j h1 h2
  have h2' : j < 4294967297 := h2
  have : j = 4294967295 ∨ j = 4294967296 := by omega
  rcases this with rfl | rfl <;> decide

/-- The code before the fix (`head >= tail`, `while head < tail`, `head += 1`)
on a well-formed state whose tail has wrapped: `4294967295 >= 1` sends it into
the kernel although two completions are pending, `4294967295 < 1` is false so
nothing is ever processed (the completions are lost for good: the head never
moves), and with debug assertions `tail >= head` panics. The current code
processes both. -/
theorem C05_old_code_fails :
    Inv kWrap 4294967295 ∧ kWrap.T - 4294967295 = 2 ∧
    entries (pollOld false kWrap.mem kWrap.len kWrap.head kWrap.tail) = [] ∧
    Ev.storeHead 4294967295 ∈ pollOld false kWrap.mem kWrap.len kWrap.head kWrap.tail ∧
    Ev.panic ∈ pollOld true kWrap.mem kWrap.len kWrap.head kWrap.tail ∧
    entries (pollRun true kWrap {}).2 = [wa, wb] ∧
    (pollRun true kWrap {}).1.head = 1 := by
  refine ⟨kWrap_inv, by decide, by decide, by decide, by decide, by decide, by decide⟩

/-- Why the head must be stored *after* the reads: had `poll` published
`head := tail` before reading (state `early`), a kernel move that KC3 allows
overwrites slot 1 while the entry there (`wa`) is still unread. -/
theorem C05_early_store_unsafe :
    let early : Kern := { kWrap with head := kWrap.tail }
    (early.step (.post wb)).mem 1 = wb ∧ kWrap.mem 1 = wa ∧ wa ≠ wb ∧
    -- whereas with the head still published as it is, the same move is refused
    (kWrap.step (.post wb)).mem 1 = wa := by
  decide

/-! ### Non-vacuity -/

/-- `Inv` holds for a wrapped, full, two-entry ring (above) and for fresh rings
of every size with any initial counter; the hypotheses of `C05_poll` and
`C05_full` are met by concrete reachable states. -/
example : Inv (Kern.fresh 3 4294967290 (fun _ => junk)) 4294967290 := fresh_inv _ _ _ (by decide)

/-- A concrete run across the wrap: the kernel publishes a wake-up, a
multishot result and a padding entry (the third post does not fit and is
refused), a call processes the two, a second call enters the kernel, which
publishes two more entries *during* the call; bookkeeping entries reach no
operation. -/
example :
    let rs : List Round :=
      [.kernel [.post ⟨1, 0, 0⟩, .post wb, .post ⟨99, 5, 32⟩], .poll {},
       .poll { duringEnter := [.post ⟨99, 5, 32⟩, .post wa] }]
    let r := run true (Kern.fresh 1 4294967295 (fun _ => junk)) rs
    entries r.2 = [⟨1, 0, 0⟩, wb, ⟨99, 5, 32⟩, wa] ∧
    delivered r.2 = [(32, true, 9, 2), (16, false, 7, 0)] ∧
    r.1.head = 3 := by decide

example : classify ⟨2, -2, 0⟩ = .cancelQuiet ∧ classify ⟨2, -5, 0⟩ = .cancelWarn ∧
    classify ⟨3, 0, 0⟩ = .close ∧ classify ⟨0, 0, 0⟩ = .noUserData ∧
    classify ⟨48, 1, 32⟩ = .skip ∧ classify ⟨49, 1, 2⟩ = .dispatch 48 true := by decide

end A10.CqRing
