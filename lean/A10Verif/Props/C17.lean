/-
C17 — Filesystem-watch event streams are decoded exactly.

Statement (properties.jsonl): for every well-formed batch of kernel watch
events delivered to a Watcher, the Events iterator yields exactly the
user-visible events in order, each with the mask, the file name without
padding and the full path of its watched entry; it forgets a watch when the
kernel says it was removed, skips overflow markers, and never reads outside
the bytes the kernel wrote, however the kernel batches whole events into
successive reads. Every event handed out stays valid and unchanged for as long
as safe code is still able to use it.

Model: `A10Verif/Model/Inotify.lean` (tied to src/inotify/mod.rs and
src/fs/notify.rs by the `inotify` correspondence component).

Result: the decode clause holds (`C17_decode`, `C17_spec_events`,
`C17_batching`, `C17_path_for`, `C17_ignored_forgets`, `C17_walk_fuel`,
`C17_nul_name`, `C17_mem_is_buffer`), for debug and release profiles alike (`dbg`). The lifetime
clause does NOT hold for the code as it stands: `C17_lifetime_full` is kept as
a `def`, `C17_lifetime_full_fails` refutes it with a concrete history,
`C17_lifetime_partial` proves what does hold (an event is intact until the
next `poll_next` that leaves `processing` or until the iterator is dropped).
-/
import A10Verif.Model.Inotify

namespace A10.Inotify

/-! ## Decoding -/


theorem rd32_at (pre rest : List Nat) (x : Nat) (hx : x < 4294967296) :
    rd32 (pre ++ (le32 x ++ rest)) pre.length = x := by
  simp [rd32, le32, List.getD_eq_getElem?_getD]
  omega

theorem le32_length (x : Nat) : (le32 x).length = 4 := rfl

theorem encode_length (r : Record) : (encode r).length = HDR + r.len := by
  simp [encode, le32_length, Record.len, HDR]; omega

def WFRecord (r : Record) : Prop :=
  r.wd < 4294967296 ∧ r.mask < 4294967296 ∧ r.cookie < 4294967296 ∧ r.len < 4294967296 ∧
  r.name.getLast? ≠ some 0 ∧ (r.name = [] → r.pad = 0)

instance (r : Record) : Decidable (WFRecord r) := by unfold WFRecord; infer_instance

theorem rposition_zeros (k : Nat) : rposition (fun b => b != 0) (List.replicate k 0) = none := by
  induction k with
  | zero => rfl
  | succ k ih => simp [List.replicate_succ, rposition, ih]

theorem rposition_name (name : List Nat) (k : Nat) (hne : name ≠ [])
    (hlast : name.getLast? ≠ some 0) :
    rposition (fun b => b != 0) (name ++ List.replicate k 0) = some (name.length - 1) := by
  induction name with
  | nil => exact absurd rfl hne
  | cons x xs ih =>
    cases xs with
    | nil =>
      have hx : x ≠ 0 := by simpa using hlast
      simp [rposition, rposition_zeros, hx]
    | cons y ys =>
      have h2 : (y :: ys).getLast? ≠ some 0 := by simpa [List.getLast?_cons_cons] using hlast
      have := ih (by simp) h2
      simp only [List.cons_append] at this ⊢
      rw [rposition, this]
      simp

theorem pathLen_encoded (name : List Nat) (pad : Nat) (hlast : name.getLast? ≠ some 0)
    (hpad : name = [] → pad = 0) :
    pathLen (name ++ List.replicate pad 0) (name.length + pad) = name.length := by
  by_cases hne : name = []
  · subst hne
    simp [hpad rfl, pathLen, rposition]
  · have := rposition_name name pad hne hlast
    have hpos : 0 < name.length := List.length_pos_iff.mpr hne
    simp [pathLen, this]; omega

/-- The buffer around one record: the four header fields and the name region. -/
theorem fields_at (pre post : List Nat) (r : Record) (h : WFRecord r) :
    let buf := pre ++ (encode r ++ post)
    rd32 buf pre.length = r.wd ∧ rd32 buf (pre.length + 4) = r.mask ∧
    rd32 buf (pre.length + 8) = r.cookie ∧ rd32 buf (pre.length + 12) = r.len ∧
    (buf.drop (pre.length + HDR)).take r.len = r.name ++ List.replicate r.pad 0 := by
  obtain ⟨h1, h2, h3, h4, _, _⟩ := h
  intro buf
  refine ⟨?_, ?_, ?_, ?_, ?_⟩
  · simpa [buf, encode] using rd32_at pre _ r.wd h1
  · have := rd32_at (pre ++ le32 r.wd) (le32 r.cookie ++ (le32 r.len ++ (r.name ++ List.replicate r.pad 0)) ++ post) r.mask h2
    simpa [buf, encode, le32_length] using this
  · have := rd32_at (pre ++ le32 r.wd ++ le32 r.mask) ((le32 r.len ++ (r.name ++ List.replicate r.pad 0)) ++ post) r.cookie h3
    simpa [buf, encode, le32_length] using this
  · have := rd32_at (pre ++ le32 r.wd ++ le32 r.mask ++ le32 r.cookie) ((r.name ++ List.replicate r.pad 0) ++ post) r.len h4
    simpa [buf, encode, le32_length, Nat.add_assoc] using this
  · have e : buf = (pre ++ le32 r.wd ++ le32 r.mask ++ le32 r.cookie ++ le32 r.len) ++ ((r.name ++ List.replicate r.pad 0) ++ post) := by
      simp [buf, encode]
    have l : (pre ++ le32 r.wd ++ le32 r.mask ++ le32 r.cookie ++ le32 r.len).length = pre.length + HDR := by
      simp [le32_length, HDR]
    rw [e, ← l, List.drop_left]
    have : r.len = (r.name ++ List.replicate r.pad 0).length := by simp [Record.len]
    rw [this, List.take_left]


theorem walk_step (dbg : Bool) (fuel : Nat) (pre post : List Nat) (r : Record) (w : Watches)
    (oob : Bool) (h : WFRecord r) :
    walk dbg (fuel + 1) (pre ++ (encode r ++ post)) pre.length w oob =
      if isIgnored r.mask then
        walk dbg fuel (pre ++ (encode r ++ post)) (pre.length + r.size) (remove w r.wd) oob
      else if isOverflow r.mask then
        walk dbg fuel (pre ++ (encode r ++ post)) (pre.length + r.size) w oob
      else .event (pre.length + r.size) w oob ⟨pre.length, r.wd, r.mask, r.cookie, r.name⟩ := by
  obtain ⟨f1, f2, f3, f4, f5⟩ := fields_at pre post r h
  have hl : (pre ++ (encode r ++ post)).length = pre.length + (HDR + r.len) + post.length := by
    simp [encode_length]; omega
  have c1 : (pre ++ (encode r ++ post)).length > pre.length := by rw [hl]; simp [HDR]; omega
  have c2 : ¬ ((pre ++ (encode r ++ post)).length < pre.length + HDR) := by rw [hl]; omega
  have c3 : ¬ ((pre ++ (encode r ++ post)).length < pre.length + HDR + r.len) := by rw [hl]; omega
  have hs : pre.length + r.size = pre.length + HDR + r.len := by simp [Record.size]; omega
  have hp := pathLen_encoded r.name r.pad h.2.2.2.2.1 h.2.2.2.2.2
  rw [walk]
  simp only [c1, ↓reduceIte, f4, f2, f1, f3, f5, c2, c3, decide_false, Bool.and_false,
    Bool.or_false, Bool.false_eq_true, hs]
  split
  · rfl
  · split
    · rfl
    · have : r.len = r.name.length + r.pad := rfl
      rw [this, hp]
      simp


/-- Specification of the walk: skip IGNORED (forgetting the watch) and OVERFLOW
records; the first other record is the event. Also returns the offset after
it and the records still to come. -/
def specNext (off : Nat) (w : Watches) : List Record → Watches × Option (Event × Nat × List Record)
  | [] => (w, none)
  | r :: rs =>
    if isIgnored r.mask then specNext (off + r.size) (remove w r.wd) rs
    else if isOverflow r.mask then specNext (off + r.size) w rs
    else (w, some (⟨off, r.wd, r.mask, r.cookie, r.name⟩, off + r.size, rs))

theorem encodeAll_length_ge (rs : List Record) : rs.length ≤ (encodeAll rs).length := by
  induction rs with
  | nil => simp [encodeAll]
  | cons r rs ih => simp [encodeAll, encode_length, HDR]; omega

theorem walk_spec (dbg : Bool) (rs : List Record) :
    ∀ (fuel : Nat) (pre : List Nat) (w : Watches) (oob : Bool),
      (∀ r ∈ rs, WFRecord r) → rs.length < fuel →
      walk dbg fuel (pre ++ encodeAll rs) pre.length w oob =
        match specNext pre.length w rs with
        | (w', none) => .exhausted w' oob
        | (w', some (e, off', _)) => .event off' w' oob e := by
  induction rs with
  | nil =>
    intro fuel pre w oob _ hf
    cases fuel with
    | zero => omega
    | succ fuel => simp [encodeAll, specNext, walk]
  | cons r rs ih =>
    intro fuel pre w oob hwf hf
    cases fuel with
    | zero => omega
    | succ fuel =>
      have hr : WFRecord r := hwf r (by simp)
      have hrs : ∀ x ∈ rs, WFRecord x := fun x hx => hwf x (by simp [hx])
      have hf' : rs.length < fuel := by simp at hf; omega
      simp only [encodeAll, specNext]
      rw [walk_step dbg fuel pre (encodeAll rs) r w oob hr]
      have hpre : pre ++ (encode r ++ encodeAll rs) = (pre ++ encode r) ++ encodeAll rs := by simp
      have hlen : (pre ++ encode r).length = pre.length + r.size := by
        simp [encode_length, Record.size]
      split
      · rw [hpre, ← hlen]; exact ih fuel (pre ++ encode r) _ oob hrs hf'
      · split
        · rw [hpre, ← hlen]; exact ih fuel (pre ++ encode r) _ oob hrs hf'
        · rfl


/-- What `poll_next` hands to the caller. -/
inductive Item where
  | ev (e : Event) (path : List Nat)
  | eof
  | err (errno : Nat)
  | panic (which : Nat)
  | bad
  deriving Repr, DecidableEq

/-- The caller polls until the iterator has nothing more to say for now
(`Pending`), ends or fails; `path_for` is called on every event at once. -/
def drain (dbg : Bool) : Nat → St → St × List Item
  | 0, s => (s, [])
  | n + 1, s =>
    match pollNext dbg s with
    | (s', .event e) => ((drain dbg n s').1, .ev e (pathFor s'.watches e) :: (drain dbg n s').2)
    | (s', .pending) => (s', [])
    | (s', .none) => (s', [.eof])
    | (s', .err e) => (s', [.err e])
    | (s', .panic k) => (s', [.panic k])
    | (s', .badState) => (s', [.bad])

/-- Specification of one read of whole records starting at offset `off`. -/
def specBatch (off : Nat) (w : Watches) : List Record → Watches × List Item
  | [] => (w, [])
  | r :: rs =>
    if isIgnored r.mask then specBatch (off + r.size) (remove w r.wd) rs
    else if isOverflow r.mask then specBatch (off + r.size) w rs
    else
      ((specBatch (off + r.size) w rs).1,
        .ev ⟨off, r.wd, r.mask, r.cookie, r.name⟩ (pathFor w ⟨off, r.wd, r.mask, r.cookie, r.name⟩)
          :: (specBatch (off + r.size) w rs).2)

theorem specBatch_eq (rs : List Record) : ∀ (off : Nat) (w : Watches),
    specBatch off w rs =
      match specNext off w rs with
      | (w', none) => (w', [])
      | (w', some (e, off', rest)) =>
        ((specBatch off' w' rest).1, .ev e (pathFor w' e) :: (specBatch off' w' rest).2) := by
  induction rs with
  | nil => intro off w; rfl
  | cons r rs ih =>
    intro off w
    simp only [specBatch, specNext]
    split
    · exact ih _ _
    · split
      · exact ih _ _
      · rfl

theorem specNext_some (rs : List Record) : ∀ (off : Nat) (w w' : Watches) (e : Event) (off' : Nat)
    (rest : List Record), specNext off w rs = (w', some (e, off', rest)) →
    ∃ mid, encodeAll rs = mid ++ encodeAll rest ∧ off' = off + mid.length ∧
      rest.length < rs.length ∧ (∀ r ∈ rest, r ∈ rs) := by
  induction rs with
  | nil => intro off w w' e off' rest h; simp [specNext] at h
  | cons r rs ih =>
    intro off w w' e off' rest h
    simp only [specNext] at h
    have hl : (encode r).length = r.size := by simp [encode_length, Record.size]
    split at h
    · obtain ⟨mid, h1, h2, h3, h4⟩ := ih _ _ _ _ _ _ h
      refine ⟨encode r ++ mid, by simp [encodeAll, h1], by simp [h2, hl]; omega, by simp; omega,
        fun x hx => by simp [h4 x hx]⟩
    · split at h
      · obtain ⟨mid, h1, h2, h3, h4⟩ := ih _ _ _ _ _ _ h
        refine ⟨encode r ++ mid, by simp [encodeAll, h1], by simp [h2, hl]; omega, by simp; omega,
          fun x hx => by simp [h4 x hx]⟩
      · simp only [Prod.mk.injEq, Option.some.injEq] at h
        obtain ⟨_, _, h2, h3⟩ := h
        subst h2 h3
        exact ⟨encode r, by simp [encodeAll], by simp [hl], by simp, fun x hx => by simp [hx]⟩

theorem drain_processing (dbg : Bool) : ∀ (n : Nat) (rs : List Record) (pre : List Nat) (s : St),
    s.iter = some (.processing (pre ++ encodeAll rs) pre.length) →
    (∀ r ∈ rs, WFRecord r) → rs.length < n →
    (drain dbg n s).2 = (specBatch pre.length s.watches rs).2 ∧
    (drain dbg n s).1.watches = (specBatch pre.length s.watches rs).1 ∧
    (drain dbg n s).1.iter = some (.reading true none) ∧
    (drain dbg n s).1.oob = s.oob ∧ (drain dbg n s).1.orphan = s.orphan := by
  intro n
  induction n with
  | zero => intro rs pre s _ _ h; omega
  | succ n ih =>
    intro rs pre s hiter hwf hn
    have hfuel : rs.length < (pre ++ encodeAll rs).length + 1 := by
      have := encodeAll_length_ge rs
      simp; omega
    have hw := walk_spec dbg rs ((pre ++ encodeAll rs).length + 1) pre s.watches s.oob hwf hfuel
    rw [specBatch_eq]
    rw [drain]
    simp only [pollNext, hiter, processStep, hw]
    rcases hsn : specNext pre.length s.watches rs with ⟨w', _ | ⟨e, off', rest⟩⟩
    · simp
    · obtain ⟨mid, h1, h2, h3, h4⟩ := specNext_some rs _ _ _ _ _ _ hsn
      simp only
      have hbuf : pre ++ encodeAll rs = (pre ++ mid) ++ encodeAll rest := by simp [h1]
      have hoff : off' = (pre ++ mid).length := by simp [h2]
      have := ih rest (pre ++ mid)
        { s with
          iter := some (.processing (pre ++ encodeAll rs) off'), watches := w', oob := s.oob
          kept := s.kept ++ [{ gen := s.gen, off := e.off, len := HDR + e.name.length,
                               bytes := (s.mem.drop e.off).take (HDR + e.name.length) }] }
        (by simp [hbuf, hoff]) (fun r hr => hwf r (h4 r hr)) (by omega)
      simp only [hoff] at this ⊢
      obtain ⟨t1, t2, t3, t4, t5⟩ := this
      exact ⟨by rw [t1], t2, t3, t4, t5⟩


/-- What the kernel answers to one READ: whole records (possibly none: an
empty read), or an error. -/
inductive ReadSpec where
  | batch (rs : List Record)
  | fail (errno : Nat)
  deriving Repr, DecidableEq

def ReadSpec.res : ReadSpec → ReadRes
  | .batch rs => .ok (encodeAll rs)
  | .fail e => .err e

def ReadSpec.fuel : ReadSpec → Nat
  | .batch rs => rs.length + 2
  | .fail _ => 2

/-- Drive the iterator through successive reads: the kernel completes the
READ in flight, the caller polls until `Pending` (or the end), and so on as
long as the iterator asks for more. -/
def runStream (dbg : Bool) : St → List ReadSpec → St × List Item
  | s, [] => (s, [])
  | s, r :: rest =>
    let d := drain dbg r.fuel (complete s r.res).1
    if d.1.iter = some (.reading true none) then
      ((runStream dbg d.1 rest).1, d.2 ++ (runStream dbg d.1 rest).2)
    else d

/-- Specification of a whole stream. -/
def specStream (w : Watches) : List ReadSpec → Watches × List Item
  | [] => (w, [])
  | .fail e :: rest => if restartable e then specStream w rest else (w, [.err e])
  | .batch [] :: _ => (w, [.eof])
  | .batch (r :: rs) :: rest =>
    ((specStream (specBatch 0 w (r :: rs)).1 rest).1,
      (specBatch 0 w (r :: rs)).2 ++ (specStream (specBatch 0 w (r :: rs)).1 rest).2)

def WFRead : ReadSpec → Prop
  | .batch rs => ∀ r ∈ rs, WFRecord r
  | .fail _ => True

theorem encode_ne_nil (r : Record) : encode r ≠ [] := by
  intro h
  have := congrArg List.length h
  simp [encode_length, HDR] at this

/-- **Decode clause.** For every stream of well-formed records, every way of
batching them into successive reads (whole records per read, empty reads, read
errors, restarted reads), in the debug and the release profile: polling the
iterator yields exactly what the specification `specStream` says — the
non-IGNORED non-OVERFLOW records in order, each with its offset, descriptor,
mask, cookie, name without padding and `path_for` taken at once —, the watch
table ends up as the specification says (IGNORED forgets the watch), no debug
assertion fires (no `panic` item) and no byte outside the buffer is read. -/
theorem C17_decode (dbg : Bool) (reads : List ReadSpec) : ∀ (s : St),
    s.iter = some (.reading true none) → s.oob = false →
    (∀ r ∈ reads, WFRead r) →
    (runStream dbg s reads).2 = (specStream s.watches reads).2 ∧
    (runStream dbg s reads).1.watches = (specStream s.watches reads).1 ∧
    (runStream dbg s reads).1.oob = false := by
  induction reads with
  | nil => intro s _ ho _; simp [runStream, specStream, ho]
  | cons r rest ih =>
    intro s hiter hoob hwf
    have hrest : ∀ x ∈ rest, WFRead x := fun x hx => hwf x (by simp [hx])
    cases r with
    | fail e =>
      by_cases he : restartable e = true
      · have hd : drain dbg 2 (complete s (.err e)).1 =
            ({ s with iter := some (.reading true none), kernel := true }, []) := by
          simp [drain, complete, hiter, pollNext, he, memAfter]
        have := ih { s with iter := some (.reading true none), kernel := true } rfl hoob hrest
        simp only [runStream, ReadSpec.res, ReadSpec.fuel, hd, specStream, he, ↓reduceIte]
        simpa using this
      · have hd : drain dbg 2 (complete s (.err e)).1 =
            ({ s with iter := some .done, live := false, kernel := false }, [.err e]) := by
          simp [drain, complete, hiter, pollNext, he, memAfter]
        simp [runStream, ReadSpec.res, ReadSpec.fuel, hd, specStream, he, hoob]
    | batch rs =>
      cases rs with
      | nil =>
        have hd : drain dbg 2 (complete s (.ok [])).1 =
            ({ s with iter := some .done, mem := memAfter s.mem (.ok []), live := false, kernel := false },
              [.eof]) := by
          simp [drain, complete, hiter, pollNext]
        simp [runStream, ReadSpec.res, ReadSpec.fuel, hd, specStream, encodeAll, hoob]
      | cons r0 rs0 =>
        have hne : (encodeAll (r0 :: rs0)).isEmpty = false := by
          have := encode_ne_nil r0
          cases h : encode r0 with
          | nil => exact absurd h this
          | cons a l => simp [encodeAll, h]
        -- the first poll turns the completed read into `processing bytes 0`
        let s1 : St := { s with
          iter := some (.processing (encodeAll (r0 :: rs0)) 0)
          mem := memAfter s.mem (.ok (encodeAll (r0 :: rs0))), kernel := false }
        have hstep : drain dbg ((r0 :: rs0).length + 2) (complete s (.ok (encodeAll (r0 :: rs0)))).1 =
            drain dbg ((r0 :: rs0).length + 2) s1 := by
          rw [drain, drain]
          simp [complete, hiter, pollNext, hne, s1]
        have hp := drain_processing dbg ((r0 :: rs0).length + 2) (r0 :: rs0) [] s1
          (by simp [s1]) (hwf (.batch (r0 :: rs0)) (by simp)) (by omega)
        obtain ⟨p1, p2, p3, p4, p5⟩ := hp
        simp only [List.length_nil] at p1 p2
        have hw1 : s1.watches = s.watches := rfl
        have ho1 : s1.oob = s.oob := rfl
        simp only [runStream, ReadSpec.res, ReadSpec.fuel, hstep, p3, ↓reduceIte, specStream]
        have := ih (drain dbg ((r0 :: rs0).length + 2) s1).1 p3 (by rw [p4, ho1, hoob]) hrest
        obtain ⟨q1, q2, q3⟩ := this
        rw [p2, hw1] at q1 q2
        refine ⟨by rw [p1, q1, hw1], q2, q3⟩


/-! ## Fuel, lifetime -/


/-- The fuel of `walk` is a formality: started with `buf.length + 1` (as
`processStep` does) it never runs out, for any buffer whatsoever. -/
theorem C17_walk_fuel (dbg : Bool) : ∀ (fuel : Nat) (buf : List Nat) (p : Nat) (w : Watches) (oob : Bool),
    1 ≤ fuel → buf.length < fuel + p →
    ∀ p' w' o', walk dbg fuel buf p w oob ≠ .panic 0 p' w' o' := by
  intro fuel
  induction fuel with
  | zero => intro buf p w oob h; omega
  | succ fuel ih =>
    intro buf p w oob _ hlt p' w' o'
    rw [walk]
    split
    · rename_i hgt
      have hf : 1 ≤ fuel := by omega
      have hlt' : ∀ len, buf.length < fuel + (p + HDR + len) := by intro len; simp [HDR]; omega
      split
      · simp
      · simp only
        split
        · simp
        · split
          · exact ih _ _ _ _ hf (hlt' _) _ _ _
          · split
            · exact ih _ _ _ _ hf (hlt' _) _ _ _
            · simp
    · simp

def isProcessing : Option EvState → Bool
  | some (.processing _ _) => true
  | _ => false

/-- The handed-out event still denotes the bytes it denoted, in memory that is
allocated and not handed to the kernel. -/
def intact (s : St) (h : Handed) : Prop :=
  s.live = true ∧ s.kernel = false ∧ snapOk s h = true

instance (s : St) (h : Handed) : Decidable (intact s h) := by unfold intact; infer_instance

/-- Since the event was handed out, no `poll_next` has left `processing`
(handing the buffer back) and the iterator has not been dropped. -/
def current (s : St) (h : Handed) : Prop := h.gen = s.gen ∧ s.iter.isSome = true

instance (s : St) (h : Handed) : Decidable (current s h) := by unfold current; infer_instance

def stateOk (s : St) : Prop :=
  match s.iter with
  | some (.processing _ _) => s.live = true ∧ s.kernel = false
  | some (.reading _ (some _)) => s.live = true ∧ s.kernel = false
  | some (.reading _ none) => s.live = true
  | _ => True

def Inv (s : St) : Prop :=
  stateOk s ∧ ∀ h ∈ s.kept, h.gen ≤ s.gen ∧
    (h.gen = s.gen → s.iter.isSome = true → isProcessing s.iter = true ∧ snapOk s h = true)

theorem inv_init : Inv init := by simp [Inv, init, stateOk]

theorem inv_processStep (dbg : Bool) (s : St) (buf : List Nat) (p : Nat)
    (hi : s.iter = some (.processing buf p)) (h : Inv s) : Inv (processStep dbg s buf p).1 := by
  obtain ⟨hs, hk⟩ := h
  simp only [stateOk, hi] at hs
  unfold processStep
  split
  · -- event
    refine ⟨by simp [stateOk, hs], ?_⟩
    intro h hh
    simp only [List.mem_append, List.mem_singleton] at hh
    rcases hh with hh | hh
    · have := hk h hh
      simp only [hi, Option.isSome_some, isProcessing, snapOk, forall_const, true_and] at this ⊢
      exact this
    · subst hh
      simp [isProcessing, snapOk]
  · -- exhausted: every kept event is now of an older generation
    refine ⟨by simp [stateOk, hs], ?_⟩
    intro h hh
    have := (hk h hh).1
    simp only
    exact ⟨by omega, by intro; omega⟩
  · -- panic
    refine ⟨by simp [stateOk, hs], ?_⟩
    intro h hh
    have := hk h hh
    simp only [hi, Option.isSome_some, isProcessing, snapOk, forall_const, true_and] at this ⊢
    exact this

theorem inv_not_processing (s : St) (h : Inv s) (hs : s.iter.isSome = true)
    (hp : isProcessing s.iter = false) : ∀ k ∈ s.kept, k.gen ≤ s.gen ∧ k.gen ≠ s.gen := by
  intro k hk
  obtain ⟨h1, h2⟩ := h.2 k hk
  refine ⟨h1, fun he => ?_⟩
  have := (h2 he hs).1
  simp [hp] at this

theorem inv_pollNext (dbg : Bool) (s : St) (h : Inv s) : Inv (pollNext dbg s).1 := by
  unfold pollNext
  split
  · exact h
  · exact h
  · -- reading false: queue the READ
    rename_i res hi
    have hn := inv_not_processing s h (by simp [hi]) (by simp [hi, isProcessing])
    have hs := h.1
    have hl : s.live = true := by
      cases res <;> simp_all [stateOk]
    refine ⟨by simp [stateOk, hl], ?_⟩
    intro k hk
    exact ⟨(hn k hk).1, fun he => absurd he (hn k hk).2⟩
  · exact h
  · -- error
    rename_i e hi
    have hn := inv_not_processing s h (by simp [hi]) (by simp [hi, isProcessing])
    have hs := h.1
    simp only [stateOk, hi] at hs
    split
    · refine ⟨by simp [stateOk, hs], ?_⟩
      intro k hk
      exact ⟨(hn k hk).1, fun he => absurd he (hn k hk).2⟩
    · refine ⟨by simp [stateOk], ?_⟩
      intro k hk
      exact ⟨(hn k hk).1, fun he => absurd he (hn k hk).2⟩
  · -- data
    rename_i bytes hi
    have hn := inv_not_processing s h (by simp [hi]) (by simp [hi, isProcessing])
    have hs := h.1
    simp only [stateOk, hi] at hs
    split
    · refine ⟨by simp [stateOk], ?_⟩
      intro k hk
      exact ⟨(hn k hk).1, fun he => absurd he (hn k hk).2⟩
    · apply inv_processStep dbg _ bytes 0 rfl
      refine ⟨by simp [stateOk, hs], ?_⟩
      intro k hk
      exact ⟨(hn k hk).1, fun he => absurd he (hn k hk).2⟩
  · rename_i buf p hi
    exact inv_processStep dbg s buf p hi h


theorem inv_opWatch (s : St) (wd : Nat) (path : List Nat) (ok : Bool) (h : Inv s) :
    Inv (opWatch s wd path ok) := by
  unfold opWatch
  by_cases hi : s.iter.isSome = true
  · simp only [hi, ↓reduceIte]
    split
    · exact h
    · exact h
  · have hn : s.iter = none := by simpa using hi
    simp only [hi]
    split <;> simp [Inv, stateOk, hn]

theorem inv_opEvents (s s' : St) (he : opEvents s = some s') : Inv s' := by
  unfold opEvents at he
  split at he
  · simp at he
  · simp only [Option.some.injEq] at he
    subst he
    simp [Inv, stateOk]

theorem inv_complete (s : St) (r : ReadRes) (h : Inv s) : Inv (complete s r).1 := by
  unfold complete
  split
  · rename_i hi
    have hn := inv_not_processing s h (by simp [hi]) (by simp [hi, isProcessing])
    have hs := h.1
    simp only [stateOk, hi] at hs
    refine ⟨by simp [stateOk, hs], ?_⟩
    intro k hk
    exact ⟨(hn k hk).1, fun he => absurd he (hn k hk).2⟩
  · rename_i hi _
    refine ⟨by simp [stateOk, hi], ?_⟩
    intro k hk
    exact ⟨(h.2 k hk).1, by simp [hi]⟩
  · exact h

theorem inv_dropEvents (s s' : St) (h : Inv s) (he : dropEvents s = some s') : Inv s' := by
  unfold dropEvents at he
  split at he
  · simp at he
  all_goals
    simp only [Option.some.injEq] at he
    subst he
    refine ⟨by simp [stateOk], ?_⟩
    intro k hk
    exact ⟨(h.2 k hk).1, by simp⟩

theorem inv_applyOp (dbg : Bool) (s : St) (op : Op) (h : Inv s) : Inv (applyOp dbg s op) := by
  cases op with
  | watch wd path ok => exact inv_opWatch s wd path ok h
  | events =>
    simp only [applyOp]
    cases he : opEvents s with
    | none => exact h
    | some s' => exact inv_opEvents s s' he
  | poll => exact inv_pollNext dbg s h
  | complete r => exact inv_complete s r h
  | dropEvents =>
    simp only [applyOp]
    cases he : dropEvents s with
    | none => exact h
    | some s' => exact inv_dropEvents s s' h he
  | check => exact h

theorem inv_run (dbg : Bool) (ops : List Op) : ∀ s, Inv s → Inv (run dbg s ops) := by
  induction ops with
  | nil => intro s h; exact h
  | cons op ops ih => intro s h; exact ih _ (inv_applyOp dbg s op h)

/-- Full lifetime clause: every event handed out stays valid and unchanged for
as long as safe code is still able to use it, i.e. as long as the borrow `'w`
of the `Watcher` lasts (`kept` is emptied exactly when that borrow ends). -/
def C17_lifetime_full : Prop :=
  ∀ (dbg : Bool) (ops : List Op), ∀ h ∈ (run dbg init ops).kept, intact (run dbg init ops) h

theorem C17_lifetime_partial (dbg : Bool) (ops : List Op) :
    ∀ h ∈ (run dbg init ops).kept, current (run dbg init ops) h → intact (run dbg init ops) h := by
  intro h hk ⟨hg, hs⟩
  have hinv := inv_run dbg ops init inv_init
  obtain ⟨_, h2⟩ := hinv.2 h hk
  obtain ⟨hp, hsnap⟩ := h2 hg hs
  have hst := hinv.1
  unfold stateOk at hst
  unfold isProcessing at hp
  split at hp
  · rename_i hi
    simp only [hi] at hst
    exact ⟨hst.1, hst.2, hsnap⟩
  · simp at hp

/-- `/tmp/a10v-inotify/w0`, the directory the replay watches. -/
def wpath : List Nat := [47, 116, 109, 112, 47, 97, 49, 48, 118, 45, 105, 110, 111, 116, 105, 102, 121, 47, 119, 48]

def rec1 : Record := { wd := 1, mask := 0x100, cookie := 0, name := [97, 98, 99], pad := 13 }
def rec2 : Record := { wd := 1, mask := 0x200, cookie := 0, name := [120, 121], pad := 14 }

/-- Witness 1: the iterator is dropped while the caller still holds the event. -/
def witnessDrop : List Op :=
  [.watch 1 wpath true, .events, .poll, .complete (.ok (encode rec1)), .poll, .dropEvents]

/-- Witness 2: the next `poll_next` hands the buffer back to the kernel, which
writes the next batch over the event. -/
def witnessOverwrite : List Op :=
  [.watch 1 wpath true, .events, .poll, .complete (.ok (encode rec1)), .poll, .poll,
   .complete (.ok (encode rec2))]

theorem C17_lifetime_full_fails : ¬ C17_lifetime_full := by
  intro h
  have := h true witnessDrop
  revert this
  decide


/-- Witness 2 really is one: after the second completion the first event no
longer denotes the bytes it denoted. -/
example : ∃ h ∈ (run true init witnessOverwrite).kept,
    (run true init witnessOverwrite).live = true ∧ snapOk (run true init witnessOverwrite) h = false := by
  decide

/-- The ghost generation only moves when the buffer is handed back to the
kernel (a `poll_next` that leaves `processing` and returns `Pending` with the
next READ queued) — which justifies reading `current` as "no `poll_next` has
left `processing` since". -/
theorem C17_gen_bump (dbg : Bool) (s : St) (h : (pollNext dbg s).1.gen ≠ s.gen) :
    (pollNext dbg s).1.iter = some (.reading true none) ∧ (pollNext dbg s).2 = .pending ∧
      (pollNext dbg s).1.kernel = true := by
  revert h
  unfold pollNext
  split <;> try simp
  · split <;> simp
  · split
    · simp
    · unfold processStep; split <;> simp
  · unfold processStep; split <;> simp

/-! ## The specification itself -/

/-- User-visible records. -/
def visible (r : Record) : Bool := !isIgnored r.mask && !isOverflow r.mask

def Item.core : Item → Option (Nat × Nat × Nat × List Nat)
  | .ev e _ => some (e.wd, e.mask, e.cookie, e.name)
  | _ => none

/-- `specBatch` says what the property says: the events are exactly the
non-IGNORED non-OVERFLOW records, in order, with descriptor, mask, cookie and
the name without its padding; nothing else is yielded; the watch table loses
exactly the descriptors of the IGNORED records. -/
theorem C17_spec_events (rs : List Record) : ∀ (off : Nat) (w : Watches),
    (specBatch off w rs).2.filterMap Item.core
        = (rs.filter visible).map (fun r => (r.wd, r.mask, r.cookie, r.name)) ∧
    (specBatch off w rs).2.length = (rs.filter visible).length ∧
    (specBatch off w rs).1 = rs.foldl (fun w r => if isIgnored r.mask then remove w r.wd else w) w := by
  induction rs with
  | nil => intro off w; simp [specBatch]
  | cons r rs ih =>
    intro off w
    simp only [specBatch]
    split
    · rename_i h
      simpa [visible, h] using ih (off + r.size) (remove w r.wd)
    · rename_i h
      split
      · rename_i h2
        simpa [visible, h, h2] using ih (off + r.size) w
      · rename_i h2
        obtain ⟨i1, i2, i3⟩ := ih (off + r.size) w
        simp [visible, h, h2, Item.core, i1, i2, i3]

/-- Forget the buffer offset of an event (it depends on the batching). -/
def Item.info : Item → Item
  | .ev e p => .ev { e with off := 0 } p
  | i => i

theorem specBatch_off (rs : List Record) : ∀ (off off' : Nat) (w : Watches),
    (specBatch off w rs).1 = (specBatch off' w rs).1 ∧
    (specBatch off w rs).2.map Item.info = (specBatch off' w rs).2.map Item.info := by
  induction rs with
  | nil => intro off off' w; simp [specBatch]
  | cons r rs ih =>
    intro off off' w
    simp only [specBatch]
    split
    · exact ih _ _ _
    · split
      · exact ih _ _ _
      · obtain ⟨i1, i2⟩ := ih (off + r.size) (off' + r.size) w
        simp [i1, i2, Item.info, pathFor]

theorem specBatch_append (a b : List Record) : ∀ (off off2 : Nat) (w : Watches),
    (specBatch off w (a ++ b)).1 = (specBatch off2 (specBatch off w a).1 b).1 ∧
    (specBatch off w (a ++ b)).2.map Item.info =
      (specBatch off w a).2.map Item.info ++ (specBatch off2 (specBatch off w a).1 b).2.map Item.info := by
  induction a with
  | nil => intro off off2 w; simpa [specBatch] using specBatch_off b off off2 w
  | cons r a ih =>
    intro off off2 w
    simp only [List.cons_append, specBatch]
    split
    · exact ih _ _ _
    · split
      · exact ih _ _ _
      · obtain ⟨i1, i2⟩ := ih (off + r.size) off2 w
        simp [i1, i2]

/-- **Batching does not matter.** However the kernel cuts a stream of records
into successive non-empty reads of whole records, the specification (hence, by
`C17_decode`, the iterator) yields the same events with the same paths and
ends with the same watch table as for the whole stream delivered in one read. -/
theorem C17_batching (batches : List (List Record)) (hne : ∀ b ∈ batches, b ≠ []) :
    ∀ (w : Watches),
    (specStream w (batches.map .batch)).1 = (specBatch 0 w batches.flatten).1 ∧
    (specStream w (batches.map .batch)).2.map Item.info
      = (specBatch 0 w batches.flatten).2.map Item.info := by
  induction batches with
  | nil => intro w; simp [specStream, specBatch]
  | cons b bs ih =>
    intro w
    have hb : b ≠ [] := hne b (by simp)
    have hbs : ∀ x ∈ bs, x ≠ [] := fun x hx => hne x (by simp [hx])
    cases b with
    | nil => exact absurd rfl hb
    | cons r rs =>
      obtain ⟨i1, i2⟩ := ih hbs (specBatch 0 w (r :: rs)).1
      obtain ⟨a1, a2⟩ := specBatch_append (r :: rs) bs.flatten 0 0 w
      simp only [List.map_cons, specStream, List.flatten_cons, List.map_append]
      exact ⟨by rw [i1, a1], by rw [i2, a2]⟩

/-- IN_IGNORED forgets exactly that watch. -/
theorem C17_ignored_forgets (w : Watches) (wd : Nat) :
    lookup (remove w wd) wd = none ∧ ∀ wd', wd' ≠ wd → lookup (remove w wd) wd' = lookup w wd' := by
  induction w with
  | nil => simp [remove, lookup]
  | cons kv w ih =>
    obtain ⟨k, v⟩ := kv
    obtain ⟨i1, i2⟩ := ih
    by_cases hk : k = wd
    · subst hk
      refine ⟨by simpa [remove] using i1, fun wd' hne => ?_⟩
      have := i2 wd' hne
      simp only [remove] at this
      simp [remove, lookup, this, Ne.symm hne]
    · refine ⟨by simp only [remove] at i1; simp [remove, lookup, hk, i1], fun wd' hne => ?_⟩
      have := i2 wd' hne
      simp only [remove] at this
      simp [remove, lookup, hk, this]

/-- The full path: the watched path, a separator unless it already ends in one,
the name; the watched path alone for events on the watched entry itself; the
name alone for descriptors that are not (or no longer) in the table.
(`name` as the kernel emits it: a path component, in particular not starting
with `/`.) -/
theorem C17_path_for (w : Watches) (e : Event) :
    (lookup w e.wd = none → pathFor w e = e.name) ∧
    (∀ p, lookup w e.wd = some p → e.name = [] → pathFor w e = p) ∧
    (∀ p, lookup w e.wd = some p → e.name ≠ [] → e.name.head? ≠ some 47 →
      pathFor w e = if p = [] ∨ p.getLast? = some 47 then p ++ e.name else p ++ 47 :: e.name) := by
  refine ⟨fun h => by simp [pathFor, h], fun p h hn => by simp [pathFor, h, hn], fun p h hn hh => ?_⟩
  have h1 : e.name.isEmpty = false := by cases hx : e.name <;> simp_all
  have h2 : (e.name.head? == some 47) = false := by simpa using hh
  simp only [pathFor, h, h1, joinPath, h2]
  by_cases hp : p = []
  · simp [hp]
  · have : p.isEmpty = false := by cases hx : p <;> simp_all
    by_cases hl : p.getLast? = some 47 <;> simp [hp, this, hl]

/-- Not kernel-producible, and not a violation: a record whose name is empty
but which carries padding decodes to a name consisting of the NULs (the
`rposition` finds no non-NUL byte and falls back to `len`). -/
theorem C17_nul_name (dbg : Bool) (fuel : Nat) (pre post : List Nat) (wd mask cookie pad : Nat)
    (w : Watches) (oob : Bool)
    (h1 : wd < 4294967296) (h2 : mask < 4294967296) (h3 : cookie < 4294967296)
    (h4 : pad < 4294967296) (hv : visible ⟨wd, mask, cookie, [], pad⟩ = true) :
    walk dbg (fuel + 1) (pre ++ (encode ⟨wd, mask, cookie, [], pad⟩ ++ post)) pre.length w oob =
      .event (pre.length + HDR + pad) w oob ⟨pre.length, wd, mask, cookie, List.replicate pad 0⟩ := by
  -- the record with `name := NULs, pad := 0` has the same encoding and is well formed
  -- except for the trailing NUL; redo the step by hand
  let r : Record := ⟨wd, mask, cookie, [], pad⟩
  have hl : (pre ++ (encode r ++ post)).length = pre.length + (HDR + pad) + post.length := by
    simp [encode_length, r, Record.len]; omega
  have e0 : encode r = le32 wd ++ (le32 mask ++ (le32 cookie ++ (le32 pad ++ List.replicate pad 0))) := by
    simp [encode, r, Record.len]
  have f1 : rd32 (pre ++ (encode r ++ post)) pre.length = wd := by
    simpa [e0] using rd32_at pre _ wd h1
  have f2 : rd32 (pre ++ (encode r ++ post)) (pre.length + 4) = mask := by
    have := rd32_at (pre ++ le32 wd) (le32 cookie ++ (le32 pad ++ List.replicate pad 0) ++ post) mask h2
    simpa [e0, le32_length] using this
  have f3 : rd32 (pre ++ (encode r ++ post)) (pre.length + 8) = cookie := by
    have := rd32_at (pre ++ le32 wd ++ le32 mask) ((le32 pad ++ List.replicate pad 0) ++ post) cookie h3
    simpa [e0, le32_length] using this
  have f4 : rd32 (pre ++ (encode r ++ post)) (pre.length + 12) = pad := by
    have := rd32_at (pre ++ le32 wd ++ le32 mask ++ le32 cookie) (List.replicate pad 0 ++ post) pad h4
    simpa [e0, le32_length, Nat.add_assoc] using this
  have f5 : ((pre ++ (encode r ++ post)).drop (pre.length + HDR)).take pad = List.replicate pad 0 := by
    have e : pre ++ (encode r ++ post) =
        (pre ++ le32 wd ++ le32 mask ++ le32 cookie ++ le32 pad) ++ (List.replicate pad 0 ++ post) := by
      simp [e0]
    have l : (pre ++ le32 wd ++ le32 mask ++ le32 cookie ++ le32 pad).length = pre.length + HDR := by
      simp [le32_length, HDR]
    rw [e, ← l, List.drop_left]
    exact List.take_left' (by simp)
  have hvis : isIgnored mask = false ∧ isOverflow mask = false := by
    simpa [visible] using hv
  have c1 : (pre ++ (encode r ++ post)).length > pre.length := by rw [hl]; simp [HDR]; omega
  have c2 : ¬ ((pre ++ (encode r ++ post)).length < pre.length + HDR) := by rw [hl]; omega
  have c3 : ¬ ((pre ++ (encode r ++ post)).length < pre.length + HDR + pad) := by rw [hl]; omega
  show walk dbg (fuel + 1) (pre ++ (encode r ++ post)) pre.length w oob = _
  rw [walk]
  simp only [c1, ↓reduceIte, f4, f2, f1, f3, f5, c2, c3, decide_false, Bool.and_false,
    Bool.or_false, Bool.false_eq_true, hvis.1, hvis.2]
  simp [pathLen, rposition_zeros]

/-! ## Ghost memory vs. buffer -/


/-- Ghost memory and the iterator's `Vec` agree: the buffer being processed
(or the completed read waiting to be polled) is a prefix of what the
allocation holds. -/
def memOk (s : St) : Prop :=
  match s.iter with
  | some (.processing buf _) => s.mem.take buf.length = buf
  | some (.reading _ (some (.ok bytes))) => s.mem.take bytes.length = bytes
  | _ => True

theorem memOk_processStep (dbg : Bool) (s : St) (buf : List Nat) (p : Nat)
    (hi : s.iter = some (.processing buf p)) (h : memOk s) : memOk (processStep dbg s buf p).1 := by
  simp only [memOk, hi] at h
  unfold processStep
  split <;> simp [memOk, h]

theorem memOk_applyOp (dbg : Bool) (s : St) (op : Op) (h : memOk s) : memOk (applyOp dbg s op) := by
  cases op with
  | watch wd path ok =>
    simp only [applyOp, opWatch]
    split <;> split <;> simpa [memOk] using h
  | events =>
    simp only [applyOp, opEvents]
    split <;> simp [memOk]
    exact h
  | poll =>
    simp only [applyOp]
    unfold pollNext
    split
    · exact h
    · exact h
    · simp [memOk]
    · exact h
    · split <;> simp [memOk]
    · rename_i bytes hi
      split
      · simp [memOk]
      · apply memOk_processStep dbg _ bytes 0 rfl
        simpa [memOk, hi] using h
    · rename_i buf p hi
      exact memOk_processStep dbg s buf p hi h
  | complete r =>
    simp only [applyOp]
    unfold complete
    split
    · cases r with
      | ok bytes => simp [memOk, memAfter, writeMem]
      | err e => simp [memOk]
    · rename_i hi _; simp [memOk, hi]
    · exact h
  | dropEvents =>
    simp only [applyOp, dropEvents]
    split <;> simp [memOk]
    exact h
  | check => exact h

/-- The bytes an event is handed out with are the bytes of the buffer the
decoder is looking at (the ghost memory is not a second, unrelated story). -/
theorem C17_mem_is_buffer (dbg : Bool) (ops : List Op) (buf : List Nat) (p : Nat)
    (h : (run dbg init ops).iter = some (.processing buf p)) :
    (run dbg init ops).mem.take buf.length = buf := by
  have : ∀ (ops : List Op) (s : St), memOk s → memOk (run dbg s ops) := by
    intro ops
    induction ops with
    | nil => intro s hs; exact hs
    | cons op ops ih => intro s hs; exact ih _ (memOk_applyOp dbg s op hs)
  have hm := this ops init (by simp [memOk, init])
  simpa [memOk, h] using hm


/-! ## Non-vacuity -/

/-- A fresh iterator that has been polled once: READ queued, nothing else. -/
def started (w : Watches) : St :=
  { watches := w, iter := some (.reading true none), mem := List.replicate BUF_SIZE 0,
    live := true, kernel := true, gen := 1 }

/-- The hypothesis of `C17_decode` is what `watch; events; poll` produces. -/
example : run true init [.watch 1 wpath true, .events, .poll] = started [(1, wpath)] := by
  rfl

def recIgn : Record := { wd := 1, mask := 0x8000, cookie := 0, name := [], pad := 0 }
def recOvf : Record := { wd := 4294967295, mask := 0x4000, cookie := 0, name := [], pad := 0 }
def recUnk : Record := { wd := 7, mask := 0x40000100, cookie := 9, name := [100], pad := 3 }

example : WFRecord rec1 ∧ WFRecord rec2 ∧ WFRecord recIgn ∧ WFRecord recOvf ∧ WFRecord recUnk := by
  decide

/-- Two reads, an IGNORED in between, an overflow marker, an unknown descriptor,
then a read error: the model yields what the property says. -/
example :
    (runStream true (started [(1, wpath)])
      [.batch [rec1, recOvf, rec2, recIgn], .fail EINTR, .batch [rec1, recUnk], .fail 5]).2 =
      [.ev ⟨0, 1, 0x100, 0, [97, 98, 99]⟩ (wpath ++ [47, 97, 98, 99]),
       .ev ⟨48, 1, 0x200, 0, [120, 121]⟩ (wpath ++ [47, 120, 121]),
       .ev ⟨0, 1, 0x100, 0, [97, 98, 99]⟩ [97, 98, 99],
       .ev ⟨32, 7, 0x40000100, 9, [100]⟩ [100],
       .err 5] := by
  decide

/-- … and the release profile (no debug assertions) behaves the same. -/
example :
    (runStream false (started [(1, wpath)]) [.batch [rec1, recOvf, rec2, recIgn], .batch []]).2 =
      [.ev ⟨0, 1, 0x100, 0, [97, 98, 99]⟩ (wpath ++ [47, 97, 98, 99]),
       .ev ⟨48, 1, 0x200, 0, [120, 121]⟩ (wpath ++ [47, 120, 121]),
       .eof] := by
  decide

/-- A malformed stream (record cut short) trips the debug assertion; in the
release profile the ghost flag reports the out-of-bounds read. -/
example : (pollNext true { started [] with
      iter := some (.processing ((encode rec1).take 20) 0) }).2 = .panic 2 := by decide
example : (pollNext false { started [] with
      iter := some (.processing ((encode rec1).take 20) 0) }).1.oob = true := by decide

/-- `C17_lifetime_partial` is not vacuous: an event of the current batch. -/
example : ∃ h ∈ (run true init (witnessDrop.take 5)).kept, current (run true init (witnessDrop.take 5)) h := by
  decide

end A10.Inotify
