/-
C06 — Dropping an operation cancels exactly it and reclaims its state exactly once.

Statement (properties.jsonl): dropping an operation that is still in flight
asks the kernel to cancel that operation and no other (whenever the submission
queue has room for the request); operations that were never started or have
already finished cause no cancellation request. Whichever way the race between
cancellation and completion ends, the operation's internal state and the
resources it owns are released exactly once — never leaked while the Ring keeps
being polled or is dropped, never freed twice.

Model: `Model/Op.lean` (`dropFut`, `update`), single-operation system
`Lemmas/OpSys.lean`, multi-operation system `Model/Life.lean`.
The cancel race is just a choice of events: the kernel may answer the
cancellation by finishing the operation with `-ECANCELED` or with its normal
result, before or after the request is consumed; all orders are event
sequences the theorems quantify over.
-/
import A10Verif.Lemmas.OpInv
import A10Verif.Model.Life
import A10Verif.Lemmas.LifeRefine
import A10Verif.Props.C04
import A10Verif.Props.C02

namespace A10.OpSys
open A10

/-- **Cancel request iff running (and room).** Dropping the future emits a
cancellation request exactly when the operation is `Running` and the
submission queue has room; `NotStarted`, `Done` and `Complete` operations
emit none. -/
theorem C06_cancel_iff_running (o : Op) (room : Bool) :
    (o.dropFut room).2.contains .cancel = (isRunning o.status && room) := by
  cases o with
  | mk multi status waker boxLive resInit futLive frees resDrops =>
  cases status <;> cases room <;> simp [Op.dropFut, isRunning]

/-- **The request targets exactly the dropped operation.** In the
multi-operation system, dropping operation `i` appends at most one entry to
the submission queue, and that entry is `cancel i`; no other operation's
state changes. -/
theorem C06_cancel_target (s : Life.Sys) (i : Nat) :
    ((s.dropOp i).1.sq = s.sq ∨ (s.dropOp i).1.sq = s.sq ++ [.cancel i]) ∧
    (∀ j, j ≠ i → (s.dropOp i).1.ops[j]? = s.ops[j]?) := by
  unfold Life.Sys.dropOp
  cases hgo : Life.getOp s i with
  | none => simp
  | some o =>
    simp only
    cases hfl : o.futLive with
    | false => simp
    | true =>
      simp only [Bool.not_true, Bool.false_eq_true, ↓reduceIte]
      constructor
      · split <;> simp [Life.setOp]
      · intro j hj
        split <;> simp [Life.setOp, List.getElem?_set_ne (Ne.symm hj)]

/-- **Never freed twice, resources never released twice** — in every reachable
state, for every kind, every drop point and both outcomes of the cancel race. -/
theorem C06_free_le_one (s : OS) (hr : Reachable s) :
    s.op.frees ≤ 1 ∧ s.op.resDrops ≤ 1 := by
  have h := reachable_inv hr
  exact ⟨h.i4.1, h.i8.1⟩

/-- **Never leaked.** Once the future is dropped, the kernel holds nothing of
the operation and the completion queue has been drained (which is what
continued `Ring::poll`ing, or dropping the Ring — synchronous cancel-all plus
processing until no completion is left — establishes), the state has been
freed exactly once and the resources have been released exactly once. -/
theorem C06_free_eventually (s : OS) (hr : Reachable s) (hf : s.op.futLive = false)
    (hq : s.inflight = false) (hc : s.cq = []) :
    s.op.boxLive = false ∧ s.op.frees = 1 ∧ s.op.resInit = false ∧ s.op.resDrops = 1 := by
  have h := reachable_inv hr
  have hb : s.op.boxLive = false := by
    rcases h.i6.2 hf with hd | hb
    · cases hbl : s.op.boxLive with
      | false => rfl
      | true =>
        rcases h.i3 (Or.inr ⟨hd, hbl⟩) with h3 | h3
        · rw [hq] at h3; exact Bool.noConfusion h3
        · exact absurd hc h3
    · exact hb
  have hri := h.i9 hb
  have h4 := h.i4
  have h8 := h.i8
  have hne : s.op.frees ≠ 0 := fun h0 => by
    have := h4.2.2 h0; rw [hb] at this; exact Bool.noConfusion this
  have hne2 : s.op.resDrops ≠ 0 := fun h0 => by
    have := h8.2.2 h0; rw [hri] at this; exact Bool.noConfusion this
  exact ⟨hb, by omega, hri, by omega⟩

/-- While the future is alive the state is alive: nothing reclaims the state
behind a live future's back (no use after free from `poll`). -/
theorem C06_live_future_live_state (s : OS) (hr : Reachable s) (hf : s.op.futLive = true) :
    s.op.boxLive = true ∧ s.op.frees = 0 := by
  have h := reachable_inv hr
  have hb := (h.i6.1 hf).1
  exact ⟨hb, h.i4.2.1 hb⟩

/-- The free happens at one of exactly two places: the drop of a non-running
future, or the processing of the final completion of a dropped operation. -/
theorem C06_free_sites (o : Op) :
    (∀ w room, Eff.free ∉ (o.poll w room).2.2) ∧
    (∀ room, Eff.free ∈ (o.dropFut room).2 ↔ isRunning o.status = false) ∧
    (∀ c o' effs, o.update c = some (o', effs) →
        (Eff.free ∈ effs ↔ o.status = .dropped ∧ fMore c.flags = false)) := by
  refine ⟨?_, ?_, ?_⟩
  · intro w room
    unfold Op.poll
    generalize 2 = fuel
    fun_induction Op.pollAux o w room fuel <;> simp_all
  · intro room
    cases o with
    | mk multi status waker boxLive resInit futLive frees resDrops =>
    cases status <;> cases room <;> simp [Op.dropFut, isRunning]
  · intro c o' effs hu
    cases o with
    | mk multi status waker boxLive resInit futLive frees resDrops =>
    cases status <;> simp [Op.update] at hu
    · cases hm : fMore c.flags <;> cases multi <;> cases waker <;> simp_all <;>
        (obtain ⟨_, rfl⟩ := hu; simp)
    · cases hm : fMore c.flags <;> cases multi <;> cases waker <;> simp_all <;>
        (obtain ⟨_, rfl⟩ := hu; simp)
    · cases hm : fMore c.flags <;> simp_all <;> (obtain ⟨_, rfl⟩ := hu; simp)

/-! ### Non-vacuity -/

/-- Cancel wins: dropped while running, finished with -ECANCELED: freed once. -/
example :
    let es := [Ev.poll 1 true, .dropFut true, .kpost ⟨-125, 0⟩, .process]
    validRun (init false) es = true ∧ (run (init false) es).op.frees = 1 ∧
    (run (init false) es).cancels = 1 := by decide

/-- Cancel loses: the normal result arrives anyway: freed once. -/
example :
    let es := [Ev.poll 1 true, .kpost ⟨9, 0⟩, .dropFut false, .process]
    validRun (init false) es = true ∧ (run (init false) es).op.frees = 1 ∧
    (run (init false) es).cancels = 0 := by decide

/-- Multishot dropped with queued results and more to come. -/
example :
    let es := [Ev.poll 1 true, .kpost ⟨3, 2⟩, .process, .dropFut true, .kpost ⟨4, 2⟩, .process,
               .kpost ⟨-125, 0⟩, .process]
    validRun (init true) es = true ∧ (run (init true) es).op.frees = 1 ∧
    (run (init true) es).op.resDrops = 1 := by decide

end A10.OpSys

namespace A10.Life
open A10

/-- **Never freed twice, system level** — for every operation in every reachable state of the
multi-operation system. -/
theorem C06_system_free_le_one {s : Sys} (hr : Reachable s) (i : Nat) (o : Op)
    (ho : s.ops[i]? = some o) : o.frees ≤ 1 ∧ o.resDrops ≤ 1 :=
  life_free_le_one hr i o ho

/-- **Never leaked while the Ring keeps being polled, system level.** An operation whose future
was dropped, with nothing of it queued, in flight or pending in the completion queue / overflow
list, has been freed exactly once together with its resources. -/
theorem C06_system_poll_reclaims {s : Sys} (hr : Reachable s) (i : Nat) (o : Op)
    (ho : s.ops[i]? = some o) (hf : o.futLive = false) (hsq : ¬ SqEntry.op i ∈ s.sq)
    (hin : ¬ i ∈ s.inflight)
    (hcq : ∀ c : Cqe, c ∈ s.cq ++ s.overflow → c.ud = Ud.op i → fSkip c.flags = true) :
    o.boxLive = false ∧ o.frees = 1 ∧ o.resInit = false ∧ o.resDrops = 1 :=
  life_poll_reclaims hr i o ho hf hsq hin hcq

/-- **Never leaked when the Ring is dropped, system level.** From ANY reachable state, dropping
the Ring (flush, synchronous cancel-all, processing until no completion is left — however many
completions exceed the completion-queue size) leaves nothing queued, in flight or pending, and
every operation whose future has been dropped has been freed exactly once. -/
theorem C06_system_ring_drop_reclaims {s : Sys} (hr : Reachable s) (hl : s.ringLive = true) :
    (stepMv s Mv.rdrop).cq = [] ∧ (stepMv s Mv.rdrop).overflow = [] ∧
    (stepMv s Mv.rdrop).inflight = [] ∧ (stepMv s Mv.rdrop).sq = [] ∧
    (stepMv s Mv.rdrop).ringLive = false ∧
    ∀ (i : Nat) (o : Op), (stepMv s Mv.rdrop).ops[i]? = some o → o.futLive = false →
      o.boxLive = false ∧ o.frees = 1 ∧ o.resInit = false ∧ o.resDrops = 1 :=
  life_ring_drop_reclaims hr hl

theorem foldl_upd1_dropped (l : List Cqe) : ∀ (o : Op), o.status = .dropped →
    (l.foldl upd1 o).status = .dropped ∧ (l.foldl upd1 o).futLive = o.futLive ∧
    (l.foldl upd1 o).frees = o.frees + (l.filter (fun c => !fMore c.flags)).length ∧
    (l.foldl upd1 o).resDrops = o.resDrops + (l.filter (fun c => !fMore c.flags)).length := by
  induction l with
  | nil => intro o h; simp [h]
  | cons c l ih =>
    intro o h
    have hu : (upd1 o c).status = .dropped ∧ (upd1 o c).futLive = o.futLive ∧
        (upd1 o c).frees = o.frees + (if fMore c.flags then 0 else 1) ∧
        (upd1 o c).resDrops = o.resDrops + (if fMore c.flags then 0 else 1) := by
      cases o with
      | mk multi status waker boxLive resInit futLive frees resDrops =>
      simp at h; subst h
      cases hm : fMore c.flags <;> simp [upd1, Op.update, hm]
    obtain ⟨h1, h2, h3, h4⟩ := hu
    obtain ⟨i1, i2, i3, i4⟩ := ih (upd1 o c) h1
    simp only [List.foldl_cons]
    refine ⟨i1, i2.trans h2, ?_, ?_⟩
    · rw [i3, h3]; cases hm : fMore c.flags <;> simp [List.filter, hm] <;> omega
    · rw [i4, h4]; cases hm : fMore c.flags <;> simp [List.filter, hm] <;> omega

/-- **Reclaimed by exactly its own final completion, whatever surrounds it.** For an operation
whose future was dropped while it was running, after the completion loop has processed ANY list of
completions the state has been released once per FINAL completion addressed to that operation —
completions of other operations, its own non-final (`F_MORE`) completions, bookkeeping completions
(the answer to its cancel request among them) and `F_SKIP` entries release nothing. With the
kernel's contract (exactly one final completion per submission) that is exactly once, at that
completion; and nothing else in the batch can release it early or a second time. -/
theorem C06_batch_reclaims_by_own_final (cs : List Cqe) (s : Sys) (a : Acc) (i : Nat) (o : Op)
    (ho : s.ops[i]? = some o) (hd : o.status = .dropped) :
    ∃ o', (processAll s a cs).1.ops[i]? = some o' ∧ o'.status = .dropped ∧
      o'.frees = o.frees +
        (cs.filter (fun c => addressed i c && !fMore c.flags)).length ∧
      o'.resDrops = o.resDrops +
        (cs.filter (fun c => addressed i c && !fMore c.flags)).length := by
  refine ⟨(cs.filter (addressed i)).foldl upd1 o, ?_, ?_⟩
  · rw [C02_own_completions_only, ho]; rfl
  · obtain ⟨h1, _, h3, h4⟩ := foldl_upd1_dropped (cs.filter (addressed i)) o hd
    rw [List.filter_filter] at h3 h4
    have hf : (fun a : Cqe => !fMore a.flags && addressed i a) =
        (fun c : Cqe => addressed i c && !fMore c.flags) := by
      funext c; exact Bool.and_comm _ _
    rw [hf] at h3 h4
    exact ⟨h1, h3, h4⟩

/-- Non-vacuity: operation 0 dropped while running; a batch with another operation's final
completion, operation 0's own non-final one, the cancel answer, then operation 0's final one:
released exactly once. -/
example :
    let s : Sys := { ops := [{ multi := true, status := .dropped, futLive := false },
                             { multi := false, status := .running (.single ⟨0, 0⟩) }] }
    let cs : List Cqe := [⟨.op 1, 9, 0⟩, ⟨.op 0, 5, 2⟩, ⟨.reserved 2, 0, 0⟩, ⟨.op 0, -125, 0⟩]
    ((processAll s {} cs).1.ops.map (·.frees)) = [1, 0] ∧
    (cs.filter (fun c => addressed 0 c && !fMore c.flags)).length = 1 := by decide

/-- `C06_batch_reclaims_by_own_final` for `drainCq`, the function the `life` driver runs. -/
theorem C06_drain_reclaims_by_own_final (s : Sys) (a : Acc) (i : Nat) (o : Op)
    (ho : s.ops[i]? = some o) (hd : o.status = .dropped) :
    ∃ o', (s.drainCq a).1.ops[i]? = some o' ∧ o'.status = .dropped ∧
      o'.frees = o.frees + (s.cq.filter (fun c => addressed i c && !fMore c.flags)).length ∧
      o'.resDrops = o.resDrops + (s.cq.filter (fun c => addressed i c && !fMore c.flags)).length := by
  rw [drainCq_ops]; exact C06_batch_reclaims_by_own_final s.cq s a i o ho hd
end A10.Life

/-! ### The cancel request under contention

"Whenever the submission queue has room" is decided by the queue, not by who holds the
submission lock: the cancel request of a dropped operation goes through `Submissions::add`
(`Submissions::cancel`, sq.rs), whose micro-step model is `Model/SqRing.lean`. -/

namespace A10.SqRing
open A10

/-- A submitter (here: the cancel request of a dropped operation) that arrives at the
submission lock while another thread holds it waits — its step leaves everything as it is
("spin") — and one that finds the lock free takes it and goes on to the locked check. It is
never turned away at the lock: the only way to `QueueFull` is a fullness check
(`C04_precheck`, `C04_full_means_full`: exactly when the queue is full). Any state. -/
theorem C06_cancel_request_waits_for_lock (s : St) (i : Nat) (t : Thr)
    (hti : s.thr[i]? = some t) (hpc : t.pc = .a3) :
    (s.lock ≠ none → stepThr s i = (s, "spin")) ∧
    (s.lock = none → pcOf (stepThr s i).1 i = some .a4 ∧ (stepThr s i).1.lock = some i) ∧
    pcOf (stepThr s i).1 i ≠ some .full := by
  refine ⟨?_, ?_, ?_⟩
  · intro hl
    cases hlk : s.lock with
    | none => exact absurd hlk hl
    | some j => simp [stepThr, hti, hpc, hlk]
  · intro hl
    simp [stepThr, hti, hpc, hl, pcOf, setThr, get_set_thr hti]
  · cases hlk : s.lock with
    | none => simp [stepThr, hti, hpc, hlk, pcOf, setThr, get_set_thr hti]
    | some j => simp [stepThr, hti, hpc, hlk, pcOf]

/-- A call through `Submissions::cancel` starts at the lock (`startPc true`, fix e17b949) and
its next step after getting the lock is the locked head load: on its way to the locked check —
the only place where it can be answered `QueueFull`, and there exactly when the queue is full
(`C04_full_means_full`) — nothing can turn it away. -/
theorem C06_cancel_only_locked_check (s : St) (i : Nat) (t : Thr)
    (hti : s.thr[i]? = some t) (hpc : t.pc = startPc true ∨ t.pc = .a4) :
    pcOf (stepThr s i).1 i ≠ some .full ∧
    (t.pc = .a4 → pcOf (stepThr s i).1 i = some (.a5 (head32 s))) := by
  rcases hpc with hpc | hpc
  · refine ⟨(C06_cancel_request_waits_for_lock s i t hti hpc).2.2, ?_⟩
    intro h4; rw [hpc] at h4; cases h4
  · refine ⟨?_, fun _ => ?_⟩ <;>
      simp [stepThr, hti, hpc, pcOf, setThr, get_set_thr hti]

/-- Why the fix: a call that goes through the unlocked pre-check (`startPc false`, all of
`Submissions::add`'s other callers — and `cancel` before e17b949) can be answered `QueueFull`
although the queue (2 slots) never held more than one entry: thread 1 loads the head, thread 0
publishes an entry, the kernel consumes it, thread 0 publishes another one, thread 1 loads the
tail — two ahead of its stale head. -/
def staleRun : List Mv :=
  [.thr 1] ++ List.replicate 8 (.thr 0) ++ [.kernel, .again 0 3] ++ List.replicate 8 (.thr 0) ++
    [.thr 1]

theorem C06_precheck_refuses_with_room :
    (∀ k, k ≤ staleRun.length →
      (runMv (init 2 0 2) (staleRun.take k)).T - (runMv (init 2 0 2) (staleRun.take k)).H < 2) ∧
    pcOf (runMv (init 2 0 2) staleRun) 1 = some .full ∧
    (runMv (init 2 0 2) staleRun).accepted = [0, 3] := by
  decide

/-- Non-vacuity, and the shape of the seeded change C06g: two submitters, the first holds the
lock (past its locked head load), the second arrives: it spins; after the first published its
entry the second gets the lock and publishes too — both entries are accepted (queue of 4). -/
example :
    let s := runMv (init 4 0 2) [.thr 0, .thr 0, .thr 0, .thr 0, .thr 1, .thr 1]
    s.lock = some 0 ∧ pcOf s 1 = some .a3 ∧ (stepThr s 1).2 = "spin" ∧
    pcOf (stepThr s 1).1 1 = some .a3 ∧
    (runMv s [.thr 1, .thr 0, .thr 0, .thr 0, .thr 0, .thr 1, .thr 1, .thr 1, .thr 1, .thr 1, .thr 1]).accepted
      = [0, 1] := by
  decide

end A10.SqRing

