/-
C03 — No lost wake-ups for completions or for freed submission-queue space.

Statement (properties.jsonl): whenever an operation returned Pending, the waker
given to its most recent poll is invoked no later than the Ring::poll call that
consumes the first completion making it ready (the final completion for
single-shot operations, any completion for multishot ones), so an executor that
re-polls only when woken always makes progress. An operation that returned
Pending because the submission queue was full is likewise woken by a subsequent
Ring::poll call once room is available, even if no other operation ever
completes.

Part (a), completions: `Lemmas/OpResults.lean` (`WInv`): `poll` and the
completion handler both run under the operation's mutex, so they are atomic
steps and the theorem covers every interleaving of polls (same or replaced
waker), completions and `Ring::poll` processing — on one thread or with the
future and the Ring on different threads.

Part (b), queue space, single-threaded executor: `Model/Life.lean`
(`wakeBlocked`, called after every `io_uring_enter` that returns Ok, ETIME or
EINTR — the latter two since the `fix:` commit fcfcfbe).
-/
import A10Verif.Lemmas.OpResults
import A10Verif.Model.Life
import A10Verif.Lemmas.Blocked
import A10Verif.Props.C02

namespace A10.OpSys
open A10

/-- **(a) Completion wake-up.** In every reachable state: if the operation's
last poll returned `Pending` with waker `w` and a completion making it ready
(final for single-shot, any for multishot) has been processed since, then `w`
— the waker of that most recent poll — has been invoked since that poll. The
wake happens in the very step that processes the completion
(`C03_wake_in_same_step`), i.e. inside the `Ring::poll` call that consumes it. -/
theorem C03_completion_wake (s : OS) (hr : Reachable s) (hf : s.op.futLive = true) (w : Nat)
    (hl : s.lastPend = some w) (hrs : s.readySince = true) : s.wokenSince = true := by
  obtain ⟨_, _, hw⟩ := reachable_all hr
  rcases hw hf w hl with ⟨_, c⟩ | ⟨_, _, c⟩ | c
  · rw [hrs] at c; exact Bool.noConfusion c
  · rw [hrs] at c; exact Bool.noConfusion c
  · exact c

/-- While nothing ready-making has been processed, the registered waker IS the
waker of the most recent poll (a replaced waker replaces the stored one:
`set_waker`), so the wake-up cannot go to a stale task. -/
theorem C03_latest_waker (s : OS) (hr : Reachable s) (hf : s.op.futLive = true) (w : Nat)
    (hl : s.lastPend = some w) (hrun : isRunning s.op.status = true) (hnw : s.wokenSince = false) :
    s.op.waker = some w := by
  obtain ⟨_, _, hw⟩ := reachable_all hr
  rcases hw hf w hl with ⟨c, _⟩ | ⟨_, c, _⟩ | c
  · rw [c] at hrun; simp [isRunning] at hrun
  · exact c
  · rw [hnw] at c; exact Bool.noConfusion c

/-- The step that processes a ready-making completion of a running operation
with a registered waker emits the wake-up itself. -/
theorem C03_wake_in_same_step (o o' : Op) (c : Res) (effs : List Eff) (w : Nat)
    (hu : o.update c = some (o', effs)) (hr : isRunning o.status = true) (hw : o.waker = some w)
    (hready : fMore c.flags = false ∨ o.multi = true) : effs = [.wake w] :=
  (update_waker o o' c effs w hu hr hw).1 hready

end A10.OpSys

namespace A10.Life
open A10

theorem postCqe_frame (s : Sys) (c : Cqe) :
    (s.postCqe c).1.blocked = s.blocked ∧ (s.postCqe c).1.sq = s.sq ∧
    (s.postCqe c).1.sqLen = s.sqLen := by
  unfold Sys.postCqe; split <;> simp

theorem kpost_frame (s : Sys) (i : Nat) (r : Int) (f : Nat) :
    (s.kpost i r f).1.blocked = s.blocked ∧ (s.kpost i r f).1.sq = s.sq ∧
    (s.kpost i r f).1.sqLen = s.sqLen := by
  unfold Sys.kpost
  split
  · simp
  · have := postCqe_frame (if fMore f then s else { s with inflight := s.inflight.erase i }) ⟨.op i, r, f⟩
    split <;> simp_all

theorem consumeOne_frame (s : Sys) (e : SqEntry) :
    (s.consumeOne e).blocked = s.blocked ∧ (s.consumeOne e).sqLen = s.sqLen := by
  unfold Sys.consumeOne
  cases e with
  | op i => simp
  | cancel i =>
    simp only
    split
    · simp
    · have := postCqe_frame s ⟨.reserved 2, -ENOENT, 0⟩
      exact ⟨this.1, this.2.2⟩

theorem consumeFold_frame (l : List SqEntry) (t : Sys) :
    (l.foldl Sys.consumeOne t).blocked = t.blocked ∧ (l.foldl Sys.consumeOne t).sqLen = t.sqLen := by
  induction l generalizing t with
  | nil => simp
  | cons e es ih =>
    simp only [List.foldl_cons]
    have h1 := ih (t.consumeOne e)
    have h2 := consumeOne_frame t e
    exact ⟨by rw [h1.1, h2.1], by rw [h1.2, h2.2]⟩

theorem consumeAll_frame (s : Sys) :
    s.consumeAll.blocked = s.blocked ∧ s.consumeAll.sq = [] ∧ s.consumeAll.sqLen = s.sqLen := by
  unfold Sys.consumeAll
  have h := consumeFold_frame s.sq s
  exact ⟨h.1, rfl, h.2⟩

theorem posts_frame (posts : List (Nat × Int × Nat)) (s : Sys) :
    (posts.foldl (fun (s : Sys) p => (s.kpost p.1 p.2.1 p.2.2).1) s).blocked = s.blocked ∧
    (posts.foldl (fun (s : Sys) p => (s.kpost p.1 p.2.1 p.2.2).1) s).sq = s.sq ∧
    (posts.foldl (fun (s : Sys) p => (s.kpost p.1 p.2.1 p.2.2).1) s).sqLen = s.sqLen := by
  induction posts generalizing s with
  | nil => simp
  | cons p ps ih =>
    simp only [List.foldl_cons]
    have h1 := ih (s.kpost p.1 p.2.1 p.2.2).1
    have h2 := kpost_frame s p.1 p.2.1 p.2.2
    exact ⟨by rw [h1.1, h2.1], by rw [h1.2.1, h2.2.1], by rw [h1.2.2, h2.2.2]⟩

/-- State right after the `io_uring_enter` of a `Ring::poll` that entered the
kernel (before the blocked futures are woken). -/
def afterEnter (s : Sys) (posts : List (Nat × Int × Nat)) : Sys :=
  (posts.foldl (fun (s : Sys) p => (s.kpost p.1 p.2.1 p.2.2).1) s.consumeAll).flushOverflow

theorem afterEnter_frame (s : Sys) (posts : List (Nat × Int × Nat)) :
    (afterEnter s posts).blocked = s.blocked ∧ (afterEnter s posts).sq = [] ∧
    (afterEnter s posts).sqLen = s.sqLen := by
  unfold afterEnter Sys.flushOverflow
  have h1 := posts_frame posts s.consumeAll
  have h2 := consumeAll_frame s
  simp only
  exact ⟨by rw [h1.1, h2.1], by rw [h1.2.1, h2.2.1], by rw [h1.2.2, h2.2.2]⟩

/-- **(b) Freed queue space, single-threaded executor.** Every `Ring::poll` that
enters the kernel (the completion queue was empty) wakes the
`min(queue size, #blocked)` oldest futures blocked on a full submission queue —
whatever the kernel answers (Ok, timeout or interruption), whatever
completions arrive, *even if none ever does* (`posts` is arbitrary, also
empty). With a queue of `n ≥ 1` entries, the future at position `p` of the
blocked list is therefore woken by the `⌈(p+1)/n⌉`-th such call at the latest. -/
theorem C03_blocked_wake (s : Sys) (posts : List (Nat × Int × Nat)) :
    ((afterEnter s posts).wakeBlocked).2 = s.blocked.take (min s.sqLen s.blocked.length) ∧
    ((afterEnter s posts).wakeBlocked).1.blocked = s.blocked.drop (min s.sqLen s.blocked.length) := by
  obtain ⟨f1, f2, f3⟩ := afterEnter_frame s posts
  simp [Sys.wakeBlocked, f1, f2, f3]

/-- The blocked futures woken by an entering `Ring::poll` are reported first in
its wake-ups (they are woken before any completion is processed), and at least
one is woken whenever one is waiting and the queue has a slot at all. -/
theorem C03_blocked_progress (s : Sys) (posts : List (Nat × Int × Nat)) (h : s.blocked ≠ [])
    (hlen : 1 ≤ s.sqLen) :
    ((afterEnter s posts).wakeBlocked).2 ≠ [] := by
  rw [(C03_blocked_wake s posts).1]
  cases hb : s.blocked with
  | nil => exact absurd hb h
  | cons x xs =>
    have : 1 ≤ min s.sqLen (x :: xs).length := by simp; omega
    intro hc
    have := congrArg List.length hc
    simp at this
    omega

/-- `rpoll` on an empty completion queue is `afterEnter` + `wakeBlocked` +
draining the queue (definitional unfolding used to connect the two theorems
above with the model step the correspondence check runs). -/
theorem C03_rpoll_unfold (s : Sys) (posts : List (Nat × Int × Nat)) (he : s.cq.isEmpty = true) :
    (s.rpoll posts).1 =
      (((afterEnter s posts).wakeBlocked).1.drainCq
        { wakes := ((afterEnter s posts).wakeBlocked).2 }).1 := by
  unfold Sys.rpoll afterEnter
  simp [he]

end A10.Life

namespace A10.OpSys
/-! ### Non-vacuity -/
example :
    let es := [Ev.poll 7 true, .kpost ⟨5, 0⟩, .process]
    validRun (init false) es = true ∧ (run (init false) es).lastPend = some 7 ∧
    (run (init false) es).readySince = true ∧ (run (init false) es).woken = [7] := by decide
/-- A replaced waker: the second poll's waker is the one invoked. -/
example :
    let es := [Ev.poll 7 true, .poll 8 true, .kpost ⟨5, 0⟩, .process]
    validRun (init false) es = true ∧ (run (init false) es).woken = [8] := by decide
end A10.OpSys

namespace A10.Blocked
open A10

/-! ### Part (b) with the futures and the Ring on different threads

`Model/Blocked.lean` interleaves any number of future threads (each polling an operation on a
possibly full queue: unlocked check, submission lock, locked check, registration in the blocked
list) with the ring thread (`Ring::poll`: kernel entry, `wake_blocked_futures` with its two critical
sections) at every scheduling point that matters; the `blk` correspondence component runs the real
code under the deterministic scheduler against it. Nothing ever completes in this model. -/

/-- **No waker is ever lost** by the take / wake / swap / extend dance of
`wake_blocked_futures`, under every interleaving: every registration is accounted for in the
blocked list, in the ring thread's local vector, or among the wakers already invoked. -/
theorem C03_blocked_conservation (s : St) (h : Reachable s) (i : Nat) :
    List.count i s.pushed = List.count i s.blocked + List.count i s.r.rest + List.count i s.woken :=
  blocked_conservation s h i

/-- A registered future whose waker has not been invoked (as often as it registered) is still held
by the runtime: in the blocked list or in the ring thread's hands. -/
theorem C03_blocked_registered_or_woken (s : St) (h : Reachable s) (i : Nat)
    (hc : List.count i s.pushed > List.count i s.woken) :
    i ∈ s.blocked ∨ ∃ rest left, s.r = RPc.lock2 rest left ∧ i ∈ rest :=
  blocked_registered_or_woken s h i hc

/-- **Every return from the kernel runs the wake pass** (Ok, ETIME and EINTR alike — the `fix:`
commit fcfcfbe), whatever was submitted or consumed. (`block = false`: the call does not wait for a
completion — it has a timeout, or futures were waiting for a slot when it started.) -/
theorem C03_blocked_enter_always_wakes (s : St) (n : Nat) (hr : s.r = RPc.enter n)
    (hb : s.block = false) (hk : s.kt = false) :
    (stepR s).r = RPc.w1 ∧ (stepR s).H = s.H + min n (s.T - s.H) ∧
    (stepR (stepR s)).r = RPc.w2 (s.H + min n (s.T - s.H)) ∧
    (stepR (stepR (stepR s))).r =
      if s.len - (s.T - (s.H + min n (s.T - s.H))) = 0 then RPc.idle
      else RPc.tryLock (s.len - (s.T - (s.H + min n (s.T - s.H)))) :=
  blocked_enter_always_wakes s n hr hb hk

/-- With a kernel thread (SQPOLL) the ring thread's `enter` wakes it and it takes everything that
is published at that moment — also entries published after `to_submit` was computed: the queue
is empty when the wake pass starts. -/
theorem C03_enter_with_kernel_thread (s : St) (n : Nat) (hr : s.r = RPc.enter n)
    (hk : s.kt = true) : (stepR s).H = s.T ∧ (stepR s).T = s.T := by
  simp [stepR, hr, hk]

/-- **A wake pass is effective**: with `avail ≥ 1` free slots and a non-empty list it invokes the
`min(avail, #blocked)` OLDEST wakers. -/
theorem C03_blocked_wake_pass (s : St) (avail : Nat) (hr : s.r = RPc.tryLock avail)
    (ha : 1 ≤ avail) (hb : s.blocked ≠ []) (hl : s.blockedLock = none) :
    (stepR s).woken = s.woken ++ List.take (min avail s.blocked.length) s.blocked ∧
    List.take (min avail s.blocked.length) s.blocked ≠ [] :=
  ⟨(blocked_wake_pass s avail hr ha hb hl).1, (blocked_wake_pass s avail hr ha hb hl).2.1⟩

/-- The pass gives up when its `try_lock` finds a future inside its push (`blockedLock = some j`):
nobody is woken, nothing is lost — every waker is still in the list (`C03_blocked_conservation`) and
the next pass (the next `Ring::poll`, which since d4303dd does not wait while the list is non-empty)
takes care of them. -/
theorem C03_blocked_try_lock_fails (s : St) (avail : Nat) (hr : s.r = RPc.tryLock avail) (j : Nat)
    (hl : s.blockedLock = some j) :
    (stepR s).r = RPc.idle ∧ (stepR s).blocked = s.blocked ∧ (stepR s).woken = s.woken :=
  blocked_try_lock_fails s avail hr j hl

/-- Non-vacuity of `C03_blocked_try_lock_fails`: future 2 takes the list lock right before the ring
thread's `try_lock`; the pass gives up with future 1 still registered and a free slot; future 2
finishes its push; the next (quiet) poll wakes future 1 (one slot: the oldest). -/
example :
    let s := runMv passState [.f 2]
    Reachable s ∧ s.r = RPc.tryLock 1 ∧ s.blockedLock = some 2 ∧ s.blocked = [1] ∧
    (stepR s).r = RPc.idle ∧ (stepR s).woken = [] ∧
    (quietPoll (runMv s [.r, .f 2])).woken = [1] ∧ (quietPoll (runMv s [.r, .f 2])).blocked = [2] :=
  ⟨passState_reachable.run [.f 2], by decide⟩

/-- **Bounded response**: once no future is in the middle of a poll, `⌈#blocked / len⌉`
`Ring::poll` calls wake EVERY registered future — although no operation ever completes — and what
has then been woken is exactly what ever registered. -/
theorem C03_blocked_all_woken (s : St) (h : Reachable s) (hq : Quiet s) :
    (quietPolls ((s.blocked.length + s.len - 1) / s.len) s).blocked = [] ∧
    (quietPolls ((s.blocked.length + s.len - 1) / s.len) s).woken = s.woken ++ s.blocked ∧
    (quietPolls ((s.blocked.length + s.len - 1) / s.len) s).woken.Perm s.pushed :=
  ⟨(blocked_quiet_polls_ceil s hq).1, (blocked_quiet_polls_ceil s hq).2, blocked_quiet_all_woken s h hq⟩

/-- The repaired defect, machine-checked: with the old `enter` (no wake pass after a timed-out
entry) a future that registered just after the ring thread's pass stays blocked through ANY number
of later polls although the queue has room; the current code wakes it on the next poll. -/
theorem C03_blocked_old_enter_loses_wake :
    runMvOld (init 1 2 0) lostTrace = lostState ∧ Quiet lostState ∧
    lostState.T - lostState.H < lostState.len ∧
    (∀ k : Nat, (quietPollsOld k lostState).blocked = [1] ∧ (quietPollsOld k lostState).woken = []) ∧
    (quietPoll lostState).woken = [1] ∧ (quietPoll lostState).blocked = [] := by
  have h := blocked_old_enter_loses_wake
  exact ⟨h.1, h.2.1, h.2.2.2.1, h.2.2.2.2.1, h.2.2.2.2.2.1, h.2.2.2.2.2.2⟩

/-! #### Polls without a timeout (fix d4303dd)

"… is likewise woken by a subsequent Ring::poll call once room is available, even if no other
operation ever completes": a `Ring::poll(None)` only gets to the wake pass when `io_uring_enter`
returns, and with nothing completing it does not return. Since d4303dd the call looks at the blocked
list first and does not wait if a future is waiting for a slot. -/

/-- A `Ring::poll(None)` that starts while a future is waiting for a slot does not wait in the
kernel: it submits what is queued and goes on to the wake pass (any state). -/
theorem C03_blocking_poll_does_not_wait_with_blocked (s : St) (hr : s.r = RPc.idle)
    (ht : s.H ≤ s.T) (hb : s.blocked ≠ []) (hl : s.blockedLock = none) (hk : s.kt = false) :
    let s1 := stepR (startPollT s true)
    s1.r = RPc.enter (s.T - s.H) ∧ s1.block = false ∧ (stepR s1).r = RPc.w1 ∧
    (stepR s1).H = s.T := by
  have he : s.blocked.isEmpty = false := by
    cases hbl : s.blocked with
    | nil => exact absurd hbl hb
    | cons a l => rfl
  simp [startPollT, hr, stepR, he, hl, hk]
  omega

/-- The wait decision, any state: the call may wait in the kernel exactly when it has no timeout
and the blocked list was empty when it looked (`.start` step); the kernel entry then leads to
`.waiting` exactly when that was decided, and to the wake pass otherwise. -/
theorem C03_wait_decision (s : St) :
    (s.r = RPc.start → s.blockedLock = none →
      ((stepR s).block = true ↔ (s.inf = true ∧ s.blocked = []))) ∧
    (∀ n, s.r = RPc.enter n →
      ((stepR s).r = RPc.waiting ↔ s.block = true) ∧ ((stepR s).r = RPc.w1 ↔ s.block = false)) := by
  refine ⟨?_, ?_⟩
  · intro hr hl
    cases hb : s.blocked <;> cases hi : s.inf <;> simp [stepR, hr, hb, hi, hl]
  · intro n hr
    cases hb : s.block <;> simp [stepR, hr, hb]

/-- **Bounded response without a timeout**: once no future is in the middle of a poll, ONE
`Ring::poll(None)` of the ring thread — nothing completes, the kernel only consumes the queue — wakes
the `min len #blocked` oldest blocked futures, exactly like a poll with a timeout, provided at least
one future is waiting. -/
theorem C03_blocking_poll_wakes (s : St) (hq : Quiet s) (hb : s.blocked ≠ []) :
    let t := runMv s [.pollInf, .r, .r, .r, .r, .r, .r]
    t.woken = s.woken ++ s.blocked.take s.len ∧ t.blocked = s.blocked.drop s.len ∧
    t.r = RPc.idle ∧ t.H = s.T := by
  obtain ⟨len, H, T, subLock, blocked, f, r, woken, pushed, inf, block, blockedLock, kt⟩ := s
  obtain ⟨_, hr, _, hl, ht, _, hbl⟩ := hq
  simp only at hr hl ht hb hbl
  subst hr hbl
  have e2 : H + (T - H) = T := by omega
  have e4 : ¬ len = 0 := by omega
  cases blocked with
  | nil => exact absurd rfl hb
  | cons b bs =>
    cases kt <;> simp [runMv, stepMv, startPollT, stepR, e2, e4, drop_min_length]

/-- Before d4303dd (`block := inf`, the blocked list is not looked at) the same call waits in the
kernel with the future still registered, a free slot and nothing that will ever complete: two
futures on a queue of one slot, the second registers, `Ring::poll(None)`. Now it wakes it. -/
def stepRNoCheck (s : St) : St :=
  match s.r with
  | .start => { s with r := .enter (s.T - s.H), block := s.inf }
  | _ => stepR s

def waitTrace : List Mv := [.f 0, .f 0, .f 0, .f 0, .f 0, .f 0, .f 1, .f 1, .f 1, .f 1]

theorem C03_blocking_poll_before_fix_waits :
    (let s := runMv (init 1 2 0) waitTrace
     Quiet s ∧ s.blocked = [1] ∧ s.T - s.H = 1) ∧
    (let s := runMv (init 1 2 0) waitTrace
     let t := stepR (stepRNoCheck (startPollT s true))
     t.r = RPc.waiting ∧ t.blocked = [1] ∧ t.woken = [] ∧ t.T - t.H = 0 ∧ stepR t = t) ∧
    (let s := runMv (init 1 2 0) waitTrace
     (runMv s [.pollInf, .r, .r, .r, .r, .r, .r]).woken = [1]) := by
  refine ⟨by decide, ?_, by decide⟩
  refine ⟨by decide, by decide, by decide, by decide, rfl⟩

/-- A future on ANOTHER thread that finds the queue full while the ring thread already waits in the
kernel (`Ring::poll(None)`, nothing completing): the queue is full of entries nobody has submitted —
there is no room, and none of it reaches the kernel, until the ring thread enters again; that is
what `SubmissionQueue::wake` is for (C11: the call returns). Whatever makes the call return (`io`:
the wake-up message, or any completion), the NEXT call sees the waiting future, does not wait
although it has no timeout, submits the queue and wakes the future. -/
def crossTrace : List Mv :=
  [.f 0, .f 0, .f 0, .f 0, .f 0, .f 0, .pollInf, .r, .r, .f 1, .f 1, .f 1, .f 1, .f 1, .f 1,
   .f 2, .f 2, .f 2, .f 2]

theorem C03_registration_while_poll_waits :
    let s := runMv (init 1 3 0) crossTrace
    Reachable s ∧ s.r = RPc.waiting ∧ s.blocked = [2] ∧ s.woken = [] ∧ s.T - s.H = s.len ∧
    (stepR s).r = RPc.waiting ∧
    (let t := runMv s [.io, .r, .r, .pollInf, .r, .r]
     t.r = RPc.w1 ∧ t.block = false ∧ t.T - t.H = 0) ∧
    (runMv s [.io, .r, .r, .pollInf, .r, .r, .r, .r, .r, .r]).woken = [2] := by
  refine ⟨⟨1, 3, 0, crossTrace, Nat.le_refl 1, rfl⟩, ?_⟩
  decide

/-! ### A waker that panics inside the wake pass -/

/-- **Nobody else is lost when a waker panics.** For every list of waiting wakers, number to
wake and index of the one that panics: every waker other than the panicking one is either woken
by that pass or back on the list (in order), so the next pass finds it. Before the repair
88aefc0 the wakers after the panicking one were dropped with the pass's local vector. -/
theorem C03_waker_panic_loses_nobody (ws : List Nat) (a i : Nat) (hi : i < min a ws.length) :
    (unwindPass ws a i).1 ++ ws[i]?.toList ++ (unwindPass ws a i).2 = ws := by
  unfold unwindPass
  simp only [hi, ↓reduceIte]
  have hl : i < ws.length := Nat.lt_of_lt_of_le hi (Nat.min_le_right _ _)
  rw [List.getElem?_eq_getElem hl]
  simp only [Option.toList_some, List.append_assoc, List.singleton_append]
  have h2 : ws[i] :: ws.drop (i + 1) = ws.drop i := (List.drop_eq_getElem_cons hl).symm
  rw [h2]
  exact List.take_append_drop i ws

/-- The scenario of the correspondence (`blk pwaker`): three waiters, two slots, the first
waker panics: nobody woken by that pass, `[701, 702]` back on the list, both woken next time. -/
example : unwindPass [700, 701, 702] 2 0 = ([], [701, 702]) := by decide

/-- What happened before the repair: the rest of the vector was dropped. -/
example : (([] : List Nat), ([] : List Nat)) ≠ unwindPass [700, 701, 702] 2 0 := by decide

end A10.Blocked

/-! ### A blocked future and a free slot between two polls

The wake pass runs after `io_uring_enter` has returned. The state below is reachable (three
operations on a queue of one entry; the future that was woken for the freed slot is dropped without
using it): a future is still on the blocked list, a slot is free, nothing is queued, nothing has
completed. Before d4303dd a `Ring::poll(None)` would now wait in the kernel for the completion of the
one operation in flight (the observation F20 of earlier sessions, reproduced on the real kernel:
`seeded/_repro/f20_blocked.rs`); since d4303dd the call sees the blocked list and does not wait
(`C03_blocking_poll_does_not_wait_with_blocked`), and every poll that returns runs the wake pass
(`C03_blocked_progress`). -/

namespace A10.Life

def idleWitness : Sys :=
  let s : Sys := { sqLen := 1, cqLen := 2,
                   ops := [{ multi := false }, { multi := false }, { multi := false }],
                   opc := ["READ", "READ", "READ"] }
  let s := (s.poll 0 10).1        -- submitted
  let s := (s.poll 1 11).1        -- queue full: blocked
  let s := (s.poll 2 12).1        -- queue full: blocked
  let s := (s.rpoll []).1         -- the kernel consumes the submission; ONE slot, ONE future woken
  (s.dropOp 1).1                  -- …which is dropped without using the slot

theorem C03_blocked_idle_witness :
    idleWitness.blocked = [12] ∧ idleWitness.sqRoom = true ∧ idleWitness.sq = [] ∧
    idleWitness.cq = [] ∧ idleWitness.overflow = [] ∧ idleWitness.inflight = [0] := by
  decide

/-- …and the next poll that returns (whatever the kernel answers) wakes it. -/
theorem C03_blocked_idle_next_poll : ((afterEnter idleWitness []).wakeBlocked).2 = [12] := by
  decide

end A10.Life

/-! ## Whole batches in the multi-operation system (session 5) -/

namespace A10.Life
open A10

/-- `c` makes operation `o` ready: its final completion, or any completion of a multishot one. -/
def readies (o : Op) (c : Cqe) : Bool := !fMore c.flags || o.multi

/-- The effect fold of `Sys.process`. -/
def accEffs (i : Nat) (effs : List Eff) (a : Acc) : Acc :=
  effs.foldl (fun (a : Acc) e =>
    match e with
    | .wake w => { a with wakes := a.wakes ++ [w] }
    | .free => { a with frees := a.frees ++ [i] }
    | _ => a) a

theorem accEffs_wakes_mono (i : Nat) (effs : List Eff) : ∀ (a : Acc) (w : Nat), w ∈ a.wakes →
    w ∈ (accEffs i effs a).wakes := by
  induction effs with
  | nil => intro a w h; exact h
  | cons e es ih =>
    intro a w h
    simp only [accEffs, List.foldl_cons]
    apply ih
    cases e <;> simp [h]

theorem accEffs_wake_mem (i : Nat) (effs : List Eff) (a : Acc) (w : Nat) (h : Eff.wake w ∈ effs) :
    w ∈ (accEffs i effs a).wakes := by
  induction effs generalizing a with
  | nil => simp at h
  | cons e es ih =>
    simp only [accEffs, List.foldl_cons]
    rcases List.mem_cons.mp h with rfl | h'
    · exact accEffs_wakes_mono i es _ w (by simp)
    · exact ih _ h'

theorem process_wakes_mono (s : Sys) (a : Acc) (c : Cqe) (w : Nat) (h : w ∈ a.wakes) :
    w ∈ (s.process a c).2.wakes := by
  unfold Sys.process
  split
  · exact h
  · split
    · exact h
    · split
      · exact h
      · split
        · exact h
        · exact accEffs_wakes_mono _ _ a w h

theorem processAll_wakes_mono (cs : List Cqe) : ∀ (s : Sys) (a : Acc) (w : Nat), w ∈ a.wakes →
    w ∈ (processAll s a cs).2.wakes := by
  induction cs with
  | nil => intro s a w h; exact h
  | cons c cs ih =>
    intro s a w h
    have : processAll s a (c :: cs) = processAll (s.process a c).1 (s.process a c).2 cs := by
      simp [processAll]
    rw [this]
    exact ih _ _ w (process_wakes_mono s a c w h)

/-- One step: a ready-making completion of a running operation with a stored waker wakes it. -/
theorem process_wakes_ready (s : Sys) (a : Acc) (c : Cqe) (i : Nat) (o : Op) (r : Results) (w : Nat)
    (ho : s.ops[i]? = some o) (hst : o.status = .running r) (hw : o.waker = some w)
    (hc : addressed i c = true) (hr : readies o c = true) :
    w ∈ (s.process a c).2.wakes := by
  simp only [addressed, Bool.and_eq_true, Bool.not_eq_true', decide_eq_true_eq] at hc
  obtain ⟨hs, hud⟩ := hc
  have hupd : ∃ o' effs, o.update ⟨c.res, c.flags⟩ = some (o', effs) ∧ Eff.wake w ∈ effs := by
    cases o with
    | mk multi status waker boxLive resInit futLive frees resDrops =>
    simp at hst hw; subst hst hw
    simp only [readies, Bool.or_eq_true, Bool.not_eq_true'] at hr
    cases hm : fMore c.flags <;> cases multi <;> simp [Op.update, hm] at hr ⊢ <;>
      exact ⟨_, _, ⟨rfl, rfl⟩, by simp⟩
  obtain ⟨o', effs, hu, hmem⟩ := hupd
  unfold Sys.process
  simp only [hs, Bool.false_eq_true, if_false, hud, getOp, ho, hu]
  exact accEffs_wake_mem i effs a w hmem

/-- One step: a completion of the operation that does not make it ready leaves it running with
the same waker. -/
theorem upd1_not_ready (o : Op) (c : Cqe) (r : Results) (w : Nat)
    (hst : o.status = .running r) (hw : o.waker = some w) (hr : readies o c = false) :
    ∃ r', (upd1 o c).status = .running r' ∧ (upd1 o c).waker = some w ∧
      (upd1 o c).multi = o.multi := by
  cases o with
  | mk multi status waker boxLive resInit futLive frees resDrops =>
  simp at hst hw; subst hst hw
  simp only [readies, Bool.or_eq_false_iff, Bool.not_eq_false'] at hr
  obtain ⟨hm, hmu⟩ := hr
  subst hmu
  simp [upd1, Op.update, hm]

/-- **No lost wake-up in any batch.** An operation that returned `Pending` (it is `Running`, its
waker `w` is stored) is woken by the `Ring::poll` call whose batch contains the first completion
that makes it ready — its final completion, or any completion for a multishot operation — wherever
that completion stands in the batch, and whatever completions of other operations, bookkeeping
completions, `F_SKIP` entries and earlier non-final completions of its own surround it. -/
theorem C03_batch_wakes_ready (cs : List Cqe) : ∀ (s : Sys) (a : Acc) (i : Nat) (o : Op)
    (r : Results) (w : Nat),
    s.ops[i]? = some o → o.status = .running r → o.waker = some w →
    (∃ c ∈ cs, addressed i c = true ∧ readies o c = true) →
    w ∈ (processAll s a cs).2.wakes := by
  induction cs with
  | nil => intro s a i o r w _ _ _ h; simp at h
  | cons c cs ih =>
    intro s a i o r w ho hst hw hex
    have hstep : processAll s a (c :: cs) = processAll (s.process a c).1 (s.process a c).2 cs := by
      simp [processAll]
    rw [hstep]
    by_cases hnow : addressed i c = true ∧ readies o c = true
    · exact processAll_wakes_mono cs _ _ w (process_wakes_ready s a c i o r w ho hst hw hnow.1 hnow.2)
    · have htail : ∃ c' ∈ cs, addressed i c' = true ∧ readies o c' = true := by
        obtain ⟨c', hc', h1, h2⟩ := hex
        rcases List.mem_cons.mp hc' with rfl | hc''
        · exact absurd ⟨h1, h2⟩ hnow
        · exact ⟨c', hc'', h1, h2⟩
      have hget := process_get s a c i
      by_cases had : addressed i c = true
      · have hnr : readies o c = false := by
          cases h : readies o c
          · rfl
          · exact absurd ⟨had, h⟩ hnow
        obtain ⟨r', e1, e2, e3⟩ := upd1_not_ready o c r w hst hw hnr
        rw [had, ho] at hget
        simp only [if_true, Option.map] at hget
        refine ih _ _ i (upd1 o c) r' w hget e1 e2 ?_
        obtain ⟨c', hc', h1, h2⟩ := htail
        exact ⟨c', hc', h1, by simpa [readies, e3] using h2⟩
      · have had' : addressed i c = false := by simpa using had
        rw [had', ho] at hget
        simp only [Bool.false_eq_true, if_false] at hget
        exact ih _ _ i o r w hget hst hw htail

/-- Non-vacuity: the final completion of operation 1 in the middle of a batch, after one of its
own non-final completions, wakes waker 42. -/
example :
    let s : Sys := { ops := [{ multi := true, status := .running (.multi []), waker := some 7 },
                             { multi := false, status := .running (.single ⟨0, 0⟩), waker := some 42 }] }
    let cs : List Cqe := [⟨.op 1, 3, 2⟩, ⟨.reserved 1, 0, 0⟩, ⟨.op 1, 0, 0⟩, ⟨.op 0, 1, 2⟩]
    (processAll s {} cs).2.wakes = [42, 7] := by decide

theorem drainCq_acc (s : Sys) (a : Acc) : (s.drainCq a).2 = (processAll s a s.cq).2 := by
  simp [Sys.drainCq, processAll]

/-- The same for `drainCq`, the function the `life` driver runs for the completion loop of
`Ring::poll`: a `Running` operation with stored waker `w` is woken by the poll whose queue
contains a completion that makes it ready. -/
theorem C03_drain_wakes_ready (s : Sys) (a : Acc) (i : Nat) (o : Op) (r : Results) (w : Nat)
    (ho : s.ops[i]? = some o) (hst : o.status = .running r) (hw : o.waker = some w)
    (hex : ∃ c ∈ s.cq, addressed i c = true ∧ readies o c = true) :
    w ∈ (s.drainCq a).2.wakes := by
  rw [drainCq_acc]
  exact C03_batch_wakes_ready s.cq s a i o r w ho hst hw hex

end A10.Life
