/-
C02 — Each operation receives exactly its own kernel results, once and in order.

Statement (properties.jsonl): a started operation resolves with the result the
kernel produced for that very submission — never another operation's result,
never a result twice, never a made-up one — whatever order the kernel
completes concurrent operations in. A multishot operation yields every result
the kernel posted for it, in the kernel's order, without loss or duplication,
and then ends exactly once after the final one; an operation that needs two
completions resolves only after the second and reports the value of the first.

Model: `Model/Op.lean`; ghost history in `Lemmas/OpSys.lean` (`posted` = every
completion the kernel posted for the current submission, `processed` = those
`Ring::poll` has dispatched, `delivered` = values handed to the caller).
Routing between concurrent operations: `Model/Life.lean`.
-/
import A10Verif.Lemmas.OpResults
import A10Verif.Model.Life
import A10Verif.Lemmas.LifeRefine

namespace A10.OpSys
open A10

/-- What a single-shot poll can return, and from which state. -/
theorem poll_single_ready (o : Op) (w : Nat) (room : Bool) (hm : o.multi = false) (hk : kindOk o)
    (v : Int) (hv : ov (o.poll w room).2.1 = [v]) :
    ∃ x, o.status = .done (.single x) ∧ x.res = v ∧ (o.poll w room).1.status = .complete := by
  cases o with
  | mk multi status waker boxLive resInit futLive frees resDrops =>
  simp at hm; subst hm
  cases status with
  | notStarted => cases room <;> simp [Op.poll, Op.pollAux, ov] at hv
  | dropped => simp [Op.poll, Op.pollAux, ov] at hv
  | complete => simp [Op.poll, Op.pollAux, ov] at hv
  | running r => simp [Op.poll, Op.pollAux, ov] at hv
  | done r =>
    cases r with
    | multi q => simp [kindOk] at hk
    | single x =>
      by_cases hx : 0 ≤ x.res
      · simp [Op.poll, Op.pollAux, Results.next, hx, ov] at hv ⊢; exact hv
      · by_cases hr : -x.res = EINTR ∨ -x.res = ECANCELED
        · cases room <;> simp [Op.poll, Op.pollAux, Results.next, hx, hr, Results.hasNext, ov] at hv
        · simp [Op.poll, Op.pollAux, Results.next, hx, hr, ov] at hv ⊢; omega

/-- **Single-shot and two-step operations.** If the future of a single-shot
operation resolves with value `v` (success or error), then in the state it was
polled in: the kernel had posted the final completion of the operation's
current submission and all its completions had been processed (nothing in
flight, nothing pending), `v` is the value of the last non-notification
completion the kernel posted for THIS submission (`slotOf posted`) — never a
made-up one — and the operation is `Complete` afterwards, so it cannot
resolve a second time (polling it again violates the `Future` contract and
panics). -/
theorem C02_single (s : OS) (hr : Reachable s) (hm : s.op.multi = false) (w : Nat) (room : Bool)
    (v : Int) (hv : ov (s.op.poll w room).2.1 = [v]) :
    s.inflight = false ∧ s.cq = [] ∧ s.processed = s.posted ∧ v = (slotOf s.posted).res ∧
    (s.op.poll w room).1.status = .complete := by
  obtain ⟨h, h2, _⟩ := reachable_all hr
  obtain ⟨x, hst, hx, hc⟩ := poll_single_ready s.op w room hm h2.r0 v hv
  have hna : ¬ active s.op := notActive_of _ (by simp [hst, isRunning]) (Or.inl (by simp [hst]))
  obtain ⟨q1, q2⟩ := quiet_of_not_active s h hna
  have hp : s.processed = s.posted := by simpa [q2] using h2.r1
  have := h2.r2 x (by simp [hst, sv])
  exact ⟨q1, q2, hp, by rw [← hp, ← this, hx], hc⟩

/-- **Two completions: the value of the first.** A zero-copy notification never
overwrites the stored result: with completions `[c₁, c₂]`, `c₂` the
notification, the reported value is `c₁`. More generally a trailing
notification leaves the slot unchanged. -/
theorem C02_zc_first_value (l : List Res) (n : Res) (hn : fNotif n.flags = true) :
    slotOf (l ++ [n]) = slotOf l := by
  simp [slotOf, List.foldl_append, slotStep, hn]

theorem C02_zc_two_step (c1 c2 : Res) (h1 : fNotif c1.flags = false) (h2 : fNotif c2.flags = true) :
    slotOf [c1, c2] = c1 := by
  simp [slotOf, slotStep, h1, h2]

/-- A single-shot operation resolves only after its final completion: while the
kernel still owes a completion (`Running`), every poll returns `Pending`. -/
theorem C02_single_waits (o : Op) (w : Nat) (room : Bool) (hm : o.multi = false)
    (hr : isRunning o.status = true) : (o.poll w room).2.1 = .pending := by
  cases o with
  | mk multi status waker boxLive resInit futLive frees resDrops =>
  simp at hm; subst hm
  cases status <;> simp [isRunning] at hr
  simp [Op.poll, Op.pollAux]

/-- **Multishot: no loss, no duplication, kernel order.** In every reachable
state of a multishot operation, the values already handed to the caller,
followed by the queued results, followed by the completions still waiting in
the completion queue, are exactly the results the kernel posted for the
current submission, in the kernel's order. -/
theorem C02_multi_prefix (s : OS) (hr : Reachable s) (l : List Int)
    (hq : qv s.op.status = some l) :
    s.delivered ++ l ++ s.cq.map (·.res) = s.posted.map (·.res) := by
  obtain ⟨_, h2, _⟩ := reachable_all hr
  rw [← h2.r1, List.map_append, h2.r3 l hq]

/-- What a multishot poll returns `None` from. -/
theorem poll_multi_none (o : Op) (w : Nat) (room : Bool)
    (hn : (o.poll w room).2.1 = .readyNone) :
    (o.status = .done (.multi []) ∧ (o.poll w room).1.status = .complete) := by
  cases o with
  | mk multi status waker boxLive resInit futLive frees resDrops =>
  cases status with
  | notStarted => cases room <;> simp [Op.poll, Op.pollAux] at hn
  | dropped => simp [Op.poll, Op.pollAux] at hn
  | complete => simp [Op.poll, Op.pollAux] at hn
  | running r =>
    cases multi
    · simp [Op.poll, Op.pollAux] at hn
    · cases r with
      | single x => simp [Op.poll, Op.pollAux, Results.next] at hn; split at hn <;> simp at hn
      | multi q =>
        cases q with
        | nil => simp [Op.poll, Op.pollAux, Results.next] at hn
        | cons x q' => simp [Op.poll, Op.pollAux, Results.next] at hn; split at hn <;> simp at hn
  | done r =>
    cases r with
    | single x =>
      by_cases hx : 0 ≤ x.res
      · cases multi <;> simp [Op.poll, Op.pollAux, Results.next, hx] at hn
      · by_cases hr : -x.res = EINTR ∨ -x.res = ECANCELED
        · cases room <;> cases multi <;>
            simp [Op.poll, Op.pollAux, Results.next, hx, hr, Results.hasNext] at hn
        · cases multi <;> simp [Op.poll, Op.pollAux, Results.next, hx, hr] at hn
    | multi q =>
      cases q with
      | nil => simp [Op.poll, Op.pollAux, Results.next]
      | cons x q' =>
        by_cases hx : 0 ≤ x.res
        · cases multi <;> simp [Op.poll, Op.pollAux, Results.next, hx] at hn
        · by_cases hr : -x.res = EINTR ∨ -x.res = ECANCELED
          · cases q' <;> cases room <;> cases multi <;>
              simp [Op.poll, Op.pollAux, Results.next, hx, hr, Results.hasNext] at hn
          · cases multi <;> simp [Op.poll, Op.pollAux, Results.next, hx, hr] at hn

/-- **Multishot: ends exactly once, after everything.** If `poll_next` returns
`None`, the kernel has posted the final completion of the stream, every
result the kernel posted for it has been handed to the caller (in order), and
the operation is `Complete` afterwards: it cannot yield or end again. -/
theorem C02_multi_end (s : OS) (hr : Reachable s) (w : Nat) (room : Bool)
    (hn : (s.op.poll w room).2.1 = .readyNone) :
    s.inflight = false ∧ s.cq = [] ∧ s.delivered = s.posted.map (·.res) ∧
    (s.op.poll w room).1.status = .complete := by
  obtain ⟨h, h2, _⟩ := reachable_all hr
  obtain ⟨hst, hc⟩ := poll_multi_none s.op w room hn
  have hna : ¬ active s.op := notActive_of _ (by simp [hst, isRunning]) (Or.inl (by simp [hst]))
  obtain ⟨q1, q2⟩ := quiet_of_not_active s h hna
  have := C02_multi_prefix s hr [] (by simp [hst, qv])
  exact ⟨q1, q2, by simpa [q2] using this, hc⟩

/-- A multishot poll hands out exactly the oldest queued result (or reports
`Pending`/`None` when there is none): results are never reordered. -/
theorem C02_multi_fifo (o : Op) (w : Nat) (room : Bool) (hk : kindOk o) (l' : List Int)
    (hns : (o.poll w room).2.2.contains .submit = false)
    (hq : qv (o.poll w room).1.status = some l') :
    qv o.status = some (ov (o.poll w room).2.1 ++ l') :=
  ((poll_results o w room hk).2.2 hns).1 l' hq

end A10.OpSys

namespace A10.Life
open A10

/-- **Routing.** Processing a completion whose `user_data` names operation `i`
changes no other operation; bookkeeping completions (reserved `user_data`
0–3) and `F_SKIP` entries change no operation at all. So whatever order the
kernel completes concurrent operations in, each operation's state evolves only
through its own completions. -/
theorem C02_routing (s : Sys) (a : Acc) (c : Cqe) :
    (∀ i, c.ud = .op i → ∀ j, j ≠ i → (s.process a c).1.ops[j]? = s.ops[j]?) ∧
    ((fSkip c.flags = true ∨ ∃ n, c.ud = .reserved n) → (s.process a c).1.ops = s.ops) := by
  constructor
  · intro i hi j hj
    unfold Sys.process
    split
    · rfl
    · simp only [hi]
      cases hgo : getOp s i with
      | none => simp
      | some o =>
        simp only
        cases hu : o.update ⟨c.res, c.flags⟩ with
        | none => simp
        | some p => simp [setOp, List.getElem?_set_ne (Ne.symm hj)]
  · intro h
    unfold Sys.process
    rcases h with h | ⟨n, h⟩
    · simp [h]
    · split
      · rfl
      · simp [h]

/-- Effect of one operation completion on the list of operations. -/
def updOps (ops : List Op) (k : Nat) (c : Cqe) : List Op :=
  match ops[k]? with
  | none => ops
  | some o =>
    match o.update ⟨c.res, c.flags⟩ with
    | none => ops
    | some p => ops.set k p.1

theorem process_ops (s : Sys) (a : Acc) (c : Cqe) (k : Nat) (hk : c.ud = .op k) :
    (s.process a c).1.ops = if fSkip c.flags then s.ops else updOps s.ops k c := by
  unfold Sys.process updOps
  split
  · rfl
  · simp only [hk, getOp]
    cases s.ops[k]? with
    | none => simp
    | some o =>
      simp only
      cases o.update ⟨c.res, c.flags⟩ with
      | none => simp
      | some p => simp [setOp]

theorem updOps_get_ne (ops : List Op) (k m : Nat) (c : Cqe) (h : m ≠ k) :
    (updOps ops k c)[m]? = ops[m]? := by
  unfold updOps
  cases ops[k]? with
  | none => rfl
  | some o =>
    simp only
    cases o.update ⟨c.res, c.flags⟩ with
    | none => rfl
    | some p => simp [List.getElem?_set_ne (Ne.symm h)]

theorem updOps_get_self (ops : List Op) (k : Nat) (c : Cqe) :
    (updOps ops k c)[k]? =
      match ops[k]? with
      | none => none
      | some o => match o.update ⟨c.res, c.flags⟩ with
        | none => some o
        | some p => some p.1 := by
  unfold updOps
  cases h : ops[k]? with
  | none => simp [h]
  | some o =>
    simp only
    cases o.update ⟨c.res, c.flags⟩ with
    | none => simp [h]
    | some p =>
      have hlt : k < ops.length := by
        have := List.getElem?_eq_some_iff.mp h
        exact this.1
      simp [List.getElem?_set_self hlt]

theorem updOps_comm (ops : List Op) (i j : Nat) (c1 c2 : Cqe) (hij : i ≠ j) :
    updOps (updOps ops i c1) j c2 = updOps (updOps ops j c2) i c1 := by
  apply List.ext_getElem?
  intro m
  by_cases hmi : m = i
  · subst hmi
    rw [updOps_get_ne _ j m c2 hij, updOps_get_self, updOps_get_self, updOps_get_ne _ j m c2 hij]
  · by_cases hmj : m = j
    · subst hmj
      rw [updOps_get_self, updOps_get_ne _ i m c1 hmi, updOps_get_ne _ i m c1 hmi, updOps_get_self]
    · rw [updOps_get_ne _ j m c2 hmj, updOps_get_ne _ i m c1 hmi, updOps_get_ne _ i m c1 hmi,
        updOps_get_ne _ j m c2 hmj]

/-- Processing the completions of two different operations commutes on the
operations' states: the per-operation outcome does not depend on how the
kernel interleaves completions of different operations. -/
theorem C02_order_independent (s : Sys) (a : Acc) (c1 c2 : Cqe) (i j : Nat) (hij : i ≠ j)
    (h1 : c1.ud = .op i) (h2 : c2.ud = .op j) :
    (((s.process a c1).1.process (s.process a c1).2 c2).1.ops) =
    (((s.process a c2).1.process (s.process a c2).2 c1).1.ops) := by
  rw [process_ops _ _ c2 j h2, process_ops s a c1 i h1, process_ops _ _ c1 i h1,
    process_ops s a c2 j h2]
  cases hs1 : fSkip c1.flags <;> cases hs2 : fSkip c2.flags <;> simp
  exact updOps_comm s.ops i j c1 c2 hij

/-! ### Whole batches: an operation's state is a function of its own completions, in order -/

/-- The state of one operation after one of its own completions (`Shared::update`; a completion
the state machine rejects leaves the state as it is — and sets the `panicked` flag, see
`C02_system_no_stray_completion`). -/
def upd1 (o : Op) (c : Cqe) : Op :=
  match o.update ⟨c.res, c.flags⟩ with
  | none => o
  | some p => p.1

/-- `c` is a completion that operation `i` gets to see. -/
def addressed (i : Nat) (c : Cqe) : Bool := !fSkip c.flags && decide (c.ud = .op i)

/-- The completion loop of `Ring::poll`, as `drainCq` runs it. -/
def processAll (s : Sys) (a : Acc) (cs : List Cqe) : Sys × Acc :=
  cs.foldl (fun (p : Sys × Acc) c => p.1.process p.2 c) (s, a)

theorem process_get (s : Sys) (a : Acc) (c : Cqe) (i : Nat) :
    (s.process a c).1.ops[i]? =
      if addressed i c then s.ops[i]?.map (fun o => upd1 o c) else s.ops[i]? := by
  cases hud : c.ud with
  | reserved n =>
    have : (s.process a c).1 = s := by
      unfold Sys.process; split <;> simp [hud]
    simp [this, addressed, hud]
  | op k =>
    rw [process_ops s a c k hud]
    cases hs : fSkip c.flags
    · by_cases hki : k = i
      · subst hki
        simp only [addressed, hs, hud, Bool.not_false, decide_true, Bool.and_self, if_true]
        simp only [Bool.false_eq_true, if_false]
        rw [updOps_get_self]
        cases s.ops[k]? with
        | none => rfl
        | some o =>
          simp only [Option.map, upd1]
          cases o.update ⟨c.res, c.flags⟩ <;> rfl
      · have : addressed i c = false := by
          simp [addressed, hs, hud, hki]
        simp only [this, Bool.false_eq_true, if_false]
        exact updOps_get_ne _ k i c (Ne.symm hki)
    · simp [addressed, hs]

/-- **Any order, any batching.** After the completion loop has processed any list of completions
— of any number of operations, interleaved in whatever order the kernel chose — the state of
operation `i` is its state before, advanced by exactly the completions addressed to `i`, in the
kernel's order among themselves: completions of other operations, bookkeeping completions and
`F_SKIP` entries between them have no influence on it. -/
theorem C02_own_completions_only (cs : List Cqe) : ∀ (s : Sys) (a : Acc) (i : Nat),
    (processAll s a cs).1.ops[i]? =
      s.ops[i]?.map (fun o => (cs.filter (addressed i)).foldl upd1 o) := by
  induction cs with
  | nil => intro s a i; simp [processAll]
  | cons c cs ih =>
    intro s a i
    have hstep : processAll s a (c :: cs) = processAll (s.process a c).1 (s.process a c).2 cs := by
      simp [processAll]
    rw [hstep, ih, process_get]
    cases h : addressed i c
    · simp [List.filter, h]
    · cases s.ops[i]? <;> simp [List.filter, h]

/-- Hence two batches that give every operation the same completions in the same order — any
permutation of the kernel's completion order that keeps each operation's own completions in
order, split over `Ring::poll` calls in any way — leave every operation in the same state. -/
theorem C02_batch_order_independent (cs₁ cs₂ : List Cqe) (s : Sys) (a₁ a₂ : Acc)
    (h : ∀ i, cs₁.filter (addressed i) = cs₂.filter (addressed i)) :
    (processAll s a₁ cs₁).1.ops = (processAll s a₂ cs₂).1.ops := by
  apply List.ext_getElem?
  intro i
  rw [C02_own_completions_only, C02_own_completions_only, h i]

/-- Splitting a batch over two `Ring::poll` calls changes nothing. -/
theorem C02_batch_split (cs₁ cs₂ : List Cqe) (s : Sys) (a : Acc) :
    processAll s a (cs₁ ++ cs₂) =
      processAll (processAll s a cs₁).1 (processAll s a cs₁).2 cs₂ := by
  simp [processAll, List.foldl_append]

/-- Non-vacuity: a multishot and a single-shot operation, both running; the kernel's order
`[a₁, b, a₂]` and the permutation `[b, a₁, a₂]` (own order kept) give the same states, in which the
multishot operation holds `a₁, a₂` in that order and the single-shot one holds `b`. -/
example :
    let s : Sys := { ops := [{ multi := true, status := .running (.multi []) },
                             { multi := false, status := .running (.single ⟨0, 0⟩) }] }
    let a1 : Cqe := ⟨.op 0, 5, 2⟩
    let a2 : Cqe := ⟨.op 0, 6, 2⟩
    let b : Cqe := ⟨.op 1, 9, 0⟩
    (∀ i, [a1, b, a2].filter (addressed i) = [b, a1, a2].filter (addressed i)) ∧
    (processAll s {} [a1, b, a2]).1.ops = (processAll s {} [b, a1, a2]).1.ops ∧
    (processAll s {} [a1, b, a2]).1.ops.map (·.status) =
      [.running (.multi [⟨5, 2⟩, ⟨6, 2⟩]), .done (.single ⟨9, 0⟩)] := by
  refine ⟨?_, by decide, by decide⟩
  intro i
  match i with
  | 0 => decide
  | 1 => decide
  | n + 2 => simp [addressed]

/-- The results stored in a started, not dropped operation state. -/
def resultsOf : Status → Option Results
  | .running r | .done r => some r
  | _ => none

def toRes (c : Cqe) : Res := ⟨c.res, c.flags⟩

theorem foldl_upd1_results (l : List Cqe) : ∀ (o : Op) (r : Results), resultsOf o.status = some r →
    resultsOf (l.foldl upd1 o).status = some (l.foldl (fun (r : Results) c => r.update (toRes c)) r) := by
  induction l with
  | nil => intro o r h; simpa using h
  | cons c l ih =>
    intro o r h
    simp only [List.foldl_cons]
    apply ih
    cases o with
    | mk multi status waker boxLive resInit futLive frees resDrops =>
    cases status <;> simp [resultsOf] at h <;> subst h <;>
      cases hm : fMore c.flags <;> cases multi <;> cases waker <;>
      simp [upd1, Op.update, hm, resultsOf, toRes]

theorem foldl_update_multi (l : List Cqe) : ∀ (q : List Res),
    l.foldl (fun (r : Results) c => r.update (toRes c)) (Results.multi q) = Results.multi (q ++ l.map toRes) := by
  induction l with
  | nil => intro q; simp
  | cons c l ih =>
    intro q
    simp only [List.foldl_cons, List.map_cons]
    have : (Results.multi q).update (toRes c) = Results.multi (q ++ [toRes c]) := rfl
    rw [this, ih]; simp

theorem foldl_update_single (l : List Cqe) : ∀ (x : Res),
    l.foldl (fun (r : Results) c => r.update (toRes c)) (Results.single x) = Results.single ((l.map toRes).foldl OpSys.slotStep x) := by
  induction l with
  | nil => intro x; simp
  | cons c l ih =>
    intro x
    simp only [List.foldl_cons, List.map_cons]
    have : (Results.single x).update (toRes c) = Results.single (OpSys.slotStep x (toRes c)) := by
      cases hn : fNotif (toRes c).flags <;> simp [Results.update, OpSys.slotStep, hn]
    rw [this, ih]

/-- **Each operation's stored results are exactly its own completions, in the kernel's order —
for every batch.** For a started, not dropped operation `i` of the multi-operation system, after
the completion loop has processed ANY list of completions: a multishot operation's queue is its
queue before followed by exactly the completions addressed to `i`, in order (none lost, none
twice, none of a neighbour's); a single-shot operation's slot holds the last non-notification
completion addressed to `i` (a zero-copy notification never overwrites the result; with no such
completion it is unchanged). -/
theorem C02_batch_results (cs : List Cqe) (s : Sys) (a : Acc) (i : Nat) (o : Op)
    (ho : s.ops[i]? = some o) :
    (∀ q, resultsOf o.status = some (.multi q) →
      ∃ o', (processAll s a cs).1.ops[i]? = some o' ∧
        resultsOf o'.status = some (.multi (q ++ (cs.filter (addressed i)).map toRes))) ∧
    (∀ x, resultsOf o.status = some (.single x) →
      ∃ o', (processAll s a cs).1.ops[i]? = some o' ∧
        resultsOf o'.status =
          some (.single (((cs.filter (addressed i)).map toRes).foldl OpSys.slotStep x))) := by
  have hget : (processAll s a cs).1.ops[i]? = some ((cs.filter (addressed i)).foldl upd1 o) := by
    rw [C02_own_completions_only, ho]; rfl
  constructor
  · intro q hq
    exact ⟨_, hget, by rw [foldl_upd1_results _ o _ hq, foldl_update_multi]⟩
  · intro x hx
    exact ⟨_, hget, by rw [foldl_upd1_results _ o _ hx, foldl_update_single]⟩

/-- Non-vacuity: two multishot operations and a zero-copy style single-shot one, interleaved. -/
example :
    let s : Sys := { ops := [{ multi := true, status := .running (.multi [⟨1, 2⟩]) },
                             { multi := true, status := .done (.multi []) },
                             { multi := false, status := .running (.single ⟨0, 0⟩) }] }
    let cs : List Cqe := [⟨.op 1, 8, 2⟩, ⟨.op 0, 2, 2⟩, ⟨.op 2, 77, 2⟩, ⟨.op 1, 9, 2⟩, ⟨.op 2, 0, 8⟩,
                          ⟨.op 0, 3, 0⟩]
    (processAll s {} cs).1.ops.map (fun o => resultsOf o.status) =
      [some (.multi [⟨1, 2⟩, ⟨2, 2⟩, ⟨3, 0⟩]), some (.multi [⟨8, 2⟩, ⟨9, 2⟩]),
       some (.single ⟨77, 2⟩)] := by decide

/-- `drainCq` is this loop over the queue's contents. -/
theorem drainCq_ops (s : Sys) (a : Acc) : (s.drainCq a).1.ops = (processAll s a s.cq).1.ops := by
  simp [Sys.drainCq, processAll]

/-- The same for the function the `life` driver runs for `Ring::poll`'s completion loop: after
`drainCq`, operation `i` is its previous state advanced by exactly the queued completions
addressed to it, in queue order, and the queue is empty. -/
theorem C02_drain_own_completions_only (s : Sys) (a : Acc) (i : Nat) :
    (s.drainCq a).1.ops[i]? = s.ops[i]?.map (fun o => (s.cq.filter (addressed i)).foldl upd1 o) ∧
    (s.drainCq a).1.cq = [] := by
  constructor
  · rw [drainCq_ops, C02_own_completions_only]
  · simp [Sys.drainCq]

end A10.Life

namespace A10.OpSys
open A10
/-! ### Non-vacuity -/
example :
    let es := [Ev.poll 1 true, .kpost ⟨11, 2⟩, .process, .kpost ⟨0, 8⟩, .process]
    validRun (init false) es = true ∧
    ov ((run (init false) es).op.poll 1 true).2.1 = [11] := by decide

example :
    let es := [Ev.poll 1 true, .kpost ⟨3, 2⟩, .kpost ⟨4, 2⟩, .process, .poll 1 true, .process,
               .kpost ⟨0, 0⟩, .process, .poll 1 true, .poll 1 true]
    validRun (init true) es = true ∧ (run (init true) es).delivered = [3, 4, 0] ∧
    ((run (init true) es).op.poll 1 true).2.1 = .readyNone := by decide
end A10.OpSys

namespace A10.Life
open A10

/-- **Dispatch never hits `unreachable!()`**: in every reachable state of the multi-operation
system, processing the completion queue never delivers a completion to an operation that is not
running (`Shared::update`'s `NotStarted | Complete => unreachable!()` arm), i.e. never a result
for a submission that does not exist: the `panicked` flag is unchanged by `drainCq`. -/
theorem C02_system_no_stray_completion {s : Sys} (hr : Reachable s) (a : Acc) :
    (s.drainCq a).snd.panicked = a.panicked :=
  life_no_panic hr a

end A10.Life
